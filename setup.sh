#!/bin/sh
# Build everything the checks need, offline, from files on disk only.
set -e
cd "$(dirname "$0")"
export GOFLAGS=-mod=mod GOPROXY=off GOSUMDB=off GOTOOLCHAIN=local
mkdir -p build/bin evidence replays
( cd coq && ./mkproject.sh && coq_makefile -f _CoqProject -o Makefile && timeout 3000 make -k -j16 || true ) 
cp /repo/go.sum harness/go.sum; [ -f harness/go.sum.extra ] && cat harness/go.sum.extra >> harness/go.sum
( cd translator && go build -o ../build/bin/translator . ) || true
( cd harness && go build -tags verif ./... ) || true
echo setup done
