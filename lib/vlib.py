"""Shared machinery for every property check (see DESIGN.md sections 2 and 3).

A check module (checks/cNN.py) defines  run(ctx)  and uses:

  ctx.regen(gens)            translator: /repo -> coq/Gen/*.v     (K-gen)
  ctx.prove("C35")           make the cone of coq/Props/C35.vo    (A)
  ctx.model("c35")           extracted OCaml model runner          (K-diff, model side)
  ctx.harness("c35")         Go harness built against /repo        (K-diff, impl side)
  ctx.broken(what, detail)   a proof obligation / correspondence no longer checks
  ctx.fail(key, desc, replay) the direct oracle found the property failing on the
                             implementation for the input identified by `key`
  ctx.cover(...)             coverage numbers for the evidence file
and returns; the driver then applies the decision rule and writes the evidence.
"""
import fcntl
import hashlib
import json
import os
import re
import shutil
import subprocess
import sys
import tempfile
import time

VERIF = os.path.dirname(os.path.dirname(os.path.abspath(__file__)))
REPO = os.path.abspath(os.environ.get("VERIF_REPO", "/repo"))
PRIVATE = REPO != "/repo"   # a private worktree (mutation experiments): private copies of coq/ and harness/ are used
BUILD = os.path.join(VERIF, "build")
COQ = os.path.join(VERIF, "coq")
BIN = os.path.join(BUILD, "bin")
HARNESS = os.path.join(VERIF, "harness")
TRANSLATOR = os.path.join(VERIF, "translator")
KNOWN = os.path.join(VERIF, "known_findings.txt")

GOENV = dict(os.environ)
GOENV.update({
    "GOFLAGS": "-mod=mod",
    "GOPROXY": "off",
    "GOSUMDB": "off",
    "GOTOOLCHAIN": "local",
    "GONOSUMCHECK": "1",
    "GONOSUMDB": "*",
    "CGO_ENABLED": os.environ.get("CGO_ENABLED", "0"),
})

PTAG = hashlib.sha256(REPO.encode()).hexdigest()[:10] if PRIVATE else ""
if PRIVATE:
    COQ = os.path.join(BUILD, "coq_" + PTAG)

FORBIDDEN = re.compile(
    r"\b(Admitted|admit|Axiom|Axioms|Parameter|Parameters|Conjecture|Conjectures|Hypothesis|Hypotheses|Variable|Variables|"
    r"Admit Obligations|bypass_check|Unset Guard Checking|Unset Positivity Checking|"
    r"Unset Universe Checking|type-in-type|impredicative-set|native_compute)\b")


def sh(cmd, cwd=None, env=None, timeout=None, input=None, stdout=subprocess.PIPE, stderr=subprocess.STDOUT):
    """Run a command (list or shell string); return (rc, output-text)."""
    shell = isinstance(cmd, str)
    try:
        p = subprocess.run(cmd, cwd=cwd, env=env, shell=shell, timeout=timeout, input=input,
                           stdout=stdout, stderr=stderr)
        out = p.stdout.decode("utf-8", "replace") if p.stdout is not None else ""
        return p.returncode, out
    except subprocess.TimeoutExpired as e:
        out = e.stdout.decode("utf-8", "replace") if e.stdout else ""
        return 124, out + "\n[timeout after %ss]" % timeout


class Lock:
    """Build steps share coq/ and build/; serialise them across concurrent checks."""

    def __init__(self, name):
        os.makedirs(BUILD, exist_ok=True)
        self.path = os.path.join(BUILD, "." + name + ".lock")

    def __enter__(self):
        self.f = open(self.path, "w")
        fcntl.flock(self.f, fcntl.LOCK_EX)
        return self

    def __exit__(self, *a):
        fcntl.flock(self.f, fcntl.LOCK_UN)
        self.f.close()


def strip_coq_comments(text):
    out, depth, i, n = [], 0, 0, len(text)
    while i < n:
        if text.startswith("(*", i):
            depth += 1
            i += 2
        elif text.startswith("*)", i) and depth > 0:
            depth -= 1
            i += 2
        else:
            if depth == 0:
                out.append(text[i])
            i += 1
    return "".join(out)


def known_findings(pid):
    """-> (dict key->desc of `finding:` entries, list of `fixed:` lines) for the property."""
    finds, fixed = {}, []
    lines = []
    if os.path.exists(KNOWN):
        lines += open(KNOWN).readlines()
    d = os.path.join(VERIF, "known_findings.d")
    if os.path.isdir(d):
        for f in sorted(os.listdir(d)):
            if f.endswith(".txt"):
                lines += open(os.path.join(d, f)).readlines()
    for line in lines:
        line = line.strip()
        if not line or line.startswith("#"):
            continue
        m = re.match(r"finding:\s+property=(\S+)\s+key=(\S+)\s*(.*)", line)
        if m and m.group(1) == pid:
            finds[m.group(2)] = m.group(3)
            continue
        m = re.match(r"fixed:\s+property=(\S+)\s+(.*)", line)
        if m and m.group(1) == pid:
            fixed.append(m.group(2))
    return finds, fixed


class SplitMix:
    """The one PRNG stream python-side generators derive from VERIF_SEED."""

    def __init__(self, seed):
        self.s = seed & 0xFFFFFFFFFFFFFFFF

    def next(self):
        self.s = (self.s + 0x9E3779B97F4A7C15) & 0xFFFFFFFFFFFFFFFF
        z = self.s
        z = ((z ^ (z >> 30)) * 0xBF58476D1CE4E5B9) & 0xFFFFFFFFFFFFFFFF
        z = ((z ^ (z >> 27)) * 0x94D049BB133111EB) & 0xFFFFFFFFFFFFFFFF
        return z ^ (z >> 31)

    def below(self, n):
        return self.next() % n

    def choice(self, xs):
        return xs[self.below(len(xs))]


class Ctx:
    def __init__(self, pid, tier, seed, replay=None):
        self.pid, self.tier, self.seed, self.replay = pid, tier, seed, replay
        self.t0 = time.time()
        self.quick = tier == "quick"
        self.rng = SplitMix(seed)
        self.scratch = tempfile.mkdtemp(prefix="verif.%s." % pid, dir="/var/tmp")
        self.brokens = []      # (what, detail)
        self.failures = []     # (key, desc, replay-payload)
        self.coverage = {"evaluations": 0, "distinct_nontrivial": 0, "samples": [], "rule": ""}
        self.obligations = 0
        self.discharged = 0
        self.checker_cmds = []
        self.assumptions_printed = []
        self.trusted = [
            "Coq 8.16.1 kernel (vm_compute used; native_compute not used)",
            "translator /verif/translator (Go, go/ast+go/types) for coq/Gen/*.v",
            "extraction: Require Extraction ExtrOcamlBasic only; N/Z/positive kept as extracted inductives; OCaml 4.13.1",
            "Go harness /verif/harness (generators, canonicalisers, oracles) and the Go toolchain building /repo",
        ]
        self.assumes = []
        self.notes = {}
        self.known, self.fixed = known_findings(pid)
        self.level = "proof"
        self.log_lines = []
        if PRIVATE:
            # private copy of the Coq development (with its compiled files) so that regeneration
            # from the private worktree does not disturb /verif/coq
            with Lock("build_" + PTAG):
                os.makedirs(COQ, exist_ok=True)
                rc, out = sh(["rsync", "-a", "--delete", os.path.join(VERIF, "coq") + "/", COQ + "/"])
                if rc not in (0, 24):  # 24 = a file vanished during the copy (another run's temp file)
                    raise RuntimeError("rsync of coq/ failed: " + out)

    # ---------------------------------------------------------------- utilities
    def log(self, *a):
        msg = " ".join(str(x) for x in a)
        self.log_lines.append(msg)
        print("[%s %6.1fs] %s" % (self.pid, time.time() - self.t0, msg), flush=True)

    def n(self, quick, thorough):
        return quick if self.quick else thorough

    def trust(self, *items):
        for i in items:
            if i not in self.trusted:
                self.trusted.append(i)

    def assume(self, *items):
        for i in items:
            if i not in self.assumes:
                self.assumes.append(i)

    def cover(self, evaluations=0, distinct_nontrivial=0, samples=(), rule=None, **extra):
        c = self.coverage
        c["evaluations"] += int(evaluations)
        c["distinct_nontrivial"] += int(distinct_nontrivial)
        for s in samples:
            if len(c["samples"]) < 12:
                c["samples"].append(s)
        if rule:
            c["rule"] = (c["rule"] + " | " if c["rule"] else "") + rule
        for k, v in extra.items():
            c[k] = v

    def broken(self, what, detail=""):
        self.log("BROKEN:", what, "--", detail[:400].replace("\n", " / "))
        self.brokens.append((what, detail))

    def fail(self, key, desc, replay=None):
        """Direct-oracle failure on the implementation, identified by `key`."""
        self.failures.append((key, desc, replay if replay is not None else {"key": key, "desc": desc}))

    # ---------------------------------------------------------------- K-gen
    def regen(self, gens):
        """Run the translator for the named generators; Gen/*.v are rewritten only if changed."""
        with Lock("build" + PTAG):
            os.makedirs(BIN, exist_ok=True)
            rc, out = sh(["go", "build", "-o", os.path.join(BIN, "translator"), "."], cwd=TRANSLATOR, env=GOENV, timeout=600)
            if rc != 0:
                raise RuntimeError("translator build failed:\n" + out)
            rc, out = sh([os.path.join(BIN, "translator"), "-repo", REPO, "-out", os.path.join(COQ, "Gen"),
                          "-json", os.path.join(BUILD, "gen" + PTAG)] + list(gens), cwd=REPO, env=GOENV, timeout=600)
        if rc != 0:
            # the translator could not read the site it translates: the model is no longer
            # regenerated from the source -> the obligation over it is not discharged
            self.broken("translator(%s)" % ",".join(gens), out[-1500:])
            return False
        for l in out.splitlines():
            if l.startswith("gen:"):
                self.log(l)
        return True

    def gen_json(self, name):
        return json.load(open(os.path.join(BUILD, "gen" + PTAG, name + ".json")))

    # ---------------------------------------------------------------- A: proofs
    def ensure_coq_makefile(self):
        mk = os.path.join(COQ, "Makefile")
        proj = os.path.join(COQ, "_CoqProject")
        rc, out = sh("./mkproject.sh", cwd=COQ)
        if rc != 0:
            raise RuntimeError("mkproject failed: " + out)
        if not os.path.exists(mk) or os.path.getmtime(mk) < os.path.getmtime(proj):
            rc, out = sh(["coq_makefile", "-f", "_CoqProject", "-o", "Makefile"], cwd=COQ)
            if rc != 0:
                raise RuntimeError("coq_makefile failed: " + out)

    def prove(self, prop=None, timeout=1500):
        """Full .vo build of the cone of Props/<prop>.v; returns True iff every obligation checked."""
        prop = prop or self.pid
        target = "Props/%s.vo" % prop
        src = os.path.join(COQ, "Props", prop + ".v")
        text = strip_coq_comments(open(src).read())
        thms = re.findall(r"^\s*(?:Theorem|Lemma|Corollary|Example|Fact)\s+([A-Za-z0-9_']+)", text, re.M)
        self.obligations += len(thms)
        cmd = "make -j16 %s" % target
        with Lock("build" + PTAG):
            self.ensure_coq_makefile()
            try:
                os.remove(os.path.join(COQ, target))
            except FileNotFoundError:
                pass
            t = time.time()
            rc, out = sh("ulimit -v 12000000; timeout %d %s" % (timeout, cmd), cwd=COQ)
            self.log("coq: %s rc=%d in %.1fs" % (cmd, rc, time.time() - t))
        self.checker_cmds.append("cd coq && coq_makefile -f _CoqProject -o Makefile && " + cmd)
        open(os.path.join(BUILD, "coq_%s.log" % prop), "w").write(out)
        if rc != 0:
            m = re.search(r'File "([^"]+)", line (\d+).*?\n(Error:.*?)(?:\n\n|\nmake|\Z)', out, re.S)
            where = "%s:%s %s" % (m.group(1), m.group(2), m.group(3)[:600]) if m else out[-800:]
            self.broken("proof(%s)" % target, where)
            return False
        # forbidden constructs anywhere in the development
        bad = self.grep_forbidden(prop)
        if bad:
            self.broken("forbidden-construct", "; ".join(bad[:5]))
            return False
        # Print Assumptions output
        closed = len(re.findall(r"Closed under the global context", out))
        axioms = re.findall(r"^Axioms:\n((?:.+\n)+?)(?=\S|\Z)", out, re.M)
        self.assumptions_printed.append({"file": target, "closed_under_global_context": closed,
                                         "axioms": [a.strip() for a in axioms]})
        if axioms:
            for a in axioms:
                self.trust("axiom reported by Print Assumptions: " + " ".join(a.split())[:300])
        self.discharged += len(thms)
        self.notes.setdefault("theorems", []).extend(thms)
        if not self.quick:
            self.coqchk(prop)
        return True

    def coqchk(self, prop):
        t = time.time()
        cmd = "coqchk -silent -o -Q . V V.Props.%s" % prop
        rc, out = sh("ulimit -v 16000000; timeout 3000 " + cmd, cwd=COQ)
        self.log("coqchk rc=%d in %.1fs" % (rc, time.time() - t))
        self.checker_cmds.append("cd coq && " + cmd)
        self.notes["coqchk"] = out[-1500:]
        if rc != 0:
            self.broken("coqchk(%s)" % prop, out[-800:])

    def cone(self, prop):
        """The .v files Props/<prop>.v depends on (coqdep), Extract/ files of the same models included."""
        rc, out = sh("coqdep -Q . V -sort Props/%s.v 2>/dev/null" % prop, cwd=COQ)
        files = [f for f in out.split() if f.endswith(".v")]
        return [os.path.join(COQ, f) for f in files] or None

    def grep_forbidden(self, prop=None):
        bad = []
        cone = self.cone(prop) if prop else None
        if cone is None:
            cone = [os.path.join(r, f) for r, _, fs in os.walk(COQ) for f in fs if f.endswith(".v")]
        self.notes["cone_files"] = [os.path.relpath(p, COQ) for p in cone]
        for p in cone:
            for _ in (0,):
                if True:
                    text = strip_coq_comments(open(p).read())
                    for i, line in enumerate(text.splitlines(), 1):
                        if FORBIDDEN.search(line):
                            # Section-local Variable/Hypothesis are allowed; only flag the listed words
                            if re.search(r"\b(Hypothesis|Hypotheses|Variable|Variables)\b", line) and self._in_section(text, i):
                                continue
                            bad.append("%s:%d: %s" % (os.path.relpath(p, VERIF), i, line.strip()[:80]))
        return bad

    @staticmethod
    def _in_section(text, lineno):
        depth = 0
        for i, line in enumerate(text.splitlines(), 1):
            if i >= lineno:
                break
            if re.match(r"\s*Section\s+\w+", line):
                depth += 1
            elif re.match(r"\s*End\s+\w+", line) and depth > 0:
                depth -= 1
        return depth > 0

    def check_gen_obligation(self, name, ok, detail=""):
        """A vm_compute table obligation evaluated outside a Theorem (counts as one obligation)."""
        self.obligations += 1
        if ok:
            self.discharged += 1
        else:
            self.broken("table-obligation(%s)" % name, detail)

    # ---------------------------------------------------------------- model / harness
    def model(self, name, timeout=600):
        """Build (if stale) and return the path of the extracted-model runner build/bin/model_<name>.

        coq/Extract/<Name>.v must `Extraction "<name>model.ml" ...`; ocaml/<name>_driver.ml is the driver."""
        exe = os.path.join(BIN, "model_" + name + ("_" + PTAG if PRIVATE else ""))
        cap = name[0].upper() + name[1:]
        with Lock("build" + PTAG):
            self.ensure_coq_makefile()
            rc, out = sh("ulimit -v 12000000; timeout %d make -j16 Extract/%s.vo" % (timeout, cap), cwd=COQ)
            if rc != 0:
                raise RuntimeError("extraction build failed for %s:\n%s" % (name, out[-3000:]))
            ml = os.path.join(COQ, name + "model.ml")
            drv = os.path.join(VERIF, "ocaml", name + "_driver.ml")
            if (not os.path.exists(exe) or os.path.getmtime(exe) < os.path.getmtime(ml)
                    or os.path.getmtime(exe) < os.path.getmtime(drv)):
                d = os.path.join(BUILD, "ocaml_" + name + PTAG)
                shutil.rmtree(d, ignore_errors=True)
                os.makedirs(d)
                for f in (ml, ml + "i"):
                    shutil.copy(f, d)
                shutil.copy(drv, os.path.join(d, "driver.ml"))
                rc, out = sh("ocamlfind ocamlopt -O3 -package str,unix -linkpkg %smodel.mli %smodel.ml driver.ml -o %s 2>&1 || "
                             "ocamlfind ocamlopt -package str,unix -linkpkg %smodel.mli %smodel.ml driver.ml -o %s"
                             % (name, name, exe, name, name, exe), cwd=d, timeout=timeout)
                if rc != 0:
                    raise RuntimeError("ocaml build failed for %s:\n%s" % (name, out[-3000:]))
        return exe

    def harness(self, name, tags="verif", race=False, timeout=900):
        """go build harness/cmd/<name> against /repo's working tree; returns the binary path."""
        exe = os.path.join(BIN, "h_" + name + ("_race" if race else ""))
        if PRIVATE:
            return self._harness_private(name, tags, race, timeout)
        with Lock("build" + PTAG):
            self.sync_gosum()
            cmd = ["go", "build", "-tags", tags, "-o", exe]
            env = dict(GOENV)
            if race:
                cmd.insert(2, "-race")
                env["CGO_ENABLED"] = "1"
            rc, out = sh(cmd + ["./cmd/" + name], cwd=HARNESS, env=env, timeout=timeout)
        if rc != 0:
            raise RuntimeError("harness build failed for %s:\n%s" % (name, out[-3000:]))
        return exe

    def _harness_private(self, name, tags, race, timeout):
        tag = PTAG
        hdir = os.path.join(BUILD, "harness_" + tag)
        exe = os.path.join(BIN, "h_%s_%s%s" % (name, tag, "_race" if race else ""))
        with Lock("build_" + tag):
            shutil.rmtree(hdir, ignore_errors=True)
            shutil.copytree(HARNESS, hdir)
            gm = open(os.path.join(hdir, "go.mod")).read().replace("=> /repo", "=> " + REPO)
            open(os.path.join(hdir, "go.mod"), "w").write(gm)
            shutil.copy(os.path.join(REPO, "go.sum"), os.path.join(hdir, "go.sum"))
            cmd = ["go", "build", "-tags", tags, "-o", exe]
            env = dict(GOENV)
            if race:
                cmd.insert(2, "-race")
                env["CGO_ENABLED"] = "1"
            rc, out = sh(cmd + ["./cmd/" + name], cwd=hdir, env=env, timeout=timeout)
        if rc != 0:
            raise RuntimeError("harness build failed for %s:\n%s" % (name, out[-3000:]))
        return exe

    @staticmethod
    def sync_gosum():
        src = os.path.join(REPO, "go.sum")
        dst = os.path.join(HARNESS, "go.sum")
        if os.path.exists(src):
            data = open(src, "rb").read()
            extra_p = os.path.join(HARNESS, "go.sum.extra")
            if os.path.exists(extra_p):
                data += open(extra_p, "rb").read()
            if not os.path.exists(dst) or open(dst, "rb").read() != data:
                open(dst, "wb").write(data)

    def run(self, cmd, input=None, timeout=600, cwd=None, env=None, mem_kb=8000000):
        """Run a built tool with time and memory limits; returns (rc, stdout-text)."""
        if isinstance(cmd, (list, tuple)):
            cmd = " ".join("'%s'" % c.replace("'", "'\\''") for c in cmd)
        full = "ulimit -v %d; exec timeout %d %s" % (mem_kb, timeout, cmd)
        if isinstance(input, str):
            input = input.encode()
        return sh(full, cwd=cwd or self.scratch, env=env or GOENV, input=input, stderr=subprocess.PIPE)

    def diff_lines(self, name, cases, impl_out, model_out, key_of=None, limit=20):
        """Compare implementation and model outputs line by line (already canonicalised).
        Each disagreement breaks the correspondence `name`; returns list of (case, impl, model)."""
        a = [l.rstrip() for l in impl_out.split("\n")]
        b = [l.rstrip() for l in model_out.split("\n")]
        while a and a[-1] == "" and len(a) > len(cases):
            a.pop()
        while b and b[-1] == "" and len(b) > len(cases):
            b.pop()
        diffs = []
        if len(a) != len(cases) or len(b) != len(cases):
            self.broken("correspondence(%s)" % name, "line counts differ: cases=%d impl=%d model=%d" % (len(cases), len(a), len(b)))
            return [("<count>", str(len(a)), str(len(b)))]
        for c, x, y in zip(cases, a, b):
            if x != y:
                diffs.append((c, x, y))
        if diffs:
            c, x, y = diffs[0]
            self.broken("correspondence(%s)" % name, "%d of %d cases differ; first: case=%s impl=%s model=%s"
                        % (len(diffs), len(cases), str(c)[:200], x[:300], y[:300]))
            self.notes.setdefault("disagreements", []).extend(
                [{"case": str(c)[:500], "impl": x[:500], "model": y[:500]} for c, x, y in diffs[:limit]])
        return diffs

    # ---------------------------------------------------------------- verdict
    def finish(self):
        os.makedirs(os.path.join(VERIF, "evidence"), exist_ok=True)
        os.makedirs(os.path.join(VERIF, "replays"), exist_ok=True)
        unlisted = [(k, d, r) for (k, d, r) in self.failures if k not in self.known]
        listed = {}
        for (k, d, r) in self.failures:
            if k in self.known:
                listed[k] = d
        stale = [k for k in self.known if k not in listed]
        lines, rc = [], 0
        stamp = "%s-%s-%d-%d%s" % (self.pid, self.tier, int(self.t0), os.getpid(), ("-" + PTAG) if PRIVATE else "")
        if unlisted:
            rc = 1
            seen = set()
            for i, (k, d, r) in enumerate(unlisted):
                if k in seen or len(seen) >= 5:
                    continue
                seen.add(k)
                path = os.path.join(VERIF, "replays", "%s-%d.json" % (stamp, i))
                json.dump({"property": self.pid, "kind": "failing-input", "key": k, "what": d, "replay": r,
                           "broken": [b[0] for b in self.brokens], "seed": self.seed, "tier": self.tier},
                          open(path, "w"), indent=1, default=str)
                lines.append("VIOLATION property=%s replay=%s" % (self.pid, path))
        elif self.brokens:
            rc = 1
            path = os.path.join(VERIF, "replays", "%s-broken.json" % stamp)
            json.dump({"property": self.pid, "kind": "no-failing-input-found",
                       "no_longer_checks": [{"what": w, "detail": d} for w, d in self.brokens],
                       "disagreements": self.notes.get("disagreements", []),
                       "seed": self.seed, "tier": self.tier}, open(path, "w"), indent=1, default=str)
            lines.append("VIOLATION property=%s replay=%s no-failing-input-found" % (self.pid, path))
        if rc == 0 or True:
            for k, d in sorted(listed.items()):
                lines.append("KNOWN-FINDING: property=%s %s (%s)" % (self.pid, self.known[k] or d, k))
        cov = dict(self.coverage)
        cov.update({
            "obligations": self.obligations,
            "discharged": self.discharged,
            "checker_cmd": " ; ".join(dict.fromkeys(self.checker_cmds)) or "n/a",
            "trusted_base": self.trusted,
            "print_assumptions": self.assumptions_printed,
            "known_findings_hit": sorted(listed),
            "known_findings_stale": stale,
            "fixed_entries": self.fixed,
            "broken": [w for w, _ in self.brokens],
        })
        for k, v in self.notes.items():
            cov.setdefault(k, v)
        if not cov["rule"]:
            cov["rule"] = "see samples"
        ev = {
            "property_id": self.pid, "tier": self.tier, "seed": self.seed, "level": self.level,
            "coverage": cov, "assumptions": self.assumes,
            "wall_s": round(time.time() - self.t0, 2),
            "violations": len(set(k for k, _, _ in unlisted)) + (1 if (self.brokens and not unlisted) else 0),
        }
        # evidence/ holds only runs against /repo itself; private (mutation) runs write elsewhere
        evdir = os.path.join(BUILD, "evidence_" + PTAG) if PRIVATE else os.path.join(VERIF, "evidence")
        os.makedirs(evdir, exist_ok=True)
        tmp = os.path.join(evdir, self.pid + ".json.tmp")
        json.dump(ev, open(tmp, "w"), indent=1, default=str)
        os.replace(tmp, os.path.join(evdir, self.pid + ".json"))
        for l in lines:
            print(l, flush=True)
        print("[%s] %s obligations=%d/%d evaluations=%d known=%d wall=%.1fs" % (
            self.pid, "FAIL" if rc else "PASS", self.discharged, self.obligations,
            cov["evaluations"], len(listed), time.time() - self.t0), flush=True)
        shutil.rmtree(self.scratch, ignore_errors=True)
        return rc


def sha(s):
    if isinstance(s, str):
        s = s.encode("utf-8", "surrogateescape")
    return hashlib.sha256(s).hexdigest()[:12]


def hexs(b):
    if isinstance(b, str):
        b = b.encode()
    return b.hex()
