module vh

go 1.18

require (
	github.com/goplus/gogen v1.18.1
	github.com/goplus/mod v0.17.0
	github.com/goplus/xgo v0.0.0
	github.com/qiniu/x v1.15.0
)

require (
	github.com/fsnotify/fsnotify v1.9.0 // indirect
	golang.org/x/mod v0.20.0 // indirect
	golang.org/x/sys v0.21.0 // indirect
)

replace github.com/goplus/xgo => /repo
