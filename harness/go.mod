module vh

go 1.18

require github.com/goplus/xgo v0.0.0

replace github.com/goplus/xgo => /repo
