// Package g9cl: shared implementation driver for the whole-compiler properties C01, C06, C07, C08.
// A package (file name -> source) is parsed with parser.ParseFSDir from an in-memory file system
// whose directory listing order is given by the caller, compiled with cl.NewPackage and written
// with gogen's WriteTo.  Only exported API of /repo is used.
package g9cl

import (
	"bufio"
	"bytes"
	"fmt"
	"go/importer"
	"go/types"
	"io"
	"os"
	"path"
	"runtime/debug"
	"strings"

	"github.com/goplus/mod/modfile"
	"github.com/goplus/xgo/ast"
	"github.com/goplus/xgo/cl"
	"github.com/goplus/xgo/parser"
	"github.com/goplus/xgo/parser/fsx/memfs"
	"github.com/goplus/xgo/token"
	"github.com/qiniu/x/errors"
)

// Exports maps an import path to the compiler export data file (from `go list -export -deps`).
type Exports map[string]string

// LoadExports reads "importpath<TAB>file" lines.
func LoadExports(file string) (Exports, error) {
	f, err := os.Open(file)
	if err != nil {
		return nil, err
	}
	defer f.Close()
	m := Exports{}
	sc := bufio.NewScanner(f)
	sc.Buffer(make([]byte, 1<<20), 1<<24)
	for sc.Scan() {
		if p := strings.Split(sc.Text(), "\t"); len(p) == 2 && p[1] != "" {
			m[p[0]] = p[1]
		}
	}
	return m, sc.Err()
}

// Importer returns a types.Importer reading gc export data (no process is started per import).
func (m Exports) Importer(fset *token.FileSet) types.Importer {
	lookup := func(p string) (io.ReadCloser, error) {
		f, ok := m[p]
		if !ok {
			return nil, fmt.Errorf("package %s is not in the export table of the harness", p)
		}
		return os.Open(f)
	}
	return importer.ForCompiler(fset, "gc", lookup)
}

// LookupClass: the class-file projects of /repo's own test packages (cl/internal/spx*, mcp, test),
// same table as cl/cltest.LookupClass (that package cannot be imported: its init switches
// debug logging on).
func LookupClass(ext string) (c *modfile.Project, ok bool) {
	switch ext {
	case ".tgmx", ".tspx":
		return &modfile.Project{
			Ext: ".tgmx", Class: "*MyGame",
			Works:    []*modfile.Class{{Ext: ".tspx", Class: "Sprite"}},
			PkgPaths: []string{"github.com/goplus/xgo/cl/internal/spx", "math"}}, true
	case ".t2gmx", ".t2spx":
		return &modfile.Project{
			Ext: ".t2gmx", Class: "Game",
			Works:    []*modfile.Class{{Ext: ".t2spx", Class: "Sprite"}},
			PkgPaths: []string{"github.com/goplus/xgo/cl/internal/spx2"}}, true
	case ".t4gmx", ".t4spx":
		return &modfile.Project{
			Ext: ".t4gmx", Class: "*MyGame",
			Works:    []*modfile.Class{{Ext: ".t4spx", Class: "Sprite"}},
			PkgPaths: []string{"github.com/goplus/xgo/cl/internal/spx4", "math"}}, true
	case "_spx.gox":
		return &modfile.Project{
			Ext: "_spx.gox", Class: "Game",
			Works:    []*modfile.Class{{Ext: "_spx.gox", Class: "Sprite"}},
			PkgPaths: []string{"github.com/goplus/xgo/cl/internal/spx3", "math"},
			Import:   []*modfile.Import{{Path: "github.com/goplus/xgo/cl/internal/spx3/jwt"}}}, true
	case "_xtest.gox":
		return &modfile.Project{
			Ext: "_xtest.gox", Class: "App",
			Works:    []*modfile.Class{{Ext: "_xtest.gox", Class: "Case"}},
			PkgPaths: []string{"github.com/goplus/xgo/test", "testing"}}, true
	case "_mcp.gox", "_tool.gox", "_prompt.gox":
		return &modfile.Project{
			Ext: "_mcp.gox", Class: "Game",
			Works: []*modfile.Class{
				{Ext: "_tool.gox", Class: "Tool", Proto: "ToolProto", Prefix: "Tool_"},
				{Ext: "_prompt.gox", Class: "Prompt", Proto: "PromptProto", Embedded: true},
				{Ext: "_res.gox", Class: "Resource", Proto: "ResourceProto"},
			},
			PkgPaths: []string{"github.com/goplus/xgo/cl/internal/mcp"}}, true
	}
	return
}

// ClassKind for parser.Config, derived from LookupClass.
func ClassKind(fname string) (isProj bool, ok bool) {
	ext := modfile.ClassExt(fname)
	c, ok := LookupClass(ext)
	if ok {
		isProj = c.IsProj(ext, fname)
	}
	return
}

// ClassPkgs lists the packages the class projects need in the export table.
var ClassPkgs = []string{
	"github.com/goplus/xgo/cl/internal/spx", "github.com/goplus/xgo/cl/internal/spx2",
	"github.com/goplus/xgo/cl/internal/spx3", "github.com/goplus/xgo/cl/internal/spx3/jwt",
	"github.com/goplus/xgo/cl/internal/spx4", "github.com/goplus/xgo/cl/internal/mcp",
	"github.com/goplus/xgo/test", "testing", "math",
}

// File is one source file of a package, in presentation (directory listing) order.
type File struct {
	Name string
	Src  string
}

// Result of one compilation.
type Result struct {
	ParseErr string   // parser error (first), "" if none
	NoPkg    bool     // the parser produced no package
	Panic    string   // a panic escaped NewPackage / WriteTo ("" if none)
	Stack    string   // its stack
	ParserPanic string // the parser itself panicked
	WritePanic  string // NewPackage returned err == nil and gogen's WriteTo panicked
	Bodiless bool     // an XGo file declares a func without body
	Errs     []string // error list of NewPackage (each Error() string)
	ErrPos   []string // position part "file:line:col" of each error that carries one ("" otherwise)
	Go       string   // WriteTo output when NewPackage returned err == nil
	WriteErr string
	Pkg      *ast.Package
}

// Options of a compilation.
type Options struct {
	Dir        string // directory name inside the memfs (default "/foo")
	PkgName    string // package to select ("" = "main", else the only one)
	NoFileLine bool
	NoAutoMain bool
	Outline    bool
	Recorder   cl.Recorder
	PkgPath    string
	// SkipBodiless: do not call WriteTo when an XGo file declares a func without body
	SkipBodiless bool
	partial      bool
}

// HasBodilessFunc reports whether an XGo file of the package declares a func without body.
func HasBodilessFunc(pkg *ast.Package) bool {
	for _, f := range pkg.Files {
		for _, d := range f.Decls {
			if fd, ok := d.(*ast.FuncDecl); ok && fd.Body == nil {
				return true
			}
		}
	}
	return false
}

// CompilePartial is Compile, but a parse error does not stop it: the partial ASTs the parser
// returned are compiled (C07: "every partial AST it returns").
func CompilePartial(exp Exports, files []File, o Options) (r Result) {
	o.partial = true
	return Compile(exp, files, o)
}

// Compile parses and compiles files in the given presentation order.
func Compile(exp Exports, files []File, o Options) (r Result) {
	dir := o.Dir
	if dir == "" {
		dir = "/foo"
	}
	names := make([]string, len(files))
	data := map[string]string{}
	for i, f := range files {
		names[i] = f.Name
		data[path.Join(dir, f.Name)] = f.Src
	}
	fs := memfs.New(map[string][]string{dir: names}, data)
	fset := token.NewFileSet()
	defer func() {
		if e := recover(); e != nil {
			r.Panic = fmt.Sprint(e)
			r.Stack = string(debug.Stack())
		}
	}()
	var pkgs map[string]*ast.Package
	var err error
	func() {
		defer func() {
			if e := recover(); e != nil { // the PARSER panicked (C13's business, not the compiler's)
				r.ParserPanic = fmt.Sprint(e)
			}
		}()
		pkgs, err = parser.ParseFSDir(fset, fs, dir, parser.Config{ClassKind: ClassKind, Mode: parser.ParseComments})
	}()
	if r.ParserPanic != "" {
		return
	}
	if err != nil {
		r.ParseErr = err.Error()
		if !o.partial || pkgs == nil {
			return
		}
	}
	name := o.PkgName
	if name == "" {
		name = "main"
	}
	pkg, ok := pkgs[name]
	if !ok {
		if len(pkgs) == 1 {
			for _, p := range pkgs {
				pkg = p
			}
		} else {
			r.NoPkg = true
			return
		}
	}
	r.Pkg = pkg
	conf := &cl.Config{
		Fset: fset, Importer: exp.Importer(fset), LookupClass: LookupClass, RelativeBase: dir,
		NoFileLine: o.NoFileLine, NoAutoGenMain: o.NoAutoMain, Outline: o.Outline, Recorder: o.Recorder,
	}
	out, err := cl.NewPackage(o.PkgPath, pkg, conf)
	if err != nil {
		r.Errs, r.ErrPos = ErrList(err)
		return
	}
	r.Bodiless = HasBodilessFunc(pkg)
	if o.SkipBodiless && r.Bodiless {
		// known finding bodiless-func-writeto: WriteTo panics on a func declared without body
		return
	}
	if o.partial && r.ParseErr != "" {
		// the package comes from a partial AST: compiling it is what C07 is about; gogen's WriteTo
		// is not exercised on it (it is known to hit nil nodes there)
		return
	}
	var b bytes.Buffer
	func() {
		defer func() {
			if e := recover(); e != nil { // gogen's WriteTo panicked on the package cl built
				r.WritePanic = fmt.Sprint(e)
				r.Stack = string(debug.Stack())
			}
		}()
		if err := out.WriteTo(&b); err != nil {
			r.WriteErr = err.Error()
		}
	}()
	if r.WritePanic == "" && r.WriteErr == "" {
		r.Go = b.String()
	}
	return
}

// ErrList flattens an error (errors.List of github.com/qiniu/x/errors or a single error).
func ErrList(err error) (msgs, poss []string) {
	var list []error
	if l, ok := err.(errors.List); ok {
		list = l
	} else if err != nil {
		list = []error{err}
	}
	for _, e := range list {
		m := "<nil>"
		if e != nil {
			m = e.Error()
		}
		msgs = append(msgs, m)
		poss = append(poss, PosOf(m))
	}
	return
}

// PosOf extracts the leading "file:line:col" of an error message ("" if there is none).
func PosOf(s string) string {
	if i := strings.Index(s, ": "); i > 0 {
		head := s[:i]
		f := strings.Split(head, ":")
		if n := len(f); n >= 3 && isNum(f[n-1]) && isNum(f[n-2]) {
			return head
		}
	}
	return ""
}

func isNum(s string) bool {
	if s == "" {
		return false
	}
	for _, c := range s {
		if c < '0' || c > '9' {
			return false
		}
	}
	return true
}
