// Package astx: generic (reflection based) view of XGo syntax trees for the AST properties
// C17/C18: kind registry, export into the line syntax read by the OCaml model drivers,
// reflection-based child enumeration (the observation C18 names), random tree synthesis.
package astx

import (
	"encoding/hex"
	"encoding/json"
	"fmt"
	"os"
	"reflect"
	"sort"
	"strconv"
	"strings"

	"github.com/goplus/xgo/ast"
	"github.com/goplus/xgo/token"
)

// Kinds is the registry of node kinds (reflection cannot enumerate the types of a package).
// It is cross-checked against the translator's struct table (CheckRegistry).
var Kinds = []ast.Node{
	(*ast.ArrayType)(nil), (*ast.AssignStmt)(nil), (*ast.BadDecl)(nil), (*ast.BadExpr)(nil), (*ast.BadStmt)(nil),
	(*ast.BasicLit)(nil), (*ast.BinaryExpr)(nil), (*ast.BlockStmt)(nil), (*ast.BranchStmt)(nil), (*ast.CallExpr)(nil),
	(*ast.CaseClause)(nil), (*ast.ChanType)(nil), (*ast.CommClause)(nil), (*ast.Comment)(nil), (*ast.CommentGroup)(nil),
	(*ast.CompositeLit)(nil), (*ast.ComprehensionExpr)(nil), (*ast.DeclStmt)(nil), (*ast.DeferStmt)(nil),
	(*ast.DomainTextLit)(nil), (*ast.ElemEllipsis)(nil), (*ast.Ellipsis)(nil), (*ast.EmptyStmt)(nil), (*ast.EnvExpr)(nil),
	(*ast.ErrWrapExpr)(nil), (*ast.ExprStmt)(nil), (*ast.Field)(nil), (*ast.FieldList)(nil), (*ast.File)(nil),
	(*ast.ForPhrase)(nil), (*ast.ForPhraseStmt)(nil), (*ast.ForStmt)(nil), (*ast.FuncDecl)(nil), (*ast.FuncLit)(nil),
	(*ast.FuncType)(nil), (*ast.GenDecl)(nil), (*ast.GoStmt)(nil), (*ast.Ident)(nil), (*ast.IfStmt)(nil),
	(*ast.ImportSpec)(nil), (*ast.IncDecStmt)(nil), (*ast.IndexExpr)(nil), (*ast.IndexListExpr)(nil),
	(*ast.InterfaceType)(nil), (*ast.KeyValueExpr)(nil), (*ast.LabeledStmt)(nil), (*ast.LambdaExpr)(nil),
	(*ast.LambdaExpr2)(nil), (*ast.MapType)(nil), (*ast.MatrixLit)(nil), (*ast.NumberUnitLit)(nil),
	(*ast.OverloadFuncDecl)(nil), (*ast.Package)(nil), (*ast.ParenExpr)(nil), (*ast.RangeExpr)(nil), (*ast.RangeStmt)(nil),
	(*ast.ReturnStmt)(nil), (*ast.SelectStmt)(nil), (*ast.SelectorExpr)(nil), (*ast.SendStmt)(nil), (*ast.SliceExpr)(nil),
	(*ast.SliceLit)(nil), (*ast.StarExpr)(nil), (*ast.StructType)(nil), (*ast.SwitchStmt)(nil), (*ast.TypeAssertExpr)(nil),
	(*ast.TypeSpec)(nil), (*ast.TypeSwitchStmt)(nil), (*ast.UnaryExpr)(nil), (*ast.ValueSpec)(nil),
}

// Records: structs that are not nodes but hold nodes.
var Records = []any{(*ast.StringLitEx)(nil), (*ast.DomainTextLitEx)(nil)}

// Registry: the kinds of one tree family (XGo ast, or the toolchain's go/ast).
type Registry struct {
	kindOf map[reflect.Type]string // pointer type -> kind name
	recOf  map[reflect.Type]string
	exprT  reflect.Type
	tokT   reflect.Type
}

var (
	kindOf  = map[reflect.Type]string{} // pointer type -> kind name
	typeOf  = map[string]reflect.Type{} // kind name -> pointer type
	recOf   = map[reflect.Type]string{}
	recType = map[string]reflect.Type{}
	nodeT   = reflect.TypeOf((*ast.Node)(nil)).Elem()
	posT    = reflect.TypeOf(token.Pos(0))
	tokT    = reflect.TypeOf(token.Token(0))
	// XGo is the registry of github.com/goplus/xgo/ast
	XGo = &Registry{kindOf: kindOf, recOf: recOf, exprT: exprT, tokT: tokT}
)

func init() {
	for _, k := range Kinds {
		t := reflect.TypeOf(k)
		kindOf[t] = t.Elem().Name()
		typeOf[t.Elem().Name()] = t
	}
	for _, r := range Records {
		t := reflect.TypeOf(r)
		recOf[t] = t.Elem().Name()
		recType[t.Elem().Name()] = t
	}
}

// KindName of a node value ("" if its dynamic type is not registered).
func KindName(n ast.Node) string {
	if n == nil {
		return ""
	}
	return kindOf[reflect.TypeOf(n)]
}

func TypeOfKind(k string) reflect.Type { return typeOf[k] }

// ---- the translator's struct table (build/gen/aststructs.json) ----

type FieldInfo struct {
	Name  string   `json:"name"`
	Class string   `json:"class"`
	Opt   bool     `json:"opt"`
	Kinds []string `json:"kinds"`
}

type Structs struct {
	Nodes     map[string][]FieldInfo `json:"nodes"`
	Recs      map[string][]FieldInfo `json:"recs"`
	NodeOrder []string               `json:"node_order"`
	RecOrder  []string               `json:"rec_order"`
}

func LoadStructs(path string) (*Structs, error) {
	b, err := os.ReadFile(path)
	if err != nil {
		return nil, err
	}
	var s Structs
	if err := json.Unmarshal(b, &s); err != nil {
		return nil, err
	}
	return &s, nil
}

// CheckRegistry: the registry and the struct table name the same kinds.
func CheckRegistry(s *Structs) error {
	var miss []string
	for _, k := range s.NodeOrder {
		if typeOf[k] == nil {
			miss = append(miss, "registry lacks "+k)
		}
	}
	for k := range typeOf {
		if _, ok := s.Nodes[k]; !ok {
			miss = append(miss, "struct table lacks "+k)
		}
	}
	for _, k := range s.RecOrder {
		if recType[k] == nil {
			miss = append(miss, "registry lacks record "+k)
		}
	}
	if len(miss) > 0 {
		sort.Strings(miss)
		return fmt.Errorf("%s", strings.Join(miss, "; "))
	}
	return nil
}

// ---- export ----

// Exporter assigns ids by pointer identity in export order (pre-order, declaration order,
// every field) and renders trees in the line syntax.
type Exporter struct {
	reg   *Registry
	ids   map[any]int
	Nodes []ast.Node // by id
	sb    strings.Builder
	// ZeroIDs: print id 0 for every node.  ElideBodies: print the Body of a FuncDecl / FuncLit with an
	// empty statement list (C37: the conversions never look into bodies).
	// NilSlices: print a nil slice as "~" (otherwise nil and empty slices are both "[]").
	ZeroIDs, ElideBodies, NilSlices bool
	// ObjKind: print a non-nil *ast.Object as t<Kind> (C17: Ident.Implicit() depends on Obj.Kind).
	ObjKind bool
	// NoPos: print every position as p0 (structural comparison of expressions).
	NoPos bool
	// OpaqueOther: print every value of class Other as "o", nil or not (structural comparison).
	OpaqueOther bool
	// NoComments: print Doc / Comment fields as nil.
	NoComments bool
}

func NewExporter() *Exporter { return &Exporter{reg: XGo, ids: map[any]int{}} }

// NewExporterFor exports trees of another registry (GoAST).
func NewExporterFor(r *Registry) *Exporter { return &Exporter{reg: r, ids: map[any]int{}} }

func (e *Exporter) ID(n ast.Node) (int, bool) {
	id, ok := e.ids[n]
	return id, ok
}

func (e *Exporter) Export(root ast.Node) string {
	e.sb.Reset()
	e.node(reflect.ValueOf(root), false)
	return e.sb.String()
}

func isNilable(v reflect.Value) bool {
	switch v.Kind() {
	case reflect.Ptr, reflect.Interface, reflect.Slice, reflect.Map:
		return true
	}
	return false
}

func (e *Exporter) node(pv reflect.Value, rec bool) {
	name := e.reg.kindOf[pv.Type()]
	id := 0
	if rec {
		name = e.reg.recOf[pv.Type()]
	} else {
		key := pv.Interface()
		old, ok := e.ids[key]
		if !ok {
			old = len(e.Nodes)
			e.ids[key] = old
			e.Nodes = append(e.Nodes, key.(ast.Node))
		}
		id = old
	}
	e.sb.WriteByte('(')
	e.sb.WriteString(name)
	e.sb.WriteByte(' ')
	if e.ZeroIDs {
		id = 0
	}
	e.sb.WriteString(strconv.Itoa(id))
	sv := pv.Elem()
	st := sv.Type()
	for i := 0; i < st.NumField(); i++ {
		e.sb.WriteByte(' ')
		e.sb.WriteString(st.Field(i).Name)
		e.sb.WriteByte('=')
		fv := sv.Field(i)
		if e.ElideBodies && st.Field(i).Name == "Body" && (name == "FuncDecl" || name == "FuncLit") && fv.Kind() == reflect.Ptr && !fv.IsNil() {
			b := fv.Elem()
			bid := 0
			if !e.ZeroIDs {
				bid = len(e.Nodes)
				e.ids[fv.Interface()] = bid
				e.Nodes = append(e.Nodes, fv.Interface().(ast.Node))
			}
			fmt.Fprintf(&e.sb, "(BlockStmt %d Lbrace=p%d List=[] Rbrace=p%d)", bid, b.FieldByName("Lbrace").Int(), b.FieldByName("Rbrace").Int())
			continue
		}
		if e.NoComments && (st.Field(i).Name == "Doc" || st.Field(i).Name == "Comment") {
			e.sb.WriteString("~")
			continue
		}
		e.value(fv)
	}
	e.sb.WriteByte(')')
}

func (e *Exporter) isNodeish(t reflect.Type) bool {
	if t.Kind() == reflect.Ptr {
		return e.reg.kindOf[t] != ""
	}
	return t.Kind() == reflect.Interface && t.NumMethod() > 0 && t.Implements(nodeT)
}

func (e *Exporter) value(v reflect.Value) {
	t := v.Type()
	switch {
	case t == posT:
		if e.NoPos {
			e.sb.WriteString("p0")
			return
		}
		e.sb.WriteString("p" + strconv.FormatInt(v.Int(), 10))
		return
	case t == e.reg.tokT:
		e.sb.WriteString("t" + strconv.FormatInt(v.Int(), 10))
		return
	}
	switch v.Kind() {
	case reflect.Int, reflect.Int8, reflect.Int16, reflect.Int32, reflect.Int64:
		e.sb.WriteString("t" + strconv.FormatInt(v.Int(), 10))
	case reflect.String:
		e.sb.WriteString("s" + hex.EncodeToString([]byte(v.String())))
	case reflect.Bool:
		if v.Bool() {
			e.sb.WriteString("b1")
		} else {
			e.sb.WriteString("b0")
		}
	case reflect.Ptr:
		switch {
		case e.OpaqueOther && e.reg.kindOf[t] == "" && e.reg.recOf[t] == "":
			e.sb.WriteString("o")
		case v.IsNil():
			e.sb.WriteString("~")
		case e.reg.kindOf[t] != "":
			e.node(v, false)
		case e.reg.recOf[t] != "":
			e.sb.WriteByte('<')
			e.node(v, true)
			e.sb.WriteByte('>')
		case e.ObjKind && t == objT:
			e.sb.WriteString("t" + strconv.FormatInt(v.Elem().FieldByName("Kind").Int(), 10))
		default:
			e.sb.WriteString("o")
		}
	case reflect.Interface:
		if v.IsNil() {
			e.sb.WriteString("~")
			return
		}
		el := v.Elem()
		switch {
		case el.Kind() == reflect.Ptr && e.reg.kindOf[el.Type()] != "" && t.NumMethod() > 0:
			if el.IsNil() {
				e.sb.WriteString("~")
			} else {
				e.node(el, false)
			}
		case el.Kind() == reflect.Ptr && e.reg.recOf[el.Type()] != "" && !el.IsNil():
			e.sb.WriteByte('<')
			e.node(el, true)
			e.sb.WriteByte('>')
		default:
			e.sb.WriteString("o")
		}
	case reflect.Slice:
		el := t.Elem()
		if e.NilSlices && v.IsNil() && (e.isNodeish(el) || el.Kind() == reflect.Slice || el.Kind() == reflect.Interface) {
			e.sb.WriteString("~")
			return
		}
		switch {
		case e.isNodeish(el):
			e.sb.WriteByte('[')
			for i := 0; i < v.Len(); i++ {
				if i > 0 {
					e.sb.WriteByte(' ')
				}
				e.value(v.Index(i))
			}
			e.sb.WriteByte(']')
		case el.Kind() == reflect.Slice && e.isNodeish(el.Elem()):
			e.sb.WriteByte('[')
			for i := 0; i < v.Len(); i++ {
				if i > 0 {
					e.sb.WriteByte(' ')
				}
				e.value(v.Index(i))
			}
			e.sb.WriteByte(']')
		case el.Kind() == reflect.Interface && el.NumMethod() == 0:
			e.sb.WriteByte('[')
			for i := 0; i < v.Len(); i++ {
				if i > 0 {
					e.sb.WriteByte(' ')
				}
				p := v.Index(i)
				if p.IsNil() {
					e.sb.WriteString("~")
					continue
				}
				pe := p.Elem()
				switch {
				case pe.Kind() == reflect.String:
					e.sb.WriteString("s" + hex.EncodeToString([]byte(pe.String())))
				case pe.Kind() == reflect.Ptr && e.reg.kindOf[pe.Type()] != "" && !pe.IsNil() && pe.Type().Implements(e.reg.exprT):
					e.node(pe, false)
				default:
					e.sb.WriteString("o")
				}
			}
			e.sb.WriteByte(']')
		default:
			e.sb.WriteString("o")
		}
	case reflect.Map:
		if e.reg.kindOf[t.Elem()] == "" || t.Key().Kind() != reflect.String {
			e.sb.WriteString("o")
			return
		}
		keys := v.MapKeys()
		sort.Slice(keys, func(i, j int) bool { return keys[i].String() < keys[j].String() })
		e.sb.WriteByte('[')
		for i, k := range keys {
			if i > 0 {
				e.sb.WriteByte(' ')
			}
			e.value(v.MapIndex(k))
		}
		e.sb.WriteByte(']')
	default:
		e.sb.WriteString("o")
	}
}

var exprT = reflect.TypeOf((*ast.Expr)(nil)).Elem()
var objT = reflect.TypeOf((*ast.Object)(nil))

// ---- reflection-based child enumeration (the observation C18 names) ----

// Excluded reports the fields the Reading of C18 excludes from "child".
func Excluded(n ast.Node, field string) bool {
	switch x := n.(type) {
	case *ast.File:
		switch field {
		case "Imports", "Comments", "ShadowEntry":
			return true
		case "Name":
			return x.NoPkgDecl
		}
	case *ast.FuncDecl:
		if x.Shadow {
			switch field {
			case "Doc", "Recv", "Name", "Type":
				return true
			}
		}
	}
	return false
}

// ChildSlot is a child together with the path of the field holding it.
type ChildSlot struct {
	Path string // Field, Field[i], Field[i][j], Field:RecKind.Sub[i]
	Node ast.Node
}

// Children: every non-nil node held by a (non-excluded) field of n, in declaration order,
// through slices, maps (sorted keys) and records.
func Children(n ast.Node) []ChildSlot { return children(n, true) }

// ChildrenAll: the same without the exclusions of the Reading (used to learn what Walk really does).
func ChildrenAll(n ast.Node) []ChildSlot { return children(n, false) }

func children(n ast.Node, excl bool) []ChildSlot {
	var out []ChildSlot
	sv := reflect.ValueOf(n).Elem()
	st := sv.Type()
	for i := 0; i < st.NumField(); i++ {
		f := st.Field(i)
		if excl && Excluded(n, f.Name) {
			continue
		}
		collect(sv.Field(i), f.Name, ctxTop, &out)
	}
	return out
}

const (
	ctxTop   = iota // a field of a node
	ctxRec          // a field of a record
	ctxParts        // an element of a []any
)

func collect(v reflect.Value, path string, ctx int, out *[]ChildSlot) {
	switch v.Kind() {
	case reflect.Ptr:
		if v.IsNil() {
			return
		}
		if kindOf[v.Type()] != "" {
			*out = append(*out, ChildSlot{path, v.Interface().(ast.Node)})
			return
		}
		if rk := recOf[v.Type()]; rk != "" && ctx == ctxTop {
			sv := v.Elem()
			for i := 0; i < sv.NumField(); i++ {
				collect(sv.Field(i), path+":"+rk+"."+sv.Type().Field(i).Name, ctxRec, out)
			}
		}
	case reflect.Interface:
		if v.IsNil() {
			return
		}
		el := v.Elem()
		if v.Type().NumMethod() == 0 { // any
			switch ctx {
			case ctxParts:
				if el.Kind() == reflect.Ptr && kindOf[el.Type()] != "" && el.Type().Implements(exprT) {
					collect(el, path, ctx, out)
				}
			case ctxTop:
				if el.Kind() == reflect.Ptr && recOf[el.Type()] != "" {
					collect(el, path, ctx, out)
				}
			}
			return
		}
		if el.Kind() == reflect.Ptr {
			collect(el, path, ctx, out)
		}
	case reflect.Slice:
		c := ctx
		if et := v.Type().Elem(); et.Kind() == reflect.Interface && et.NumMethod() == 0 {
			c = ctxParts
		}
		for i := 0; i < v.Len(); i++ {
			collect(v.Index(i), fmt.Sprintf("%s[%d]", path, i), c, out)
		}
	case reflect.Map:
		if kindOf[v.Type().Elem()] == "" || v.Type().Key().Kind() != reflect.String {
			return
		}
		keys := v.MapKeys()
		sort.Slice(keys, func(i, j int) bool { return keys[i].String() < keys[j].String() })
		for i, k := range keys {
			collect(v.MapIndex(k), fmt.Sprintf("%s[%d]", path, i), ctx, out)
		}
	}
}

func sameKinds(have map[string]bool, s *Structs) error {
	var miss []string
	for _, k := range s.NodeOrder {
		if !have[k] {
			miss = append(miss, "registry lacks "+k)
		}
	}
	for k := range have {
		if _, ok := s.Nodes[k]; !ok {
			miss = append(miss, "struct table lacks "+k)
		}
	}
	if len(miss) > 0 {
		sort.Strings(miss)
		return fmt.Errorf("%s", strings.Join(miss, "; "))
	}
	return nil
}
