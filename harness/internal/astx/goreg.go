package astx

import (
	goast "go/ast"
	gotoken "go/token"
	"reflect"
)

// GoKinds: the node kinds of the toolchain's go/ast.
var GoKinds = []goast.Node{
	(*goast.ArrayType)(nil), (*goast.AssignStmt)(nil), (*goast.BadDecl)(nil), (*goast.BadExpr)(nil), (*goast.BadStmt)(nil),
	(*goast.BasicLit)(nil), (*goast.BinaryExpr)(nil), (*goast.BlockStmt)(nil), (*goast.BranchStmt)(nil), (*goast.CallExpr)(nil),
	(*goast.CaseClause)(nil), (*goast.ChanType)(nil), (*goast.CommClause)(nil), (*goast.Comment)(nil), (*goast.CommentGroup)(nil),
	(*goast.CompositeLit)(nil), (*goast.DeclStmt)(nil), (*goast.DeferStmt)(nil), (*goast.Ellipsis)(nil), (*goast.EmptyStmt)(nil),
	(*goast.ExprStmt)(nil), (*goast.Field)(nil), (*goast.FieldList)(nil), (*goast.File)(nil), (*goast.ForStmt)(nil),
	(*goast.FuncDecl)(nil), (*goast.FuncLit)(nil), (*goast.FuncType)(nil), (*goast.GenDecl)(nil), (*goast.GoStmt)(nil),
	(*goast.Ident)(nil), (*goast.IfStmt)(nil), (*goast.ImportSpec)(nil), (*goast.IncDecStmt)(nil), (*goast.IndexExpr)(nil),
	(*goast.IndexListExpr)(nil), (*goast.InterfaceType)(nil), (*goast.KeyValueExpr)(nil), (*goast.LabeledStmt)(nil),
	(*goast.MapType)(nil), (*goast.Package)(nil), (*goast.ParenExpr)(nil), (*goast.RangeStmt)(nil), (*goast.ReturnStmt)(nil),
	(*goast.SelectStmt)(nil), (*goast.SelectorExpr)(nil), (*goast.SendStmt)(nil), (*goast.SliceExpr)(nil), (*goast.StarExpr)(nil),
	(*goast.StructType)(nil), (*goast.SwitchStmt)(nil), (*goast.TypeAssertExpr)(nil), (*goast.TypeSpec)(nil),
	(*goast.TypeSwitchStmt)(nil), (*goast.UnaryExpr)(nil), (*goast.ValueSpec)(nil),
}

// GoAST is the registry of go/ast.
var GoAST = func() *Registry {
	r := &Registry{kindOf: map[reflect.Type]string{}, recOf: map[reflect.Type]string{},
		exprT: reflect.TypeOf((*goast.Expr)(nil)).Elem(), tokT: reflect.TypeOf(gotoken.Token(0))}
	for _, k := range GoKinds {
		t := reflect.TypeOf(k)
		r.kindOf[t] = t.Elem().Name()
	}
	return r
}()

// CheckGoRegistry: the go/ast registry and the translator's go/ast struct table name the same kinds.
func CheckGoRegistry(s *Structs) error {
	have := map[string]bool{}
	for _, n := range GoAST.kindOf {
		have[n] = true
	}
	return sameKinds(have, s)
}
