package astx

// Synthesis of trees by reflection, driven by the translator's struct table (which fields are
// children, which are documented optional).  One splitmix64 stream.

import (
	"reflect"
	"sort"

	"github.com/goplus/xgo/ast"
)

type Rng struct{ s uint64 }

func NewRng(seed uint64) *Rng { return &Rng{seed} }
func (r *Rng) Next() uint64 {
	r.s += 0x9E3779B97F4A7C15
	z := r.s
	z = (z ^ (z >> 30)) * 0xBF58476D1CE4E5B9
	z = (z ^ (z >> 27)) * 0x94D049BB133111EB
	return z ^ (z >> 31)
}
func (r *Rng) Intn(n int) int { return int(r.Next() % uint64(n)) }

type Gen struct {
	S *Structs
	R *Rng
	// Mal: malformed stream: one mandatory child of pointer type (not *Ident) is left nil, which the real Walk
	// dereferences.  (A nil interface child or a nil *Ident makes the real Walk call Visit with a nil node
	// and go on when the visitor answers nil; the model says Panic for every missing mandatory child.)
	Mal bool
	// Full: every optional child present, lists of length 2 (marker trees); NoOpt: every optional child nil
	Full, NoOpt bool
	malDone     bool
	byIface     map[reflect.Type][]string
}

func NewGen(s *Structs, r *Rng) *Gen { return &Gen{S: s, R: r, byIface: map[reflect.Type][]string{}} }

var leafFor = map[string][]string{
	"Expr": {"Ident", "BasicLit", "BadExpr", "NumberUnitLit"},
	"Stmt": {"EmptyStmt", "BadStmt"},
	"Decl": {"BadDecl"},
	"Spec": {"ImportSpec"},
	"Node": {"Ident"},
}

// kinds assignable to the static type t
func (g *Gen) candidates(t reflect.Type) []string {
	if c, ok := g.byIface[t]; ok {
		return c
	}
	var out []string
	for _, k := range g.S.NodeOrder {
		pt := typeOf[k]
		if pt == nil || !pt.AssignableTo(t) {
			continue
		}
		if t.Kind() == reflect.Interface && (k == "File" || k == "Package" || k == "Comment" || k == "CommentGroup" || k == "Field" || k == "FieldList") {
			continue
		}
		out = append(out, k)
	}
	sort.Strings(out)
	g.byIface[t] = out
	return out
}

// Node builds a node assignable to the static type t.
func (g *Gen) Node(t reflect.Type, depth int) reflect.Value {
	var kind string
	if t.Kind() == reflect.Ptr {
		kind = kindOf[t]
	} else if depth <= 0 {
		l := leafFor[t.Name()]
		if len(l) == 0 {
			l = leafFor["Node"]
		}
		kind = l[g.R.Intn(len(l))]
	} else {
		c := g.candidates(t)
		kind = c[g.R.Intn(len(c))]
	}
	return g.Kind(kind, depth)
}

// Kind builds a node of the given kind with children of at most the given depth.
func (g *Gen) Kind(kind string, depth int) reflect.Value {
	pt := typeOf[kind]
	pv := reflect.New(pt.Elem())
	g.fill(pv.Elem(), g.S.Nodes[kind], depth)
	return pv
}

func (g *Gen) listLen(depth int) int {
	if depth < -2 {
		return 0
	}
	if g.Full {
		return 2
	}
	if depth <= 0 {
		return 0
	}
	return g.R.Intn(4)
}

func (g *Gen) present(opt bool, depth int) bool {
	if !opt {
		return true
	}
	if depth < -2 {
		return false
	}
	if g.Full {
		return true
	}
	if g.NoOpt || depth <= 0 {
		return false
	}
	return g.R.Intn(3) != 0
}

func (g *Gen) fill(sv reflect.Value, fields []FieldInfo, depth int) {
	for _, fi := range fields {
		fv := sv.FieldByName(fi.Name)
		if !fv.IsValid() || !fv.CanSet() {
			continue
		}
		ft := fv.Type()
		switch fi.Class {
		case "Pos":
			fv.SetInt(int64(g.R.Intn(200)))
		case "Tok", "Int":
			fv.SetInt(int64(g.R.Intn(90)))
		case "Str":
			fv.SetString([]string{"x", "", "ab", "\"s\""}[g.R.Intn(4)])
		case "Bool":
			fv.SetBool(g.R.Intn(4) == 0)
		case "Node":
			if !g.present(fi.Opt, depth) {
				continue
			}
			if g.Mal && !g.malDone && !fi.Opt && ft.Kind() == reflect.Ptr && kindOf[ft] != "Ident" && g.R.Intn(2) == 0 {
				g.malDone = true
				continue
			}
			fv.Set(g.Node(ft, depth-1))
		case "List":
			n := g.listLen(depth)
			s := reflect.MakeSlice(ft, 0, n)
			for i := 0; i < n; i++ {
				s = reflect.Append(s, g.Node(ft.Elem(), depth-1))
			}
			fv.Set(s)
		case "ListList":
			n := g.listLen(depth)
			s := reflect.MakeSlice(ft, 0, n)
			for i := 0; i < n; i++ {
				m := g.listLen(depth)
				row := reflect.MakeSlice(ft.Elem(), 0, m)
				for j := 0; j < m; j++ {
					row = reflect.Append(row, g.Node(ft.Elem().Elem(), depth-1))
				}
				s = reflect.Append(s, row)
			}
			fv.Set(s)
		case "Map":
			n := g.listLen(depth)
			m := reflect.MakeMap(ft)
			for i := 0; i < n; i++ {
				m.SetMapIndex(reflect.ValueOf(string(rune('a'+i))+".xgo"), g.Node(ft.Elem(), depth-1))
			}
			fv.Set(m)
		case "Parts":
			n := g.listLen(depth) + 1
			s := reflect.MakeSlice(ft, 0, n)
			for i := 0; i < n; i++ {
				if i%2 == 0 {
					s = reflect.Append(s, reflect.ValueOf("txt"))
				} else {
					s = reflect.Append(s, g.Node(exprT, depth-1))
				}
			}
			fv.Set(s)
		case "Rec":
			if !g.present(fi.Opt, depth) || len(fi.Kinds) == 0 {
				continue
			}
			pick := g.R.Intn(len(fi.Kinds) + 1)
			if ft.Kind() == reflect.Ptr || g.Full {
				pick = g.R.Intn(len(fi.Kinds))
			}
			if pick == len(fi.Kinds) { // an `any` holding something foreign
				fv.Set(reflect.ValueOf(&struct{ X int }{1}))
				continue
			}
			rk := fi.Kinds[pick]
			if ft.Kind() == reflect.Ptr {
				rk = recOf[ft]
			}
			rv := reflect.New(recType[rk].Elem())
			g.fill(rv.Elem(), g.S.Recs[rk], depth)
			fv.Set(rv)
		}
	}
}

// Tree builds a random tree whose root kind is chosen among all kinds but Package.
func (g *Gen) Tree(depth int) ast.Node {
	ks := g.S.NodeOrder
	k := ks[g.R.Intn(len(ks))]
	return g.Kind(k, depth).Interface().(ast.Node)
}

// RecType: pointer type of a record kind.
func RecType(k string) reflect.Type { return recType[k] }

// FillRec fills a record struct value of kind rk.
func (g *Gen) FillRec(sv reflect.Value, rk string, depth int) { g.fill(sv, g.S.Recs[rk], depth) }
