// Implementation side of C02.
//
//	h_c02 gen -dir D -cases F.json
//
// F.json: [{"sugar": <body of func caseK() string, using the XGo sugar>,
//
//	"doc":   <body of func caseK_doc() string, the explicit loops / append calls in plain Go syntax>}]
//
// writes D/main.xgo + D/main.go: ONE program with both functions of every case, compiled by the
// real compiler; cases rejected by the compiler or by the Go type checker (on the emitted Go) are
// reported in D/status.json and left out.  The program prints, per case, the value and the probe
// log of both functions.
package main

import (
	"encoding/json"
	"flag"
	"fmt"
	"os"
	"path/filepath"
	"sort"
	"strings"

	"vh/internal/xgoc"
)

type ccase struct {
	Sugar string `json:"sugar"`
	Doc   string `json:"doc"`
}

const head = `import (
	"fmt"
	"sort"
	"strings"
)

var plog []string

func p(id int, v int) int {
	plog = append(plog, fmt.Sprintf("%d:%d", id, v))
	return v
}

func pb(id int, v bool) bool {
	if v {
		plog = append(plog, fmt.Sprintf("%d:true", id))
	} else {
		plog = append(plog, fmt.Sprintf("%d:false", id))
	}
	return v
}

func pl(id int, v []int) []int {
	plog = append(plog, fmt.Sprintf("%d:%s", id, showL(v)))
	return v
}

func take() string {
	r := "[" + strings.Join(plog, " ") + "]"
	plog = nil
	return r
}

func showL(v []int) string {
	parts := make([]string, len(v))
	for i, x := range v {
		parts[i] = fmt.Sprint(x)
	}
	return "L" + strings.Join(parts, "_")
}

func showM(m map[int]int) string {
	keys := make([]int, 0, len(m))
	for k := range m {
		keys = append(keys, k)
	}
	sort.Ints(keys)
	parts := make([]string, len(keys))
	for i, k := range keys {
		parts[i] = fmt.Sprintf("%d:%d", k, m[k])
	}
	return "M" + strings.Join(parts, "_")
}

var xs = []int{1, 3, 5, 7, 11}
var ys = []int{10, 20}
var zs = []int{}
var rows = [][]int{{1, 2}, {}, {3}}

// an overloaded function taking a block lambda: a call visit(x => {...}, 1) does not fit the first overload, so the
// lambda body is compiled once more for the second one
func visitTagged(fn func(x int), tag string) {
	fn(1)
}

func visitTimes(fn func(x float64), n int) {
	for n > 0 {
		fn(1.5)
		n--
	}
}

func visit = (
	visitTagged
	visitTimes
)

func emit(k int, v string, t string, xv string, xt string) {
	fmt.Printf("%d\tv=%s\tt=%s\txv=%s\txt=%s\n", k, v, t, xv, xt)
}
`

func caseFuncs(k int, c ccase) string {
	return fmt.Sprintf("func case%d() string {\n%s}\nfunc case%d_doc() string {\n%s}\n", k, c.Sugar, k, c.Doc)
}

func program(cases []ccase, skip map[int]bool) string {
	var b strings.Builder
	b.WriteString(head)
	for k, c := range cases {
		if !skip[k] {
			b.WriteString(caseFuncs(k, c))
		}
	}
	b.WriteString("\nfunc main() {\n\t_ = sort.Ints\n")
	for k := range cases {
		if !skip[k] {
			fmt.Fprintf(&b, "\t{\n\t\tv := case%d()\n\t\tt := take()\n\t\txv := case%d_doc()\n\t\txt := take()\n\t\temit(%d, v, t, xv, xt)\n\t}\n", k, k, k)
		}
	}
	b.WriteString("}\n")
	return b.String()
}

func caseLines(cases []ccase, skip map[int]bool) [][2]int {
	line := strings.Count(head, "\n") + 1
	out := make([][2]int, len(cases))
	for k, c := range cases {
		if skip[k] {
			continue
		}
		n := strings.Count(caseFuncs(k, c), "\n")
		out[k] = [2]int{line, line + n - 1}
		line += n
	}
	return out
}

func short(s string) string {
	if len(s) > 300 {
		return s[:300]
	}
	return s
}

func doGen(dir, casesFile string) error {
	raw, err := os.ReadFile(casesFile)
	if err != nil {
		return err
	}
	var cases []ccase
	if err := json.Unmarshal(raw, &cases); err != nil {
		return err
	}
	comp, err := xgoc.New("")
	if err != nil {
		return err
	}
	status := make([]string, len(cases))
	skip := map[int]bool{}
	var src string
	var out []byte
	for round := 0; ; round++ {
		src = program(cases, skip)
		out, err = comp.Compile("main.xgo", src)
		if err != nil {
			n0 := len(skip)
			for k, c := range cases {
				if skip[k] {
					continue
				}
				one := head + caseFuncs(k, c) + fmt.Sprintf("\nfunc main() {\n\t_ = sort.Ints\n\temit(%d, case%d(), take(), case%d_doc(), take())\n}\n", k, k, k)
				if _, e := comp.Compile(fmt.Sprintf("case%d.xgo", k), one); e != nil {
					skip[k] = true
					status[k] = "compile-error: " + short(e.Error())
				}
			}
			if len(skip) == n0 || round > 3 {
				return fmt.Errorf("the program does not compile even without the %d rejected cases: %v", len(skip), err)
			}
			continue
		}
		lines := caseLines(cases, skip)
		n0 := len(skip)
		for _, ge := range comp.TypeCheck("main.go", out) {
			hit := false
			for k, ab := range lines {
				if !skip[k] && ab[0] > 0 && ab[0] <= ge.Line && ge.Line <= ab[1] && ge.File == "main.xgo" {
					skip[k] = true
					status[k] = "go-build-error: " + short(ge.Msg)
					hit = true
				}
			}
			if !hit && ge.File != "main.xgo" {
				// position without a //line mapping: generated code outside any statement of a case
				fmt.Fprintf(os.Stderr, "unmapped Go error: %s:%d %s\n", ge.File, ge.Line, ge.Msg)
			}
		}
		if len(skip) == n0 || round > 3 {
			break
		}
	}
	for k := range cases {
		if status[k] == "" {
			status[k] = "ok"
		}
	}
	if err := os.WriteFile(filepath.Join(dir, "main.xgo"), []byte(src), 0o644); err != nil {
		return err
	}
	if err := os.WriteFile(filepath.Join(dir, "main.go"), out, 0o644); err != nil {
		return err
	}
	var sk []int
	for k := range skip {
		sk = append(sk, k)
	}
	sort.Ints(sk)
	sb, _ := json.Marshal(map[string]interface{}{"status": status, "skipped": sk, "lines": caseLines(cases, skip)})
	return os.WriteFile(filepath.Join(dir, "status.json"), sb, 0o644)
}

func main() {
	if len(os.Args) < 2 || os.Args[1] != "gen" {
		fmt.Fprintln(os.Stderr, "usage: h_c02 gen -dir D -cases F.json")
		os.Exit(2)
	}
	fs := flag.NewFlagSet("gen", flag.ExitOnError)
	dir := fs.String("dir", ".", "output directory")
	cs := fs.String("cases", "", "cases JSON")
	fs.Parse(os.Args[2:])
	if err := doGen(*dir, *cs); err != nil {
		fmt.Println("ERROR:", err)
		os.Exit(1)
	}
}
