// Implementation side of the C34 correspondence: parser.ParseFSDir / parser.ParseFSEntry over an
// in-memory parser.FileSystem (like parser/fsx/memfs, but with directories, Info() failures and
// unreadable files).
//
//	D <mode letters|0> <filter id> <classkind id> <entry> ...     entry = <name hex>:<dir 0|1>:<info fails 0|1>:<content hex | ->
//	      mode letters: g = ParseGoAsGoPlus, a = SaveAbsFile, c = ParseComments
//	      filter: 0 nil, 1 name without 'q', 2 size > 0, 3 not *_test.xgo
//	      classkind: 0 nil (defaultClassKind), 1 custom (.spx .yap *_yap.gox; project iff main*), 2 always (true,true),
//	                 3 always (true,false), 4 always (false,false), 5 class iff no extension
//	E <mode> <classkind id> <name hex> <content hex | ->          ParseFSEntry("/d/<name>")
//
// Output per case:  <model case> TAB <result> TAB <oracle>
// model case = the line for the extracted model: the parser outcomes of every file are MEASURED here by
// calling ParseFSFile (with / without ParseGoPlusClass) and go/parser directly, so that the model only
// has to reproduce the selection, classification and grouping.
// result (D) = pkghex=[filehex/kind,...];...  ERR=0|1     kind = go | x<IsProj><IsClass><IsNormalGox>
// result (E) = UNKNOWN | x<IsProj><IsClass><IsNormalGox>
// oracle = the property evaluated directly on the returned package map (independent restatement).
package main

import (
	"bufio"
	"encoding/hex"
	"errors"
	"fmt"
	goparser "go/parser"
	"io/fs"
	"os"
	"path"
	"sort"
	"strings"
	"syscall"
	"time"

	"github.com/goplus/xgo/ast"
	"github.com/goplus/xgo/parser"
	"github.com/goplus/xgo/token"
)

type memInfo struct {
	name    string
	size    int64
	dir     bool
	infoErr bool
}

func (p *memInfo) Name() string       { return p.name }
func (p *memInfo) Size() int64        { return p.size }
func (p *memInfo) ModTime() time.Time { return time.Time{} }
func (p *memInfo) IsDir() bool        { return p.dir }
func (p *memInfo) Sys() any           { return nil }
func (p *memInfo) Mode() fs.FileMode {
	if p.dir {
		return fs.ModeDir
	}
	return 0
}
func (p *memInfo) Type() fs.FileMode { return p.Mode().Type() }
func (p *memInfo) Info() (fs.FileInfo, error) {
	if p.infoErr {
		return nil, syscall.ENOENT
	}
	return p, nil
}

type memFS struct {
	dirs  map[string][]fs.DirEntry
	files map[string][]byte
}

func (p *memFS) ReadDir(dirname string) ([]fs.DirEntry, error) {
	if items, ok := p.dirs[dirname]; ok {
		return items, nil
	}
	return nil, syscall.ENOENT
}
func (p *memFS) ReadFile(filename string) ([]byte, error) {
	if data, ok := p.files[filename]; ok {
		return data, nil
	}
	return nil, syscall.ENOENT
}
func (p *memFS) Join(elem ...string) string      { return path.Join(elem...) }
func (p *memFS) Base(filename string) string     { return path.Base(filename) }
func (p *memFS) Abs(path string) (string, error) { return path, nil }

func unhex(s string) string {
	b, err := hex.DecodeString(s)
	if err != nil {
		panic("bad hex " + s)
	}
	return string(b)
}
func hx(s string) string { return hex.EncodeToString([]byte(s)) }
func bit(b bool) string {
	if b {
		return "1"
	}
	return "0"
}

func parseMode(s string) parser.Mode {
	var m parser.Mode
	for _, c := range s {
		switch c {
		case 'g':
			m |= parser.ParseGoAsGoPlus
		case 'a':
			m |= parser.SaveAbsFile
		case 'c':
			m |= parser.ParseComments
		}
	}
	return m
}

func filterOf(id string) func(fs.FileInfo) bool {
	switch id {
	case "1":
		return func(fi fs.FileInfo) bool { return !strings.Contains(fi.Name(), "q") }
	case "2":
		return func(fi fs.FileInfo) bool { return fi.Size() > 0 }
	case "3":
		return func(fi fs.FileInfo) bool { return !strings.HasSuffix(fi.Name(), "_test.xgo") }
	}
	return nil
}

func classKindOf(id string) func(string) (bool, bool) {
	switch id {
	case "1":
		return func(fname string) (bool, bool) {
			ext := path.Ext(fname)
			ok := ext == ".spx" || ext == ".yap" || strings.HasSuffix(fname, "_yap.gox")
			return ok && strings.HasPrefix(fname, "main"), ok
		}
	case "2":
		return func(string) (bool, bool) { return true, true }
	case "3":
		return func(string) (bool, bool) { return true, false }
	case "4":
		return func(string) (bool, bool) { return false, false }
	case "5":
		return func(fname string) (bool, bool) { return false, path.Ext(fname) == "" }
	}
	return nil
}

// the documented default rules, restated for the oracle
func defaultKind(fname string) (bool, bool) {
	switch path.Ext(fname) {
	case ".spx":
		return fname == "main.spx", true
	case ".gsh", ".gmx":
		return true, true
	}
	return false, false
}

func xout(f *ast.File, err error) (string, string, bool) {
	file, name, has := "n", "", false
	if f != nil {
		if f.Name == nil {
			file = "u"
		} else {
			file, name, has = "s"+hx(f.Name.Name), f.Name.Name, true
		}
	}
	return file + "/" + bit(err != nil), name, has
}

type entry struct {
	name          string
	dir, infoErr  bool
	content       []byte
	has           bool
	filt          bool
	ckp, cko      bool
	xp, xc, gop   string
	xpName        string
	xpHas         bool
	xcName        string
	xcHas         bool
	goName        string
	goHas         bool
	xpErr, xcErr  bool
}

const dirName = "/d"

func doD(f []string) (mcase, result, oracle string) {
	defer func() {
		if e := recover(); e != nil {
			mcase, result, oracle = "BADCASE", fmt.Sprintf("PANIC:%v", e), "panic"
		}
	}()
	mode := parseMode(f[1])
	filter := filterOf(f[2])
	ck := classKindOf(f[3])
	mfs := &memFS{dirs: map[string][]fs.DirEntry{}, files: map[string][]byte{}}
	var ents []*entry
	var list []fs.DirEntry
	for _, s := range f[4:] {
		p := strings.Split(s, ":")
		e := &entry{name: unhex(p[0]), dir: p[1] == "1", infoErr: p[2] == "1"}
		if p[3] != "-" {
			e.content, e.has = []byte(unhex(p[3])), true
			if !e.dir {
				mfs.files[path.Join(dirName, e.name)] = e.content
			}
		}
		ents = append(ents, e)
		list = append(list, &memInfo{name: e.name, size: int64(len(e.content)), dir: e.dir, infoErr: e.infoErr})
	}
	mfs.dirs[dirName] = list
	base := mode &^ parser.SaveAbsFile
	// measure what the parsers say about every file, independently of ParseFSDir
	var mparts []string
	for i, e := range ents {
		filename := path.Join(dirName, e.name)
		fset := token.NewFileSet()
		fp, errp := parser.ParseFSFile(fset, mfs, filename, nil, base)
		fc, errc := parser.ParseFSFile(fset, mfs, filename, nil, base|parser.ParseGoPlusClass)
		e.xp, e.xpName, e.xpHas = xout(fp, errp)
		e.xc, e.xcName, e.xcHas = xout(fc, errc)
		e.xpErr, e.xcErr = errp != nil, errc != nil
		e.gop = "-"
		if data, err := mfs.ReadFile(filename); err == nil {
			if src, err := goparser.ParseFile(fset, filename, data, goparser.Mode(base&0xFFFF)); err == nil {
				e.gop, e.goName, e.goHas = "s"+hx(src.Name.Name), src.Name.Name, true
			}
		}
		if filter != nil && !e.infoErr {
			fi, _ := list[i].Info()
			e.filt = filter(fi)
		}
		if ck != nil {
			e.ckp, e.cko = ck(e.name)
		}
		mparts = append(mparts, fmt.Sprintf("%s:%s:%s:%s:%s:%s:%s:%s:%s", hx(e.name), bit(e.dir), bit(!e.infoErr), bit(e.filt),
			bit(e.ckp), bit(e.cko), e.xp, e.xc, e.gop))
	}
	ckTag := "t"
	if ck == nil {
		ckTag = "d"
	}
	mcase = fmt.Sprintf("D %s %s %s %s", bit(mode&parser.ParseGoAsGoPlus != 0), bit(filter != nil), ckTag, strings.Join(mparts, " "))

	fset := token.NewFileSet()
	pkgs, err := parser.ParseFSDir(fset, mfs, dirName, parser.Config{ClassKind: ck, Filter: filter, Mode: mode})
	if pkgs == nil {
		return mcase, "NILMAP ERR=" + bit(err != nil), "nil-map"
	}
	type got struct{ pkg, kind string }
	seen := map[string]got{}
	var pk []string
	for name, pkg := range pkgs {
		if pkg.Name != name {
			oracle = "package-name-differs-from-key"
		}
		var fsl []string
		for fn, file := range pkg.Files {
			k := "x" + bit(file.IsProj) + bit(file.IsClass) + bit(file.IsNormalGox)
			b := strings.TrimPrefix(fn, dirName+"/")
			fsl = append(fsl, hx(b)+"/"+k)
			if file.Name == nil || file.Name.Name != name {
				oracle = "file-under-wrong-package:" + b
			}
			if _, dup := seen[b]; dup {
				oracle = "file-in-two-packages:" + b
			}
			seen[b] = got{name, k}
		}
		for fn, file := range pkg.GoFiles {
			b := strings.TrimPrefix(fn, dirName+"/")
			fsl = append(fsl, hx(b)+"/go")
			if file.Name.Name != name {
				oracle = "go-file-under-wrong-package:" + b
			}
			if _, dup := seen[b]; dup {
				oracle = "file-in-two-packages:" + b
			}
			seen[b] = got{name, "go"}
		}
		if len(fsl) == 0 {
			oracle = "empty-package:" + name
		}
		sort.Strings(fsl)
		pk = append(pk, hx(name)+"=["+strings.Join(fsl, ",")+"]")
	}
	sort.Strings(pk)
	result = strings.Join(pk, ";") + " ERR=" + bit(err != nil)

	// ---- direct oracle: the property, file by file
	wantErr := false
	for _, e := range ents {
		want := ""     // expected kind, "" = not included
		wantPkg := ""
		ext := path.Ext(e.name)
		recognised, kind := false, ""
		isProj, isClass := false, false
		if ck != nil {
			isProj, isClass = e.ckp, e.cko
		} else {
			isProj, isClass = defaultKind(e.name)
		}
		switch {
		case ext == ".xgo" || ext == ".gop":
			recognised, kind = true, "x000"
		case ext == ".go":
			if !strings.HasPrefix(e.name, "gop_autogen") {
				recognised, kind = true, "go"
				if mode&parser.ParseGoAsGoPlus != 0 {
					kind = "x000"
				}
			}
		case isClass:
			recognised, kind = true, "x"+bit(isProj)+"10"
		case ext == ".gox":
			recognised, kind = true, "x"+bit(isProj)+"11"
		}
		passes := filter == nil || (!e.infoErr && e.filt)
		if !e.dir && recognised && !strings.HasPrefix(e.name, "_") && passes {
			switch {
			case kind == "go":
				if e.goHas {
					want, wantPkg = kind, e.goName
				} else {
					wantErr = true
				}
			case kind[2] == '1': // class file: parsed with ParseGoPlusClass
				if e.xcHas {
					want, wantPkg = kind, e.xcName
				}
				wantErr = wantErr || e.xcErr
			default:
				if e.xpHas {
					want, wantPkg = kind, e.xpName
				}
				wantErr = wantErr || e.xpErr
			}
		}
		g, ok := seen[e.name]
		switch {
		case want == "" && ok:
			oracle = "included-but-should-not:" + e.name
		case want != "" && !ok:
			oracle = "missing:" + e.name
		case want != "" && g.kind != want:
			oracle = fmt.Sprintf("flags:%s:%s!=%s", e.name, g.kind, want)
		case want != "" && g.pkg != wantPkg:
			oracle = fmt.Sprintf("package:%s:%s!=%s", e.name, g.pkg, wantPkg)
		}
		delete(seen, e.name)
	}
	for b := range seen {
		oracle = "file-not-in-listing:" + b
	}
	if wantErr != (err != nil) && oracle == "" {
		oracle = fmt.Sprintf("error-returned=%v-expected=%v", err != nil, wantErr)
	}
	return mcase, result, oracle
}

func doE(f []string) (mcase, result, oracle string) {
	defer func() {
		if e := recover(); e != nil {
			mcase, result, oracle = "BADCASE", fmt.Sprintf("PANIC:%v", e), "panic"
		}
	}()
	mode := parseMode(f[1])
	ck := classKindOf(f[2])
	name := unhex(f[3])
	mfs := &memFS{dirs: map[string][]fs.DirEntry{}, files: map[string][]byte{}}
	filename := dirName + "/" + name
	if f[4] != "-" {
		mfs.files[filename] = []byte(unhex(f[4]))
	}
	ckp, cko := false, false
	tag := "d"
	if ck != nil {
		ckp, cko = ck(name)
		tag = "t"
	}
	mcase = fmt.Sprintf("E %s %s %s %s", tag, hx(name), bit(ckp), bit(cko))
	file, err := parser.ParseFSEntry(token.NewFileSet(), mfs, filename, nil, parser.Config{ClassKind: ck, Mode: mode})
	if errors.Is(err, parser.ErrUnknownFileKind) {
		if file != nil {
			oracle = "file-with-unknown-kind"
		}
		result = "UNKNOWN"
	} else if file == nil {
		result = "NILFILE"
	} else {
		result = "x" + bit(file.IsProj) + bit(file.IsClass) + bit(file.IsNormalGox)
	}
	// oracle: the extension / class-kind rules
	ext := path.Ext(name)
	isProj, isClass := ckp, cko
	if ck == nil {
		isProj, isClass = defaultKind(name)
	}
	want := "UNKNOWN"
	switch {
	case ext == ".xgo" || ext == ".gop" || ext == ".go":
		want = "x000"
	case isClass:
		want = "x" + bit(isProj) + "10"
	case ext == ".gox":
		want = "x" + bit(isProj) + "11"
	}
	if f[4] == "-" && want != "UNKNOWN" {
		want = "NILFILE"
	}
	if want != result && oracle == "" {
		oracle = "entry:" + result + "!=" + want
	}
	return mcase, result, oracle
}

func main() {
	sc := bufio.NewScanner(os.Stdin)
	sc.Buffer(make([]byte, 1<<20), 1<<26)
	w := bufio.NewWriter(os.Stdout)
	defer w.Flush()
	for sc.Scan() {
		f := strings.Fields(sc.Text())
		var m, r, o string
		switch {
		case len(f) >= 4 && f[0] == "D":
			m, r, o = doD(f)
		case len(f) == 5 && f[0] == "E":
			m, r, o = doE(f)
		default:
			m, r, o = "BADCASE", "BADCASE", "badcase"
		}
		if o == "" {
			o = "ok"
		}
		fmt.Fprintf(w, "%s\t%s\t%s\n", m, r, o)
	}
}
