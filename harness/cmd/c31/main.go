// Implementation side of the C31 correspondence: tpl/parser.ParseFile on each grammar text.
//
// stdin : one case per line:  <hex of grammar text> TAB <expected tree | ->
// stdout: <token words for the model> TAB <nerr|E> <tree> TAB <oracle verdict>
//
// The token words are what tpl/scanner delivers for the text (the model of the parser works on
// that stream); nerr = number of parser errors (total errors minus scanner errors); when the
// scanner itself reported errors the count is printed as "E" (only the tree is compared).
// Direct oracle: (a) when an expected tree is given (text = a tree printed with minimal
// parentheses) the parsed tree must be that tree with no error; (b) a tree containing an empty
// Sequence / nil operand must come with at least one error; (c) no panic.
package main

import (
	"bufio"
	"encoding/hex"
	"fmt"
	goscanner "go/scanner"
	"os"
	"strings"

	"github.com/goplus/xgo/tpl/ast"
	"github.com/goplus/xgo/tpl/parser"
	"github.com/goplus/xgo/tpl/scanner"
	"github.com/goplus/xgo/tpl/token"
)

func hx(s string) string {
	if s == "" {
		return "-"
	}
	return hex.EncodeToString([]byte(s))
}

func words(src []byte) (ws []string, nerr int, panicked string) {
	defer func() {
		if e := recover(); e != nil {
			panicked = fmt.Sprint(e)
		}
	}()
	fset := token.NewFileSet()
	f := fset.AddFile("", -1, len(src))
	var s scanner.Scanner
	s.Init(f, src, func(pos token.Position, msg string) { nerr++ }, 0)
	for {
		t := s.Scan()
		if t.Tok == token.EOF {
			break
		}
		switch t.Tok {
		case token.IDENT:
			ws = append(ws, "i"+hx(t.Lit))
		case token.CHAR:
			ws = append(ws, "c"+hx(t.Lit))
		case token.STRING:
			ws = append(ws, "s"+hx(t.Lit))
		case token.MUL:
			ws = append(ws, "*")
		case token.ADD:
			ws = append(ws, "+")
		case token.QUESTION:
			ws = append(ws, "?")
		case token.REM:
			ws = append(ws, "%")
		case token.INC:
			ws = append(ws, "++")
		case token.OR:
			ws = append(ws, "|")
		case token.LPAREN:
			ws = append(ws, "(")
		case token.RPAREN:
			ws = append(ws, ")")
		case token.ASSIGN:
			ws = append(ws, "=")
		case token.SEMICOLON:
			ws = append(ws, ";")
		case token.DRARROW:
			ws = append(ws, "=>")
		case token.LBRACE:
			ws = append(ws, "{")
		case token.RBRACE:
			ws = append(ws, "}")
		default:
			ws = append(ws, fmt.Sprintf("o%d", uint(t.Tok)))
		}
	}
	return
}

type shower struct {
	hole bool
}

func (p *shower) expr(e ast.Expr) string {
	switch v := e.(type) {
	case nil:
		p.hole = true
		return "nil"
	case *ast.Ident:
		return "I" + hx(v.Name)
	case *ast.BasicLit:
		if v.Kind == token.CHAR {
			return "C" + hx(v.Value)
		}
		return "S" + hx(v.Value)
	case *ast.UnaryExpr:
		op := "?"
		switch v.Op {
		case token.MUL:
			op = "*"
		case token.ADD:
			op = "+"
		case token.QUESTION:
			op = "?"
		default:
			op = fmt.Sprintf("op%d", uint(v.Op))
		}
		return "(u" + op + " " + p.expr(v.X) + ")"
	case *ast.BinaryExpr:
		op := ""
		switch v.Op {
		case token.REM:
			op = "%"
		case token.INC:
			op = "++"
		default:
			op = fmt.Sprintf("op%d", uint(v.Op))
		}
		return "(" + op + " " + p.expr(v.X) + " " + p.expr(v.Y) + ")"
	case *ast.Sequence:
		if len(v.Items) == 0 {
			p.hole = true
		}
		var b strings.Builder
		b.WriteString("(seq")
		for _, it := range v.Items {
			b.WriteString(" " + p.expr(it))
		}
		b.WriteString(")")
		return b.String()
	case *ast.Choice:
		if len(v.Options) == 0 {
			p.hole = true
		}
		var b strings.Builder
		b.WriteString("(alt")
		for _, it := range v.Options {
			b.WriteString(" " + p.expr(it))
		}
		b.WriteString(")")
		return b.String()
	}
	return fmt.Sprintf("?%T", e)
}

func parse(src []byte) (tree string, nerr int, hole bool, panicked string) {
	defer func() {
		if e := recover(); e != nil {
			panicked = fmt.Sprint(e)
		}
	}()
	fset := token.NewFileSet()
	f, err := parser.ParseFile(fset, "", src, nil)
	switch e := err.(type) {
	case nil:
	case *goscanner.Error:
		nerr = 1
	case goscanner.ErrorList:
		nerr = len(e)
	default:
		nerr = -1
	}
	var sh shower
	var parts []string
	if f != nil {
		for _, d := range f.Decls {
			switch r := d.(type) {
			case *ast.Rule:
				parts = append(parts, "(rule "+hx(r.Name.Name)+" "+sh.expr(r.Expr)+")")
			default:
				parts = append(parts, fmt.Sprintf("?%T", d))
			}
		}
	}
	return strings.Join(parts, " "), nerr, sh.hole, ""
}

func main() {
	sc := bufio.NewScanner(os.Stdin)
	sc.Buffer(make([]byte, 1<<22), 1<<22)
	w := bufio.NewWriter(os.Stdout)
	defer w.Flush()
	for sc.Scan() {
		f := strings.Split(sc.Text(), "\t")
		src, _ := hex.DecodeString(f[0])
		want := "-"
		if len(f) > 1 {
			want = f[1]
		}
		ws, nscan, p1 := words(src)
		tree, ntot, hole, p2 := parse(src)
		verdict := "ok"
		res := ""
		switch {
		case p1 != "" || p2 != "":
			verdict = "panic:" + p1 + p2
			res = "PANIC"
		default:
			cnt := "E"
			if nscan == 0 && ntot >= 0 {
				cnt = fmt.Sprint(ntot)
			}
			res = cnt
			if tree != "" {
				res += " " + tree
			}
			if hole && ntot == 0 {
				verdict = "empty-rule-without-error"
			}
			if want != "-" && (tree != want || ntot != 0) {
				verdict = "precedence-mismatch"
			}
		}
		fmt.Fprintf(w, "%s\t%s\t%s\n", strings.Join(ws, " "), res, verdict)
	}
}
