// Implementation side of the C35 correspondence: xgoprojs.ParseAll on each line of stdin.
// Also evaluates the property directly (oracle) and prints "ORACLE <why>" as a second field.
package main

import (
	"bufio"
	"encoding/hex"
	"fmt"
	"os"
	"path/filepath"
	"strings"

	"github.com/goplus/xgo/x/xgoprojs"
)

func hx(s string) string {
	if s == "" {
		return "-"
	}
	return hex.EncodeToString([]byte(s))
}

func run(args []string) (out string, oracle string) {
	defer func() {
		if e := recover(); e != nil {
			out = fmt.Sprintf("PANIC %v", e)
			oracle = "panic"
		}
	}()
	projs, err := xgoprojs.ParseAll(args...)
	isFile := func(s string) bool { return len(filepath.Ext(s)) > 1 }
	anyF, anyN := false, false
	for _, a := range args {
		if isFile(a) {
			anyF = true
		} else {
			anyN = true
		}
	}
	if err != nil {
		if err == xgoprojs.ErrMixedFilesProj {
			if !(anyF && anyN) {
				oracle = "mixed-error-without-both-kinds"
			}
			return "ERRMIXED", oracle
		}
		return "ERR " + err.Error(), "unexpected-error"
	}
	if anyF && anyN {
		oracle = "no-mixed-error"
	}
	var parts []string
	var cat []string
	prevFiles := false
	for _, p := range projs {
		switch v := p.(type) {
		case *xgoprojs.FilesProj:
			var hs []string
			for _, f := range v.Files {
				hs = append(hs, hx(f))
				if !isFile(f) {
					oracle = "non-file-in-files-proj"
				}
			}
			if len(v.Files) == 0 {
				oracle = "empty-files-proj"
			}
			if prevFiles {
				oracle = "adjacent-files-projs"
			}
			prevFiles = true
			cat = append(cat, v.Files...)
			parts = append(parts, "F:"+strings.Join(hs, ","))
		case *xgoprojs.DirProj:
			prevFiles = false
			if isFile(v.Dir) {
				oracle = "file-as-dir"
			}
			cat = append(cat, v.Dir)
			parts = append(parts, "D:"+hx(v.Dir))
		case *xgoprojs.PkgPathProj:
			prevFiles = false
			if isFile(v.Path) {
				oracle = "file-as-pkg"
			}
			cat = append(cat, v.Path)
			parts = append(parts, "P:"+hx(v.Path))
		}
	}
	if strings.Join(cat, "\x00") != strings.Join(args, "\x00") || len(cat) != len(args) {
		oracle = "concat-differs"
	}
	return "OK " + strings.Join(parts, " "), oracle
}

func main() {
	sc := bufio.NewScanner(os.Stdin)
	sc.Buffer(make([]byte, 1<<20), 1<<26)
	w := bufio.NewWriter(os.Stdout)
	defer w.Flush()
	for sc.Scan() {
		var args []string
		for _, f := range strings.Fields(sc.Text()) {
			if f == "-" {
				args = append(args, "")
			} else {
				b, _ := hex.DecodeString(f)
				args = append(args, string(b))
			}
		}
		out, or := run(args)
		if or == "" {
			or = "ok"
		}
		fmt.Fprintf(w, "%s\t%s\n", strings.TrimRight(out, " "), or)
	}
}
