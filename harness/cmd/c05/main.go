// Implementation side of C05.
//
//	h_c05 split             stdin: one literal per line "<d|r> <hex of the text between the quotes>";
//	                        parser.ParseExprFrom on the literal; prints BasicLit.Extra.Parts
//	                        (strings as hex, expressions as source spans) and the errors reported
//	h_c05 gen -dir D -cases F.json
//	                        writes D/main.xgo + D/main.go: one program with every case of F (a
//	                        literal built from typed segments, next to its explicit
//	                        concatenation written in plain Go syntax), compiled by the real
//	                        compiler; cases the compiler rejects are reported in D/status.json and
//	                        left out of the program
package main

import (
	"bufio"
	"encoding/hex"
	"encoding/json"
	"flag"
	"fmt"
	"os"
	"path/filepath"
	"strings"

	"github.com/goplus/xgo/ast"
	"github.com/goplus/xgo/parser"
	"github.com/goplus/xgo/scanner"
	"github.com/goplus/xgo/token"

	"vh/internal/xgoc"
)

// ---------------------------------------------------------------- split

func splitOne(q string, body []byte) (out string) {
	defer func() {
		if e := recover(); e != nil {
			out = fmt.Sprintf("PANIC %v", e)
		}
	}()
	quote := "\""
	if q == "r" {
		quote = "`"
	}
	src := quote + string(body) + quote
	fset := token.NewFileSet()
	x, err := parser.ParseExprFrom(fset, "lit.xgo", []byte(src), parser.AllErrors)
	var serrs []string
	other := 0
	if err != nil {
		if el, ok := err.(scanner.ErrorList); ok {
			for _, e := range el {
				switch {
				case strings.HasPrefix(e.Msg, "invalid $ expression: ${ doesn't end"):
					serrs = append(serrs, fmt.Sprintf("noclose@%d", e.Pos.Offset-1))
				case strings.HasPrefix(e.Msg, "invalid $ expression: neither"):
					serrs = append(serrs, fmt.Sprintf("baddollar@%d", e.Pos.Offset-1))
				default:
					other++
				}
			}
		} else {
			other++
		}
	}
	bl, ok := x.(*ast.BasicLit)
	if !ok || bl.Kind != token.STRING || bl.Value != src {
		return "NOTLIT"
	}
	var b strings.Builder
	if bl.Extra == nil {
		b.WriteString("nil")
	} else {
		file := fset.File(bl.Pos())
		for i, p := range bl.Extra.Parts {
			if i > 0 {
				b.WriteByte(' ')
			}
			switch v := p.(type) {
			case string:
				b.WriteString("S:" + hex.EncodeToString([]byte(v)))
			case *ast.BadExpr:
				fmt.Fprintf(&b, "B:%d:%d", file.Offset(v.From)-1, file.Offset(v.To)-1)
			case ast.Expr:
				fmt.Fprintf(&b, "E:%d:%d", file.Offset(v.Pos())-1, file.Offset(v.End())-1)
			default:
				b.WriteString("?")
			}
		}
	}
	b.WriteString(" | " + strings.Join(serrs, ","))
	if other > 0 {
		b.WriteString(" | other")
	}
	return b.String()
}

func doSplit() {
	sc := bufio.NewScanner(os.Stdin)
	sc.Buffer(make([]byte, 1<<20), 1<<26)
	w := bufio.NewWriter(os.Stdout)
	defer w.Flush()
	for sc.Scan() {
		f := strings.Fields(sc.Text())
		if len(f) == 0 {
			fmt.Fprintln(w, "?")
			continue
		}
		var body []byte
		if len(f) > 1 {
			body, _ = hex.DecodeString(f[1])
		}
		fmt.Fprintln(w, splitOne(f[0], body))
	}
}

// ---------------------------------------------------------------- values

// a segment: ["lit", body] | ["raw", body with a lone "$x"] | ["dd"] | ["emb", exprsrc, type] | ["tail$"]
type vcase struct {
	Quote string     `json:"quote"` // "d" or "r"
	Segs  [][]string `json:"segs"`
}

const vhead = `import (
	"errors"
	"fmt"
	"strconv"
)

var plog []string

func p(id int, v int) int {
	plog = append(plog, fmt.Sprintf("%d:%d", id, v))
	return v
}

func ps(id int, v string) string {
	plog = append(plog, fmt.Sprintf("%d:%x", id, v))
	return v
}

func take() string {
	r := fmt.Sprint(plog)
	plog = nil
	return r
}

var (
	n  = 3
	m  = -12
	s  = "q"
	fl = 1.5
	g  = 1e21
	er = errors.New("E")
	b  = true
	_  = strconv.Itoa
)

func emit(k int, v string, t string, xv string, xt string) {
	fmt.Printf("%d\tv=%x\tt=%s\txv=%x\txt=%s\n", k, v, t, xv, xt)
}
`

func (c *vcase) literal() string {
	q := "\""
	if c.Quote == "r" {
		q = "`"
	}
	var b strings.Builder
	b.WriteString(q)
	for _, s := range c.Segs {
		switch s[0] {
		case "lit", "raw":
			b.WriteString(s[1])
		case "dd":
			b.WriteString("$$")
		case "emb":
			b.WriteString("${" + s[1] + "}")
		case "tail$":
			b.WriteString("$")
		}
	}
	b.WriteString(q)
	return b.String()
}

// the explicit concatenation, in plain Go syntax
func (c *vcase) explicit() string {
	q := "\""
	if c.Quote == "r" {
		q = "`"
	}
	var parts []string
	for _, s := range c.Segs {
		switch s[0] {
		case "lit", "raw":
			parts = append(parts, q+s[1]+q)
		case "dd", "tail$":
			parts = append(parts, `"$"`)
		case "emb":
			e := s[1]
			switch s[2] {
			case "int":
				parts = append(parts, "strconv.Itoa("+e+")")
			case "string":
				parts = append(parts, "("+e+")")
			case "float":
				parts = append(parts, "strconv.FormatFloat("+e+", 'g', -1, 64)")
			case "error":
				parts = append(parts, "("+e+").Error()")
			case "bool":
				parts = append(parts, "strconv.FormatBool("+e+")")
			}
		}
	}
	if len(parts) == 0 {
		return `""`
	}
	return strings.Join(parts, " + ")
}

func caseFunc(k int, c *vcase) string {
	return fmt.Sprintf("func case%d() {\n\tv := %s\n\tt := take()\n\txv := %s\n\txt := take()\n\temit(%d, v, t, xv, xt)\n}\n", k, c.literal(), c.explicit(), k)
}

func program(cases []*vcase, skip map[int]bool) string {
	var b strings.Builder
	b.WriteString(vhead)
	for k, c := range cases {
		if !skip[k] {
			b.WriteString(caseFunc(k, c))
		}
	}
	b.WriteString("\nfunc main() {\n")
	for k := range cases {
		if !skip[k] {
			fmt.Fprintf(&b, "\tcase%d()\n", k)
		}
	}
	b.WriteString("}\n")
	return b.String()
}

func doGen(dir, casesFile string) error {
	raw, err := os.ReadFile(casesFile)
	if err != nil {
		return err
	}
	var cases []*vcase
	if err := json.Unmarshal(raw, &cases); err != nil {
		return err
	}
	comp, err := xgoc.New("")
	if err != nil {
		return err
	}
	status := make([]string, len(cases))
	skip := map[int]bool{}
	src := program(cases, skip)
	out, err := comp.Compile("main.xgo", src)
	if err != nil {
		// find the cases the compiler rejects, one by one
		for k, c := range cases {
			one := vhead + caseFunc(k, c) + fmt.Sprintf("\nfunc main() {\n\tcase%d()\n}\n", k)
			if _, e := comp.Compile(fmt.Sprintf("case%d.xgo", k), one); e != nil {
				skip[k] = true
				msg := e.Error()
				if len(msg) > 300 {
					msg = msg[:300]
				}
				status[k] = "compile-error: " + msg
			}
		}
		src = program(cases, skip)
		out, err = comp.Compile("main.xgo", src)
		if err != nil {
			return fmt.Errorf("the program does not compile even without the %d rejected cases: %v", len(skip), err)
		}
	}
	for k := range cases {
		if status[k] == "" {
			status[k] = "ok"
		}
	}
	if err := os.WriteFile(filepath.Join(dir, "main.xgo"), []byte(src), 0o644); err != nil {
		return err
	}
	if err := os.WriteFile(filepath.Join(dir, "main.go"), out, 0o644); err != nil {
		return err
	}
	lits := make([]string, len(cases))
	for k, c := range cases {
		lits[k] = c.literal()
	}
	sb, _ := json.Marshal(map[string]interface{}{"status": status, "literals": lits})
	return os.WriteFile(filepath.Join(dir, "status.json"), sb, 0o644)
}

func main() {
	if len(os.Args) < 2 {
		fmt.Fprintln(os.Stderr, "usage: h_c05 split | gen -dir D -cases F.json")
		os.Exit(2)
	}
	switch os.Args[1] {
	case "split":
		doSplit()
	case "gen":
		fs := flag.NewFlagSet("gen", flag.ExitOnError)
		dir := fs.String("dir", ".", "output directory")
		cs := fs.String("cases", "", "cases JSON")
		fs.Parse(os.Args[2:])
		if err := doGen(*dir, *cs); err != nil {
			fmt.Println("ERROR:", err)
			os.Exit(1)
		}
	default:
		fmt.Fprintln(os.Stderr, "unknown mode")
		os.Exit(2)
	}
}
