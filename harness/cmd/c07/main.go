// Implementation side of C07 (the compiler never crashes or hangs on parseable input).
//
//	h_c07 -exports FILE -mode scenario < scenarios      K-diff with the recover-skeleton model
//	h_c07 -exports FILE -mode fuzz [-timeout SEC] < packages.jsonl     direct oracle
//
// scenario lines: see ocaml/c07_driver.ml; each scenario is turned into an XGo package whose
// imports / func declarations / statements either are fine, contain an ordinary compile error
// (marker undefN) or make a user-supplied callback panic (Importer, LookupClass, Recorder.Def,
// Recorder.Use; marker boomN) at exactly that place.  Output "RET p=0|1 n,n,.." (markers of the
// error list in order) or "ESC n|nil".
//
// fuzz lines: {"id","files":[{name,src}],"via":""|"buildfile"}.  One output line per case:
// id TAB kind TAB ms TAB verdict TAB detail;  verdict "ok" or the oracle failure
// (escaped-panic | bad-position | nil-error | slow).  The process prints a line BEFORE starting a
// case ("BEGIN id") so that the driver knows which case killed or hung the process.
package main

import (
	"bufio"
	"encoding/json"
	"flag"
	"fmt"
	"go/types"
	"os"
	"regexp"
	"strconv"
	"strings"
	"syscall"
	"time"

	"github.com/goplus/mod/modfile"
	"github.com/goplus/xgo/ast"
	"github.com/goplus/xgo/cl"
	"github.com/goplus/xgo/parser"
	"github.com/goplus/xgo/parser/fsx/memfs"
	"github.com/goplus/xgo/token"
	"github.com/goplus/xgo/x/build"

	"vh/internal/g9cl"
)

// ---------------------------------------------------------------- scenario mode

type boomImporter struct {
	base    types.Importer
	fmtBoom string // non-empty: Import("fmt") panics with this value
}

func (i boomImporter) Import(path string) (*types.Package, error) {
	if strings.HasPrefix(path, "boom") {
		panic("boom-import:" + path)
	}
	if path == "fmt" && i.fmtBoom != "" {
		panic(i.fmtBoom)
	}
	return i.base.Import(path)
}

type boomRecorder struct{}

func (boomRecorder) Type(ast.Expr, types.TypeAndValue)      {}
func (boomRecorder) Instantiate(*ast.Ident, types.Instance) {}
func (boomRecorder) Def(id *ast.Ident, obj types.Object) {
	if strings.HasPrefix(id.Name, "boomd") {
		panic("boom-def:" + id.Name)
	}
}
func (boomRecorder) Use(id *ast.Ident, obj types.Object) {
	if strings.HasPrefix(id.Name, "boomu") {
		panic("boom-use:" + id.Name)
	}
}
func (boomRecorder) Implicit(node ast.Node, obj types.Object)   {}
func (boomRecorder) Select(*ast.SelectorExpr, *types.Selection) {}
func (boomRecorder) Scope(ast.Node, *types.Scope)               {}

var okImports = []string{"strings", "strconv", "math", "os", "bytes", "sort", "errors", "time", "io", "bufio"}

var reMarker = regexp.MustCompile(`(?:undef|boom)\D*?(\d+)`)

func marker(s string) string {
	if m := reMarker.FindStringSubmatch(s); m != nil {
		return m[1]
	}
	return "?" + strconv.Quote(s)
}

func kvs(line string) map[string]string {
	m := map[string]string{}
	for _, f := range strings.Fields(line) {
		if i := strings.IndexByte(f, '='); i > 0 {
			m[f[:i]] = f[i+1:]
		}
	}
	return m
}

func list(s, sep string) []string {
	if s == "" || s == "-" {
		return nil
	}
	return strings.Split(s, sep)
}

func runScenario(exp g9cl.Exports, line string) (out string) {
	kv := kvs(line)
	var src strings.Builder
	usesRec := false
	for i, it := range list(kv["imports"], ",") {
		switch it[0] {
		case 'o':
			fmt.Fprintf(&src, "import %q\n", okImports[i%len(okImports)])
		case 'e':
			fmt.Fprintf(&src, "import \"nosuch/undef%s\"\n", it[1:])
		case 'p':
			fmt.Fprintf(&src, "import \"boom%s/x\"\n", it[1:])
		default:
			return "BADSCENARIO import " + it
		}
	}
	var helpers []string
	for k, sy := range list(kv["syms"], ";") {
		ds := strings.SplitN(sy, ":", 2)
		if len(ds) != 2 {
			return "BADSCENARIO sym " + sy
		}
		switch ds[0][0] {
		case 'o':
			fmt.Fprintf(&src, "\nfunc sym%d() {\n", k)
		case 'e':
			fmt.Fprintf(&src, "\nfunc sym%d(x undef%s) {\n", k, ds[0][1:])
		case 'p':
			usesRec = true
			fmt.Fprintf(&src, "\nfunc boomd%s() {\n", ds[0][1:])
		default:
			return "BADSCENARIO decl " + ds[0]
		}
		for j, st := range list(ds[1], ",") {
			switch st[0] {
			case 'o':
				fmt.Fprintf(&src, "\t_ = %d\n", j)
			case 'e':
				fmt.Fprintf(&src, "\tundef%s()\n", st[1:])
			case 'p':
				usesRec = true
				fmt.Fprintf(&src, "\tboomu%s()\n", st[1:])
				helpers = append(helpers, "boomu"+st[1:])
			default:
				return "BADSCENARIO stmt " + st
			}
		}
		src.WriteString("}\n")
	}
	for _, h := range helpers { // declared last: loading them reports nothing
		fmt.Fprintf(&src, "\nfunc %s() {\n}\n", h)
	}
	names := []string{"a.xgo"}
	data := map[string]string{"/foo/a.xgo": src.String()}
	clsBoom := ""
	if c := kv["cls"]; c != "" && c[0] == 'p' {
		clsBoom = c[1:]
		n := "x_boom" + clsBoom + ".gox"
		names = append(names, n)
		data["/foo/"+n] = "println 1\n"
	}
	hasRec := kv["rec"] == "1"
	if usesRec && !hasRec {
		return "BADSCENARIO recorder needed for Def/Use injection"
	}
	fset := token.NewFileSet()
	classKind := func(fname string) (bool, bool) {
		if strings.HasPrefix(modfile.ClassExt(fname), "_boom") {
			return false, true
		}
		return g9cl.ClassKind(fname)
	}
	pkgs, err := parser.ParseFSDir(fset, memfs.New(map[string][]string{"/foo": names}, data), "/foo", parser.Config{ClassKind: classKind})
	if err != nil {
		return "PARSEERR " + err.Error()
	}
	imp := boomImporter{base: exp.Importer(fset)}
	if g := kv["gogen"]; g != "" && g[0] == 'p' {
		imp.fmtBoom = "boom" + g[1:]
	}
	conf := &cl.Config{Fset: fset, Importer: imp, RelativeBase: "/foo",
		LookupClass: func(ext string) (*modfile.Project, bool) {
			if strings.HasPrefix(ext, "_boom") {
				panic("boom-lookupclass:" + ext)
			}
			return g9cl.LookupClass(ext)
		}}
	if hasRec {
		conf.Recorder = boomRecorder{}
	}
	if kv["en"] == "0" {
		cl.SetDisableRecover(true)
		defer cl.SetDisableRecover(false)
	}
	defer func() {
		if e := recover(); e != nil {
			s := fmt.Sprint(e)
			if strings.Contains(s, "nil pointer dereference") {
				out = "ESC nil"
			} else {
				out = "ESC " + marker(s)
			}
		}
	}()
	p, err := cl.NewPackage("", pkgs["main"], conf)
	msgs, _ := g9cl.ErrList(err)
	var ms []string
	for _, m := range msgs {
		ms = append(ms, marker(m))
	}
	pf := "0"
	if p != nil {
		pf = "1"
	}
	return "RET p=" + pf + " " + strings.Join(ms, ",")
}

// ---------------------------------------------------------------- fuzz mode

type fuzzCase struct {
	ID    string      `json:"id"`
	Files []g9cl.File `json:"files"`
	Via   string      `json:"via"`
}

// checkPos: "file:line:col" must name a file of the package and a line/column inside it.
func checkPos(pos string, files []g9cl.File) string {
	if pos == "" {
		return ""
	}
	f := strings.Split(pos, ":")
	n := len(f)
	line, _ := strconv.Atoi(f[n-2])
	col, _ := strconv.Atoi(f[n-1])
	name := strings.Join(f[:n-2], ":")
	name = strings.TrimPrefix(name, "/foo/")
	for _, x := range files {
		if x.Name == name {
			// go/token convention: the position is a byte offset 0..len(src) (len(src) = EOF, which
			// is rendered on the last line whose start is < len(src))
			if line < 1 || col < 1 {
				return fmt.Sprintf("position %d:%d of %s is not positive", line, col, name)
			}
			if off := offsetOf(x.Src, line, col); off < 0 || off > len(x.Src) {
				return fmt.Sprintf("position %d:%d is outside %s (%d bytes)", line, col, name, len(x.Src))
			}
			return ""
		}
	}
	return "file " + strconv.Quote(name) + " is not a file of the package"
}

// panicSite: the first frames of /repo or gogen code below the panic, e.g. "cl.compileExpr expr.go:123".
func panicSite(stack string) string {
	lines := strings.Split(stack, "\n")
	var out []string
	seenPanic := false
	for i := 0; i+1 < len(lines); i++ {
		l := lines[i]
		if strings.HasPrefix(l, "panic(") {
			seenPanic = true
			continue
		}
		if !seenPanic || strings.HasPrefix(l, "\t") {
			continue
		}
		loc := strings.TrimSpace(lines[i+1])
		if j := strings.LastIndexByte(loc, '/'); j >= 0 {
			loc = loc[j+1:]
		}
		if j := strings.IndexByte(loc, ' '); j >= 0 {
			loc = loc[:j]
		}
		fn := l
		if j := strings.LastIndexByte(fn, '/'); j >= 0 {
			fn = fn[j+1:]
		}
		if j := strings.IndexByte(fn, '('); j >= 0 && !strings.HasPrefix(fn, "(") {
			fn = fn[:j]
		}
		out = append(out, fn+" "+loc)
		if len(out) >= 4 {
			break
		}
	}
	return strings.Join(out, " < ")
}

// offsetOf converts line:col to a byte offset (-1 if the line does not exist).
func offsetOf(src string, line, col int) int {
	off := 0
	for l := 1; l < line; l++ {
		i := strings.IndexByte(src[off:], '\n')
		if i < 0 {
			return -1
		}
		off += i + 1
	}
	return off + col - 1
}

func runFuzz(exp g9cl.Exports, c fuzzCase) (kind, verdict, detail string) {
	verdict = "ok"
	if c.Via == "parsefsdir" { // x/build.(*Context).ParseFSDir on the directory made of c.Files
		defer func() {
			if e := recover(); e != nil {
				kind, verdict, detail = "panic", "escaped-panic", fmt.Sprint(e)
			}
		}()
		names := make([]string, len(c.Files))
		data := map[string]string{}
		for i, f := range c.Files {
			names[i] = f.Name
			data["/foo/"+f.Name] = f.Src
		}
		fset := token.NewFileSet()
		ctx := build.NewContext(exp.Importer(fset), fset)
		pkg, err := ctx.ParseFSDir(memfs.New(map[string][]string{"/foo": names}, data), "/foo")
		if err != nil {
			return "err", "ok", ""
		}
		if pkg == nil {
			return "nil", "nil-error", "ParseFSDir returned (nil, nil)"
		}
		return "ok", "ok", ""
	}
	if c.Via == "buildfile" {
		defer func() {
			if e := recover(); e != nil {
				kind, verdict, detail = "panic", "escaped-panic", fmt.Sprint(e)
			}
		}()
		fset := token.NewFileSet()
		ctx := build.NewContext(exp.Importer(fset), fset)
		data, err := ctx.BuildFile("/foo/"+c.Files[0].Name, c.Files[0].Src)
		if err != nil {
			kind = "err"
			msgs, poss := g9cl.ErrList(err)
			for i, p := range poss {
				if why := checkPos(p, c.Files); why != "" {
					return kind, "bad-position", why + " in: " + msgs[i]
				}
			}
			return
		}
		if data == nil {
			return "nil", "nil-error", "BuildFile returned (nil, nil)"
		}
		return "ok", "ok", ""
	}
	r := g9cl.CompilePartial(exp, c.Files, g9cl.Options{})
	switch {
	case r.ParserPanic != "":
		return "parser-panic", "ok", r.ParserPanic // not parser-accepted input: outside C07 (reported in the evidence)
	case r.WritePanic != "":
		// NewPackage returned; gogen's WriteTo panicked: an invalid OUTPUT, accounted to C06
		return "writeto-panic", "ok", r.WritePanic + " @ " + panicSite(r.Stack)
	case r.Panic != "":
		return "panic", "escaped-panic", r.Panic + " @ " + panicSite(r.Stack)
	case r.NoPkg:
		return "nopkg", "ok", ""
	case len(r.Errs) > 0:
		kind = "err"
		if r.ParseErr != "" {
			kind = "parse+err"
		}
		strict := strings.Contains(c.ID, "pos:") // position witnesses: an error without a position is outside the files
		for i, p := range r.ErrPos {
			if why := checkPos(p, c.Files); why != "" {
				return kind, "bad-position", why + " in: " + r.Errs[i]
			}
			if p == "" && strict {
				return kind, "bad-position", "error without a position inside the files: " + r.Errs[i]
			}
		}
		return
	case r.WriteErr != "":
		return "werr", "ok", r.WriteErr
	}
	kind = "ok"
	if r.ParseErr != "" {
		kind = "parse+ok"
	}
	return
}

func cpuMillis() int64 {
	var ru syscall.Rusage
	if err := syscall.Getrusage(syscall.RUSAGE_SELF, &ru); err != nil {
		return 0
	}
	return (ru.Utime.Sec+ru.Stime.Sec)*1000 + int64(ru.Utime.Usec+ru.Stime.Usec)/1000
}

func main() {
	exportsFile := flag.String("exports", "", "import path TAB export file")
	mode := flag.String("mode", "fuzz", "scenario | fuzz")
	timeout := flag.Int("timeout", 10, "seconds per case (fuzz mode)")
	flag.Parse()
	exp, err := g9cl.LoadExports(*exportsFile)
	if err != nil {
		fmt.Fprintln(os.Stderr, "exports:", err)
		os.Exit(2)
	}
	sc := bufio.NewScanner(os.Stdin)
	sc.Buffer(make([]byte, 1<<20), 1<<28)
	w := bufio.NewWriter(os.Stdout)
	defer w.Flush()
	if *mode == "scenario" {
		for sc.Scan() {
			fmt.Fprintln(w, runScenario(exp, sc.Text()))
		}
		return
	}
	for sc.Scan() {
		var c fuzzCase
		if err := json.Unmarshal(sc.Bytes(), &c); err != nil || len(c.Files) == 0 {
			fmt.Fprintf(w, "?\tbadcase\t0\tok\t\n")
			continue
		}
		fmt.Fprintf(w, "BEGIN %s\n", c.ID)
		w.Flush()
		// bounded time = CPU time of this process (the machine may be heavily loaded, wall time is
		// not a property of the compiler); a wall-clock watchdog of 6x the bound kills real hangs
		c0 := cpuMillis()
		id := c.ID
		// watchdog: polls the CPU time of the case every 250 ms and gives up when the bound is exceeded
		// (a compiler that spins is reported after ~timeout seconds), or after 6x the bound in wall time
		stop := make(chan struct{})
		t0 := time.Now()
		go func() {
			tk := time.NewTicker(250 * time.Millisecond)
			defer tk.Stop()
			for {
				select {
				case <-stop:
					return
				case <-tk.C:
					cpu := cpuMillis() - c0
					if cpu > int64(*timeout)*1000 || time.Since(t0) > time.Duration(*timeout*6)*time.Second {
						fmt.Fprintf(os.Stdout, "%s\ttimeout\t%d\tslow\tno result after %d ms of CPU time, %d ms wall\n", id, cpu, cpu, time.Since(t0).Milliseconds())
						os.Exit(3)
					}
				}
			}
		}()
		kind, verdict, detail := runFuzz(exp, c)
		close(stop)
		ms := cpuMillis() - c0
		if verdict == "ok" && ms > int64(*timeout)*1000 {
			verdict, detail = "slow", fmt.Sprintf("%d ms of CPU time", ms)
		}
		fmt.Fprintf(w, "%s\t%s\t%d\t%s\t%s\n", c.ID, kind, ms, verdict, strconv.Quote(detail))
		w.Flush()
	}
}
