// Implementation side of C06 (compiler success implies valid, well-typed Go output).
//
//	h_c06 -exports FILE -mode shape   < shape cases      K-diff of the lowering model
//	h_c06 -exports FILE -mode verdict < packages.jsonl   direct oracle
//
// shape case: {"id":..,"exprs":[xgo expression texts],"models":[go expression texts printed by the
// extracted model]}.  The expressions are compiled as  vK := <expr>  after a fixed prelude; the
// right-hand side the compiler emitted for vK and the model's text are both reduced to the same
// canonical S-expression (parentheses dropped, the errors.NewFrame bookkeeping of `!` dropped) and
// printed:  id TAB k TAB impl-canon TAB model-canon TAB gotypes-verdict-of-the-whole-output.
//
// verdict case: {"id":..,"files":[..]}.  Output: id TAB cl-verdict TAB gotypes-verdict TAB detail, where
// cl-verdict is ok|err|parse|panic and gotypes-verdict is ok|reject|unparsable|- (the written Go
// parsed by go/parser and checked by go/types in-process).  Oracle: cl-verdict ok => gotypes ok.
package main

import (
	"bufio"
	"encoding/json"
	"flag"
	"fmt"
	goast "go/ast"
	goparser "go/parser"
	gotoken "go/token"
	"go/types"
	"os"
	"strconv"
	"strings"

	"vh/internal/g9cl"
)

const prelude = `import "errors"
import "strconv"
import "strings"

func inc(x int) int {
	return x + 1
}
func isPos(x int) bool {
	return x > 0
}
func str(x int) string {
	return strconv.Itoa(x)
}
func half(x int) (int, error) {
	if x%2 == 0 {
		return x / 2, nil
	}
	return 0, errors.New("odd")
}
func parse(s string) (int, error) {
	return strconv.Atoi(s)
}
func dbl(xs []int) []int {
	return append(xs, xs...)
}
func words(s string) []string {
	return strings.Fields(s)
}
func size(s string) int {
	return len(s)
}

n := 3
s := "a b"
xs := []int{1, 2, 3, 4}
ss := []string{"1", "x"}
b := true
xss := [][]int{{1}, {2, 3}}
`

// canon: S-expression of a Go expression / statement, ParenExpr dropped.
func canon(n goast.Node) string {
	switch v := n.(type) {
	case nil:
		return "nil"
	case *goast.ParenExpr:
		return canon(v.X)
	case *goast.Ident:
		return v.Name
	case *goast.BasicLit:
		return v.Value
	case *goast.BinaryExpr:
		x, y := canon(v.X), canon(v.Y)
		// gogen folds constant expressions (`14 < 17` is emitted as `true`): fold literal operands
		// on both sides of the comparison so that only the structure of the lowering is compared
		if a, err1 := strconv.Atoi(x); err1 == nil {
			if b, err2 := strconv.Atoi(y); err2 == nil {
				switch v.Op {
				case gotoken.ADD:
					return strconv.Itoa(a + b)
				case gotoken.LSS:
					return strconv.FormatBool(a < b)
				}
			}
		}
		if v.Op == gotoken.ADD && len(x) >= 2 && len(y) >= 2 && x[0] == '"' && y[0] == '"' {
			if a, err1 := strconv.Unquote(x); err1 == nil {
				if b, err2 := strconv.Unquote(y); err2 == nil {
					return strconv.Quote(a + b)
				}
			}
		}
		return "(" + v.Op.String() + " " + x + " " + y + ")"
	case *goast.CallExpr:
		parts := []string{canon(v.Fun)}
		for _, a := range v.Args {
			parts = append(parts, canon(a))
		}
		return "(call " + strings.Join(parts, " ") + ")"
	case *goast.SelectorExpr:
		return canon(v.X) + "." + v.Sel.Name
	case *goast.ArrayType:
		return "[]" + canon(v.Elt)
	case *goast.FuncLit:
		var res []string
		if v.Type.Results != nil {
			for _, f := range v.Type.Results.List {
				for _, nm := range f.Names {
					res = append(res, nm.Name+":"+canon(f.Type))
				}
			}
		}
		return "(func (" + strings.Join(res, " ") + ") " + canon(v.Body) + ")"
	case *goast.BlockStmt:
		var parts []string
		for _, s := range v.List {
			if c := canon(s); c != "" {
				parts = append(parts, c)
			}
		}
		return "{" + strings.Join(parts, "; ") + "}"
	case *goast.RangeStmt:
		return "(range " + canon(v.Key) + " " + canon(v.Value) + " " + v.Tok.String() + " " + canon(v.X) + " " + canon(v.Body) + ")"
	case *goast.IfStmt:
		if v.Init != nil || v.Else != nil {
			return "?if-with-init-or-else"
		}
		return "(if " + canon(v.Cond) + " " + canon(v.Body) + ")"
	case *goast.AssignStmt:
		// `_gop_err = errors.NewFrame(_gop_err, ...)`: position bookkeeping of `!`, not modelled
		if len(v.Rhs) == 1 {
			if c, ok := v.Rhs[0].(*goast.CallExpr); ok {
				if sel, ok := c.Fun.(*goast.SelectorExpr); ok && sel.Sel.Name == "NewFrame" {
					return ""
				}
			}
		}
		var l, r []string
		for _, x := range v.Lhs {
			l = append(l, canon(x))
		}
		for _, x := range v.Rhs {
			r = append(r, canon(x))
		}
		return "(" + v.Tok.String() + " " + strings.Join(l, ",") + " " + strings.Join(r, ",") + ")"
	case *goast.ReturnStmt:
		var r []string
		for _, x := range v.Results {
			r = append(r, canon(x))
		}
		return "(return " + strings.Join(r, ",") + ")"
	case *goast.ExprStmt:
		return canon(v.X)
	case *goast.DeclStmt:
		gd, ok := v.Decl.(*goast.GenDecl)
		if !ok || gd.Tok != gotoken.VAR || len(gd.Specs) != 1 {
			return "?decl"
		}
		vs := gd.Specs[0].(*goast.ValueSpec)
		if len(vs.Names) != 1 || len(vs.Values) != 0 {
			return "?var"
		}
		return "(var " + vs.Names[0].Name + " " + canon(vs.Type) + ")"
	}
	return fmt.Sprintf("?%T", n)
}

// goTypes parses and type-checks written Go; "" = accepted.
func goTypes(exp g9cl.Exports, src string, extra ...g9cl.File) (verdict, detail string) {
	fset := gotoken.NewFileSet()
	f, err := goparser.ParseFile(fset, "out.go", src, 0)
	if err != nil {
		return "unparsable", err.Error()
	}
	files := []*goast.File{f}
	for _, x := range extra { // the .go files of a mixed package are compiled together with the written Go
		g, err := goparser.ParseFile(fset, x.Name, x.Src, 0)
		if err != nil {
			return "unparsable", err.Error()
		}
		files = append(files, g)
	}
	var errs []string
	conf := types.Config{Importer: exp.Importer(fset), Error: func(e error) { errs = append(errs, e.Error()) }}
	conf.Check(f.Name.Name, fset, files, nil)
	if len(errs) > 0 {
		return "reject", strings.Join(errs, " | ")
	}
	return "ok", ""
}

type shapeCase struct {
	ID     string   `json:"id"`
	Exprs  []string `json:"exprs"`
	Models []string `json:"models"`
}

type pkgCase struct {
	ID    string      `json:"id"`
	Files []g9cl.File `json:"files"`
}

func main() {
	exportsFile := flag.String("exports", "", "import path TAB export file")
	mode := flag.String("mode", "verdict", "shape | verdict")
	dump := flag.Bool("dump", false, "verdict mode: print the written Go of rejected outputs")
	outdir := flag.String("outdir", "", "verdict mode: write the Go of accepted cases whose id starts with build: to DIR/<n>/main.go")
	flag.Parse()
	exp, err := g9cl.LoadExports(*exportsFile)
	if err != nil {
		fmt.Fprintln(os.Stderr, "exports:", err)
		os.Exit(2)
	}
	sc := bufio.NewScanner(os.Stdin)
	sc.Buffer(make([]byte, 1<<20), 1<<28)
	w := bufio.NewWriter(os.Stdout)
	defer w.Flush()
	for sc.Scan() {
		if *mode == "shape" {
			var c shapeCase
			if err := json.Unmarshal(sc.Bytes(), &c); err != nil {
				fmt.Fprintf(w, "?\t0\tbadcase\t\t\n")
				continue
			}
			var src strings.Builder
			src.WriteString(prelude)
			for k, e := range c.Exprs {
				fmt.Fprintf(&src, "v%d := %s\n", k, e)
			}
			src.WriteString("println n, s, xs, ss, b, xss")
			for k := range c.Exprs {
				fmt.Fprintf(&src, ", v%d", k)
			}
			src.WriteString("\n")
			r := g9cl.Compile(exp, []g9cl.File{{Name: "a.xgo", Src: src.String()}}, g9cl.Options{NoFileLine: true})
			impl := map[string]string{}
			gv := "-"
			if r.Go != "" {
				gv, _ = goTypes(exp, r.Go)
				if f, err := goparser.ParseFile(gotoken.NewFileSet(), "out.go", r.Go, 0); err == nil {
					goast.Inspect(f, func(n goast.Node) bool {
						if a, ok := n.(*goast.AssignStmt); ok && a.Tok == gotoken.DEFINE && len(a.Lhs) == 1 && len(a.Rhs) == 1 {
							if id, ok := a.Lhs[0].(*goast.Ident); ok && strings.HasPrefix(id.Name, "v") {
								if _, seen := impl[id.Name]; !seen {
									impl[id.Name] = canon(a.Rhs[0])
								}
							}
						}
						return true
					})
				}
			}
			for k := range c.Exprs {
				ic, ok := impl["v"+strconv.Itoa(k)]
				if !ok {
					ic = "!none: " + strings.Join(r.Errs, " | ") + r.ParseErr + r.Panic
				}
				mc := "!unparsable"
				if k < len(c.Models) {
					if e, err := goparser.ParseExpr(c.Models[k]); err == nil {
						mc = canon(e)
					}
				}
				fmt.Fprintf(w, "%s\t%d\t%s\t%s\t%s\n", c.ID, k, ic, mc, gv)
			}
			continue
		}
		var c pkgCase
		if err := json.Unmarshal(sc.Bytes(), &c); err != nil {
			fmt.Fprintf(w, "?\tbadcase\t-\t\n")
			continue
		}
		r := g9cl.Compile(exp, c.Files, g9cl.Options{})
		cv, gv, detail := "ok", "-", ""
		switch {
		case r.ParserPanic != "":
			cv, detail = "parser-panic", r.ParserPanic
		case r.WritePanic != "":
			cv, gv, detail = "ok", "writeto-panic", r.WritePanic
		case r.Panic != "":
			cv, detail = "panic", r.Panic
		case r.ParseErr != "":
			cv = "parse"
		case r.NoPkg:
			cv = "nopkg"
		case len(r.Errs) > 0:
			cv, detail = "err", r.Errs[0]
		case r.WriteErr != "":
			cv, detail = "werr", r.WriteErr
		case r.Go == "":
			cv = "ok-nowrite"
		default:
			var gofiles []g9cl.File
			for _, x := range c.Files {
				if strings.HasSuffix(x.Name, ".go") {
					gofiles = append(gofiles, x)
				}
			}
			gv, detail = goTypes(exp, r.Go, gofiles...)
			if gv != "ok" && *dump {
				detail += " ### " + r.Go
			}
			if *outdir != "" && strings.HasPrefix(c.ID, "build:") {
				d := *outdir + "/" + strings.NewReplacer(":", "_", "/", "_").Replace(c.ID)
				if err := os.MkdirAll(d, 0o755); err == nil {
					os.WriteFile(d+"/main.go", []byte(r.Go), 0o644)
				}
			}
		}
		// near-miss witnesses ("diag:"): the SOURCE itself, read as plain Go, must be rejected by go/types
		// (otherwise the witness is not a near-miss); reported as a 5th column ok|reject|unparsable
		sv := "-"
		if strings.HasPrefix(c.ID, "diag:") && len(c.Files) == 1 {
			sv, _ = goTypes(exp, c.Files[0].Src)
		}
		fmt.Fprintf(w, "%s\t%s\t%s\t%s\t%s\n", c.ID, cv, gv, strconv.Quote(detail), sv)
	}
}
