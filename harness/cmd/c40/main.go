// Implementation side of C40: drives the real watcher.Changes (x/watcher/changes.go) with
// scripted sequential traces and with concurrent producer/consumer workloads, records the
// call/return history, finds a linearisation and prints it as a label trace for the extracted
// Coq transition function (the judge), together with the verdict of the direct oracle.
//
//	h_c40 -mode script            < scripts (one per line: tokens R<d> | F)
//	h_c40 -mode conc -seed S -runs N
//
// output, one line per case, TAB separated:
//
//	<id> <nthreads> <history> <trace> <final> <verdict> <shape>
//
// history: F<i>:<d> call FileChanged(dir d) by thread i, f<i> its return, G<i> call Fetch,
// g<i>:<d> its return, Q[parked=..;stuck=1;empty=1] = observation "nothing moves any more while
// the listed threads are inside Fetch" — same syntax as the projection printed by the model runner.
package main

import (
	"bufio"
	"flag"
	"fmt"
	"os"
	"runtime"
	"sort"
	"strconv"
	"strings"
	"sync"
	"time"

	"github.com/goplus/xgo/x/watcher"
)

// ---------------------------------------------------------------- directories
var dirNames = []string{"d0", "d1/sub", "d2", ".", "d4/x/y", "d5", "d6", "d7"}

// file names whose path.Dir is dirNames[d] (several spellings: FileChanged cleans the path)
func fileOf(d int, variant uint64) string {
	if d >= 100 {
		return fmt.Sprintf("zz%d/poison.xgo", d)
	}
	n := dirNames[d]
	switch variant % 3 {
	case 1:
		if n != "." {
			return n + "/./f.go"
		}
	case 2:
		if n != "." {
			return n + "//g.gox"
		}
	}
	if n == "." {
		return "main.xgo"
	}
	return n + "/f.xgo"
}

func dirIndex(s string) int {
	for i, n := range dirNames {
		if n == s {
			return i
		}
	}
	if strings.HasPrefix(s, "zz") {
		if v, err := strconv.Atoi(s[2:]); err == nil {
			return v
		}
	}
	return -1
}

// ---------------------------------------------------------------- recording
const (
	evCallF = iota
	evRetF
	evCallG
	evRetG
	evQ
)

type event struct {
	kind, thr, dir int
	pending       []int // evQ
}

type recorder struct {
	mu  sync.Mutex
	evs []event
}

func (r *recorder) add(e event) int {
	r.mu.Lock()
	r.evs = append(r.evs, e)
	n := len(r.evs)
	r.mu.Unlock()
	return n
}
func (r *recorder) size() int {
	r.mu.Lock()
	n := len(r.evs)
	r.mu.Unlock()
	return n
}
func (r *recorder) snapshot() []event {
	r.mu.Lock()
	c := append([]event(nil), r.evs...)
	r.mu.Unlock()
	return c
}

const root = "/vroot"

type sys struct {
	c    *watcher.Changes
	rec  recorder
	viol []string
	vmu  sync.Mutex
}

func (s *sys) violation(v string) {
	s.vmu.Lock()
	s.viol = append(s.viol, v)
	s.vmu.Unlock()
}

func (s *sys) report(thr, d int, variant uint64) {
	s.rec.add(event{kind: evCallF, thr: thr, dir: d})
	s.c.FileChanged(fileOf(d, variant))
	s.rec.add(event{kind: evRetF, thr: thr})
}

func (s *sys) fetch(thr int, full bool) int {
	s.rec.add(event{kind: evCallG, thr: thr})
	got := s.c.Fetch(full)
	if full {
		if !strings.HasPrefix(got, root+"/") {
			s.violation("fullpath-prefix:" + got)
		}
		got = strings.TrimPrefix(got, root+"/")
	}
	d := dirIndex(got)
	if d < 0 {
		s.violation("fetch-returned-unknown:" + strconv.Quote(got))
	}
	s.rec.add(event{kind: evRetG, thr: thr, dir: d})
	return d
}

// ---------------------------------------------------------------- analysis
type op struct {
	thr, dir  int
	isFetch   bool
	call, ret int // event indexes; ret = -1: never returned
}

type analysis struct {
	nthr    int
	evs     []event
	ops     []*op
	history string
	trace   string
	verdict string
}

func histString(evs []event) string {
	var b []string
	for _, e := range evs {
		switch e.kind {
		case evCallF:
			b = append(b, fmt.Sprintf("F%d:%d", e.thr, e.dir))
		case evRetF:
			b = append(b, fmt.Sprintf("f%d", e.thr))
		case evCallG:
			b = append(b, fmt.Sprintf("G%d", e.thr))
		case evRetG:
			if e.dir < 0 {
				b = append(b, fmt.Sprintf("g%d:-", e.thr))
			} else {
				b = append(b, fmt.Sprintf("g%d:%d", e.thr, e.dir))
			}
		case evQ:
			var ps []string
			for _, p := range e.pending {
				ps = append(ps, strconv.Itoa(p))
			}
			b = append(b, fmt.Sprintf("Q[parked=%s;stuck=1;empty=1]", strings.Join(ps, ",")))
		}
	}
	return strings.Join(b, " ")
}

// analyse: pair calls and returns, cut the history at the Q observations, linearise every
// segment (start state = empty set; a segment that ends at a Q must end with the empty set),
// emit the label trace.  verdict "ok" or the reason no linearisation exists.
func analyse(nthr int, evs []event) *analysis {
	a := &analysis{nthr: nthr, evs: evs, history: histString(evs), verdict: "ok"}
	open := map[int]*op{}
	opAtCall := map[int]*op{}
	opAtRet := map[int]*op{}
	for i, e := range evs {
		switch e.kind {
		case evCallF, evCallG:
			o := &op{thr: e.thr, dir: e.dir, isFetch: e.kind == evCallG, call: i, ret: -1}
			open[e.thr] = o
			a.ops = append(a.ops, o)
			opAtCall[i] = o
		case evRetF, evRetG:
			o := open[e.thr]
			if o == nil {
				a.verdict = "harness-bug:return-without-call"
				return a
			}
			o.ret = i
			if o.isFetch {
				o.dir = e.dir
			}
			delete(open, e.thr)
			opAtRet[i] = o
		}
	}
	// segments
	var qpos []int
	for i, e := range evs {
		if e.kind == evQ {
			qpos = append(qpos, i)
		}
	}
	bounds := append(append([]int{-1}, qpos...), len(evs))
	linOrder := map[*op]int{} // global position in the concatenated linearisation
	var lin []*op
	for si := 0; si+1 < len(bounds); si++ {
		lo, hi := bounds[si], bounds[si+1]
		var seg []*op
		for _, o := range a.ops {
			if o.ret > lo && o.ret < hi {
				seg = append(seg, o)
			}
		}
		mustEmpty := hi < len(evs) // ends at a Q (only placed when fetchers are pending)
		order, why := linearise(seg, mustEmpty)
		if why != "" {
			a.verdict = fmt.Sprintf("no-linearisation(segment %d: %s)", si, why)
			return a
		}
		for _, o := range order {
			linOrder[o] = len(lin)
			lin = append(lin, o)
		}
	}
	// trace
	var tr []string
	emit := func(f string, args ...interface{}) { tr = append(tr, fmt.Sprintf(f, args...)) }
	csDone := map[*op]bool{}
	const (
		stIdle = iota
		stFresh
		stParked
		stNotified
	)
	tstate := make([]int, nthr)
	set := map[int]bool{}
	next := 0
	doCS := func(o *op) {
		j := o.thr
		if !o.isFetch {
			if len(set) == 0 {
				for t := range tstate {
					if tstate[t] == stParked {
						tstate[t] = stNotified
					}
				}
			}
			set[o.dir] = true
			emit("t%d", j)
			emit("t%d", j)
			emit("t%d", j)
			emit("t%d", j)
			emit("t%d", j)
		} else {
			emit("t%d", j) // Lock, or re-Lock inside Wait
			emit("t%d", j) // loop condition: set not empty
			emit("k%d:%d", j, o.dir)
			emit("t%d", j)
			delete(set, o.dir)
			tstate[j] = stFresh
		}
		csDone[o] = true
	}
	for i, e := range evs {
		switch e.kind {
		case evCallF:
			emit("F%d:%d", e.thr, e.dir)
		case evCallG:
			emit("G%d", e.thr)
			tstate[e.thr] = stFresh
		case evRetF, evRetG:
			o := opAtRet[i]
			for next <= linOrder[o] {
				if !csDone[lin[next]] {
					doCS(lin[next])
				}
				next++
			}
			emit("r%d", e.thr)
			tstate[e.thr] = stIdle
		case evQ:
			for _, j := range e.pending {
				switch tstate[j] {
				case stFresh, stNotified:
					emit("t%d", j)
					emit("t%d", j)
					tstate[j] = stParked
				}
			}
			emit("Q")
		}
	}
	a.trace = strings.Join(tr, " ")
	return a
}

// linearise finds an order of the segment's operations that respects real time (a before b if
// a returned before b was called) and the set semantics (a fetch of d needs d in the set).
func linearise(seg []*op, mustEmpty bool) ([]*op, string) {
	byThr := map[int][]*op{}
	var thrs []int
	dirs := map[int]int{}
	for _, o := range seg {
		if _, ok := byThr[o.thr]; !ok {
			thrs = append(thrs, o.thr)
		}
		byThr[o.thr] = append(byThr[o.thr], o)
		if o.dir >= 0 {
			if _, ok := dirs[o.dir]; !ok {
				dirs[o.dir] = len(dirs)
			}
		} else {
			return nil, "fetch returned a directory that does not exist"
		}
	}
	if len(dirs) > 60 {
		return nil, "harness: too many directories"
	}
	sort.Ints(thrs)
	for _, t := range thrs {
		sort.Slice(byThr[t], func(i, j int) bool { return byThr[t][i].call < byThr[t][j].call })
	}
	pos := make([]int, len(thrs))
	var order []*op
	seen := map[string]bool{}
	key := func(state uint64) string {
		var b strings.Builder
		for _, p := range pos {
			b.WriteString(strconv.Itoa(p))
			b.WriteByte(',')
		}
		b.WriteString(strconv.FormatUint(state, 16))
		return b.String()
	}
	why := "set semantics violated"
	var rec func(state uint64) bool
	rec = func(state uint64) bool {
		done := true
		for ti, t := range thrs {
			if pos[ti] < len(byThr[t]) {
				done = false
			}
		}
		if done {
			if mustEmpty && state != 0 {
				why = "set not empty while fetchers are blocked"
				return false
			}
			return true
		}
		k := key(state)
		if seen[k] {
			return false
		}
		seen[k] = true
		for ti, t := range thrs {
			if pos[ti] >= len(byThr[t]) {
				continue
			}
			o := byThr[t][pos[ti]]
			// real time: nobody else's next operation returned before o was called
			okRT := true
			for ui, u := range thrs {
				if ui != ti && pos[ui] < len(byThr[u]) {
					if p := byThr[u][pos[ui]]; p.ret >= 0 && p.ret < o.call {
						okRT = false
						break
					}
				}
			}
			if !okRT {
				continue
			}
			bit := uint64(1) << uint(dirs[o.dir])
			ns := state
			if o.isFetch {
				if state&bit == 0 {
					continue
				}
				ns = state &^ bit
			} else {
				ns = state | bit
			}
			pos[ti]++
			order = append(order, o)
			if rec(ns) {
				return true
			}
			order = order[:len(order)-1]
			pos[ti]--
		}
		return false
	}
	if rec(0) {
		return append([]*op(nil), order...), ""
	}
	return nil, why // why != ""  <=>  no linearisation
}

// simple counters, independent of the search (more readable diagnostics)
func counters(evs []event) string {
	rep := map[int]int{}
	fet := map[int]int{}
	for _, e := range evs {
		switch e.kind {
		case evCallF:
			rep[e.dir]++
		case evRetG:
			if e.dir < 0 {
				return "fetch-returned-unreported-directory"
			}
			fet[e.dir]++
			if fet[e.dir] > rep[e.dir] {
				return fmt.Sprintf("directory %d fetched %d times after %d reports", e.dir, fet[e.dir], rep[e.dir])
			}
		}
	}
	return ""
}

// ---------------------------------------------------------------- quiescence
func pendingFetchers(evs []event) []int {
	open := map[int]bool{}
	for _, e := range evs {
		switch e.kind {
		case evCallG:
			open[e.thr] = true
		case evRetG:
			delete(open, e.thr)
		}
	}
	var p []int
	for t := range open {
		p = append(p, t)
	}
	sort.Ints(p)
	return p
}

// waitStable waits until no event has been recorded for `quiet`
func (s *sys) waitStable(quiet time.Duration) {
	last := s.rec.size()
	t0 := time.Now()
	for time.Since(t0) < quiet {
		time.Sleep(quiet / 8)
		if n := s.rec.size(); n != last {
			last = n
			t0 = time.Now()
		}
	}
}

// observeQ: the system is quiet and fetchers are blocked.  If the history up to here cannot be
// explained (the set cannot be empty), wait longer before believing it: a slow goroutine is not
// a lost wake-up.
func (s *sys) observeQ(nthr int, quiet time.Duration) (pending []int, verdict string) {
	deadline := time.Now().Add(3 * time.Second)
	for {
		s.waitStable(quiet)
		evs := s.rec.snapshot()
		pending = pendingFetchers(evs)
		if len(pending) == 0 {
			return nil, "ok"
		}
		probe := append(append([]event(nil), evs...), event{kind: evQ, pending: pending})
		a := analyse(nthr, probe)
		if a.verdict == "ok" {
			s.rec.mu.Lock()
			if len(s.rec.evs) == len(evs) { // nothing happened meanwhile
				s.rec.evs = append(s.rec.evs, event{kind: evQ, pending: pending})
				s.rec.mu.Unlock()
				return pending, "ok"
			}
			s.rec.mu.Unlock()
			continue
		}
		if time.Now().After(deadline) {
			s.rec.add(event{kind: evQ, pending: pending})
			return pending, a.verdict
		}
		quiet = 200 * time.Millisecond
	}
}

// release the blocked fetchers one at a time with poison directories; each report must wake one
func (s *sys) release(mainThr int, pending []int, pill *int) string {
	for range pending {
		before := len(pendingFetchers(s.rec.snapshot()))
		*pill++
		s.report(mainThr, *pill, 0)
		t0 := time.Now()
		for len(pendingFetchers(s.rec.snapshot())) >= before {
			if time.Since(t0) > 3*time.Second {
				return "fetcher-not-woken-by-report"
			}
			time.Sleep(50 * time.Microsecond)
		}
	}
	return "ok"
}

// ---------------------------------------------------------------- splitmix
type rng struct{ s uint64 }

func (r *rng) next() uint64 {
	r.s += 0x9E3779B97F4A7C15
	z := r.s
	z = (z ^ (z >> 30)) * 0xBF58476D1CE4E5B9
	z = (z ^ (z >> 27)) * 0x94D049BB133111EB
	return z ^ (z >> 31)
}
func (r *rng) below(n int) int { return int(r.next() % uint64(n)) }

// ---------------------------------------------------------------- workloads
type result struct {
	id, history, trace, final, verdict, shape string
	nthr                                     int
}

func finish(s *sys, id string, nthr int, final string, verdict string, shape string) result {
	evs := s.rec.snapshot()
	a := analyse(nthr, evs)
	v := verdict
	if v == "ok" {
		v = a.verdict
	}
	if v == "ok" {
		if c := counters(evs); c != "" {
			v = c
		}
	}
	s.vmu.Lock()
	if v == "ok" && len(s.viol) > 0 {
		v = s.viol[0]
	}
	s.vmu.Unlock()
	return result{id: id, nthr: nthr, history: a.history, trace: a.trace, final: final, verdict: v, shape: shape}
}

// script: tokens R<d> (report) and F (fetch; performed by a helper goroutine when the set is empty,
// in which case the next token must be a report, which has to wake it)
func runScript(id string, toks []string) (res result) {
	defer func() {
		if e := recover(); e != nil {
			res = result{id: id, nthr: 2, verdict: fmt.Sprintf("panic: %v", e), final: "?"}
		}
	}()
	s := &sys{c: watcher.NewChanges(root)}
	ref := map[int]bool{}
	verdict := "ok"
	var helper chan int
	nblock := 0
	for k, t := range toks {
		if verdict != "ok" {
			break
		}
		switch {
		case t == "F":
			if len(ref) > 0 {
				done := make(chan int, 1)
				full := k%2 == 1
				go func() { done <- s.fetch(0, full) }()
				select {
				case d := <-done:
					if !ref[d] {
						verdict = "fetch-returned-directory-not-in-set"
					}
					delete(ref, d)
				case <-time.After(3 * time.Second):
					verdict = "directory-lost:fetch-blocks-with-reported-directories-left"
				}
			} else {
				if helper != nil {
					verdict = "script-error:two-blocking-fetches"
					break
				}
				nblock++
				helper = make(chan int, 1)
				h := helper
				full := k%2 == 1
				go func() { h <- s.fetch(1, full) }()
				// let it reach cond.Wait; it must not return
				select {
				case <-h:
					verdict = "fetch-returned-on-empty-set"
				case <-time.After(300 * time.Microsecond):
				}
				if verdict == "ok" {
					_, v := s.observeQ(2, 2*time.Millisecond)
					verdict = v
				}
			}
		case strings.HasPrefix(t, "R"):
			d, err := strconv.Atoi(t[1:])
			if err != nil || d < 0 || d >= len(dirNames) {
				verdict = "script-error:" + t
				break
			}
			s.report(0, d, uint64(k))
			ref[d] = true
			if helper != nil {
				select {
				case got := <-helper:
					if !ref[got] {
						verdict = "fetch-returned-directory-not-in-set"
					}
					delete(ref, got)
				case <-time.After(3 * time.Second):
					verdict = "fetcher-not-woken-by-report"
				}
				helper = nil
			}
		default:
			verdict = "script-error:" + t
		}
	}
	if helper != nil && verdict == "ok" { // script ended with a blocked fetch: release it
		pill := 100
		verdict = s.release(0, []int{1}, &pill)
		helper = nil
	}
	// drain what the reference set says is left
	for verdict == "ok" && len(ref) > 0 {
		done := make(chan int, 1)
		go func() { done <- s.fetch(0, false) }()
		select {
		case d := <-done:
			if !ref[d] {
				verdict = "fetch-returned-directory-not-in-set"
			}
			delete(ref, d)
		case <-time.After(3 * time.Second):
			verdict = "directory-lost:fetch-blocks-with-reported-directories-left"
		}
	}
	return finish(s, id, 2, "", verdict, fmt.Sprintf("script len=%d blocking=%d", len(toks), nblock))
}

func runConc(id string, r *rng) (res result) {
	np := 1 + r.below(3)
	nc := 1 + r.below(3)
	nd := 1 + r.below(4)
	kind := r.below(3) // 0: consumers first (park, then burst)  1: all at once  2: preload then consumers
	nthr := np + nc + 1
	mainThr := np + nc
	defer func() {
		if e := recover(); e != nil {
			res = result{id: id, nthr: nthr, verdict: fmt.Sprintf("panic: %v", e), final: "?"}
		}
	}()
	s := &sys{c: watcher.NewChanges(root)}
	type prodPlan struct {
		dirs  []int
		yield []bool
		vars  []uint64
	}
	plans := make([]prodPlan, np)
	total := 0
	for i := range plans {
		n := 1 + r.below(8)
		for k := 0; k < n; k++ {
			plans[i].dirs = append(plans[i].dirs, r.below(nd))
			plans[i].yield = append(plans[i].yield, r.below(3) == 0)
			plans[i].vars = append(plans[i].vars, r.next())
		}
		total += n
	}
	// consumer 0 loops until poisoned; the others fetch a bounded number of times
	bounds := make([]int, nc)
	fulls := make([]bool, nc)
	for j := range bounds {
		bounds[j] = -1
		if j > 0 && r.below(2) == 0 {
			bounds[j] = 1 + r.below(3)
		}
		fulls[j] = r.below(2) == 0
	}
	var cwg, pwg sync.WaitGroup
	startCons := func() {
		for j := 0; j < nc; j++ {
			cwg.Add(1)
			go func(j int) {
				defer cwg.Done()
				for k := 0; bounds[j] < 0 || k < bounds[j]; k++ {
					if d := s.fetch(np+j, fulls[j]); d >= 100 || d < 0 {
						return
					}
				}
			}(j)
		}
	}
	startProd := func() {
		for i := 0; i < np; i++ {
			pwg.Add(1)
			go func(i int) {
				defer pwg.Done()
				for k, d := range plans[i].dirs {
					s.report(i, d, plans[i].vars[k])
					if plans[i].yield[k] {
						runtime.Gosched()
					}
				}
			}(i)
		}
	}
	switch kind {
	case 0:
		startCons()
		time.Sleep(time.Duration(100+r.below(400)) * time.Microsecond)
		startProd()
	case 1:
		startProd()
		startCons()
	case 2:
		startProd()
		pwg.Wait()
		startCons()
	}
	pwg.Wait()
	pending, verdict := s.observeQ(nthr, 12*time.Millisecond)
	npend := len(pending)
	pill := 100
	for verdict == "ok" && len(pending) > 0 {
		verdict = s.release(mainThr, pending, &pill)
		if verdict != "ok" {
			break
		}
		// bounded consumers that were released may have nothing left to do; loopers exit on poison
		s.waitStable(2 * time.Millisecond)
		pending = pendingFetchers(s.rec.snapshot())
	}
	if verdict == "ok" {
		done := make(chan struct{})
		go func() { cwg.Wait(); close(done) }()
		select {
		case <-done:
		case <-time.After(3 * time.Second):
			verdict = "consumer-goroutine-did-not-finish"
		}
	}
	kinds := []string{"park-then-burst", "all-at-once", "preload"}
	return finish(s, id, nthr, "?", verdict,
		fmt.Sprintf("conc %s P=%d C=%d D=%d reports=%d blockedAtQ=%d", kinds[kind], np, nc, nd, total, npend))
}

func main() {
	mode := flag.String("mode", "script", "script | conc")
	seed := flag.Uint64("seed", 1, "seed (conc)")
	runs := flag.Int("runs", 100, "number of workloads (conc)")
	par := flag.Int("par", 8, "workloads run in parallel")
	flag.Parse()
	w := bufio.NewWriter(os.Stdout)
	defer w.Flush()
	var jobs []func() result
	if *mode == "script" {
		sc := bufio.NewScanner(os.Stdin)
		sc.Buffer(make([]byte, 1<<20), 1<<26)
		n := 0
		for sc.Scan() {
			line := sc.Text()
			toks := strings.Fields(line)
			id := fmt.Sprintf("script:%s", strings.Join(toks, "_"))
			jobs = append(jobs, func() result { return runScript(id, toks) })
			n++
		}
	} else {
		for k := 0; k < *runs; k++ {
			r := &rng{s: *seed*1000003 + uint64(k)*7919}
			id := fmt.Sprintf("conc:seed=%d:run=%d", *seed, k)
			jobs = append(jobs, func() result { return runConc(id, r) })
		}
	}
	results := make([]result, len(jobs))
	sem := make(chan struct{}, *par)
	var wg sync.WaitGroup
	for i, j := range jobs {
		wg.Add(1)
		sem <- struct{}{}
		go func(i int, j func() result) {
			defer wg.Done()
			results[i] = j()
			<-sem
		}(i, j)
	}
	wg.Wait()
	for _, r := range results {
		final := r.final
		fmt.Fprintf(w, "%s\t%d\t%s\t%s\t%s\t%s\t%s\n", r.id, r.nthr, r.history, r.trace, final, r.verdict, r.shape)
	}
}
