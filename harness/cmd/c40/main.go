// Implementation side of C40: drives the real watcher.Changes (x/watcher/changes.go) with
// scripted sequential traces and with concurrent producer/consumer workloads, records the
// call/return history, finds a linearisation and prints it as a label trace for the extracted
// Coq transition function (the judge), together with the verdict of the direct oracle.
//
//	h_c40 -mode script            < scripts (one per line: tokens R<d> | F)
//	h_c40 -mode conc -seed S -runs N
//
// output, one line per case, TAB separated:
//
//	<id> <nthreads> <history> <trace> <final> <verdict> <shape>
//
// history: F<i>:<d> call FileChanged(dir d) by thread i, f<i> its return, G<i> call Fetch,
// g<i>:<d> its return, Q[parked=..;stuck=1;empty=1] = observation "nothing moves any more while
// the listed threads are inside Fetch" — same syntax as the projection printed by the model runner.
package main

import (
	"bufio"
	"flag"
	"fmt"
	"os"
	"os/exec"
	"runtime"
	"sort"
	"strconv"
	"strings"
	"sync"
	"sync/atomic"
	"time"

	"github.com/goplus/xgo/x/watcher"
)

// ---------------------------------------------------------------- directories
var dirNames = []string{"d0", "d1/sub", "d2", ".", "d4/x/y", "d5", "d6", "d7"}

// file names whose path.Dir is dirNames[d] (several spellings: FileChanged cleans the path)
func fileOf(d int, variant uint64) string {
	if d >= 100 {
		return fmt.Sprintf("zz%d/poison.xgo", d)
	}
	n := dirNames[d]
	switch variant % 3 {
	case 1:
		if n != "." {
			return n + "/./f.go"
		}
	case 2:
		if n != "." {
			return n + "//g.gox"
		}
	}
	if n == "." {
		return "main.xgo"
	}
	return n + "/f.xgo"
}

func dirIndex(s string) int {
	for i, n := range dirNames {
		if n == s {
			return i
		}
	}
	if strings.HasPrefix(s, "zz") {
		if v, err := strconv.Atoi(s[2:]); err == nil {
			return v
		}
	}
	return -1
}

// ---------------------------------------------------------------- recording
const (
	evCallF = iota
	evRetF
	evCallG
	evRetG
	evQ
)

type event struct {
	kind, thr, dir int
	pending       []int // evQ
}

type recorder struct {
	mu  sync.Mutex
	evs []event
}

func (r *recorder) add(e event) int {
	r.mu.Lock()
	r.evs = append(r.evs, e)
	n := len(r.evs)
	r.mu.Unlock()
	return n
}
func (r *recorder) size() int {
	r.mu.Lock()
	n := len(r.evs)
	r.mu.Unlock()
	return n
}
func (r *recorder) snapshot() []event {
	r.mu.Lock()
	c := append([]event(nil), r.evs...)
	r.mu.Unlock()
	return c
}

const root = "/vroot"

type sys struct {
	c    *watcher.Changes
	rec  recorder
	viol []string
	vmu  sync.Mutex
	// what the harness knows about its own goroutines: fetcher goroutines alive / inside c.Fetch
	live, inFetch int32
	leaked        int // goroutines left blocked in Fetch by earlier (failed) cases of this process
}

func (s *sys) violation(v string) {
	s.vmu.Lock()
	s.viol = append(s.viol, v)
	s.vmu.Unlock()
}

func (s *sys) report(thr, d int, variant uint64) {
	s.rec.add(event{kind: evCallF, thr: thr, dir: d})
	s.c.FileChanged(fileOf(d, variant))
	s.rec.add(event{kind: evRetF, thr: thr})
}

func (s *sys) fetch(thr int, full bool) int {
	s.rec.add(event{kind: evCallG, thr: thr})
	atomic.AddInt32(&s.inFetch, 1)
	got := s.c.Fetch(full)
	atomic.AddInt32(&s.inFetch, -1)
	if full {
		if !strings.HasPrefix(got, root+"/") {
			s.violation("fullpath-prefix:" + got)
		}
		got = strings.TrimPrefix(got, root+"/")
	}
	d := dirIndex(got)
	if d < 0 {
		s.violation("fetch-returned-unknown:" + strconv.Quote(got))
	}
	s.rec.add(event{kind: evRetG, thr: thr, dir: d})
	return d
}

// ---------------------------------------------------------------- analysis
type op struct {
	thr, dir  int
	isFetch   bool
	call, ret int // event indexes; ret = -1: never returned
}

type analysis struct {
	nthr    int
	evs     []event
	ops     []*op
	history string
	trace   string
	verdict string
}

func histString(evs []event) string {
	var b []string
	for _, e := range evs {
		switch e.kind {
		case evCallF:
			b = append(b, fmt.Sprintf("F%d:%d", e.thr, e.dir))
		case evRetF:
			b = append(b, fmt.Sprintf("f%d", e.thr))
		case evCallG:
			b = append(b, fmt.Sprintf("G%d", e.thr))
		case evRetG:
			if e.dir < 0 {
				b = append(b, fmt.Sprintf("g%d:-", e.thr))
			} else {
				b = append(b, fmt.Sprintf("g%d:%d", e.thr, e.dir))
			}
		case evQ:
			var ps []string
			for _, p := range e.pending {
				ps = append(ps, strconv.Itoa(p))
			}
			b = append(b, fmt.Sprintf("Q[parked=%s;stuck=1;empty=1]", strings.Join(ps, ",")))
		}
	}
	return strings.Join(b, " ")
}

// analyse: pair calls and returns, cut the history at the Q observations, linearise every
// segment (start state = empty set; a segment that ends at a Q must end with the empty set),
// emit the label trace.  verdict "ok" or the reason no linearisation exists.
func analyse(nthr int, evs []event) *analysis {
	a := &analysis{nthr: nthr, evs: evs, history: histString(evs), verdict: "ok"}
	open := map[int]*op{}
	opAtCall := map[int]*op{}
	opAtRet := map[int]*op{}
	for i, e := range evs {
		switch e.kind {
		case evCallF, evCallG:
			o := &op{thr: e.thr, dir: e.dir, isFetch: e.kind == evCallG, call: i, ret: -1}
			open[e.thr] = o
			a.ops = append(a.ops, o)
			opAtCall[i] = o
		case evRetF, evRetG:
			o := open[e.thr]
			if o == nil {
				a.verdict = "harness-bug:return-without-call"
				return a
			}
			o.ret = i
			if o.isFetch {
				o.dir = e.dir
			}
			delete(open, e.thr)
			opAtRet[i] = o
		}
	}
	// segments
	var qpos []int
	for i, e := range evs {
		if e.kind == evQ {
			qpos = append(qpos, i)
		}
	}
	bounds := append(append([]int{-1}, qpos...), len(evs))
	linOrder := map[*op]int{} // global position in the concatenated linearisation
	var lin []*op
	for si := 0; si+1 < len(bounds); si++ {
		lo, hi := bounds[si], bounds[si+1]
		var seg []*op
		for _, o := range a.ops {
			if o.ret > lo && o.ret < hi {
				seg = append(seg, o)
			}
		}
		mustEmpty := hi < len(evs) // ends at a Q (only placed when fetchers are pending)
		order, why := linearise(seg, mustEmpty)
		if why != "" {
			a.verdict = fmt.Sprintf("no-linearisation(segment %d: %s)", si, why)
			return a
		}
		for _, o := range order {
			linOrder[o] = len(lin)
			lin = append(lin, o)
		}
	}
	// trace
	var tr []string
	emit := func(f string, args ...interface{}) { tr = append(tr, fmt.Sprintf(f, args...)) }
	csDone := map[*op]bool{}
	const (
		stIdle = iota
		stFresh
		stParked
		stNotified
	)
	tstate := make([]int, nthr)
	set := map[int]bool{}
	next := 0
	doCS := func(o *op) {
		j := o.thr
		if !o.isFetch {
			if len(set) == 0 {
				for t := range tstate {
					if tstate[t] == stParked {
						tstate[t] = stNotified
					}
				}
			}
			set[o.dir] = true
			emit("t%d", j)
			emit("t%d", j)
			emit("t%d", j)
			emit("t%d", j)
			emit("t%d", j)
		} else {
			emit("t%d", j) // Lock, or re-Lock inside Wait
			emit("t%d", j) // loop condition: set not empty
			emit("k%d:%d", j, o.dir)
			emit("t%d", j)
			delete(set, o.dir)
			tstate[j] = stFresh
		}
		csDone[o] = true
	}
	for i, e := range evs {
		switch e.kind {
		case evCallF:
			emit("F%d:%d", e.thr, e.dir)
		case evCallG:
			emit("G%d", e.thr)
			tstate[e.thr] = stFresh
		case evRetF, evRetG:
			o := opAtRet[i]
			for next <= linOrder[o] {
				if !csDone[lin[next]] {
					doCS(lin[next])
				}
				next++
			}
			emit("r%d", e.thr)
			tstate[e.thr] = stIdle
		case evQ:
			for _, j := range e.pending {
				switch tstate[j] {
				case stFresh, stNotified:
					emit("t%d", j)
					emit("t%d", j)
					tstate[j] = stParked
				}
			}
			emit("Q")
		}
	}
	a.trace = strings.Join(tr, " ")
	return a
}

// linearise finds an order of the segment's operations that respects real time (a before b if
// a returned before b was called) and the set semantics (a fetch of d needs d in the set).
func linearise(seg []*op, mustEmpty bool) ([]*op, string) {
	byThr := map[int][]*op{}
	var thrs []int
	dirs := map[int]int{}
	for _, o := range seg {
		if _, ok := byThr[o.thr]; !ok {
			thrs = append(thrs, o.thr)
		}
		byThr[o.thr] = append(byThr[o.thr], o)
		if o.dir >= 0 {
			if _, ok := dirs[o.dir]; !ok {
				dirs[o.dir] = len(dirs)
			}
		} else {
			return nil, "fetch returned a directory that does not exist"
		}
	}
	if len(dirs) > 60 {
		return nil, "harness: too many directories"
	}
	sort.Ints(thrs)
	for _, t := range thrs {
		sort.Slice(byThr[t], func(i, j int) bool { return byThr[t][i].call < byThr[t][j].call })
	}
	pos := make([]int, len(thrs))
	var order []*op
	seen := map[string]bool{}
	key := func(state uint64) string {
		var b strings.Builder
		for _, p := range pos {
			b.WriteString(strconv.Itoa(p))
			b.WriteByte(',')
		}
		b.WriteString(strconv.FormatUint(state, 16))
		return b.String()
	}
	why := "set semantics violated"
	var rec func(state uint64) bool
	rec = func(state uint64) bool {
		done := true
		for ti, t := range thrs {
			if pos[ti] < len(byThr[t]) {
				done = false
			}
		}
		if done {
			if mustEmpty && state != 0 {
				why = "set not empty while fetchers are blocked"
				return false
			}
			return true
		}
		k := key(state)
		if seen[k] {
			return false
		}
		seen[k] = true
		for ti, t := range thrs {
			if pos[ti] >= len(byThr[t]) {
				continue
			}
			o := byThr[t][pos[ti]]
			// real time: nobody else's next operation returned before o was called
			okRT := true
			for ui, u := range thrs {
				if ui != ti && pos[ui] < len(byThr[u]) {
					if p := byThr[u][pos[ui]]; p.ret >= 0 && p.ret < o.call {
						okRT = false
						break
					}
				}
			}
			if !okRT {
				continue
			}
			bit := uint64(1) << uint(dirs[o.dir])
			ns := state
			if o.isFetch {
				if state&bit == 0 {
					continue
				}
				ns = state &^ bit
			} else {
				ns = state | bit
			}
			pos[ti]++
			order = append(order, o)
			if rec(ns) {
				return true
			}
			order = order[:len(order)-1]
			pos[ti]--
		}
		return false
	}
	if rec(0) {
		return append([]*op(nil), order...), ""
	}
	return nil, why // why != ""  <=>  no linearisation
}

// simple counters, independent of the search (more readable diagnostics)
func counters(evs []event) string {
	rep := map[int]int{}
	fet := map[int]int{}
	for _, e := range evs {
		switch e.kind {
		case evCallF:
			rep[e.dir]++
		case evRetG:
			if e.dir < 0 {
				return "fetch-returned-unreported-directory"
			}
			fet[e.dir]++
			if fet[e.dir] > rep[e.dir] {
				return fmt.Sprintf("directory %d fetched %d times after %d reports", e.dir, fet[e.dir], rep[e.dir])
			}
		}
	}
	return ""
}

// ---------------------------------------------------------------- quiescence
func pendingFetchers(evs []event) []int {
	open := map[int]bool{}
	for _, e := range evs {
		switch e.kind {
		case evCallG:
			open[e.thr] = true
		case evRetG:
			delete(open, e.thr)
		}
	}
	var p []int
	for t := range open {
		p = append(p, t)
	}
	sort.Ints(p)
	return p
}

func countRets(evs []event) int {
	n := 0
	for _, e := range evs {
		if e.kind == evRetG {
			n++
		}
	}
	return n
}

// blockedInFetch: goroutines of this process that are below (*sys).fetch and are neither running
// nor runnable (for the code as it is: parked in sync.Cond.Wait, or queued on the mutex).  This is
// how "blocked" is told from "slow": by the goroutine status of the runtime, not by a timer.
func blockedInFetch() int {
	buf := make([]byte, 1<<18)
	for {
		n := runtime.Stack(buf, true)
		if n < len(buf) {
			buf = buf[:n]
			break
		}
		buf = make([]byte, 2*len(buf))
	}
	cnt := 0
	for _, g := range strings.Split(string(buf), "\n\n") {
		if !strings.Contains(g, "main.(*sys).fetch(") {
			continue
		}
		hdr := g
		if i := strings.IndexByte(g, '\n'); i >= 0 {
			hdr = g[:i]
		}
		if strings.Contains(hdr, "[running") || strings.Contains(hdr, "[runnable") || strings.Contains(hdr, "[syscall") {
			continue
		}
		cnt++
	}
	return cnt
}

const patience = 8 * time.Second

// settle waits until every live fetcher goroutine of this run is inside Fetch and blocked there
// (or no fetcher is inside Fetch).  Callers make sure no reporter is running.
func (s *sys) settle() bool {
	t0 := time.Now()
	for {
		n0 := s.rec.size()
		in := atomic.LoadInt32(&s.inFetch)
		live := atomic.LoadInt32(&s.live)
		if live == in {
			if in == 0 {
				return true
			}
			b := blockedInFetch() - s.leaked
			if int32(b) == in && atomic.LoadInt32(&s.inFetch) == in && atomic.LoadInt32(&s.live) == live && s.rec.size() == n0 {
				return true
			}
		}
		if time.Since(t0) > patience {
			return false
		}
		time.Sleep(100 * time.Microsecond)
	}
}

// observeQ records the observation "these fetchers are blocked and nothing else runs"
func (s *sys) observeQ() (pending []int, verdict string) {
	for {
		if !s.settle() {
			return nil, "fetch-neither-returns-nor-blocks"
		}
		s.rec.mu.Lock()
		pending = pendingFetchers(s.rec.evs)
		if int32(len(pending)) != atomic.LoadInt32(&s.inFetch) { // something moved meanwhile
			s.rec.mu.Unlock()
			continue
		}
		if len(pending) > 0 {
			s.rec.evs = append(s.rec.evs, event{kind: evQ, pending: pending})
		}
		s.rec.mu.Unlock()
		return pending, "ok"
	}
}

// release the blocked fetchers one at a time with poison directories; each report must wake one
func (s *sys) release(mainThr int, n int, pill *int) string {
	for k := 0; k < n; k++ {
		before := countRets(s.rec.snapshot())
		*pill++
		s.report(mainThr, *pill, 0)
		t0 := time.Now()
		for countRets(s.rec.snapshot()) == before {
			if time.Since(t0) > patience {
				return "fetcher-not-woken-by-report"
			}
			time.Sleep(50 * time.Microsecond)
		}
	}
	return "ok"
}

// ---------------------------------------------------------------- splitmix
type rng struct{ s uint64 }

func (r *rng) next() uint64 {
	r.s += 0x9E3779B97F4A7C15
	z := r.s
	z = (z ^ (z >> 30)) * 0xBF58476D1CE4E5B9
	z = (z ^ (z >> 27)) * 0x94D049BB133111EB
	return z ^ (z >> 31)
}
func (r *rng) below(n int) int { return int(r.next() % uint64(n)) }

// ---------------------------------------------------------------- workloads
type result struct {
	id, history, trace, final, verdict, shape string
	nthr                                     int
}

func finish(s *sys, id string, nthr int, final string, verdict string, shape string) result {
	evs := s.rec.snapshot()
	a := analyse(nthr, evs)
	v := verdict
	if v == "ok" {
		v = a.verdict
	}
	if v == "ok" {
		if c := counters(evs); c != "" {
			v = c
		}
	}
	s.vmu.Lock()
	if v == "ok" && len(s.viol) > 0 {
		v = s.viol[0]
	}
	s.vmu.Unlock()
	return result{id: id, nthr: nthr, history: a.history, trace: a.trace, final: final, verdict: v, shape: shape}
}

func newSys() *sys {
	return &sys{c: watcher.NewChanges(root), leaked: blockedInFetch()}
}

// script: tokens R<d> (report), R<d>+R<e>+.. (burst of reports issued back to back) and F (fetch).
// Every F is performed by a fresh goroutine (threads 1,2,..) and the system is left to settle: the
// fetch has returned or is blocked (several may be blocked at once).  After every report (burst) the
// system settles again.  At the end the set is drained (fetches until one blocks) and the blocked
// fetchers are released one by one with poison directories.  The verdict comes from the analysis
// of the recorded history (every observation of blocked fetchers requires the empty set).
func runScript(id string, toks []string) (res result) {
	nthr := 1 + 12
	for _, t := range toks {
		if t == "F" {
			nthr++
		}
	}
	defer func() {
		if e := recover(); e != nil {
			res = result{id: id, nthr: nthr, verdict: fmt.Sprintf("panic: %v", e), final: "?"}
		}
	}()
	s := newSys()
	verdict := "ok"
	nhelp := 0
	maxblocked := 0
	settled := func() int {
		pending, v := s.observeQ()
		if v != "ok" {
			verdict = v
		}
		if len(pending) > maxblocked {
			maxblocked = len(pending)
		}
		return len(pending)
	}
	spawnFetch := func(full bool) int {
		nhelp++
		thr := nhelp
		atomic.AddInt32(&s.live, 1)
		go func() { s.fetch(thr, full); atomic.AddInt32(&s.live, -1) }()
		return settled()
	}
	blocked := 0
	for k, t := range toks {
		if verdict != "ok" {
			break
		}
		switch {
		case t == "F":
			blocked = spawnFetch(k%2 == 1)
		case strings.HasPrefix(t, "R"):
			var ds []int
			for _, part := range strings.Split(t, "+") {
				d, err := strconv.Atoi(strings.TrimPrefix(part, "R"))
				if err != nil || !strings.HasPrefix(part, "R") || d < 0 || d >= len(dirNames) {
					verdict = "script-error:" + t
					break
				}
				ds = append(ds, d)
			}
			if verdict != "ok" {
				break
			}
			for i, d := range ds {
				s.report(0, d, uint64(k+i))
			}
			blocked = settled()
		default:
			verdict = "script-error:" + t
		}
	}
	// drain: fetch until one blocks (at most one per directory + 1)
	for i := 0; verdict == "ok" && blocked == 0; i++ {
		if i > len(dirNames)+1 {
			verdict = "fetch-keeps-returning-after-every-directory-was-fetched"
			break
		}
		blocked = spawnFetch(false)
	}
	// release the blocked fetchers one by one
	pill := 100
	for verdict == "ok" && blocked > 0 {
		// is the observation explicable?  (if not: lost wake-up / lost directory; do not try to release)
		if a := analyse(nthr, s.rec.snapshot()); a.verdict != "ok" {
			verdict = a.verdict
			break
		}
		if verdict = s.release(0, 1, &pill); verdict == "ok" {
			blocked = settled()
		}
	}
	return finish(s, id, nthr, "", verdict, fmt.Sprintf("script len=%d blockedmax=%d", len(toks), maxblocked))
}

func runConc(id string, r *rng) (res result) {
	np := 1 + r.below(3)
	nc := 1 + r.below(3)
	nd := 1 + r.below(4)
	kind := r.below(3) // 0: consumers first (park, then burst)  1: all at once  2: preload then consumers
	nthr := np + nc + 1
	mainThr := np + nc
	defer func() {
		if e := recover(); e != nil {
			res = result{id: id, nthr: nthr, verdict: fmt.Sprintf("panic: %v", e), final: "?"}
		}
	}()
	s := newSys()
	type prodPlan struct {
		dirs  []int
		yield []bool
		vars  []uint64
	}
	plans := make([]prodPlan, np)
	total := 0
	for i := range plans {
		n := 1 + r.below(8)
		for k := 0; k < n; k++ {
			plans[i].dirs = append(plans[i].dirs, r.below(nd))
			plans[i].yield = append(plans[i].yield, r.below(3) == 0)
			plans[i].vars = append(plans[i].vars, r.next())
		}
		total += n
	}
	// consumer 0 loops until poisoned; the others may fetch a bounded number of times
	bounds := make([]int, nc)
	fulls := make([]bool, nc)
	for j := range bounds {
		bounds[j] = -1
		if j > 0 && r.below(2) == 0 {
			bounds[j] = 1 + r.below(3)
		}
		fulls[j] = r.below(2) == 0
	}
	var cwg, pwg sync.WaitGroup
	startCons := func() {
		for j := 0; j < nc; j++ {
			cwg.Add(1)
			atomic.AddInt32(&s.live, 1)
			go func(j int) {
				defer cwg.Done()
				defer atomic.AddInt32(&s.live, -1)
				for k := 0; bounds[j] < 0 || k < bounds[j]; k++ {
					if d := s.fetch(np+j, fulls[j]); d >= 100 || d < 0 {
						return
					}
				}
			}(j)
		}
	}
	startProd := func() {
		for i := 0; i < np; i++ {
			pwg.Add(1)
			go func(i int) {
				defer pwg.Done()
				for k, d := range plans[i].dirs {
					s.report(i, d, plans[i].vars[k])
					if plans[i].yield[k] {
						runtime.Gosched()
					}
				}
			}(i)
		}
	}
	switch kind {
	case 0:
		startCons()
		if r.below(2) == 0 {
			s.settle() // every consumer is parked before the burst
		} else {
			time.Sleep(time.Duration(r.below(300)) * time.Microsecond)
		}
		startProd()
	case 1:
		startProd()
		startCons()
	case 2:
		startProd()
		pwg.Wait()
		startCons()
	}
	pwg.Wait()
	pending, verdict := s.observeQ()
	npend := len(pending)
	pill := 100
	if verdict == "ok" && npend > 0 {
		// is the observation explicable?  (if not: lost wake-up / lost directory; do not try to release)
		if a := analyse(nthr, s.rec.snapshot()); a.verdict != "ok" {
			verdict = a.verdict
		} else {
			verdict = s.release(mainThr, npend, &pill)
		}
	}
	if verdict == "ok" {
		done := make(chan struct{})
		go func() { cwg.Wait(); close(done) }()
		select {
		case <-done:
		case <-time.After(patience):
			verdict = "consumer-goroutine-did-not-finish"
		}
	}
	kinds := []string{"park-then-burst", "all-at-once", "preload"}
	return finish(s, id, nthr, "?", verdict,
		fmt.Sprintf("conc %s P=%d C=%d D=%d reports=%d blockedAtQ=%d", kinds[kind], np, nc, nd, total, npend))
}

// ---------------------------------------------------------------- main: cases run one after the
// other inside a process (goroutine statuses are read process-wide); -workers K re-executes this
// binary K times on slices of the job list
func main() {
	mode := flag.String("mode", "script", "script | conc")
	seed := flag.Uint64("seed", 1, "seed (conc)")
	runs := flag.Int("runs", 100, "number of workloads (conc)")
	from := flag.Int("from", 0, "first workload index (conc)")
	workers := flag.Int("workers", 1, "child processes")
	flag.Parse()
	w := bufio.NewWriter(os.Stdout)
	defer w.Flush()
	var lines []string
	if *mode == "script" {
		sc := bufio.NewScanner(os.Stdin)
		sc.Buffer(make([]byte, 1<<20), 1<<26)
		for sc.Scan() {
			lines = append(lines, sc.Text())
		}
	}
	if *workers > 1 {
		type chunk struct {
			args  []string
			input string
			out   []byte
			err   error
		}
		var chunks []*chunk
		K := *workers
		if *mode == "script" {
			per := (len(lines) + K - 1) / K
			for a := 0; a < len(lines); a += per {
				b := a + per
				if b > len(lines) {
					b = len(lines)
				}
				chunks = append(chunks, &chunk{args: []string{"-mode", "script"}, input: strings.Join(lines[a:b], "\n") + "\n"})
			}
		} else {
			per := (*runs + K - 1) / K
			for a := 0; a < *runs; a += per {
				n := per
				if a+n > *runs {
					n = *runs - a
				}
				chunks = append(chunks, &chunk{args: []string{"-mode", "conc", "-seed", fmt.Sprint(*seed),
					"-from", fmt.Sprint(*from + a), "-runs", fmt.Sprint(n)}})
			}
		}
		var wg sync.WaitGroup
		for _, c := range chunks {
			wg.Add(1)
			go func(c *chunk) {
				defer wg.Done()
				cmd := exec.Command(os.Args[0], c.args...)
				cmd.Stdin = strings.NewReader(c.input)
				cmd.Stderr = os.Stderr
				c.out, c.err = cmd.Output()
			}(c)
		}
		wg.Wait()
		rc := 0
		for _, c := range chunks {
			w.Write(c.out)
			if c.err != nil {
				if ee, ok := c.err.(*exec.ExitError); ok && ee.ExitCode() == 66 {
					rc = 66 // race detector
				} else {
					fmt.Fprintln(os.Stderr, "child failed:", c.err)
					rc = 3
				}
			}
		}
		w.Flush()
		os.Exit(rc)
	}
	failures := 0
	emit := func(r result) {
		fmt.Fprintf(w, "%s\t%d\t%s\t%s\t%s\t%s\t%s\n", r.id, r.nthr, r.history, r.trace, r.final, r.verdict, r.shape)
		w.Flush()
		if r.verdict != "ok" {
			failures++
		}
	}
	// a broken implementation makes every case wait for its time-outs: after a few failures the
	// remaining cases of this process are not run (reported as skipped)
	skip := func(id string) bool {
		if failures >= 3 {
			fmt.Fprintf(w, "%s\t0\t\t\t?\tskipped-after-failures\tskipped\n", id)
			return true
		}
		return false
	}
	if *mode == "script" {
		for _, line := range lines {
			toks := strings.Fields(line)
			if id := "script:" + strings.Join(toks, "_"); !skip(id) {
				emit(runScript(id, toks))
			}
		}
	} else {
		for k := *from; k < *from+*runs; k++ {
			r := &rng{s: *seed*1000003 + uint64(k)*7919}
			if id := fmt.Sprintf("conc:seed=%d:run=%d", *seed, k); !skip(id) {
				emit(runConc(id, r))
			}
		}
	}
}
