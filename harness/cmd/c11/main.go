// Implementation side of the C11 correspondence.
//
// stdin: one JSON case per line {"pkg":"g0","files":[{"name":"K0.gox","src":"..."},{"name":"x.xgo","src":"..."}]}.
// The package (class files + ordinary XGo files) is parsed and compiled by the real compiler (x/build:
// parser.ParseFSDir with class detection + cl.NewPackage), the emitted Go is written to
// <root>/<pkg>/xgo_autogen.go, and the type view of the emitted Go is read back with go/parser: for every
// struct type its fields in order (name, embedded, type expression, tag) and for every function its name and
// receiver (name, type).  stdout: one JSON result per line.
package main

import (
	"bufio"
	"bytes"
	"encoding/json"
	"flag"
	"fmt"
	goast "go/ast"
	goparser "go/parser"
	goprinter "go/printer"
	gotoken "go/token"
	"os"
	"path/filepath"
	"strconv"

	"github.com/goplus/gogen/packages"
	"github.com/goplus/gogen/packages/cache"
	"github.com/goplus/xgo/cl"
	"github.com/goplus/xgo/parser/fsx/memfs"
	"github.com/goplus/xgo/token"
	"github.com/goplus/xgo/x/build"
)

type inFile struct {
	Name string `json:"name"`
	Src  string `json:"src"`
}
type inCase struct {
	Pkg   string   `json:"pkg"`
	Files []inFile `json:"files"`
}
type outCase struct {
	Pkg    string                 `json:"pkg"`
	Status string                 `json:"status"`
	Types  map[string][][4]string `json:"types,omitempty"` // struct name -> fields [name, embedded(0/1), type, tag]
	Funcs  [][3]string            `json:"funcs,omitempty"` // [name, receiver name, receiver type ("*T"/"T")]
}

func exprString(fset *gotoken.FileSet, e goast.Expr) string {
	var b bytes.Buffer
	goprinter.Fprint(&b, fset, e)
	return b.String()
}

func embedName(e goast.Expr) string {
	switch v := e.(type) {
	case *goast.StarExpr:
		return embedName(v.X)
	case *goast.SelectorExpr:
		return v.Sel.Name
	case *goast.Ident:
		return v.Name
	}
	return "?"
}

func compile(ctx *build.Context, fs *memfs.FS, dir string) (out []byte, err error) {
	defer func() {
		if e := recover(); e != nil {
			err = fmt.Errorf("panic: %v", e)
		}
	}()
	pkg, err := ctx.ParseFSDir(fs, dir) // (BuildFSDir's own recover drops the panic value)
	if err != nil {
		return nil, err
	}
	return pkg.ToSource()
}

func main() {
	root := flag.String("root", "", "scratch Go module the emitted packages are written to")
	modDir := flag.String("moddir", "", "Go module the compiler's imports are resolved from")
	flag.Parse()
	if *root == "" {
		fmt.Fprintln(os.Stderr, "-root required")
		os.Exit(2)
	}
	if *modDir == "" {
		*modDir, _ = os.Getwd()
	}
	imp := packages.NewImporter(token.NewFileSet(), *modDir)
	ch := cache.New(func(string, bool) string { return "" })
	if err := ch.Prepare(*modDir, "fmt", "bytes", "os", "reflect", "strconv", "strings", "errors",
		"github.com/qiniu/x/xgo", "github.com/qiniu/x/xgo/ng", "github.com/qiniu/x/stringutil",
		"github.com/qiniu/x/stringslice", "github.com/qiniu/x/osx", "github.com/qiniu/x/errors"); err != nil {
		fmt.Fprintln(os.Stderr, "go list -export:", err)
		os.Exit(2)
	}
	imp.SetCache(ch)
	sc := bufio.NewScanner(os.Stdin)
	sc.Buffer(make([]byte, 1<<20), 1<<28)
	w := bufio.NewWriter(os.Stdout)
	defer w.Flush()
	for sc.Scan() {
		var in inCase
		if err := json.Unmarshal(sc.Bytes(), &in); err != nil {
			fmt.Fprintf(w, "{\"status\":\"bad-input\"}\n")
			continue
		}
		res := outCase{Pkg: in.Pkg}
		dir := filepath.Join(*root, in.Pkg)
		var names []string
		files := map[string]string{}
		for _, f := range in.Files {
			names = append(names, f.Name)
			files[filepath.Join(dir, f.Name)] = f.Src
		}
		mfs := memfs.New(map[string][]string{dir: names}, files)
		ctx := build.NewContext(imp, token.NewFileSet())
		ctx.LoadConfig = func(c *cl.Config) { c.NoFileLine = true; c.NoAutoGenMain = true }
		out, err := compile(ctx, mfs, dir)
		if err != nil {
			res.Status = "cl-error: " + err.Error()
		} else {
			res.Status = "ok"
			os.MkdirAll(dir, 0o755)
			if err := os.WriteFile(filepath.Join(dir, "xgo_autogen.go"), out, 0o644); err != nil {
				res.Status = "io-error: " + err.Error()
			}
			gfset := gotoken.NewFileSet()
			gf, err := goparser.ParseFile(gfset, "xgo_autogen.go", out, 0)
			if err != nil {
				res.Status = "emitted Go does not parse: " + err.Error()
			} else {
				res.Types = map[string][][4]string{}
				for _, d := range gf.Decls {
					switch v := d.(type) {
					case *goast.GenDecl:
						if v.Tok != gotoken.TYPE {
							continue
						}
						for _, sp := range v.Specs {
							ts := sp.(*goast.TypeSpec)
							st, ok := ts.Type.(*goast.StructType)
							if !ok {
								continue
							}
							fl := [][4]string{}
							for _, f := range st.Fields.List {
								tag := ""
								if f.Tag != nil {
									tag, _ = strconv.Unquote(f.Tag.Value)
								}
								ty := exprString(gfset, f.Type)
								if len(f.Names) == 0 {
									fl = append(fl, [4]string{embedName(f.Type), "1", ty, tag})
								}
								for _, n := range f.Names {
									fl = append(fl, [4]string{n.Name, "0", ty, tag})
								}
							}
							res.Types[ts.Name.Name] = fl
						}
					case *goast.FuncDecl:
						rn, rt := "", ""
						if v.Recv != nil && len(v.Recv.List) == 1 {
							if len(v.Recv.List[0].Names) == 1 {
								rn = v.Recv.List[0].Names[0].Name
							}
							rt = exprString(gfset, v.Recv.List[0].Type)
						}
						res.Funcs = append(res.Funcs, [3]string{v.Name.Name, rn, rt})
					}
				}
			}
		}
		b, _ := json.Marshal(res)
		w.Write(b)
		w.WriteByte('\n')
	}
}
