// Implementation side of C22 (and of the M-EXPR correspondence used by C19/C20).
//
// stdin, one case per line:
//
//	P <TAB> ctx <TAB> tree     build the tree (no positions), printer.Fprint it, scan the output with the
//	                           real scanner, parse it back and compare structurally (direct oracle)
//	                           ctx: E = parser.ParseExpr, S = statement of a file, R = for-phrase operand
//	T <TAB> tok tok ...        render the tokens blank-separated, parser.ParseExpr
//
// stdout, one line per case, TAB-separated:
//
//	P: tokens <TAB> verdict <TAB> reparsed-tree <TAB> quoted-text
//	T: ERR | tree
package main

import (
	"bufio"
	"bytes"
	"fmt"
	"os"
	"strconv"
	"strings"

	"vh/g6"

	"github.com/goplus/xgo/ast"
	"github.com/goplus/xgo/parser"
	"github.com/goplus/xgo/printer"
	"github.com/goplus/xgo/scanner"
	"github.com/goplus/xgo/token"
)

func scanToks(src []byte) (string, bool) {
	fset := token.NewFileSet()
	f := fset.AddFile("", fset.Base(), len(src))
	var s scanner.Scanner
	nerr := 0
	s.Init(f, src, func(token.Position, string) { nerr++ }, 0)
	var out []string
	for {
		_, tok, lit := s.Scan()
		if tok == token.EOF {
			break
		}
		if tok == token.SEMICOLON && lit == "\n" {
			out = append(out, "NL")
			continue
		}
		if tok.IsLiteral() || tok == token.UNIT || tok == token.ILLEGAL {
			out = append(out, fmt.Sprintf("%d:%s", int(tok), strings.ReplaceAll(lit, " ", "\\s")))
		} else {
			out = append(out, strconv.Itoa(int(tok)))
		}
	}
	for len(out) > 0 && out[len(out)-1] == "NL" {
		out = out[:len(out)-1]
	}
	return strings.Join(out, " "), nerr == 0
}

func firstStmt(f *ast.File) ast.Stmt {
	for _, d := range f.Decls {
		if fd, ok := d.(*ast.FuncDecl); ok && fd.Shadow && fd.Body != nil && len(fd.Body.List) == 1 && len(f.Decls) == 1 {
			return fd.Body.List[0]
		}
	}
	return nil
}

func doPrint(ctx string, tree string) (line string) {
	text := ""
	toks := ""
	defer func() {
		if e := recover(); e != nil {
			line = fmt.Sprintf("%s\tpanic\t%v\t%q", toks, strings.ReplaceAll(fmt.Sprint(e), "\t", " "), text)
		}
	}()
	n, err := g6.ParseSexp(tree)
	if err != nil {
		return "\tbad-case\t" + err.Error() + "\t\"\""
	}
	e := g6.Build(n)
	want := g6.ToTree(e)
	var node any = e
	switch ctx {
	case "S":
		node = &ast.ExprStmt{X: e}
	case "R":
		// (a *ForPhraseStmt passed directly satisfies ast.Expr through its embedded *ForPhrase and makes
		// printer.Fprint end the process with log.Fatalf("unreachable"); a statement list does not)
		node = []ast.Stmt{&ast.ForPhraseStmt{ForPhrase: &ast.ForPhrase{Value: &ast.Ident{Name: "v"}, X: e}, Body: &ast.BlockStmt{}}}
	}
	var buf bytes.Buffer
	fset := token.NewFileSet()
	if err := printer.Fprint(&buf, fset, node); err != nil {
		return "\tprint-error\t" + strings.ReplaceAll(err.Error(), "\t", " ") + "\t\"\""
	}
	text = buf.String()
	var scanok bool
	toks, scanok = scanToks(buf.Bytes())
	var got ast.Expr
	switch ctx {
	case "E":
		got, err = parser.ParseExpr(text)
	default:
		var f *ast.File
		f, err = parser.ParseFile(token.NewFileSet(), "x.xgo", text+"\n", 0)
		if err == nil {
			switch s := firstStmt(f).(type) {
			case *ast.ExprStmt:
				if ctx == "S" {
					got = s.X
				}
			case *ast.ForPhraseStmt:
				if ctx == "R" && s.Key == nil && s.Cond == nil && s.Value != nil && s.Value.Name == "v" && len(s.Body.List) == 0 {
					got = s.X
				}
			}
			if got == nil {
				return fmt.Sprintf("%s\tdiffers\t(? context-changed)\t%q", toks, text)
			}
		}
	}
	if err != nil {
		return fmt.Sprintf("%s\tparse-error\t-\t%q", toks, text)
	}
	_ = scanok
	back := g6.ToTree(got)
	v := "ok"
	if g6.StripTree(back) != g6.StripTree(want) {
		v = "differs"
	}
	return fmt.Sprintf("%s\t%s\t%s\t%q", toks, v, back, text)
}

func doParse(toks string) (line string) {
	defer func() {
		if e := recover(); e != nil {
			line = "PANIC " + strings.ReplaceAll(fmt.Sprint(e), "\t", " ")
		}
	}()
	var parts []string
	for _, t := range strings.Fields(toks) {
		if i := strings.IndexByte(t, ':'); i >= 0 {
			lit := strings.ReplaceAll(t[i+1:], "\\s", " ")
			switch t[:i] {
			case strconv.Itoa(int(token.CSTRING)):
				lit = "c" + lit
			case strconv.Itoa(int(token.PYSTRING)):
				lit = "py" + lit
			}
			parts = append(parts, lit)
		} else {
			c, err := strconv.Atoi(t)
			if err != nil {
				return "BADCASE"
			}
			parts = append(parts, token.Token(c).String())
		}
	}
	e, err := parser.ParseExpr(strings.Join(parts, " "))
	if err != nil {
		return "ERR"
	}
	return g6.ToTree(e)
}

func main() {
	sc := bufio.NewScanner(os.Stdin)
	sc.Buffer(make([]byte, 1<<20), 1<<26)
	w := bufio.NewWriter(os.Stdout)
	defer w.Flush()
	for sc.Scan() {
		f := strings.Split(sc.Text(), "\t")
		switch {
		case len(f) == 3 && f[0] == "P":
			fmt.Fprintln(w, doPrint(f[1], f[2]))
		case len(f) == 2 && f[0] == "T":
			fmt.Fprintln(w, doParse(f[1]))
		default:
			fmt.Fprintln(w, "BADCASE")
		}
	}
}
