// Implementation side of the C39 correspondence: scripted and concurrent scenarios on the real
// jsonrpc2.Connection, every observable logged in one total order (history), plus the direct
// oracle (Await exactly once with the own answer, incoming calls answered at most once, Close
// returns once the handlers finished, no panic).
//
// stdin: one scenario per line (see parseScenario); stdout per scenario:
//
//	BEGIN <n>
//	<n>\t<verdict>\t<history of side A>\t<history of side B or ->
//
// verdict = ok | FAIL:<reason>[,<reason>...]
// A panic inside a goroutine of the library kills the process: the caller sees BEGIN <n> without a
// result line and the panic text on stderr.
package main

import (
	"bufio"
	"context"
	"encoding/json"
	"errors"
	"flag"
	"fmt"
	"io"
	"net"
	"os"
	"runtime"
	"strconv"
	"strings"
	"sync"
	"sync/atomic"
	"time"

	"github.com/goplus/xgo/x/jsonrpc2"
)

var (
	errInjectedWrite = errors.New("injected write error")
	errInjectedRead  = errors.New("injected read error")
	errClosedRWC     = errors.New("rwc closed")
	stepTimeout      = 6 * time.Second       // only reached when something hangs
	closeGrace       = 25 * time.Millisecond // Close gets this long before the peer is disconnected
	shapeTimeout     = 30 * time.Millisecond // schedule shaping (waitev / resp:<k>): give up quickly
)

// ------------------------------------------------------------------ logger

type logger struct {
	mu     sync.Mutex
	cond   *sync.Cond
	events []string
	counts map[string]int // events per prefix
	next   map[string]int // next handle per thread kind
	reqs   map[*jsonrpc2.Request]int
	fails  []string
}

func newLogger() *logger {
	l := &logger{counts: map[string]int{}, next: map[string]int{}, reqs: map[*jsonrpc2.Request]int{}}
	l.cond = sync.NewCond(&l.mu)
	return l
}

func (l *logger) logf(format string, a ...any) {
	l.mu.Lock()
	l.add(fmt.Sprintf(format, a...))
	l.mu.Unlock()
}

func (l *logger) add(ev string) { // l.mu held
	l.events = append(l.events, ev)
	p := ev
	if i := strings.IndexByte(ev, ':'); i >= 0 {
		p = ev[:i]
	}
	l.counts[p]++
	l.cond.Broadcast()
}

// begin logs a thread-creating event and returns the handle of the new thread.
func (l *logger) begin(kind, format string, a ...any) int {
	l.mu.Lock()
	h := l.next[kind]
	l.next[kind] = h + 1
	l.add(fmt.Sprintf(format, a...))
	l.mu.Unlock()
	return h
}

func (l *logger) fail(why string) {
	l.mu.Lock()
	l.fails = append(l.fails, why)
	l.mu.Unlock()
}

// waitCount blocks until at least n events with the prefix were logged (bounded).
func (l *logger) waitCount(prefix string, n int) {
	deadline := time.Now().Add(shapeTimeout)
	t := time.AfterFunc(shapeTimeout, func() { l.mu.Lock(); l.cond.Broadcast(); l.mu.Unlock() })
	defer t.Stop()
	l.mu.Lock()
	for l.counts[prefix] < n && time.Now().Before(deadline) {
		l.cond.Wait()
	}
	l.mu.Unlock()
}

// ------------------------------------------------------------------ encodings

func idTok(id jsonrpc2.ID) string {
	switch v := id.Raw().(type) {
	case int64:
		return "i" + strconv.FormatInt(v, 10)
	case string:
		return "s" + v
	}
	return "-"
}

func parseID(s string) jsonrpc2.ID {
	if s == "-" || s == "" {
		return jsonrpc2.ID{}
	}
	if s[0] == 'i' {
		n, _ := strconv.ParseInt(s[1:], 10, 64)
		return jsonrpc2.Int64ID(n)
	}
	return jsonrpc2.StringID(s[1:])
}

// errClass maps an error value to the class number of the model (Model/C39.v e_*).
func errClass(err error) int {
	switch {
	case errors.Is(err, jsonrpc2.ErrClientClosing):
		return 1
	case errors.Is(err, errInjectedWrite):
		return 4
	case errors.Is(err, context.Canceled):
		return 5
	case errors.Is(err, jsonrpc2.ErrServerClosing):
		return 6
	case errors.Is(err, jsonrpc2.ErrInvalidRequest):
		return 7
	case errors.Is(err, jsonrpc2.ErrMethodNotFound):
		return 8
	}
	for k := 0; k < 8; k++ {
		if errors.Is(err, appErr(k)) {
			return 100 + k
		}
	}
	if strings.Contains(err.Error(), "marshaling call parameters") {
		return 2
	}
	return 3 // whatever the Reader returned
}

func appErr(k int) error { return jsonrpc2.NewError(int64(100+k), "app error") }

func bodyTok(result json.RawMessage, err error) string {
	if err != nil {
		return "e" + strconv.Itoa(errClass(err))
	}
	var n int
	if json.Unmarshal(result, &n) != nil {
		return "r999"
	}
	return "r" + strconv.Itoa(n)
}

// ------------------------------------------------------------------ one side (a Connection + everything observing it)

type side struct {
	name      string
	lg        *logger
	conn      *jsonrpc2.Connection
	preempter bool
	gates     *gates
	failWrite map[int]bool // ordinals of Writer.Write calls that fail
	nWrites   int32
	wg        tracker       // goroutines started on behalf of the scenario (awaits, async responders, closers)
	closeRet  chan struct{} // closed when some Close/Wait returned
	closeOnce sync.Once
	awaits    int32
	pending   int32 // calls whose Await has not returned yet
	ierrs     int32
	notFound  int32
	// scripted transport
	scripted  bool
	peer      []string
	peerPos   int
	written   chan struct{} // signalled on every call written
	callsOut  []jsonrpc2.ID
	rwcClosed chan struct{}
	rwcOnce   sync.Once
	peerGone  chan struct{} // scripted peer: closed when the harness makes the peer disconnect
	badRes    int32         // unmarshalable results delivered for calls (each is reported through OnInternalError)
	gosched   int
	rnd       uint64
	timeout   time.Duration
}

// tracker counts running goroutines (a WaitGroup may not be Add-ed to while somebody Waits)
type tracker struct {
	mu sync.Mutex
	n  int
}

func (t *tracker) Add(k int) { t.mu.Lock(); t.n += k; t.mu.Unlock() }
func (t *tracker) Done()     { t.Add(-1) }
func (t *tracker) waitZero(d time.Duration) bool {
	deadline := time.Now().Add(d)
	for {
		t.mu.Lock()
		n := t.n
		t.mu.Unlock()
		if n == 0 {
			return true
		}
		if time.Now().After(deadline) {
			return false
		}
		time.Sleep(100 * time.Microsecond)
	}
}

type gates struct {
	mu      sync.Mutex
	m       map[string]chan struct{}
	allOpen bool
	arrived int
}

func (g *gates) get(name string) chan struct{} {
	g.mu.Lock()
	defer g.mu.Unlock()
	c, ok := g.m[name]
	if !ok {
		c = make(chan struct{})
		if g.allOpen {
			close(c)
		}
		g.m[name] = c
	}
	return c
}

func (g *gates) open(name string) {
	c := g.get(name)
	g.mu.Lock()
	select {
	case <-c:
	default:
		close(c)
	}
	g.mu.Unlock()
}

func (g *gates) openAll() {
	g.mu.Lock()
	g.allOpen = true
	for _, c := range g.m {
		select {
		case <-c:
		default:
			close(c)
		}
	}
	g.mu.Unlock()
}

func (s *side) perturb() {
	if s.gosched == 0 {
		return
	}
	x := atomic.AddUint64(&s.rnd, 0x9E3779B97F4A7C15)
	x ^= x >> 30
	x *= 0xBF58476D1CE4E5B9
	x ^= x >> 27
	switch x % uint64(4+s.gosched) {
	case 0, 1, 2:
	case 3:
		runtime.Gosched()
	default:
		time.Sleep(time.Duration(x%50) * time.Microsecond)
	}
}

// ---- rwc (scripted mode: no bytes flow; Close is observed)

type fakeRWC struct{ s *side }

func (f fakeRWC) Read(p []byte) (int, error)  { <-f.s.rwcClosed; return 0, errClosedRWC }
func (f fakeRWC) Write(p []byte) (int, error) { return len(p), nil }
func (f fakeRWC) Close() error {
	f.s.lg.logf("rc")
	f.s.rwcOnce.Do(func() { close(f.s.rwcClosed) })
	return nil
}

// duplex: an in-memory stream pair with unbounded buffers (a Write never waits for the reader)
type halfPipe struct {
	mu     sync.Mutex
	cond   *sync.Cond
	buf    []byte
	closed bool
}

func newHalf() *halfPipe { h := &halfPipe{}; h.cond = sync.NewCond(&h.mu); return h }

type duplexEnd struct{ in, out *halfPipe }

func duplex() (duplexEnd, duplexEnd) {
	x, y := newHalf(), newHalf()
	return duplexEnd{x, y}, duplexEnd{y, x}
}

func (d duplexEnd) Read(p []byte) (int, error) {
	h := d.in
	h.mu.Lock()
	defer h.mu.Unlock()
	for len(h.buf) == 0 && !h.closed {
		h.cond.Wait()
	}
	if len(h.buf) == 0 {
		return 0, io.EOF
	}
	n := copy(p, h.buf)
	h.buf = h.buf[n:]
	return n, nil
}

func (d duplexEnd) Write(p []byte) (int, error) {
	h := d.out
	h.mu.Lock()
	defer h.mu.Unlock()
	if h.closed {
		return 0, io.ErrClosedPipe
	}
	h.buf = append(h.buf, p...)
	h.cond.Broadcast()
	return len(p), nil
}

func (d duplexEnd) Close() error {
	for _, h := range []*halfPipe{d.in, d.out} {
		h.mu.Lock()
		h.closed = true
		h.cond.Broadcast()
		h.mu.Unlock()
	}
	return nil
}

type loggedRWC struct {
	io.ReadWriteCloser
	s *side
}

func (p loggedRWC) Close() error {
	p.s.lg.logf("rc")
	p.s.rwcOnce.Do(func() { close(p.s.rwcClosed) })
	return p.ReadWriteCloser.Close()
}

// rendezvous: wait (bounded) until n parties have arrived
func (g *gates) rendezvous(n int) {
	g.mu.Lock()
	g.arrived++
	g.mu.Unlock()
	deadline := time.Now().Add(shapeTimeout)
	for time.Now().Before(deadline) {
		g.mu.Lock()
		a := g.arrived
		g.mu.Unlock()
		if a >= n {
			return
		}
		time.Sleep(50 * time.Microsecond)
	}
}

// ---- framer: message-level observation and fault injection

type framer struct {
	s     *side
	inner jsonrpc2.Framer // nil in scripted mode
}

type reader struct {
	s     *side
	inner jsonrpc2.Reader
}
type writer struct {
	s     *side
	inner jsonrpc2.Writer
}

func (f framer) Reader(r io.Reader) jsonrpc2.Reader {
	if f.inner != nil {
		return &reader{f.s, f.inner.Reader(r)}
	}
	return &reader{f.s, nil}
}
func (f framer) Writer(w io.Writer) jsonrpc2.Writer {
	if f.inner != nil {
		return &writer{f.s, f.inner.Writer(w)}
	}
	return &writer{f.s, nil}
}

func (r *reader) deliver(m jsonrpc2.Message) (jsonrpc2.Message, int64, error) {
	s := r.s
	s.perturb()
	s.lg.mu.Lock()
	switch v := m.(type) {
	case *jsonrpc2.Request:
		h := s.lg.next["req"]
		s.lg.next["req"] = h + 1
		s.lg.reqs[v] = h
		s.lg.add("rm:q:" + idTok(v.ID))
	case *jsonrpc2.Response:
		s.lg.add("rm:p:" + idTok(v.ID) + ":" + bodyTok(v.Result, v.Error))
	}
	s.lg.mu.Unlock()
	s.perturb()
	return m, 1, nil
}

func (r *reader) Read(ctx context.Context) (jsonrpc2.Message, int64, error) {
	s := r.s
	if r.inner != nil {
		m, n, err := r.inner.Read(ctx)
		if err != nil {
			s.lg.logf("re")
			return nil, n, err
		}
		return r.deliver(m)
	}
	for {
		select {
		case <-s.rwcClosed:
			s.lg.logf("re")
			return nil, 0, errClosedRWC
		default:
		}
		if s.peerPos >= len(s.peer) {
			select {
			case <-s.rwcClosed:
				s.lg.logf("re")
				return nil, 0, errClosedRWC
			case <-s.peerGone:
				s.lg.logf("re")
				return nil, 0, errInjectedRead
			}
		}
		op := s.peer[s.peerPos]
		s.peerPos++
		f := strings.Split(op, ":")
		switch f[0] {
		case "req": // req:<id|->:<behaviour>
			return r.deliver(&jsonrpc2.Request{ID: parseID(f[1]), Method: f[2]})
		case "resp": // resp:<k>:<body>  answer the k-th written call
			k, _ := strconv.Atoi(f[1])
			var id jsonrpc2.ID
			ok := false
			deadline := time.After(shapeTimeout)
		wait:
			for {
				s.lg.mu.Lock()
				if k < len(s.callsOut) {
					id, ok = s.callsOut[k], true
				}
				s.lg.mu.Unlock()
				if ok {
					break
				}
				select {
				case <-s.written:
				case <-s.rwcClosed:
					break wait
				case <-s.peerGone:
					break wait
				case <-deadline:
					break wait
				}
			}
			if !ok {
				continue
			}
			return r.deliver(mkResp(id, f[2]))
		case "respid": // respid:<id>:<body>
			return r.deliver(mkResp(parseID(f[1]), f[2]))
		case "readerr":
			s.lg.logf("re")
			return nil, 0, errInjectedRead
		default:
			s.miscOp(f)
		}
	}
}

func mkResp(id jsonrpc2.ID, body string) *jsonrpc2.Response {
	n, _ := strconv.Atoi(body[1:])
	if body[0] == 'e' {
		return &jsonrpc2.Response{ID: id, Error: appErr(n - 100)}
	}
	return &jsonrpc2.Response{ID: id, Result: json.RawMessage(strconv.Itoa(n))}
}

func (w *writer) Write(ctx context.Context, m jsonrpc2.Message) (int64, error) {
	s := w.s
	s.perturb()
	var err error
	res := "o"
	if ctx.Err() != nil {
		err, res = ctx.Err(), "c"
	} else {
		k := int(atomic.AddInt32(&s.nWrites, 1)) - 1
		if s.failWrite[k] {
			err, res = errInjectedWrite, "f"
		} else if w.inner != nil {
			if _, err = w.inner.Write(ctx, m); err != nil {
				err, res = fmt.Errorf("%w: %v", errInjectedWrite, err), "f"
			}
		}
	}
	s.lg.mu.Lock()
	switch v := m.(type) {
	case *jsonrpc2.Request:
		var h int
		json.Unmarshal(v.Params, &h)
		if v.IsCall() {
			s.lg.add(fmt.Sprintf("wc:%d:%s", h, res))
			if err == nil {
				s.callsOut = append(s.callsOut, v.ID)
			}
		} else {
			s.lg.add(fmt.Sprintf("wn:%d:%s", h, res))
		}
	case *jsonrpc2.Response:
		s.lg.add("wr:" + idTok(v.ID) + ":" + bodyTok(v.Result, v.Error) + ":" + res)
	}
	s.lg.mu.Unlock()
	if _, ok := m.(*jsonrpc2.Request); ok && err == nil {
		select {
		case s.written <- struct{}{}:
		default:
		}
	}
	s.perturb()
	return 1, err
}

// ---- handler / preempter: the behaviour is the method name

func (s *side) reqHandle(req *jsonrpc2.Request) int {
	s.lg.mu.Lock()
	defer s.lg.mu.Unlock()
	h, ok := s.lg.reqs[req]
	if !ok {
		return -1
	}
	return h
}

func outTok(res any, err error) string {
	switch {
	case err == jsonrpc2.ErrAsyncResponse:
		return "a"
	case err == jsonrpc2.ErrNotHandled:
		return "n"
	case err != nil:
		return "e" + strconv.Itoa(errClass(err))
	}
	switch v := res.(type) {
	case int:
		return "k" + strconv.Itoa(v)
	case nil:
		return "k0"
	case chan int:
		_ = v
		return "b"
	}
	return "k999"
}

func num(s string) int { n, _ := strconv.Atoi(s); return n }

// asyncRespond answers req later through Connection.Respond
// (only after the handler's return has been logged: the contract modelled for Respond)
func (s *side) asyncRespond(id jsonrpc2.ID, gate string, tag int, returned chan struct{}) {
	s.wg.Add(1)
	go func() {
		defer s.wg.Done()
		<-returned
		if gate != "" {
			<-s.gates.get(gate)
		}
		s.perturb()
		s.doRespond(id, "k"+strconv.Itoa(tag))
	}()
}

// hnd is what is registered as Handler / Preempter: internalErrorf formats the handler with %#v,
// which would read the whole side struct by reflection while other goroutines update it.
type hnd struct{ s *side }

func (h hnd) Preempt(ctx context.Context, req *jsonrpc2.Request) (any, error) {
	return h.s.preempt(ctx, req)
}
func (h hnd) Handle(ctx context.Context, req *jsonrpc2.Request) (any, error) {
	return h.s.handle(ctx, req)
}

func (s *side) preempt(ctx context.Context, req *jsonrpc2.Request) (res any, err error) {
	h := s.reqHandle(req)
	s.lg.logf("pb:%d", h)
	s.perturb()
	returned := make(chan struct{})
	defer func() { s.perturb(); s.lg.logf("pr:%d:%s", h, outTok(res, err)); close(returned) }()
	m := req.Method
	switch {
	case strings.HasPrefix(m, "prv"): // answer from the read loop once both sides are in their preempter
		s.gates.rendezvous(2)
		if !req.IsCall() {
			return nil, nil
		}
		return num(m[3:]), nil
	case strings.HasPrefix(m, "pok"):
		if !req.IsCall() {
			return nil, nil
		}
		return num(m[3:]), nil
	case strings.HasPrefix(m, "perr"):
		return nil, appErr(num(m[4:]))
	case strings.HasPrefix(m, "pasync") && req.IsCall():
		s.asyncRespond(req.ID, "", num(m[6:]), returned)
		return nil, jsonrpc2.ErrAsyncResponse
	case strings.HasPrefix(m, "pcancel"):
		s.doCancel(parseID(m[7:]))
		if req.IsCall() {
			return 0, nil
		}
		return nil, nil
	case strings.HasPrefix(m, "pgate"):
		s.gates.open(m[5:])
		if req.IsCall() {
			return 0, nil
		}
		return nil, nil
	}
	return nil, jsonrpc2.ErrNotHandled
}

func (s *side) handle(ctx context.Context, req *jsonrpc2.Request) (res any, err error) {
	h := s.reqHandle(req)
	s.lg.logf("hb:%d", h)
	s.perturb()
	returned := make(chan struct{})
	defer func() {
		if !req.IsCall() && err == nil {
			res = nil
		}
		s.perturb()
		s.lg.logf("hr:%d:%s", h, outTok(res, err))
		close(returned)
	}()
	m := req.Method
	switch {
	case strings.HasPrefix(m, "ok"):
		return num(m[2:]), nil
	case strings.HasPrefix(m, "err"):
		return nil, appErr(num(m[3:]))
	case m == "nh":
		return nil, jsonrpc2.ErrNotHandled
	case m == "bad" && req.IsCall():
		atomic.AddInt32(&s.badRes, 1)
		return make(chan int), nil
	case strings.HasPrefix(m, "asyncg") && req.IsCall(): // asyncg<gate>_<tag>
		p := strings.SplitN(m[6:], "_", 2)
		s.asyncRespond(req.ID, p[0], num(p[1]), returned)
		return nil, jsonrpc2.ErrAsyncResponse
	case strings.HasPrefix(m, "async") && req.IsCall():
		s.asyncRespond(req.ID, "", num(m[5:]), returned)
		return nil, jsonrpc2.ErrAsyncResponse
	case strings.HasPrefix(m, "gate"): // gate<gate>_<tag>: block until the gate opens or the request is cancelled
		p := strings.SplitN(m[4:], "_", 2)
		select {
		case <-s.gates.get(p[0]):
			return num(p[1]), nil
		case <-ctx.Done():
			return nil, ctx.Err()
		}
	case strings.HasPrefix(m, "echo"): // nested call from inside the handler
		ac, c := s.doCall("-", "ok"+m[4:])
		_ = c
		var r int
		if e := ac.Await(ctx, &r); e != nil {
			return nil, appErr(7)
		}
		return r, nil
	}
	return nil, jsonrpc2.ErrNotHandled
}

// ---- API operations

func (s *side) doCall(flags, method string) (*jsonrpc2.AsyncCall, int) {
	bad := strings.Contains(flags, "b")
	ctx := context.Background()
	if strings.Contains(flags, "x") {
		c, cancel := context.WithCancel(ctx)
		cancel()
		ctx = c
	}
	b := 0
	if bad {
		b = 1
	}
	c := s.lg.begin("call", "cb:%d", b)
	s.perturb()
	var params any = c
	if bad {
		params = make(chan int)
	}
	ac := s.conn.Call(ctx, method, params)
	s.perturb()
	s.lg.logf("cr:%d:%s", c, idTok(ac.ID()))
	atomic.AddInt32(&s.awaits, 1)
	atomic.AddInt32(&s.pending, 1)
	s.wg.Add(1)
	go func() {
		defer s.wg.Done()
		defer atomic.AddInt32(&s.pending, -1)
		actx, cancel := context.WithTimeout(context.Background(), s.timeout)
		defer cancel()
		var r json.RawMessage
		err := ac.Await(actx, &r)
		if errors.Is(err, context.DeadlineExceeded) && !ac.IsReady() {
			s.lg.fail(fmt.Sprintf("await-never(call %d)", c))
			s.lg.logf("awt:%d", c)
			return
		}
		s.lg.logf("aw:%d:%s:%s", c, idTok(ac.ID()), bodyTok(r, err))
		// a second Await must give the same answer
		var r2 json.RawMessage
		err2 := ac.Await(context.Background(), &r2)
		if bodyTok(r2, err2) != bodyTok(r, err) {
			s.lg.fail(fmt.Sprintf("await-twice-differs(call %d)", c))
		}
	}()
	return ac, c
}

func (s *side) doNotify(flags, method string) {
	bad := strings.Contains(flags, "b")
	ctx := context.Background()
	if strings.Contains(flags, "x") {
		c, cancel := context.WithCancel(ctx)
		cancel()
		ctx = c
	}
	b := 0
	if bad {
		b = 1
	}
	n := s.lg.begin("notif", "nb:%d", b)
	s.perturb()
	var params any = n
	if bad {
		params = make(chan int)
	}
	err := s.conn.Notify(ctx, method, params)
	s.perturb()
	ok := 0
	if err == nil {
		ok = 1
	}
	s.lg.logf("nr:%d:%d", n, ok)
}

func (s *side) doRespond(id jsonrpc2.ID, out string) {
	j := s.lg.begin("resp", "rb:%s:%s", idTok(id), out)
	s.perturb()
	var res any
	var rerr error
	switch out[0] {
	case 'k':
		res = num(out[1:])
	case 'e':
		rerr = appErr(num(out[1:]) - 100)
	case 'b':
		res = make(chan int)
	}
	err := s.conn.Respond(id, res, rerr)
	if out[0] == 'b' && err == nil {
		atomic.AddInt32(&s.badRes, 1)
	}
	s.perturb()
	f := 1
	if err != nil {
		f = 0
		atomic.AddInt32(&s.notFound, 1)
	}
	s.lg.logf("rr:%d:%d", j, f)
}

func (s *side) doCancel(id jsonrpc2.ID) {
	k := s.lg.begin("cancel", "kb:%s", idTok(id))
	s.perturb()
	s.conn.Cancel(id)
	s.perturb()
	s.lg.logf("kr:%d", k)
}

func (s *side) doClose(wait bool) {
	var j int
	if wait {
		j = s.lg.begin("closer", "vb")
	} else {
		j = s.lg.begin("closer", "xb")
	}
	s.perturb()
	done := make(chan struct{})
	s.wg.Add(1)
	go func() {
		defer s.wg.Done()
		if wait {
			s.conn.Wait()
		} else {
			s.conn.Close()
		}
		s.perturb()
		s.lg.logf("xr:%d", j)
		s.closeOnce.Do(func() { close(s.closeRet) })
		close(done)
	}()
	if !wait {
		// Close blocks until the connection is done; the actor goes on (other actors may be needed to finish handlers)
		select {
		case <-done:
		case <-time.After(200 * time.Microsecond):
		}
	}
}

func (s *side) miscOp(f []string) {
	switch f[0] {
	case "gate":
		s.gates.open(f[1])
	case "waitev":
		s.lg.waitCount(f[1], num(f[2]))
	case "yield":
		runtime.Gosched()
	case "nap":
		time.Sleep(200 * time.Microsecond)
	}
}

func (s *side) runActor(ops []string, disconnect func()) {
	for _, op := range ops {
		f := strings.Split(op, ":")
		switch f[0] {
		case "call": // call:<flags>:<method>
			s.doCall(f[1], f[2])
		case "notify":
			s.doNotify(f[1], f[2])
		case "close":
			s.doClose(false)
		case "wait":
			s.doClose(true)
		case "cancel":
			s.doCancel(parseID(f[1]))
		case "respond":
			s.doRespond(parseID(f[1]), f[2])
		case "disconnect":
			if disconnect != nil {
				disconnect()
			}
		default:
			s.miscOp(f)
		}
		s.perturb()
	}
}

// ------------------------------------------------------------------ scenario

type scenario struct {
	preA, preB bool
	real       bool
	gosched    int
	failA      map[int]bool
	failB      map[int]bool
	actorsA    [][]string
	actorsB    [][]string
	peer       []string
	bindClose  bool // Bind closes the connection before it is started
	noDisc     bool // never disconnect the peer to help Close
	unbuffered bool // real mode over net.Pipe (synchronous) instead of the buffered duplex
	timeout    time.Duration
}

// header fields: P<a><b> M<s|r> G<n> FA<k,k,..|-> FB<..> [BC]  / actor / actor // actorB / actorB  ~ peer ops
func parseScenario(line string) (*scenario, error) {
	sc := &scenario{failA: map[int]bool{}, failB: map[int]bool{}, timeout: stepTimeout}
	main, peer := line, ""
	if i := strings.Index(line, " ~ "); i >= 0 {
		main, peer = line[:i], line[i+3:]
	}
	sc.peer = strings.Fields(peer)
	ab := strings.SplitN(main, " // ", 2)
	partsA := strings.Split(ab[0], " / ")
	for _, h := range strings.Fields(partsA[0]) {
		switch {
		case strings.HasPrefix(h, "P") && len(h) == 3:
			sc.preA, sc.preB = h[1] == '1', h[2] == '1'
		case h == "Ms":
		case h == "Mr":
			sc.real = true
		case h == "Mp":
			sc.real, sc.unbuffered = true, true
		case strings.HasPrefix(h, "T"):
			sc.timeout = time.Duration(num(h[1:])) * time.Millisecond
		case strings.HasPrefix(h, "G"):
			sc.gosched = num(h[1:])
		case strings.HasPrefix(h, "FA"), strings.HasPrefix(h, "FB"):
			m := sc.failA
			if h[1] == 'B' {
				m = sc.failB
			}
			for _, k := range strings.Split(h[2:], ",") {
				if k != "-" && k != "" {
					m[num(k)] = true
				}
			}
		case h == "BC":
			sc.bindClose = true
		case h == "ND":
			sc.noDisc = true
		default:
			return nil, fmt.Errorf("bad header field %q", h)
		}
	}
	for _, a := range partsA[1:] {
		sc.actorsA = append(sc.actorsA, strings.Fields(a))
	}
	if len(ab) == 2 {
		for _, a := range strings.Split(ab[1], " / ") {
			sc.actorsB = append(sc.actorsB, strings.Fields(a))
		}
	}
	return sc, nil
}

type dialer struct{ rwc io.ReadWriteCloser }

func (d dialer) Dial(context.Context) (io.ReadWriteCloser, error) { return d.rwc, nil }

func newSide(name string, sc *scenario, pre bool, fail map[int]bool, g *gates, seed uint64) *side {
	return &side{name: name, lg: newLogger(), preempter: pre, gates: g, failWrite: fail,
		closeRet: make(chan struct{}), written: make(chan struct{}, 1), rwcClosed: make(chan struct{}), peerGone: make(chan struct{}),
		gosched: sc.gosched, rnd: seed, timeout: sc.timeout}
}

func (s *side) connect(rwc io.ReadWriteCloser, inner jsonrpc2.Framer, bindClose bool) {
	binder := jsonrpc2.BinderFunc(func(ctx context.Context, c *jsonrpc2.Connection) jsonrpc2.ConnectionOptions {
		s.conn = c
		if bindClose {
			s.doClose(false)
			<-s.closeRet
		}
		o := jsonrpc2.ConnectionOptions{Framer: framer{s, inner}, Handler: hnd{s},
			OnInternalError: func(error) { atomic.AddInt32(&s.ierrs, 1) }}
		if s.preempter {
			o.Preempter = hnd{s}
		}
		return o
	})
	jsonrpc2.Dial(context.Background(), dialer{rwc}, binder, func() { s.lg.logf("od") })
	s.lg.logf("st")
}

func waitTimeout(f func(), d time.Duration) bool {
	ch := make(chan struct{})
	go func() { f(); close(ch) }()
	select {
	case <-ch:
		return true
	case <-time.After(d):
		return false
	}
}

// finish: all actors have run; let the handlers finish, close, and check that everything returns.
// If Close does not return by itself (calls the peer never answered keep the connection busy), the
// peer disconnects -- from then on nothing the connection waits for is outstanding and Close must return.
func (s *side) finish(disconnect func()) {
	closed := false
	s.lg.mu.Lock()
	closed = s.lg.counts["xb"] > 0
	s.lg.mu.Unlock()
	if !closed {
		s.doClose(false)
	}
	select {
	case <-s.closeRet:
	case <-time.After(closeGrace):
		if atomic.LoadInt32(&s.pending) == 0 {
			// no call of ours is outstanding and every handler was released: Close has nothing to wait for
			select {
			case <-s.closeRet:
			case <-time.After(40 * closeGrace):
				s.lg.fail("close-hang(nothing outstanding)")
			}
		}
		disconnect()
		select {
		case <-s.closeRet:
		case <-time.After(s.timeout):
			s.lg.fail("close-hang")
		}
	}
	if !s.wg.waitZero(s.timeout + time.Second) {
		s.lg.fail("goroutines-stuck")
	}
}

func (s *side) oracle() {
	l := s.lg
	l.mu.Lock()
	defer l.mu.Unlock()
	reqs := map[string]int{}
	answers := map[string]int{}
	aw := map[string]int{}
	calls := 0
	for _, e := range l.events {
		f := strings.Split(e, ":")
		switch f[0] {
		case "rm":
			if f[1] == "q" && f[2] != "-" {
				reqs[f[2]]++
			}
		case "wr":
			answers[f[1]]++
		case "cr":
			calls++
		case "aw":
			aw[f[1]]++
		}
	}
	for id, n := range answers {
		if n > reqs[id] {
			l.fails = append(l.fails, fmt.Sprintf("answered-more-than-asked(id %s: %d answers, %d requests)", id, n, reqs[id]))
		}
	}
	for c, n := range aw {
		if n != 1 {
			l.fails = append(l.fails, fmt.Sprintf("await-returned-%d-times(call %s)", n, c))
		}
	}
	if len(aw) != calls && !hasPrefix(l.fails, "await-never") {
		l.fails = append(l.fails, fmt.Sprintf("await-missing(%d of %d)", len(aw), calls))
	}
	if l.counts["rc"] > 1 {
		l.fails = append(l.fails, "rwc-closed-twice")
	}
	if l.counts["od"] > 1 {
		l.fails = append(l.fails, "ondone-twice")
	}
	if int(atomic.LoadInt32(&s.ierrs)) != int(atomic.LoadInt32(&s.notFound))+int(atomic.LoadInt32(&s.badRes)) {
		l.fails = append(l.fails, fmt.Sprintf("internal-errors(%d, expected %d)", s.ierrs, s.notFound+s.badRes))
	}
}

func hasPrefix(l []string, p string) bool {
	for _, s := range l {
		if strings.HasPrefix(s, p) {
			return true
		}
	}
	return false
}

func runScenario(sc *scenario, seed uint64) (verdict, histA, histB string) {
	g := &gates{m: map[string]chan struct{}{}}
	a := newSide("A", sc, sc.preA, sc.failA, g, seed)
	var b *side
	var disconnect func()
	if sc.real {
		b = newSide("B", sc, sc.preB, sc.failB, g, seed^0x5555)
		var pa, pb io.ReadWriteCloser
		if sc.unbuffered {
			pa, pb = net.Pipe()
		} else {
			pa, pb = duplex()
		}
		var once sync.Once
		disconnect = func() { once.Do(func() { pa.Close(); pb.Close() }) }
		var wg sync.WaitGroup
		wg.Add(1)
		go func() { defer wg.Done(); b.connect(loggedRWC{pb, b}, jsonrpc2.HeaderFramer(), false) }()
		a.connect(loggedRWC{pa, a}, jsonrpc2.HeaderFramer(), sc.bindClose)
		wg.Wait()
	} else {
		a.scripted = true
		a.peer = sc.peer
		a.connect(fakeRWC{a}, nil, sc.bindClose)
	}
	var wg sync.WaitGroup
	for _, ops := range sc.actorsA {
		wg.Add(1)
		go func(ops []string) { defer wg.Done(); a.runActor(ops, disconnect) }(ops)
	}
	for _, ops := range sc.actorsB {
		wg.Add(1)
		go func(ops []string) { defer wg.Done(); b.runActor(ops, disconnect) }(ops)
	}
	if !waitTimeout(wg.Wait, 2*sc.timeout) {
		a.lg.fail("actors-stuck")
	}
	g.openAll()
	realDisc := disconnect
	if sc.noDisc {
		disconnect = func() {}
	}
	defer func() { // release whatever is still blocked on the stream
		if realDisc != nil {
			realDisc()
		}
	}()
	if b != nil {
		var w2 sync.WaitGroup
		w2.Add(1)
		go func() { defer w2.Done(); b.finish(disconnect) }()
		a.finish(disconnect)
		w2.Wait()
	} else {
		var once sync.Once
		a.finish(func() {
			if !sc.noDisc {
				once.Do(func() { close(a.peerGone) })
			}
		})
	}
	a.oracle()
	fails := a.lg.fails
	histA = "P" + b01(sc.preA) + " " + strings.Join(a.lg.events, " ")
	histB = "-"
	if b != nil {
		b.oracle()
		for _, f := range b.lg.fails {
			fails = append(fails, "B:"+f)
		}
		histB = "P" + b01(sc.preB) + " " + strings.Join(b.lg.events, " ")
	}
	if len(fails) == 0 {
		return "ok", histA, histB
	}
	return "FAIL:" + strings.Join(fails, ","), histA, histB
}

func b01(b bool) string {
	if b {
		return "1"
	}
	return "0"
}

func main() {
	seed := flag.Uint64("seed", 1, "perturbation seed")
	start := flag.Int("start", 0, "skip scenarios before this index")
	flag.Parse()
	in := bufio.NewScanner(os.Stdin)
	in.Buffer(make([]byte, 1<<20), 1<<26)
	n := -1
	nfail := 0
	for in.Scan() {
		n++
		if n < *start {
			continue
		}
		line := strings.TrimSpace(in.Text())
		fmt.Printf("BEGIN %d\n", n)
		sc, err := parseScenario(line)
		if err != nil {
			fmt.Printf("%d\tFAIL:bad-scenario(%v)\t-\t-\n", n, err)
			continue
		}
		if nfail >= 5 && sc.timeout > 600*time.Millisecond {
			sc.timeout = 600 * time.Millisecond // enough failures seen: do not wait 6 s for every further hang
		}
		v, ha, hb := runScenario(sc, *seed*1000003+uint64(n))
		if v != "ok" {
			nfail++
		}
		fmt.Printf("%d\t%s\t%s\t%s\n", n, v, ha, hb)
	}
}
