// Implementation side of C08 (compilation output is deterministic).
//
//	h_c08 -exports FILE [-reps N] [-seed S] [-shuffle] < packages.jsonl
//
// Each stdin line is a JSON object {"id":..,"files":[{"name":..,"src":..}..],"pkg":..}.  The
// package is compiled reps times in this process; with -shuffle the directory listing order
// handed to the parser is permuted differently (seeded) for every repetition.  One output line
// per package:  id TAB nvariants TAB sha(out#0) TAB kind TAB order TAB detail
// where kind is ok|err|parse|panic, order is the projection compared with the Coq model
// (top-level func names of the emitted Go in emission order) and the digests cover the bytes of
// WriteTo and the exact error strings.  Direct oracle: nvariants must be 1.
package main

import (
	"bufio"
	"crypto/sha256"
	"encoding/hex"
	"encoding/json"
	"flag"
	"fmt"
	goast "go/ast"
	goparser "go/parser"
	gotoken "go/token"
	"os"
	"regexp"
	"strings"

	"github.com/goplus/xgo/parser/fsx/memfs"
	"github.com/goplus/xgo/token"
	"github.com/goplus/xgo/x/build"

	"vh/internal/g9cl"
)

type pkgCase struct {
	ID    string      `json:"id"`
	Files []g9cl.File `json:"files"`
	Pkg   string      `json:"pkg"`
	Via   string      `json:"via"`  // "" = parser.ParseFSDir + cl.NewPackage; "build" = x/build BuildFSDir
	Reps  int         `json:"reps"` // overrides -reps when > 0
}

// viaBuild compiles through x/build.(*Context).BuildFSDir (its own package selection).
func viaBuild(exp g9cl.Exports, files []g9cl.File) (r g9cl.Result) {
	defer func() {
		if e := recover(); e != nil {
			r.Panic = fmt.Sprint(e)
		}
	}()
	names := make([]string, len(files))
	data := map[string]string{}
	for i, f := range files {
		names[i] = f.Name
		data["/foo/"+f.Name] = f.Src
	}
	fset := token.NewFileSet()
	ctx := build.NewContext(exp.Importer(fset), fset)
	out, err := ctx.BuildFSDir(memfs.New(map[string][]string{"/foo": names}, data), "/foo")
	if err != nil {
		r.Errs, r.ErrPos = g9cl.ErrList(err)
		return
	}
	r.Go = string(out)
	return
}

type sm struct{ s uint64 }

func (r *sm) next() uint64 {
	r.s += 0x9E3779B97F4A7C15
	z := r.s
	z = (z ^ (z >> 30)) * 0xBF58476D1CE4E5B9
	z = (z ^ (z >> 27)) * 0x94D049BB133111EB
	return z ^ (z >> 31)
}

func digest(r g9cl.Result) (kind, d string) {
	var b strings.Builder
	switch {
	case r.Panic != "" || r.ParserPanic != "" || r.WritePanic != "":
		kind = "panic"
		b.WriteString("PANIC " + r.Panic + r.ParserPanic + r.WritePanic)
	case r.ParseErr != "":
		kind = "parse"
		b.WriteString("PARSE " + r.ParseErr)
	case r.NoPkg:
		kind = "nopkg"
	case len(r.Errs) > 0:
		kind = "err"
		for _, e := range r.Errs {
			b.WriteString("ERR " + e + "\n")
		}
	case r.WriteErr != "":
		kind = "werr"
		b.WriteString("WERR " + r.WriteErr)
	default:
		kind = "ok"
		b.WriteString(r.Go)
	}
	h := sha256.Sum256([]byte(b.String()))
	return kind, hex.EncodeToString(h[:6])
}

// funcOrder: names of top-level funcs (Recv.Name for methods) of the emitted Go, in order.
func funcOrder(src string) string {
	f, err := goparser.ParseFile(gotoken.NewFileSet(), "out.go", src, 0)
	if err != nil {
		return "!unparsable"
	}
	var names []string
	for _, d := range f.Decls {
		if fd, ok := d.(*goast.FuncDecl); ok {
			n := fd.Name.Name
			if fd.Recv != nil && len(fd.Recv.List) == 1 {
				t := fd.Recv.List[0].Type
				if s, ok := t.(*goast.StarExpr); ok {
					t = s.X
				}
				if id, ok := t.(*goast.Ident); ok {
					n = id.Name + "." + n
				}
			}
			names = append(names, n)
		}
	}
	return strings.Join(names, ",")
}

var reRedecl = regexp.MustCompile(`^([^:]+):\d+:\d+: (\S+) redeclared in this block\n\tprevious declaration at ([^:]+):\d+:\d+$`)

// redeclProj: "E name@file<prevfile;..." when every error is a redeclaration error, else "-".
func redeclProj(errs []string) string {
	var parts []string
	for _, e := range errs {
		m := reRedecl.FindStringSubmatch(e)
		if m == nil {
			return "-"
		}
		parts = append(parts, m[2]+"@"+m[1]+"<"+m[3])
	}
	return "E " + strings.Join(parts, ";")
}

func main() {
	exportsFile := flag.String("exports", "", "import path TAB export file")
	reps := flag.Int("reps", 1, "compilations per package in this process")
	seed := flag.Uint64("seed", 1, "shuffle seed")
	shuffle := flag.Bool("shuffle", false, "permute the presentation order for each repetition")
	dump := flag.Bool("dump", false, "print the outputs of differing variants")
	flag.Parse()
	exp, err := g9cl.LoadExports(*exportsFile)
	if err != nil {
		fmt.Fprintln(os.Stderr, "exports:", err)
		os.Exit(2)
	}
	sc := bufio.NewScanner(os.Stdin)
	sc.Buffer(make([]byte, 1<<20), 1<<28)
	w := bufio.NewWriter(os.Stdout)
	defer w.Flush()
	rng := &sm{*seed}
	for sc.Scan() {
		var c pkgCase
		if err := json.Unmarshal(sc.Bytes(), &c); err != nil {
			fmt.Fprintf(w, "?\t0\t-\tbadcase\t-\t%v\n", err)
			continue
		}
		variants := map[string]int{}
		var first, firstKind, order string
		var detail []string
		n := *reps
		if c.Reps > 0 {
			n = c.Reps
		}
		for i := 0; i < n; i++ {
			files := append([]g9cl.File(nil), c.Files...)
			if *shuffle {
				for j := len(files) - 1; j > 0; j-- {
					k := int(rng.next() % uint64(j+1))
					files[j], files[k] = files[k], files[j]
				}
			}
			var r g9cl.Result
			if c.Via == "build" {
				r = viaBuild(exp, files)
			} else {
				r = g9cl.Compile(exp, files, g9cl.Options{PkgName: c.Pkg})
			}
			kind, d := digest(r)
			if i == 0 {
				first, firstKind = d, kind
				switch kind {
				case "ok":
					order = "O " + funcOrder(r.Go)
				case "err":
					order = redeclProj(r.Errs)
				default:
					order = "-"
				}
			}
			if _, seen := variants[d]; !seen && *dump {
				detail = append(detail, fmt.Sprintf("%s:%s:%q", d, kind, strings.Join(r.Errs, "\n")+r.Go+r.Panic))
			}
			variants[d]++
		}
		fmt.Fprintf(w, "%s\t%d\t%s\t%s\t%s\t%s\n", c.ID, len(variants), first, firstKind, order, strings.Join(detail, " || "))
	}
}
