// Implementation side of the C21 merge correspondence: the real printer on a synthesised call expression
// f(a0, ..., a(n-1)) whose tokens and comments carry chosen positions (printer.CommentedNode), so that the item
// stream handed to printer.print is known exactly:
//
//	f@10  (@20  a0@30  ,@50 a1@50  ,@70 a2@70 ...  )@(30+20n)        (a comma carries the position of the next argument)
//
// stdin:  n  off:kinds  off:kinds ...     one comment group per field; kinds = one letter per comment, b = /*cK*/, l = //cK
// stdout: the output as a sequence  T:<token text> | C:<comment text>   (real scanner, comments on)
package main

import (
	"bufio"
	"bytes"
	"fmt"
	"os"
	"strconv"
	"strings"

	"github.com/goplus/xgo/ast"
	"github.com/goplus/xgo/printer"
	"github.com/goplus/xgo/scanner"
	"github.com/goplus/xgo/token"
)

func run(line string) (out string) {
	defer func() {
		if e := recover(); e != nil {
			out = "PANIC " + strings.ReplaceAll(fmt.Sprint(e), "\n", " ")
		}
	}()
	f := strings.Fields(line)
	if len(f) == 0 {
		return "BADCASE"
	}
	n, err := strconv.Atoi(f[0])
	if err != nil || n < 0 || n > 20 {
		return "BADCASE"
	}
	fset := token.NewFileSet()
	size := 100 + 20*n
	file := fset.AddFile("x.xgo", fset.Base(), size) // a single line: every position is on line 1
	pos := func(off int) token.Pos { return file.Pos(off) }
	call := &ast.CallExpr{Fun: &ast.Ident{NamePos: pos(10), Name: "f"}, Lparen: pos(20), Rparen: pos(30 + 20*n)}
	for i := 0; i < n; i++ {
		call.Args = append(call.Args, &ast.Ident{NamePos: pos(30 + 20*i), Name: fmt.Sprintf("a%d", i)})
	}
	var groups []*ast.CommentGroup
	k := 0
	for _, g := range f[1:] {
		i := strings.IndexByte(g, ':')
		if i < 0 {
			return "BADCASE"
		}
		off, err := strconv.Atoi(g[:i])
		if err != nil {
			return "BADCASE"
		}
		cg := &ast.CommentGroup{}
		for j, c := range g[i+1:] {
			text := fmt.Sprintf("/*c%d*/", k)
			if c == 'l' {
				text = fmt.Sprintf("//c%d", k)
			}
			k++
			cg.List = append(cg.List, &ast.Comment{Slash: pos(off + j), Text: text})
		}
		groups = append(groups, cg)
	}
	var buf bytes.Buffer
	if err := printer.Fprint(&buf, fset, &printer.CommentedNode{Node: call, Comments: groups}); err != nil {
		return "ERROR " + err.Error()
	}
	// scan the output
	src := buf.Bytes()
	fs2 := token.NewFileSet()
	f2 := fs2.AddFile("", fs2.Base(), len(src))
	var s scanner.Scanner
	s.Init(f2, src, func(token.Position, string) {}, scanner.ScanComments)
	var items []string
	for {
		_, tok, lit := s.Scan()
		if tok == token.EOF {
			break
		}
		switch {
		case tok == token.COMMENT:
			items = append(items, "C:"+strings.TrimSpace(lit))
		case tok == token.SEMICOLON && lit == "\n":
		case tok == token.IDENT:
			items = append(items, "T:"+lit)
		default:
			items = append(items, "T:"+tok.String())
		}
	}
	return strings.Join(items, " ")
}

func main() {
	sc := bufio.NewScanner(os.Stdin)
	w := bufio.NewWriter(os.Stdout)
	defer w.Flush()
	for sc.Scan() {
		fmt.Fprintln(w, run(sc.Text()))
	}
}
