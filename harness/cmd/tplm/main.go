// Implementation side of the M-TPL correspondence (C27, C28, C29): tpl.New + Compiler.Match.
//
//	tplm -mode scan  : stdin <hex grammar text> TAB <hex input text> [TAB <retprocs>]   (retprocs: see func retprocs;
//	                   passed through to the model line as a third field)
//	                   stdout the line the model runner consumes:
//	                     [!]<grammar words> TAB <input tokens>
//	                   grammar words as for C31, literals carry the result of strconv.Unquote /
//	                   UnquoteChar:  c<hexlit>~E | c<hexlit>~C<v>:<mb>:<tail> | s<hexlit>~E | s<hexlit>~S<hex>
//	                   a leading '!' = the scanner reported errors on the grammar text;
//	                   input tokens  <tok>:<hexlit>:<pos>  exactly as Compiler.Match scans them.
//	tplm -mode compile: same stdin; stdout  PARSEERR | CERR | CPANIC | COMPILED  TAB <oracle verdict>  (tpl.New only)
//	tplm -mode match : same stdin; stdout  <result> TAB <oracle verdict>
//	                   result: PARSEERR | CERR | CPANIC | MPANIC | ok <n> <tree> | fail <n> | dyn <n> (runtime error of a RetProc)
//	                   each Match runs under a watchdog: on timeout the line "HANG" is printed and
//	                   the process exits with status 3 (the looping goroutine cannot be stopped).
//
// Oracle (the parts of C27/C29 that can be evaluated on the real result alone): no panic escapes
// tpl.New; tpl.New fails whenever ParseFile fails; on success 0 <= n <= len(tokens) and the result
// tree mentions only tokens below n, in increasing order.
package main

import (
	"bufio"
	"encoding/hex"
	"flag"
	"fmt"
	"os"
	"runtime/debug"
	"strconv"
	"strings"
	"time"

	"github.com/goplus/xgo/tpl"
	"github.com/goplus/xgo/tpl/matcher"
	"github.com/goplus/xgo/tpl/parser"
	"github.com/goplus/xgo/tpl/scanner"
	"github.com/goplus/xgo/tpl/token"
)

func hx(s string) string {
	if s == "" {
		return "-"
	}
	return hex.EncodeToString([]byte(s))
}

func grammarWords(src []byte) (ws []string, nerr int) {
	fset := token.NewFileSet()
	f := fset.AddFile("", -1, len(src))
	var s scanner.Scanner
	s.Init(f, src, func(pos token.Position, msg string) { nerr++ }, 0)
	for {
		t := s.Scan()
		if t.Tok == token.EOF {
			break
		}
		switch t.Tok {
		case token.IDENT:
			ws = append(ws, "i"+hx(t.Lit))
		case token.CHAR:
			w := "c" + hx(t.Lit) + "~"
			if len(t.Lit) < 2 {
				w += "E"
			} else if v, mb, tail, err := strconv.UnquoteChar(t.Lit[1:len(t.Lit)-1], '\''); err != nil {
				w += "E"
			} else {
				w += fmt.Sprintf("C%d:%d:%d", v, b2i(mb), b2i(tail != ""))
			}
			ws = append(ws, w)
		case token.STRING:
			w := "s" + hx(t.Lit) + "~"
			if v, err := strconv.Unquote(t.Lit); err != nil {
				w += "E"
			} else {
				w += "S" + hx(v)
			}
			ws = append(ws, w)
		case token.MUL:
			ws = append(ws, "*")
		case token.ADD:
			ws = append(ws, "+")
		case token.QUESTION:
			ws = append(ws, "?")
		case token.REM:
			ws = append(ws, "%")
		case token.INC:
			ws = append(ws, "++")
		case token.OR:
			ws = append(ws, "|")
		case token.LPAREN:
			ws = append(ws, "(")
		case token.RPAREN:
			ws = append(ws, ")")
		case token.ASSIGN:
			ws = append(ws, "=")
		case token.SEMICOLON:
			ws = append(ws, ";")
		case token.DRARROW:
			ws = append(ws, "=>")
		case token.LBRACE:
			ws = append(ws, "{")
		case token.RBRACE:
			ws = append(ws, "}")
		default:
			ws = append(ws, fmt.Sprintf("o%d", uint(t.Tok)))
		}
	}
	return
}

func b2i(b bool) int {
	if b {
		return 1
	}
	return 0
}

// the tokens Compiler.Match will see (same scanner, same file base)
func inputTokens(src []byte) (ws []string) {
	fset := token.NewFileSet()
	f := fset.AddFile("", fset.Base(), len(src))
	s := new(scanner.Scanner)
	s.Init(f, src, nil, 0)
	for {
		t := s.Scan()
		if t.Tok == token.EOF {
			break
		}
		ws = append(ws, fmt.Sprintf("%d:%s:%d", uint(t.Tok), hx(t.Lit), int(t.Pos)))
	}
	return
}

type shower struct {
	idx  map[*tpl.Token]int
	last int
	bad  string
	n    int
}

func (p *shower) show(r any) string {
	switch v := r.(type) {
	case nil:
		return "N"
	case *tpl.Token:
		i, ok := p.idx[v]
		if !ok {
			p.bad = "result-token-not-from-input"
			return "T?"
		}
		if i <= p.last {
			p.bad = "result-tokens-out-of-order"
		}
		if i >= p.n {
			p.bad = "result-token-beyond-n"
		}
		p.last = i
		return "T" + strconv.Itoa(i)
	case []any:
		var sb strings.Builder
		sb.WriteString("[")
		for _, x := range v {
			sb.WriteString(" " + p.show(x))
		}
		sb.WriteString(" ]")
		return sb.String()
	case string:
		if v == "W" { // the tag of the "wrap" rewriter
			return "W"
		}
	}
	p.bad = fmt.Sprintf("unexpected-result-type-%T", r)
	return "?"
}

// result rewriters (RetProcs) installed through tpl.New:  <rule>=<kind>[:<hex literal>], comma separated
//   id  wrap  rejdyn:<lit> (panics with a string -> runtime "Dyn" error)  rejerr:<lit> (panics with a non-Dyn *matcher.Error)
//   boom (always panics with a string)
func retprocs(spec string) (params []any) {
	if spec == "" || spec == "-" {
		return nil
	}
	for _, item := range strings.Split(spec, ",") {
		kv := strings.SplitN(item, "=", 2)
		if len(kv) != 2 {
			continue
		}
		kind, arg := kv[1], ""
		if j := strings.IndexByte(kind, ':'); j >= 0 {
			b, _ := hex.DecodeString(kind[j+1:])
			kind, arg = kind[:j], string(b)
		}
		var fn func(self any) any
		switch kind {
		case "id":
			fn = func(self any) any { return self }
		case "wrap":
			fn = func(self any) any { return []any{"W", self} }
		case "rejdyn":
			fn = func(self any) any {
				if t, ok := self.(*tpl.Token); ok && t.Lit == arg {
					panic("rejected " + arg)
				}
				return self
			}
		case "boom":
			fn = func(self any) any { panic("boom") }
		case "rejerr":
			fn = func(self any) any {
				if t, ok := self.(*tpl.Token); ok && t.Lit == arg {
					panic(&matcher.Error{Pos: t.Pos, Msg: "rejected " + arg})
				}
				return self
			}
		default:
			continue
		}
		params = append(params, kv[0], fn)
	}
	return
}

func compile(g []byte, rps string) (c tpl.Compiler, status string, verdict string) {
	verdict = "ok"
	defer func() {
		if e := recover(); e != nil {
			status, verdict = "CPANIC", "compile-panic:"+fmt.Sprint(e)
		}
	}()
	_, perr := parser.ParseFile(token.NewFileSet(), "", g, nil)
	c, err := tpl.New(g, retprocs(rps)...)
	if perr != nil {
		if err == nil {
			return c, "PARSEERR", "tpl.New-accepts-unparsable-grammar"
		}
		return c, "PARSEERR", verdict
	}
	if err != nil {
		return c, "CERR", verdict
	}
	return c, "", verdict
}

func match(c *tpl.Compiler, in []byte) (out string, verdict string) {
	verdict = "ok"
	defer func() {
		if e := recover(); e != nil {
			out, verdict = "MPANIC", "match-panic:"+fmt.Sprint(e)
		}
	}()
	ms, result, err := c.Match("", in, nil)
	if err != nil {
		if e, ok := err.(*matcher.Error); ok && e.Dyn {
			return fmt.Sprintf("dyn %d", ms.N), verdict
		}
		return fmt.Sprintf("fail %d", ms.N), verdict
	}
	sh := &shower{idx: map[*tpl.Token]int{}, last: -1, n: ms.N}
	for i, t := range ms.Toks {
		sh.idx[t] = i
	}
	tree := sh.show(result)
	if ms.N < 0 || ms.N > len(ms.Toks) {
		verdict = "n-out-of-range"
	} else if sh.bad != "" {
		verdict = sh.bad
	}
	return fmt.Sprintf("ok %d %s", ms.N, tree), verdict
}

func main() {
	mode := flag.String("mode", "match", "scan | compile | match")
	wd := flag.Duration("watchdog", 4*time.Second, "per-case limit of Compiler.Match")
	flag.Parse()
	debug.SetMaxStack(256 << 20)
	tpl.ShowConflict(false)
	sc := bufio.NewScanner(os.Stdin)
	sc.Buffer(make([]byte, 1<<22), 1<<22)
	w := bufio.NewWriter(os.Stdout)
	defer w.Flush()
	for sc.Scan() {
		f := strings.Split(sc.Text(), "\t")
		g, _ := hex.DecodeString(f[0])
		var in []byte
		if len(f) > 1 {
			in, _ = hex.DecodeString(f[1])
		}
		rps := ""
		if len(f) > 2 {
			rps = f[2]
		}
		if *mode == "scan" {
			ws, nerr := grammarWords(g)
			pre := ""
			if nerr > 0 {
				pre = "!"
			}
			fmt.Fprintf(w, "%s%s\t%s\t%s\n", pre, strings.Join(ws, " "), strings.Join(inputTokens(in), " "), rps)
			continue
		}
		c, status, verdict := compile(g, rps)
		if status != "" {
			fmt.Fprintf(w, "%s\t%s\n", status, verdict)
			continue
		}
		if *mode == "compile" {
			fmt.Fprintf(w, "COMPILED\t%s\n", verdict)
			continue
		}
		type res struct{ out, verdict string }
		ch := make(chan res, 1)
		go func() {
			o, v := match(&c, in)
			ch <- res{o, v}
		}()
		select {
		case r := <-ch:
			fmt.Fprintf(w, "%s\t%s\n", r.out, r.verdict)
		case <-time.After(*wd):
			fmt.Fprintf(w, "HANG\tmatch-does-not-terminate\n")
			w.Flush()
			os.Exit(3)
		}
	}
}
