// Implementation side of the C18 correspondence and direct oracle.
//
//	h_c18 -structs aststructs.json learn        dynamic table learning (JSON on stdout)
//	h_c18 -structs aststructs.json run < cases  one result line per case line
//
// case lines (TAB separated):
//
//	file   <path> <prune>                  parse the file (kind by extension), walk the tree
//	synth  <seed> <depth> <mal> <prune>    random tree of a random kind
//	kind   <Kind> <full|noopt|rand:seed> <prune>   deterministic tree of the given kind
//
// result line:  <tree export> TAB <events> TAB <oracle verdict> TAB <info>
// events: "<id>@<depth>" for Visit(node) with the visitor of that depth, ".@<depth>" for
// Visit(nil) on the visitor returned for depth-1 nodes; "PANIC" if Walk panicked.
// The visitor prunes (returns nil) at nodes with id % prune == prune-1 (prune 0: never);
// with prune 0 the walk is done through ast.Inspect, otherwise through ast.Walk.
package main

import (
	"bufio"
	"encoding/json"
	"flag"
	"fmt"
	"os"
	"path/filepath"
	"reflect"
	"sort"
	"strconv"
	"strings"

	"vh/internal/astx"

	"github.com/goplus/xgo/ast"
	"github.com/goplus/xgo/parser"
	"github.com/goplus/xgo/token"
)

type ev struct {
	id    int // -1 = Visit(nil)
	depth int
}

type visitor struct {
	depth int
	rec   *recorder
}

type recorder struct {
	ex     *astx.Exporter
	prune  int
	events []ev
	nodes  []ast.Node // visited, parallel to the Visit(node) events
}

func (v visitor) Visit(n ast.Node) ast.Visitor {
	r := v.rec
	if n == nil {
		r.events = append(r.events, ev{-1, v.depth})
		return nil
	}
	id, ok := r.ex.ID(n)
	if !ok {
		id = -2 // a node the reflection export never reached
	}
	r.events = append(r.events, ev{id, v.depth})
	r.nodes = append(r.nodes, n)
	if r.prune > 0 && id%r.prune == r.prune-1 {
		return nil
	}
	return visitor{v.depth + 1, r}
}

func fmtEvents(es []ev) string {
	var sb strings.Builder
	for i, e := range es {
		if i > 0 {
			sb.WriteByte(' ')
		}
		if e.id == -1 {
			sb.WriteString(".@" + strconv.Itoa(e.depth))
		} else {
			sb.WriteString(strconv.Itoa(e.id) + "@" + strconv.Itoa(e.depth))
		}
	}
	return sb.String()
}

// walkReal runs the real traversal; panics are a result.
func walkReal(root ast.Node, r *recorder) (panicked string) {
	defer func() {
		if e := recover(); e != nil {
			panicked = fmt.Sprint(e)
		}
	}()
	if r.prune == 0 {
		// ast.Inspect with a closure that tracks the depth itself
		depth := 0
		ast.Inspect(root, func(n ast.Node) bool {
			if n == nil {
				r.events = append(r.events, ev{-1, depth})
				depth--
				return false
			}
			id, ok := r.ex.ID(n)
			if !ok {
				id = -2
			}
			r.events = append(r.events, ev{id, depth})
			r.nodes = append(r.nodes, n)
			depth++
			return true
		})
		return ""
	}
	ast.Walk(visitor{0, r}, root)
	return ""
}

// expected sequence by reflection-based child enumeration: the property evaluated directly
func expect(n ast.Node, depth int, ex *astx.Exporter, prune int, out *[]ev, seen map[ast.Node]int) {
	id, _ := ex.ID(n)
	*out = append(*out, ev{id, depth})
	seen[n]++
	if prune > 0 && id%prune == prune-1 {
		return
	}
	for _, c := range astx.Children(n) {
		expect(c.Node, depth+1, ex, prune, out, seen)
	}
	*out = append(*out, ev{-1, depth + 1})
}

// source order of siblings by position (parsed trees only): children with valid positions
// must be visited in non-decreasing Pos order.  FuncDecl.Type starts at the "func" keyword
// (go/ast convention) although its parameters follow Recv and Name: it is compared by Params.
func posOrder(n ast.Node) string {
	var last token.Pos
	for _, c := range astx.Children(n) {
		p := c.Node.Pos()
		if ft, ok := c.Node.(*ast.FuncType); ok {
			if _, isDecl := n.(*ast.FuncDecl); isDecl && ft.Params != nil {
				p = ft.Params.Pos()
			}
		}
		if !p.IsValid() {
			continue
		}
		if p < last {
			return fmt.Sprintf("%s.%s at %d after %d", astx.KindName(n), c.Path, p, last)
		}
		last = p
	}
	return ""
}

func sameEvents(a, b []ev) bool {
	if len(a) != len(b) {
		return false
	}
	for i := range a {
		if a[i] != b[i] {
			return false
		}
	}
	return true
}

// a Package's files are walked in map order: compare the file blocks as a sorted set
func canonPackage(es []ev) []ev {
	if len(es) < 2 {
		return es
	}
	body := es[1 : len(es)-1]
	var blocks [][]ev
	for i := 0; i < len(body); {
		j := i + 1
		for j < len(body) && !(body[j].depth == 1 && body[j].id >= 0) {
			j++
		}
		blocks = append(blocks, body[i:j])
		i = j
	}
	sort.SliceStable(blocks, func(a, b int) bool { return blocks[a][0].id < blocks[b][0].id })
	out := []ev{es[0]}
	for _, b := range blocks {
		out = append(out, b...)
	}
	return append(out, es[len(es)-1])
}

type result struct {
	tree, events, verdict, info string
}

func runTree(root ast.Node, prune int, parsed bool) result {
	ex := astx.NewExporter()
	tree := ex.Export(root)
	r := &recorder{ex: ex, prune: prune}
	p := walkReal(root, r)
	var want []ev
	seen := map[ast.Node]int{}
	wantPanic := func() (s string) {
		defer func() {
			if e := recover(); e != nil {
				s = fmt.Sprint(e)
			}
		}()
		expect(root, 0, ex, prune, &want, seen)
		return ""
	}()
	if _, isPkg := root.(*ast.Package); isPkg && p == "" {
		r.events = canonPackage(r.events)
	}
	res := result{tree: tree}
	if p != "" {
		res.events = "PANIC"
		res.verdict = "panic: " + p
		res.info = "panic"
		return res
	}
	res.events = fmtEvents(r.events)
	verdict := "ok"
	if wantPanic != "" {
		verdict = "oracle-panic: " + wantPanic
	} else if !sameEvents(r.events, want) {
		// name the first difference
		i := 0
		for i < len(want) && i < len(r.events) && want[i] == r.events[i] {
			i++
		}
		at := func(es []ev) string {
			if i < len(es) {
				if es[i].id < 0 {
					return "Visit(nil)"
				}
				if es[i].id < len(ex.Nodes) {
					return fmt.Sprintf("%s#%d", astx.KindName(ex.Nodes[es[i].id]), es[i].id)
				}
				return fmt.Sprint(es[i].id)
			}
			return "end"
		}
		verdict = fmt.Sprintf("sequence differs from the child enumeration at event %d: visited %s, expected %s", i, at(r.events), at(want))
	} else {
		for n, c := range seen {
			if c != 1 {
				verdict = fmt.Sprintf("node %s reached %d times (shared node)", astx.KindName(n), c)
			}
		}
		if parsed && verdict == "ok" && prune == 0 {
			for _, n := range r.nodes {
				if w := posOrder(n); w != "" {
					verdict = "children not in source order: " + w
					break
				}
			}
		}
	}
	res.verdict = verdict
	res.info = fmt.Sprintf("nodes=%d", len(ex.Nodes))
	return res
}

func classKind(fname string) (isProj, ok bool) {
	ext := filepath.Ext(fname)
	switch ext {
	case ".spx", ".tspx":
		return strings.HasPrefix(fname, "main."), true
	case ".gsh", ".gmx", ".tgmx":
		return true, true
	}
	return false, true
}

func parseFile(path string) (f *ast.File, err error, panicked string) {
	defer func() {
		if e := recover(); e != nil {
			panicked = fmt.Sprint(e)
		}
	}()
	fset := token.NewFileSet()
	mode := parser.ParseComments
	if strings.HasSuffix(path, ".go") {
		f, err = parser.ParseFile(fset, path, nil, mode|parser.ParseGoAsGoPlus)
		return
	}
	f, err = parser.ParseEntry(fset, path, nil, parser.Config{Mode: mode, ClassKind: classKind})
	return
}

func main() {
	structs := flag.String("structs", "", "aststructs.json of the translator")
	flag.Parse()
	S, err := astx.LoadStructs(*structs)
	if err != nil {
		fmt.Fprintln(os.Stderr, "h_c18:", err)
		os.Exit(2)
	}
	if err := astx.CheckRegistry(S); err != nil {
		fmt.Fprintln(os.Stderr, "h_c18: kind registry out of date:", err)
		os.Exit(3)
	}
	switch flag.Arg(0) {
	case "learn":
		learn(S)
	case "run":
		run(S)
	default:
		fmt.Fprintln(os.Stderr, "usage: h_c18 -structs f learn|run")
		os.Exit(2)
	}
}

func run(S *astx.Structs) {
	in := bufio.NewReaderSize(os.Stdin, 1<<20)
	out := bufio.NewWriterSize(os.Stdout, 1<<20)
	defer out.Flush()
	for {
		line, err := in.ReadString('\n')
		line = strings.TrimRight(line, "\n")
		if line != "" {
			f := strings.Split(line, "\t")
			var res result
			switch f[0] {
			case "file":
				prune, _ := strconv.Atoi(f[2])
				file, perr, pp := parseFile(f[1])
				if pp != "" || file == nil {
					res = result{tree: "-", events: "-", verdict: "ok", info: "noparse"}
					if pp != "" {
						res.info = "parser-panic"
					}
				} else {
					res = runTree(file, prune, perr == nil)
					if perr != nil {
						res.info += " parse-errors"
					}
				}
			case "synth":
				seed, _ := strconv.ParseUint(f[1], 10, 64)
				depth, _ := strconv.Atoi(f[2])
				prune, _ := strconv.Atoi(f[4])
				g := astx.NewGen(S, astx.NewRng(seed))
				g.Mal = f[3] == "1"
				res = runTree(g.Tree(depth), prune, false)
				if g.Mal {
					res.info += " malformed"
				}
			case "kind":
				prune, _ := strconv.Atoi(f[3])
				g := astx.NewGen(S, astx.NewRng(7))
				switch {
				case f[2] == "full":
					g.Full = true
				case f[2] == "noopt":
					g.NoOpt = true
				default:
					seed, _ := strconv.ParseUint(strings.TrimPrefix(f[2], "rand:"), 10, 64)
					g = astx.NewGen(S, astx.NewRng(seed))
				}
				res = runTree(g.Kind(f[1], 2).Interface().(ast.Node), prune, false)
			default:
				res = result{tree: "-", events: "-", verdict: "bad-case", info: ""}
			}
			fmt.Fprintf(out, "%s\t%s\t%s\t%s\n", res.tree, res.events, res.verdict, res.info)
		}
		if err != nil {
			break
		}
	}
}

// ---- dynamic table learning ----
//
// For every kind and every assignment of its bool fields and record kinds: a node whose every
// child slot holds marker nodes is walked by the real Walk; the visited markers, mapped back
// to their slots, give the walked fields in order.  Then each optional child is removed in
// turn (and all at once) to learn that the walk is guarded.

type learned struct {
	Kind    string            `json:"kind"`
	Flags   map[string]bool   `json:"flags"`
	Recs    map[string]string `json:"recs"`    // record field -> record kind ("" = nil, "foreign")
	Visited []string          `json:"visited"` // slot paths in visit order (direct children only)
	Panic   string            `json:"panic,omitempty"`
	Variant string            `json:"variant"` // full | nil:<field> | noopt
}

func directVisits(root ast.Node) (paths []string, panicked string) {
	slots := map[ast.Node]string{}
	for _, c := range astx.ChildrenAll(root) {
		slots[c.Node] = c.Path
	}
	defer func() {
		if e := recover(); e != nil {
			panicked = fmt.Sprint(e)
		}
	}()
	first := true
	ast.Inspect(root, func(n ast.Node) bool {
		if n == nil {
			return false
		}
		if first {
			first = false
			return true
		}
		if p, ok := slots[n]; ok {
			paths = append(paths, p)
		} else {
			paths = append(paths, "?"+astx.KindName(n))
		}
		return false
	})
	return
}

func learn(S *astx.Structs) {
	var all []learned
	for _, k := range S.NodeOrder {
		fields := S.Nodes[k]
		var bools, recs, opts []string
		recKinds := map[string][]string{}
		for _, f := range fields {
			switch f.Class {
			case "Bool":
				bools = append(bools, f.Name)
			case "Rec":
				recs = append(recs, f.Name)
				ks := append([]string{}, f.Kinds...)
				ks = append(ks, "")
				recKinds[f.Name] = ks
			case "Node":
				if f.Opt {
					opts = append(opts, f.Name)
				}
			}
		}
		nb := 1 << len(bools)
		for mask := 0; mask < nb; mask++ {
			flags := map[string]bool{}
			for i, b := range bools {
				flags[b] = mask&(1<<i) != 0
			}
			// record assignments: one record field at most per kind in practice; enumerate the product
			assign := []map[string]string{{}}
			for _, rf := range recs {
				var next []map[string]string
				for _, a := range assign {
					for _, rk := range recKinds[rf] {
						m := map[string]string{}
						for x, y := range a {
							m[x] = y
						}
						m[rf] = rk
						next = append(next, m)
					}
				}
				assign = next
			}
			for _, ra := range assign {
				variants := []string{"full", "noopt"}
				for _, o := range opts {
					variants = append(variants, "nil:"+o)
				}
				for _, variant := range variants {
					g := astx.NewGen(S, astx.NewRng(11))
					g.Full = true
					root := g.Kind(k, 1)
					sv := root.Elem()
					for b, val := range flags {
						sv.FieldByName(b).SetBool(val)
					}
					for rf, rk := range ra {
						fv := sv.FieldByName(rf)
						if rk == "" {
							fv.Set(reflect.Zero(fv.Type()))
							continue
						}
						rv := reflect.New(astx.RecType(rk).Elem())
						g.FillRec(rv.Elem(), rk, 1)
						fv.Set(rv)
					}
					switch {
					case variant == "noopt":
						for _, o := range opts {
							fv := sv.FieldByName(o)
							fv.Set(reflect.Zero(fv.Type()))
						}
					case strings.HasPrefix(variant, "nil:"):
						fv := sv.FieldByName(variant[4:])
						fv.Set(reflect.Zero(fv.Type()))
					}
					paths, p := directVisits(root.Interface().(ast.Node))
					all = append(all, learned{Kind: k, Flags: flags, Recs: ra, Visited: paths, Panic: p, Variant: variant})
				}
			}
		}
	}
	enc := json.NewEncoder(os.Stdout)
	enc.Encode(all)
}
