package main

// Grammar-based generator of Go source files for C37: declarations with generics, 3-index
// slices, function literals in values, channel directions, struct tags, ellipsis parameters,
// union constraints, grouped and single specs.  Mostly valid syntax; about one file in ten is
// damaged on purpose (malformed stream: the partial tree then contains Bad* nodes).

import (
	"fmt"
	"strings"

	"vh/internal/astx"
)

type srcGen struct {
	r *astx.Rng
	n int
}

func (g *srcGen) pick(xs ...string) string { return xs[g.r.Intn(len(xs))] }
func (g *srcGen) id() string {
	g.n++
	return fmt.Sprintf("%s%d", g.pick("a", "b", "x", "T", "Val", "fn"), g.n)
}

func (g *srcGen) typ(d int) string {
	if d <= 0 {
		return g.pick("int", "string", "error", "T", "any", "pkg.Name", "byte", "float64")
	}
	switch g.r.Intn(16) {
	case 0:
		return "[]" + g.typ(d-1)
	case 1:
		return fmt.Sprintf("[%d]%s", g.r.Intn(9), g.typ(d-1))
	case 2:
		return "*" + g.typ(d-1)
	case 3:
		return fmt.Sprintf("map[%s]%s", g.typ(0), g.typ(d-1))
	case 4:
		return g.pick("chan ", "<-chan ", "chan<- ") + g.typ(d-1)
	case 5:
		return "func" + g.sig(d-1)
	case 6:
		return g.structType(d - 1)
	case 7:
		return g.ifaceType(d - 1)
	case 8:
		return fmt.Sprintf("P[%s, %s]", g.typ(d-1), g.typ(0))
	case 9:
		return fmt.Sprintf("G[%s]", g.typ(d-1))
	case 10:
		return "(" + g.typ(d-1) + ")"
	case 11:
		return "[...]" + g.typ(0)
	default:
		return g.typ(0)
	}
}

func (g *srcGen) params(d int, variadic bool) string {
	n := g.r.Intn(4)
	var ps []string
	named := g.r.Intn(2) == 0
	for i := 0; i < n; i++ {
		t := g.typ(d)
		if variadic && i == n-1 && g.r.Intn(2) == 0 {
			t = "..." + t
		}
		switch {
		case !named:
			ps = append(ps, t)
		case g.r.Intn(3) == 0 && !strings.HasPrefix(t, "..."):
			ps = append(ps, g.id()+", "+g.id()+" "+t)
		default:
			ps = append(ps, g.id()+" "+t)
		}
	}
	return "(" + strings.Join(ps, ", ") + ")"
}

func (g *srcGen) sig(d int) string {
	s := g.params(d, true)
	switch g.r.Intn(4) {
	case 0:
		s += " " + g.typ(d)
	case 1:
		s += " " + g.params(d, false)
	case 2:
		s += " (r " + g.typ(d) + ", err error)"
	}
	return s
}

func (g *srcGen) structType(d int) string {
	n := g.r.Intn(4)
	var fs []string
	for i := 0; i < n; i++ {
		switch g.r.Intn(5) {
		case 0:
			// embedded field (plain, pointer, qualified, instantiated), with or without a tag
			fs = append(fs, g.pick("T", "*T", "pkg.Name", "*pkg.Name", "G[int]")+g.pick("", "", " `json:\",inline\"`", " \"tag\""))
		case 1:
			fs = append(fs, g.id()+", "+g.id()+" "+g.typ(d))
		case 2:
			fs = append(fs, g.id()+" "+g.typ(d)+" `json:\"x,omitempty\"`")
		case 3:
			fs = append(fs, g.id()+" "+g.typ(d)+" \"tag\"")
		default:
			fs = append(fs, g.id()+" "+g.typ(d))
		}
	}
	return "struct{ " + strings.Join(fs, "; ") + " }"
}

func (g *srcGen) ifaceType(d int) string {
	n := g.r.Intn(4)
	var ms []string
	for i := 0; i < n; i++ {
		switch g.r.Intn(5) {
		case 0:
			ms = append(ms, g.pick("~int | ~string", "int | float64", "~[]byte", "comparable", "fmt.Stringer"))
		default:
			ms = append(ms, g.id()+g.sig(d))
		}
	}
	return "interface{ " + strings.Join(ms, "; ") + " }"
}

func (g *srcGen) expr(d int) string {
	if d <= 0 {
		return g.pick("x", "1", "0x7f", "3.14", "2i", "'c'", `"s"`, "`raw`", "nil", "true", "iota", "pkg.V")
	}
	switch g.r.Intn(22) {
	case 0:
		return g.expr(d-1) + g.pick(" + ", " - ", " * ", " << ", " && ", " == ", " &^ ", " | ") + g.expr(d-1)
	case 1:
		return g.pick("-", "!", "^", "+", "&", "<-", "*") + g.expr(d-1)
	case 2:
		return g.expr(d-1) + "[" + g.expr(d-1) + "]"
	case 3:
		return g.expr(d-1) + "[" + g.expr(0) + ":" + g.expr(0) + "]"
	case 4:
		return g.expr(d-1) + "[" + g.pick("", "1") + ":" + g.expr(0) + ":" + g.expr(0) + "]"
	case 5:
		return g.expr(d-1) + ".(" + g.typ(d-1) + ")"
	case 6:
		return "f(" + g.expr(d-1) + ", " + g.expr(d-1) + g.pick("", "...") + ")"
	case 7:
		return g.typ(1) + "{" + g.expr(d-1) + ", " + g.expr(d-1) + "}"
	case 8:
		return "[]" + g.typ(0) + "{" + g.expr(d-1) + "}"
	case 9:
		return "map[string]" + g.typ(0) + "{\"k\": " + g.expr(d-1) + "}"
	case 10:
		return "&T{A: " + g.expr(d-1) + ", B: " + g.expr(d-1) + "}"
	case 11:
		return "func" + g.sig(1) + " { return }"
	case 12:
		return "func(x int) int { y := x + 1; return y }(" + g.expr(d-1) + ")"
	case 13:
		return "(" + g.expr(d-1) + ")"
	case 14:
		return g.expr(d-1) + "." + g.id()
	case 15:
		return "P[int, string]{" + g.expr(d-1) + "}"
	case 16:
		return "G[" + g.typ(1) + "](" + g.expr(d-1) + ")"
	case 17:
		return "F[int, " + g.typ(0) + "](" + g.expr(d-1) + ")"
	case 18:
		return "[...]int{1, 2: " + g.expr(0) + "}"
	case 19:
		return "struct{ A int }{" + g.expr(0) + "}"
	default:
		return g.expr(0)
	}
}

func (g *srcGen) tparams() string {
	if g.r.Intn(2) == 0 {
		return ""
	}
	return "[" + g.pick("T any", "T, U any", "K comparable, V interface{ ~int | ~string }", "T interface{ M() }", "S ~[]E, E any") + "]"
}

func (g *srcGen) valueSpec(kw string, d int) string {
	switch g.r.Intn(5) {
	case 0:
		return g.id() + " = " + g.expr(d)
	case 1:
		return g.id() + " " + g.typ(d) + " = " + g.expr(d)
	case 2:
		if g.r.Intn(2) == 0 {
			return g.id() + ", " + g.id() + ", " + g.id() + " = " + g.expr(d) + ", " + g.expr(d) + ", " + g.expr(d)
		}
		return g.id() + ", " + g.id() + " = " + g.expr(d) + ", " + g.expr(d)
	case 3:
		if kw == "var" {
			return g.id() + ", " + g.id() + " " + g.typ(d)
		}
		return g.id()
	default:
		return g.id() + " " + g.typ(0) + " = " + g.expr(d)
	}
}

func (g *srcGen) decl(d int) string {
	switch g.r.Intn(10) {
	case 0, 1:
		kw := g.pick("const", "var")
		if g.r.Intn(2) == 0 {
			return kw + " " + g.valueSpec("var", d)
		}
		var ss []string
		for i := g.r.Intn(4); i >= 0; i-- {
			ss = append(ss, "\t"+g.valueSpec(kw, d))
		}
		return kw + " (\n" + strings.Join(ss, "\n") + "\n)"
	case 2, 3:
		switch g.r.Intn(4) {
		case 0:
			return "type " + g.id() + " = " + g.typ(d)
		case 1:
			return "type (\n\t" + g.id() + g.tparams() + " " + g.typ(d) + "\n\t" + g.id() + " " + g.typ(d) + "\n)"
		default:
			return "type " + g.id() + g.tparams() + " " + g.typ(d)
		}
	case 4, 5, 6:
		body := " {\n\tx := 1\n\t_ = x\n\treturn\n}"
		if g.r.Intn(6) == 0 {
			body = ""
		}
		return "func " + g.id() + g.tparams() + g.sig(d) + body
	case 7, 8:
		recv := g.pick("(r T)", "(r *T)", "(T)", "(r *G[K])", "(r P[K, V])", "(*T)")
		return "func " + recv + " " + g.id() + g.sig(d) + " {}"
	default:
		return "// a comment\n/* block */ var " + g.id() + " " + g.typ(d) + " // trailing"
	}
}

func genSource(r *astx.Rng) string {
	g := &srcGen{r: r}
	var sb strings.Builder
	sb.WriteString("// Package doc.\npackage " + g.pick("p", "main", "gen") + "\n\n")
	switch r.Intn(4) {
	case 0:
		sb.WriteString("import \"fmt\"\n\n")
	case 1:
		sb.WriteString("import (\n\t\"fmt\"\n\tpkg \"example.com/pkg\"\n\t. \"math\"\n\t_ \"embed\"\n)\n\n")
	case 2:
		sb.WriteString("import pkg \"example.com/pkg\" // why\n\n")
	}
	n := 1 + r.Intn(8)
	for i := 0; i < n; i++ {
		sb.WriteString(g.decl(1+r.Intn(3)) + "\n\n")
	}
	s := sb.String()
	if r.Intn(10) == 0 && len(s) > 40 { // malformed stream: drop a random slice of the text
		a := 20 + r.Intn(len(s)-30)
		b := a + 1 + r.Intn(8)
		if b > len(s) {
			b = len(s)
		}
		s = s[:a] + s[b:]
	}
	return s
}
