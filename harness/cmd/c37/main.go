// Implementation side of the C37 correspondence and direct oracle.
//
//	h_c37 -gostructs goaststructs.json run < cases
//
// case lines (TAB separated):   file <path>   |   gen <seed>   |   src <hex of a Go source>
// result line:  <export of the parsed Go file> TAB <export of togo(fromgo(file)) | PANIC> TAB <verdict> TAB <info>
//
// verdict (direct oracle, the property itself): for every declaration, go/printer of the converted
// declaration == go/printer of the original declaration reduced to its header (comments removed,
// bodies of functions and function literals emptied, resolved objects dropped); and the package
// clause.  "ok" | "panic: ..." | "decl <i>: header differs: <orig> vs <converted>" | "noparse"
package main

import (
	"bufio"
	"bytes"
	"encoding/hex"
	"flag"
	"fmt"
	"go/ast"
	"go/parser"
	"go/printer"
	"go/token"
	"os"
	"reflect"
	"strconv"
	"strings"

	"vh/internal/astx"

	"github.com/goplus/xgo/ast/fromgo"
	"github.com/goplus/xgo/ast/togo"
)

// header: an independent deep copy of a declaration keeping only what a header is
func header(v reflect.Value) reflect.Value {
	switch v.Kind() {
	case reflect.Ptr:
		if v.IsNil() {
			return v
		}
		if _, ok := v.Interface().(*ast.Object); ok {
			return reflect.Zero(v.Type())
		}
		if _, ok := v.Interface().(*ast.Scope); ok {
			return reflect.Zero(v.Type())
		}
		if v.Elem().Kind() != reflect.Struct {
			return v
		}
		out := reflect.New(v.Type().Elem())
		st := v.Type().Elem()
		_, isFuncDecl := v.Interface().(*ast.FuncDecl)
		_, isFuncLit := v.Interface().(*ast.FuncLit)
		for i := 0; i < st.NumField(); i++ {
			name := st.Field(i).Name
			switch {
			case name == "Doc" || name == "Comment":
				continue
			case name == "Body" && (isFuncDecl || isFuncLit):
				out.Elem().Field(i).Set(reflect.ValueOf(&ast.BlockStmt{}))
				continue
			}
			out.Elem().Field(i).Set(header(v.Elem().Field(i)))
		}
		return out
	case reflect.Interface:
		if v.IsNil() {
			return v
		}
		r := header(v.Elem())
		out := reflect.New(v.Type()).Elem()
		out.Set(r)
		return out
	case reflect.Slice:
		if v.IsNil() {
			return v
		}
		out := reflect.MakeSlice(v.Type(), v.Len(), v.Len())
		for i := 0; i < v.Len(); i++ {
			out.Index(i).Set(header(v.Index(i)))
		}
		return out
	}
	return v
}

func show(fset *token.FileSet, n any) string {
	var b bytes.Buffer
	cfg := printer.Config{Mode: printer.UseSpaces | printer.TabIndent, Tabwidth: 8}
	if err := cfg.Fprint(&b, fset, n); err != nil {
		return "PRINT-ERROR " + err.Error()
	}
	return b.String()
}

type result struct{ orig, conv, verdict, info string }

func runFile(fset *token.FileSet, f *ast.File) (res result) {
	ex := astx.NewExporterFor(astx.GoAST)
	ex.ElideBodies = true
	ex.NilSlices = true
	res.orig = ex.Export(f)
	res.info = fmt.Sprintf("decls=%d nodes=%d", len(f.Decls), len(ex.Nodes))
	var g2 *ast.File
	p := func() (s string) {
		defer func() {
			if e := recover(); e != nil {
				s = strings.TrimSpace(fmt.Sprint(e))
			}
		}()
		g2 = togo.ASTFile(fromgo.ASTFile(f, 0), 0)
		return ""
	}()
	if p != "" {
		res.conv = "PANIC"
		res.verdict = "panic: " + p
		return
	}
	ex2 := astx.NewExporterFor(astx.GoAST)
	ex2.ZeroIDs = true
	ex2.NilSlices = true
	res.conv = ex2.Export(g2)
	res.verdict = "ok"
	if g2.Name == nil || f.Name == nil || g2.Name.Name != f.Name.Name {
		res.verdict = "package name differs"
		return
	}
	if len(g2.Decls) != len(f.Decls) {
		res.verdict = fmt.Sprintf("%d declarations became %d", len(f.Decls), len(g2.Decls))
		return
	}
	for i, d := range f.Decls {
		h := header(reflect.ValueOf(d)).Interface()
		a, b := show(fset, h), show(fset, g2.Decls[i])
		if a != b {
			// root cause R1 (known finding): unnamed fields come back with a non-nil empty Names slice, which
			// go/printer tells from nil (a single unnamed result gets parentheses).  Only if undoing exactly
			// that makes the texts equal is the difference attributed to R1.
			ast.Inspect(g2.Decls[i], func(n ast.Node) bool {
				if fl, ok := n.(*ast.Field); ok && fl.Names != nil && len(fl.Names) == 0 {
					fl.Names = nil
				}
				return true
			})
			if c := show(fset, g2.Decls[i]); c == a {
				res.verdict = fmt.Sprintf("nonnil-names: decl %d: %q vs %q", i, clip(a), clip(b))
			} else {
				res.verdict = fmt.Sprintf("decl %d: header differs: %q vs %q", i, clip(a), clip(b))
			}
			return
		}
	}
	return
}

func clip(s string) string {
	if len(s) > 300 {
		return s[:300] + "..."
	}
	return s
}

func parse(fset *token.FileSet, name string, src any) (f *ast.File, err error, panicked string) {
	defer func() {
		if e := recover(); e != nil {
			panicked = fmt.Sprint(e)
		}
	}()
	f, err = parser.ParseFile(fset, name, src, parser.ParseComments)
	return
}

func main() {
	gostructs := flag.String("gostructs", "", "goaststructs.json of the translator")
	flag.Parse()
	S, err := astx.LoadStructs(*gostructs)
	if err != nil {
		fmt.Fprintln(os.Stderr, "h_c37:", err)
		os.Exit(2)
	}
	if err := astx.CheckGoRegistry(S); err != nil {
		fmt.Fprintln(os.Stderr, "h_c37: go/ast kind registry out of date:", err)
		os.Exit(3)
	}
	if flag.Arg(0) == "gen" { // print a generated source (debugging aid)
		seed, _ := strconv.ParseUint(flag.Arg(1), 10, 64)
		fmt.Print(genSource(astx.NewRng(seed)))
		return
	}
	in := bufio.NewReaderSize(os.Stdin, 1<<20)
	out := bufio.NewWriterSize(os.Stdout, 1<<20)
	defer out.Flush()
	for {
		line, rerr := in.ReadString('\n')
		line = strings.TrimRight(line, "\n")
		if line != "" {
			f := strings.Split(line, "\t")
			fset := token.NewFileSet()
			var file *ast.File
			var perr error
			var pp string
			switch f[0] {
			case "file":
				file, perr, pp = parse(fset, f[1], nil)
			case "gen":
				seed, _ := strconv.ParseUint(f[1], 10, 64)
				file, perr, pp = parse(fset, "gen.go", genSource(astx.NewRng(seed)))
			case "src":
				b, _ := hex.DecodeString(f[1])
				file, perr, pp = parse(fset, "src.go", b)
			}
			var res result
			switch {
			case pp != "" || file == nil:
				res = result{"-", "-", "noparse", "noparse"}
			default:
				res = runFile(fset, file)
				if perr != nil {
					res.info += " parse-errors"
				}
			}
			fmt.Fprintf(out, "%s\t%s\t%s\t%s\n", res.orig, res.conv, strings.ReplaceAll(strings.ReplaceAll(res.verdict, "\t", " "), "\n", "\\n"), res.info)
		}
		if rerr != nil {
			break
		}
	}
}
