// Implementation side of the C30 correspondence: the result helpers of tpl/tpl.go.
//
// stdin : <helper> TAB <payload> TAB <expected | ->
//   helpers list listop rangeop bopnr bopr bexprnr bexprr : payload = the []any argument as an
//     s-expression  T<i> (token i) | N (nil) | V<z> (opaque value) | [ … ] | (A <op> x y)
//   calc  : payload = "n0 op n1 op n2 …" evaluated by a calculator grammar compiled with tpl.New
//           whose rule expr folds with tpl.BinaryOp(true, self, fn)   (flat operands)
//   calcx : the same with  operand = INT | "(" expr ")" | "-" operand   (oracle only)
// stdout: <result> TAB <oracle verdict>
//   result: OK <value>  |  PANIC   (rangeop: TRACE [..] ok|panic)
// The callbacks record/represent their calls symbolically, so the fold order is observable.
// Direct oracle: result == expected when an expectation is given; calc/calcx: the value equals
// an independent precedence-climbing evaluator.
package main

import (
	"bufio"
	"fmt"
	gotoken "go/token"
	"os"
	"strconv"
	"strings"

	"github.com/goplus/xgo/tpl"
	"github.com/goplus/xgo/tpl/ast"
	"github.com/goplus/xgo/tpl/token"
)

type app struct {
	op   int
	x, y any
}
type val struct{ z string }

type builder struct {
	ws   []string
	pos  int
	expr bool // build ast.Expr values (bexpr*) instead of val/app
	toks map[int]*tpl.Token
}

func (b *builder) tok(i int) *tpl.Token {
	if t, ok := b.toks[i]; ok {
		return t
	}
	t := &tpl.Token{Tok: token.ADD, Pos: gotoken.Pos(i + 1), Lit: ""}
	b.toks[i] = t
	return t
}

func (b *builder) parse() any {
	w := b.ws[b.pos]
	b.pos++
	switch {
	case w == "N":
		return nil
	case w == "[":
		l := []any{}
		for b.ws[b.pos] != "]" {
			l = append(l, b.parse())
		}
		b.pos++
		return l
	case w == "(A":
		op, _ := strconv.Atoi(b.ws[b.pos])
		b.pos++
		x := b.parse()
		y := b.parse()
		if b.ws[b.pos] != ")" {
			panic("bad sexpr")
		}
		b.pos++
		if b.expr {
			xe, _ := x.(ast.Expr)
			ye, _ := y.(ast.Expr)
			return &ast.BinaryExpr{X: xe, OpPos: gotoken.Pos(op + 1), Op: token.ADD, Y: ye}
		}
		return &app{op, x, y}
	case w[0] == 'T':
		i, _ := strconv.Atoi(w[1:])
		return b.tok(i)
	case w[0] == 'V':
		if b.expr {
			return &ast.Ident{Name: w[1:]}
		}
		return &val{w[1:]}
	}
	panic("bad word " + w)
}

func show(v any) string {
	switch r := v.(type) {
	case nil:
		return "N"
	case *tpl.Token:
		return "T" + strconv.Itoa(int(r.Pos)-1)
	case []any:
		var sb strings.Builder
		sb.WriteString("[")
		for _, x := range r {
			sb.WriteString(" " + show(x))
		}
		sb.WriteString(" ]")
		return sb.String()
	case *val:
		return "V" + r.z
	case *app:
		return "(A " + strconv.Itoa(r.op) + " " + show(r.x) + " " + show(r.y) + " )"
	case *ast.Ident:
		return "V" + r.Name
	case *ast.BinaryExpr:
		return "(A " + strconv.Itoa(int(r.OpPos)-1) + " " + show(r.X) + " " + show(r.Y) + " )"
	case ast.Expr:
		if r == nil {
			return "N"
		}
	}
	return fmt.Sprintf("?%T", v)
}

func helper(name, payload string) (out string) {
	b := &builder{ws: strings.Fields(payload), toks: map[int]*tpl.Token{}, expr: strings.HasPrefix(name, "bexpr")}
	in, ok := b.parse().([]any)
	if !ok {
		return "BADINPUT"
	}
	var trace []string
	defer func() {
		if e := recover(); e != nil {
			if name == "rangeop" {
				out = "TRACE [" + strings.Join(trace, " ") + "] panic"
			} else {
				out = "PANIC"
			}
		}
	}()
	fn := func(op *tpl.Token, x, y any) any { return &app{int(op.Pos) - 1, x, y} }
	switch name {
	case "list":
		return "OK " + show(tpl.List(in))
	case "listop":
		r := tpl.ListOp(in, func(v any) string { trace = append(trace, show(v)); return show(v) })
		// results and call order must both be the source order
		if strings.Join(r, " ") != strings.Join(trace, " ") {
			return "OK-ORDER-MISMATCH [" + strings.Join(r, " ") + "] [" + strings.Join(trace, " ") + "]"
		}
		return "OK [ " + strings.Join(r, " ") + " ]"
	case "rangeop":
		tpl.RangeOp(in, func(v any) { trace = append(trace, show(v)) })
		return "TRACE [" + strings.Join(trace, " ") + "] ok"
	case "bopnr":
		return "OK " + show(tpl.BinaryOp(false, in, fn))
	case "bopr":
		return "OK " + show(tpl.BinaryOp(true, in, fn))
	case "bexprnr":
		return "OK " + show(tpl.BinaryExpr(false, in))
	case "bexprr":
		return "OK " + show(tpl.BinaryExpr(true, in))
	}
	return "BADHELPER"
}

// ---- calculator ----
func arith(op token.Token, x, y int64) int64 {
	switch op {
	case '+':
		return x + y
	case '-':
		return x - y
	case '*':
		return x * y
	case '/':
		if y == 0 {
			return 0 // the callback is total: x/0 = 0 (Z.quot convention of the model)
		}
		return x / y
	}
	panic("unexpected")
}

var calcFlat, calcRich tpl.Compiler

func initCalc() {
	fold := func(self []any) any {
		return tpl.BinaryOp(true, self, func(op *tpl.Token, x, y any) any {
			return arith(op.Tok, x.(int64), y.(int64))
		})
	}
	num := func(self any) any {
		v, err := strconv.ParseInt(self.(*tpl.Token).Lit, 10, 64)
		if err != nil {
			panic(err.Error())
		}
		return v
	}
	var err error
	calcFlat, err = tpl.New("expr = operand % (\"*\" | \"/\") % (\"+\" | \"-\")\noperand = INT\n", "expr", fold, "operand", num)
	if err != nil {
		panic(err)
	}
	calcRich, err = tpl.New("expr = operand % (\"*\" | \"/\") % (\"+\" | \"-\")\noperand = basicLit | paren | neg\n"+
		"paren = \"(\" expr \")\"\nneg = \"-\" operand\nbasicLit = INT\n",
		"expr", fold, "basicLit", num,
		"paren", func(self []any) any { return self[1] },
		"neg", func(self []any) any { return -(self[1].(int64)) })
	if err != nil {
		panic(err)
	}
}

// independent reference: precedence climbing over the words
type pc struct {
	ws  []string
	pos int
}

func prec(op string) int {
	switch op {
	case "+", "-":
		return 1
	case "*", "/":
		return 2
	}
	return 0
}
func (p *pc) primary() int64 {
	w := p.ws[p.pos]
	p.pos++
	switch w {
	case "(":
		v := p.expr(1)
		p.pos++ // ")"
		return v
	case "-":
		return -p.primary()
	}
	v, _ := strconv.ParseInt(w, 10, 64)
	return v
}
func (p *pc) expr(minPrec int) int64 {
	lhs := p.primary()
	for p.pos < len(p.ws) {
		op := p.ws[p.pos]
		pr := prec(op)
		if pr == 0 || pr < minPrec {
			break
		}
		p.pos++
		rhs := p.expr(pr + 1)
		lhs = arith(token.Token(op[0]), lhs, rhs)
	}
	return lhs
}

func calc(c *tpl.Compiler, payload string) (out, verdict string) {
	defer func() {
		if e := recover(); e != nil {
			out, verdict = "PANIC", "panic:"+fmt.Sprint(e)
		}
	}()
	v, err := c.ParseExpr(payload, nil)
	if err != nil {
		return "ERR", "calc-error:" + err.Error()
	}
	ref := (&pc{ws: strings.Fields(payload)}).expr(1)
	verdict = "ok"
	if v.(int64) != ref {
		verdict = fmt.Sprintf("calc-mismatch:ref=%d", ref)
	}
	return "OK V" + strconv.FormatInt(v.(int64), 10), verdict
}

func main() {
	initCalc()
	sc := bufio.NewScanner(os.Stdin)
	sc.Buffer(make([]byte, 1<<22), 1<<22)
	w := bufio.NewWriter(os.Stdout)
	defer w.Flush()
	for sc.Scan() {
		f := strings.Split(sc.Text(), "\t")
		name, payload, want := f[0], f[1], "-"
		if len(f) > 2 {
			want = f[2]
		}
		var out, verdict string
		switch name {
		case "calc":
			out, verdict = calc(&calcFlat, payload)
		case "calcx":
			out, verdict = calc(&calcRich, payload)
		default:
			out = helper(name, payload)
			verdict = "ok"
			if want != "-" && out != want {
				verdict = "unexpected-result"
			}
		}
		fmt.Fprintf(w, "%s\t%s\n", out, verdict)
	}
}
