package main

import (
	"fmt"
	"os"

	"github.com/goplus/xgo/parser"
)

func main() {
	for _, s := range os.Args[1:] {
		e, err := parser.ParseExpr(s)
		fmt.Printf("%q -> %T %v\n", s, e, err)
	}
}
