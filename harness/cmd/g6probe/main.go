// probe (development aid of g6): g6probe fmt <file>  prints format.Source twice; g6probe expr <src>... parses expressions
package main

import (
	"fmt"
	"os"

	"github.com/goplus/xgo/format"
	"github.com/goplus/xgo/parser"
)

func main() {
	if len(os.Args) > 2 && os.Args[1] == "fmt" {
		src, _ := os.ReadFile(os.Args[2])
		o1, err := format.Source(src, false, "x.xgo")
		fmt.Printf("--- pass 1 (err=%v)\n%s", err, o1)
		o2, err := format.Source(o1, false, "x.xgo")
		fmt.Printf("--- pass 2 (err=%v)\n%s", err, o2)
		return
	}
	for _, s := range os.Args[2:] {
		e, err := parser.ParseExpr(s)
		fmt.Printf("%q -> %T %v\n", s, e, err)
	}
}
