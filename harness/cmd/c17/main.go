// Implementation side of the C17 correspondence and the span oracle.
//
//	h_c17 run < cases        case line:  file TAB <path>
//
// result line:  <tree export> TAB <spans> TAB <findings> TAB <info> TAB <Kind=count,...>
//
//	spans:    "<id>:<Pos()>:<End()>" per node in id order ("P" when the method panics)
//	findings: ";"-separated "<Kind>@<offset>|<what>|<detail>", or "ok"   (the direct oracle, below)
//
// Span oracle (only for files that parse without errors), against the real scanner's tokens:
//
//	align     Pos() is the offset of a token start and End() the offset of a token end, Pos < End
//	nest      every child lies within its parent's span
//	order     siblings are in source order and do not overlap
//	reparse   parser.ParseExpr(src[Pos:End)) is structurally the same expression
//
// Not findings by the Reading (counted, not reported): the synthesised entry of a script-style file
// (Shadow FuncDecl and its header), the synthesised package name, nodes inside the ${...} of a
// string literal (they lie inside one STRING token), FieldLists that do not exist in the source
// (NoPos), implicit semicolons, comments (Doc/Comment groups lie outside the span of their node),
// and FuncDecl.Type, which by go/ast convention starts at the "func" keyword before Recv and Name.
package main

import (
	"bufio"
	"encoding/hex"
	"fmt"
	"os"
	"path/filepath"
	"reflect"
	"sort"
	"strconv"
	"strings"

	"vh/internal/astx"

	"github.com/goplus/xgo/ast"
	"github.com/goplus/xgo/parser"
	"github.com/goplus/xgo/scanner"
	"github.com/goplus/xgo/token"
)

func classKind(fname string) (isProj, ok bool) {
	ext := filepath.Ext(fname)
	switch ext {
	case ".spx", ".tspx":
		return strings.HasPrefix(fname, "main."), true
	case ".gsh", ".gmx", ".tgmx":
		return true, true
	}
	return false, true
}

type parsed struct {
	fset *token.FileSet
	file *ast.File
	src  []byte
	err  error
}

func parseFile(path string, src []byte) (p parsed, panicked string) {
	defer func() {
		if e := recover(); e != nil {
			panicked = fmt.Sprint(e)
		}
	}()
	if src == nil {
		var err error
		src, err = os.ReadFile(path)
		if err != nil {
			return parsed{err: err}, ""
		}
	}
	p.src = src
	p.fset = token.NewFileSet()
	mode := parser.ParseComments
	if strings.HasSuffix(path, ".go") {
		p.file, p.err = parser.ParseFile(p.fset, path, src, mode|parser.ParseGoAsGoPlus)
		return
	}
	p.file, p.err = parser.ParseEntry(p.fset, path, src, parser.Config{Mode: mode, ClassKind: classKind})
	return
}

func safePosEnd(n ast.Node) (pos, end token.Pos, ok bool) {
	defer func() {
		if e := recover(); e != nil {
			ok = false
		}
	}()
	return n.Pos(), n.End(), true
}

type tokens struct {
	starts, ends   map[int]bool // code tokens
	cstarts, cends map[int]bool // comments
	n              int
}

func scan(src []byte) (t tokens, panicked string) {
	defer func() {
		if e := recover(); e != nil {
			panicked = fmt.Sprint(e)
		}
	}()
	t = tokens{starts: map[int]bool{}, ends: map[int]bool{}, cstarts: map[int]bool{}, cends: map[int]bool{}}
	fset := token.NewFileSet()
	f := fset.AddFile("x", fset.Base(), len(src))
	var s scanner.Scanner
	s.Init(f, src, func(token.Position, string) {}, scanner.ScanComments)
	for {
		pos, tok, lit := s.Scan()
		if tok == token.EOF {
			break
		}
		off := f.Offset(pos)
		end := off + len(lit)
		switch {
		case lit == "":
			end = off + len(tok.String())
		case tok == token.CSTRING:
			end++ // the literal of c"..." lacks the prefix (pos is at the 'c')
		case tok == token.PYSTRING:
			end += 2 // py"..."
		}
		switch {
		case tok == token.SEMICOLON && lit == "\n":
			continue // inserted by the scanner
		case tok == token.COMMENT:
			t.cstarts[off], t.cends[end] = true, true
		default:
			t.starts[off], t.ends[end] = true, true
			t.n++
		}
	}
	return
}

type finding struct {
	kind, what, detail string
	off                int
}

// expression kinds whose source slice must re-parse to the same expression
var reparseKinds = map[string]bool{
	"Ident": true, "BasicLit": true, "ParenExpr": true, "SelectorExpr": true, "IndexExpr": true, "IndexListExpr": true,
	"SliceExpr": true, "TypeAssertExpr": true, "CallExpr": true, "StarExpr": true, "UnaryExpr": true, "BinaryExpr": true,
	"CompositeLit": true, "FuncLit": true, "SliceLit": true, "MatrixLit": true, "ComprehensionExpr": true,
	"ErrWrapExpr": true, "EnvExpr": true, "NumberUnitLit": true, "DomainTextLit": true, "ArrayType": true, "MapType": true,
	"ChanType": true, "StructType": true, "InterfaceType": true, "FuncType": true, "LambdaExpr": true, "LambdaExpr2": true,
}

// structural form of an expression: the generic export without identities and positions
func shape(e ast.Node) string {
	ex := astx.NewExporter()
	ex.ZeroIDs, ex.NoPos, ex.OpaqueOther, ex.NoComments = true, true, true, true
	return ex.Export(e)
}

func oracle(p parsed) (fs []finding, stats map[string]int) {
	stats = map[string]int{}
	tk, sp := scan(p.src)
	if sp != "" {
		return []finding{{"File", "scanner-panic", sp, 0}}, stats
	}
	base := p.fset.File(p.file.Pos())
	if base == nil {
		base = p.fset.File(token.Pos(1))
	}
	off := func(pos token.Pos) int { return int(pos) - base.Base() }
	add := func(n ast.Node, what, detail string) {
		pos, _, _ := safePosEnd(n)
		fs = append(fs, finding{astx.KindName(n), what, detail, off(pos)})
	}
	var visit func(n ast.Node, inLit, synth bool, parent ast.Node)
	visit = func(n ast.Node, inLit, synth bool, parent ast.Node) {
		kind := astx.KindName(n)
		pos, end, ok := safePosEnd(n)
		stats["nodes"]++
		_, isFile := n.(*ast.File)
		_, isCG := n.(*ast.CommentGroup)
		_, isC := n.(*ast.Comment)
		if fd, ok := n.(*ast.FuncDecl); ok && fd.Shadow {
			synth = true // the synthesised entry: its Body holds real statements, everything else is synthetic
		}
		skipAlign := isFile || inLit
		if es, ok := n.(*ast.EmptyStmt); ok && es.Implicit {
			skipAlign = true
		}
		if fl, ok := n.(*ast.FieldList); ok && !fl.Opening.IsValid() && len(fl.List) == 0 {
			skipAlign = true // does not exist in the source
		}
		if synth {
			skipAlign = true // the entry, its header and its (brace-less) block; the statements inside are real
		}
		switch {
		case !ok:
			add(n, "panic", "Pos()/End() panics")
		case skipAlign:
			stats["excluded-by-reading"]++
		case isCG || isC:
			if !tk.cstarts[off(pos)] || !tk.cends[off(end)] {
				add(n, "align", fmt.Sprintf("comment span [%d,%d) is not a comment token span", off(pos), off(end)))
			}
		default:
			stats["aligned-checked"]++
			switch {
			case !pos.IsValid() || !end.IsValid():
				add(n, "align", fmt.Sprintf("invalid span [%d,%d)", off(pos), off(end)))
			case pos >= end:
				add(n, "align", fmt.Sprintf("empty or reversed span [%d,%d)", off(pos), off(end)))
			case !tk.starts[off(pos)]:
				add(n, "align", fmt.Sprintf("Pos %d is not the start of a token (End %d)", off(pos), off(end)))
			case !tk.ends[off(end)]:
				add(n, "align", fmt.Sprintf("End %d is not the end of a token (Pos %d): %q", off(end), off(pos), clip(p.src, off(pos), off(end))))
			}
			reparse := reparseKinds[kind]
			if ce, isCall := n.(*ast.CallExpr); isCall && ce.IsCommand() {
				reparse = false // a command-style call is statement syntax, not an expression on its own
			}
			if ft, isFT := n.(*ast.FuncType); isFT {
				if _, pd := parent.(*ast.FuncDecl); pd || !ft.Func.IsValid() {
					// FuncDecl.Type spans "func Name(...)" (go/ast convention); a method signature of an
					// interface has no "func" keyword and is not an expression on its own
					reparse = false
				}
			}
			if fd, pd := parent.(*ast.FuncDecl); pd && fd.Operator && ast.Node(fd.Name) == n {
				reparse = false // the name of an operator function ("+") is not an expression
			}
			if fd, pd := parent.(*ast.OverloadFuncDecl); pd && fd.Operator && ast.Node(fd.Name) == n {
				reparse = false
			}
			if reparse && ok && pos.IsValid() && pos < end && off(end) <= len(p.src) && tk.starts[off(pos)] && tk.ends[off(end)] {
				stats["reparsed"]++
				text := string(p.src[off(pos):off(end)])
				e2, err := func() (e ast.Expr, err error) {
					defer func() {
						if r := recover(); r != nil {
							err = fmt.Errorf("panic: %v", r)
						}
					}()
					return parser.ParseExpr(text)
				}()
				if err != nil {
					add(n, "reparse", fmt.Sprintf("%q does not parse: %v", cliptext(text), err))
				} else if a, b := shape(n), shape(e2); a != b {
					add(n, "reparse", fmt.Sprintf("%q parses to another expression", cliptext(text)))
				}
			}
		}
		// children
		children := astx.Children(n)
		var lastEnd token.Pos
		var lastPath string
		for _, c := range children {
			cp, ce, cok := safePosEnd(c.Node)
			_, ccg := c.Node.(*ast.CommentGroup)
			childLit := inLit || strings.Contains(c.Path, "StringLitEx.Parts") || strings.Contains(c.Path, "DomainTextLitEx.Args")
			if cok && ok && !ccg && !isFile && !synth && !childLit && cp.IsValid() && ce.IsValid() && pos.IsValid() {
				stats["nest-checked"]++
				ft, isFT := c.Node.(*ast.FuncType)
				_, parentDecl := n.(*ast.FuncDecl)
				if cp < pos || ce > end {
					add(c.Node, "nest", fmt.Sprintf("%s.%s [%d,%d) outside its parent [%d,%d)", kind, c.Path, off(cp), off(ce), off(pos), off(end)))
				}
				op := cp
				if isFT && parentDecl && ft.Params != nil && ft.Params.Pos().IsValid() {
					op = ft.Params.Pos() // FuncDecl.Type starts at "func" (go/ast convention)
				}
				if op < lastEnd {
					add(c.Node, "order", fmt.Sprintf("%s.%s starts at %d before the end %d of %s", kind, c.Path, off(op), off(lastEnd), lastPath))
				}
				if ce > lastEnd {
					lastEnd, lastPath = ce, c.Path
				}
			}
			_, nIsBlock := n.(*ast.BlockStmt)
			visit(c.Node, childLit, synth && !nIsBlock, n)
		}
	}
	visit(p.file, false, false, nil)
	return
}

// the Body of the synthesised entry holds real statements
func isBody(parent ast.Node, path string) bool {
	fd, ok := parent.(*ast.FuncDecl)
	return ok && fd.Shadow && path == "Body"
}

func clip(src []byte, a, b int) string {
	if a < 0 || b > len(src) || a > b {
		return "?"
	}
	return cliptext(string(src[a:b]))
}

func cliptext(s string) string {
	if len(s) > 60 {
		return s[:60] + "..."
	}
	return s
}

func main() {
	if len(os.Args) > 2 && os.Args[1] == "gen" { // print a generated source (debugging aid)
		seed, _ := strconv.ParseUint(os.Args[2], 10, 64)
		src, _ := genXGo(astx.NewRng(seed))
		fmt.Print(src)
		return
	}
	in := bufio.NewReaderSize(os.Stdin, 1<<20)
	out := bufio.NewWriterSize(os.Stdout, 1<<20)
	defer out.Flush()
	for {
		line, rerr := in.ReadString('\n')
		line = strings.TrimRight(line, "\n")
		if line != "" {
			f := strings.Split(line, "\t")
			var p parsed
			var pp string
			damaged := false
			switch f[0] {
			case "gen":
				seed, _ := strconv.ParseUint(f[1], 10, 64)
				var src string
				src, damaged = genXGo(astx.NewRng(seed))
				p, pp = parseFile("gen.xgo", []byte(src))
			case "src":
				b, _ := hex.DecodeString(f[1])
				p, pp = parseFile("src.xgo", b)
			default:
				p, pp = parseFile(f[1], nil)
			}
			switch {
			case pp != "" || p.file == nil:
				fmt.Fprintf(out, "-\t-\tok\tnoparse\n")
			default:
				ex := astx.NewExporter()
				ex.ObjKind = true
				tree := ex.Export(p.file)
				var sb strings.Builder
				for id, n := range ex.Nodes {
					if id > 0 {
						sb.WriteByte(' ')
					}
					pos, end, ok := safePosEnd(n)
					if ok {
						fmt.Fprintf(&sb, "%d:%d:%d", id, pos, end)
					} else {
						fmt.Fprintf(&sb, "%d:P", id)
					}
				}
				info := fmt.Sprintf("nodes=%d", len(ex.Nodes))
				kh := map[string]int{}
				for _, n := range ex.Nodes {
					kh[astx.KindName(n)]++
				}
				var kparts []string
				for k, c := range kh {
					kparts = append(kparts, fmt.Sprintf("%s=%d", k, c))
				}
				sort.Strings(kparts)
				kinds := strings.Join(kparts, ",")
				verdict := "ok"
				if p.err != nil {
					info += " parse-errors"
				} else if damaged {
					info += " damaged" // the malformed stream serves the K-diff only
				} else {
					fs, stats := oracle(p)
					var parts []string
					for _, x := range fs {
						parts = append(parts, fmt.Sprintf("%s@%d|%s|%s", x.kind, x.off, x.what, strings.NewReplacer("\t", " ", "\n", "\\n", ";", ",").Replace(x.detail)))
					}
					if len(parts) > 0 {
						verdict = strings.Join(parts, ";")
					}
					var ks []string
					for k := range stats {
						ks = append(ks, k)
					}
					sort.Strings(ks)
					for _, k := range ks {
						info += fmt.Sprintf(" %s=%d", k, stats[k])
					}
				}
				fmt.Fprintf(out, "%s\t%s\t%s\t%s\t%s\n", tree, sb.String(), verdict, info, kinds)
			}
		}
		if rerr != nil {
			break
		}
	}
}

var _ = reflect.TypeOf
