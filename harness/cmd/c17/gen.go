package main

// Grammar-based generator of XGo source files for the span oracle: script-style files made of
// statements over the XGo expression syntax (slice literals, map literals, lambdas, error
// wrapping, ranges, comprehensions, env expressions, numbers with units, string interpolation,
// command-style calls) and a few declarations.
//
// Not generated, because the unchanged tree is known to fail on them (known_findings.txt,
// each explored deterministically through the corpus files that contain them): c"..." / py"..."
// literals (R1), matrix literals (R3), a command-style call
// directly followed by a blank and "}" (R4), a label directly before "}" (R6).

import (
	"fmt"
	"strings"

	"vh/internal/astx"
)

type xgen struct {
	r *astx.Rng
	n int
}

func (g *xgen) pick(xs ...string) string { return xs[g.r.Intn(len(xs))] }
func (g *xgen) id() string {
	g.n++
	return fmt.Sprintf("%s%d", g.pick("a", "b", "x", "val", "fn"), g.n)
}

func (g *xgen) expr(d int) string {
	if d <= 0 {
		return g.pick("x", "y", "1", "42", "3.14", "0x7f", "1e3", "2i", "3r", "'c'", `"s"`, "`raw`", "true", "nil", "10m", "3s", "${HOME}", "$name", `"a${x}b"`, `"$$x ${y+1}"`)
	}
	switch g.r.Intn(38) {
	case 0, 1:
		return g.expr(d-1) + g.pick(" + ", " - ", " * ", " / ", " % ", " << ", " && ", " || ", " == ", " != ", " < ", " &^ ", " | ") + g.expr(d-1)
	case 2:
		return g.pick("-", "!", "^", "+", "&", "*") + g.expr(d-1)
	case 3:
		return "x[" + g.expr(d-1) + "]"
	case 4:
		return "x[" + g.pick("", g.expr(0)) + ":" + g.pick("", g.expr(0)) + "]"
	case 5:
		return "x[" + g.expr(0) + ":" + g.expr(0) + ":" + g.expr(0) + "]"
	case 6:
		return "x.(" + g.pick("int", "string", "[]int", "T") + ")"
	case 7:
		return "f(" + g.expr(d-1) + ", " + g.pick(g.expr(d-1), "xs...") + ")"
	case 8:
		return "f()"
	case 9:
		return "[" + g.expr(d-1) + ", " + g.expr(d-1) + "]"
	case 10:
		return "[]"
	case 11:
		return "{" + `"k"` + ": " + g.expr(d-1) + ", \"j\": " + g.expr(d-1) + "}"
	case 12:
		return "(" + g.expr(d-1) + ")"
	case 13:
		return "x." + g.id()
	case 14:
		return "x." + g.id() + "(" + g.expr(d-1) + ")"
	case 15:
		return "f(" + g.pick("x => x*2", "(a, b) => a+b", "=> 1", "x => { return x }", "(a, b) => (b, a)") + ")"
	case 16:
		return "f(" + g.expr(d-1) + ")" + g.pick("!", "?", "?:"+g.expr(0), "!:"+g.expr(0))
	case 17:
		return "[" + g.expr(d-1) + " for v in " + g.expr(0) + g.pick("", " if v > 1") + "]"
	case 18:
		return "{k: v*2 for k, v in m}"
	case 19:
		return "{v for v in xs if v%2 == 0}"
	case 20:
		return "T{A: " + g.expr(d-1) + ", B: " + g.expr(0) + "}"
	case 21:
		return "[]int{" + g.expr(0) + ", " + g.expr(0) + "}"
	case 22:
		return "func(a int, b ...string) (int, error) { return a, nil }"
	case 23:
		return "&T{}"
	case 24:
		return "<-ch"
	case 25:
		return "make(" + g.chanType() + g.pick("", ", 1") + ")"
	case 26:
		return "(" + g.chanType() + ")(nil)"
	case 27:
		return "x.(" + g.typ() + ")"
	case 28:
		return "[]" + g.chanType() + "{}"
	case 29:
		return "func(a " + g.typ() + ") " + g.chanType() + " { return nil }"
	case 33:
		// an indexed / sliced slice literal, also as the operand of !, ?, ?:d, !:d
		return "[" + g.expr(d-1) + ", " + g.expr(0) + "]" + g.pick("[0]", "["+g.expr(0)+"]", "[1:]", "[:1]")
	case 34:
		return "println([" + g.expr(0) + "][0], [" + g.expr(0) + ", " + g.expr(0) + "][1])"
	case 35:
		// error wrapping: every operator with and without a default value
		return "f(" + g.expr(d-1) + ")" + g.pick("!", "?", "?:"+g.expr(0), "!:"+g.expr(0), "!:("+g.expr(d-1)+")", "?:("+g.expr(d-1)+")")
	case 30:
		return g.pick("json`{\"a\": 1}`", "tpl`a = INT`", "P[int, string]{}", "f[int, string](1)", "new("+g.typ()+")")
	default:
		return g.expr(0)
	}
}

// ChanType builds a channel type from its directions, outermost first ("chan ", "<-chan ", "chan<- ").
// "chan" directly followed by "<-chan" needs parentheses (chan <-chan T is chan<- (chan T) in Go).
func ChanType(dirs []string, elem string) string {
	t := elem
	for i := len(dirs) - 1; i >= 0; i-- {
		if dirs[i] == "chan " && strings.HasPrefix(t, "<-") {
			t = "chan (" + t + ")"
		} else {
			t = dirs[i] + t
		}
	}
	return t
}

var chanDirs = []string{"chan ", "<-chan ", "chan<- "}

// a channel type of depth 1-3 with random directions
func (g *xgen) chanType() string {
	d := 1 + g.r.Intn(3)
	dirs := make([]string, d)
	for i := range dirs {
		dirs[i] = chanDirs[g.r.Intn(3)]
	}
	return ChanType(dirs, g.pick("int", "string", "T", "[]byte", "func()"))
}

func (g *xgen) typ() string {
	switch g.r.Intn(10) {
	case 0, 1, 2:
		return g.chanType()
	case 3:
		return "[]" + g.pick("int", "string", g.chanType())
	case 4:
		return "map[string]" + g.pick("int", "*T", g.chanType())
	case 5:
		return "*T"
	case 6:
		return "func(a int, b ..." + g.pick("string", g.chanType()) + ") " + g.pick("error", g.chanType())
	case 7:
		return "[4]int"
	case 8:
		return "struct{ A int; B " + g.chanType() + " }"
	default:
		return g.pick("int", "string", "T", "interface{ M() }", "pkg.T")
	}
}

// a condition: an expression without a brace at its outermost level
func (g *xgen) cond() string {
	return g.pick("x", "x > 1", "f(x)", "!ok", "x == "+g.pick("1", `"s"`, "nil"), "(x + y) < 3", "len(xs) != 0", "a && (b || c)")
}

func (g *xgen) block(d int, ind string) string {
	n := 1 + g.r.Intn(3)
	var ss []string
	for i := 0; i < n; i++ {
		ss = append(ss, ind+"\t"+g.stmt(d-1, ind+"\t"))
	}
	return "{\n" + strings.Join(ss, "\n") + "\n" + ind + "}"
}

func (g *xgen) stmt(d int, ind string) string {
	if d <= 0 {
		switch g.r.Intn(8) {
		case 0:
			return g.id() + " := " + g.expr(2)
		case 1:
			return "x = " + g.expr(2)
		case 2:
			return "echo " + g.expr(1)
		case 3:
			return "println " + g.expr(1) + ", " + g.expr(1)
		case 4:
			return "x" + g.pick("++", "--")
		case 5:
			return "x " + g.pick("+=", "-=", "*=", "<<=", "|=") + " " + g.expr(1)
		case 6:
			return "f(" + g.expr(1) + ")"
		default:
			return "ch <- " + g.expr(1)
		}
	}
	switch g.r.Intn(23) {
	case 0:
		return "if " + g.cond() + " " + g.block(d, ind) + g.pick("", " else "+g.block(d, ind))
	case 1:
		return "if v := f(" + g.expr(1) + "); v != nil " + g.block(d, ind)
	case 2:
		return "for i := 0; i < 10; i++ " + g.block(d, ind)
	case 3:
		return "for " + g.pick("v in xs", "k, v in m", "i <- 0:10", "i <- :10:2", "v <- xs if v > 1", "_, v := range xs", "i := range 10") + " " + g.block(d, ind)
	case 4:
		return "for " + g.cond() + " " + g.block(d, ind)
	case 5:
		return "switch " + g.pick("", "x", "v := x; v") + " {\n" + ind + "case " + g.expr(0) + ", " + g.expr(0) + ":\n" + ind + "\t" + g.stmt(0, ind) + "\n" + ind + "default:\n" + ind + "\t" + g.stmt(0, ind) + "\n" + ind + "}"
	case 6:
		return "switch v := x.(type) {\n" + ind + "case int:\n" + ind + "\t_ = v\n" + ind + "}"
	case 7:
		return "select {\n" + ind + "case v := <-ch:\n" + ind + "\t_ = v\n" + ind + "case ch <- 1:\n" + ind + "default:\n" + ind + "}"
	case 8:
		return "go f(" + g.expr(1) + ")"
	case 9:
		return "defer func() " + g.block(d, ind) + "()"
	case 10:
		return "var " + g.id() + g.pick(" int", " []string", " map[string]int", " = "+g.expr(1), " int = "+g.expr(1))
	case 11:
		return "L" + fmt.Sprint(g.r.Intn(100)) + ":\n" + ind + "for " + g.block(d, ind)
	case 12:
		return "return " + g.pick("", g.expr(1), g.expr(1)+", nil")
	case 13:
		return g.id() + ", " + g.id() + " := " + g.expr(1) + ", " + g.expr(1)
	case 14:
		return "const " + g.id() + " = " + g.expr(1)
	case 16:
		return "var " + g.id() + " " + g.typ()
	case 17:
		return "for {\n" + ind + "\tif " + g.cond() + " {\n" + ind + "\t\t" + g.pick("break", "continue") + "\n" + ind + "\t}\n" + ind + "\t" + g.stmt(0, ind+"\t") + "\n" + ind + "}"
	case 18:
		return "// " + g.pick("a comment", "another") + "\n" + ind + g.stmt(0, ind)
	case 19:
		return "type " + g.id() + " " + g.typ()
	case 20:
		return "x[" + g.expr(0) + "] = " + g.expr(1) + ";;"
	case 21:
		return "if " + g.cond() + " {\n" + ind + "\t;\n" + ind + "}"
	default:
		return g.stmt(0, ind)
	}
}

func (g *xgen) decl() string {
	switch g.r.Intn(9) {
	case 0:
		return "func " + g.id() + "(a int, b ...string) (r int, err error) " + g.block(2, "")
	case 1:
		return "type " + g.id() + " struct {\n\tA int\n\tB, C []string `json:\"b\"`\n\tT\n}"
	case 2:
		return "type " + g.id() + " interface {\n\tM(a int) string\n\tN()\n}"
	case 3:
		return "func (p *T) " + g.id() + "() " + g.block(1, "")
	case 4:
		return "var (\n\t" + g.id() + " = " + g.expr(2) + "\n\t" + g.id() + " int\n)"
	case 5:
		return "func " + g.id() + " = (\n\taddInt\n\taddStr\n\tfunc(a, b int) int {\n\t\treturn a + b\n\t}\n)"
	case 6:
		return "var " + g.id() + " P[int, " + g.typ() + "]"
	case 7:
		return "func " + g.id() + "(a " + g.typ() + ", b ..." + g.chanType() + ") " + g.typ() + " {\n\treturn nil\n}"
	default:
		return "type " + g.id() + " = []map[string]*T"
	}
}

func genXGo(r *astx.Rng) (src string, damaged bool) {
	g := &xgen{r: r}
	var sb strings.Builder
	if r.Intn(3) == 0 {
		sb.WriteString("package main\n\n")
	}
	if r.Intn(3) == 0 {
		sb.WriteString(g.pick("import \"fmt\"\n\n", "import (\n\t\"fmt\"\n\tos \"os\"\n)\n\n"))
	}
	nd := r.Intn(3)
	for i := 0; i < nd; i++ {
		sb.WriteString(g.decl() + "\n\n")
	}
	ns := 1 + r.Intn(6)
	for i := 0; i < ns; i++ {
		sb.WriteString(g.stmt(1+r.Intn(2), "") + "\n")
	}
	s := sb.String()
	if r.Intn(10) == 0 && len(s) > 30 { // malformed stream: drop a slice of the text (the partial tree is only used for K-diff)
		a := 5 + r.Intn(len(s)-10)
		b := a + 1 + r.Intn(6)
		if b > len(s) {
			b = len(s)
		}
		s = s[:a] + s[b:]
		return s, true
	}
	return s, false
}
