// Implementation side of C03.
//
//	h_c03 gen -dir D -cases F.json
//
// writes D/main.xgo + D/main.go: ONE program with a function per case (error-wrapping operator
// kind x number of values x use position), compiled by the real compiler; every case function is
// run with the wrapped call succeeding and failing.  Cases the compiler rejects are reported in
// D/status.json and left out.  The program prints, per run: returned value, root and wrapping
// depth of the returned error (errors.Unwrap chain) or of the panic value, and the probe log.
package main

import (
	"encoding/json"
	"flag"
	"fmt"
	"os"
	"path/filepath"
	"strings"

	"vh/internal/xgoc"
)

type ccase struct {
	Kind string `json:"kind"` // "!", "?", "?:"
	N    int    `json:"n"`    // number of non-error results of the wrapped call
	Pos  string `json:"pos"`  // stmt | define | assign | arg | nested | ifcond
}

const head = `import (
	"errors"
	"fmt"
	"strings"
)

var fail bool
var plog []string

func lg(id int, v int) {
	plog = append(plog, fmt.Sprintf("%d:%d", id, v))
}

func lgs(id int, v string) {
	plog = append(plog, fmt.Sprintf("%d:%x", id, v))
}

func p(id int, v int) int {
	lg(id, v)
	return v
}

var errE = errors.New("E")

func f0() error {
	plog = append(plog, "1:")
	if fail {
		return errE
	}
	return nil
}

func f1() (int, error) {
	plog = append(plog, "1:")
	if fail {
		return 5, errE
	}
	return 5, nil
}

func f2() (int, string, error) {
	plog = append(plog, "1:")
	if fail {
		return 5, "s", errE
	}
	return 5, "s", nil
}

func g1(a int) {
	lg(100, a)
}

func g2(a int, b string) {
	lg(100, a)
	lgs(101, b)
}

func chain(e any) string {
	if e == nil {
		return "nil"
	}
	err, ok := e.(error)
	if !ok {
		return fmt.Sprintf("nonerror(%v)", e)
	}
	if err == nil {
		return "nil"
	}
	d := 0
	for {
		u := errors.Unwrap(err)
		if u == nil {
			break
		}
		err = u
		d++
	}
	root := "other"
	if err == errE {
		root = "E"
	}
	return fmt.Sprintf("%s/%d", root, d)
}

func run(k int, failing bool, fn func() (int, error)) {
	fail = failing
	plog = nil
	defer func() {
		if e := recover(); e != nil {
			fmt.Printf("%d\t%v\tpanic=%s\ttrace=[%s]\n", k, failing, chain(e), strings.Join(plog, " "))
		}
	}()
	r, err := fn()
	fmt.Printf("%d\t%v\tret=%d,%s\ttrace=[%s]\n", k, failing, r, chain(err), strings.Join(plog, " "))
}
`

func caseFunc(k int, c ccase) string {
	suffix := c.Kind
	if c.Kind == "?:" {
		suffix = "?:42"
	}
	call := fmt.Sprintf("f%d()%s", c.N, suffix)
	vars := []string{"x", "y", "z"}[:c.N]
	obs := ""
	if c.N >= 1 {
		obs += "\tlg(100, x)\n"
	}
	if c.N >= 2 {
		obs += "\tlgs(101, y)\n"
	}
	var body string
	switch c.Pos {
	case "stmt":
		body = "\t" + call + "\n\tlg(90, 0)\n"
	case "define":
		body = "\t" + strings.Join(vars, ", ") + " := " + call + "\n" + obs
	case "assign":
		body = "\tvar x int\n"
		if c.N >= 2 {
			body += "\tvar y string\n"
		}
		body += "\t" + strings.Join(vars, ", ") + " = " + call + "\n" + obs
	case "arg":
		body = fmt.Sprintf("\tg%d(%s)\n", c.N, call)
	case "nested":
		body = "\tlg(80, p(81, 1) + " + call + ")\n"
	case "ifcond":
		body = "\tif " + call + " > 0 {\n\t\tlg(90, 1)\n\t}\n"
	}
	return fmt.Sprintf("func case%d() (r int, err error) {\n%s\treturn 7, nil\n}\n", k, body)
}

func program(cases []ccase, skip map[int]bool) string {
	var b strings.Builder
	b.WriteString(head)
	for k, c := range cases {
		if !skip[k] {
			b.WriteString(caseFunc(k, c))
		}
	}
	b.WriteString("\nfunc main() {\n")
	for k := range cases {
		if !skip[k] {
			fmt.Fprintf(&b, "\trun(%d, false, case%d)\n\trun(%d, true, case%d)\n", k, k, k, k)
		}
	}
	b.WriteString("}\n")
	return b.String()
}

// caseLines returns, per case, the [first,last] line of its function in the program text.
func caseLines(cases []ccase, skip map[int]bool) [][2]int {
	line := strings.Count(head, "\n") + 1
	out := make([][2]int, len(cases))
	for k, c := range cases {
		if skip[k] {
			continue
		}
		n := strings.Count(caseFunc(k, c), "\n")
		out[k] = [2]int{line, line + n - 1}
		line += n
	}
	return out
}

func doGen(dir, casesFile, skipList string) error {
	raw, err := os.ReadFile(casesFile)
	if err != nil {
		return err
	}
	var cases []ccase
	if err := json.Unmarshal(raw, &cases); err != nil {
		return err
	}
	comp, err := xgoc.New("")
	if err != nil {
		return err
	}
	status := make([]string, len(cases))
	skip := map[int]bool{}
	for _, f := range strings.Split(skipList, ",") {
		var k int
		if _, err := fmt.Sscan(f, &k); err == nil && k >= 0 && k < len(cases) {
			skip[k] = true
			status[k] = "go-build-error"
		}
	}
	var src string
	var out []byte
	for round := 0; ; round++ {
		src = program(cases, skip)
		out, err = comp.Compile("main.xgo", src)
		if err != nil {
			n0 := len(skip)
			for k, c := range cases {
				if skip[k] {
					continue
				}
				one := head + caseFunc(k, c) + fmt.Sprintf("\nfunc main() {\n\trun(%d, false, case%d)\n}\n", k, k)
				if _, e := comp.Compile(fmt.Sprintf("case%d.xgo", k), one); e != nil {
					skip[k] = true
					msg := e.Error()
					if len(msg) > 300 {
						msg = msg[:300]
					}
					status[k] = "compile-error: " + msg
				}
			}
			if len(skip) == n0 || round > 3 {
				return fmt.Errorf("the program does not compile even without the %d rejected cases: %v", len(skip), err)
			}
			continue
		}
		// what the Go type checker (hence `go build`) rejects in the emitted Go
		lines := caseLines(cases, skip)
		n0 := len(skip)
		for _, ge := range comp.TypeCheck("main.go", out) {
			for k, ab := range lines {
				if !skip[k] && ab[0] > 0 && ab[0] <= ge.Line && ge.Line <= ab[1] && ge.File == "main.xgo" {
					skip[k] = true
					status[k] = "go-build-error: " + ge.Msg
				}
			}
		}
		if len(skip) == n0 || round > 3 {
			break
		}
	}
	for k := range cases {
		if status[k] == "" {
			status[k] = "ok"
		}
	}
	if err := os.WriteFile(filepath.Join(dir, "main.xgo"), []byte(src), 0o644); err != nil {
		return err
	}
	if err := os.WriteFile(filepath.Join(dir, "main.go"), out, 0o644); err != nil {
		return err
	}
	srcs := make([]string, len(cases))
	for k, c := range cases {
		srcs[k] = caseFunc(k, c)
	}
	sb, _ := json.Marshal(map[string]interface{}{"status": status, "sources": srcs, "lines": caseLines(cases, skip)})
	return os.WriteFile(filepath.Join(dir, "status.json"), sb, 0o644)
}

func main() {
	if len(os.Args) < 2 || os.Args[1] != "gen" {
		fmt.Fprintln(os.Stderr, "usage: h_c03 gen -dir D -cases F.json")
		os.Exit(2)
	}
	fs := flag.NewFlagSet("gen", flag.ExitOnError)
	dir := fs.String("dir", ".", "output directory")
	cs := fs.String("cases", "", "cases JSON")
	sk := fs.String("skip", "", "comma-separated case numbers to leave out (the Go toolchain rejected the compiler's output for them)")
	fs.Parse(os.Args[2:])
	if err := doGen(*dir, *cs, *sk); err != nil {
		fmt.Println("ERROR:", err)
		os.Exit(1)
	}
}
