// Implementation side of C04.
//
//	h_c04 shape            compile the template programs with the real compiler (x/build ->
//	                       cl.NewPackage + gogen WriteTo, in-process), parse the emitted Go and
//	                       print the shape of the emitted `for` statements / NewRange calls as JSON
//	h_c04 gen -dir D -lits FILE [-shape OUT.json]
//	                       write D/main.xgo (the grid program: every context as a function of
//	                       (start,end,step), plus one function per literal triple of FILE) and
//	                       D/main.go (what the real compiler emits for it)
//
// The compiled program (built and run by the check) reads "G s e st" / "L k" lines and prints
// one line per case: the sequences enumerated in every context.
package main

import (
	"bufio"
	"encoding/json"
	"flag"
	"fmt"
	goast "go/ast"
	goparser "go/parser"
	"go/printer"
	gotoken "go/token"
	"os"
	"path/filepath"
	"strconv"
	"strings"

	"vh/internal/xgoc"
)

func compile(name, src string) (out []byte, err error) {
	defer func() {
		if e := recover(); e != nil {
			err = fmt.Errorf("compiler panic: %v", e)
		}
	}()
	if comp == nil {
		if comp, err = xgoc.New(""); err != nil { // one importer for all compilations of this process
			return nil, err
		}
	}
	return comp.Compile(name, src)
}

var comp *xgoc.Compiler

// ---------------------------------------------------------------- shape

const templates = `
func forin_ident(a, b, c int) {
	for i <- a:b:c {
		println i
	}
}
func forrange_ident(a, b, c int) {
	for i := range a:b:c {
		println i
	}
}
func forrange_assign_ident(a, b, c int) {
	var k int
	for k = range a:b:c {
		println k
	}
}
func forin_computed(a, b, c int) {
	for i <- a+0:b+0:c+0 {
		println i
	}
}
func forrange_computed(a, b, c int) {
	for i := range a+0:b+0:c+0 {
		println i
	}
}
func forrange_assign_computed(a, b, c int) {
	var k int
	for k = range a+0:b+0:c+0 {
		println k
	}
}
func forin_cond(a, b, c int) {
	for i <- a:b:c if i != 99 {
		println i
	}
}
func forin_defaults(b int) {
	for i <- :b {
		println i
	}
}
func forrange_defaults(b int) {
	for i := range :b {
		println i
	}
}
func forin_nostep(a, b int) {
	for i <- a:b {
		println i
	}
}
func compr_ident(a, b, c int) []int {
	return [i for i <- a:b:c]
}
func compr_computed(a, b, c int) []int {
	return [i for i <- a+0:b+0:c+0]
}
func compr_defaults(b int) []int {
	return [i for i <- :b]
}
func compr_nostep(a, b int) []int {
	return [i for i <- a:b]
}
`

func src(n goast.Node) string {
	var b strings.Builder
	printer.Fprint(&b, gotoken.NewFileSet(), n)
	return strings.ReplaceAll(b.String(), " ", "")
}

// operand of the emitted code -> role
func role(s string) (string, error) {
	s = strings.TrimSuffix(strings.TrimPrefix(s, "("), ")")
	switch s {
	case "a", "a+0":
		return "start", nil
	case "b", "b+0":
		return "end", nil
	case "c", "c+0":
		return "step", nil
	case "_gop_end":
		return "tmpend", nil
	case "_gop_step":
		return "tmpstep", nil
	case "i", "k", "_gop_k":
		return "var", nil
	}
	if _, err := strconv.ParseInt(s, 10, 64); err == nil {
		return "const:" + s, nil
	}
	return "", fmt.Errorf("operand %q of the emitted loop is not one of the template operands", s)
}

type loopShape struct {
	Init [][2]string `json:"init"` // (lhs role, rhs role)
	Cond [3]string   `json:"cond"` // lhs, op, rhs
	Post [3]string   `json:"post"` // lhs, tok, rhs
	Bind string      `json:"bind"` // "" or "pre-body: k = _gop_k"
}

type shapes struct {
	Loops  map[string]*loopShape `json:"loops"`
	Ranges map[string][]string   `json:"ranges"` // NewRange__0 argument roles
	Iter   map[string]string     `json:"iter"`   // protocol seen in the comprehension
}

func loopOf(fd *goast.FuncDecl) (*loopShape, error) {
	var fs *goast.ForStmt
	for _, st := range fd.Body.List {
		if f, ok := st.(*goast.ForStmt); ok {
			fs = f
		}
	}
	if fs == nil {
		return nil, fmt.Errorf("%s: no for statement emitted", fd.Name.Name)
	}
	sh := &loopShape{}
	ini, ok := fs.Init.(*goast.AssignStmt)
	if !ok || len(ini.Lhs) != len(ini.Rhs) {
		return nil, fmt.Errorf("%s: init is not a parallel assignment", fd.Name.Name)
	}
	for i := range ini.Lhs {
		l, err := role(src(ini.Lhs[i]))
		if err != nil {
			return nil, err
		}
		r, err := role(src(ini.Rhs[i]))
		if err != nil {
			return nil, err
		}
		sh.Init = append(sh.Init, [2]string{l, r})
	}
	cond, ok := fs.Cond.(*goast.BinaryExpr)
	if !ok {
		return nil, fmt.Errorf("%s: condition is not a binary expression: %s", fd.Name.Name, src(fs.Cond))
	}
	cl, err := role(src(cond.X))
	if err != nil {
		return nil, err
	}
	cr, err := role(src(cond.Y))
	if err != nil {
		return nil, err
	}
	sh.Cond = [3]string{cl, cond.Op.String(), cr}
	post, ok := fs.Post.(*goast.AssignStmt)
	if !ok || len(post.Lhs) != 1 || len(post.Rhs) != 1 {
		if id, ok2 := fs.Post.(*goast.IncDecStmt); ok2 {
			l, err := role(src(id.X))
			if err != nil {
				return nil, err
			}
			tok := "+="
			if id.Tok == gotoken.DEC {
				tok = "-="
			}
			sh.Post = [3]string{l, tok, "const:1"}
		} else {
			return nil, fmt.Errorf("%s: post statement is not `x op= y`", fd.Name.Name)
		}
	} else {
		pl, err := role(src(post.Lhs[0]))
		if err != nil {
			return nil, err
		}
		pr, err := role(src(post.Rhs[0]))
		if err != nil {
			return nil, err
		}
		sh.Post = [3]string{pl, post.Tok.String(), pr}
	}
	// body: the statement that hands the value to the user's body
	if len(fs.Body.List) > 0 {
		if as, ok := fs.Body.List[0].(*goast.AssignStmt); ok && len(as.Lhs) == 1 && src(as.Lhs[0]) == "k" {
			sh.Bind = "k=" + src(as.Rhs[0])
		}
	}
	return sh, nil
}

func rangeOf(fd *goast.FuncDecl) (args []string, iter string, err error) {
	goast.Inspect(fd, func(n goast.Node) bool {
		ce, ok := n.(*goast.CallExpr)
		if !ok {
			return true
		}
		sel, ok := ce.Fun.(*goast.SelectorExpr)
		if !ok {
			return true
		}
		switch sel.Sel.Name {
		case "NewRange__0":
			for _, a := range ce.Args {
				r, e := role(src(a))
				if e != nil {
					err = e
					return false
				}
				args = append(args, r)
			}
			iter += "NewRange__0;"
		case "Gop_Enum", "Next":
			iter += sel.Sel.Name + ";"
		}
		return true
	})
	if args == nil && err == nil {
		err = fmt.Errorf("%s: no NewRange__0 call emitted", fd.Name.Name)
	}
	return
}

func doShape() error {
	out, err := compile("templates.xgo", templates)
	if err != nil {
		return fmt.Errorf("compiling the template programs: %v", err)
	}
	fset := gotoken.NewFileSet()
	f, err := goparser.ParseFile(fset, "templates.go", out, 0)
	if err != nil {
		return fmt.Errorf("emitted Go does not parse: %v", err)
	}
	res := shapes{Loops: map[string]*loopShape{}, Ranges: map[string][]string{}, Iter: map[string]string{}}
	for _, d := range f.Decls {
		fd, ok := d.(*goast.FuncDecl)
		if !ok {
			continue
		}
		name := fd.Name.Name
		switch {
		case strings.HasPrefix(name, "for"):
			sh, err := loopOf(fd)
			if err != nil {
				return err
			}
			res.Loops[name] = sh
		case strings.HasPrefix(name, "compr"):
			a, it, err := rangeOf(fd)
			if err != nil {
				return err
			}
			res.Ranges[name] = a
			res.Iter[name] = it
		}
	}
	if len(res.Loops) != 10 || len(res.Ranges) != 4 {
		return fmt.Errorf("expected 10 loop templates and 4 range templates, got %d and %d", len(res.Loops), len(res.Ranges))
	}
	b, _ := json.MarshalIndent(res, "", " ")
	if shapeOut != "" {
		return os.WriteFile(shapeOut, append(b, '\n'), 0o644)
	}
	fmt.Println(string(b))
	return nil
}

var shapeOut string

// ---------------------------------------------------------------- grid program

const progHead = `import (
	"bufio"
	"fmt"
	"os"
	"strings"
)

const CAP = 30

func show(out []int, div bool) string {
	if div {
		return "DIV"
	}
	parts := make([]string, len(out))
	for i, v := range out {
		parts[i] = fmt.Sprint(v)
	}
	return "[" + strings.Join(parts, ",") + "]"
}

func forin(s, e, st int) (r string) {
	defer func() {
		if x := recover(); x != nil {
			r = "PANIC"
		}
	}()
	var out []int
	div := false
	for i <- s:e:st {
		if len(out) >= CAP {
			div = true
			break
		}
		out = append(out, i)
	}
	return show(out, div)
}

func forrange(s, e, st int) (r string) {
	defer func() {
		if x := recover(); x != nil {
			r = "PANIC"
		}
	}()
	var out []int
	div := false
	for i := range s:e:st {
		if len(out) >= CAP {
			div = true
			break
		}
		out = append(out, i)
	}
	return show(out, div)
}

func forassign(s, e, st int) (r string) {
	defer func() {
		if x := recover(); x != nil {
			r = "PANIC"
		}
	}()
	var out []int
	div := false
	var k int
	for k = range s:e:st {
		if len(out) >= CAP {
			div = true
			break
		}
		out = append(out, k)
	}
	return show(out, div)
}

func forincomp(s, e, st int) (r string) {
	defer func() {
		if x := recover(); x != nil {
			r = "PANIC"
		}
	}()
	var out []int
	div := false
	for i <- s+0:e*1:st-0 {
		if len(out) >= CAP {
			div = true
			break
		}
		out = append(out, i)
	}
	return show(out, div)
}

func forassigncomp(s, e, st int) (r string) {
	defer func() {
		if x := recover(); x != nil {
			r = "PANIC"
		}
	}()
	var out []int
	div := false
	var k int
	for k = range s+0:e*1:st-0 {
		if len(out) >= CAP {
			div = true
			break
		}
		out = append(out, k)
	}
	return show(out, div)
}

func forincond(s, e, st int) (r string) {
	defer func() {
		if x := recover(); x != nil {
			r = "PANIC"
		}
	}()
	var out []int
	div := false
	for i <- s:e:st if true {
		if len(out) >= CAP {
			div = true
			break
		}
		out = append(out, i)
	}
	return show(out, div)
}

func compr(s, e, st int) (r string) {
	defer func() {
		if x := recover(); x != nil {
			r = "PANIC"
		}
	}()
	out := [i for i <- s:e:st]
	return show(out, len(out) > CAP)
}

func comprcomp(s, e, st int) (r string) {
	defer func() {
		if x := recover(); x != nil {
			r = "PANIC"
		}
	}()
	out := [i for i <- s+0:e*1:st-0]
	return show(out, len(out) > CAP)
}

// omitted start / omitted step
func fordef(e int) (r string) {
	var out []int
	div := false
	for i <- :e {
		if len(out) >= CAP {
			div = true
			break
		}
		out = append(out, i)
	}
	return show(out, div)
}

func comprdef(e int) (r string) {
	out := [i for i <- :e]
	return show(out, len(out) > CAP)
}

func fornostep(s, e int) (r string) {
	var out []int
	div := false
	for i <- s:e {
		if len(out) >= CAP {
			div = true
			break
		}
		out = append(out, i)
	}
	return show(out, div)
}

func comprnostep(s, e int) (r string) {
	out := [i for i <- s:e]
	return show(out, len(out) > CAP)
}
`

const progMain = `
func main() {
	sc := bufio.NewScanner(os.Stdin)
	w := bufio.NewWriter(os.Stdout)
	defer w.Flush()
	for sc.Scan() {
		var tag string
		var s, e, st int
		fmt.Sscan(sc.Text(), &tag, &s, &e, &st)
		switch tag {
		case "G":
			fmt.Fprintf(w, "forin=%s forrange=%s forassign=%s forincomp=%s forassigncomp=%s forincond=%s compr=%s comprcomp=%s\n",
				forin(s, e, st), forrange(s, e, st), forassign(s, e, st), forincomp(s, e, st), forassigncomp(s, e, st), forincond(s, e, st), compr(s, e, st), comprcomp(s, e, st))
		case "D":
			fmt.Fprintf(w, "fordef=%s comprdef=%s fornostep=%s comprnostep=%s\n", fordef(e), comprdef(e), fornostep(s, e), comprnostep(s, e))
		case "L":
			fmt.Fprintln(w, lit(s))
		default:
			fmt.Fprintln(w, "?")
		}
		w.Flush() // a case that crashes or hangs the program must not take the earlier results with it
	}
}
`

func litFunc(k int, s, e, st int64) string {
	return fmt.Sprintf(`
func lit%d() string {
	var o1, o2 []int
	d1, d2 := false, false
	for i <- %d:%d:%d {
		if len(o1) >= CAP {
			d1 = true
			break
		}
		o1 = append(o1, i)
	}
	for i := range %d:%d:%d {
		if len(o2) >= CAP {
			d2 = true
			break
		}
		o2 = append(o2, i)
	}
	o3 := [i for i <- %d:%d:%d]
	return "forin=" + show(o1, d1) + " forrange=" + show(o2, d2) + " compr=" + show(o3, len(o3) > CAP)
}
`, k, s, e, st, s, e, st, s, e, st)
}

func doGen(dir, lits string) error {
	var b strings.Builder
	b.WriteString(progHead)
	var sw strings.Builder
	sw.WriteString("\nfunc lit(k int) string {\n\tswitch k {\n")
	if lits != "" {
		f, err := os.Open(lits)
		if err != nil {
			return err
		}
		sc := bufio.NewScanner(f)
		k := 0
		for sc.Scan() {
			var s, e, st int64
			if n, _ := fmt.Sscan(sc.Text(), &s, &e, &st); n != 3 {
				continue
			}
			b.WriteString(litFunc(k, s, e, st))
			fmt.Fprintf(&sw, "\tcase %d:\n\t\treturn lit%d()\n", k, k)
			k++
		}
		f.Close()
	}
	sw.WriteString("\t}\n\treturn \"?\"\n}\n")
	b.WriteString(sw.String())
	b.WriteString(progMain)
	xsrc := b.String()
	if err := os.WriteFile(filepath.Join(dir, "main.xgo"), []byte(xsrc), 0o644); err != nil {
		return err
	}
	out, err := compile("main.xgo", xsrc)
	if err != nil {
		return fmt.Errorf("compiling the grid program: %v", err)
	}
	return os.WriteFile(filepath.Join(dir, "main.go"), out, 0o644)
}

func main() {
	if len(os.Args) < 2 {
		fmt.Fprintln(os.Stderr, "usage: h_c04 shape | gen -dir D [-lits FILE]")
		os.Exit(2)
	}
	var err error
	switch os.Args[1] {
	case "shape":
		err = doShape()
	case "gen":
		fs := flag.NewFlagSet("gen", flag.ExitOnError)
		dir := fs.String("dir", ".", "output directory")
		lits := fs.String("lits", "", "file with literal triples")
		sh := fs.String("shape", "", "also write the shape JSON to this file (same compiler instance)")
		fs.Parse(os.Args[2:])
		if *sh != "" {
			shapeOut = *sh
			err = doShape()
		}
		if err == nil {
			err = doGen(*dir, *lits)
		}
	default:
		err = fmt.Errorf("unknown mode %q", os.Args[1])
	}
	if err != nil {
		fmt.Println("ERROR:", err)
		os.Exit(1)
	}
}
