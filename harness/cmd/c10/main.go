// Implementation side of the C10 correspondence.
//
// stdin: one JSON case per line {"pkg":"g0","src":"<XGo source>"}.  Each case is compiled with cl.NewPackage
// (through x/build), the emitted Go is written to <root>/<pkg>/xgo_autogen.go, and what /repo contributed to the
// overload machinery is read back from the emitted Go with go/parser: every constant whose name starts with
// "Gopo" (name -> string value) and every function / method whose name contains "__".
// stdout: one JSON result per line.  Compiler panics are results, not crashes.
package main

import (
	"bufio"
	"encoding/json"
	"flag"
	"fmt"
	goast "go/ast"
	goparser "go/parser"
	gotoken "go/token"
	"os"
	"path/filepath"
	"strconv"
	"strings"

	"github.com/goplus/gogen/packages"
	"github.com/goplus/gogen/packages/cache"
	"github.com/goplus/xgo/cl"
	"github.com/goplus/xgo/token"
	"github.com/goplus/xgo/x/build"
)

type inCase struct {
	Pkg string `json:"pkg"`
	Src string `json:"src"`
}
type outCase struct {
	Pkg    string            `json:"pkg"`
	Status string            `json:"status"`
	Consts map[string]string `json:"consts,omitempty"`
	Funcs  []string          `json:"funcs,omitempty"` // "name" or "Recv.name"
	GoSrc  string            `json:"gosrc,omitempty"`
}

func compile(ctx *build.Context, file, src string) (out []byte, err error) {
	defer func() {
		if e := recover(); e != nil {
			err = fmt.Errorf("panic: %v", e)
		}
	}()
	return ctx.BuildFile(file, src)
}

func recvName(e goast.Expr) string {
	switch v := e.(type) {
	case *goast.StarExpr:
		return recvName(v.X)
	case *goast.Ident:
		return v.Name
	}
	return "?"
}

func main() {
	root := flag.String("root", "", "scratch Go module the emitted packages are written to")
	modDir := flag.String("moddir", "", "Go module the compiler's imports are resolved from")
	keep := flag.Bool("gosrc", false, "include the emitted Go text")
	flag.Parse()
	if *root == "" {
		fmt.Fprintln(os.Stderr, "-root required")
		os.Exit(2)
	}
	if *modDir == "" {
		*modDir, _ = os.Getwd()
	}
	fset := token.NewFileSet()
	imp := packages.NewImporter(fset, *modDir)
	ch := cache.New(func(string, bool) string { return "" })
	if err := ch.Prepare(*modDir, "fmt", "os", "reflect", "strconv", "strings", "errors",
		"github.com/qiniu/x/xgo", "github.com/qiniu/x/xgo/ng", "github.com/qiniu/x/stringutil",
		"github.com/qiniu/x/stringslice", "github.com/qiniu/x/osx", "github.com/qiniu/x/errors"); err != nil {
		fmt.Fprintln(os.Stderr, "go list -export:", err)
		os.Exit(2)
	}
	imp.SetCache(ch)
	sc := bufio.NewScanner(os.Stdin)
	sc.Buffer(make([]byte, 1<<20), 1<<28)
	w := bufio.NewWriter(os.Stdout)
	defer w.Flush()
	for sc.Scan() {
		var in inCase
		if err := json.Unmarshal(sc.Bytes(), &in); err != nil {
			fmt.Fprintf(w, "{\"status\":\"bad-input\"}\n")
			continue
		}
		res := outCase{Pkg: in.Pkg}
		ctx := build.NewContext(imp, token.NewFileSet())
		ctx.LoadConfig = func(c *cl.Config) { c.NoFileLine = true; c.NoAutoGenMain = true }
		dir := filepath.Join(*root, in.Pkg)
		out, err := compile(ctx, filepath.Join(dir, "a.xgo"), in.Src)
		if err != nil {
			res.Status = "cl-error: " + err.Error()
		} else {
			res.Status = "ok"
			os.MkdirAll(dir, 0o755)
			if err := os.WriteFile(filepath.Join(dir, "xgo_autogen.go"), out, 0o644); err != nil {
				res.Status = "io-error: " + err.Error()
			}
			gf, err := goparser.ParseFile(gotoken.NewFileSet(), "xgo_autogen.go", out, 0)
			if err != nil {
				res.Status = "emitted Go does not parse: " + err.Error()
			} else {
				res.Consts = map[string]string{}
				for _, d := range gf.Decls {
					switch v := d.(type) {
					case *goast.GenDecl:
						if v.Tok != gotoken.CONST {
							continue
						}
						for _, sp := range v.Specs {
							vs := sp.(*goast.ValueSpec)
							for i, n := range vs.Names {
								if strings.HasPrefix(n.Name, "Gopo") && i < len(vs.Values) {
									if lit, ok := vs.Values[i].(*goast.BasicLit); ok && lit.Kind == gotoken.STRING {
										s, _ := strconv.Unquote(lit.Value)
										res.Consts[n.Name] = s
									} else {
										res.Consts[n.Name] = "<not a string literal>"
									}
								}
							}
						}
					case *goast.FuncDecl:
						if strings.Contains(v.Name.Name, "__") {
							n := v.Name.Name
							if v.Recv != nil && len(v.Recv.List) == 1 {
								n = recvName(v.Recv.List[0].Type) + "." + n
							}
							res.Funcs = append(res.Funcs, n)
						}
					}
				}
			}
			if *keep {
				res.GoSrc = string(out)
			}
		}
		b, _ := json.Marshal(res)
		w.Write(b)
		w.WriteByte('\n')
	}
}
