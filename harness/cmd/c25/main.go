// Implementation side of C25: x/format.GopstyleSource (Go -> XGo style) and the in-process XGo compiler.
//
//	in : style  \t name \t hex(go source)     out: name \t OK \t hex(converted) \t <shape>      | name \t ERR|PANIC \t msg
//	in : shape  \t name \t hex(xgo/go source) out: name \t OK \t - \t <shape>                    (parse only, no conversion)
//	in : xgo2go \t name \t hex(xgo source)    out: name \t OK \t hex(go source emitted by cl+gogen) | name \t ERR|PANIC \t msg
//	in : gocheck \t name \t hex(go source)    out: name \t OK | name \t ERR \t first go/parser or go/types error
//	     (generator validity: every generated ORIGINAL must be well-typed Go before it is used)
//
// <shape> is the converted file parsed again with the XGo parser and projected to MiniGo (the
// observable compared with the Coq model coq/Model/C25.v, same prefix-token syntax as
// ocaml/c25_driver.ml): call heads, command style flags, lambda forms, imports, shadow entry.
package main

import (
	"bufio"
	"encoding/hex"
	"flag"
	"fmt"
	goast "go/ast"
	"go/importer"
	goparser "go/parser"
	gotoken "go/token"
	"go/types"
	"os"
	"strconv"
	"strings"

	"github.com/goplus/mod/env"
	"github.com/goplus/xgo/ast"
	"github.com/goplus/xgo/parser"
	"github.com/goplus/xgo/token"
	"github.com/goplus/xgo/tool"
	"github.com/goplus/xgo/x/build"
	xformat "github.com/goplus/xgo/x/format"
)

var repo = flag.String("repo", "/repo", "repository root (importer root)")
var impCache = flag.String("impcache", "", "cache file for export data locations")

type sh struct{ b strings.Builder }

func (s *sh) a(xs ...interface{}) {
	for _, x := range xs {
		if s.b.Len() > 0 {
			s.b.WriteByte(' ')
		}
		fmt.Fprint(&s.b, x)
	}
}

func hx(s string) string {
	if s == "" {
		return "-"
	}
	return hex.EncodeToString([]byte(s))
}

func (s *sh) names(l []*ast.Ident) {
	s.a(len(l))
	for _, i := range l {
		s.a(i.Name)
	}
}

func paramNames(fl *ast.FieldList) []*ast.Ident {
	var out []*ast.Ident
	if fl == nil {
		return out
	}
	for _, f := range fl.List {
		if f.Names == nil {
			out = append(out, &ast.Ident{Name: "_"})
		} else {
			out = append(out, f.Names...)
		}
	}
	return out
}

func nres(fl *ast.FieldList) int {
	n := 0
	if fl != nil {
		for _, f := range fl.List {
			if f.Names == nil {
				n++
			} else {
				n += len(f.Names)
			}
		}
	}
	return n
}

func (s *sh) exprs(l []ast.Expr) {
	s.a(len(l))
	for _, e := range l {
		s.expr(e)
	}
}

func (s *sh) stmts(l []ast.Stmt) {
	s.a(len(l))
	for _, st := range l {
		s.stmt(st)
	}
}

func (s *sh) expr(e ast.Expr) {
	switch v := e.(type) {
	case *ast.BasicLit:
		switch v.Kind {
		case token.INT:
			s.a("I", v.Value)
		case token.STRING:
			u, err := strconv.Unquote(v.Value)
			if err != nil {
				u = v.Value
			}
			s.a("S", hx(u))
		default:
			s.a("?lit:" + v.Kind.String())
		}
	case *ast.Ident:
		s.a("V", v.Name)
	case *ast.ParenExpr:
		s.expr(v.X)
	case *ast.BinaryExpr:
		if v.Op == token.ADD {
			s.a("A")
			s.expr(v.X)
			s.expr(v.Y)
		} else if v.Op == token.NEQ {
			// `c != 0` of an if condition: projected to c
			s.expr(v.X)
		} else {
			s.a("?bin:" + v.Op.String())
		}
	case *ast.CallExpr:
		switch f := v.Fun.(type) {
		case *ast.Ident:
			s.a("C", f.Name)
			s.exprs(v.Args)
		case *ast.SelectorExpr:
			if x, ok := f.X.(*ast.Ident); ok {
				s.a("L", x.Name, f.Sel.Name)
				s.exprs(v.Args)
			} else {
				s.a("?callsel")
			}
		default:
			s.a(fmt.Sprintf("?call:%T", v.Fun))
		}
	case *ast.SelectorExpr:
		if x, ok := v.X.(*ast.Ident); ok {
			s.a("F", x.Name, v.Sel.Name)
		} else {
			s.a("?sel")
		}
	case *ast.FuncLit:
		s.a("U")
		s.names(paramNames(v.Type.Params))
		s.a(nres(v.Type.Results))
		s.stmts(v.Body.List)
	case *ast.LambdaExpr:
		s.a("La")
		s.names(v.Lhs)
		s.exprs(v.Rhs)
	case *ast.LambdaExpr2:
		s.a("Lb")
		s.names(v.Lhs)
		s.stmts(v.Body.List)
	case *ast.CompositeLit:
		if t, ok := v.Type.(*ast.Ident); ok && len(v.Elts) == 1 {
			s.a("N", t.Name)
			s.expr(v.Elts[0])
		} else {
			s.a("?composite")
		}
	default:
		s.a(fmt.Sprintf("?expr:%T", e))
	}
}

func isCmd(c *ast.CallExpr) int {
	if c.NoParenEnd != token.NoPos {
		return 1
	}
	return 0
}

func (s *sh) stmt(st ast.Stmt) {
	switch v := st.(type) {
	case *ast.ExprStmt:
		cmd := 0
		switch c := v.X.(type) {
		case *ast.CallExpr:
			cmd = isCmd(c)
		case *ast.Ident:
			// a command-style call without arguments is printed as the bare function name
			s.a("E", 1, "C", c.Name, 0)
			return
		case *ast.SelectorExpr:
			if x, ok := c.X.(*ast.Ident); ok {
				s.a("E", 1, "L", x.Name, c.Sel.Name, 0)
				return
			}
		}
		s.a("E", cmd)
		s.expr(v.X)
	case *ast.AssignStmt:
		if v.Tok == token.DEFINE && len(v.Lhs) == 1 && len(v.Rhs) == 1 {
			if id, ok := v.Lhs[0].(*ast.Ident); ok {
				s.a("D", id.Name)
				s.expr(v.Rhs[0])
				return
			}
		}
		s.a("?assign")
	case *ast.DeclStmt:
		if g, ok := v.Decl.(*ast.GenDecl); ok && g.Tok == token.VAR && len(g.Specs) == 1 {
			sp := g.Specs[0].(*ast.ValueSpec)
			if len(sp.Names) == 1 && len(sp.Values) == 1 {
				s.a("W", sp.Names[0].Name)
				s.expr(sp.Values[0])
				return
			}
		}
		s.a("?declstmt")
	case *ast.IfStmt:
		s.a("If")
		s.expr(v.Cond)
		s.stmts(v.Body.List)
		if b, ok := v.Else.(*ast.BlockStmt); ok {
			s.stmts(b.List)
		} else if v.Else == nil {
			s.a(0)
		} else {
			s.a("?else")
		}
	case *ast.ReturnStmt:
		s.a("R")
		s.exprs(v.Results)
	case *ast.BlockStmt:
		s.a("B")
		s.stmts(v.List)
	default:
		s.a(fmt.Sprintf("?stmt:%T", st))
	}
}

func shape(f *ast.File) string {
	s := &sh{}
	shadow, nopkg := 0, 0
	if f.ShadowEntry != nil {
		shadow = 1
	}
	if f.NoPkgDecl {
		nopkg = 1
	}
	var decls []func()
	for _, d := range f.Decls {
		switch v := d.(type) {
		case *ast.GenDecl:
			for _, sp := range v.Specs {
				switch t := sp.(type) {
				case *ast.ImportSpec:
					t2 := t
					decls = append(decls, func() {
						p, _ := strconv.Unquote(t2.Path.Value)
						nm := p
						if i := strings.LastIndexByte(p, '/'); i >= 0 {
							nm = p[i+1:] // path.Base, as formatFile does
						}
						if t2.Name != nil {
							nm = t2.Name.Name
						}
						s.a("im", nm, hx(p))
					})
				case *ast.ValueSpec:
					t2 := t
					tok := v.Tok
					decls = append(decls, func() {
						if tok == token.VAR && len(t2.Names) == 1 && len(t2.Values) == 1 {
							s.a("va", t2.Names[0].Name)
							s.expr(t2.Values[0])
						} else {
							s.a("?valuespec")
						}
					})
				case *ast.TypeSpec:
					t2 := t
					decls = append(decls, func() { s.a("ty", t2.Name.Name) })
				}
			}
		case *ast.FuncDecl:
			v2 := v
			decls = append(decls, func() {
				if v2.Recv != nil && len(v2.Recv.List) == 1 {
					r := "_"
					if len(v2.Recv.List[0].Names) == 1 {
						r = v2.Recv.List[0].Names[0].Name
					}
					tn := "?"
					if id, ok := v2.Recv.List[0].Type.(*ast.Ident); ok {
						tn = id.Name
					}
					s.a("me", tn, r, v2.Name.Name)
				} else {
					s.a("fn", v2.Name.Name)
				}
				s.names(paramNames(v2.Type.Params))
				if nres(v2.Type.Results) > 0 { // declarations: the model only distinguishes "has results"
					s.a(1)
				} else {
					s.a(0)
				}
				if v2.Body != nil {
					s.stmts(v2.Body.List)
				} else {
					s.a(0)
				}
			})
		default:
			decls = append(decls, func() { s.a(fmt.Sprintf("?decl:%T", d)) })
		}
	}
	s.a(shadow, nopkg, len(decls))
	for _, d := range decls {
		d()
	}
	return s.b.String()
}

func clean(s string) string {
	return strings.ReplaceAll(strings.ReplaceAll(s, "\t", " "), "\n", " / ")
}

func doStyle(name, src string, convert bool) (out string) {
	defer func() {
		if r := recover(); r != nil {
			out = fmt.Sprintf("%s\tPANIC\t%s", name, clean(fmt.Sprint(r)))
		}
	}()
	res := []byte(src)
	if convert {
		var err error
		res, err = xformat.GopstyleSource([]byte(src), name+".go")
		if err != nil {
			return fmt.Sprintf("%s\tERR\tgopstyle: %s", name, clean(err.Error()))
		}
	}
	fset := token.NewFileSet()
	f, err := parser.ParseFile(fset, name+".xgo", res, parser.ParseComments)
	if err != nil {
		return fmt.Sprintf("%s\tERR\treparse: %s\t%s", name, clean(err.Error()), hex.EncodeToString(res))
	}
	h := "-"
	if convert {
		h = hex.EncodeToString(res)
	}
	return fmt.Sprintf("%s\tOK\t%s\t%s", name, h, shape(f))
}

var bctx *build.Context

func doBuild(name, src string) (out string) {
	defer func() {
		if r := recover(); r != nil {
			out = fmt.Sprintf("%s\tPANIC\t%s", name, clean(fmt.Sprint(r)))
		}
	}()
	data, err := bctx.BuildFile(name+".xgo", src)
	if err != nil {
		return fmt.Sprintf("%s\tERR\t%s", name, clean(err.Error()))
	}
	return fmt.Sprintf("%s\tOK\t%s", name, hex.EncodeToString(data))
}

var goFset = gotoken.NewFileSet()
var goImp types.Importer

func doGoCheck(name, src string) (out string) {
	defer func() {
		if r := recover(); r != nil {
			out = fmt.Sprintf("%s\tERR\tpanic %s", name, clean(fmt.Sprint(r)))
		}
	}()
	f, err := goparser.ParseFile(goFset, name+".go", src, 0)
	if err != nil {
		return fmt.Sprintf("%s\tERR\t%s", name, clean(err.Error()))
	}
	if goImp == nil {
		goImp = importer.ForCompiler(goFset, "source", nil)
	}
	var first string
	conf := &types.Config{Importer: goImp, Error: func(e error) {
		if first == "" {
			first = e.Error()
		}
	}}
	conf.Check("main", goFset, []*goast.File{f}, nil)
	if first != "" {
		return fmt.Sprintf("%s\tERR\t%s", name, clean(first))
	}
	return name + "\tOK"
}

func main() {
	flag.Parse()
	os.Chdir(*repo)
	sc := bufio.NewScanner(os.Stdin)
	sc.Buffer(make([]byte, 1<<20), 1<<28)
	w := bufio.NewWriter(os.Stdout)
	defer w.Flush()
	var imp *tool.Importer
	for sc.Scan() {
		f := strings.Split(sc.Text(), "\t")
		if len(f) < 3 {
			fmt.Fprintln(w, "?\tERR\tbad line")
			continue
		}
		b, _ := hex.DecodeString(f[2])
		switch f[0] {
		case "style":
			fmt.Fprintln(w, doStyle(f[1], string(b), true))
		case "gocheck":
			fmt.Fprintln(w, doGoCheck(f[1], string(b)))
		case "shape":
			fmt.Fprintln(w, doStyle(f[1], string(b), false))
		case "xgo2go":
			if bctx == nil {
				fset := token.NewFileSet()
				imp = tool.NewImporter(nil, &env.XGo{Root: *repo, Version: "1.0"}, fset)
				if *impCache != "" {
					imp.Cache().Load(*impCache)
				}
				bctx = build.NewContext(imp, fset)
			}
			fmt.Fprintln(w, doBuild(f[1], string(b)))
		default:
			fmt.Fprintln(w, f[1]+"\tERR\tunknown command")
		}
		w.Flush()
	}
	if imp != nil && *impCache != "" {
		imp.Cache().Save(*impCache)
	}
}
