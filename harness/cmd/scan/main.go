// Implementation side of the scanner checks (C15, C16, C32, C33).
//
//	h_scan run      stdin: one case per line  "<d><m> <hex>"   d = x (XGo scanner) | g (go/scanner) | t (tpl/scanner),
//	                m = c (ScanComments) | n;  stdout: "<result>\t<verdict>"
//	                result  = "tok@pos:lithex ... |off off ..."  (EOF token included; error offsets in report order),
//	                          PANIC or HANG
//	                verdict, computed on the real scanners only:
//	                  d = x: the C15 clauses evaluated on the result ("ok" or the clause that fails)
//	                  d = g: go/scanner against the XGo scanner on the same source and mode (C16):
//	                         ext | eq | eqset | diff-tokens | diff-errors
//	                  d = t: tpl/scanner against the XGo scanner (C32), token kinds mapped by String():
//	                         unshared | eq | eqtok | diff, followed by the finding-set dimensions the
//	                         source belongs to (dim-sharp dim-blockcr)
//	h_scan unicode  stdout: "L lo hi" / "D lo hi" maximal ranges of unicode.IsLetter / unicode.IsDigit above 0x7f
//	h_scan tokens   stdout: one line per (package, value): String, Len, Precedence, IsOperator, IsLiteral, IsKeyword, Lookup
package main

import (
	"bufio"
	"bytes"
	"encoding/hex"
	"fmt"
	goscanner "go/scanner"
	gotoken "go/token"
	"os"
	"strings"
	"unicode"
	"unicode/utf8"

	"github.com/goplus/xgo/scanner"
	"github.com/goplus/xgo/token"
	tplscanner "github.com/goplus/xgo/tpl/scanner"
	tpltoken "github.com/goplus/xgo/tpl/token"
)

type tokT struct {
	tok int
	pos int
	lit string
}

type scanFn func(src []byte, comments bool, errs *[]int) func() tokT

func xgoInit(src []byte, comments bool, errs *[]int) func() tokT {
	var mode scanner.Mode
	if comments {
		mode = scanner.ScanComments
	}
	fset := token.NewFileSet()
	f := fset.AddFile("", fset.Base(), len(src))
	s := new(scanner.Scanner)
	s.Init(f, src, func(pos gotoken.Position, msg string) { *errs = append(*errs, pos.Offset) }, mode)
	return func() tokT {
		pos, tok, lit := s.Scan()
		return tokT{int(tok), int(pos) - f.Base(), lit}
	}
}

func goInit(src []byte, comments bool, errs *[]int) func() tokT {
	var mode goscanner.Mode
	if comments {
		mode = goscanner.ScanComments
	}
	fset := gotoken.NewFileSet()
	f := fset.AddFile("", fset.Base(), len(src))
	s := new(goscanner.Scanner)
	s.Init(f, src, func(pos gotoken.Position, msg string) { *errs = append(*errs, pos.Offset) }, mode)
	return func() tokT {
		pos, tok, lit := s.Scan()
		return tokT{int(tok), int(pos) - f.Base(), lit}
	}
}

func tplInit(src []byte, comments bool, errs *[]int) func() tokT {
	var mode tplscanner.Mode
	if comments {
		mode = tplscanner.ScanComments
	}
	fset := tpltoken.NewFileSet()
	f := fset.AddFile("", fset.Base(), len(src))
	s := new(tplscanner.Scanner)
	s.Init(f, src, func(pos tpltoken.Position, msg string) { *errs = append(*errs, pos.Offset) }, mode)
	return func() tokT {
		t := s.Scan()
		return tokT{int(t.Tok), int(t.Pos) - f.Base(), t.Lit}
	}
}

// scanAll returns (tokens incl. EOF, error offsets, status "" | PANIC | HANG)
func scanAll(init scanFn, src []byte, comments bool, eof int) (toks []tokT, errs []int, status string) {
	defer func() {
		if e := recover(); e != nil {
			status = "PANIC"
		}
	}()
	next := init(src, comments, &errs)
	limit := 2*len(src) + 8
	for i := 0; ; i++ {
		if i > limit {
			return toks, errs, "HANG"
		}
		t := next()
		toks = append(toks, t)
		if t.tok == eof {
			return toks, errs, ""
		}
	}
}

func render(toks []tokT, errs []int, status string) string {
	if status != "" {
		return status
	}
	var b strings.Builder
	for i, t := range toks {
		if i > 0 {
			b.WriteByte(' ')
		}
		fmt.Fprintf(&b, "%d@%d:%s", t.tok, t.pos, hex.EncodeToString([]byte(t.lit)))
	}
	b.WriteByte('|')
	for i, o := range errs {
		if i > 0 {
			b.WriteByte(' ')
		}
		fmt.Fprintf(&b, "%d", o)
	}
	return b.String()
}

// ---- the C15 clauses on the real XGo scanner's output -------------------------------------

func isAutoSemi(t tokT) bool { return t.tok == int(token.SEMICOLON) && t.lit == "\n" }

// alignCR matches lit against src from pos, letting src contain extra '\r' (which stripCR
// deleted); returns the end offset or -1.
func alignCR(src []byte, pos int, lit string, skipCR bool) int {
	i, j := pos, 0
	for j < len(lit) {
		if i >= len(src) {
			return -1
		}
		if src[i] == lit[j] {
			i++
			j++
		} else if skipCR && src[i] == '\r' {
			i++
		} else {
			return -1
		}
	}
	return i
}

// extent returns the end offset of the source text of token t, or -1 and a reason when the
// literal / spelling is not the source text at its offset.
func extent(src []byte, t tokT) (int, string) {
	tok := token.Token(t.tok)
	switch {
	case t.pos < 0 || t.pos > len(src):
		return -1, "offset-out-of-range"
	case tok == token.EOF:
		return t.pos, ""
	case isAutoSemi(t):
		if t.pos < len(src) && src[t.pos] == '\n' {
			return t.pos + 1, ""
		}
		return t.pos, ""
	case tok == token.ILLEGAL:
		if t.lit == "�" && !bytes.HasPrefix(src[t.pos:], []byte("�")) {
			if t.pos < len(src) {
				return t.pos + 1, "" // invalid UTF-8 byte: span is the byte, literal is U+FFFD (carve-out)
			}
			return -1, "illegal-at-eof"
		}
		if e := alignCR(src, t.pos, t.lit, false); e >= 0 && e > t.pos {
			return e, ""
		}
		return -1, "illegal-lit-not-source"
	case tok == token.CSTRING:
		if t.pos < len(src) && (src[t.pos] == 'c' || src[t.pos] == 'C') {
			if e := alignCR(src, t.pos+1, t.lit, false); e >= 0 && len(t.lit) > 0 {
				return e, ""
			}
		}
		return -1, "cstring-lit-not-source"
	case tok == token.PYSTRING:
		if bytes.HasPrefix(src[t.pos:], []byte("py")) {
			if e := alignCR(src, t.pos+2, t.lit, false); e >= 0 && len(t.lit) > 0 {
				return e, ""
			}
		}
		return -1, "pystring-lit-not-source"
	case tok == token.COMMENT:
		if e := alignCR(src, t.pos, t.lit, true); e >= 0 && len(t.lit) > 0 {
			return e, ""
		}
		return -1, "comment-lit-not-source"
	case tok == token.STRING && strings.HasPrefix(t.lit, "`"):
		if e := alignCR(src, t.pos, t.lit, true); e >= 0 {
			return e, ""
		}
		return -1, "rawstring-lit-not-source"
	case tok == token.IDENT || tok == token.INT || tok == token.FLOAT || tok == token.IMAG || tok == token.RAT ||
		tok == token.UNIT || tok == token.CHAR || tok == token.STRING:
		if e := alignCR(src, t.pos, t.lit, false); e >= 0 && len(t.lit) > 0 {
			return e, ""
		}
		return -1, "literal-not-source"
	case tok.IsKeyword():
		if t.lit != tok.String() {
			return -1, "keyword-lit-not-spelling"
		}
		if e := alignCR(src, t.pos, t.lit, false); e >= 0 {
			return e, ""
		}
		return -1, "keyword-not-source"
	default: // operators and delimiters: the spelling is the source text
		sp := tok.String()
		if tok == token.SEMICOLON {
			if t.lit != ";" {
				return -1, "semicolon-lit"
			}
		} else if t.lit != "" {
			return -1, "operator-with-literal"
		}
		if strings.HasPrefix(sp, "token(") || sp == "" {
			return -1, "unknown-token"
		}
		if e := alignCR(src, t.pos, sp, false); e >= 0 {
			return e, ""
		}
		return -1, "operator-not-source"
	}
}

func oracle15(src []byte, comments bool, toks []tokT, status string) string {
	if status != "" {
		return strings.ToLower(status) // not total
	}
	n := len(src)
	if len(toks) == 0 || toks[len(toks)-1].tok != int(token.EOF) {
		return "no-eof"
	}
	if toks[len(toks)-1].pos != n {
		return "eof-not-at-end"
	}
	cnt := 0
	for _, t := range toks[:len(toks)-1] {
		if !isAutoSemi(t) {
			cnt++
		}
	}
	if cnt > n {
		return "more-tokens-than-bytes"
	}
	covered := make([]bool, n)
	prevEnd := 0
	for i, t := range toks {
		e, why := extent(src, t)
		if e < 0 {
			return why
		}
		if i > 0 {
			p := toks[i-1]
			if t.pos < p.pos {
				return "offsets-decrease"
			}
			if t.pos == p.pos && !isAutoSemi(t) && !isAutoSemi(p) {
				return "offsets-not-strictly-increasing"
			}
		}
		if t.pos < prevEnd {
			return "tokens-overlap"
		}
		if e == t.pos && !isAutoSemi(t) && t.tok != int(token.EOF) {
			return "empty-token"
		}
		for k := t.pos; k < e; k++ {
			covered[k] = true
		}
		prevEnd = e
	}
	if comments {
		start := 0
		if bytes.HasPrefix(src, []byte("\xEF\xBB\xBF")) {
			start = 3 // leading BOM is skipped by Init (carve-out)
		}
		for k := start; k < n; k++ {
			if !covered[k] {
				switch src[k] {
				case ' ', '\t', '\r', '\n':
				default:
					return fmt.Sprintf("byte-%d-outside-tokens", k)
				}
			}
		}
	}
	return "ok"
}


// ---- the two cross-scanner properties, on the real scanners -----------------------------------

var extTokens = map[int]bool{int(token.RAT): true, int(token.UNIT): true, int(token.CSTRING): true, int(token.PYSTRING): true,
	int(token.QUESTION): true, int(token.DRARROW): true, int(token.SRARROW): true, int(token.BIDIARROW): true, int(token.ENV): true}

func hasExt(toks []tokT, status string) bool {
	if status != "" {
		return true
	}
	for _, t := range toks {
		if extTokens[t.tok] || (t.tok == int(token.COMMENT) && strings.HasPrefix(t.lit, "#")) {
			return true
		}
	}
	return false
}

func sameToks(a, b []tokT) bool {
	if len(a) != len(b) {
		return false
	}
	for i := range a {
		if a[i] != b[i] {
			return false
		}
	}
	return true
}

func sameInts(a, b []int) bool {
	if len(a) != len(b) {
		return false
	}
	for i := range a {
		if a[i] != b[i] {
			return false
		}
	}
	return true
}

func sameSet(a, b []int) bool {
	m := map[int]int{}
	for _, x := range a {
		m[x] |= 1
	}
	for _, x := range b {
		m[x] |= 2
	}
	for _, v := range m {
		if v != 3 {
			return false
		}
	}
	return true
}

// C16: go/scanner's result against the XGo scanner's on the same input
func verdictGo(src []byte, comments bool, gt []tokT, ge []int, gs string) string {
	xc, _, xcs := scanAll(xgoInit, src, true, int(token.EOF))
	if hasExt(xc, xcs) {
		return "ext"
	}
	xt, xe, xs := scanAll(xgoInit, src, comments, int(token.EOF))
	if xs != "" || gs != "" || !sameToks(xt, gt) {
		return "diff-tokens"
	}
	if sameInts(xe, ge) {
		return "eq"
	}
	if sameSet(xe, ge) {
		return "eqset"
	}
	return "diff-errors"
}

// token kinds of the two packages are identified by String() (spelling / class name)
var xgoToTpl = map[int]int{}
var xgoOnly = map[int]bool{int(token.CSTRING): true, int(token.PYSTRING): true}
var tplOnly = map[int]bool{int(tpltoken.TILDE): true, int(tpltoken.AT): true, int(tpltoken.POW): true}

func init() {
	byName := map[string]int{}
	for v := 0; v <= 260; v++ {
		s := tpltoken.Token(v).String()
		if !strings.HasPrefix(s, "token(") {
			if _, ok := byName[s]; !ok {
				byName[s] = v
			}
		}
	}
	for v := 0; v <= 260; v++ {
		x := token.Token(v)
		s := x.String()
		if strings.HasPrefix(s, "token(") {
			continue
		}
		if x.IsKeyword() {
			xgoOnly[v] = true
		}
		if t, ok := byName[s]; ok {
			xgoToTpl[v] = t
		} else {
			xgoToTpl[v] = -1
		}
	}
}

// C32: tpl/scanner's result against the XGo scanner's on the same input
func verdictTpl(src []byte, comments bool, tt []tokT, te []int, ts string) string {
	xt, xe, xs := scanAll(xgoInit, src, comments, int(token.EOF))
	v := ""
	unshared := false
	if ts == "" && xs == "" {
		for _, t := range tt {
			if tplOnly[t.tok] {
				unshared = true
			}
		}
		for _, t := range xt {
			if xgoOnly[t.tok] {
				unshared = true
			}
		}
	}
	switch {
	case unshared:
		v = "unshared"
	case ts != "" || xs != "" || len(tt) != len(xt):
		v = "diff"
	default:
		v = "eq"
		for i := range xt {
			m, ok := xgoToTpl[xt[i].tok]
			if !ok || m != tt[i].tok || xt[i].pos != tt[i].pos || xt[i].lit != tt[i].lit {
				v = "diff"
				break
			}
		}
		if v == "eq" && !sameInts(xe, te) {
			v = "eqtok"
		}
	}
	// the dimensions on which the two scanners are known to differ (explored by the fixed finding set)
	if bytes.IndexByte(src, '#') >= 0 && (bytes.IndexByte(src, '\r') >= 0 || bytes.Contains(src, []byte("#*"))) {
		v += " dim-sharp"
	}
	if bytes.Contains(src, []byte("*\r")) {
		v += " dim-blockcr"
	}
	return v
}

func runCases() {
	sc := bufio.NewScanner(os.Stdin)
	sc.Buffer(make([]byte, 1<<20), 1<<26)
	w := bufio.NewWriter(os.Stdout)
	defer w.Flush()
	for sc.Scan() {
		line := sc.Text()
		if len(line) < 3 {
			fmt.Fprintln(w, "BADCASE\t-")
			continue
		}
		src, err := hex.DecodeString(strings.TrimSpace(line[3:]))
		if err != nil {
			fmt.Fprintln(w, "BADCASE\t-")
			continue
		}
		comments := line[1] == 'c'
		switch line[0] {
		case 'x':
			toks, errs, st := scanAll(xgoInit, src, comments, int(token.EOF))
			fmt.Fprintf(w, "%s\t%s\n", render(toks, errs, st), oracle15(src, comments, toks, st))
		case 'g':
			toks, errs, st := scanAll(goInit, src, comments, int(gotoken.EOF))
			fmt.Fprintf(w, "%s\t%s\n", render(toks, errs, st), verdictGo(src, comments, toks, errs, st))
		case 't':
			toks, errs, st := scanAll(tplInit, src, comments, int(tpltoken.EOF))
			fmt.Fprintf(w, "%s\t%s\n", render(toks, errs, st), verdictTpl(src, comments, toks, errs, st))
		default:
			fmt.Fprintln(w, "BADCASE\t-")
		}
	}
}

func dumpUnicode() {
	w := bufio.NewWriter(os.Stdout)
	defer w.Flush()
	dump := func(tag string, f func(rune) bool) {
		lo := rune(-1)
		for r := rune(0x80); r <= unicode.MaxRune+1; r++ {
			in := r <= unicode.MaxRune && f(r)
			if in && lo < 0 {
				lo = r
			}
			if !in && lo >= 0 {
				fmt.Fprintf(w, "%s %d %d\n", tag, lo, r-1)
				lo = -1
			}
		}
	}
	dump("L", unicode.IsLetter)
	dump("D", unicode.IsDigit)
	_ = utf8.RuneError
}

func hx(s string) string {
	if s == "" {
		return "-"
	}
	return hex.EncodeToString([]byte(s))
}

func safe(f func() string) (out string) {
	defer func() {
		if e := recover(); e != nil {
			out = "PANIC"
		}
	}()
	return f()
}

func b2s(b bool) string {
	if b {
		return "1"
	}
	return "0"
}

// dumpTokens: the dynamic token tables, for every value in a range that covers both arrays
func dumpTokens() {
	w := bufio.NewWriter(os.Stdout)
	defer w.Flush()
	for v := -3; v <= 260; v++ {
		x := token.Token(v)
		fmt.Fprintf(w, "xgo %d String=%s Prec=%s IsOp=%s IsLit=%s IsKw=%s\n", v,
			safe(func() string { return hx(x.String()) }),
			safe(func() string { return fmt.Sprint(x.Precedence()) }),
			safe(func() string { return b2s(x.IsOperator()) }),
			safe(func() string { return b2s(x.IsLiteral()) }),
			safe(func() string { return b2s(x.IsKeyword()) }))
		g := gotoken.Token(v)
		fmt.Fprintf(w, "go %d String=%s Prec=%s IsOp=%s IsLit=%s IsKw=%s\n", v,
			safe(func() string { return hx(g.String()) }),
			safe(func() string { return fmt.Sprint(g.Precedence()) }),
			safe(func() string { return b2s(g.IsOperator()) }),
			safe(func() string { return b2s(g.IsLiteral()) }),
			safe(func() string { return b2s(g.IsKeyword()) }))
		if v >= 0 {
			t := tpltoken.Token(v)
			fmt.Fprintf(w, "tpl %d String=%s Len=%s\n", v,
				safe(func() string { return hx(t.String()) }),
				safe(func() string { return fmt.Sprint(t.Len()) }))
		}
	}
	// Lookup on every spelling of the XGo / Go tables and on a few non-keywords
	words := map[string]bool{"x": true, "": true, "Break": true, "iff": true, "go2": true, "IDENT": true}
	for v := 0; v <= 260; v++ {
		words[token.Token(v).String()] = true
		words[gotoken.Token(v).String()] = true
	}
	for wd := range words {
		if strings.HasPrefix(wd, "token(") {
			continue
		}
		fmt.Fprintf(w, "lookup %s xgo=%d go=%d\n", hx(wd), int(token.Lookup(wd)), int(gotoken.Lookup(wd)))
	}
	// ForEach of tpl/token
	var fe []string
	tpltoken.ForEach(0, func(tok tpltoken.Token, lit string) int {
		fe = append(fe, fmt.Sprintf("%d:%s", int(tok), hx(lit)))
		return 0
	})
	fmt.Fprintf(w, "tplforeach %s\n", strings.Join(fe, " "))
}

func main() {
	if len(os.Args) < 2 {
		fmt.Fprintln(os.Stderr, "usage: h_scan run|unicode|tokens")
		os.Exit(2)
	}
	switch os.Args[1] {
	case "run":
		runCases()
	case "unicode":
		dumpUnicode()
	case "tokens":
		dumpTokens()
	default:
		os.Exit(2)
	}
}
