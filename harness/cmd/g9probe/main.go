package main

import (
	"fmt"

	"github.com/goplus/xgo/parser/fsx/memfs"
	"github.com/goplus/xgo/x/build"
)

func main() {
	seen := map[string]int{}
	for i := 0; i < 40; i++ {
		fs := memfs.New(map[string][]string{"/foo": {"a.xgo", "b.xgo"}}, map[string]string{
			"/foo/a.xgo": "package a\n\nfunc A() {}\n", "/foo/b.xgo": "package b\n\nfunc B() {}\n"})
		ctx := build.Default()
		data, err := ctx.BuildFSDir(fs, "/foo")
		seen[fmt.Sprintf("%q %v", data, err)]++
	}
	for k, v := range seen {
		fmt.Println(v, k)
	}
}
