package main

import (
	"fmt"
	"os"

	"vh/internal/g9cl"
)

func main() {
	exp, _ := g9cl.LoadExports(os.Args[1])
	b, _ := os.ReadFile(os.Args[2])
	r := g9cl.Compile(exp, []g9cl.File{{Name: "a.xgo", Src: string(b)}}, g9cl.Options{NoFileLine: len(os.Args) > 3})
	fmt.Println("PARSE:", r.ParseErr, "ERRS:", r.Errs, "PANIC:", r.Panic)
	fmt.Println(r.Go)
}
