// Implementation side of C01 (a valid Go program means the same compiled as XGo).
//
//	h_c01 -exports FILE -mode emit -outdir DIR < programs.jsonl
//	    each line {"id":..,"src": Go source of a main package}.  The source is compiled as main.xgo with
//	    cl.NewPackage + WriteTo; DIR/<id>_go/main.go gets the original source, DIR/<id>_xgo/main.go the
//	    written Go.  Output: id TAB cl-verdict(ok|err|parse|panic) TAB detail.
//	h_c01 -exports FILE -mode norm < programs.jsonl
//	    K-diff projection compared with the Coq model: the order of the package-level variable
//	    declarations in the written Go and the field groups of every struct type:
//	    id TAB vars=<names>;structs=<T>:<a>|<b>..   (names with their letter prefix removed)
package main

import (
	"bufio"
	"encoding/json"
	"flag"
	"fmt"
	goast "go/ast"
	goparser "go/parser"
	gotoken "go/token"
	"go/types"
	"os"
	"strconv"
	"strings"

	"vh/internal/g9cl"
)

type progCase struct {
	ID  string `json:"id"`
	Src string `json:"src"`
}

func num(s string) string { return strings.TrimLeft(s, "abcdefghijklmnopqrstuvwxyzT") }

func norm(goSrc string) string {
	f, err := goparser.ParseFile(gotoken.NewFileSet(), "out.go", goSrc, 0)
	if err != nil {
		return "!unparsable"
	}
	var vars, structs []string
	for _, d := range f.Decls {
		gd, ok := d.(*goast.GenDecl)
		if !ok {
			continue
		}
		for _, sp := range gd.Specs {
			switch s := sp.(type) {
			case *goast.ValueSpec:
				if gd.Tok == gotoken.VAR {
					for _, n := range s.Names {
						vars = append(vars, num(n.Name))
					}
				}
			case *goast.TypeSpec:
				if st, ok := s.Type.(*goast.StructType); ok {
					var groups []string
					for _, fl := range st.Fields.List {
						var ns []string
						for _, n := range fl.Names {
							ns = append(ns, num(n.Name))
						}
						groups = append(groups, strings.Join(ns, "."))
					}
					structs = append(structs, num(s.Name.Name)+":"+strings.Join(groups, "|"))
				}
			}
		}
	}
	return "vars=" + strings.Join(vars, ",") + ";structs=" + strings.Join(structs, ";")
}

func main() {
	exportsFile := flag.String("exports", "", "import path TAB export file")
	mode := flag.String("mode", "emit", "emit | norm")
	outdir := flag.String("outdir", "", "emit mode: where the program pairs are written")
	flag.Parse()
	exp, err := g9cl.LoadExports(*exportsFile)
	if err != nil {
		fmt.Fprintln(os.Stderr, "exports:", err)
		os.Exit(2)
	}
	sc := bufio.NewScanner(os.Stdin)
	sc.Buffer(make([]byte, 1<<20), 1<<28)
	w := bufio.NewWriter(os.Stdout)
	defer w.Flush()
	for sc.Scan() {
		var c progCase
		if err := json.Unmarshal(sc.Bytes(), &c); err != nil {
			fmt.Fprintf(w, "?\tbadcase\t\n")
			continue
		}
		// a generated program is used only if it IS valid Go (go/types on the source): a generator bug must
		// not look like a compiler defect
		if *mode == "emit" {
			fset := gotoken.NewFileSet()
			f, perr := goparser.ParseFile(fset, "main.go", c.Src, 0)
			why := ""
			if perr != nil {
				why = perr.Error()
			} else {
				var errs []string
				conf := types.Config{Importer: exp.Importer(fset), Error: func(e error) { errs = append(errs, e.Error()) }}
				conf.Check("main", fset, []*goast.File{f}, nil)
				if len(errs) > 0 {
					why = errs[0]
				}
			}
			if why != "" {
				fmt.Fprintf(w, "%s\tinvalid-go\t%s\n", c.ID, strconv.Quote(why))
				continue
			}
		}
		// the same source saved as an .xgo file; //line comments off so that panics of the two
		// binaries are compared on their values, not on file names
		r := g9cl.Compile(exp, []g9cl.File{{Name: "main.xgo", Src: c.Src}}, g9cl.Options{NoFileLine: true})
		verdict, detail := "ok", ""
		switch {
		case r.ParserPanic != "" || r.Panic != "" || r.WritePanic != "":
			verdict, detail = "panic", r.ParserPanic+r.Panic+r.WritePanic
		case r.ParseErr != "":
			verdict, detail = "parse", r.ParseErr
		case len(r.Errs) > 0:
			verdict, detail = "err", strings.Join(r.Errs, " | ")
		case r.WriteErr != "":
			verdict, detail = "werr", r.WriteErr
		}
		if *mode == "norm" {
			if verdict == "ok" {
				fmt.Fprintf(w, "%s\t%s\n", c.ID, norm(r.Go))
			} else {
				fmt.Fprintf(w, "%s\t!%s %s\n", c.ID, verdict, strconv.Quote(detail))
			}
			continue
		}
		if *outdir != "" {
			// the original source is always written (so that the check can tell "valid Go rejected by
			// XGo" from "the generator produced invalid Go"); the XGo output only when there is one
			pair := []struct{ suffix, src string }{{"_go", c.Src}}
			if verdict == "ok" {
				pair = append(pair, struct{ suffix, src string }{"_xgo", r.Go})
			}
			for _, v := range pair {
				d := *outdir + "/" + c.ID + v.suffix
				if err := os.MkdirAll(d, 0o755); err != nil {
					verdict, detail = "ioerr", err.Error()
					break
				}
				if err := os.WriteFile(d+"/main.go", []byte(v.src), 0o644); err != nil {
					verdict, detail = "ioerr", err.Error()
				}
			}
		}
		fmt.Fprintf(w, "%s\t%s\t%s\n", c.ID, verdict, strconv.Quote(detail))
	}
}
