// Implementation side of C41: drives the real fakenet.NewConn (x/fakenet/conn.go) over instrumented
// streams with scripted and with concurrent workloads, records the history of calls / returns /
// source calls / stream closes, evaluates the property on it (direct oracle) and prints the history
// for the extracted Coq transition function (ocaml/c41_driver.ml looks for the hidden steps; gstep
// judges every one of them).
//
//	h_c41 -mode script              < scripts (one per line, tokens r w W f o c C)
//	h_c41 -mode conc -seed S -runs N
//	      [-workers K]              re-executes itself K times on slices of the job list
//
// output, one line per case, TAB separated:   <id> <nthreads> <history> <verdict> <shape>
// history events: C<i>:<f>:<b> call (f = R read / W write, b = buffer id), R<i>:<res> return
// (res = E io.EOF | v<n> n bytes, nil | X the stream's close error), S<f>:<b> source called,
// s<f>:<res> source returns, K<i> Close called, Z<i>:<f> stream closed, k<i> Close returned.
package main

import (
	"bufio"
	"bytes"
	"errors"
	"flag"
	"fmt"
	"io"
	"net"
	"os"
	"os/exec"
	"runtime"
	"strconv"
	"strings"
	"sync"
	"sync/atomic"
	"time"

	"github.com/goplus/xgo/x/fakenet"
)

const patience = 8 * time.Second

var errStreamClosed = errors.New("stream closed by Close")

// ---------------------------------------------------------------- goroutine ids / statuses
func goid() int64 {
	var buf [64]byte
	n := runtime.Stack(buf[:], false)
	f := strings.Fields(string(buf[:n]))
	if len(f) >= 2 {
		v, _ := strconv.ParseInt(f[1], 10, 64)
		return v
	}
	return -1
}

func stacks() []string {
	buf := make([]byte, 1<<18)
	for {
		n := runtime.Stack(buf, true)
		if n < len(buf) {
			buf = buf[:n]
			break
		}
		buf = make([]byte, 2*len(buf))
	}
	return strings.Split(string(buf), "\n\n")
}

// goroutines whose stack contains `frame` and that are neither running nor runnable
func blockedIn(frame string) (blocked, total int) {
	for _, g := range stacks() {
		if !strings.Contains(g, frame) {
			continue
		}
		total++
		hdr := g
		if i := strings.IndexByte(g, '\n'); i >= 0 {
			hdr = g[:i]
		}
		if strings.Contains(hdr, "[running") || strings.Contains(hdr, "[runnable") || strings.Contains(hdr, "[syscall") {
			continue
		}
		blocked++
	}
	return
}

// ---------------------------------------------------------------- the instrumented connection
type sys struct {
	mu     sync.Mutex
	evs    []string
	conn   net.Conn
	in     *inStream
	out    *outStream
	bufID  map[*byte]int // first byte of a Read buffer -> call id
	tids   sync.Map      // goroutine id -> thread id (closers)
	nextID int
	live   int32 // caller goroutines alive
	viol   []string
	nthr   int
	leak0  int
}

func (s *sys) rec(f string, a ...interface{}) {
	s.mu.Lock()
	s.evs = append(s.evs, fmt.Sprintf(f, a...))
	s.mu.Unlock()
}
func (s *sys) violation(v string) {
	s.mu.Lock()
	s.viol = append(s.viol, v)
	s.mu.Unlock()
}
func (s *sys) recovered() {
	if e := recover(); e != nil {
		s.violation(fmt.Sprintf("panic: %v", e))
	}
}
func (s *sys) newThread() int { s.mu.Lock(); t := s.nthr; s.nthr++; s.mu.Unlock(); return t }

type inStream struct {
	s      *sys
	feed   chan []byte
	closed chan struct{}
	once   sync.Once
	slow   time.Duration
	nfed   int
}

func (in *inStream) Read(b []byte) (int, error) {
	id := -1
	if len(b) > 0 {
		in.s.mu.Lock()
		if v, ok := in.s.bufID[&b[0]]; ok {
			id = v
		}
		in.s.mu.Unlock()
	}
	if id < 0 {
		in.s.violation("source-called-with-a-buffer-nobody-passed")
		id = 0
	}
	in.s.rec("SR:%d", id)
	select {
	case chunk := <-in.feed:
		n := copy(b, chunk)
		in.s.rec("sR:v%d", n)
		return n, nil
	case <-in.closed:
		in.s.rec("sR:X")
		return 0, errStreamClosed
	}
}

func (in *inStream) Close() error {
	in.s.rec("Z%d:R", in.s.tidOf())
	in.once.Do(func() { close(in.closed) })
	if in.slow > 0 {
		time.Sleep(in.slow)
	}
	return nil
}

type outStream struct {
	s       *sys
	gate    chan struct{} // one token releases one gated write
	gated   int32         // writes block until released
	closed  chan struct{}
	once    sync.Once
	slow    time.Duration
	written [][]byte
}

func (out *outStream) Write(b []byte) (int, error) {
	id := len(b) - 1
	if id < 0 || !bytes.Equal(b, payload(id)) {
		out.s.violation(fmt.Sprintf("data-modified:write-got-%x", b))
	}
	out.s.rec("SW:%d", id)
	if atomic.LoadInt32(&out.gated) != 0 {
		select {
		case <-out.gate:
		case <-out.closed:
			out.s.rec("sW:X")
			return 0, errStreamClosed
		}
	}
	out.s.mu.Lock()
	out.written = append(out.written, append([]byte(nil), b...))
	out.s.mu.Unlock()
	out.s.rec("sW:v%d", len(b))
	return len(b), nil
}

func (out *outStream) Close() error {
	out.s.rec("Z%d:W", out.s.tidOf())
	out.once.Do(func() { close(out.closed) })
	if out.slow > 0 {
		time.Sleep(out.slow)
	}
	return nil
}

func (s *sys) tidOf() int {
	if v, ok := s.tids.Load(goid()); ok {
		return v.(int)
	}
	s.violation("stream-closed-by-an-unknown-goroutine")
	return 0
}

func payload(id int) []byte { return bytes.Repeat([]byte{byte(id)}, id+1) }
func chunk(k int) []byte    { return bytes.Repeat([]byte{byte(100 + k)}, k) }

func newSys(slowIn, slowOut time.Duration, gated bool) *sys {
	s := &sys{bufID: map[*byte]int{}, nextID: 1}
	s.in = &inStream{s: s, feed: make(chan []byte, 64), closed: make(chan struct{}), slow: slowIn}
	s.out = &outStream{s: s, gate: make(chan struct{}, 64), closed: make(chan struct{}), slow: slowOut}
	if gated {
		s.out.gated = 1
	}
	_, s.leak0 = blockedIn("fakenet.(*connFeeder).run(")
	s.conn = fakenet.NewConn("c41", s.in, s.out)
	return s
}

func classify(n int, err error) string {
	switch {
	case err == io.EOF && n == 0:
		return "E"
	case err == errStreamClosed && n == 0:
		return "X"
	case err == nil:
		return fmt.Sprintf("v%d", n)
	}
	return fmt.Sprintf("?%d,%v", n, err)
}

// one Read / Write by thread tid (a frame the goroutine statuses are looked up by)
func (s *sys) call(tid int, write bool) string {
	s.mu.Lock()
	id := s.nextID
	s.nextID++
	s.mu.Unlock()
	var res string
	if write {
		p := payload(id)
		s.rec("C%d:W:%d", tid, id)
		n, err := s.conn.Write(p)
		res = classify(n, err)
		if !bytes.Equal(p, payload(id)) {
			s.violation("data-modified:caller-buffer")
		}
	} else {
		buf := make([]byte, 64)
		s.mu.Lock()
		s.bufID[&buf[0]] = id
		s.mu.Unlock()
		s.rec("C%d:R:%d", tid, id)
		n, err := s.conn.Read(buf)
		res = classify(n, err)
		if err == nil && !bytes.Equal(buf[:n], chunk(n)) {
			s.violation(fmt.Sprintf("data-modified:read-got-%x", buf[:n]))
		}
	}
	s.rec("R%d:%s", tid, res)
	return res
}

func (s *sys) spawn(write bool) int {
	tid := s.newThread()
	atomic.AddInt32(&s.live, 1)
	go func() {
		defer atomic.AddInt32(&s.live, -1)
		defer s.recovered()
		s.call(tid, write)
	}()
	return tid
}

func (s *sys) closeConn(tid int) {
	s.tids.Store(goid(), tid)
	s.rec("K%d", tid)
	s.conn.Close()
	s.rec("k%d", tid)
}

// settle: every live caller goroutine is blocked (in a select of do) — told by the goroutine status
func (s *sys) settle() bool {
	t0 := time.Now()
	for {
		n0 := len(s.snapshot())
		live := atomic.LoadInt32(&s.live)
		b, _ := blockedIn("main.(*sys).call(")
		if int32(b) == live && atomic.LoadInt32(&s.live) == live && len(s.snapshot()) == n0 {
			// the workers must be at rest too (blocked in a select or inside the source)
			wb, wt := blockedIn("fakenet.(*connFeeder).run(")
			if wb == wt {
				return true
			}
		}
		if time.Since(t0) > patience {
			return false
		}
		time.Sleep(50 * time.Microsecond)
	}
}

func (s *sys) snapshot() []string {
	s.mu.Lock()
	c := append([]string(nil), s.evs...)
	s.mu.Unlock()
	return c
}

func (s *sys) waitCallers() bool {
	t0 := time.Now()
	for atomic.LoadInt32(&s.live) != 0 {
		if time.Since(t0) > patience {
			return false
		}
		time.Sleep(50 * time.Microsecond)
	}
	return true
}

func (s *sys) waitWorkers() bool {
	t0 := time.Now()
	for {
		if _, n := blockedIn("fakenet.(*connFeeder).run("); n <= s.leak0 {
			return true
		}
		if time.Since(t0) > patience {
			return false
		}
		time.Sleep(100 * time.Microsecond)
	}
}

// ---------------------------------------------------------------- the direct oracle
func oracle(evs []string) string {
	type callInfo struct {
		thr    int
		f      string
		b      int
		afterK bool
	}
	cur := map[int]*callInfo{}
	byBuf := map[string]*callInfo{}
	srcRes := map[string]string{} // "f:b" -> result of the source call
	curSrc := map[string]int{}
	sourced := map[string]bool{}
	closeReturned := false
	for _, e := range evs {
		p := strings.Split(e, ":")
		switch e[0] {
		case 'C':
			t, _ := strconv.Atoi(p[0][1:])
			b, _ := strconv.Atoi(p[2])
			ci := &callInfo{thr: t, f: p[1], b: b, afterK: closeReturned}
			cur[t] = ci
			byBuf[p[1]+":"+p[2]] = ci
		case 'S':
			f := e[1:2]
			b, _ := strconv.Atoi(p[1])
			k := f + ":" + p[1]
			if sourced[k] {
				return "buffer handed to the source twice: " + e
			}
			sourced[k] = true
			curSrc[f] = b
			if ci := byBuf[k]; ci == nil {
				return "source called with a buffer that was never passed: " + e
			} else if ci.afterK {
				return "source called for a Read/Write that started after Close had returned: " + e
			}
		case 's':
			f := e[1:2]
			srcRes[f+":"+strconv.Itoa(curSrc[f])] = p[1]
		case 'R':
			t, _ := strconv.Atoi(p[0][1:])
			ci := cur[t]
			if ci == nil {
				return "harness-bug: return without call"
			}
			delete(cur, t)
			res := p[1]
			switch {
			case res == "E":
			case res == "X":
				return fmt.Sprintf("%s returned the stream's close error instead of io.EOF (thread %d, buffer %d)",
					map[string]string{"R": "Read", "W": "Write"}[ci.f], t, ci.b)
			case strings.HasPrefix(res, "v"):
				if ci.afterK {
					return fmt.Sprintf("a call started after Close had returned got a result (%s)", res)
				}
				if want, ok := srcRes[ci.f+":"+strconv.Itoa(ci.b)]; !ok || want != res {
					return fmt.Sprintf("thread %d got %s, the source returned %q for its buffer %d", t, res, want, ci.b)
				}
			default:
				return "unexpected result " + res
			}
			if ci.afterK && res != "E" {
				return "a call started after Close had returned did not get io.EOF"
			}
		case 'k':
			closeReturned = true
		}
	}
	return "ok"
}

// ---------------------------------------------------------------- workloads
type result struct {
	id      string
	nthr    int
	history string
	verdict string
	shape   string
}

func (s *sys) finish(id, verdict, shape string) result {
	evs := s.snapshot()
	v := verdict
	if v == "ok" {
		v = oracle(evs)
	}
	s.mu.Lock()
	if v == "ok" && len(s.viol) > 0 {
		v = s.viol[0]
	}
	s.mu.Unlock()
	return result{id: id, nthr: s.nthr, history: strings.Join(evs, " "), verdict: v, shape: shape}
}

// the common end of every case: Close (if not yet), calls after Close, everybody returns, workers exit
func (s *sys) epilogue(closed bool) string {
	if !closed {
		s.closeConn(s.newThread())
	}
	for _, w := range []bool{false, true} {
		tid := s.newThread()
		done := make(chan string, 1)
		atomic.AddInt32(&s.live, 1)
		go func() { done <- s.call(tid, w); atomic.AddInt32(&s.live, -1) }()
		select {
		case <-done:
		case <-time.After(patience):
			return "call-after-Close-does-not-return"
		}
	}
	if !s.waitCallers() {
		return "pending-call-not-released-by-Close"
	}
	if !s.waitWorkers() {
		return "worker-goroutine-does-not-exit-after-Close"
	}
	return "ok"
}

// script tokens: r start a Read (blocks: in the source, or behind another Read)   f feed one chunk
//   w start a Write whose source call blocks (gate)   W start a Write that goes through   o release one gated write
//   c Close   C Close over streams whose Close is slow (a few ms)
func runScript(id string, toks string) (res result) {
	slow := strings.Contains(toks, "C")
	var sl time.Duration
	if slow {
		sl = 1500 * time.Microsecond
	}
	s := newSys(sl, sl, true)
	defer func() {
		if e := recover(); e != nil {
			res = result{id: id, nthr: s.nthr, verdict: fmt.Sprintf("panic: %v", e)}
		}
	}()
	verdict := "ok"
	closed := false
	nfed := 0
	for _, t := range toks {
		if verdict != "ok" {
			break
		}
		switch t {
		case 'r':
			s.spawn(false)
		case 'w':
			atomic.StoreInt32(&s.out.gated, 1)
			s.spawn(true)
		case 'W':
			// goes through only if no gated write is queued before it; the gate lets one write pass
			s.out.gate <- struct{}{}
			s.spawn(true)
		case 'f':
			nfed++
			s.in.feed <- chunk(nfed)
		case 'o':
			s.out.gate <- struct{}{}
		case 'c', 'C':
			s.closeConn(s.newThread())
			closed = true
		default:
			verdict = "script-error"
		}
		if verdict == "ok" && !s.settle() {
			verdict = "call-neither-returns-nor-blocks"
		}
	}
	if verdict == "ok" {
		verdict = s.epilogue(closed)
	}
	return s.finish(id, verdict, fmt.Sprintf("script len=%d slowclose=%v", len(toks), slow))
}

type rng struct{ s uint64 }

func (r *rng) next() uint64 {
	r.s += 0x9E3779B97F4A7C15
	z := r.s
	z = (z ^ (z >> 30)) * 0xBF58476D1CE4E5B9
	z = (z ^ (z >> 27)) * 0x94D049BB133111EB
	return z ^ (z >> 31)
}
func (r *rng) below(n int) int { return int(r.next() % uint64(n)) }

func runConc(id string, r *rng) (res result) {
	nr, nw, nc := r.below(3), r.below(3), 1+r.below(2)
	if nr+nw == 0 {
		nr = 1
	}
	slowIn := time.Duration(r.below(3)) * 700 * time.Microsecond
	slowOut := time.Duration(r.below(3)) * 700 * time.Microsecond
	gated := r.below(2) == 0
	s := newSys(slowIn, slowOut, gated)
	defer func() {
		if e := recover(); e != nil {
			res = result{id: id, nthr: s.nthr, verdict: fmt.Sprintf("panic: %v", e)}
		}
	}()
	var wg sync.WaitGroup
	nfeed := r.below(4)
	nrel := r.below(4)
	delay := func() time.Duration { return time.Duration(r.below(600)) * time.Microsecond }
	for i := 0; i < nr+nw; i++ {
		write := i >= nr
		ncalls := 1 + r.below(3)
		tid := s.newThread()
		d0 := delay()
		gaps := make([]bool, ncalls)
		for k := range gaps {
			gaps[k] = r.below(2) == 0
		}
		wg.Add(1)
		atomic.AddInt32(&s.live, 1)
		go func() {
			defer wg.Done()
			defer atomic.AddInt32(&s.live, -1)
			defer s.recovered()
			time.Sleep(d0)
			for k := 0; k < ncalls; k++ {
				s.call(tid, write)
				if gaps[k] {
					runtime.Gosched()
				}
			}
		}()
	}
	// environment: feeds chunks, releases gated writes
	fd, rd := delay(), delay()
	wg.Add(2)
	go func() {
		defer wg.Done()
		for k := 1; k <= nfeed; k++ {
			time.Sleep(fd / 2)
			s.in.feed <- chunk(k)
		}
	}()
	go func() {
		defer wg.Done()
		for k := 0; k < nrel; k++ {
			time.Sleep(rd / 2)
			s.out.gate <- struct{}{}
		}
	}()
	// closers
	var cwg sync.WaitGroup
	for c := 0; c < nc; c++ {
		tid := s.newThread()
		d := delay() + delay()
		cwg.Add(1)
		go func() {
			defer cwg.Done()
			defer s.recovered()
			time.Sleep(d)
			s.closeConn(tid)
		}()
	}
	verdict := "ok"
	done := make(chan struct{})
	go func() { cwg.Wait(); wg.Wait(); close(done) }()
	select {
	case <-done:
	case <-time.After(patience):
		verdict = "pending-call-not-released-by-Close"
	}
	if verdict == "ok" {
		verdict = s.epilogue(true)
	}
	return s.finish(id, verdict, fmt.Sprintf("conc readers=%d writers=%d closers=%d gated=%v slowclose=%v",
		nr, nw, nc, gated, slowIn+slowOut > 0))
}

func main() {
	mode := flag.String("mode", "script", "script | conc")
	seed := flag.Uint64("seed", 1, "seed (conc)")
	runs := flag.Int("runs", 100, "number of workloads (conc)")
	from := flag.Int("from", 0, "first workload index (conc)")
	workers := flag.Int("workers", 1, "child processes")
	flag.Parse()
	w := bufio.NewWriter(os.Stdout)
	defer w.Flush()
	var lines []string
	if *mode == "script" {
		sc := bufio.NewScanner(os.Stdin)
		sc.Buffer(make([]byte, 1<<20), 1<<26)
		for sc.Scan() {
			if t := strings.TrimSpace(sc.Text()); t != "" {
				lines = append(lines, t)
			}
		}
	}
	if *workers > 1 {
		type chunkT struct {
			args  []string
			input string
			out   []byte
			err   error
		}
		var chunks []*chunkT
		K := *workers
		if *mode == "script" {
			per := (len(lines) + K - 1) / K
			for a := 0; per > 0 && a < len(lines); a += per {
				b := a + per
				if b > len(lines) {
					b = len(lines)
				}
				chunks = append(chunks, &chunkT{args: []string{"-mode", "script"}, input: strings.Join(lines[a:b], "\n") + "\n"})
			}
		} else {
			per := (*runs + K - 1) / K
			for a := 0; per > 0 && a < *runs; a += per {
				n := per
				if a+n > *runs {
					n = *runs - a
				}
				chunks = append(chunks, &chunkT{args: []string{"-mode", "conc", "-seed", fmt.Sprint(*seed),
					"-from", fmt.Sprint(*from + a), "-runs", fmt.Sprint(n)}})
			}
		}
		var wg sync.WaitGroup
		for _, c := range chunks {
			wg.Add(1)
			go func(c *chunkT) {
				defer wg.Done()
				cmd := exec.Command(os.Args[0], c.args...)
				cmd.Stdin = strings.NewReader(c.input)
				cmd.Stderr = os.Stderr
				c.out, c.err = cmd.Output()
			}(c)
		}
		wg.Wait()
		rc := 0
		for _, c := range chunks {
			w.Write(c.out)
			if c.err != nil {
				if ee, ok := c.err.(*exec.ExitError); ok && ee.ExitCode() == 66 {
					rc = 66
				} else {
					fmt.Fprintln(os.Stderr, "child failed:", c.err)
					rc = 3
				}
			}
		}
		w.Flush()
		os.Exit(rc)
	}
	failures := 0
	emit := func(r result) {
		fmt.Fprintf(w, "%s\t%d\t%s\t%s\t%s\n", r.id, r.nthr, r.history, r.verdict, r.shape)
		w.Flush()
		if r.verdict != "ok" {
			failures++
		}
	}
	skip := func(id string) bool {
		if failures >= 3 {
			fmt.Fprintf(w, "%s\t0\t\tskipped-after-failures\tskipped\n", id)
			return true
		}
		return false
	}
	if *mode == "script" {
		for _, line := range lines {
			if id := "script:" + line; !skip(id) {
				emit(runScript(id, line))
			}
		}
	} else {
		for k := *from; k < *from+*runs; k++ {
			r := &rng{s: *seed*1000003 + uint64(k)*7919}
			if id := fmt.Sprintf("conc:seed=%d:run=%d", *seed, k); !skip(id) {
				emit(runConc(id, r))
			}
		}
	}
}
