// Implementation side of the C36 correspondence: tool.Importer.PkgHash on a real package directory
// of a real temporary module, after every step of a history of file-system operations.
//
//	c36 -dir <scratch>            (two modules are created under <scratch>: plain and with class files)
//
// One case per line:   <cfg: plain|classes> <self: 0|1> <op> <op> ...
//
//	w:<name hex>:<size>:<mtime ns>   write a regular file of <size> bytes, then set its mtime
//	a:<name hex>:<n>                 append n bytes (mtime = now)
//	t:<name hex>:<mtime ns>          set the mtime
//	m:<name hex>                     mkdir
//	d:<name hex>                     remove (file or directory tree)
//	r:<a hex>:<b hex>                rename a to b
//	l:<name hex>:<target hex>        symlink
//
// Operations that fail (rename of a missing file ...) are ignored: what counts is the directory as
// it is afterwards.  Output, one line per case: for the initial (empty) directory and after each op
//
//	<PkgHash>|<entry>,<entry>...     entry = <name hex>:<isdir>:<info ok>:<size>:<mtime ns>   ("-" if none)
//
// blank-separated, then TAB and the verdict of the direct oracle: the hashes of two steps of the
// history (step 0 = the empty directory) must differ exactly when the sets {(name,size,mtime)} of
// compilable, non-underscore, non-directory entries differ (computed here, independently of dirHash).
// The case "INFO" prints: go version hex, xgo version hex, class extensions (hex, comma separated).
package main

import (
	"bufio"
	"encoding/hex"
	"flag"
	"fmt"
	"go/token"
	"os"
	"path"
	"path/filepath"
	"runtime"
	"sort"
	"strconv"
	"strings"
	"time"

	"github.com/goplus/mod/env"
	"github.com/goplus/mod/xgomod"
	"github.com/goplus/xgo/tool"
)

const xgoVersion = "v1.5.0-verif"

var classExts = []string{".gsh", ".spx", ".gmx", "_test.gox", ".tcl", ".tsk"}

type world struct {
	root string
	imp  *tool.Importer
	mod  *xgomod.Module
	cls  []string
	n    int
}

func mkWorld(root, name string, classes bool) (*world, error) {
	dir := filepath.Join(root, name)
	if err := os.MkdirAll(dir, 0o755); err != nil {
		return nil, err
	}
	if err := os.WriteFile(filepath.Join(dir, "go.mod"), []byte("module example.com/"+name+"\n\ngo 1.18\n"), 0o644); err != nil {
		return nil, err
	}
	if classes {
		gox := "project .tcl Script example.com/" + name + "/tcl\nclass .tsk Task\n"
		if err := os.WriteFile(filepath.Join(dir, "gox.mod"), []byte(gox), 0o644); err != nil {
			return nil, err
		}
	}
	mod, err := xgomod.Load(dir)
	if err != nil {
		return nil, err
	}
	w := &world{root: dir, mod: mod}
	if classes {
		if err := mod.ImportClasses(); err != nil {
			return nil, err
		}
		w.cls = classExts
		for _, e := range classExts {
			if !mod.IsClass(e) {
				return nil, fmt.Errorf("class extension %s not registered in the test module", e)
			}
		}
	} else if mod.IsClass(".spx") {
		return nil, fmt.Errorf("plain module unexpectedly knows class files")
	}
	w.imp = tool.NewImporter(mod, &env.XGo{Version: xgoVersion, Root: dir}, token.NewFileSet())
	return w, nil
}

func unhex(s string) string {
	b, err := hex.DecodeString(s)
	if err != nil {
		panic("bad hex " + s)
	}
	return string(b)
}

type ent struct {
	name        string
	dir, ok     bool
	size, mtime int64
}

func dump(dir string) []ent {
	fis, err := os.ReadDir(dir)
	if err != nil {
		panic(err)
	}
	var out []ent
	for _, fi := range fis {
		e := ent{name: fi.Name(), dir: fi.IsDir()}
		if v, err := fi.Info(); err == nil {
			e.ok, e.size, e.mtime = true, v.Size(), v.ModTime().UnixNano()
		}
		out = append(out, e)
	}
	return out
}

// independent statement of "compilable, non-underscore regular (non-directory) file"
func (w *world) relset(es []ent) string {
	var keys []string
	for _, e := range es {
		if e.dir || !e.ok || strings.HasPrefix(e.name, "_") {
			continue
		}
		x := path.Ext(e.name)
		good := x == ".go" || x == ".xgo" || x == ".gop" || x == ".gox"
		for _, c := range w.cls {
			if x == c {
				good = true
			}
		}
		if good {
			keys = append(keys, fmt.Sprintf("%q/%d/%d", e.name, e.size, e.mtime))
		}
	}
	sort.Strings(keys)
	return strings.Join(keys, "\x00")
}

func showEnts(es []ent) string {
	if len(es) == 0 {
		return "-"
	}
	var parts []string
	b := func(x bool) int {
		if x {
			return 1
		}
		return 0
	}
	for _, e := range es {
		parts = append(parts, fmt.Sprintf("%s:%d:%d:%d:%d", hex.EncodeToString([]byte(e.name)), b(e.dir), b(e.ok), e.size, e.mtime))
	}
	return strings.Join(parts, ",")
}

func applyOp(dir, op string) {
	f := strings.Split(op, ":")
	p := func(i int) string { return filepath.Join(dir, unhex(f[i])) }
	num := func(i int) int64 {
		v, err := strconv.ParseInt(f[i], 10, 64)
		if err != nil {
			panic("bad number in " + op)
		}
		return v
	}
	switch f[0] {
	case "w":
		if err := os.WriteFile(p(1), make([]byte, num(2)), 0o644); err == nil {
			t := time.Unix(0, num(3))
			os.Chtimes(p(1), t, t)
		}
	case "a":
		if fh, err := os.OpenFile(p(1), os.O_APPEND|os.O_WRONLY, 0o644); err == nil {
			fh.Write(make([]byte, num(2)))
			fh.Close()
		}
	case "t":
		t := time.Unix(0, num(2))
		os.Chtimes(p(1), t, t)
	case "m":
		os.Mkdir(p(1), 0o755)
	case "d":
		os.RemoveAll(p(1))
	case "r":
		os.Rename(p(1), p(2))
	case "l":
		os.Symlink(unhex(f[2]), p(1))
	default:
		panic("bad op " + op)
	}
}

func (w *world) runCase(self bool, ops []string) (out string, oracle string) {
	w.n++
	pkg := fmt.Sprintf("p%d", w.n)
	dir := filepath.Join(w.root, pkg)
	if err := os.Mkdir(dir, 0o755); err != nil {
		return "SETUP_ERR", "setup:" + err.Error()
	}
	defer os.RemoveAll(dir)
	defer func() {
		if e := recover(); e != nil {
			out, oracle = fmt.Sprintf("PANIC:%v", e), "panic"
		}
	}()
	pkgPath := w.mod.Path() + "/" + pkg
	var steps []string
	var hashes, sets []string
	for i := -1; i < len(ops); i++ {
		if i >= 0 {
			applyOp(dir, ops[i])
		}
		es := dump(dir)
		h := w.imp.PkgHash(pkgPath, self)
		if es2 := dump(dir); showEnts(es2) != showEnts(es) {
			return "UNSTABLE", "directory changed during the step"
		}
		set := w.relset(es)
		// against every earlier step (the previous one first): same sources <=> same hash
		for j := len(hashes) - 1; j >= 0 && oracle == ""; j-- {
			switch {
			case set != sets[j] && h == hashes[j]:
				oracle = fmt.Sprintf("steps%d,%d:sources-differ-hash-equal", j, i+1)
			case set == sets[j] && h != hashes[j]:
				oracle = fmt.Sprintf("steps%d,%d:hash-differs-sources-equal", j, i+1)
			}
		}
		hashes, sets = append(hashes, h), append(sets, set)
		steps = append(steps, h+"|"+showEnts(es))
	}
	return strings.Join(steps, " "), oracle
}

func main() {
	root := flag.String("dir", "", "scratch directory")
	flag.Parse()
	if *root == "" {
		fmt.Fprintln(os.Stderr, "c36: -dir required")
		os.Exit(2)
	}
	plain, err := mkWorld(*root, "plain", false)
	if err != nil {
		fmt.Fprintln(os.Stderr, "c36: setup:", err)
		os.Exit(2)
	}
	classes, err := mkWorld(*root, "classes", true)
	if err != nil {
		fmt.Fprintln(os.Stderr, "c36: setup:", err)
		os.Exit(2)
	}
	sc := bufio.NewScanner(os.Stdin)
	sc.Buffer(make([]byte, 1<<20), 1<<26)
	out := bufio.NewWriter(os.Stdout)
	defer out.Flush()
	for sc.Scan() {
		f := strings.Fields(sc.Text())
		if len(f) == 1 && f[0] == "INFO" {
			var cs []string
			for _, c := range classExts {
				cs = append(cs, hex.EncodeToString([]byte(c)))
			}
			fmt.Fprintf(out, "%s %s %s\n", hex.EncodeToString([]byte(runtime.Version())), hex.EncodeToString([]byte(xgoVersion)), strings.Join(cs, ","))
			continue
		}
		if len(f) < 2 {
			fmt.Fprintln(out, "BADCASE\tbadcase")
			continue
		}
		w := plain
		if f[0] == "classes" {
			w = classes
		}
		res, or := w.runCase(f[1] == "1", f[2:])
		if or == "" {
			or = "ok"
		}
		fmt.Fprintf(out, "%s\t%s\n", res, or)
	}
}
