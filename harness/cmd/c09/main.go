// Implementation side of the C09 correspondence.
//
// stdin: one JSON case per line  {"pkg":"p0","dir":"p0","relbase":"pkg|root|abs","files":[{"name":"a.xgo","src":"..."}]}
// For each case: parse the XGo files with the real parser (ParseComments), project the real AST on the
// statement tree of coq/Model/C09.v (positions from the real fset), compile with cl.NewPackage
// (NoFileLine=false, RelativeBase as asked), write the emitted Go into <root>/<dir>/xgo_autogen.go and
// classify every line of the emitted text per function (D<file>:<line>:<col> | O | C<id>).
// stdout: one JSON result per line.  Nothing of /repo is modified; only exported API is used
// (toForStmt is unexported: its position rules are replicated in rangeFor below and tied by the K-diff).
package main

import (
	"bufio"
	"bytes"
	"encoding/json"
	"flag"
	"fmt"
	"os"
	"path/filepath"
	"regexp"
	"sort"
	"strconv"
	"strings"

	"github.com/goplus/gogen/packages"
	"github.com/goplus/gogen/packages/cache"
	"github.com/goplus/xgo/ast"
	"github.com/goplus/xgo/cl"
	"github.com/goplus/xgo/parser"
	"github.com/goplus/xgo/parser/fsx/memfs"
	"github.com/goplus/xgo/token"
)

type inFile struct {
	Name string `json:"name"`
	Src  string `json:"src"`
}
type inCase struct {
	Pkg     string   `json:"pkg"`
	Dir     string   `json:"dir"`
	RelBase string   `json:"relbase"`
	Files   []inFile `json:"files"`
}
type outCase struct {
	Pkg    string            `json:"pkg"`
	Status string            `json:"status"`
	Sexp   string            `json:"sexp,omitempty"`
	Funcs  map[string]string `json:"funcs,omitempty"`  // g -> classified lines of the emitted function
	Names  map[string]string `json:"names,omitempty"`  // g -> Go function name as printed at run time
	First  map[string]string `json:"first,omitempty"`  // mark id -> "f:l" of the statement whose first call it is (and is on its first line)
	Entry  map[string]string `json:"entry,omitempty"`  // g -> "f:l" of the function name
	FNames []string          `json:"fnames,omitempty"` // file index -> file name as it must appear in directives / runtime.Caller
	Shape  map[string]int    `json:"shape,omitempty"`  // statement-kind histogram
	GoSrc  string            `json:"gosrc,omitempty"`
}

type unsupported string

type conv struct {
	fset    *token.FileSet
	fileIdx map[string]int // absolute file name -> index
	funcG   map[string]int // top-level function name -> g
	first   map[string]string
	shape   map[string]int
}

func (c *conv) pos(p token.Pos) string {
	if p == token.NoPos {
		return "-"
	}
	q := c.fset.Position(p)
	return fmt.Sprintf("%d:%d", c.fileIdx[q.Filename], q.Line)
}

func (c *conv) line(p token.Pos) int { return c.fset.Position(p).Line }

// markID: K of a call mark(K)
func markID(e ast.Expr) (int, bool) {
	call, ok := e.(*ast.CallExpr)
	if !ok {
		return 0, false
	}
	id, ok := call.Fun.(*ast.Ident)
	if !ok || id.Name != "mark" || len(call.Args) != 1 {
		return 0, false
	}
	lit, ok := call.Args[0].(*ast.BasicLit)
	if !ok {
		return 0, false
	}
	n, err := strconv.Atoi(lit.Value)
	return n, err == nil
}

type hdr struct {
	parts   []string
	id      int       // first mark id met (0 = none)
	idPos   token.Pos // position of that mark call
	hasCall bool
	callPos token.Pos // position of the first call of any kind
}

// walk the expressions of a statement header in source order (= the order compileExpr meets them)
func (c *conv) exprs(h *hdr, es ...ast.Expr) {
	for _, e := range es {
		if e == nil {
			continue
		}
		ast.Inspect(e, func(n ast.Node) bool {
			switch v := n.(type) {
			case *ast.FuncLit:
				h.parts = append(h.parts, "(lit "+c.body(v.Body.List)+")")
				return false
			case *ast.LambdaExpr2:
				h.parts = append(h.parts, "(lit "+c.body(v.Body.List)+")")
				return false
			case *ast.LambdaExpr:
				hl := &hdr{}
				c.exprs(hl, v.Rhs...)
				h.parts = append(h.parts, fmt.Sprintf("(lam %d %s)", hl.id, hl.sexp()))
				return false
			case *ast.SelectorExpr:
				c.exprs(h, v.X)
				return false
			case *ast.KeyValueExpr:
				c.exprs(h, v.Value)
				return false
			case *ast.CallExpr:
				if !h.hasCall {
					h.hasCall, h.callPos = true, v.Pos()
				}
				if k, ok := markID(v); ok && h.id == 0 {
					h.id, h.idPos = k, v.Pos()
				}
			case *ast.Ident:
				if g, ok := c.funcG[v.Name]; ok {
					h.parts = append(h.parts, fmt.Sprintf("(ref %d)", g))
				}
			}
			return true
		})
	}
}

func (h *hdr) sexp() string { return "(" + strings.Join(h.parts, " ") + ")" }

// note that mark id is the first marked call of the statement starting at p, if it is on the statement's first line
func (c *conv) noteFirst(h *hdr, p token.Pos) {
	if h.id != 0 && p != token.NoPos && c.line(h.idPos) == c.line(p) {
		c.first[strconv.Itoa(h.id)] = c.pos(p)
	}
}

func (c *conv) body(list []ast.Stmt) string {
	var out []string
	for _, s := range list {
		out = append(out, c.stmt(s))
	}
	return "(" + strings.Join(out, " ") + ")"
}

func (c *conv) ostmt(s ast.Stmt) string {
	if s == nil {
		return "-"
	}
	return c.stmt(s)
}

func (c *conv) doc(g *ast.CommentGroup) string {
	if g == nil {
		return "-"
	}
	skip := 0
	for _, cm := range g.List {
		if strings.HasPrefix(cm.Text, "//") {
			skip++
		} else if cm == g.List[len(g.List)-1] && len(g.List) == 1 {
			skip += strings.Count(cm.Text, "\n") // the code follows the closing */ on the same output line
		} else {
			panic(unsupported("mixed doc comment group"))
		}
	}
	return fmt.Sprintf("%s:%d", c.pos(g.Pos()), skip)
}

// doc of a function declaration: a block comment is followed by a line break there
func (c *conv) funcDoc(g *ast.CommentGroup) string {
	if g == nil {
		return "-"
	}
	skip := 0
	for _, cm := range g.List {
		if strings.HasPrefix(cm.Text, "//") {
			skip++
		} else {
			skip += strings.Count(cm.Text, "\n") + 1
		}
	}
	return fmt.Sprintf("%s:%d", c.pos(g.Pos()), skip)
}

func (c *conv) simple(s ast.Stmt, es ...ast.Expr) string {
	h := &hdr{}
	c.exprs(h, es...)
	c.noteFirst(h, s.Pos())
	return fmt.Sprintf("(simple %d %s %s)", h.id, c.pos(s.Pos()), h.sexp())
}

func (c *conv) stmt(s ast.Stmt) string {
	c.shape[fmt.Sprintf("%T", s)]++
	switch v := s.(type) {
	case *ast.ExprStmt:
		return c.simple(s, v.X)
	case *ast.AssignStmt:
		es := append(append([]ast.Expr{}, v.Lhs...), v.Rhs...)
		return c.simple(s, es...)
	case *ast.ReturnStmt:
		return c.simple(s, v.Results...)
	case *ast.IncDecStmt:
		return c.simple(s, v.X)
	case *ast.DeferStmt:
		return c.simple(s, v.Call)
	case *ast.GoStmt:
		return c.simple(s, v.Call)
	case *ast.SendStmt:
		es := append([]ast.Expr{v.Chan}, v.Values...)
		return c.simple(s, es...)
	case *ast.BranchStmt:
		return c.simple(s)
	case *ast.DeclStmt:
		d, ok := v.Decl.(*ast.GenDecl)
		if !ok || len(d.Specs) != 1 {
			panic(unsupported("DeclStmt with != 1 spec"))
		}
		h := &hdr{}
		switch sp := d.Specs[0].(type) {
		case *ast.ValueSpec:
			c.exprs(h, sp.Values...)
		case *ast.TypeSpec:
		default:
			panic(unsupported("DeclStmt spec"))
		}
		c.noteFirst(h, s.Pos())
		return fmt.Sprintf("(decl %d %s %s %s)", h.id, c.pos(s.Pos()), c.doc(d.Doc), h.sexp())
	case *ast.BlockStmt:
		return fmt.Sprintf("(block %s %s)", c.pos(s.Pos()), c.body(v.List))
	case *ast.IfStmt:
		h := &hdr{}
		init := c.ostmt(v.Init)
		c.exprs(h, v.Cond)
		if v.Init == nil {
			c.noteFirst(h, s.Pos())
		}
		els := "-"
		switch e := v.Else.(type) {
		case nil:
		case *ast.BlockStmt:
			els = "(else " + c.body(e.List) + ")"
		default:
			els = "(elif " + c.stmt(e) + ")"
		}
		return fmt.Sprintf("(if %d %s %s %s %s %s)", h.id, c.pos(s.Pos()), init, h.sexp(), c.body(v.Body.List), els)
	case *ast.ForStmt:
		h := &hdr{}
		init := c.ostmt(v.Init)
		c.exprs(h, v.Cond)
		if v.Init == nil {
			c.noteFirst(h, s.Pos())
		}
		body := c.body(v.Body.List)
		post := c.ostmt(v.Post)
		return fmt.Sprintf("(for %d %s %s %s %s %s)", h.id, c.pos(s.Pos()), init, h.sexp(), post, body)
	case *ast.RangeStmt:
		if _, ok := v.X.(*ast.RangeExpr); ok {
			panic(unsupported("RangeStmt over a range expression"))
		}
		h := &hdr{}
		c.exprs(h, v.X)
		c.noteFirst(h, s.Pos())
		return fmt.Sprintf("(range %d %s %s %s)", h.id, c.pos(s.Pos()), h.sexp(), c.body(v.Body.List))
	case *ast.ForPhraseStmt:
		if re, ok := v.X.(*ast.RangeExpr); ok {
			return c.rangeFor(v, re)
		}
		h := &hdr{}
		c.exprs(h, v.X)
		c.noteFirst(h, s.Pos())
		if v.Cond == nil {
			return fmt.Sprintf("(range %d %s %s %s)", h.id, c.pos(s.Pos()), h.sexp(), c.body(v.Body.List))
		}
		hc := &hdr{}
		c.exprs(hc, v.Cond)
		return fmt.Sprintf("(phraseif %d %s %s %d %s %s)", h.id, c.pos(s.Pos()), h.sexp(), hc.id, hc.sexp(), c.body(v.Body.List))
	case *ast.SwitchStmt:
		h := &hdr{}
		init := c.ostmt(v.Init)
		c.exprs(h, v.Tag)
		if v.Init == nil {
			c.noteFirst(h, s.Pos())
		}
		var cs []string
		for _, st := range v.Body.List {
			cc := st.(*ast.CaseClause)
			hc := &hdr{}
			c.exprs(hc, cc.List...)
			c.noteFirst(hc, cc.Pos())
			body, ft := cc.Body, 0
			if n := len(body); n > 0 {
				if bs, ok := body[n-1].(*ast.BranchStmt); ok && bs.Tok == token.FALLTHROUGH {
					body, ft = body[:n-1], 1
				}
			}
			cs = append(cs, fmt.Sprintf("(case %d %s - %s %s %d)", hc.id, c.pos(cc.Pos()), hc.sexp(), c.body(body), ft))
		}
		return fmt.Sprintf("(switch %d %s %s %s (%s))", h.id, c.pos(s.Pos()), init, h.sexp(), strings.Join(cs, " "))
	case *ast.TypeSwitchStmt:
		h := &hdr{}
		init := c.ostmt(v.Init)
		var ta *ast.TypeAssertExpr
		switch a := v.Assign.(type) {
		case *ast.AssignStmt:
			ta = a.Rhs[0].(*ast.TypeAssertExpr)
		case *ast.ExprStmt:
			ta = a.X.(*ast.TypeAssertExpr)
		}
		c.exprs(h, ta.X)
		if v.Init == nil {
			c.noteFirst(h, s.Pos())
		}
		var cs []string
		for _, st := range v.Body.List {
			cc := st.(*ast.CaseClause)
			cs = append(cs, fmt.Sprintf("(case 0 %s - () %s 0)", c.pos(cc.Pos()), c.body(cc.Body)))
		}
		return fmt.Sprintf("(switch %d %s %s %s (%s))", h.id, c.pos(s.Pos()), init, h.sexp(), strings.Join(cs, " "))
	case *ast.SelectStmt:
		var cs []string
		for _, st := range v.Body.List {
			cc := st.(*ast.CommClause)
			cs = append(cs, fmt.Sprintf("(case 0 %s %s () %s 0)", c.pos(cc.Pos()), c.ostmt(cc.Comm), c.body(cc.Body)))
		}
		return fmt.Sprintf("(select %s (%s))", c.pos(s.Pos()), strings.Join(cs, " "))
	case *ast.LabeledStmt:
		return fmt.Sprintf("(labeled %s %s)", c.pos(s.Pos()), c.stmt(v.Stmt))
	}
	panic(unsupported(fmt.Sprintf("statement %T", s)))
}

// for v <- first:last:step [if cond] { body }  ==  cl/stmt.go toForStmt (positions replicated)
func (c *conv) rangeFor(v *ast.ForPhraseStmt, re *ast.RangeExpr) string {
	valuePos := v.For
	if v.Value != nil && v.Value.Name != "_" {
		valuePos = v.Value.Pos()
	}
	simpleExpr := func(e ast.Expr) bool {
		switch e.(type) {
		case *ast.Ident, *ast.BasicLit:
			return true
		}
		return false
	}
	hi := &hdr{}
	c.exprs(hi, re.First)
	hcnd := &hdr{}
	if simpleExpr(re.Last) {
		c.exprs(hcnd, re.Last)
	} else {
		c.exprs(hi, re.Last)
	}
	hp := &hdr{}
	if re.Expr3 != nil {
		if simpleExpr(re.Expr3) {
			c.exprs(hp, re.Expr3)
		} else {
			c.exprs(hi, re.Expr3)
		}
	}
	c.noteFirst(hi, valuePos)
	init := fmt.Sprintf("(simple %d %s %s)", hi.id, c.pos(valuePos), hi.sexp())
	post := fmt.Sprintf("(simple %d %s %s)", hp.id, c.pos(valuePos), hp.sexp())
	body := c.body(v.Body.List)
	if v.Cond != nil {
		hc := &hdr{}
		ini := c.ostmt(v.Init)
		c.exprs(hc, v.Cond)
		body = fmt.Sprintf("((if %d %s %s %s %s -))", hc.id, c.pos(v.IfPos), ini, hc.sexp(), body)
	}
	return fmt.Sprintf("(for 0 %s %s %s %s %s)", c.pos(v.For), init, hcnd.sexp(), post, body)
}

var (
	reFunc      = regexp.MustCompile(`^func (\([^)]*\) )?([A-Za-z_][A-Za-z_0-9]*)\(`)
	reMark      = regexp.MustCompile(`mark\((\d+)\)`)
)

// classify the emitted Go text, per function
func classify(src string, fnames []string, nameG map[string]int) (map[string]string, error) {
	out := map[string]string{}
	lines := strings.Split(src, "\n")
	var pending []string
	var cur []string
	curG := -1
	inBlock := false
	classifyLine := func(l string) string {
		t := strings.TrimSpace(l)
		if inBlock {
			if i := strings.Index(t, "*/"); i >= 0 {
				inBlock = false
				if strings.TrimSpace(t[i+2:]) == "" {
					return "O"
				}
				return code(t[i+2:])
			}
			return "O"
		}
		if strings.HasPrefix(l, "//line ") {
			// Go's rule (cmd/compile/internal/syntax updateBase): the last ":n" is the column if another
			// ":m" precedes it, otherwise it is the line
			text := l[len("//line "):]
			i := strings.LastIndexByte(text, ':')
			if i < 0 {
				return "X"
			}
			n1, err1 := strconv.Atoi(text[i+1:])
			if err1 != nil {
				return "X"
			}
			file, ln, col := text[:i], strconv.Itoa(n1), "0"
			if j := strings.LastIndexByte(file, ':'); j >= 0 {
				if n0, err0 := strconv.Atoi(file[j+1:]); err0 == nil {
					file, ln, col = file[:j], strconv.Itoa(n0), "9"
					if n1 == 1 {
						col = "1"
					}
				}
			}
			idx := 999
			for i, n := range fnames {
				if n == file {
					idx = i
				}
			}
			return fmt.Sprintf("D%d:%s:%s", idx, ln, col)
		}
		if strings.HasPrefix(t, "//line ") {
			return "X" // a directive that is not in column 1 is not a directive for Go
		}
		if strings.HasPrefix(t, "//") {
			return "O"
		}
		if strings.HasPrefix(t, "/*") {
			if i := strings.Index(t, "*/"); i >= 0 {
				if strings.TrimSpace(t[i+2:]) == "" {
					return "O"
				}
				return code(t[i+2:])
			}
			inBlock = true
			return "O"
		}
		return code(t)
	}
	for _, l := range lines {
		if curG >= 0 {
			cur = append(cur, classifyLine(l))
			if l == "}" {
				out[strconv.Itoa(curG)] = strings.Join(cur, ",")
				curG, cur = -1, nil
			}
			continue
		}
		if m := reFunc.FindStringSubmatch(l); m != nil {
			g, ok := nameG[m[2]]
			if !ok {
				pending = nil
				// a function the model does not know (none is generated)
				return nil, fmt.Errorf("emitted function %s is not in the source", m[2])
			}
			curG = g
			cur = append(pending, "C0")
			pending = nil
			if strings.HasSuffix(l, "}") && !strings.HasSuffix(l, "{") {
				out[strconv.Itoa(curG)] = strings.Join(cur, ",")
				curG, cur = -1, nil
			}
			continue
		}
		if strings.HasPrefix(l, "//") || strings.HasPrefix(l, "/*") || inBlock {
			pending = append(pending, classifyLine(l))
			continue
		}
		pending = nil
	}
	return out, nil
}

func code(t string) string {
	if m := reMark.FindStringSubmatch(t); m != nil {
		return "C" + m[1]
	}
	return "C0"
}

func relName(relbase, abs string) string {
	if relbase == "" {
		return abs
	}
	if r, err := filepath.Rel(relbase, abs); err == nil {
		return filepath.ToSlash(r)
	}
	return abs
}

func runCase(root string, in *inCase, imp *packagesImporter) (res outCase) {
	res.Pkg = in.Pkg
	defer func() {
		if e := recover(); e != nil {
			if u, ok := e.(unsupported); ok {
				res = outCase{Pkg: in.Pkg, Status: "unsupported: " + string(u)}
				return
			}
			res = outCase{Pkg: in.Pkg, Status: fmt.Sprintf("panic: %v", e)}
		}
	}()
	dir := filepath.Join(root, in.Dir)
	names := []string{}
	files := map[string]string{}
	for _, f := range in.Files {
		names = append(names, f.Name)
		files[filepath.Join(dir, f.Name)] = f.Src
	}
	fset := token.NewFileSet()
	mfs := memfs.New(map[string][]string{dir: names}, files)
	pkgs, err := parser.ParseFSDir(fset, mfs, dir, parser.Config{Mode: parser.ParseComments})
	if err != nil {
		res.Status = "parse-error: " + err.Error()
		return
	}
	if len(pkgs) != 1 {
		res.Status = fmt.Sprintf("parse-error: %d packages", len(pkgs))
		return
	}
	var pkg *ast.Package
	for _, p := range pkgs {
		pkg = p
	}
	// files in the order cl uses (sorted by path)
	var paths []string
	for p := range pkg.Files {
		paths = append(paths, p)
	}
	sort.Strings(paths)
	relbase := ""
	switch in.RelBase {
	case "pkg":
		relbase = dir
	case "root":
		relbase = root
	case "sub": // a directory below the package: names start with ../..
		relbase = filepath.Join(dir, "gen", "deep")
	case "sib": // a directory beside the package
		relbase = filepath.Join(root, "zz", "y")
	}
	c := &conv{fset: fset, fileIdx: map[string]int{}, funcG: map[string]int{}, first: map[string]string{}, shape: map[string]int{}}
	for i, p := range paths {
		c.fileIdx[p] = i
		res.FNames = append(res.FNames, relName(relbase, p))
	}
	// number the function declarations
	type fd struct {
		d *ast.FuncDecl
		g int
	}
	var fds []fd
	nameG := map[string]int{}
	res.Names = map[string]string{}
	res.Entry = map[string]string{}
	g := 0
	for _, p := range paths {
		for _, d := range pkg.Files[p].Decls {
			switch v := d.(type) {
			case *ast.FuncDecl:
				if v.Name.Name == "init" || v.Name.Name == "_" || v.Body == nil || v.Operator {
					panic(unsupported("func " + v.Name.Name))
				}
				fds = append(fds, fd{v, g})
				if _, dup := nameG[v.Name.Name]; dup {
					panic(unsupported("duplicate function/method name " + v.Name.Name))
				}
				nameG[v.Name.Name] = g
				if v.Recv == nil {
					c.funcG[v.Name.Name] = g
					res.Names[strconv.Itoa(g)] = pkg.Name + "." + v.Name.Name
				} else {
					res.Names[strconv.Itoa(g)] = "method." + v.Name.Name
				}
				g++
			case *ast.GenDecl:
				if v.Tok == token.VAR || v.Tok == token.CONST {
					for _, sp := range v.Specs {
						for _, val := range sp.(*ast.ValueSpec).Values {
							bad := false
							ast.Inspect(val, func(n ast.Node) bool {
								switch n.(type) {
								case *ast.FuncLit, *ast.CallExpr, *ast.LambdaExpr, *ast.LambdaExpr2:
									bad = true
								}
								return true
							})
							if bad {
								panic(unsupported("package-level initialiser with a call or function literal"))
							}
						}
					}
				}
			default:
				panic(unsupported(fmt.Sprintf("declaration %T", d)))
			}
		}
	}
	var decls []string
	for _, f := range fds {
		d := f.d
		res.Entry[strconv.Itoa(f.g)] = c.pos(d.Name.Pos())
		if d.Recv == nil {
			sh := 0
			if d.Shadow {
				sh = 1
			}
			decls = append(decls, fmt.Sprintf("(func %d %s %s %d %s)", f.g, c.pos(d.Name.Pos()), c.funcDoc(d.Doc), sh, c.body(d.Body.List)))
		} else {
			decls = append(decls, fmt.Sprintf("(method %d %s %s %s)", f.g, c.pos(d.Name.Pos()), c.funcDoc(d.Doc), c.body(d.Body.List)))
		}
	}
	res.Sexp = "(prog " + strings.Join(decls, " ") + ")"
	res.First = c.first
	res.Shape = c.shape

	conf := &cl.Config{Fset: fset, Importer: imp, RelativeBase: relbase, NoAutoGenMain: true}
	out, err := cl.NewPackage("", pkg, conf)
	if err != nil {
		res.Status = "cl-error: " + err.Error()
		return
	}
	var buf bytes.Buffer
	if err := out.WriteTo(&buf); err != nil {
		res.Status = "write-error: " + err.Error()
		return
	}
	res.GoSrc = buf.String()
	if err := os.MkdirAll(dir, 0o755); err != nil {
		res.Status = "io-error: " + err.Error()
		return
	}
	if err := os.WriteFile(filepath.Join(dir, "xgo_autogen.go"), buf.Bytes(), 0o644); err != nil {
		res.Status = "io-error: " + err.Error()
		return
	}
	funcs, err := classify(res.GoSrc, res.FNames, nameG)
	if err != nil {
		res.Status = "classify-error: " + err.Error()
		return
	}
	res.Funcs = funcs
	res.Status = "ok"
	return
}

type packagesImporter = packages.Importer

func main() {
	root := flag.String("root", "", "directory of the scratch Go module the emitted packages are written to")
	keepSrc := flag.Bool("gosrc", false, "include the emitted Go text in the result")
	modDir := flag.String("moddir", "", "Go module directory the compiler's imports are resolved from (the harness module)")
	flag.Parse()
	if *root == "" {
		fmt.Fprintln(os.Stderr, "-root required")
		os.Exit(2)
	}
	if *modDir == "" {
		*modDir, _ = os.Getwd()
	}
	// one `go list -export` for everything cl imports by itself (builtin.go) and the generated programs import
	imp := packages.NewImporter(token.NewFileSet(), *modDir)
	ch := cache.New(func(string, bool) string { return "" })
	if err := ch.Prepare(*modDir, "fmt", "runtime", "os", "reflect", "strconv", "strings", "errors",
		"github.com/qiniu/x/xgo", "github.com/qiniu/x/xgo/ng", "github.com/qiniu/x/stringutil",
		"github.com/qiniu/x/stringslice", "github.com/qiniu/x/osx", "github.com/qiniu/x/errors"); err != nil {
		fmt.Fprintln(os.Stderr, "go list -export:", err)
		os.Exit(2)
	}
	imp.SetCache(ch)
	sc := bufio.NewScanner(os.Stdin)
	sc.Buffer(make([]byte, 1<<20), 1<<28)
	w := bufio.NewWriter(os.Stdout)
	defer w.Flush()
	for sc.Scan() {
		var in inCase
		if err := json.Unmarshal(sc.Bytes(), &in); err != nil {
			fmt.Fprintf(w, "{\"status\":\"bad-input\"}\n")
			continue
		}
		res := runCase(*root, &in, imp)
		if !*keepSrc {
			res.GoSrc = ""
		}
		b, _ := json.Marshal(res)
		w.Write(b)
		w.WriteByte('\n')
	}
}
