// Implementation side of C12: x/typesutil.Checker on one program per stdin line.
//
//	in : kind \t name \t hex(source)          kind = go | xgo | ms
//	out: name \t MAP <ident map> \t INV <invariant violations|ok> \t GO <differences to go/types|ok|n/a> \t STAT <counts>
//
// MAP (the projected observable compared with the MiniScope model for kind=ms): every identifier
// occurrence of the file in source order, numbered 0.., rendered as
//
//	D            recorded in Defs with an object whose Pos() is the identifier's own position
//	D!<k>        recorded in Defs, object declared at the position of occurrence k (k != own)
//	D!nopos      recorded in Defs, object has NoPos;  D!nil  Defs[id] == nil;  D!? other position
//	U<k>         recorded in Uses, object declared at occurrence k
//	Uuniv        recorded in Uses, object without position (universe / builtin / imported)
//	Uext         recorded in Uses, object declared outside this file
//	-            not recorded
//
// INV is the direct oracle: the invariants quoted in the doc comment of typesutil.Info evaluated
// on the real Info (defs at own position, uses elsewhere, Types/Scopes nodes inside the file).
package main

import (
	"bufio"
	"encoding/hex"
	"flag"
	"fmt"
	goast "go/ast"
	"go/importer"
	goparser "go/parser"
	gotoken "go/token"
	"go/types"
	"os"
	"sort"
	"strings"

	"github.com/goplus/mod/env"
	"github.com/goplus/mod/xgomod"
	"github.com/goplus/xgo/ast"
	"github.com/goplus/xgo/parser"
	"github.com/goplus/xgo/token"
	"github.com/goplus/xgo/tool"
	"github.com/goplus/xgo/x/typesutil"
)

var repo = flag.String("repo", "/repo", "repository root (importer root)")

type occ struct {
	id  *ast.Ident
	pos token.Pos
}

func collectIdents(f *ast.File) []occ {
	var out []occ
	seen := map[*ast.Ident]bool{}
	ast.Inspect(f, func(n ast.Node) bool {
		if id, ok := n.(*ast.Ident); ok && id != f.Name && !seen[id] && id.NamePos.IsValid() {
			seen[id] = true
			out = append(out, occ{id, id.Pos()})
		}
		return true
	})
	sort.SliceStable(out, func(i, j int) bool { return out[i].pos < out[j].pos })
	return out
}

func posStr(fset *token.FileSet, p token.Pos) string {
	if !p.IsValid() {
		return "nopos"
	}
	pp := fset.Position(p)
	return fmt.Sprintf("%d:%d", pp.Line, pp.Column)
}

func safePos(n ast.Node) (p token.Pos, e token.Pos, ok bool) {
	defer func() {
		if r := recover(); r != nil {
			ok = false
		}
	}()
	return n.Pos(), n.End(), true
}

type result struct {
	mapS, inv, gocmp, stat string
}

func kindOf(o types.Object) string {
	switch v := o.(type) {
	case *types.Var:
		if v.IsField() {
			return "field"
		}
		return "var"
	case *types.Const:
		return "const"
	case *types.TypeName:
		return "type"
	case *types.Func:
		return "func"
	case *types.PkgName:
		return "pkg"
	case *types.Builtin:
		return "builtin"
	case *types.Nil:
		return "nil"
	case *types.Label:
		return "label"
	case nil:
		return "nilobj"
	}
	return fmt.Sprintf("%T", o)
}

func typeStr(o types.Object) string {
	if o == nil || o.Type() == nil {
		return "-"
	}
	s := types.TypeString(o.Type(), func(p *types.Package) string { return p.Name() })
	// `any` and `interface{}` are the same type; printing differs between versions of go/types
	s = strings.ReplaceAll(s, "interface{}", "any")
	return s
}

var sharedFset = token.NewFileSet()
var goImp types.Importer
var xgoImp types.Importer

func check(kind, name, src string) (res result) {
	defer func() {
		if r := recover(); r != nil {
			res = result{"PANIC", fmt.Sprintf("panic:%v", r), "n/a", "-"}
		}
	}()
	fset := sharedFset
	fname := name
	if !strings.Contains(fname, ".") {
		fname += ".xgo"
	}
	f, err := parser.ParseEntry(fset, fname, src, parser.Config{Mode: parser.ParseComments})
	if err != nil {
		return result{"PARSEERR", "skip:parse", "n/a", "-"}
	}
	pkg := types.NewPackage("main", f.Name.Name)
	conf := &types.Config{Importer: xgoImp, Error: func(error) {}}
	info := &typesutil.Info{
		Types:      make(map[ast.Expr]types.TypeAndValue),
		Defs:       make(map[*ast.Ident]types.Object),
		Uses:       make(map[*ast.Ident]types.Object),
		Implicits:  make(map[ast.Node]types.Object),
		Selections: make(map[*ast.SelectorExpr]*types.Selection),
		Scopes:     make(map[ast.Node]*types.Scope),
		Overloads:  make(map[*ast.Ident]types.Object),
	}
	chk := typesutil.NewChecker(conf, &typesutil.Config{Types: pkg, Fset: fset, Mod: xgomod.Default}, nil, info)
	cerr := chk.Files(nil, []*ast.File{f})
	if cerr != nil {
		return result{"CHECKERR", "skip:typecheck", "n/a", "-"}
	}
	occs := collectIdents(f)
	index := map[token.Pos]int{}
	for i, o := range occs {
		index[o.pos] = i
	}
	fpos, fend := f.Pos(), f.End()
	tf := fset.File(fpos)
	inFile := func(p token.Pos) bool { return p.IsValid() && fset.File(p) == tf }
	var m []string
	var viol []string
	for _, o := range occs {
		id := o.id
		d, isDef := info.Defs[id]
		u, isUse := info.Uses[id]
		switch {
		case isDef:
			switch {
			case d == nil:
				m = append(m, "D!nil")
			case d.Pos() == id.Pos():
				m = append(m, "D")
			case !d.Pos().IsValid():
				m = append(m, "D!nopos")
			default:
				if k, ok := index[d.Pos()]; ok {
					m = append(m, fmt.Sprintf("D!%d", k))
				} else {
					m = append(m, "D!?")
				}
			}
			if d != nil && d.Pos() != id.Pos() {
				viol = append(viol, fmt.Sprintf("def:%s@%s->%s", id.Name, posStr(fset, id.Pos()), posStr(fset, d.Pos())))
			}
			if isUse {
				viol = append(viol, fmt.Sprintf("defanduse:%s@%s", id.Name, posStr(fset, id.Pos())))
			}
		case isUse:
			switch {
			case u == nil:
				m = append(m, "U!nil")
				viol = append(viol, fmt.Sprintf("usenil:%s@%s", id.Name, posStr(fset, id.Pos())))
			case !u.Pos().IsValid():
				m = append(m, "Uuniv")
			case !inFile(u.Pos()):
				m = append(m, "Uext")
			default:
				if k, ok := index[u.Pos()]; ok {
					m = append(m, fmt.Sprintf("U%d", k))
				} else {
					m = append(m, "U?")
				}
			}
			if u != nil && u.Pos() == id.Pos() {
				viol = append(viol, fmt.Sprintf("use:%s@%s", id.Name, posStr(fset, id.Pos())))
			}
		default:
			m = append(m, "-")
		}
	}
	// identifiers recorded but not part of the file
	known := map[*ast.Ident]bool{}
	for _, o := range occs {
		known[o.id] = true
	}
	nForeignDefs := 0
	for id, d := range info.Defs {
		if !known[id] && id != f.Name {
			nForeignDefs++
			if d != nil && d.Pos() != id.Pos() {
				viol = append(viol, fmt.Sprintf("def*:%s@%s->%s", id.Name, posStr(fset, id.Pos()), posStr(fset, d.Pos())))
			}
		}
	}
	for id, u := range info.Uses {
		if !known[id] && u != nil && u.Pos() == id.Pos() && id.Pos().IsValid() {
			viol = append(viol, fmt.Sprintf("use*:%s@%s", id.Name, posStr(fset, id.Pos())))
		}
	}
	// every node in Types / Scopes belongs to the file
	nT, nS := 0, 0
	for e := range info.Types {
		nT++
		p, en, ok := safePos(e)
		if !ok {
			viol = append(viol, fmt.Sprintf("types:nilpos:%T", e))
			continue
		}
		if !(inFile(p) && fpos <= p && en <= fend) {
			viol = append(viol, fmt.Sprintf("types:foreign:%T@%s", e, posStr(fset, p)))
		}
	}
	for n := range info.Scopes {
		nS++
		p, en, ok := safePos(n)
		if !ok {
			viol = append(viol, fmt.Sprintf("scopes:nilpos:%T", n))
			continue
		}
		if !(inFile(p) && fpos <= p && en <= fend) {
			viol = append(viol, fmt.Sprintf("scopes:foreign:%T@%s", n, posStr(fset, p)))
		}
	}
	sort.Strings(viol)
	res.mapS = strings.Join(m, " ")
	if len(viol) == 0 {
		res.inv = "ok"
	} else {
		res.inv = strings.Join(viol, " ")
	}
	res.gocmp = "n/a"
	nCmp, nAgree := 0, 0
	if kind == "go" || kind == "ms" {
		res.gocmp, nCmp, nAgree = compareGo(fset, fname, src, occs, info)
	}
	res.stat = fmt.Sprintf("idents=%d defs=%d uses=%d types=%d scopes=%d foreigndefs=%d gocmp=%d/%d",
		len(occs), len(info.Defs), len(info.Uses), nT, nS, nForeignDefs, nAgree, nCmp)
	return
}

// compareGo type-checks the same text with go/types and compares, identifier by identifier
// (matched by offset), name, object kind, type string and declaration position.
func compareGo(fset *token.FileSet, fname, src string, occs []occ, info *typesutil.Info) (string, int, int) {
	gfset := gotoken.NewFileSet()
	gf, err := goparser.ParseFile(gfset, fname+".go", src, goparser.ParseComments)
	if err != nil {
		return "goparse-error", 0, 0
	}
	ginfo := &types.Info{Defs: map[*goast.Ident]types.Object{}, Uses: map[*goast.Ident]types.Object{}}
	gconf := &types.Config{Importer: goImp, Error: func(error) {}}
	if _, err := gconf.Check("main", gfset, []*goast.File{gf}, ginfo); err != nil {
		return "gotypes-error", 0, 0
	}
	type gent struct {
		def, use types.Object
		isDef    bool
		isUse    bool
	}
	byOff := map[int]gent{}
	for id, o := range ginfo.Defs {
		e := byOff[gfset.Position(id.Pos()).Offset]
		e.def, e.isDef = o, true
		byOff[gfset.Position(id.Pos()).Offset] = e
	}
	for id, o := range ginfo.Uses {
		e := byOff[gfset.Position(id.Pos()).Offset]
		e.use, e.isUse = o, true
		byOff[gfset.Position(id.Pos()).Offset] = e
	}
	gpos := func(o types.Object) string {
		if o == nil {
			return "nil"
		}
		if !o.Pos().IsValid() {
			return "nopos"
		}
		pp := gfset.Position(o.Pos())
		if pp.Filename != fname+".go" {
			return "ext"
		}
		return fmt.Sprintf("%d:%d", pp.Line, pp.Column)
	}
	xpos := func(o types.Object) string {
		if o == nil {
			return "nil"
		}
		if !o.Pos().IsValid() {
			return "nopos"
		}
		pp := fset.Position(o.Pos())
		if pp.Filename != fname {
			return "ext"
		}
		return fmt.Sprintf("%d:%d", pp.Line, pp.Column)
	}
	var diffs []string
	n, agree := 0, 0
	for _, o := range occs {
		off := fset.Position(o.pos).Offset
		g := byOff[off]
		xd, xIsDef := info.Defs[o.id]
		xu, xIsUse := info.Uses[o.id]
		var gs, xs string
		switch {
		case g.isDef:
			gs = "def"
			if g.def != nil {
				gs = fmt.Sprintf("def %s %s %s", g.def.Name(), kindOf(g.def), typeStr(g.def))
			}
		case g.isUse:
			gs = fmt.Sprintf("use %s %s %s @%s", g.use.Name(), kindOf(g.use), typeStr(g.use), gpos(g.use))
		default:
			gs = "-"
		}
		switch {
		case xIsDef:
			xs = "def"
			if xd != nil {
				xs = fmt.Sprintf("def %s %s %s", xd.Name(), kindOf(xd), typeStr(xd))
			}
		case xIsUse:
			xs = fmt.Sprintf("use %s %s %s @%s", xu.Name(), kindOf(xu), typeStr(xu), xpos(xu))
		default:
			xs = "-"
		}
		if gs == "-" && xs == "-" {
			continue
		}
		n++
		if gs == xs {
			agree++
		} else {
			diffs = append(diffs, fmt.Sprintf("%s@%s{go:%s|xgo:%s}", o.id.Name, posStr(fset, o.pos), gs, xs))
		}
	}
	if len(diffs) == 0 {
		return "ok", n, agree
	}
	return strings.Join(diffs, " ; "), n, agree
}

func main() {
	flag.Parse()
	os.Chdir(*repo)
	xgoImp = tool.NewImporter(nil, &env.XGo{Root: *repo, Version: "1.0"}, sharedFset)
	goImp = importer.ForCompiler(gotoken.NewFileSet(), "source", nil)
	sc := bufio.NewScanner(os.Stdin)
	sc.Buffer(make([]byte, 1<<20), 1<<28)
	w := bufio.NewWriter(os.Stdout)
	defer w.Flush()
	for sc.Scan() {
		f := strings.Split(sc.Text(), "\t")
		if len(f) < 3 {
			fmt.Fprintf(w, "?\tBADLINE\tskip\tn/a\t-\n")
			continue
		}
		b, _ := hex.DecodeString(f[2])
		r := check(f[0], f[1], string(b))
		fmt.Fprintf(w, "%s\tMAP %s\tINV %s\tGO %s\tSTAT %s\n", f[1], r.mapS, r.inv, r.gocmp, r.stat)
		w.Flush()
	}
}
