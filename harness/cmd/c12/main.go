// Implementation side of C12: x/typesutil.Checker on one program per stdin line.
//
//	in : kind \t name \t hex(source)          kind = go | xgo | ms
//	out: name \t MAP <ident map> \t INV <invariant violations|ok> \t GO <differences to go/types|ok|n/a> \t STAT <counts>
//
// MAP (the projected observable compared with the MiniScope model for kind=ms): every identifier
// occurrence of the file in source order, numbered 0.., rendered as
//
//	D            recorded in Defs with an object whose Pos() is the identifier's own position
//	D!<off>      recorded in Defs, object.Pos() is the file offset <off> (not the identifier's own)
//	D!nopos      recorded in Defs, object has NoPos;  D!nil  Defs[id] == nil;  D!ext other file
//	U<off>       recorded in Uses, object.Pos() is the file offset <off>
//	Uuniv        recorded in Uses, object without position (universe / builtin)
//	Uext         recorded in Uses, object declared outside this file
//	-            not recorded
//
// followed by |scopes=<len(Info.Scopes)>|niltypes=<1 if Info.Types has a nil / position-less key>
//
// INV is the direct oracle: the invariants quoted in the doc comment of typesutil.Info evaluated
// on the real Info (defs at own position, uses elsewhere, Types/Scopes nodes inside the file).
package main

import (
	"bufio"
	"encoding/hex"
	"flag"
	"fmt"
	goast "go/ast"
	goparser "go/parser"
	gotoken "go/token"
	"go/types"
	"os"
	"sort"
	"strings"

	"github.com/goplus/mod/env"
	"github.com/goplus/mod/xgomod"
	"github.com/goplus/xgo/ast"
	"github.com/goplus/xgo/parser"
	"github.com/goplus/xgo/token"
	"github.com/goplus/xgo/tool"
	"github.com/goplus/xgo/x/typesutil"
)

var repo = flag.String("repo", "/repo", "repository root (importer root)")
var impCache = flag.String("impcache", "", "file caching the export-data locations found by `go list -export` (speeds up start)")

type occ struct {
	id  *ast.Ident
	pos token.Pos
}

func collectIdents(f *ast.File) []occ {
	var out []occ
	seen := map[*ast.Ident]bool{}
	ast.Inspect(f, func(n ast.Node) bool {
		if id, ok := n.(*ast.Ident); ok && id != f.Name && !seen[id] && id.NamePos.IsValid() {
			seen[id] = true
			out = append(out, occ{id, id.Pos()})
		}
		return true
	})
	sort.SliceStable(out, func(i, j int) bool { return out[i].pos < out[j].pos })
	return out
}

func posStr(fset *token.FileSet, p token.Pos) string {
	if !p.IsValid() {
		return "nopos"
	}
	pp := fset.Position(p)
	return fmt.Sprintf("%d:%d", pp.Line, pp.Column)
}

func safePos(n ast.Node) (p token.Pos, e token.Pos, ok bool) {
	defer func() {
		if r := recover(); r != nil {
			ok = false
		}
	}()
	return n.Pos(), n.End(), true
}

type result struct {
	mapS, inv, gocmp, stat string
}

func kindOf(o types.Object) string {
	switch v := o.(type) {
	case *types.Var:
		if v.IsField() {
			return "field"
		}
		return "var"
	case *types.Const:
		return "const"
	case *types.TypeName:
		return "type"
	case *types.Func:
		return "func"
	case *types.PkgName:
		return "pkg"
	case *types.Builtin:
		return "builtin"
	case *types.Nil:
		return "nil"
	case *types.Label:
		return "label"
	case nil:
		return "nilobj"
	}
	return fmt.Sprintf("%T", o)
}

func typeStr(o types.Object) string {
	if o == nil || o.Type() == nil {
		return "-"
	}
	s := types.TypeString(o.Type(), func(p *types.Package) string { return p.Name() })
	// `any` and `interface{}` are the same type; printing differs between versions of go/types
	s = strings.ReplaceAll(s, "interface{}", "any")
	return s
}

var sharedFset = token.NewFileSet()
var goFset = gotoken.NewFileSet()
var goImp types.Importer
var xgoImp types.Importer

func check(kind, name, src string) (res result) {
	defer func() {
		if r := recover(); r != nil {
			res = result{"PANIC", fmt.Sprintf("panic:%v", r), "n/a", "-"}
		}
	}()
	fset := sharedFset
	fname := name
	if !strings.Contains(fname, ".") {
		fname += ".xgo"
	}
	f, err := parser.ParseEntry(fset, fname, src, parser.Config{Mode: parser.ParseComments})
	if err != nil {
		return result{"PARSEERR", "skip:parse:" + strings.ReplaceAll(strings.ReplaceAll(err.Error(), "\t", " "), "\n", " "), "n/a", "-"}
	}
	pkg := types.NewPackage("main", f.Name.Name)
	var firstErr string
	conf := &types.Config{Importer: xgoImp, Error: func(e error) {
		if firstErr == "" {
			firstErr = strings.ReplaceAll(strings.ReplaceAll(e.Error(), "\t", " "), "\n", " ")
		}
	}}
	info := &typesutil.Info{
		Types:      make(map[ast.Expr]types.TypeAndValue),
		Defs:       make(map[*ast.Ident]types.Object),
		Uses:       make(map[*ast.Ident]types.Object),
		Implicits:  make(map[ast.Node]types.Object),
		Selections: make(map[*ast.SelectorExpr]*types.Selection),
		Scopes:     make(map[ast.Node]*types.Scope),
		Overloads:  make(map[*ast.Ident]types.Object),
	}
	chk := typesutil.NewChecker(conf, &typesutil.Config{Types: pkg, Fset: fset, Mod: xgomod.Default}, nil, info)
	cerr := chk.Files(nil, []*ast.File{f})
	if cerr != nil {
		if firstErr == "" {
			firstErr = strings.ReplaceAll(strings.ReplaceAll(cerr.Error(), "\t", " "), "\n", " ")
		}
		return result{"CHECKERR", "skip:typecheck:" + firstErr, "n/a", "-"}
	}
	occs := collectIdents(f)
	fpos, fend := f.Pos(), f.End()
	tf := fset.File(fpos)
	inFile := func(p token.Pos) bool { return p.IsValid() && fset.File(p) == tf }
	var m []string
	var viol []string
	for _, o := range occs {
		id := o.id
		d, isDef := info.Defs[id]
		u, isUse := info.Uses[id]
		switch {
		case isDef:
			switch {
			case d == nil:
				m = append(m, "D!nil")
			case d.Pos() == id.Pos():
				m = append(m, "D")
			case !d.Pos().IsValid():
				m = append(m, "D!nopos")
			default:
				if inFile(d.Pos()) {
					m = append(m, fmt.Sprintf("D!%d", fset.Position(d.Pos()).Offset))
				} else {
					m = append(m, "D!ext")
				}
			}
			if d != nil && d.Pos() != id.Pos() {
				viol = append(viol, fmt.Sprintf("def:%s@%s->%s", id.Name, posStr(fset, id.Pos()), posStr(fset, d.Pos())))
			}
			if isUse {
				// an embedded field is, as documented, in both maps (Defs: the field, Uses: the type name)
				if fv, ok := d.(*types.Var); !(ok && fv.Embedded()) {
					viol = append(viol, fmt.Sprintf("defanduse:%s@%s", id.Name, posStr(fset, id.Pos())))
				}
			}
		case isUse:
			switch {
			case u == nil:
				m = append(m, "U!nil")
				viol = append(viol, fmt.Sprintf("usenil:%s@%s", id.Name, posStr(fset, id.Pos())))
			case !u.Pos().IsValid():
				m = append(m, "Uuniv")
			case !inFile(u.Pos()):
				m = append(m, "Uext")
			default:
				m = append(m, fmt.Sprintf("U%d", fset.Position(u.Pos()).Offset))
			}
			if u != nil && u.Pos() == id.Pos() {
				viol = append(viol, fmt.Sprintf("use:%s@%s", id.Name, posStr(fset, id.Pos())))
			}
		default:
			m = append(m, "-")
		}
	}
	// identifiers recorded but not part of the file
	known := map[*ast.Ident]bool{}
	for _, o := range occs {
		known[o.id] = true
	}
	nForeignDefs := 0
	for id, d := range info.Defs {
		if !known[id] && id != f.Name {
			nForeignDefs++
			if d != nil && d.Pos() != id.Pos() {
				viol = append(viol, fmt.Sprintf("def*:%s@%s->%s", id.Name, posStr(fset, id.Pos()), posStr(fset, d.Pos())))
			}
		}
	}
	for id, u := range info.Uses {
		if !known[id] && u != nil && u.Pos() == id.Pos() && id.Pos().IsValid() {
			viol = append(viol, fmt.Sprintf("use*:%s@%s", id.Name, posStr(fset, id.Pos())))
		}
	}
	// every node in Types / Scopes belongs to the file
	nT, nS := 0, 0
	for e := range info.Types {
		nT++
		p, en, ok := safePos(e)
		if !ok {
			viol = append(viol, fmt.Sprintf("types:nilpos:%T", e))
			continue
		}
		if !(inFile(p) && fpos <= p && en <= fend) {
			viol = append(viol, fmt.Sprintf("types:foreign:%T@%s", e, posStr(fset, p)))
		}
	}
	for n := range info.Scopes {
		nS++
		p, en, ok := safePos(n)
		if !ok {
			viol = append(viol, fmt.Sprintf("scopes:nilpos:%T", n))
			continue
		}
		if !(inFile(p) && fpos <= p && en <= fend) {
			viol = append(viol, fmt.Sprintf("scopes:foreign:%T@%s", n, posStr(fset, p)))
		}
	}
	sort.Strings(viol)
	nilTypes := 0
	for _, v := range viol {
		if strings.HasPrefix(v, "types:nilpos") {
			nilTypes = 1
		}
	}
	res.mapS = fmt.Sprintf("%s|scopes=%d|niltypes=%d", strings.Join(m, " "), len(info.Scopes), nilTypes)
	if len(viol) == 0 {
		res.inv = "ok"
	} else {
		res.inv = strings.Join(viol, " ")
	}
	res.gocmp = "n/a"
	nCmp, nAgree := 0, 0
	if kind == "go" || kind == "ms" {
		res.gocmp, nCmp, nAgree = compareGo(fset, fname, src, occs, info)
	}
	res.stat = fmt.Sprintf("idents=%d defs=%d uses=%d types=%d scopes=%d foreigndefs=%d gocmp=%d/%d",
		len(occs), len(info.Defs), len(info.Uses), nT, nS, nForeignDefs, nAgree, nCmp)
	return
}

// compareGo type-checks the same text with go/types and compares, identifier by identifier
// (matched by offset): whether an object is recorded, its name, its kind, its type string, and
// WHICH identifier occurrence declares it (found through the Defs maps by object identity, so the
// comparison does not depend on Object.Pos()).  Each difference is one item
//
//	<name>@<line>:<col>:<class>{go:...|xgo:...}     class = missing | extra | name | kind | type | decl
func compareGo(fset *token.FileSet, fname, src string, occs []occ, info *typesutil.Info) (string, int, int) {
	gfset := goFset
	gf, err := goparser.ParseFile(gfset, fname+".go", src, goparser.ParseComments)
	if err != nil {
		return "goparse-error", 0, 0
	}
	ginfo := &types.Info{Defs: map[*goast.Ident]types.Object{}, Uses: map[*goast.Ident]types.Object{}}
	var gerr string
	gconf := &types.Config{Importer: goImp, Error: func(e error) {
		if gerr == "" {
			gerr = e.Error()
		}
	}}
	gconf.Check("main", gfset, []*goast.File{gf}, ginfo)
	if gerr != "" {
		return "gotypes-error:" + strings.ReplaceAll(strings.ReplaceAll(gerr, "\t", " "), "\n", " "), 0, 0
	}
	type gent struct {
		obj          types.Object
		isDef, isUse bool
	}
	byOff := map[int]gent{}
	gDeclOff := map[types.Object]int{}
	for id, o := range ginfo.Defs {
		off := gfset.Position(id.Pos()).Offset
		byOff[off] = gent{obj: o, isDef: true}
		if o != nil {
			if old, ok := gDeclOff[o]; !ok || off < old {
				gDeclOff[o] = off
			}
		}
	}
	for id, o := range ginfo.Uses {
		off := gfset.Position(id.Pos()).Offset
		if _, dup := byOff[off]; !dup {
			byOff[off] = gent{obj: o, isUse: true}
		}
	}
	xDeclOff := map[types.Object]int{}
	for id, o := range info.Defs {
		if o != nil && id.Pos().IsValid() {
			off := fset.Position(id.Pos()).Offset
			if old, ok := xDeclOff[o]; !ok || off < old {
				xDeclOff[o] = off
			}
		}
	}
	declStr := func(m map[types.Object]int, o types.Object) string {
		if off, ok := m[o]; ok {
			return fmt.Sprint(off)
		}
		return "none"
	}
	var diffs []string
	n, agree := 0, 0
	for _, o := range occs {
		off := fset.Position(o.pos).Offset
		g := byOff[off]
		var xo types.Object
		xd, xIsDef := info.Defs[o.id]
		xu, xIsUse := info.Uses[o.id]
		if xIsDef {
			xo = xd
		} else if xIsUse {
			xo = xu
		}
		gHas := g.obj != nil
		xHas := xo != nil
		if !gHas && !xHas {
			continue
		}
		n++
		at := fmt.Sprintf("%s@%s", o.id.Name, posStr(fset, o.pos))
		gs, xs := "-", "-"
		if gHas {
			gs = fmt.Sprintf("%s %s %s decl=%s", g.obj.Name(), kindOf(g.obj), typeStr(g.obj), declStr(gDeclOff, g.obj))
			if g.isDef {
				gs = "def " + gs
			}
		}
		if xHas {
			xs = fmt.Sprintf("%s %s %s decl=%s", xo.Name(), kindOf(xo), typeStr(xo), declStr(xDeclOff, xo))
			if xIsDef {
				xs = "def " + xs
			}
		}
		class := ""
		univ := func(o types.Object) bool { return o != nil && o.Pkg() == nil && !o.Pos().IsValid() }
		if gHas && xHas && g.obj.Name() == xo.Name() && univ(g.obj) && (univ(xo) || xo.Parent() == types.Universe || !xo.Pos().IsValid()) {
			// universe / builtin objects: XGo implements the Go builtins through its own builtin package; only the name is compared
			agree++
			continue
		}
		switch {
		case gHas && !xHas:
			class = "missing"
		case !gHas && xHas:
			class = "extra"
		case g.obj.Name() != xo.Name():
			class = "name"
		case kindOf(g.obj) != kindOf(xo) || g.isDef != xIsDef:
			class = "kind"
		case typeStr(g.obj) != typeStr(xo):
			class = "type"
		case declStr(gDeclOff, g.obj) != declStr(xDeclOff, xo):
			class = "decl"
		}
		if class == "" {
			agree++
			continue
		}
		diffs = append(diffs, fmt.Sprintf("%s:%s{go:%s|xgo:%s}", at, class, gs, xs))
	}
	if len(diffs) == 0 {
		return "ok", n, agree
	}
	return strings.Join(diffs, " ; "), n, agree
}

func main() {
	flag.Parse()
	os.Chdir(*repo)
	imp := tool.NewImporter(nil, &env.XGo{Root: *repo, Version: "1.0"}, sharedFset)
	if *impCache != "" {
		imp.Cache().Load(*impCache)
		defer imp.Cache().Save(*impCache)
	}
	xgoImp = imp
	// go/types side: its own importer instance over the same export data (objects are never shared
	// between the two sides; only printed names / kinds / type strings are compared)
	imp2 := tool.NewImporter(nil, &env.XGo{Root: *repo, Version: "1.0"}, goFset)
	if *impCache != "" {
		imp2.Cache().Load(*impCache)
	}
	goImp = imp2
	sc := bufio.NewScanner(os.Stdin)
	sc.Buffer(make([]byte, 1<<20), 1<<28)
	w := bufio.NewWriter(os.Stdout)
	defer w.Flush()
	for sc.Scan() {
		f := strings.Split(sc.Text(), "\t")
		if len(f) < 3 {
			fmt.Fprintf(w, "?\tBADLINE\tskip\tn/a\t-\n")
			continue
		}
		b, _ := hex.DecodeString(f[2])
		r := check(f[0], f[1], string(b))
		fmt.Fprintf(w, "%s\tMAP %s\tINV %s\tGO %s\tSTAT %s\n", f[1], r.mapS, r.inv, r.gocmp, r.stat)
		w.Flush()
	}
}
