// Implementation side of the C23 correspondence and direct oracle.
//
// stdin : one source per line, hex encoded ("-" = empty)
// stdout: status TAB lines0 TAB before TAB after TAB lines1 TAB fmt TAB verdict
//
//	status  OK | PARSEERR | TEXTPANIC (CommentGroup.Text() of an import comment panics: outside the model)
//	lines0  the token.File line table (offsets of the line starts) after parsing; lines1 after ast.SortImports
//	before  the import declarations as parser.ParseFile returns them:  decl|decl|...
//	        decl = O (not an import declaration) | I<lparen 0/1>,<offset of Rparen>:spec;spec;...
//	        spec = id,name,path,hascomment,commenttext,pos,end,line,endline   (strings hex, "-" = empty)
//	after   the same after ast.SortImports (line/endline omitted: the line table was merged), or PANIC
//	fmt     format.Source(src) re-parsed: decl|decl, decl = O | I<0/1>:group/group, group = name,path;name,path
//	        (a group = specs on successive lines, the same rule SortImports uses);  E = error, PANIC
//	verdict "ok" or why the property fails on the real result
package main

import (
	"bufio"
	"encoding/hex"
	"fmt"
	"os"
	"strconv"
	"strings"

	"github.com/goplus/xgo/ast"
	"github.com/goplus/xgo/format"
	"github.com/goplus/xgo/parser"
	"github.com/goplus/xgo/token"
)

func hx(s string) string {
	if s == "" {
		return "-"
	}
	return hex.EncodeToString([]byte(s))
}

func importPath(s *ast.ImportSpec) string {
	t, err := strconv.Unquote(s.Path.Value)
	if err == nil {
		return t
	}
	return ""
}

func importName(s *ast.ImportSpec) string {
	if s.Name == nil {
		return ""
	}
	return s.Name.Name
}

func commentText(s *ast.ImportSpec) (t string, panicked bool) {
	defer func() {
		if e := recover(); e != nil {
			panicked = true
		}
	}()
	if s.Comment == nil {
		return "", false
	}
	// importComment (unexported) drops comments shorter than two bytes before calling Text(); mirrored here
	list := make([]*ast.Comment, 0, len(s.Comment.List))
	for _, cm := range s.Comment.List {
		if len(cm.Text) >= 2 {
			list = append(list, cm)
		}
	}
	return (&ast.CommentGroup{List: list}).Text(), false
}

func lineAt(fset *token.FileSet, pos token.Pos) int { return fset.PositionFor(pos, false).Line }

type np struct{ name, path string }

func importDecls(f *ast.File) (ds []*ast.GenDecl, kinds []bool) {
	for _, d := range f.Decls {
		g, ok := d.(*ast.GenDecl)
		if ok && g.Tok == token.IMPORT {
			ds = append(ds, g)
			kinds = append(kinds, true)
		} else {
			ds = append(ds, nil)
			kinds = append(kinds, false)
		}
	}
	return
}

func record(fset *token.FileSet, f *ast.File, ids map[*ast.ImportSpec]int, base int, withLines bool) (string, bool) {
	var out []string
	textPanic := false
	ds, _ := importDecls(f)
	for _, g := range ds {
		if g == nil {
			out = append(out, "O")
			continue
		}
		var ss []string
		for _, sp := range g.Specs {
			s := sp.(*ast.ImportSpec)
			id, ok := ids[s]
			if !ok {
				id = len(ids)
				ids[s] = id
			}
			ct, p := commentText(s)
			if p {
				textPanic = true
			}
			hc := 0
			if s.Comment != nil {
				hc = 1
			}
			r := fmt.Sprintf("%d,%s,%s,%d,%s,%d,%d", id, hx(importName(s)), hx(importPath(s)), hc, hx(ct), int(s.Pos())-base, int(s.End())-base)
			if withLines {
				r += fmt.Sprintf(",%d,%d", lineAt(fset, s.Pos()), lineAt(fset, s.End()))
			}
			ss = append(ss, r)
		}
		lp := 0
		if g.Lparen.IsValid() {
			lp = 1
		}
		out = append(out, fmt.Sprintf("I%d,%d:%s", lp, int(g.Rparen)-base, strings.Join(ss, ";")))
	}
	return strings.Join(out, "|"), textPanic
}

// the line table of the (single) file of fset: offsets of the line starts
func linesOf(fset *token.FileSet) string {
	var r []string
	fset.Iterate(func(f *token.File) bool {
		for _, o := range f.Lines() {
			r = append(r, strconv.Itoa(o))
		}
		return false
	})
	return strings.Join(r, ",")
}

// groups of a parsed file: specs on successive lines
func groupsOf(fset *token.FileSet, f *ast.File) (string, [][]*ast.ImportSpec) {
	var out []string
	var all [][]*ast.ImportSpec
	ds, _ := importDecls(f)
	for _, g := range ds {
		if g == nil {
			out = append(out, "O")
			continue
		}
		var groups [][]*ast.ImportSpec
		for j, sp := range g.Specs {
			s := sp.(*ast.ImportSpec)
			if j > 0 && g.Lparen.IsValid() && lineAt(fset, s.Pos()) <= 1+lineAt(fset, g.Specs[j-1].End()) {
				groups[len(groups)-1] = append(groups[len(groups)-1], s)
			} else {
				groups = append(groups, []*ast.ImportSpec{s})
			}
		}
		var gs []string
		for _, gr := range groups {
			var ss []string
			for _, s := range gr {
				ss = append(ss, hx(importName(s))+","+hx(importPath(s)))
			}
			gs = append(gs, strings.Join(ss, ";"))
			if g.Lparen.IsValid() {
				all = append(all, gr)
			}
		}
		lp := 0
		if g.Lparen.IsValid() {
			lp = 1
		}
		out = append(out, fmt.Sprintf("I%d:%s", lp, strings.Join(gs, "/")))
	}
	return strings.Join(out, "|"), all
}

func countNP(f *ast.File) map[np]int {
	m := map[np]int{}
	ds, _ := importDecls(f)
	for _, g := range ds {
		if g == nil {
			continue
		}
		for _, sp := range g.Specs {
			s := sp.(*ast.ImportSpec)
			m[np{importName(s), importPath(s)}]++
		}
	}
	return m
}

// the property on (before, after): nothing added, nothing removed except duplicates; groups sorted
func judge(before, after map[np]int, groups [][]*ast.ImportSpec, where string) string {
	for k, n := range after {
		if before[k] == 0 {
			return where + ":import-added:" + k.name + " " + k.path
		}
		if n > before[k] {
			return where + ":import-multiplied:" + k.name + " " + k.path
		}
	}
	for k := range before {
		if after[k] == 0 {
			return where + ":import-removed:" + k.name + " " + k.path
		}
	}
	for _, g := range groups {
		for i := 1; i < len(g); i++ {
			if importPath(g[i-1]) > importPath(g[i]) {
				return where + ":group-not-sorted:" + importPath(g[i-1]) + ">" + importPath(g[i])
			}
		}
	}
	return ""
}

func sortImports(fset *token.FileSet, f *ast.File) (panicked string) {
	defer func() {
		if e := recover(); e != nil {
			panicked = fmt.Sprint(e)
		}
	}()
	ast.SortImports(fset, f)
	return ""
}

func formatSource(src []byte) (out []byte, res string) {
	defer func() {
		if e := recover(); e != nil {
			res = "PANIC"
		}
	}()
	out, err := format.Source(src, false, "a.xgo")
	if err != nil {
		return nil, "E"
	}
	return out, ""
}

func run(src []byte) string {
	fset := token.NewFileSet()
	base := fset.Base()
	f, err := parser.ParseFile(fset, "a.xgo", src, parser.ParseComments)
	if err != nil || f == nil {
		// format.Source must fail too (and not panic)
		_, res := formatSource(src)
		verdict := "ok"
		if res == "PANIC" {
			verdict = "format-panic-on-unparsable-input"
		} else if res == "" {
			verdict = "format-succeeds-on-unparsable-input"
		}
		return "PARSEERR\t-\t-\t-\t-\t" + res + "\t" + verdict
	}
	ids := map[*ast.ImportSpec]int{}
	lines0 := linesOf(fset)
	before, textPanic := record(fset, f, ids, base, true)
	cntBefore := countNP(f)
	status := "OK"
	if textPanic {
		status = "TEXTPANIC"
	}
	verdict := ""
	after := ""
	if p := sortImports(fset, f); p != "" {
		after = "PANIC"
		verdict = "SortImports-panic:" + strings.ReplaceAll(p, "\t", " ")
	} else {
		after, _ = record(fset, f, ids, base, false)
		// (groups are judged on the formatted output only: after SortImports the line table is merged)
		verdict = judge(cntBefore, countNP(f), nil, "ast")
	}
	out, res := formatSource(src)
	fm := res
	if res == "PANIC" {
		if verdict == "" {
			verdict = "format.Source-panic"
		}
	} else if res == "E" {
		if verdict == "" {
			verdict = "format.Source-error-on-parsable-input"
		}
	} else {
		fset2 := token.NewFileSet()
		f2, err := parser.ParseFile(fset2, "a.xgo", out, parser.ParseComments)
		if err != nil || f2 == nil {
			fm = "REPARSEERR"
			if verdict == "" {
				verdict = "formatted-output-does-not-parse"
			}
		} else {
			var groups [][]*ast.ImportSpec
			fm, groups = groupsOf(fset2, f2)
			if v := judge(cntBefore, countNP(f2), groups, "fmt"); v != "" && verdict == "" {
				verdict = v
			}
		}
	}
	if verdict == "" {
		verdict = "ok"
	}
	if before == "" {
		before = "-"
	}
	if after == "" {
		after = "-"
	}
	if fm == "" {
		fm = "-"
	}
	lines1 := linesOf(fset)
	if after == "PANIC" {
		lines1 = "-"
	}
	return strings.Join([]string{status, lines0, before, after, lines1, fm, verdict}, "\t")
}

func main() {
	sc := bufio.NewScanner(os.Stdin)
	sc.Buffer(make([]byte, 1<<20), 1<<26)
	w := bufio.NewWriter(os.Stdout)
	defer w.Flush()
	for sc.Scan() {
		l := strings.TrimSpace(sc.Text())
		var src []byte
		if l != "-" && l != "" {
			b, err := hex.DecodeString(l)
			if err != nil {
				fmt.Fprintln(w, "BADHEX")
				continue
			}
			src = b
		}
		fmt.Fprintln(w, run(src))
	}
}
