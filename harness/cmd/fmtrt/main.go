// Implementation side of C19 / C20 / C21: format.Source on a source and the three properties evaluated
// on the real code (direct oracles).
//
// stdin, one request per line (TAB separated):
//
//	S  class  hexsrc          one source
//	F  class  path            the file itself and, seed-independently, every variant obtained by inserting a
//	                          comment at a token boundary: "/*C*/" (style b) and "//C\n" (style l) before every token
//
// stdout, one line per evaluated source:
//
//	id  sha  parse  fmt  tree  idem  comments  ncomments  detail
//
// parse: ok|invalid (the source itself does not parse: nothing is claimed about it)
// fmt: ok|error|panic    tree (C19): same|differs|reparse-error    idem (C20): same|differs|error
// comments (C21): same|differs       detail: first difference (quoted)
package main

import (
	"bufio"
	"crypto/sha256"
	"encoding/hex"
	"fmt"
	"os"
	"strings"

	"vh/g6"

	"github.com/goplus/xgo/ast"
	"github.com/goplus/xgo/format"
	"github.com/goplus/xgo/parser"
	"github.com/goplus/xgo/scanner"
	"github.com/goplus/xgo/token"
)

func sha(b []byte) string {
	h := sha256.Sum256(b)
	return hex.EncodeToString(h[:])[:12]
}

func parse(src []byte, class bool) (f *ast.File, err error) {
	defer func() {
		if e := recover(); e != nil {
			err = fmt.Errorf("panic: %v", e)
		}
	}()
	mode := parser.ParseComments
	name := "x.xgo"
	if class {
		mode |= parser.ParseGoPlusClass
		name = "x.gox"
	}
	return parser.ParseFile(token.NewFileSet(), name, src, mode)
}

func formatSrc(src []byte, class bool) (out []byte, st string) {
	defer func() {
		if e := recover(); e != nil {
			out, st = nil, "panic"
		}
	}()
	name := "x.xgo"
	if class {
		name = "x.gox"
	}
	out, err := format.Source(src, class, name)
	if err != nil {
		return nil, "error"
	}
	return out, "ok"
}

type tokAt struct {
	off int
	tok token.Token
	lit string
}

func scan(src []byte, comments bool) (toks []tokAt) {
	defer func() { recover() }()
	fset := token.NewFileSet()
	f := fset.AddFile("", fset.Base(), len(src))
	var s scanner.Scanner
	mode := scanner.Mode(0)
	if comments {
		mode = scanner.ScanComments
	}
	s.Init(f, src, func(token.Position, string) {}, mode)
	for {
		pos, tok, lit := s.Scan()
		if tok == token.EOF {
			break
		}
		toks = append(toks, tokAt{f.Offset(pos), tok, lit})
	}
	return
}

// comment texts in order, blanks inside a comment collapsed (the printer re-indents continuation lines)
func commentTexts(src []byte) []string {
	var out []string
	for _, t := range scan(src, true) {
		if t.tok == token.COMMENT {
			out = append(out, strings.Join(strings.Fields(t.lit), " "))
		}
	}
	return out
}

func q(s string) string {
	if len(s) > 160 {
		s = s[:160]
	}
	return fmt.Sprintf("%q", s)
}

func eval(w *bufio.Writer, id string, src []byte, class bool) {
	f0, err := parse(src, class)
	if err != nil {
		fmt.Fprintf(w, "%s\t%s\tinvalid\t-\t-\t-\t-\t0\t\"\"\n", id, sha(src))
		return
	}
	out1, st := formatSrc(src, class)
	if st != "ok" {
		fmt.Fprintf(w, "%s\t%s\tok\t%s\t-\t-\t-\t0\t\"\"\n", id, sha(src), st)
		return
	}
	detail := ""
	// C19
	tree := "same"
	f1, err := parse(out1, class)
	if err != nil {
		tree = "reparse-error"
		detail = err.Error()
	} else {
		d0, d1 := g6.Dump(f0), g6.Dump(f1)
		if d0 != d1 {
			tree = "differs"
			detail = g6.FirstDiff(d0, d1)
		}
	}
	// C20
	idem := "same"
	out2, st2 := formatSrc(out1, class)
	if st2 != "ok" {
		idem = "error"
	} else if string(out2) != string(out1) {
		idem = "differs"
		if detail == "" {
			detail = g6.FirstDiff(string(out1), string(out2))
		}
	}
	// C21
	c0, c1 := commentTexts(src), commentTexts(out1)
	com := "same"
	if strings.Join(c0, "\x00") != strings.Join(c1, "\x00") {
		com = "differs"
		if detail == "" {
			detail = fmt.Sprintf("%d comments in, %d out: %s", len(c0), len(c1), g6.FirstDiff(strings.Join(c0, "|"), strings.Join(c1, "|")))
		}
	}
	fmt.Fprintf(w, "%s\t%s\tok\tok\t%s\t%s\t%s\t%d\t%s\n", id, sha(src), tree, idem, com, len(c0), q(detail))
}

func main() {
	sc := bufio.NewScanner(os.Stdin)
	sc.Buffer(make([]byte, 1<<20), 1<<27)
	w := bufio.NewWriter(os.Stdout)
	defer w.Flush()
	n := 0
	for sc.Scan() {
		f := strings.Split(sc.Text(), "\t")
		if len(f) != 3 {
			fmt.Fprintln(w, "BADCASE")
			continue
		}
		class := f[1] == "1"
		switch f[0] {
		case "S":
			src, err := hex.DecodeString(f[2])
			if err != nil {
				fmt.Fprintln(w, "BADCASE")
				continue
			}
			n++
			eval(w, fmt.Sprintf("s%d", n), src, class)
		case "F":
			src, err := os.ReadFile(f[2])
			if err != nil {
				fmt.Fprintf(w, "%s\t-\tunreadable\t-\t-\t-\t-\t0\t\"\"\n", f[2])
				continue
			}
			eval(w, f[2], src, class)
			toks := scan(src, false)
			last := -1
			for i, t := range toks {
				if t.off == last { // an inserted semicolon shares the offset of what follows
					continue
				}
				if t.tok == token.SEMICOLON && t.lit == "\n" {
					continue
				}
				last = t.off
				for _, style := range []string{"b", "l"} {
					c := "/*C*/"
					if style == "l" {
						c = "//C\n"
					}
					v := make([]byte, 0, len(src)+len(c))
					v = append(v, src[:t.off]...)
					v = append(v, c...)
					v = append(v, src[t.off:]...)
					eval(w, fmt.Sprintf("%s#%d%s", f[2], i, style), v, class)
				}
			}
			w.Flush()
		}
	}
}
