// Implementation side of the C38 correspondence: the real jsonrpc2.HeaderFramer reader/writer
// and EncodeMessage/DecodeMessage.  One case per line on stdin, one result line per case.
//
//	R <hex>             Read until the clean EOF over (a) an io.Reader that hands out ONE byte per
//	                    call and counts them, (b) a bulk bytes.Reader.  Output:
//	                    <tok> <tok> ... \t <oracle>      tok = M:<kind>:<hex EncodeMessage(msg)>@<total>
//	                                                        | E:<class>@<total>
//	                    classes: EOF (io.EOF, total 0), BODY_EOF (io.EOF, total>0), BODY_SHORT
//	                    (== io.ErrUnexpectedEOF), HDR_EOF (wraps io.ErrUnexpectedEOF), OTHER.
//	D <hex>             DecodeMessage(bytes):  M:<kind>:<hex EncodeMessage(msg)>  |  DECODE_ERR
//	W <spec> <spec> ... messages written with the real Writer, then read back with the real Reader:
//	                    <payload hex>,<payload hex>,... \t <stream hex> \t <oracle>
//
//	J <hex> <hex> ...   messages given in WIRE form (JSON texts, e.g. what a peer sent): each is decoded with the
//	                    real DecodeMessage (m0), all are written with the real Writer, read back with the real
//	                    Reader (m1).  Same output shape as W.  Oracle: m1 equals m0 field by field (reflection
//	                    dump, raw JSON members canonicalised) and EncodeMessage(m0) is, as JSON, the known members
//	                    of the original text (jsonrpc, id, method, params, result, error{code,message,data}).
//	                    A text prefixed with '!' must be rejected by DecodeMessage and is not relayed.
//
// message spec:  c|<id>|<method hex>|<params hex>     call
//
//	n|<method hex>|<params hex>          notification
//	r|<id>|<result hex>|<err>            response
//	id = s:<hex> | i:<decimal int64>     err = - | w:<code>:<msg hex> | p:<msg hex> | x:<code>:<msg hex>:<outer hex>
//
// "-" stands for the empty / nil byte string.
package main

import (
	"bufio"
	"bytes"
	"context"
	"encoding/hex"
	"encoding/json"
	"errors"
	"fmt"
	"io"
	"os"
	"reflect"
	"strconv"
	"strings"

	"github.com/goplus/xgo/x/jsonrpc2"
)

func unhex(s string) []byte {
	if s == "-" || s == "" {
		return nil
	}
	b, err := hex.DecodeString(s)
	if err != nil {
		panic("bad hex in case: " + s)
	}
	return b
}

func hx(b []byte) string {
	if len(b) == 0 {
		return "-"
	}
	return hex.EncodeToString(b)
}

// oneByte hands out a single byte per Read call and counts what it handed out, so that the
// bufio.Reader inside the framer can never hold more than it was asked for.
type oneByte struct {
	data []byte
	n    int
}

func (r *oneByte) Read(p []byte) (int, error) {
	if len(p) == 0 {
		return 0, nil
	}
	if r.n >= len(r.data) {
		return 0, io.EOF
	}
	p[0] = r.data[r.n]
	r.n++
	return 1, nil
}

func msgToken(m jsonrpc2.Message) string {
	kind := "?"
	switch v := m.(type) {
	case *jsonrpc2.Request:
		if v.IsCall() {
			kind = "call"
		} else {
			kind = "notif"
		}
	case *jsonrpc2.Response:
		kind = "resp"
	}
	data, err := jsonrpc2.EncodeMessage(m)
	if err != nil {
		return "M:" + kind + ":ENCODE_ERR"
	}
	return "M:" + kind + ":" + hx(data)
}

func errClass(err error, total int64) string {
	switch {
	case err == io.EOF && total == 0:
		return "EOF"
	case err == io.EOF:
		return "BODY_EOF"
	case err == io.ErrUnexpectedEOF:
		return "BODY_SHORT"
	case errors.Is(err, io.ErrUnexpectedEOF):
		return "HDR_EOF"
	}
	return "OTHER"
}

// readAll calls Read until the clean EOF (or a call cap) and renders every result.
// handed, if not nil, returns the number of bytes the underlying reader handed out so far.
func readAll(r jsonrpc2.Reader, size int, handed func() int) (toks []string, oracle string) {
	var cum int64
	for i := 0; i < size+2; i++ {
		msg, n, err := r.Read(context.Background())
		cum += n
		if n < 0 {
			oracle = "negative-total"
		}
		if cum > int64(size) {
			oracle = fmt.Sprintf("total-beyond-stream:%d>%d", cum, size)
		}
		if handed != nil && int64(handed()) != cum {
			// the reader took more (or fewer) bytes from the transport than it reports
			oracle = fmt.Sprintf("read-%d-bytes-reported-%d-at-call-%d", handed(), cum, i)
		}
		if err != nil {
			if msg != nil {
				oracle = "message-and-error"
			}
			c := errClass(err, n)
			toks = append(toks, fmt.Sprintf("E:%s@%d", c, n))
			if c == "EOF" {
				return
			}
			if n == 0 {
				oracle = "error-without-progress"
				return
			}
			continue
		}
		if msg == nil {
			oracle = "nil-message-nil-error"
			toks = append(toks, fmt.Sprintf("E:NILMSG@%d", n))
			continue
		}
		toks = append(toks, fmt.Sprintf("%s@%d", msgToken(msg), n))
	}
	oracle = "no-eof-after-many-reads"
	return
}

func doR(arg string) (out string, oracle string) {
	defer func() {
		if e := recover(); e != nil {
			out, oracle = fmt.Sprintf("PANIC:%v", e), "panic"
		}
	}()
	data := unhex(arg)
	// a cancelled context: an error, nothing consumed, nothing taken from the transport (not modelled: explored)
	cctx, cancel := context.WithCancel(context.Background())
	cancel()
	ob0 := &oneByte{data: data}
	if m, n, err := jsonrpc2.HeaderFramer().Reader(ob0).Read(cctx); err == nil || m != nil || n != 0 || ob0.n != 0 {
		return "CANCELLED", fmt.Sprintf("cancelled-context:err=%v,n=%d,taken=%d", err, n, ob0.n)
	}
	ob := &oneByte{data: data}
	t1, o1 := readAll(jsonrpc2.HeaderFramer().Reader(ob), len(data), func() int { return ob.n })
	t2, o2 := readAll(jsonrpc2.HeaderFramer().Reader(bytes.NewReader(data)), len(data), nil)
	out = strings.Join(t1, " ")
	if s2 := strings.Join(t2, " "); s2 != out {
		return out, "chunking-dependent:" + s2
	}
	if o1 != "" {
		return out, o1
	}
	return out, o2
}

func doD(arg string) (out string) {
	defer func() {
		if e := recover(); e != nil {
			out = fmt.Sprintf("PANIC:%v", e)
		}
	}()
	m, err := jsonrpc2.DecodeMessage(unhex(arg))
	if err != nil {
		return "DECODE_ERR"
	}
	if m == nil {
		return "NILMSG"
	}
	return msgToken(m)
}

type spec struct {
	kind   string // c n r
	idKind string // s i ""
	idStr  string
	idInt  int64
	method string
	params []byte
	result []byte
	errK   string // - w p x
	code   int64
	emsg   string
	outer  string
}

func parseID(s string, sp *spec) {
	sp.idKind = s[:1]
	if sp.idKind == "s" {
		sp.idStr = string(unhex(s[2:]))
	} else {
		v, err := strconv.ParseInt(s[2:], 10, 64)
		if err != nil {
			panic("bad id " + s)
		}
		sp.idInt = v
	}
}

func parseSpec(s string) *spec {
	f := strings.Split(s, "|")
	sp := &spec{kind: f[0], errK: "-"}
	switch f[0] {
	case "c":
		parseID(f[1], sp)
		sp.method, sp.params = string(unhex(f[2])), unhex(f[3])
	case "n":
		sp.method, sp.params = string(unhex(f[1])), unhex(f[2])
	case "r":
		parseID(f[1], sp)
		sp.result = unhex(f[2])
		e := strings.Split(f[3], ":")
		sp.errK = e[0]
		switch e[0] {
		case "w":
			sp.code, _ = strconv.ParseInt(e[1], 10, 64)
			sp.emsg = string(unhex(e[2]))
		case "p":
			sp.emsg = string(unhex(e[1]))
		case "x":
			sp.code, _ = strconv.ParseInt(e[1], 10, 64)
			sp.emsg = string(unhex(e[2]))
			sp.outer = string(unhex(e[3]))
		}
	default:
		panic("bad spec " + s)
	}
	return sp
}

func (sp *spec) id() jsonrpc2.ID {
	if sp.idKind == "s" {
		return jsonrpc2.StringID(sp.idStr)
	}
	return jsonrpc2.Int64ID(sp.idInt)
}

func (sp *spec) build() jsonrpc2.Message {
	switch sp.kind {
	case "c":
		return &jsonrpc2.Request{ID: sp.id(), Method: sp.method, Params: json.RawMessage(sp.params)}
	case "n":
		return &jsonrpc2.Request{Method: sp.method, Params: json.RawMessage(sp.params)}
	}
	var e error
	switch sp.errK {
	case "w":
		e = jsonrpc2.NewError(sp.code, sp.emsg)
	case "p":
		e = errors.New(sp.emsg)
	case "x":
		e = fmt.Errorf("%s: %w", sp.outer, jsonrpc2.NewError(sp.code, sp.emsg))
	}
	return &jsonrpc2.Response{ID: sp.id(), Result: json.RawMessage(sp.result), Error: e}
}

func jsonEq(a, b []byte) bool {
	if len(a) == 0 || len(b) == 0 {
		return len(a) == len(b)
	}
	var x, y interface{}
	da, db := json.NewDecoder(bytes.NewReader(a)), json.NewDecoder(bytes.NewReader(b))
	da.UseNumber()
	db.UseNumber()
	if da.Decode(&x) != nil || db.Decode(&y) != nil {
		return bytes.Equal(a, b)
	}
	return reflect.DeepEqual(x, y)
}

// wire-level view of an error: code and message as they would be sent
func errView(e error) (code int64, msg string, isNil bool) {
	if e == nil {
		return 0, "", true
	}
	r := &jsonrpc2.Response{ID: jsonrpc2.Int64ID(1), Error: e}
	data, err := jsonrpc2.EncodeMessage(r)
	if err != nil {
		return 0, "ENCODE_ERR", false
	}
	var w struct {
		Error struct {
			Code    int64  `json:"code"`
			Message string `json:"message"`
		} `json:"error"`
	}
	json.Unmarshal(data, &w)
	return w.Error.Code, w.Error.Message, false
}

// the property's "same message": same kind, same id (kind and value), same method, JSON-equal
// params / result, same error presence, code and text
func sameMessage(sp *spec, got jsonrpc2.Message) string {
	switch sp.kind {
	case "c", "n":
		g, ok := got.(*jsonrpc2.Request)
		if !ok {
			return "kind"
		}
		if g.IsCall() != (sp.kind == "c") {
			return "call-vs-notification"
		}
		if sp.kind == "c" && !reflect.DeepEqual(g.ID.Raw(), sp.id().Raw()) {
			return fmt.Sprintf("id:%v!=%v", g.ID.Raw(), sp.id().Raw())
		}
		if g.Method != sp.method {
			return "method"
		}
		if !jsonEq(g.Params, sp.params) {
			return "params"
		}
	case "r":
		g, ok := got.(*jsonrpc2.Response)
		if !ok {
			return "kind"
		}
		if !reflect.DeepEqual(g.ID.Raw(), sp.id().Raw()) {
			return fmt.Sprintf("id:%v!=%v", g.ID.Raw(), sp.id().Raw())
		}
		if !jsonEq(g.Result, sp.result) {
			return "result"
		}
		want := sp.build().(*jsonrpc2.Response).Error
		c1, m1, n1 := errView(want)
		c2, m2, n2 := errView(g.Error)
		if n1 != n2 || c1 != c2 || m1 != m2 {
			return "error"
		}
		if want != nil && g.Error.Error() != want.Error() {
			return "error-text"
		}
	}
	return ""
}

// canonJSON: the JSON value with sorted object keys, numbers kept as written; "" for no bytes
func canonJSON(b []byte) string {
	if len(b) == 0 {
		return "-"
	}
	var x interface{}
	d := json.NewDecoder(bytes.NewReader(b))
	d.UseNumber()
	if d.Decode(&x) != nil {
		return "RAW:" + string(b)
	}
	out, err := json.Marshal(x)
	if err != nil {
		return "RAW:" + string(b)
	}
	return string(out)
}

// dump renders a message value field by field through reflection (unexported fields included: the
// wireError behind Response.Error, the value behind ID); byte slices are JSON members and are canonicalised.
func dump(v reflect.Value) string {
	switch v.Kind() {
	case reflect.Invalid:
		return "nil"
	case reflect.Ptr, reflect.Interface:
		if v.IsNil() {
			return "nil"
		}
		return v.Elem().Type().String() + ":" + dump(v.Elem())
	case reflect.Struct:
		var parts []string
		for i := 0; i < v.NumField(); i++ {
			parts = append(parts, v.Type().Field(i).Name+"="+dump(v.Field(i)))
		}
		return "{" + strings.Join(parts, " ") + "}"
	case reflect.Slice:
		if v.Type().Elem().Kind() == reflect.Uint8 {
			return canonJSON(v.Bytes())
		}
		var parts []string
		for i := 0; i < v.Len(); i++ {
			parts = append(parts, dump(v.Index(i)))
		}
		return "[" + strings.Join(parts, ",") + "]"
	case reflect.String:
		return strconv.Quote(v.String())
	case reflect.Int, reflect.Int8, reflect.Int16, reflect.Int32, reflect.Int64:
		return strconv.FormatInt(v.Int(), 10)
	case reflect.Float32, reflect.Float64:
		return strconv.FormatFloat(v.Float(), 'g', -1, 64)
	case reflect.Bool:
		return strconv.FormatBool(v.Bool())
	}
	return "?" + v.Kind().String()
}

// project keeps, of a wire-form message text, the members the protocol knows, as EncodeMessage renders them
func project(text []byte) (string, bool) {
	var top map[string]json.RawMessage
	if json.Unmarshal(text, &top) != nil {
		return "", false
	}
	isNull := func(r json.RawMessage) bool { return strings.TrimSpace(string(r)) == "null" }
	out := map[string]json.RawMessage{}
	if v, ok := top["jsonrpc"]; ok {
		out["jsonrpc"] = v
	}
	if v, ok := top["id"]; ok && !isNull(v) {
		out["id"] = v
	}
	if v, ok := top["method"]; ok && strings.TrimSpace(string(v)) != `""` && !isNull(v) {
		out["method"] = v
	}
	for _, k := range []string{"params", "result"} {
		if v, ok := top[k]; ok {
			out[k] = v
		}
	}
	if v, ok := top["error"]; ok && !isNull(v) {
		var eo map[string]json.RawMessage
		if json.Unmarshal(v, &eo) != nil {
			return "", false
		}
		e := map[string]json.RawMessage{"code": json.RawMessage("0"), "message": json.RawMessage(`""`)}
		for _, k := range []string{"code", "message", "data"} {
			if x, ok := eo[k]; ok {
				e[k] = x
			}
		}
		b, _ := json.Marshal(e)
		out["error"] = b
	}
	b, err := json.Marshal(out)
	if err != nil {
		return "", false
	}
	return canonJSON(b), true
}

func doJ(args []string) (out string, oracle string) {
	defer func() {
		if e := recover(); e != nil {
			out, oracle = fmt.Sprintf("PANIC:%v\t-", e), "panic"
		}
	}()
	note := func(s string) {
		if oracle == "" {
			oracle = s
		}
	}
	var firsts []jsonrpc2.Message
	var payloads []string
	var buf bytes.Buffer
	w := jsonrpc2.HeaderFramer().Writer(&buf)
	for i, a := range args {
		mustFail := strings.HasPrefix(a, "!")
		text := unhex(strings.TrimPrefix(a, "!"))
		m0, err := jsonrpc2.DecodeMessage(text)
		if mustFail {
			if err == nil {
				note(fmt.Sprintf("wire:%d:invalid-message-accepted", i))
			}
			continue
		}
		if err != nil || m0 == nil {
			note(fmt.Sprintf("wire:%d:valid-message-rejected", i))
			continue
		}
		data, err := jsonrpc2.EncodeMessage(m0)
		if err != nil {
			note(fmt.Sprintf("wire:%d:encode-error", i))
			continue
		}
		if want, ok := project(text); !ok {
			note(fmt.Sprintf("wire:%d:generator-text-not-json", i))
		} else if got := canonJSON(data); got != want {
			note(fmt.Sprintf("wire:%d:re-encoded-differs:%s!=%s", i, got, want))
		}
		payloads = append(payloads, hx(data))
		if _, err := w.Write(context.Background(), m0); err != nil {
			note(fmt.Sprintf("wire:%d:write-error", i))
		}
		firsts = append(firsts, m0)
	}
	stream := append([]byte(nil), buf.Bytes()...)
	out = strings.Join(payloads, ",") + "\t" + hx(stream)
	if len(payloads) == 0 {
		out = "-\t" + hx(stream)
	}
	ob := &oneByte{data: stream}
	r := jsonrpc2.HeaderFramer().Reader(ob)
	for i, m0 := range firsts {
		m1, _, err := r.Read(context.Background())
		if err != nil {
			note(fmt.Sprintf("relay:%d:read-error:%v", i, errClass(err, 1)))
			return out, oracle
		}
		if a, b := dump(reflect.ValueOf(m0)), dump(reflect.ValueOf(m1)); a != b {
			note(fmt.Sprintf("relay:%d:message-changed:%s!=%s", i, b, a))
		}
	}
	if _, n, err := r.Read(context.Background()); err != io.EOF || n != 0 {
		note("relay:no-clean-eof")
	}
	return out, oracle
}

func doW(args []string) (out string, oracle string) {
	defer func() {
		if e := recover(); e != nil {
			out, oracle = fmt.Sprintf("PANIC:%v\t-", e), "panic"
		}
	}()
	var specs []*spec
	var payloads []string
	var buf bytes.Buffer
	w := jsonrpc2.HeaderFramer().Writer(&buf)
	for _, a := range args {
		sp := parseSpec(a)
		specs = append(specs, sp)
		m := sp.build()
		data, err := jsonrpc2.EncodeMessage(m)
		if err != nil {
			return "ENCODE_ERR\t-", "encode-error:" + a
		}
		payloads = append(payloads, hx(data))
		before := buf.Len()
		n, err := w.Write(context.Background(), m)
		if err != nil {
			return "WRITE_ERR\t-", "write-error:" + a
		}
		if int(n) != buf.Len()-before {
			oracle = "write-count"
		}
	}
	stream := append([]byte(nil), buf.Bytes()...)
	out = strings.Join(payloads, ",") + "\t" + hx(stream)
	if len(payloads) == 0 {
		out = "-\t" + hx(stream)
	}
	// read back through the real reader (one byte at a time: exact consumption)
	ob := &oneByte{data: stream}
	r := jsonrpc2.HeaderFramer().Reader(ob)
	for i, sp := range specs {
		m, _, err := r.Read(context.Background())
		if err != nil {
			return out, fmt.Sprintf("rt:%d:read-error:%v", i, errClass(err, 1))
		}
		if why := sameMessage(sp, m); why != "" && oracle == "" {
			oracle = fmt.Sprintf("rt:%d:%s", i, why)
		}
	}
	if _, n, err := r.Read(context.Background()); err != io.EOF || n != 0 {
		if oracle == "" {
			oracle = "rt:no-clean-eof"
		}
	}
	if ob.n != len(stream) && oracle == "" {
		oracle = "rt:not-all-consumed"
	}
	return out, oracle
}

func main() {
	sc := bufio.NewScanner(os.Stdin)
	sc.Buffer(make([]byte, 1<<20), 1<<28)
	w := bufio.NewWriter(os.Stdout)
	defer w.Flush()
	for sc.Scan() {
		f := strings.Fields(sc.Text())
		if len(f) == 0 {
			fmt.Fprintln(w, "BADCASE")
			continue
		}
		switch f[0] {
		case "R":
			arg := "-"
			if len(f) > 1 {
				arg = f[1]
			}
			out, or := doR(arg)
			if or == "" {
				or = "ok"
			}
			fmt.Fprintf(w, "%s\t%s\n", out, or)
		case "D":
			arg := "-"
			if len(f) > 1 {
				arg = f[1]
			}
			fmt.Fprintln(w, doD(arg))
		case "J":
			out, or := doJ(f[1:])
			if or == "" {
				or = "ok"
			}
			fmt.Fprintf(w, "%s\t%s\n", out, or)
		case "W":
			out, or := doW(f[1:])
			if or == "" {
				or = "ok"
			}
			fmt.Fprintf(w, "%s\t%s\n", out, or)
		default:
			fmt.Fprintln(w, "BADCASE")
		}
	}
}
