// C14 harness: is a valid Go file parsed by the XGo parser to the same tree as by go/parser?
//
// stdin, one case per line:   F <key> <path>      |      S <key> <hexsrc>      |   T <key> <hexsrc>  (also type-check, no imports)
// stdout, one line per case:  <key> TAB <verdict> TAB <detail>
//
//	verdict: same      both comparisons agree
//	         notgo     go/parser rejects the source (case is outside the property; reported, not judged)
//	         illtyped  (T only) go/types rejects it (a generator problem; reported, not judged)
//	         reject    the XGo parser reports an error on a file go/parser accepts
//	         diff      trees differ (deep comparison go/ast vs xgo/ast, positions / objects / comments ignored)
//	         fromgo    deep comparison agrees but fromgo.ASTFile(go tree) differs from the XGo tree at declaration level
//	         panic     one of the two sides panicked
//
// expression mode (for the model correspondence):  X <key> <hexsrc>  ->  <key> TAB go=<sexp|ERR> TAB xgo=<sexp|ERR>
// statement  mode:                                  Y <key> <hexsrc>  (source = one simple statement) same output
package main

import (
	"bufio"
	"encoding/hex"
	"fmt"
	goast "go/ast"
	goparser "go/parser"
	gotoken "go/token"
	"go/types"
	"os"
	"reflect"
	"strings"

	"github.com/goplus/xgo/ast"
	"github.com/goplus/xgo/ast/fromgo"
	"github.com/goplus/xgo/parser"
	"github.com/goplus/xgo/token"
)

var goPosType = reflect.TypeOf(gotoken.Pos(0))
var xPosType = reflect.TypeOf(token.Pos(0))

var ignoreFields = map[string]bool{"Obj": true, "Scope": true, "Unresolved": true, "Doc": true, "Comment": true, "Comments": true,
	"Imports": true, "FileStart": true, "FileEnd": true, "GoVersion": true, "Code": true}

type stringer interface{ String() string }

func typeName(t reflect.Type) string {
	for t.Kind() == reflect.Ptr {
		t = t.Elem()
	}
	return t.Name()
}

func short(v reflect.Value) string {
	if !v.IsValid() {
		return "<nil>"
	}
	switch v.Kind() {
	case reflect.Interface, reflect.Ptr:
		if v.IsNil() {
			return "<nil>"
		}
		return short(v.Elem())
	case reflect.Struct:
		s := v.Type().Name()
		if f := v.FieldByName("Name"); f.IsValid() && f.Kind() == reflect.String {
			s += "(" + f.String() + ")"
		}
		if f := v.FieldByName("Value"); f.IsValid() && f.Kind() == reflect.String {
			s += "(" + f.String() + ")"
		}
		return s
	case reflect.Slice:
		return fmt.Sprintf("[%d]%s", v.Len(), v.Type().Elem().String())
	}
	return fmt.Sprint(v.Interface())
}

// cmp compares a go/ast value with an xgo/ast value; "" = same, else the first difference
func cmp(g, x reflect.Value, path string) string {
	// unwrap interfaces
	for g.IsValid() && g.Kind() == reflect.Interface {
		if g.IsNil() {
			g = reflect.Value{}
			break
		}
		g = g.Elem()
	}
	for x.IsValid() && x.Kind() == reflect.Interface {
		if x.IsNil() {
			x = reflect.Value{}
			break
		}
		x = x.Elem()
	}
	gnil := !g.IsValid() || ((g.Kind() == reflect.Ptr || g.Kind() == reflect.Slice || g.Kind() == reflect.Map) && g.IsNil()) || (g.Kind() == reflect.Slice && g.Len() == 0)
	xnil := !x.IsValid() || ((x.Kind() == reflect.Ptr || x.Kind() == reflect.Slice || x.Kind() == reflect.Map) && x.IsNil()) || (x.Kind() == reflect.Slice && x.Len() == 0)
	if gnil || xnil {
		if gnil && xnil {
			return ""
		}
		return fmt.Sprintf("%s: go=%s xgo=%s", path, short(g), short(x))
	}
	if g.Kind() != x.Kind() {
		return fmt.Sprintf("%s: kinds go=%s xgo=%s", path, g.Kind(), x.Kind())
	}
	switch g.Kind() {
	case reflect.Ptr:
		gn, xn := typeName(g.Type()), typeName(x.Type())
		if gn != xn {
			return fmt.Sprintf("%s: go=%s xgo=%s", path, short(g), short(x))
		}
		return cmpStruct(g.Elem(), x.Elem(), path+"."+gn)
	case reflect.Struct:
		return cmpStruct(g, x, path)
	case reflect.Slice:
		if g.Len() != x.Len() {
			return fmt.Sprintf("%s: len go=%d xgo=%d", path, g.Len(), x.Len())
		}
		for i := 0; i < g.Len(); i++ {
			if d := cmp(g.Index(i), x.Index(i), fmt.Sprintf("%s[%d]", path, i)); d != "" {
				return d
			}
		}
		return ""
	case reflect.String:
		if g.String() != x.String() {
			return fmt.Sprintf("%s: go=%q xgo=%q", path, g.String(), x.String())
		}
		return ""
	case reflect.Bool:
		if g.Bool() != x.Bool() {
			return fmt.Sprintf("%s: go=%v xgo=%v", path, g.Bool(), x.Bool())
		}
		return ""
	case reflect.Int, reflect.Int8, reflect.Int16, reflect.Int32, reflect.Int64:
		gs, ok1 := g.Interface().(stringer)
		xs, ok2 := x.Interface().(stringer)
		if ok1 && ok2 { // token.Token on both sides: compare spellings
			if gs.String() != xs.String() {
				return fmt.Sprintf("%s: go=%s xgo=%s", path, gs.String(), xs.String())
			}
			return ""
		}
		if g.Int() != x.Int() {
			return fmt.Sprintf("%s: go=%d xgo=%d", path, g.Int(), x.Int())
		}
		return ""
	}
	return ""
}

func cmpStruct(g, x reflect.Value, path string) string {
	gt, xt := g.Type(), x.Type()
	// SendStmt: Value  <->  Values[0]
	if gt.Name() == "SendStmt" {
		if d := cmp(g.FieldByName("Chan"), x.FieldByName("Chan"), path+".Chan"); d != "" {
			return d
		}
		xv := x.FieldByName("Values")
		if xv.Len() != 1 {
			return fmt.Sprintf("%s.Values: len xgo=%d", path, xv.Len())
		}
		if x.FieldByName("Ellipsis").Int() != 0 {
			return path + ".Ellipsis set"
		}
		return cmp(g.FieldByName("Value"), xv.Index(0), path+".Value")
	}
	seen := map[string]bool{}
	for i := 0; i < gt.NumField(); i++ {
		f := gt.Field(i)
		seen[f.Name] = true
		if f.Type == goPosType || ignoreFields[f.Name] {
			continue
		}
		xf := x.FieldByName(f.Name)
		if !xf.IsValid() {
			return fmt.Sprintf("%s.%s: no such field in xgo/ast.%s", path, f.Name, xt.Name())
		}
		if d := cmp(g.Field(i), xf, path+"."+f.Name); d != "" {
			return d
		}
	}
	// XGo-only fields must be unset (positions other than NoParenEnd are ignored)
	for i := 0; i < xt.NumField(); i++ {
		f := xt.Field(i)
		if seen[f.Name] || ignoreFields[f.Name] {
			continue
		}
		if f.Type == xPosType && f.Name != "NoParenEnd" {
			continue
		}
		if !x.Field(i).IsZero() {
			return fmt.Sprintf("%s.%s: XGo-only field set (%s)", path, f.Name, short(x.Field(i)))
		}
	}
	return ""
}

// same-type comparison of two xgo trees at declaration level (function and closure bodies ignored)
func cmpX(a, b reflect.Value, path string, parent string) string {
	for a.IsValid() && a.Kind() == reflect.Interface {
		if a.IsNil() {
			a = reflect.Value{}
			break
		}
		a = a.Elem()
	}
	for b.IsValid() && b.Kind() == reflect.Interface {
		if b.IsNil() {
			b = reflect.Value{}
			break
		}
		b = b.Elem()
	}
	anil := !a.IsValid() || ((a.Kind() == reflect.Ptr || a.Kind() == reflect.Slice) && a.IsNil()) || (a.Kind() == reflect.Slice && a.Len() == 0)
	bnil := !b.IsValid() || ((b.Kind() == reflect.Ptr || b.Kind() == reflect.Slice) && b.IsNil()) || (b.Kind() == reflect.Slice && b.Len() == 0)
	if anil || bnil {
		if anil && bnil {
			return ""
		}
		return fmt.Sprintf("%s: fromgo=%s xgo=%s", path, short(a), short(b))
	}
	if a.Type() != b.Type() {
		return fmt.Sprintf("%s: fromgo=%s xgo=%s", path, short(a), short(b))
	}
	switch a.Kind() {
	case reflect.Ptr:
		return cmpX(a.Elem(), b.Elem(), path+"."+a.Type().Elem().Name(), parent)
	case reflect.Struct:
		t := a.Type()
		for i := 0; i < t.NumField(); i++ {
			f := t.Field(i)
			if f.Type == xPosType || ignoreFields[f.Name] || f.Name == "ShadowEntry" {
				continue
			}
			if f.Name == "Body" && (t.Name() == "FuncDecl" || t.Name() == "FuncLit") {
				continue
			}
			if d := cmpX(a.Field(i), b.Field(i), path+"."+f.Name, t.Name()); d != "" {
				return d
			}
		}
		return ""
	case reflect.Slice:
		if a.Len() != b.Len() {
			return fmt.Sprintf("%s: len fromgo=%d xgo=%d", path, a.Len(), b.Len())
		}
		for i := 0; i < a.Len(); i++ {
			if d := cmpX(a.Index(i), b.Index(i), fmt.Sprintf("%s[%d]", path, i), parent); d != "" {
				return d
			}
		}
		return ""
	case reflect.String:
		if a.String() != b.String() {
			return fmt.Sprintf("%s: fromgo=%q xgo=%q", path, a.String(), b.String())
		}
	case reflect.Bool:
		if a.Bool() != b.Bool() {
			return fmt.Sprintf("%s: fromgo=%v xgo=%v", path, a.Bool(), b.Bool())
		}
	case reflect.Int, reflect.Int8, reflect.Int16, reflect.Int32, reflect.Int64:
		if a.Int() != b.Int() {
			return fmt.Sprintf("%s: fromgo=%d xgo=%d", path, a.Int(), b.Int())
		}
	}
	return ""
}

func judge(src []byte, typecheck bool) (verdict, detail string) {
	defer func() {
		if e := recover(); e != nil {
			verdict, detail = "panic", strings.SplitN(fmt.Sprint(e), "\n", 2)[0]
		}
	}()
	gfset := gotoken.NewFileSet()
	gf, err := goparser.ParseFile(gfset, "a.go", src, goparser.SkipObjectResolution)
	if err != nil {
		return "notgo", firstLine(err.Error())
	}
	if typecheck {
		conf := types.Config{Error: func(error) {}}
		if _, err := conf.Check("p", gfset, []*goast.File{gf}, nil); err != nil {
			return "illtyped", firstLine(err.Error())
		}
	}
	fset := token.NewFileSet()
	xf, err := parser.ParseFile(fset, "a.go", src, 0)
	if err != nil {
		return "reject", firstLine(err.Error())
	}
	if d := cmp(reflect.ValueOf(gf), reflect.ValueOf(xf), "File"); d != "" {
		return "diff", d
	}
	var fg *ast.File
	func() {
		defer func() {
			if e := recover(); e != nil {
				detail = "fromgo.ASTFile panicked: " + firstLine(fmt.Sprint(e))
			}
		}()
		fg = fromgo.ASTFile(gf, 0)
	}()
	if fg == nil {
		return "fromgo", detail
	}
	if d := cmpX(reflect.ValueOf(fg), reflect.ValueOf(xf), "File", ""); d != "" {
		return "fromgo", d
	}
	return "same", ""
}

func firstLine(s string) string {
	s = strings.SplitN(s, "\n", 2)[0]
	if len(s) > 200 {
		s = s[:200]
	}
	return s
}

// ---------------------------------------------------------------------------- expression / statement S-expressions
// Only the constructs of the Coq expression core are printed; anything else prints as (? TypeName), which the
// check treats as "outside the model".  blank = command-style call (no parentheses).

func sexpG(e goast.Expr) string {
	switch v := e.(type) {
	case *goast.Ident:
		return "x"
	case *goast.BasicLit:
		return "1"
	case *goast.ParenExpr:
		return "(P " + sexpG(v.X) + ")"
	case *goast.UnaryExpr:
		return "(U" + v.Op.String() + " " + sexpG(v.X) + ")"
	case *goast.StarExpr:
		return "(U* " + sexpG(v.X) + ")"
	case *goast.BinaryExpr:
		return "(B" + v.Op.String() + " " + sexpG(v.X) + " " + sexpG(v.Y) + ")"
	case *goast.SelectorExpr:
		return "(S " + sexpG(v.X) + ")"
	case *goast.IndexExpr:
		return "(I " + sexpG(v.X) + " " + sexpG(v.Index) + ")"
	case *goast.CallExpr:
		s := "(C " + sexpG(v.Fun)
		for _, a := range v.Args {
			s += " " + sexpG(a)
		}
		if v.Ellipsis.IsValid() {
			s += " ..."
		}
		return s + ")"
	}
	return "(? " + typeName(reflect.TypeOf(e)) + ")"
}

func sexpX(e ast.Expr) string {
	switch v := e.(type) {
	case nil:
		return "(? nil)"
	case *ast.Ident:
		return "x"
	case *ast.BasicLit:
		if v.Extra != nil {
			return "(? interp)"
		}
		return "1"
	case *ast.ParenExpr:
		return "(P " + sexpX(v.X) + ")"
	case *ast.UnaryExpr:
		return "(U" + v.Op.String() + " " + sexpX(v.X) + ")"
	case *ast.StarExpr:
		return "(U* " + sexpX(v.X) + ")"
	case *ast.BinaryExpr:
		return "(B" + v.Op.String() + " " + sexpX(v.X) + " " + sexpX(v.Y) + ")"
	case *ast.SelectorExpr:
		return "(S " + sexpX(v.X) + ")"
	case *ast.IndexExpr:
		return "(I " + sexpX(v.X) + " " + sexpX(v.Index) + ")"
	case *ast.CallExpr:
		s := "(C "
		if v.NoParenEnd != token.NoPos {
			s = "(K "
		}
		s += sexpX(v.Fun)
		for _, a := range v.Args {
			s += " " + sexpX(a)
		}
		if v.Ellipsis.IsValid() {
			s += " ..."
		}
		return s + ")"
	case *ast.ErrWrapExpr:
		s := "(W" + v.Tok.String() + " " + sexpX(v.X)
		if v.Default != nil {
			s += " " + sexpX(v.Default)
		}
		return s + ")"
	case *ast.LambdaExpr:
		if len(v.Lhs) == 1 && len(v.Rhs) == 1 && !v.RhsHasParen {
			p := "L"
			if v.LhsHasParen {
				p = "LP"
			}
			return "(" + p + " " + sexpX(v.Rhs[0]) + ")"
		}
	}
	return "(? " + typeName(reflect.TypeOf(e)) + ")"
}

func stmtG(s goast.Stmt) string {
	switch v := s.(type) {
	case *goast.ExprStmt:
		return "(E " + sexpG(v.X) + ")"
	case *goast.AssignStmt:
		r := "(A" + v.Tok.String()
		for _, e := range v.Lhs {
			r += " " + sexpG(e)
		}
		r += " :"
		for _, e := range v.Rhs {
			r += " " + sexpG(e)
		}
		return r + ")"
	case *goast.IncDecStmt:
		return "(D" + v.Tok.String() + " " + sexpG(v.X) + ")"
	case *goast.SendStmt:
		return "(Send " + sexpG(v.Chan) + " " + sexpG(v.Value) + ")"
	}
	return "(? " + typeName(reflect.TypeOf(s)) + ")"
}

func stmtX(s ast.Stmt) string {
	switch v := s.(type) {
	case *ast.ExprStmt:
		return "(E " + sexpX(v.X) + ")"
	case *ast.AssignStmt:
		r := "(A" + v.Tok.String()
		for _, e := range v.Lhs {
			r += " " + sexpX(e)
		}
		r += " :"
		for _, e := range v.Rhs {
			r += " " + sexpX(e)
		}
		return r + ")"
	case *ast.IncDecStmt:
		return "(D" + v.Tok.String() + " " + sexpX(v.X) + ")"
	case *ast.SendStmt:
		if len(v.Values) == 1 && !v.Ellipsis.IsValid() {
			return "(Send " + sexpX(v.Chan) + " " + sexpX(v.Values[0]) + ")"
		}
	}
	return "(? " + typeName(reflect.TypeOf(s)) + ")"
}

func exprBoth(src []byte) (g, x string) {
	func() {
		defer func() {
			if e := recover(); e != nil {
				g = "PANIC"
			}
		}()
		e, err := goparser.ParseExprFrom(gotoken.NewFileSet(), "", src, 0)
		if err != nil {
			g = "ERR"
		} else {
			g = sexpG(e)
		}
	}()
	func() {
		defer func() {
			if e := recover(); e != nil {
				x = "PANIC"
			}
		}()
		e, err := parser.ParseExprFrom(token.NewFileSet(), "", src, 0)
		if err != nil {
			x = "ERR"
		} else {
			x = sexpX(e)
		}
	}()
	return
}

// one simple statement as the only statement of a function body
func stmtBoth(src []byte) (g, x string) {
	full := append(append([]byte("package p\nfunc _() {\n"), src...), []byte("\n}\n")...)
	func() {
		defer func() {
			if e := recover(); e != nil {
				g = "PANIC"
			}
		}()
		f, err := goparser.ParseFile(gotoken.NewFileSet(), "a.go", full, goparser.SkipObjectResolution)
		if err != nil {
			g = "ERR"
			return
		}
		l := f.Decls[0].(*goast.FuncDecl).Body.List
		if len(l) != 1 {
			g = fmt.Sprintf("(? %d stmts)", len(l))
			return
		}
		g = stmtG(l[0])
	}()
	func() {
		defer func() {
			if e := recover(); e != nil {
				x = "PANIC"
			}
		}()
		f, err := parser.ParseFile(token.NewFileSet(), "a.go", full, 0)
		if err != nil {
			x = "ERR"
			return
		}
		fd, ok := f.Decls[0].(*ast.FuncDecl)
		if !ok || fd.Body == nil || len(fd.Body.List) != 1 {
			x = "(? shape)"
			return
		}
		x = stmtX(fd.Body.List[0])
	}()
	return
}

func main() {
	sc := bufio.NewScanner(os.Stdin)
	sc.Buffer(make([]byte, 1<<20), 1<<28)
	w := bufio.NewWriter(os.Stdout)
	defer w.Flush()
	for sc.Scan() {
		f := strings.Fields(sc.Text())
		if len(f) < 3 {
			continue
		}
		var src []byte
		switch f[0] {
		case "F":
			b, err := os.ReadFile(f[2])
			if err != nil {
				fmt.Fprintf(w, "%s\tnotgo\tunreadable\n", f[1])
				continue
			}
			src = b
		default:
			src, _ = hex.DecodeString(f[2])
		}
		switch f[0] {
		case "X":
			g, x := exprBoth(src)
			fmt.Fprintf(w, "%s\tgo=%s\txgo=%s\n", f[1], g, x)
		case "Y":
			g, x := stmtBoth(src)
			fmt.Fprintf(w, "%s\tgo=%s\txgo=%s\n", f[1], g, x)
		default:
			v, d := judge(src, f[0] == "T")
			fmt.Fprintf(w, "%s\t%s\t%s\n", f[1], v, strings.ReplaceAll(d, "\t", " "))
		}
	}
}
