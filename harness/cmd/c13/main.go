// C13 harness: implementation side of the correspondence (kdiff), and the fuzzing oracle
// (fuzz = parent that feeds a worker child process under per-case time limits).
//
//	h_c13 kdiff                     stdin: E/S/A cases (see ocaml/c13_driver.ml), stdout: canonical results
//	h_c13 fuzz -seed N -n K -repo D stdout: one JSON document (histograms, failures)
//	h_c13 worker                    internal: one case per line on stdin, one result per line on fd 3
//	h_c13 deep <n> <tok> <maxstackMB>  parse "x := " + tok*n ; used in a child to witness stack exhaustion
package main

import (
	"bufio"
	"crypto/sha256"
	"encoding/hex"
	"encoding/json"
	"flag"
	"fmt"
	gscanner "go/scanner"
	"io"
	"os"
	"os/exec"
	"path/filepath"
	"regexp"
	"runtime/debug"
	"sort"
	"strconv"
	"strings"
	"syscall"
	"time"

	"github.com/goplus/xgo/ast"
	"github.com/goplus/xgo/parser"
	"github.com/goplus/xgo/scanner"
	"github.com/goplus/xgo/token"
)

func main() {
	if len(os.Args) < 2 {
		fmt.Fprintln(os.Stderr, "usage: h_c13 kdiff|fuzz|worker|deep")
		os.Exit(2)
	}
	switch os.Args[1] {
	case "kdiff":
		kdiff()
	case "fuzz":
		fuzz(os.Args[2:])
	case "worker":
		worker()
	case "deep":
		deep(os.Args[2:])
	default:
		os.Exit(2)
	}
}

// ----------------------------------------------------------------------------- oracle on one input

type result struct {
	Outcome string // ok | PANIC | NILAST | UNSORTED | BADNOERR | ERRTYPE
	Detail  string
	NErr    int
	NBad    int
	Walk    string // "" or walk-panic text (C18's domain; reported, not a C13 failure)
	Errs    gscanner.ErrorList
	File    *ast.File
	Expr    ast.Expr
}

var fileNames = []string{"a.xgo", "a.gox", "main.spx", "a.spx", "a.gsh", "a.gmx", "a.go", "a.gop", "a.unknownkind"}

func countBad(n ast.Node) (bad int, walkPanic string) {
	defer func() {
		if e := recover(); e != nil {
			walkPanic = fmt.Sprint(e)
		}
	}()
	ast.Inspect(n, func(x ast.Node) bool {
		switch x.(type) {
		case *ast.BadExpr, *ast.BadStmt, *ast.BadDecl:
			bad++
		}
		return true
	})
	return
}

func posSorted(l gscanner.ErrorList) bool {
	for i := 1; i < len(l); i++ {
		a, b := l[i-1].Pos, l[i].Pos
		if a.Filename != b.Filename {
			continue
		}
		if a.Line > b.Line || (a.Line == b.Line && a.Column > b.Column) {
			return false
		}
	}
	return true
}

// runCase evaluates the property on one (entry, mode, file name, offset, source).
func runCase(entry string, mode parser.Mode, fname string, offset int, src []byte) (r result) {
	defer func() {
		if e := recover(); e != nil {
			r.Outcome = "PANIC"
			r.Detail = strings.SplitN(fmt.Sprint(e), "\n", 2)[0]
		}
	}()
	fset := token.NewFileSet()
	var err error
	var node ast.Node
	mustAST := false
	switch entry {
	case "file":
		var f *ast.File
		f, err = parser.ParseFile(fset, fname, src, mode)
		r.File = f
		if f != nil {
			node = f
		}
		mustAST = true
	case "entry":
		var f *ast.File
		f, err = parser.ParseEntry(fset, fname, src, parser.Config{Mode: mode})
		r.File = f
		if f != nil {
			node = f
		}
		mustAST = err != parser.ErrUnknownFileKind
		if err == parser.ErrUnknownFileKind {
			if f != nil {
				r.Outcome, r.Detail = "NILAST", "ErrUnknownFileKind with a non-nil file"
				return
			}
			r.Outcome = "ok"
			return
		}
	case "expr":
		var x ast.Expr
		x, err = parser.ParseExprFrom(fset, fname, src, mode)
		r.Expr = x
		if x != nil {
			node = x
		}
		// on bailout the expression stays nil and err != nil: an AST is only required when err == nil
	case "exprex":
		file := fset.AddFile(fname, -1, len(src))
		x, el := parser.ParseExprEx(file, src, offset, mode)
		r.Expr = x
		if x != nil {
			node = x
		}
		if len(el) > 0 {
			err = el
		}
	}
	if err != nil {
		el, ok := err.(gscanner.ErrorList)
		if !ok {
			r.Outcome, r.Detail = "ERRTYPE", fmt.Sprintf("%T", err)
			return
		}
		r.NErr = len(el)
		r.Errs = el
		if len(el) == 0 {
			r.Outcome, r.Detail = "ERRTYPE", "non-nil empty ErrorList"
			return
		}
		if !sort.IsSorted(el) || !posSorted(el) {
			r.Outcome, r.Detail = "UNSORTED", el.Error()
			return
		}
	}
	if node == nil {
		if mustAST || err == nil {
			r.Outcome, r.Detail = "NILAST", "no AST returned"
			return
		}
		r.Outcome = "ok"
		return
	}
	bad, wp := countBad(node)
	r.NBad = bad
	if wp != "" {
		r.Walk = "walk-panic: " + wp
	}
	if err == nil && bad > 0 {
		r.Outcome, r.Detail = "BADNOERR", fmt.Sprintf("%d Bad node(s) with err == nil", bad)
		return
	}
	r.Outcome = "ok"
	return
}

// ----------------------------------------------------------------------------- kdiff

func kdiff() {
	sc := bufio.NewScanner(os.Stdin)
	sc.Buffer(make([]byte, 1<<20), 1<<26)
	w := bufio.NewWriter(os.Stdout)
	defer w.Flush()
	for sc.Scan() {
		f := strings.Fields(sc.Text())
		if len(f) == 0 {
			fmt.Fprintln(w)
			continue
		}
		switch f[0] {
		case "E": // E <all> <hexsrc>
			src, _ := hex.DecodeString(f[2])
			mode := parser.Mode(0)
			if f[1] == "1" {
				mode = parser.AllErrors
			}
			r := runCase("file", mode, "a.xgo", 0, src)
			if r.Outcome == "PANIC" {
				fmt.Fprintf(w, "PANIC %s\n", r.Detail)
				continue
			}
			var es []string
			for _, e := range r.Errs {
				es = append(es, fmt.Sprintf("%d:%d", e.Pos.Line, e.Pos.Column))
			}
			bail := 0
			if r.File != nil && r.File.Name != nil && r.File.Name.Name == "" {
				bail = 1
			}
			fmt.Fprintf(w, "errs=%s bail=%d bad=%d\n", strings.Join(es, ","), bail, r.NBad)
		case "S": // S l:c:m ...
			var el gscanner.ErrorList
			for _, x := range f[1:] {
				p := strings.Split(x, ":")
				l, _ := strconv.Atoi(p[0])
				c, _ := strconv.Atoi(p[1])
				m, _ := strconv.Atoi(p[2])
				el = append(el, &gscanner.Error{Pos: token.Position{Filename: "a", Line: l, Column: c}, Msg: fmt.Sprintf("%06d", m)})
			}
			el.Sort()
			var out []string
			for _, e := range el {
				m, _ := strconv.Atoi(e.Msg)
				out = append(out, fmt.Sprintf("%d:%d:%d", e.Pos.Line, e.Pos.Column, m))
			}
			fmt.Fprintln(w, strings.Join(out, " "))
		case "A": // A <hexsrc>  -> for every BadStmt, in source order: To as token.Pos (-1 = EOF)
			src, _ := hex.DecodeString(f[1])
			r := runCase("file", parser.AllErrors, "a.xgo", 0, src)
			if r.Outcome == "PANIC" || r.File == nil {
				fmt.Fprintf(w, "PANIC %s\n", r.Detail)
				continue
			}
			var out []string
			func() {
				defer func() { recover() }()
				ast.Inspect(r.File, func(n ast.Node) bool {
					if b, ok := n.(*ast.BadStmt); ok {
						to := int(b.To) // token.Pos = offset + file base (1)
						if to-1 >= len(src) {
							to = -1
						}
						out = append(out, strconv.Itoa(to))
					}
					return true
				})
			}()
			fmt.Fprintln(w, strings.Join(out, " "))
		default:
			fmt.Fprintln(w, "BADCASE")
		}
	}
}

// ----------------------------------------------------------------------------- worker

func worker() {
	// protocol results go to fd 3; stdout (parser Trace output) is discarded
	out := os.NewFile(3, "results")
	devnull, _ := os.OpenFile("/dev/null", os.O_WRONLY, 0)
	syscall.Dup2(int(devnull.Fd()), 1)
	sc := bufio.NewScanner(os.Stdin)
	sc.Buffer(make([]byte, 1<<20), 1<<28)
	w := bufio.NewWriter(out)
	for sc.Scan() {
		f := strings.Fields(sc.Text())
		if len(f) < 6 {
			continue
		}
		mode, _ := strconv.Atoi(f[2])
		fi, _ := strconv.Atoi(f[3])
		off, _ := strconv.Atoi(f[4])
		src := []byte{}
		if f[5] != "-" {
			src, _ = hex.DecodeString(f[5])
		}
		r := runCase(f[1], parser.Mode(mode), fileNames[fi%len(fileNames)], off, src)
		d := strings.ReplaceAll(strings.ReplaceAll(r.Detail, "\n", " / "), "\t", " ")
		if len(d) > 300 {
			d = d[:300]
		}
		wk := strings.ReplaceAll(r.Walk, "\n", " ")
		fmt.Fprintf(w, "%s\t%s\t%d\t%d\t%s\t%s\n", f[0], r.Outcome, r.NErr, r.NBad, wk, d)
		w.Flush()
	}
}

type workerProc struct {
	cmd   *exec.Cmd
	in    io.WriteCloser
	lines chan string
	errb  *tailBuf
}

type tailBuf struct{ b []byte }

func (t *tailBuf) Write(p []byte) (int, error) {
	t.b = append(t.b, p...)
	if len(t.b) > 4000 {
		t.b = t.b[len(t.b)-4000:]
	}
	return len(p), nil
}

func startWorker() *workerProc {
	self, _ := os.Executable()
	cmd := exec.Command(self, "worker")
	in, _ := cmd.StdinPipe()
	pr, pw, _ := os.Pipe()
	cmd.ExtraFiles = []*os.File{pw}
	tb := &tailBuf{}
	cmd.Stderr = tb
	if err := cmd.Start(); err != nil {
		fmt.Fprintln(os.Stderr, "cannot start worker:", err)
		os.Exit(3)
	}
	pw.Close()
	wp := &workerProc{cmd: cmd, in: in, lines: make(chan string, 16), errb: tb}
	go func() {
		sc := bufio.NewScanner(pr)
		sc.Buffer(make([]byte, 1<<20), 1<<26)
		for sc.Scan() {
			wp.lines <- sc.Text()
		}
		close(wp.lines)
	}()
	return wp
}

func (w *workerProc) kill() {
	w.cmd.Process.Kill()
	w.cmd.Wait()
}

// ----------------------------------------------------------------------------- generators

type rng struct{ s uint64 }

func (r *rng) next() uint64 {
	r.s += 0x9E3779B97F4A7C15
	z := r.s
	z = (z ^ (z >> 30)) * 0xBF58476D1CE4E5B9
	z = (z ^ (z >> 27)) * 0x94D049BB133111EB
	return z ^ (z >> 31)
}
func (r *rng) below(n int) int {
	if n <= 0 {
		return 0
	}
	return int(r.next() % uint64(n))
}

var soupTokens = []string{
	"a", "b", "x", "f", "T", "in", "println", "_", "1", "2.5", "0x1F", "3i", "1r", "'c'", "\"s\"", "`r`", "\"a${b}c\"", "c\"x\"", "py\"x\"", "1m",
	"+", "-", "*", "/", "%", "&", "|", "^", "<<", ">>", "&^", "+=", "-=", "*=", "/=", "%=", "&=", "|=", "^=", "<<=", ">>=", "&^=",
	"&&", "||", "<-", "++", "--", "==", "<", ">", "=", "!", "!=", "<=", ">=", ":=", "...", "(", "[", "{", ",", ".", ")", "]", "}", ";", ":",
	"?", "=>", "->", "<>", "$", "${", "~", "@", "#", "\n", "\n", "//c\n", "/*c*/", "#!c\n",
	"break", "case", "chan", "const", "continue", "default", "defer", "else", "fallthrough", "for", "func", "go", "goto", "if", "import",
	"interface", "map", "package", "range", "return", "select", "struct", "switch", "type", "var",
	// multi-token snippets of XGo constructs (structure that single tokens rarely assemble)
	"L:", "goto L", "break L", "continue L", "x => {", "(a, b) =>", "() =>", "=> (", "}()", "func() {", "func(a int) int {", "[x for x in y]",
	"{k: v for k, v in m}", "for x in y {", "for i, v <- a, i > 1 {", "a!", "a?:b", "1:10:2", "var (", "const (", "import \"a\"", "type T struct {",
	"tpl`a = b`", "tpl`a = b => { return self }`", "json`> x, y; z`", "echo \"${x}\"", "if x := f(); x {", "} else {", "switch x.(type) {", "case a, b:",
	"select {", "case v := <-ch:", "go f(", "defer f(", "[1, 2; 3, 4]", "[]int{1, 2}", "map[string]int{", "x.(T)", "a[1:2:3]", "f x, y", "f -x", "x...",
}

type tokSpan struct{ off, end int }

// tokenize with the XGo scanner (errors ignored); returns token spans in source order
func tokenize(src []byte) (spans []tokSpan) {
	defer func() { recover() }()
	fset := token.NewFileSet()
	file := fset.AddFile("", -1, len(src))
	var s scanner.Scanner
	s.Init(file, src, func(token.Position, string) {}, scanner.ScanComments)
	for i := 0; i < 200000; i++ {
		pos, tok, lit := s.Scan()
		if tok == token.EOF {
			break
		}
		off := int(pos) - file.Base()
		n := len(lit)
		if n == 0 || (tok == token.SEMICOLON && lit == "\n") {
			n = len(tok.String())
			if tok == token.SEMICOLON && lit == "\n" {
				n = 0
			}
		}
		if off < 0 || off > len(src) {
			continue
		}
		end := off + n
		if end > len(src) {
			end = len(src)
		}
		if end > off {
			spans = append(spans, tokSpan{off, end})
		}
	}
	return
}

func mutateTokens(r *rng, src []byte) []byte {
	sp := tokenize(src)
	if len(sp) == 0 {
		return src
	}
	nops := 1 + r.below(3)
	cur := src
	for k := 0; k < nops; k++ {
		sp = tokenize(cur)
		if len(sp) == 0 {
			break
		}
		i := r.below(len(sp))
		t := sp[i]
		var out []byte
		switch r.below(6) {
		case 0: // delete token
			out = append(append(out, cur[:t.off]...), cur[t.end:]...)
		case 1: // duplicate token
			out = append(append(append(append(out, cur[:t.end]...), ' '), cur[t.off:t.end]...), cur[t.end:]...)
		case 2: // swap with next
			if i+1 < len(sp) {
				u := sp[i+1]
				out = append(out, cur[:t.off]...)
				out = append(out, cur[u.off:u.end]...)
				out = append(out, cur[t.end:u.off]...)
				out = append(out, cur[t.off:t.end]...)
				out = append(out, cur[u.end:]...)
			} else {
				out = cur
			}
		case 3: // replace by a random token
			out = append(append(append(out, cur[:t.off]...), soupTokens[r.below(len(soupTokens))]...), cur[t.end:]...)
		case 4: // insert a random token before
			out = append(append(append(append(out, cur[:t.off]...), soupTokens[r.below(len(soupTokens))]...), ' '), cur[t.off:]...)
		case 5: // truncate after this token
			out = append(out, cur[:t.end]...)
		}
		cur = out
	}
	return cur
}

func mutateBytes(r *rng, src []byte) []byte {
	cur := append([]byte{}, src...)
	for k := 1 + r.below(4); k > 0; k-- {
		if len(cur) == 0 {
			cur = append(cur, byte(r.below(256)))
			continue
		}
		i := r.below(len(cur))
		switch r.below(4) {
		case 0:
			cur[i] = byte(r.below(256))
		case 1:
			cur = append(cur[:i], cur[i+1:]...)
		case 2:
			cur = append(cur[:i], append([]byte{punct[r.below(len(punct))]}, cur[i:]...)...)
		case 3:
			cur = cur[:i]
		}
	}
	return cur
}

var punct = []byte("(){}[];:,.+-*/%&|^<>=!?$#@~\"'`\\ \n\t0aZ_\x00\x80\xff\xc3")

func soup(r *rng) []byte {
	var b []byte
	n := 1 + r.below(30)
	for i := 0; i < n; i++ {
		b = append(b, soupTokens[r.below(len(soupTokens))]...)
		switch r.below(5) {
		case 0:
		case 1:
			b = append(b, '\n')
		default:
			b = append(b, ' ')
		}
	}
	return b
}

func randBytes(r *rng) []byte {
	n := r.below(48)
	b := make([]byte, n)
	for i := range b {
		if r.below(4) == 0 {
			b[i] = byte(r.below(256))
		} else {
			b[i] = punct[r.below(len(punct))]
		}
	}
	return b
}

type corpusFile struct {
	rel string
	src []byte
}

func loadCorpus(repo string) (files []corpusFile) {
	exts := map[string]bool{".xgo": true, ".gop": true, ".gox": true, ".spx": true, ".gsh": true, ".gmx": true, ".go": true}
	filepath.Walk(repo, func(p string, info os.FileInfo, err error) error {
		if err != nil {
			return nil
		}
		if info.IsDir() {
			if info.Name() == ".git" {
				return filepath.SkipDir
			}
			return nil
		}
		ext := filepath.Ext(p)
		if !exts[ext] || info.Size() > 40000 {
			return nil
		}
		rel, _ := filepath.Rel(repo, p)
		if ext == ".go" {
			// a slice of the Go files only: the XGo parser's own packages and the demos/testdata
			if !(strings.Contains(rel, "_testdata") || strings.HasPrefix(rel, "parser/") || strings.HasPrefix(rel, "demo/") || strings.HasPrefix(rel, "token/") || strings.HasPrefix(rel, "scanner/")) {
				return nil
			}
		}
		b, err := os.ReadFile(p)
		if err == nil {
			files = append(files, corpusFile{rel, b})
		}
		return nil
	})
	sort.Slice(files, func(i, j int) bool { return files[i].rel < files[j].rel })
	return
}

var modeBits = []parser.Mode{parser.PackageClauseOnly, parser.ImportsOnly, parser.ParseComments, parser.DeclarationErrors, parser.AllErrors,
	parser.ParseGoAsGoPlus, parser.ParseGoPlusClass, parser.SaveAbsFile}

func randMode(r *rng, small bool) parser.Mode {
	var m parser.Mode
	switch r.below(4) {
	case 0:
		return 0
	case 1:
		return modeBits[r.below(len(modeBits))]
	}
	for _, b := range modeBits {
		if r.below(3) == 0 {
			m |= b
		}
	}
	if r.below(3) != 0 {
		m &^= parser.PackageClauseOnly | parser.ImportsOnly
	}
	if small && r.below(20) == 0 {
		m |= parser.Trace
	}
	return m
}

// Dimensions on which the tree is known to fail are covered by deterministic witnesses; seeded
// inputs are kept out of such a dimension ONLY while its witness still fails (probed on every run),
// so a repaired tree gets the dimension back without any change here.
//   go-tuple: `go (` / `defer (` followed by a tuple panics parseCallExpr (tupleExpr.End on a nil embedded Expr)
var goTupleRE = regexp.MustCompile(`\b(go|defer)(\s*)\(`)
//   lambda-label: a label, or a goto/break/continue with a label, inside a lambda block `=> { ... }` that is
//                 not inside a function body (parseLambdaExpr opens no label scope: nil labelScope / empty targetStack)
var lambdaBlockRE = regexp.MustCompile(`=>(\s*)\{`)
var excludeGoTuple, excludeLambdaBlock bool

func sanitize(src []byte) ([]byte, bool) {
	changed := false
	if excludeGoTuple && goTupleRE.Match(src) {
		src, changed = goTupleRE.ReplaceAll(src, []byte("${1}${2}f(")), true
	}
	if excludeLambdaBlock && lambdaBlockRE.Match(src) {
		src, changed = lambdaBlockRE.ReplaceAll(src, []byte("=>${1}(")), true
	}
	return src, changed
}

type fcase struct {
	key, gen, entry string
	mode            parser.Mode
	fi, off         int
	src             []byte
	det             bool
}

type failure struct {
	Key     string `json:"key"`
	Gen     string `json:"gen"`
	Entry   string `json:"entry"`
	Mode    int    `json:"mode"`
	Fname   string `json:"fname"`
	Offset  int    `json:"offset"`
	Outcome string `json:"outcome"`
	Detail  string `json:"detail"`
	SrcHex  string `json:"src_hex"`
	SrcText string `json:"src_text"`
}

func sha12(b []byte) string {
	h := sha256.Sum256(b)
	return hex.EncodeToString(h[:])[:12]
}

var detCrafted = []struct{ name, src string }{
	{"empty", ""}, {"sharp", "#"}, {"sharp-eof", "x\n#"}, {"todo-slice", "a := [][]\nint{}"}, {"todo-compr", "{1, 2 for x <- a}"},
	{"todo-forphrase", "for a, b, c <- x {}"}, {"nul", "\x00"}, {"bom-only", "\xef\xbb\xbf"}, {"unterminated-str", "x := \"abc"},
	{"unterminated-raw", "x := `abc"}, {"unterminated-comment", "/* abc"}, {"lone-brace", "}"}, {"lone-case", "case"},
	{"package-only", "package"}, {"import-junk", "import ("}, {"func-junk", "func ("}, {"dollar", "$"}, {"dollar-brace", "${"},
	{"interp-bad", "x := \"${)}\""}, {"interp-unclosed", "x := \"${a\""}, {"tpl-bad", "x := tpl`a = )`"},
	{"domaintext-ok", "x := json`> 1, 2; raw`"},
	{"many-errors", strings.Repeat("var 1 int\n", 30)},
	{"many-errors-oneline", strings.Repeat("var 1 int;", 30)},
	{"nest-200", "x := " + strings.Repeat("(", 200)},
	{"nest-brack-200", "x := " + strings.Repeat("[", 200)},
	{"nest-brace-200", "x := " + strings.Repeat("{", 200)},
	{"nest-func-100", strings.Repeat("func(){", 100)},
	{"unary-500", "x := " + strings.Repeat("-", 500) + "1"},
	{"lambda-chain", "x := " + strings.Repeat("a => ", 100) + "1"},
	// known finding: a tuple after go / defer panics parseCallExpr
	{"go-tuple-1", "go ()"}, {"go-tuple-2", "defer ()"}, {"go-tuple-3", "go (a, b)"}, {"go-paren-ok", "go (f)()"},
	// known finding: labels in a lambda block outside a function body (no label scope is opened)
	{"lambda-label-1", "var f = x => { L: y }"}, {"lambda-label-2", "var f = x => { goto L }"}, {"lambda-label-3", "var f = x => { break L }"},
	{"lambda-label-4", "x => { L: y }"}, {"lambda-label-ok", "f x => { L: y }"}, {"lambda-block-ok", "var f = x => { return x }"},
	// regression inputs of the repaired domainTextLitEx defect (sub-parser errors were dropped)
	{"domaintext-args-bad-1", "x := json`> ); foo`"},
	{"domaintext-args-bad-2", "x := json`> 1, ), ; foo`"},
	{"domaintext-args-bailout", "x := json`> " + strings.Repeat(")\n", 14) + "; foo`"},
}

func fuzz(args []string) {
	fs := flag.NewFlagSet("fuzz", flag.ExitOnError)
	seed := fs.Uint64("seed", 1, "")
	n := fs.Int("n", 5000, "seeded cases")
	repo := fs.String("repo", "/repo", "")
	perCase := fs.Int("timeout-ms", 10000, "")
	prefixFiles := fs.Int("prefix-files", 12, "files whose every token-boundary prefix is tried")
	ovfMax := fs.Int("overflow-max", 5, "largest repetition count of the overflow family")
	fs.Parse(args)
	r := &rng{s: *seed}
	// probe the known-failing dimensions in-process (a panic here is recovered by runCase)
	excludeGoTuple = runCase("file", 0, "a.xgo", 0, []byte("go ()")).Outcome != "ok"
	excludeLambdaBlock = runCase("file", 0, "a.xgo", 0, []byte("var f = x => { L: y }")).Outcome != "ok" ||
		runCase("file", 0, "a.xgo", 0, []byte("var f = x => { goto L }")).Outcome != "ok"
	corpus := loadCorpus(*repo)
	var cases []fcase
	entryFor := func(rel string) (string, int) {
		switch filepath.Ext(rel) {
		case ".gox":
			return "entry", 1
		case ".spx":
			if filepath.Base(rel) == "main.spx" {
				return "entry", 2
			}
			return "entry", 3
		case ".gsh":
			return "entry", 4
		case ".gmx":
			return "entry", 5
		case ".go":
			return "entry", 6
		}
		return "file", 0
	}
	// ---- deterministic set
	for _, c := range detCrafted {
		for _, ent := range []string{"file", "expr"} {
			for _, m := range []parser.Mode{0, parser.AllErrors | parser.ParseComments | parser.DeclarationErrors} {
				cases = append(cases, fcase{key: fmt.Sprintf("det:%s:%s:%d", c.name, ent, m), gen: "det-crafted", entry: ent, mode: m, src: []byte(c.src), det: true})
			}
		}
		cases = append(cases, fcase{key: "det:" + c.name + ":gox:0", gen: "det-crafted", entry: "entry", fi: 1, src: []byte(c.src), det: true})
	}
	// regression inputs of the repaired ParseExprEx defect (the list was returned unsorted)
	for _, c := range []struct{ name, src string }{{"exprex-sorted-regress-1", "\xc1\xa8`"}, {"exprex-sorted-2", "1 + )"}} {
		cases = append(cases, fcase{key: "det:" + c.name, gen: "det-crafted", entry: "exprex", src: []byte(c.src), det: true})
	}
	for _, cf := range corpus {
		ent, fi := entryFor(cf.rel)
		for _, m := range []parser.Mode{0, parser.AllErrors | parser.ParseComments | parser.DeclarationErrors} {
			cases = append(cases, fcase{key: fmt.Sprintf("det:corpus:%s:%d", cf.rel, m), gen: "det-corpus", entry: ent, mode: m, fi: fi, src: cf.src, det: true})
		}
	}
	// every token-boundary prefix of the smallest XGo corpus files
	var small []corpusFile
	for _, cf := range corpus {
		if filepath.Ext(cf.rel) != ".go" && len(cf.src) > 40 && len(cf.src) < 700 {
			small = append(small, cf)
		}
	}
	sort.SliceStable(small, func(i, j int) bool { return len(small[i].src) < len(small[j].src) })
	step := 1
	if len(small) > *prefixFiles && *prefixFiles > 0 {
		step = len(small) / *prefixFiles
	}
	np := 0
	for i := 0; i < len(small) && np < *prefixFiles; i += step {
		cf := small[i]
		np++
		ent, fi := entryFor(cf.rel)
		for k, t := range tokenize(cf.src) {
			cases = append(cases, fcase{key: fmt.Sprintf("det:prefix:%s:%d", cf.rel, k), gen: "det-prefix", entry: ent, fi: fi, src: cf.src[:t.end], det: true})
		}
	}
	// "one more than the grammar allows": constructs x repetition counts x contexts
	cases = append(cases, overflowCases(*ovfMax)...)
	ndet := len(cases)
	// ---- seeded set
	sanitized := 0
	gens := []string{"mut-token", "mut-token", "mut-token", "mut-byte", "soup", "soup", "randbytes", "splice"}
	for i := 0; i < *n; i++ {
		g := gens[r.below(len(gens))]
		var src []byte
		ent, fi := "file", 0
		switch g {
		case "mut-token", "mut-byte", "splice":
			cf := corpus[r.below(len(corpus))]
			ent, fi = entryFor(cf.rel)
			switch g {
			case "mut-token":
				src = mutateTokens(r, cf.src)
			case "mut-byte":
				src = mutateBytes(r, cf.src)
			default:
				o := corpus[r.below(len(corpus))]
				src = append(append([]byte{}, cf.src[:r.below(len(cf.src)+1)]...), o.src[r.below(len(o.src)+1):]...)
			}
		case "soup":
			src = soup(r)
		default:
			src = randBytes(r)
		}
		switch r.below(10) {
		case 0, 1:
			ent = "expr"
		case 2:
			ent = "exprex"
		case 3:
			ent, fi = "entry", r.below(len(fileNames))
		case 4:
			ent, fi = "file", r.below(len(fileNames))
		}
		if ent == "expr" || ent == "exprex" {
			// expressions: use a fragment
			if len(src) > 200 {
				a := r.below(len(src) - 100)
				src = src[a : a+1+r.below(100)]
			}
		}
		var s bool
		src, s = sanitize(src)
		if s {
			sanitized++
		}
		off := 0
		if ent == "exprex" && r.below(3) == 0 {
			off = r.below(len(src) + 1)
		}
		m := randMode(r, len(src) < 400)
		cases = append(cases, fcase{key: fmt.Sprintf("src:%s:%s:%d:%d:%d", sha12(src), ent, m, fi, off), gen: g, entry: ent, mode: m, fi: fi, off: off, src: src})
	}

	// ---- run
	w := startWorker()
	byGen, byEntry, byOutcome, byMode := map[string]int{}, map[string]int{}, map[string]int{}, map[string]int{}
	errHist, sizeHist := map[string]int{}, map[string]int{}
	distinct := map[string]bool{}
	nontrivial := map[string]bool{}
	var failures []failure
	var walkNotes []string
	exprexUnsorted := 0
	var exprexWitness string
	bucket := func(n int) string {
		switch {
		case n == 0:
			return "0"
		case n <= 2:
			return "1-2"
		case n <= 10:
			return "3-10"
		case n == 11:
			return "11"
		}
		return ">11"
	}
	sizeBucket := func(n int) string {
		switch {
		case n < 16:
			return "<16B"
		case n < 128:
			return "<128B"
		case n < 1024:
			return "<1KB"
		case n < 8192:
			return "<8KB"
		}
		return ">=8KB"
	}
	start := time.Now()
	for i, c := range cases {
		h := "-"
		if len(c.src) > 0 {
			h = hex.EncodeToString(c.src)
		}
		fmt.Fprintf(w.in, "%d %s %d %d %d %s\n", i, c.entry, c.mode, c.fi, c.off, h)
		outcome, detail, nerr, nbad, walk := "", "", 0, 0, ""
		select {
		case line, ok := <-w.lines:
			if !ok {
				w.cmd.Wait()
				outcome, detail = "CRASH", "worker died: "+firstLines(string(w.errb.b), 3)
				w = startWorker()
			} else {
				f := strings.Split(line, "\t")
				if len(f) >= 6 && f[0] == strconv.Itoa(i) {
					outcome = f[1]
					nerr, _ = strconv.Atoi(f[2])
					nbad, _ = strconv.Atoi(f[3])
					walk, detail = f[4], f[5]
				} else {
					outcome, detail = "PROTOCOL", line
				}
			}
		case <-time.After(time.Duration(*perCase) * time.Millisecond):
			w.kill()
			outcome, detail = "HANG", fmt.Sprintf("no result within %d ms", *perCase)
			w = startWorker()
		}
		byGen[c.gen]++
		byEntry[c.entry]++
		byOutcome[outcome]++
		byMode[strconv.Itoa(int(c.mode))]++
		errHist[bucket(nerr)]++
		sizeHist[sizeBucket(len(c.src))]++
		k := sha12(c.src)
		distinct[k] = true
		if nerr > 0 || nbad > 0 || len(c.src) >= 8 {
			nontrivial[k+c.entry] = true
		}
		if walk == "exprex-unsorted" {
			exprexUnsorted++
			if exprexWitness == "" || len(c.src) < len(exprexWitness)/2 {
				exprexWitness = hex.EncodeToString(c.src)
			}
		} else if walk != "" && len(walkNotes) < 5 {
			walkNotes = append(walkNotes, walk+" on "+c.key)
		}
		if outcome != "ok" {
			txt := string(c.src)
			if len(txt) > 400 {
				txt = txt[:400] + "..."
			}
			sh := h
			if len(sh) > 20000 {
				sh = sh[:20000]
			}
			failures = append(failures, failure{Key: c.key, Gen: c.gen, Entry: c.entry, Mode: int(c.mode), Fname: fileNames[c.fi%len(fileNames)], Offset: c.off,
				Outcome: outcome, Detail: detail, SrcHex: sh, SrcText: txt})
		}
	}
	w.in.Close()
	w.kill()
	top := func(m map[string]int, n int) map[string]int {
		type kv struct {
			k string
			v int
		}
		var l []kv
		for k, v := range m {
			l = append(l, kv{k, v})
		}
		sort.Slice(l, func(i, j int) bool { return l[i].v > l[j].v })
		out := map[string]int{}
		for i := 0; i < len(l) && i < n; i++ {
			out[l[i].k] = l[i].v
		}
		return out
	}
	var samples []map[string]string
	for _, i := range []int{ndet + 1, ndet + len(cases)/7, len(cases) - 1} {
		if i >= 0 && i < len(cases) {
			t := string(cases[i].src)
			if len(t) > 120 {
				t = t[:120] + "..."
			}
			samples = append(samples, map[string]string{"key": cases[i].key, "gen": cases[i].gen, "src": t})
		}
	}
	doc := map[string]interface{}{
		"cases": len(cases), "deterministic": ndet, "seeded": len(cases) - ndet, "corpus_files": len(corpus), "prefix_files": np,
		"distinct_sources": len(distinct), "nontrivial": len(nontrivial), "sanitized": sanitized, "exclude_go_tuple": excludeGoTuple, "exclude_lambda_block": excludeLambdaBlock,
		"by_gen": byGen, "by_entry": byEntry, "by_outcome": byOutcome, "by_mode_top": top(byMode, 12), "modes_distinct": len(byMode),
		"errors_per_case": errHist, "size": sizeHist, "failures": failures, "walk_notes": walkNotes,
		"exprex_unsorted": exprexUnsorted, "exprex_unsorted_witness_hex": exprexWitness,
		"elapsed_s": time.Since(start).Seconds(), "samples": samples,
	}
	enc := json.NewEncoder(os.Stdout)
	enc.Encode(doc)
}

func firstLines(s string, n int) string {
	l := strings.Split(strings.TrimSpace(s), "\n")
	if len(l) > n {
		l = l[:n]
	}
	return strings.Join(l, " / ")
}

// deep nesting witness, run in its own child process: exits 0 and prints "done" if the parse returned
func deep(args []string) {
	n, _ := strconv.Atoi(args[0])
	tok := args[1]
	if len(args) > 2 {
		mb, _ := strconv.Atoi(args[2])
		if mb > 0 {
			debug.SetMaxStack(mb << 20)
		}
	}
	src := "x := " + strings.Repeat(tok, n)
	_, err := parser.ParseFile(token.NewFileSet(), "a.xgo", src, 0)
	fmt.Println("done", err != nil)
}
