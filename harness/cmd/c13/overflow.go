package main

// "One more than the grammar allows": every bounded repetition of the grammar, instantiated with
// 0..5 repetitions (below, at and above the bound), in expression / file / function-body /
// command-argument / class-file contexts; every keyword in every statement-start position;
// unbalanced and mismatched brackets of each kind at depth 1..4.  Deterministic (seed-independent).

import (
	"fmt"
	"strings"

	"github.com/goplus/xgo/parser"
)

func rep(s string, n int) string { return strings.Repeat(s, n) }

type ovfTemplate struct {
	id   string
	stmt bool // statement / declaration level (else: expression)
	gen  func(n int) string
}

var unaryOps = []string{"+", "-", "!", "^", "&", "<-", "*"}
var binaryOps = []string{"+", "-", "*", "/", "%", "&", "|", "^", "<<", ">>", "&^", "&&", "||", "==", "!=", "<", "<=", ">", ">=", "->", "<>", "=", ":=", "+=", "<-", ":", ",", ".", "...", "=>", "?", "?:"}
var keywords = []string{"break", "case", "chan", "const", "continue", "default", "defer", "else", "fallthrough", "for", "func", "go", "goto", "if",
	"import", "interface", "map", "package", "range", "return", "select", "struct", "switch", "type", "var", "in", "class", "tpl", "echo"}

func ovfTemplates() []ovfTemplate {
	t := []ovfTemplate{
		// ---- expressions
		{"slice-colons", false, func(n int) string { return "s[" + rep(":", n) + "]" }},
		{"slice-colons-idx", false, func(n int) string { return "s[0" + rep(":1", n) + "]" }},
		{"slice-colons-open", false, func(n int) string { return "s[" + rep(":1", n) + ":]" }},
		{"slice-colons-mixed", false, func(n int) string { return "s[a" + rep(":", n) + "b]" }},
		{"index-commas", false, func(n int) string { return "s[a" + rep(",b", n) + "]" }},
		{"index-commas-empty", false, func(n int) string { return "s[" + rep(",", n) + "]" }},
		{"index-chain", false, func(n int) string { return "s" + rep("[0]", n) }},
		{"call-ellipsis", false, func(n int) string { return "f(a" + rep("...", n) + ")" }},
		{"call-ellipsis-args", false, func(n int) string { return "f(" + rep("a..., ", n) + "b)" }},
		{"call-commas", false, func(n int) string { return "f(a" + rep(",", n) + ")" }},
		{"call-chain", false, func(n int) string { return "f" + rep("()", n) }},
		{"postfix-not", false, func(n int) string { return "x" + rep("!", n) }},
		{"postfix-question", false, func(n int) string { return "x" + rep("?", n) }},
		{"postfix-default", false, func(n int) string { return "x" + rep("?:y", n) }},
		{"errwrap-colon", false, func(n int) string { return "x?" + rep(":", n) + "y" }},
		{"lambda-chain", false, func(n int) string { return "x" + rep(" => y", n) }},
		{"lambda-arrows", false, func(n int) string { return "(a, b)" + rep(" =>", n) + " c" }},
		{"lambda-params", false, func(n int) string { return "(" + rep("a, ", n) + "z) => x" }},
		{"lambda-params-ellipsis", false, func(n int) string { return "(a" + rep("...", n) + ") => x" }},
		{"lambda-rhs-list", false, func(n int) string { return "x => (a" + rep(", b", n) + ")" }},
		{"lambda-block", false, func(n int) string { return "x => " + rep("{", n) + " return x " + rep("}", n) }},
		{"range-colons", false, func(n int) string { return "a" + rep(":b", n) }},
		{"selector-dots", false, func(n int) string { return "a" + rep(".", n) + "b" }},
		{"selector-chain", false, func(n int) string { return "a" + rep(".b", n) }},
		{"type-assert", false, func(n int) string { return "a" + rep(".(T)", n) }},
		{"type-assert-type", false, func(n int) string { return "a" + rep(".(type)", n) }},
		{"maplit-colons", false, func(n int) string { return "{" + rep("a: ", n) + "b}" }},
		{"maplit-commas", false, func(n int) string { return "{a: b" + rep(",", n) + "}" }},
		{"complit-nest", false, func(n int) string { return "T" + rep("{", n) + "1" + rep("}", n) }},
		{"interp-nest", false, func(n int) string { return "\"" + rep("${", n) + "x" + rep("}", n) + "\"" }},
		{"interp-dollars", false, func(n int) string { return "\"a" + rep("$", n) + "b\"" }},
		{"interp-open", false, func(n int) string { return "\"" + rep("${x", n) + "\"" }},
		{"compr-fors", false, func(n int) string { return "[x " + rep("for x in y ", n) + "]" }},
		{"compr-ifs", false, func(n int) string { return "[x for x in y " + rep("if c ", n) + "]" }},
		{"compr-commacond", false, func(n int) string { return "[x for x in y" + rep(", c", n) + "]" }},
		{"compr-vars", false, func(n int) string { return "[x for " + rep("a, ", n) + "z in y]" }},
		{"compr-vars-arrow", false, func(n int) string { return "[x for " + rep("a, ", n) + "z <- y]" }},
		{"compr-elems", false, func(n int) string { return "{" + rep("a, ", n) + "z for x in y}" }},
		{"compr-map-vars", false, func(n int) string { return "{k: v for " + rep("k, ", n) + "v in m}" }},
		{"slicelit-ellipsis", false, func(n int) string { return "[a" + rep("...", n) + "]" }},
		{"slicelit-commas", false, func(n int) string { return "[a" + rep(",", n) + "]" }},
		{"matrix-semis", false, func(n int) string { return "[1, 2" + rep(";", n) + " 3, 4]" }},
		{"matrix-rows", false, func(n int) string { return "[1" + rep("; 2", n) + "]" }},
		{"array-brackets", false, func(n int) string { return rep("[]", n) + "int{}" }},
		{"array-ellipsis", false, func(n int) string { return rep("[...]", n) + "int{}" }},
		{"array-len-list", false, func(n int) string { return "[1" + rep(", 2", n) + "]int{}" }},
		{"chan-arrows", false, func(n int) string { return rep("<-", n) + "ch" }},
		{"chan-type", false, func(n int) string { return rep("chan ", n) + "int(nil)" }},
		{"chan-dir", false, func(n int) string { return "chan" + rep("<-", n) + " int(nil)" }},
		{"stars", false, func(n int) string { return rep("*", n) + "p" }},
		{"funclit-calls", false, func(n int) string { return "func(){}" + rep("()", n) }},
		{"funclit-results", false, func(n int) string { return "func() (" + rep("int, ", n) + "int) {}" }},
		{"funclit-params-ellipsis", false, func(n int) string { return "func(a " + rep("...", n) + "int) {}" }},
		{"functype-func", false, func(n int) string { return rep("func() ", n) + "int" }},
		{"map-type", false, func(n int) string { return rep("map[string]", n) + "int{}" }},
		{"map-key-brackets", false, func(n int) string { return "map" + rep("[", n) + "string" + rep("]", n) + "int{}" }},
		{"struct-lit-fields", false, func(n int) string { return "struct{" + rep("a int;", n) + "}{}" }},
		{"domain-text", false, func(n int) string { return "tpl" + rep("`a = b`", n) }},
		{"domain-args", false, func(n int) string { return "json`> " + rep("a, ", n) + "; x`" }},
		{"domain-args-semis", false, func(n int) string { return "json`> a" + rep(";", n) + " x`" }},
		{"env", false, func(n int) string { return rep("$", n) + "x" }},
		{"env-brace", false, func(n int) string { return "$" + rep("{", n) + "x" + rep("}", n) }},
		{"unit", false, func(n int) string { return "1" + rep("m", n) + rep(" s", n) }},
		{"rat", false, func(n int) string { return "1" + rep("r", n) }},
		{"kv-in-call", false, func(n int) string { return "f(a" + rep(": b", n) + ")" }},
		{"cmd-args", false, func(n int) string { return "f" + rep(" x,", n) + " y" }},
		// ---- statements and declarations
		{"send-chain", true, func(n int) string { return "ch" + rep(" <- x", n) }},
		{"send-lhs", true, func(n int) string { return "a" + rep(", b", n) + " <- c" }},
		{"send-values", true, func(n int) string { return "ch <- a" + rep(", b", n) }},
		{"send-ellipsis", true, func(n int) string { return "ch <- a" + rep("...", n) }},
		{"assign-chain", true, func(n int) string { return "a" + rep(" = b", n) }},
		{"define-chain", true, func(n int) string { return "a" + rep(" := b", n) }},
		{"assign-lhs", true, func(n int) string { return "a" + rep(", c", n) + " = 1" }},
		{"assign-rhs", true, func(n int) string { return "a = 1" + rep(", 2", n) }},
		{"incdec", true, func(n int) string { return "a" + rep("++", n) }},
		{"incdec-mixed", true, func(n int) string { return "a" + rep("++ --", n) }},
		{"else-blocks", true, func(n int) string { return "if a {}" + rep(" else {}", n) }},
		{"else-bare", true, func(n int) string { return "if a {}" + rep(" else", n) }},
		{"else-if", true, func(n int) string { return "if a {}" + rep(" else if b {}", n) + " else {} else {}" }},
		{"if-header", true, func(n int) string { return "if " + rep("x := 1; ", n) + "x {}" }},
		{"if-semis", true, func(n int) string { return "if " + rep(";", n) + " {}" }},
		{"forphrase-vars-arrow", true, func(n int) string { return "for " + rep("a, ", n) + "z <- c {}" }},
		{"forphrase-vars-in", true, func(n int) string { return "for " + rep("a, ", n) + "z in c {}" }},
		{"forrange-vars", true, func(n int) string { return "for " + rep("a, ", n) + "z := range c {}" }},
		{"forphrase-conds", true, func(n int) string { return "for x <- c" + rep(", x > 1", n) + " {}" }},
		{"forphrase-ifs", true, func(n int) string { return "for x in c " + rep("if x ", n) + "{}" }},
		{"for-semis", true, func(n int) string { return "for " + rep(";", n) + " {}" }},
		{"for-clauses", true, func(n int) string { return "for i := 0" + rep("; i < 1", n) + " {}" }},
		{"for-range-range", true, func(n int) string { return "for x := " + rep("range ", n) + "c {}" }},
		{"for-rangeexpr", true, func(n int) string { return "for i <- 0" + rep(":10", n) + " {}" }},
		{"switch-header", true, func(n int) string { return "switch " + rep("x; ", n) + "{}" }},
		{"switch-case-list", true, func(n int) string { return "switch x { case" + rep(" 1,", n) + " 2: }" }},
		{"switch-defaults", true, func(n int) string { return "switch x {" + rep(" default:", n) + " }" }},
		{"switch-case-colons", true, func(n int) string { return "switch x { case 1" + rep(":", n) + " }" }},
		{"switch-fallthrough", true, func(n int) string { return "switch x { case 1:" + rep(" fallthrough;", n) + " }" }},
		{"typeswitch-guard", true, func(n int) string { return "switch " + rep("y := ", n) + "x.(type) {}" }},
		{"select-cases", true, func(n int) string { return "select {" + rep(" case <-c:", n) + " }" }},
		{"select-comm-lhs", true, func(n int) string { return "select { case a" + rep(", b", n) + " := <-c: }" }},
		{"select-comm-send", true, func(n int) string { return "select { case c" + rep(" <- 1", n) + ": }" }},
		{"labels", true, func(n int) string { return rep("L: ", n) + "x" }},
		{"goto-labels", true, func(n int) string { return "goto" + rep(" L", n) }},
		{"break-labels", true, func(n int) string { return "for { break" + rep(" L", n) + " }" }},
		{"return-list", true, func(n int) string { return "return" + rep(" a,", n) + " b" }},
		{"return-return", true, func(n int) string { return rep("return ", n) + "a" }},
		{"go-go", true, func(n int) string { return rep("go ", n) + "f()" }},
		{"defer-defer", true, func(n int) string { return rep("defer ", n) + "f()" }},
		{"go-calls", true, func(n int) string { return "go f" + rep("()", n) }},
		{"go-tuple", true, func(n int) string { return "go (" + rep("a, ", n) + ")" }},
		{"blocks", true, func(n int) string { return rep("{", n) + " x " + rep("}", n) }},
		{"semis", true, func(n int) string { return "x" + rep(";", n) + " y" }},
		{"var-names", true, func(n int) string { return "var a" + rep(", b", n) + " int" }},
		{"var-inits", true, func(n int) string { return "var a int" + rep(" = 1", n) }},
		{"var-values", true, func(n int) string { return "var a, b = 1" + rep(", 2", n) }},
		{"var-types", true, func(n int) string { return "var a" + rep(" int", n) }},
		{"var-groups", true, func(n int) string { return "var " + rep("(", n) + " a int " + rep(")", n) }},
		{"var-group-specs", true, func(n int) string { return "var (" + rep(" a int;", n) + " )" }},
		{"var-var", true, func(n int) string { return rep("var ", n) + "a int" }},
		{"var-tags", true, func(n int) string { return "var (\n a int" + rep(" `t`", n) + "\n)" }},
		{"const-inits", true, func(n int) string { return "const a" + rep(" = 1", n) }},
		{"const-iota-group", true, func(n int) string { return "const (\n a = iota\n" + rep(" b\n", n) + ")" }},
		{"type-assigns", true, func(n int) string { return "type T" + rep(" = int", n) }},
		{"type-names", true, func(n int) string { return "type " + rep("T ", n) + "int" }},
		{"type-params", true, func(n int) string { return "type T[" + rep("A any, ", n) + "B any] int" }},
		{"imports", true, func(n int) string { return "import " + rep("\"a\" ", n) }},
		{"import-group", true, func(n int) string { return "import (" + rep("\"a\";", n) + ")" }},
		{"import-names", true, func(n int) string { return "import " + rep("x ", n) + "\"a\"" }},
		{"import-dots", true, func(n int) string { return "import " + rep(". ", n) + "\"a\"" }},
		{"packages", true, func(n int) string { return rep("package p\n", n) + "x" }},
		{"package-names", true, func(n int) string { return "package" + rep(" p", n) }},
		{"func-paramlists", true, func(n int) string { return "func f" + rep("()", n) + " {}" }},
		{"func-receivers", true, func(n int) string { return "func " + rep("(r T) ", n) + "f() {}" }},
		{"func-results", true, func(n int) string { return "func f() (" + rep("int, ", n) + "int) {}" }},
		{"func-variadic", true, func(n int) string { return "func f(a " + rep("...", n) + "int) {}" }},
		{"func-params", true, func(n int) string { return "func f(a" + rep(", b", n) + " int" + rep(", c", n) + ") {}" }},
		{"func-typeparams", true, func(n int) string { return "func f[" + rep("T any, ", n) + "U any]() {}" }},
		{"func-bodies", true, func(n int) string { return "func f()" + rep(" {}", n) }},
		{"func-names", true, func(n int) string { return "func" + rep(" f", n) + "() {}" }},
		{"func-dots", true, func(n int) string { return "func T" + rep(".f", n) + "() {}" }},
		{"func-static", true, func(n int) string { return "func " + rep(".", n) + "f() {}" }},
		{"func-op", true, func(n int) string { return "func (a T) " + rep("+", n) + " (b T) T {}" }},
		{"overload-list", true, func(n int) string { return "func f = (" + rep("g, ", n) + "h)" }},
		{"overload-eq", true, func(n int) string { return "func f" + rep(" =", n) + " (g)" }},
		{"overload-method", true, func(n int) string { return "func (T)" + rep(".f", n) + " = (g)" }},
		{"funclit-stmt-calls", true, func(n int) string { return "func() {}" + rep("()", n) }},
		{"struct-fields", true, func(n int) string { return "type T struct {" + rep(" a int;", n) + " }" }},
		{"struct-tags", true, func(n int) string { return "type T struct { a int " + rep("`t` ", n) + "}" }},
		{"struct-embedded-stars", true, func(n int) string { return "type T struct { " + rep("*", n) + "U }" }},
		{"struct-embedded-parens", true, func(n int) string { return "type T struct { " + rep("(", n) + "U" + rep(")", n) + " }" }},
		{"struct-field-names", true, func(n int) string { return "type T struct { a" + rep(", b", n) + " int }" }},
		{"struct-embedded-dots", true, func(n int) string { return "type T struct { a" + rep(".b", n) + " }" }},
		{"interface-methods", true, func(n int) string { return "type I interface {" + rep(" m();", n) + " }" }},
		{"interface-union", true, func(n int) string { return "type I interface { int" + rep(" | string", n) + " }" }},
		{"interface-tilde", true, func(n int) string { return "type I interface { " + rep("~", n) + "int }" }},
		{"comments", true, func(n int) string { return rep("/*", n) + " c " + rep("*/", n) + " x" }},
		{"sharp-comments", true, func(n int) string { return rep("#", n) + "\nx" }},
		{"line-directives", true, func(n int) string { return rep("//line a.go:1\n", n) + "x" }},
		{"echo-cmd", true, func(n int) string { return "echo" + rep(" x,", n) + " y" }},
		{"cmd-lambda", true, func(n int) string { return "f" + rep(" x =>", n) + " y" }},
		{"cmd-bracket", true, func(n int) string { return "f " + rep("[", n) + "1" + rep("]", n) }},
		{"cmd-brace", true, func(n int) string { return "f " + rep("{", n) + "a: 1" + rep("}", n) }},
		{"cmd-not", true, func(n int) string { return "f " + rep("!", n) + "x" }},
	}
	for _, op := range unaryOps {
		op := op
		t = append(t, ovfTemplate{"unary" + op, false, func(n int) string { return rep(op, n) + "x" }})
		t = append(t, ovfTemplate{"unary-sp" + op, false, func(n int) string { return rep(op+" ", n) + "x" }})
	}
	for _, op := range binaryOps {
		op := op
		t = append(t, ovfTemplate{"binary" + op, false, func(n int) string { return "a " + rep(op+" ", n) + "b" }})
		t = append(t, ovfTemplate{"binary-trail" + op, true, func(n int) string { return "a" + rep(" "+op, n) }})
	}
	return t
}

// overflowCases enumerates the family; keys are stable (template id, count, context, mode).
func overflowCases(maxN int) (cases []fcase) {
	add := func(id string, n int, ctx, ent string, fi int, src string, k int) {
		m := parser.Mode(0)
		if k%2 == 1 {
			m = parser.AllErrors | parser.ParseComments | parser.DeclarationErrors
		}
		cases = append(cases, fcase{key: fmt.Sprintf("det:ovf:%s:%d:%s:%d", id, n, ctx, m), gen: "det-overflow", entry: ent, mode: m, fi: fi, src: []byte(src), det: true})
	}
	k := 0
	for _, t := range ovfTemplates() {
		for n := 0; n <= maxN; n++ {
			s := t.gen(n)
			k++
			add(t.id, n, "expr", "expr", 0, s, k)
			if t.stmt {
				add(t.id, n, "top", "file", 0, s+"\n", k)
				add(t.id, n, "func", "file", 0, "func f() {\n"+s+"\n}\n", k+1)
				add(t.id, n, "class", "entry", 1, "var (\n a int\n)\n"+s+"\n", k)
				add(t.id, n, "spx", "entry", 2, s+"\n", k+1)
			} else {
				add(t.id, n, "define", "file", 0, "x := "+s+"\n", k)
				add(t.id, n, "func", "file", 0, "func f() {\n_ = "+s+"\n}\n", k+1)
				add(t.id, n, "cmd", "file", 0, "println "+s+"\n", k)
				add(t.id, n, "var", "file", 0, "var x = "+s+"\n", k+1)
				add(t.id, n, "class", "entry", 1, "func F() {\nreturn "+s+"\n}\n", k)
				add(t.id, n, "exprex", "exprex", 0, s, k)
			}
		}
	}
	// '$' placement in string literals: every string of length <= 5 over { $ { } a \ } in "..." and `...`
	alpha := []string{"$", "{", "}", "a", "\\"}
	var strs []string
	strs = append(strs, "")
	for lo, l := 0, 1; l <= 5; l++ {
		hi := len(strs)
		for _, s := range strs[lo:hi] {
			for _, c := range alpha {
				strs = append(strs, s+c)
			}
		}
		lo = hi
	}
	for i, s := range strs {
		for _, q := range []string{"\"", "`"} {
			lit := q + s + q
			qn := "dq"
			if q == "`" {
				qn = "raw"
			}
			id := fmt.Sprintf("dollar-%s-%d", qn, i)
			k++
			add(id, len(s), "expr", "expr", 0, lit, k)
			add(id, len(s), "define", "file", 0, "x := "+lit+"\n", k+1)
		}
	}
	// every keyword in every statement-start position
	forms := []struct{ id, pre, post string }{{"bare", "", ""}, {"ident", "", " x"}, {"paren", "", " ("}, {"brace", "", " {"}, {"after-ident", "x ", ""},
		{"after-assign", "x = ", ""}, {"twice", "", " "}, {"after-dot", "x.", ""}, {"call", "", "()"}, {"colon", "", ":"}}
	for _, kw := range keywords {
		for _, f := range forms {
			s := f.pre + kw + f.post
			if f.id == "twice" {
				s = kw + " " + kw
			}
			k++
			add("kw-"+kw, 0, f.id+"-top", "file", 0, s+"\n", k)
			add("kw-"+kw, 0, f.id+"-func", "file", 0, "func f() {\n"+s+"\n}\n", k+1)
			add("kw-"+kw, 0, f.id+"-class", "entry", 1, s+"\n", k)
			add("kw-"+kw, 0, f.id+"-expr", "expr", 0, s, k+1)
			add("kw-"+kw, 0, f.id+"-block", "file", 0, "if a {\n"+s+"\n} else {\n"+s+"\n}\nswitch {\ncase a:\n"+s+"\n}\n", k)
		}
	}
	// unbalanced / mismatched / over-nested brackets of each kind
	open, clos := []string{"(", "[", "{"}, []string{")", "]", "}"}
	for i := range open {
		for j := range clos {
			for d := 1; d <= 4; d++ {
				for _, inner := range []string{"", "x", "x, y", "x: y"} {
					for _, shape := range []struct {
						id string
						s  string
					}{
						{"bal", rep(open[i], d) + inner + rep(clos[j], d)},
						{"open", rep(open[i], d) + inner},
						{"close", inner + rep(clos[j], d)},
						{"more-close", rep(open[i], d) + inner + rep(clos[j], d+1)},
						{"more-open", rep(open[i], d+1) + inner + rep(clos[j], d)},
						{"call", "f" + rep(open[i], d) + inner + rep(clos[j], d)},
					} {
						k++
						id := fmt.Sprintf("br-%s%s-%s-%q", open[i], clos[j], shape.id, inner)
						id = strings.ReplaceAll(id, " ", "_")
						add(id, d, "expr", "expr", 0, shape.s, k)
						add(id, d, "define", "file", 0, "x := "+shape.s+"\n", k+1)
						add(id, d, "stmt", "file", 0, "func f() {\n"+shape.s+"\n}\n", k)
						add(id, d, "class", "entry", 1, shape.s+"\n", k+1)
					}
				}
			}
		}
	}
	return
}
