// Implementation side of the C24 correspondence and direct oracle.
//
// stdin : one source per line, hex encoded ("-" = empty); a leading "+" asks for the SourceEx clause as well (class=false), "*" for the clause with class=true
//         (otherwise s1, s2, se are "?")
// stdout: toks TAB s1 TAB rimpl TAB s2 TAB se TAB ochunks TAB oflags TAB verdict
//
//	toks    blank-separated offset:token of /repo's scanner (ScanComments), up to EOF
//	s1      format.Source(src):  "E" or "O:<sha>"
//	rimpl   hex of formatutil.RearrangeFuncs(src) ("-" empty, "!" panic)
//	s2      format.Source(rimpl)
//	se      formatutil.SourceEx(src)
//	ochunks the oracle's own chunking of src at depth-0 semicolons:  NONE | pre;chunk,chunk,...  (hex)
//	oflags  the oracle's own classification of the chunks (F/N per chunk)
//	verdict "ok" or the reason the property fails on the real result
package main

import (
	"bufio"
	"bytes"
	"crypto/sha256"
	"encoding/hex"
	"fmt"
	"os"
	"sort"
	"strings"

	"github.com/goplus/xgo/format"
	"github.com/goplus/xgo/format/formatutil"
	"github.com/goplus/xgo/scanner"
	"github.com/goplus/xgo/token"
)

func hx(b []byte) string {
	if len(b) == 0 {
		return "-"
	}
	return hex.EncodeToString(b)
}

type tk struct {
	off int
	tok token.Token
}

func scan(src []byte) (toks []tk, perr string) {
	defer func() {
		if e := recover(); e != nil {
			perr = fmt.Sprint(e)
		}
	}()
	fset := token.NewFileSet()
	base := fset.Base()
	f := fset.AddFile("a.xgo", base, len(src))
	var s scanner.Scanner
	s.Init(f, src, nil, scanner.ScanComments)
	for n := 0; ; n++ {
		pos, tok, _ := s.Scan()
		if tok == token.EOF {
			return
		}
		toks = append(toks, tk{int(pos) - base, tok})
		if n > 4*len(src)+64 {
			return toks, "scanner does not terminate"
		}
	}
}

func source(src []byte, class bool) (r string) {
	defer func() {
		if e := recover(); e != nil {
			r = "E" // a panic of format.Source is the business of C19; here it only counts as "no success"
		}
	}()
	out, err := format.Source(src, class, "a.xgo")
	if err != nil {
		return "E"
	}
	h := sha256.Sum256(out)
	return "O:" + hex.EncodeToString(h[:6])
}

func sourceEx(src []byte, class bool) (r string) {
	defer func() {
		if e := recover(); e != nil {
			r = "E"
		}
	}()
	out, err := formatutil.SourceEx(src, class, "a.xgo")
	if err != nil {
		return "E"
	}
	h := sha256.Sum256(out)
	return "O:" + hex.EncodeToString(h[:6])
}

func rearrange(src []byte) (out []byte, panicked string) {
	defer func() {
		if e := recover(); e != nil {
			panicked = fmt.Sprint(e)
		}
	}()
	cp := append([]byte(nil), src...) // the result may alias its argument
	out, err := formatutil.RearrangeFuncs(cp, "a.xgo")
	if err != nil {
		return nil, "error: " + err.Error()
	}
	return append([]byte(nil), out...), ""
}

// ---- the oracle's own reading of the property (written from the statement, not from the code) ----

// A top-level statement ends at a SEMICOLON token at brace depth 0.
func oracleStmts(toks []tk) (stmts [][]tk) {
	depth := 0
	var cur []tk
	for _, t := range toks {
		cur = append(cur, t)
		if t.tok == token.LBRACE {
			depth++
		} else if t.tok == token.RBRACE {
			depth--
		}
		if t.tok == token.SEMICOLON && depth == 0 {
			stmts = append(stmts, cur)
			cur = nil
		}
	}
	return
}

func noComments(s []tk) (r []tk) {
	for _, t := range s {
		if t.tok != token.COMMENT {
			r = append(r, t)
		}
	}
	return
}

// function declaration: "func" not followed by a parameter list directly followed by '{'
// (comments are transparent; that form is a function literal)
func oracleIsFuncDecl(st []tk) bool {
	s := noComments(st)
	if len(s) == 0 || s[0].tok != token.FUNC {
		return false
	}
	s = s[1:]
	if len(s) == 0 || s[0].tok != token.LPAREN {
		return true
	}
	depth := 0
	for i, t := range s {
		if t.tok == token.LPAREN {
			depth++
		} else if t.tok == token.RPAREN {
			depth--
			if depth == 0 {
				return !(i+1 < len(s) && s[i+1].tok == token.LBRACE)
			}
		}
	}
	return true
}

func oracleIsDecl(st []tk) bool {
	s := noComments(st)
	if len(s) == 0 {
		return false
	}
	switch s[0].tok {
	case token.CONST, token.TYPE, token.VAR:
		return true
	}
	return oracleIsFuncDecl(st)
}

func sortedBytes(b []byte) string {
	c := append([]byte(nil), b...)
	sort.Slice(c, func(i, j int) bool { return c[i] < c[j] })
	return string(c)
}

func run(src []byte, withSource, class bool) string {
	toks, perr := scan(src)
	var tf []string
	tiling := true
	last := 0
	for _, t := range toks {
		tf = append(tf, fmt.Sprintf("%d:%d", t.off, int(t.tok)))
		if t.off < last || t.off > len(src) {
			tiling = false
		}
		last = t.off
	}
	s1 := "?"
	if withSource {
		s1 = source(src, class)
	}
	out, panicked := rearrange(src)
	verdict := ""
	rimpl, s2 := "!", "?"
	if panicked != "" {
		verdict = "panic:" + strings.ReplaceAll(panicked, "\t", " ")
	} else {
		rimpl = hx(out)
		if withSource {
			s2 = source(out, class)
		}
	}
	se := "?"
	if withSource {
		se = sourceEx(src, class)
	}
	// oracle chunking
	ochunks, oflags := "NONE", ""
	if perr == "" && tiling {
		stmts := oracleStmts(toks)
		first := -1
		for i, st := range stmts {
			if !oracleIsDecl(st) {
				first = i
				break
			}
		}
		if panicked == "" {
			if len(out) != len(src) {
				verdict = "length-changed"
			} else if sortedBytes(out) != sortedBytes(src) {
				verdict = "byte-multiset-changed"
			}
		}
		if first < 0 {
			if panicked == "" && verdict == "" && !bytes.Equal(out, src) {
				verdict = "changed-without-non-declaration"
			}
		} else {
			rest := stmts[first:]
			pre := src[:rest[0][0].off]
			var chunks [][]byte
			var fl []byte
			var funcs, others []byte
			for i, st := range rest {
				to := len(src)
				if i+1 < len(rest) {
					to = rest[i+1][0].off
				}
				c := src[st[0].off:to]
				chunks = append(chunks, c)
				if oracleIsFuncDecl(st) {
					fl = append(fl, 'F')
					funcs = append(funcs, c...)
				} else {
					fl = append(fl, 'N')
					others = append(others, c...)
				}
			}
			var hs []string
			for _, c := range chunks {
				hs = append(hs, hx(c))
			}
			ochunks = hx(pre) + ";" + strings.Join(hs, ",")
			oflags = string(fl)
			want := append(append(append([]byte(nil), pre...), funcs...), others...)
			if panicked == "" && verdict == "" && !bytes.Equal(out, want) {
				verdict = "not-the-stable-partition-of-the-chunks"
			}
		}
	} else if perr != "" {
		ochunks = "SCANPANIC"
	} else {
		ochunks = "NOTILING"
	}
	// SourceEx clause
	if verdict == "" && withSource {
		want := s1
		if s1 == "E" {
			want = s2
			if s2 == "?" {
				want = "E"
			}
		}
		if (want == "E") != (se == "E") {
			verdict = "sourceex-success-mismatch"
		} else if want != se {
			verdict = "sourceex-result-mismatch"
		}
	}
	if verdict == "" {
		verdict = "ok"
	}
	if oflags == "" {
		oflags = "-"
	}
	return strings.Join([]string{strings.Join(tf, " "), s1, rimpl, s2, se, ochunks, oflags, verdict}, "\t")
}

func main() {
	sc := bufio.NewScanner(os.Stdin)
	sc.Buffer(make([]byte, 1<<20), 1<<26)
	w := bufio.NewWriter(os.Stdout)
	defer w.Flush()
	for sc.Scan() {
		l := strings.TrimSpace(sc.Text())
		class := strings.HasPrefix(l, "*") // "*": SourceEx clause with class=true, "+": with class=false
		withSource := class || strings.HasPrefix(l, "+")
		l = strings.TrimLeft(l, "+*")
		var src []byte
		if l != "-" && l != "" {
			b, err := hex.DecodeString(l)
			if err != nil {
				fmt.Fprintln(w, "BADHEX")
				continue
			}
			src = b
		}
		fmt.Fprintln(w, run(src, withSource, class))
	}
}
