package g6

import (
	"fmt"
	"reflect"
	"sort"
	"strings"

	"github.com/goplus/xgo/ast"
	"github.com/goplus/xgo/token"
)

// Dump renders the structure of an AST (any ast.Node, typically *ast.File) canonically:
//   - token.Pos fields are dropped, except the few whose validity carries structure
//     (CallExpr.Ellipsis / NoParenEnd, EnvExpr.Lbrace, GenDecl.Lparen, ...), rendered as a flag;
//   - comments (CommentGroup, Doc/Comment fields, File.Comments), resolution data (Obj, Scope,
//     Unresolved, Imports), derived data (BasicLit.Extra, DomainTextLit.Extra, File.Code, ShadowEntry
//     pointers) are dropped;
//   - the import specs of one import declaration are sorted by path and name;
//   - ParenExpr(ParenExpr(x)) is rendered as ParenExpr(x) (the printer drops a doubled parenthesis);
//   - the parentheses around the whole condition / tag of if, for, switch and the operand of range are dropped (the printer's
//     controlClause strips them deliberately, as gofmt does).
func Dump(n any) string {
	var b strings.Builder
	dump(&b, reflect.ValueOf(n))
	return b.String()
}

var posType = reflect.TypeOf(token.Pos(0))

// positions whose validity is structure
var flagPosFields = map[string]bool{
	"CallExpr.Ellipsis": true, "CallExpr.NoParenEnd": true, "EnvExpr.Lbrace": true, "GenDecl.Lparen": true,
	"SendStmt.Ellipsis": true, "RangeExpr.Colon2": false,
}

var dropField = map[string]bool{
	"Doc": true, "Comment": true, "Comments": true, "Obj": true, "Scope": true, "Unresolved": true, "Imports": true,
	"Extra": true, "Code": true, "ShadowEntry": true, "NoPkgDecl": false, "IsProj": false, "IsClass": false, "IsNormalGox": false,
	"Incomplete": true, "Implicit": true, "FileStart": true, "FileEnd": true, "GoVersion": true,
}

func dump(b *strings.Builder, v reflect.Value) {
	if !v.IsValid() {
		b.WriteString("nil")
		return
	}
	switch v.Kind() {
	case reflect.Interface:
		if v.IsNil() {
			b.WriteString("nil")
			return
		}
		dump(b, v.Elem())
	case reflect.Ptr:
		if v.IsNil() {
			b.WriteString("nil")
			return
		}
		// collapse doubled parentheses
		if p, ok := v.Interface().(*ast.ParenExpr); ok {
			for {
				q, ok := p.X.(*ast.ParenExpr)
				if !ok {
					break
				}
				p = q
			}
			b.WriteString("(ParenExpr X=")
			dump(b, reflect.ValueOf(p.X))
			b.WriteString(")")
			return
		}
		dump(b, v.Elem())
	case reflect.Struct:
		t := v.Type()
		if t == reflect.TypeOf(ast.CommentGroup{}) || t == reflect.TypeOf(ast.Comment{}) || t == reflect.TypeOf(ast.Object{}) || t == reflect.TypeOf(ast.Scope{}) {
			b.WriteString("-")
			return
		}
		b.WriteString("(" + t.Name())
		for i := 0; i < t.NumField(); i++ {
			f := t.Field(i)
			if f.PkgPath != "" { // unexported
				continue
			}
			if f.Type == posType {
				if flagPosFields[t.Name()+"."+f.Name] {
					fmt.Fprintf(b, " %s=%v", f.Name, v.Field(i).Int() != 0)
				}
				continue
			}
			if dropField[f.Name] {
				continue
			}
			b.WriteString(" " + f.Name + "=")
			if (t.Name() == "IfStmt" && f.Name == "Cond") || (t.Name() == "ForStmt" && f.Name == "Cond") || (t.Name() == "SwitchStmt" && f.Name == "Tag") || (t.Name() == "RangeStmt" && f.Name == "X") {
				fv := v.Field(i)
				for !fv.IsNil() {
					pe, ok := fv.Interface().(*ast.ParenExpr)
					if !ok {
						break
					}
					fv = reflect.ValueOf(&pe.X).Elem()
				}
				dump(b, fv)
				continue
			}
			if t.Name() == "GenDecl" && f.Name == "Specs" && token.Token(v.FieldByName("Tok").Int()) == token.IMPORT {
				var specs []string
				for j := 0; j < v.Field(i).Len(); j++ {
					var sb strings.Builder
					dump(&sb, v.Field(i).Index(j))
					specs = append(specs, sb.String())
				}
				sort.Strings(specs)
				b.WriteString("[" + strings.Join(specs, " ") + "]")
				continue
			}
			dump(b, v.Field(i))
		}
		b.WriteString(")")
	case reflect.Slice, reflect.Array:
		if v.Kind() == reflect.Slice && v.IsNil() {
			b.WriteString("[]")
			return
		}
		b.WriteString("[")
		for i := 0; i < v.Len(); i++ {
			if i > 0 {
				b.WriteString(" ")
			}
			dump(b, v.Index(i))
		}
		b.WriteString("]")
	case reflect.String:
		fmt.Fprintf(b, "%q", v.String())
	case reflect.Bool:
		fmt.Fprintf(b, "%v", v.Bool())
	case reflect.Int, reflect.Int8, reflect.Int16, reflect.Int32, reflect.Int64:
		fmt.Fprintf(b, "%d", v.Int())
	case reflect.Uint, reflect.Uint8, reflect.Uint16, reflect.Uint32, reflect.Uint64:
		fmt.Fprintf(b, "%d", v.Uint())
	case reflect.Map, reflect.Func, reflect.Chan:
		b.WriteString("-")
	default:
		fmt.Fprintf(b, "?%s", v.Kind())
	}
}

// FirstDiff returns a short context around the first position where a and b differ.
func FirstDiff(a, b string) string {
	n := len(a)
	if len(b) < n {
		n = len(b)
	}
	i := 0
	for i < n && a[i] == b[i] {
		i++
	}
	lo := i - 60
	if lo < 0 {
		lo = 0
	}
	ha, hb := i+60, i+60
	if ha > len(a) {
		ha = len(a)
	}
	if hb > len(b) {
		hb = len(b)
	}
	return fmt.Sprintf("...%s <> ...%s", a[lo:ha], b[lo:hb])
}
