// Package g6 holds what the harness commands of C19-C22 share: the compact tree notation for
// expression trees (same notation as the OCaml model runner ocaml/expr_driver.ml), its
// conversion to and from /repo's ast.Expr, and a reflection-based structural dump of any AST
// that ignores positions, comments and resolution data.
//
// Tree notation (blank-separated atoms, parentheses):
//
//	(id NAME) (lit KIND TEXT) (un OP x) (star x) (bin OP x y) (par x)
//	(call f a...) (calle f a...) (cmd f a...) (idx x i) (idxl x i...) (sel x NAME)
//	(slice x lo hi max) with _ for an absent index (max absent => 2-index slice)
//	(ew TOK x) (ewd TOK x d) (lam P R NAMES... : rhs...) (lam2 P NAMES...) (rng f l s) (env B NAME)
//	(slit e...) (clit T e...) (kv k v) (nu KIND TEXT UNIT) (dtl DOMAIN TEXT) (compr TOK elt var xs cond)
//	(flit) (arr len elt) (map k v) (chan DIR v) (ftype) (stype) (itype) (ell x) (mat (row e...)...) (eell x)
//	(ta x T)
//
// KIND / OP / TOK are numeric token codes of /repo's token package.
package g6

import (
	"fmt"
	"strconv"
	"strings"

	"github.com/goplus/xgo/ast"
	"github.com/goplus/xgo/token"
)

// Node is a parsed S-expression: an atom (Args == nil, Atom true) or a list with a head.
type Node struct {
	Head string
	Args []*Node
	Atom bool
}

func ParseSexp(s string) (n *Node, err error) {
	toks := tokenize(s)
	pos := 0
	var rec func() (*Node, error)
	rec = func() (*Node, error) {
		if pos >= len(toks) {
			return nil, fmt.Errorf("unexpected end")
		}
		t := toks[pos]
		pos++
		if t == ")" {
			return nil, fmt.Errorf("unexpected )")
		}
		if t != "(" {
			return &Node{Head: t, Atom: true}, nil
		}
		if pos >= len(toks) || toks[pos] == "(" || toks[pos] == ")" {
			return nil, fmt.Errorf("head expected")
		}
		n := &Node{Head: toks[pos]}
		pos++
		for pos < len(toks) && toks[pos] != ")" {
			c, err := rec()
			if err != nil {
				return nil, err
			}
			n.Args = append(n.Args, c)
		}
		if pos >= len(toks) {
			return nil, fmt.Errorf("missing )")
		}
		pos++
		return n, nil
	}
	n, err = rec()
	if err == nil && pos != len(toks) {
		err = fmt.Errorf("trailing input")
	}
	return
}

func tokenize(s string) []string {
	var out []string
	i := 0
	for i < len(s) {
		c := s[i]
		switch {
		case c == ' ' || c == '\t':
			i++
		case c == '(' || c == ')':
			// a parenthesis inside a quoted literal atom is not produced by the generators
			out = append(out, string(c))
			i++
		default:
			j := i
			for j < len(s) && s[j] != ' ' && s[j] != '\t' && s[j] != '(' && s[j] != ')' {
				j++
			}
			out = append(out, s[i:j])
			i = j
		}
	}
	return out
}

func (n *Node) String() string {
	if n.Atom {
		return n.Head
	}
	var b strings.Builder
	b.WriteString("(" + n.Head)
	for _, a := range n.Args {
		b.WriteString(" " + a.String())
	}
	b.WriteString(")")
	return b.String()
}

func atoi(n *Node) int {
	v, err := strconv.Atoi(n.Head)
	if err != nil {
		panic("tree: number expected, got " + n.Head)
	}
	return v
}

func id(name string) *ast.Ident { return &ast.Ident{Name: name} }

// flagPos is the "position" used for fields whose validity is a flag (Ellipsis, NoParenEnd, ...).
// The trees handed to the printer have no file registered in the FileSet, so every position
// resolves to the zero Position: the printer sees no line information at all.
const flagPos = token.Pos(1)

// Build converts a tree into an ast.Expr without positions.
func Build(n *Node) ast.Expr {
	if n.Atom {
		if n.Head == "_" {
			return nil
		}
		panic("tree: unexpected atom " + n.Head)
	}
	a := n.Args
	need := func(k int) {
		if len(a) < k {
			panic(fmt.Sprintf("tree: (%s) needs %d arguments", n.Head, k))
		}
	}
	list := func(ns []*Node) []ast.Expr {
		var out []ast.Expr
		for _, x := range ns {
			out = append(out, Build(x))
		}
		return out
	}
	switch n.Head {
	case "id":
		need(1)
		return id(a[0].Head)
	case "lit":
		need(2)
		return &ast.BasicLit{Kind: token.Token(atoi(a[0])), Value: a[1].Head}
	case "nu":
		need(3)
		return &ast.NumberUnitLit{Kind: token.Token(atoi(a[0])), Value: a[1].Head, Unit: a[2].Head}
	case "un":
		need(2)
		return &ast.UnaryExpr{Op: token.Token(atoi(a[0])), X: Build(a[1])}
	case "star":
		need(1)
		return &ast.StarExpr{X: Build(a[0])}
	case "bin":
		need(3)
		return &ast.BinaryExpr{Op: token.Token(atoi(a[0])), X: Build(a[1]), Y: Build(a[2])}
	case "par":
		need(1)
		return &ast.ParenExpr{X: Build(a[0])}
	case "call":
		need(1)
		return &ast.CallExpr{Fun: Build(a[0]), Args: list(a[1:])}
	case "calle":
		need(2)
		return &ast.CallExpr{Fun: Build(a[0]), Args: list(a[1:]), Ellipsis: flagPos}
	case "cmd":
		need(1)
		return &ast.CallExpr{Fun: Build(a[0]), Args: list(a[1:]), NoParenEnd: flagPos}
	case "idx":
		need(2)
		return &ast.IndexExpr{X: Build(a[0]), Index: Build(a[1])}
	case "idxl":
		need(3)
		return &ast.IndexListExpr{X: Build(a[0]), Indices: list(a[1:])}
	case "slice":
		need(4)
		s := &ast.SliceExpr{X: Build(a[0]), Low: Build(a[1]), High: Build(a[2]), Max: Build(a[3])}
		s.Slice3 = s.Max != nil
		return s
	case "sel":
		need(2)
		return &ast.SelectorExpr{X: Build(a[0]), Sel: id(a[1].Head)}
	case "ta":
		need(2)
		return &ast.TypeAssertExpr{X: Build(a[0]), Type: Build(a[1])}
	case "ew":
		need(2)
		return &ast.ErrWrapExpr{Tok: token.Token(atoi(a[0])), X: Build(a[1])}
	case "ewd":
		need(3)
		return &ast.ErrWrapExpr{Tok: token.Token(atoi(a[0])), X: Build(a[1]), Default: Build(a[2])}
	case "lam", "lam2":
		// (lam P R names... : rhs...)   P,R in {0,1}: LhsHasParen, RhsHasParen
		need(2)
		i := 2
		if n.Head == "lam2" {
			i = 1
		}
		var lhs []*ast.Ident
		for i < len(a) && !(a[i].Atom && a[i].Head == ":") {
			lhs = append(lhs, id(a[i].Head))
			i++
		}
		if n.Head == "lam2" {
			return &ast.LambdaExpr2{Lhs: lhs, LhsHasParen: a[0].Head == "1", Body: &ast.BlockStmt{}}
		}
		var rhs []ast.Expr
		if i < len(a) {
			rhs = list(a[i+1:])
		}
		return &ast.LambdaExpr{Lhs: lhs, Rhs: rhs, LhsHasParen: a[0].Head == "1", RhsHasParen: a[1].Head == "1"}
	case "rng":
		need(3)
		r := &ast.RangeExpr{First: Build(a[0]), Last: Build(a[1]), Expr3: Build(a[2])}
		return r
	case "env":
		need(2)
		e := &ast.EnvExpr{Name: id(a[1].Head)}
		if a[0].Head == "1" {
			e.Lbrace, e.Rbrace = flagPos, flagPos
		}
		return e
	case "slit":
		return &ast.SliceLit{Elts: list(a)}
	case "clit":
		need(1)
		return &ast.CompositeLit{Type: Build(a[0]), Elts: list(a[1:])}
	case "kv":
		need(2)
		return &ast.KeyValueExpr{Key: Build(a[0]), Value: Build(a[1])}
	case "dtl":
		need(2)
		return &ast.DomainTextLit{Domain: id(a[0].Head), Value: a[1].Head}
	case "compr":
		// (compr TOK elt var xs cond)   [elt for var <- xs if cond]
		need(5)
		fp := &ast.ForPhrase{Value: id(a[2].Head), X: Build(a[3]), Cond: Build(a[4])}
		return &ast.ComprehensionExpr{Tok: token.Token(atoi(a[0])), Elt: Build(a[1]), Fors: []*ast.ForPhrase{fp}}
	case "flit":
		return &ast.FuncLit{Type: &ast.FuncType{Params: &ast.FieldList{}}, Body: &ast.BlockStmt{}}
	case "arr":
		need(2)
		return &ast.ArrayType{Len: Build(a[0]), Elt: Build(a[1])}
	case "map":
		need(2)
		return &ast.MapType{Key: Build(a[0]), Value: Build(a[1])}
	case "chan":
		need(2)
		return &ast.ChanType{Dir: ast.ChanDir(atoi(a[0])), Value: Build(a[1])}
	case "ftype":
		return &ast.FuncType{Params: &ast.FieldList{}}
	case "stype":
		return &ast.StructType{Fields: &ast.FieldList{}}
	case "itype":
		return &ast.InterfaceType{Methods: &ast.FieldList{}}
	case "ell":
		need(1)
		return &ast.Ellipsis{Elt: Build(a[0])}
	case "eell":
		need(1)
		return &ast.ElemEllipsis{Elt: Build(a[0])}
	case "mat":
		m := &ast.MatrixLit{}
		for _, r := range a {
			m.Elts = append(m.Elts, list(r.Args))
		}
		return m
	}
	panic("tree: unknown head " + n.Head)
}

func opt(e ast.Expr) string {
	if e == nil || isNilExpr(e) {
		return "_"
	}
	return ToTree(e)
}

func isNilExpr(e ast.Expr) bool {
	switch v := e.(type) {
	case *ast.Ident:
		return v == nil
	case *ast.BasicLit:
		return v == nil
	}
	return false
}

func trees(l []ast.Expr) string {
	var b strings.Builder
	for _, x := range l {
		b.WriteString(" " + ToTree(x))
	}
	return b.String()
}

func b01(b bool) string {
	if b {
		return "1"
	}
	return "0"
}

// ToTree renders an ast.Expr in the tree notation; positions only matter where their validity
// is a flag.  Nodes outside the notation are rendered by kind: (? *ast.X).
func ToTree(e ast.Expr) string {
	switch x := e.(type) {
	case nil:
		return "_"
	case *ast.Ident:
		return "(id " + x.Name + ")"
	case *ast.BasicLit:
		return fmt.Sprintf("(lit %d %s)", int(x.Kind), x.Value)
	case *ast.NumberUnitLit:
		return fmt.Sprintf("(nu %d %s %s)", int(x.Kind), x.Value, x.Unit)
	case *ast.UnaryExpr:
		return fmt.Sprintf("(un %d %s)", int(x.Op), ToTree(x.X))
	case *ast.StarExpr:
		return "(star " + ToTree(x.X) + ")"
	case *ast.BinaryExpr:
		return fmt.Sprintf("(bin %d %s %s)", int(x.Op), ToTree(x.X), ToTree(x.Y))
	case *ast.ParenExpr:
		return "(par " + ToTree(x.X) + ")"
	case *ast.CallExpr:
		h := "call"
		if x.NoParenEnd != token.NoPos {
			h = "cmd"
			if x.Ellipsis.IsValid() {
				h = "cmde"
			}
		} else if x.Ellipsis.IsValid() {
			h = "calle"
		}
		return "(" + h + " " + ToTree(x.Fun) + trees(x.Args) + ")"
	case *ast.IndexExpr:
		return "(idx " + ToTree(x.X) + " " + ToTree(x.Index) + ")"
	case *ast.IndexListExpr:
		return "(idxl " + ToTree(x.X) + trees(x.Indices) + ")"
	case *ast.SliceExpr:
		return "(slice " + ToTree(x.X) + " " + opt(x.Low) + " " + opt(x.High) + " " + opt(x.Max) + ")"
	case *ast.SelectorExpr:
		return "(sel " + ToTree(x.X) + " " + x.Sel.Name + ")"
	case *ast.TypeAssertExpr:
		return "(ta " + ToTree(x.X) + " " + opt(x.Type) + ")"
	case *ast.ErrWrapExpr:
		if x.Default != nil {
			return fmt.Sprintf("(ewd %d %s %s)", int(x.Tok), ToTree(x.X), ToTree(x.Default))
		}
		return fmt.Sprintf("(ew %d %s)", int(x.Tok), ToTree(x.X))
	case *ast.LambdaExpr:
		s := "(lam " + b01(x.LhsHasParen) + " " + b01(x.RhsHasParen)
		for _, i := range x.Lhs {
			s += " " + i.Name
		}
		return s + " :" + trees(x.Rhs) + ")"
	case *ast.LambdaExpr2:
		s := "(lam2 " + b01(x.LhsHasParen)
		for _, i := range x.Lhs {
			s += " " + i.Name
		}
		if x.Body != nil && len(x.Body.List) > 0 {
			s += " : (? body)"
		}
		return s + ")"
	case *ast.RangeExpr:
		return "(rng " + opt(x.First) + " " + opt(x.Last) + " " + opt(x.Expr3) + ")"
	case *ast.EnvExpr:
		return "(env " + b01(x.HasBrace()) + " " + x.Name.Name + ")"
	case *ast.SliceLit:
		return "(slit" + trees(x.Elts) + ")"
	case *ast.CompositeLit:
		return "(clit " + opt(x.Type) + trees(x.Elts) + ")"
	case *ast.KeyValueExpr:
		return "(kv " + ToTree(x.Key) + " " + ToTree(x.Value) + ")"
	case *ast.DomainTextLit:
		return "(dtl " + x.Domain.Name + " " + x.Value + ")"
	case *ast.ComprehensionExpr:
		if len(x.Fors) == 1 && x.Fors[0].Key == nil && x.Fors[0].Init == nil {
			f := x.Fors[0]
			return fmt.Sprintf("(compr %d %s %s %s %s)", int(x.Tok), opt(x.Elt), f.Value.Name, ToTree(f.X), opt(f.Cond))
		}
	case *ast.FuncLit:
		if x.Type != nil && x.Type.Params != nil && len(x.Type.Params.List) == 0 && x.Type.Results == nil && x.Body != nil && len(x.Body.List) == 0 {
			return "(flit)"
		}
	case *ast.ArrayType:
		return "(arr " + opt(x.Len) + " " + ToTree(x.Elt) + ")"
	case *ast.MapType:
		return "(map " + ToTree(x.Key) + " " + ToTree(x.Value) + ")"
	case *ast.ChanType:
		return fmt.Sprintf("(chan %d %s)", int(x.Dir), ToTree(x.Value))
	case *ast.FuncType:
		if x.Params != nil && len(x.Params.List) == 0 && x.Results == nil {
			return "(ftype)"
		}
	case *ast.StructType:
		if x.Fields != nil && len(x.Fields.List) == 0 {
			return "(stype)"
		}
	case *ast.InterfaceType:
		if x.Methods != nil && len(x.Methods.List) == 0 {
			return "(itype)"
		}
	case *ast.Ellipsis:
		return "(ell " + opt(x.Elt) + ")"
	case *ast.ElemEllipsis:
		return "(eell " + ToTree(x.Elt) + ")"
	case *ast.MatrixLit:
		s := "(mat"
		for _, r := range x.Elts {
			s += " (row" + trees(r) + ")"
		}
		return s + ")"
	case *ast.BadExpr:
		return "(bad)"
	}
	return fmt.Sprintf("(? %T)", e)
}

// StripPar removes every (par x) node (the parentheses the printer inserts are not part of the
// structure C22 speaks about).
func StripPar(n *Node) *Node {
	if n.Atom {
		return n
	}
	if n.Head == "par" && len(n.Args) == 1 {
		return StripPar(n.Args[0])
	}
	m := &Node{Head: n.Head}
	for _, a := range n.Args {
		m.Args = append(m.Args, StripPar(a))
	}
	return m
}

// StripTree is StripPar on the textual notation.
func StripTree(s string) string {
	n, err := ParseSexp(s)
	if err != nil {
		return s
	}
	return StripPar(n).String()
}
