#!/bin/sh
# tools/seedall.sh [P] [names...] : run every seeded change (seeded/<name>/patch.diff) against the check of the
# property it breaks (meta.json "property"), P at a time; results appended to build/seedall.log
cd /verif
P=${1:-3}; [ $# -gt 0 ] && shift
names="$@"; [ -z "$names" ] && names=$(ls seeded | grep -v RESULTS)
for n in $names; do
  prop=$(python3 -c "import json;print(json.load(open('seeded/$n/meta.json'))['property'])" 2>/dev/null)
  [ -n "$prop" ] && echo "$n $prop"
done | xargs -P $P -L 1 sh -c 'tools/seedtest.sh seeded/$0 $1 2>&1 | grep "^SEED"' | tee -a build/seedall.log
