#!/usr/bin/env python3
"""tools/seedtable.py <seedall-output> : write seeded/RESULTS.md (which check catches which seeded change)."""
import json, os, re, sys
HERE = os.path.dirname(os.path.dirname(os.path.abspath(__file__)))
res = {}
for line in open(sys.argv[1]):
    m = re.match(r"SEED (\S+) (\S+) (caught|MISSED)(.*)", line)
    if m:
        res[m.group(1)] = (m.group(2), m.group(3), "no-failing-input-found" in m.group(4))
rows = []
for name in sorted(os.listdir(os.path.join(HERE, "seeded"))):
    mp = os.path.join(HERE, "seeded", name, "meta.json")
    if not os.path.exists(mp):
        continue
    m = json.load(open(mp))
    prop = m.get("property", "?")
    files = ", ".join(m.get("files_changed", []) or [])[:80]
    summ = " ".join(str(m.get("summary", "")).split())
    summ = summ[:230] + ("…" if len(summ) > 230 else "")
    r = res.get(name)
    if r is None:
        verdict = "not run"
    elif r[1] == "caught":
        verdict = "caught — broken proof/correspondence, no failing input found" if r[2] else "caught with a concrete failing input"
    else:
        verdict = "**MISSED**"
    rows.append("| %s | %s | %s | %s | %s |" % (name, prop, files, summ.replace("|", "\\|"), verdict))
n = len(rows); c = sum(1 for r in res.values() if r[1] == "caught"); ni = sum(1 for r in res.values() if r[1] == "caught" and r[2])
out = ["# Seeded changes and what catches them", "",
       "Each directory holds `patch.diff` (applies to `/repo` HEAD at the time it was confirmed), the seeder's demonstration",
       "(fails with the change, passes without) and `meta.json` (what it needs to manifest, what was run, the lead's",
       "confirmation record).  Seeds were written by sub-agents that saw only the property text and a scratch worktree.",
       "`tools/seedtest.sh seeded/<name> <ID>` applies one to a private worktree and runs the quick check against it;",
       "`tools/seedall.sh` runs them all.  Result of the last full sweep: **%d of %d caught** (%d of them with a concrete" % (c, len(res), c - ni),
       "failing input, %d as a broken proof obligation / correspondence with `no-failing-input-found`)." % ni, "",
       "| seed | property | files | change | quick check verdict |", "|---|---|---|---|---|"] + rows
open(os.path.join(HERE, "seeded", "RESULTS.md"), "w").write("\n".join(out) + "\n")
print("seeds: %d listed, %d run, %d caught" % (n, len(res), c))
