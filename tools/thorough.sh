#!/bin/sh
# tools/thorough.sh P ids... : run thorough tiers, P at a time; one line per check in build/thorough.log
cd /verif; P=$1; shift
for id in "$@"; do echo $id; done | xargs -P $P -I{} sh -c 's=$(date +%s); out=$(./check {} --tier thorough 2>&1); rc=$?; e=$(date +%s); echo "$out" > build/thorough_{}.log; echo "{} rc=$rc wall=$((e-s))s :: $(echo "$out" | grep -c "^VIOLATION") violations :: $(echo "$out" | tail -1)"' | tee -a build/thorough.log
