#!/bin/sh
# Run the repository's pinned suite with the `verif` guard OFF and compare with BASELINE.json.
# (GOPROXY is left at the machine default: cl.TestErrImportPkg compares the go command's error text.)
cd /repo || exit 2
OUT=${1:-/var/tmp/verif.baseline.json}
env -u GOPROXY -u GOFLAGS go test -mod=mod -json -vet=off -count=1 -timeout 25m ./... > "$OUT" 2>/dev/null
python3 - "$OUT" <<'PY'
import json, sys
passed, failed = set(), set()
for line in open(sys.argv[1], errors="replace"):
    try:
        e = json.loads(line)
    except Exception:
        continue
    if e.get("Test") and e.get("Action") in ("pass", "fail"):
        (passed if e["Action"] == "pass" else failed).add(e["Package"] + "::" + e["Test"])
base = set(json.load(open("/root/.vp/BASELINE.json"))["stable_pass"])
missing = sorted(base - passed)
print("baseline: %d stable tests, %d passed now, %d missing/failing, %d failed overall" % (len(base), len(base & passed), len(missing), len(failed)))
for m in missing[:40]:
    print("  NOT PASSING:", m)
sys.exit(1 if missing else 0)
PY
