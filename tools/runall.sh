#!/bin/sh
# tools/runall.sh [quick|thorough] [ids...] : run checks serially, summarise, validate evidence
cd /verif
tier=${1:-quick}; [ $# -gt 0 ] && shift
ids="$@"
[ -z "$ids" ] && ids=$(python3 -c "import json;print(' '.join(c['property_id'] for c in json.load(open('MANIFEST.json'))['checks']))")
for id in $ids; do
  s=$(date +%s)
  out=$(./check $id --tier $tier 2>&1); rc=$?
  e=$(date +%s)
  echo "$out" > build/run_$id.log
  v=$(echo "$out" | grep -c '^VIOLATION'); k=$(echo "$out" | grep -c '^KNOWN-FINDING')
  ok=$(python3-vt -c "
import json,jsonschema,sys
try:
    jsonschema.validate(json.load(open('evidence/$id.json')),json.load(open('/root/.vp/EVIDENCE.schema.json'))); print('evidence-ok')
except Exception as ex: print('EVIDENCE-INVALID', str(ex)[:100])")
  echo "$id rc=$rc violations=$v known=$k wall=$((e-s))s $ok :: $(echo "$out" | tail -1)"
done
