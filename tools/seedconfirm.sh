#!/bin/sh
# tools/seedconfirm.sh <ID> [full]  : confirm a seeded change from /var/tmp/seedout/<ID> in a scratch worktree:
#   applies, builds, demo fails with the change and passes on /repo, existing tests of the
#   affected packages (or the full pinned suite with "full") still pass.  On success copies
#   it to /verif/seeded/<ID>/ with a "confirmed" record in meta.json.
id=$1; mode=$2
src=${SEEDSRC:-/var/tmp/seedout}/$id
name=${SEEDNAME:-$id}
[ -f $src/patch.diff ] || { echo "no patch for $id"; exit 2; }
export GOFLAGS=-mod=mod GOSUMDB=off GOTOOLCHAIN=local
unset GOPROXY
wt=/var/tmp/wt-confirm-$id
git -C /repo worktree remove --force $wt 2>/dev/null
git -C /repo worktree add -q --detach $wt HEAD || exit 2
cleanup() { git -C /repo worktree remove --force $wt; rm -rf /var/tmp/demo-$id; }
git -C $wt apply $src/patch.diff || { echo "CONFIRM $id: patch does not apply"; cleanup; exit 1; }
( cd $wt && go build $(go list ./... | grep -v /demo/) ) > /var/tmp/confirm-$id.build 2>&1 || { echo "CONFIRM $id: build fails"; tail -5 /var/tmp/confirm-$id.build; cleanup; exit 1; }
rundemo() { # $1 = repo path
  rm -rf /var/tmp/demo-$id; mkdir -p /var/tmp/demo-$id; cp $src/*.go /var/tmp/demo-$id/ 2>/dev/null; cp $src/go.mod /var/tmp/demo-$id/ 2>/dev/null
  cp -r $src/testdata /var/tmp/demo-$id/ 2>/dev/null
  cd /var/tmp/demo-$id
  go mod edit -replace github.com/goplus/xgo=$1 2>/dev/null || { printf 'module seeddemo\n\ngo 1.21\n\nrequire github.com/goplus/xgo v0.0.0\n' > go.mod; go mod edit -replace github.com/goplus/xgo=$1; }
  cp $1/go.sum go.sum
  XGO_REPO=$1 REPO=$1 timeout 900 go test -count=1 -vet=off . 2>&1
}
with=$(rundemo $wt); rcw=$?
without=$(rundemo /repo); rco=$?
echo "demo with change rc=$rcw; without rc=$rco"
if [ $rcw -eq 0 ] || [ $rco -ne 0 ]; then echo "CONFIRM $id: demo does not discriminate"; echo "$with" | tail -5; echo "$without" | tail -5; cleanup; exit 1; fi
# existing tests
pkgs=$(grep '^+++ b/' $src/patch.diff | sed 's#^+++ b/##; s#/[^/]*$##' | sort -u | sed 's#^#./#')
if [ "$mode" = full ]; then
  ( cd $wt && env -u GOFLAGS go test -mod=mod -json -vet=off -count=1 -timeout 40m ./... ) > /var/tmp/confirm-$id.json 2>/dev/null
  tests=$(python3 - /var/tmp/confirm-$id.json <<'PY'
import json,sys
passed=set()
for l in open(sys.argv[1],errors='replace'):
    try: e=json.loads(l)
    except Exception: continue
    if e.get('Test') and e.get('Action')=='pass': passed.add(e['Package']+'::'+e['Test'])
base=set(json.load(open('/root/.vp/BASELINE.json'))['stable_pass'])
miss=sorted(base-passed)
print('full-suite: %d/%d stable tests pass'%(len(base&passed),len(base)), miss[:5])
sys.exit(1 if miss else 0)
PY
); trc=$?
else
  extra=""
  case "$pkgs" in *scanner*|*parser*|*token*|*ast*|*printer*) extra="./parser/ ./printer/ ./format/... ./x/format/ ./ast/... ./cl/";; esac
  case "$pkgs" in *./cl*) extra="./cl/... ./x/build/";; esac
  tests=$( cd $wt && env -u GOFLAGS go test -mod=mod -vet=off -count=1 -timeout 40m $pkgs $extra 2>&1 | grep -v "^2026\|no test files" | tail -15 ); 
  echo "$tests" | grep -q "^FAIL\|^--- FAIL" && trc=1 || trc=0
fi
echo "$tests" | tail -8
if [ $trc -ne 0 ]; then echo "CONFIRM $id: existing tests fail with the change"; cleanup; exit 1; fi
mkdir -p /verif/seeded/$name && cp -r $src/* /verif/seeded/$name/
python3 - "$name" "$mode" "$with" "$without" "$tests" <<'PY'
import json,sys
id,mode,w,wo,t=sys.argv[1:6]
p='/verif/seeded/%s/meta.json'%id
m=json.load(open(p))
m['confirmed_by_lead']={'patch_applies_to_repo_head':True,'builds':True,'demo_fails_with_change':w[-600:],'demo_passes_without':wo[-300:],
  'existing_tests':('full pinned suite' if mode=='full' else 'affected packages')+': '+t[-600:]}
json.dump(m,open(p,'w'),indent=1)
PY
echo "CONFIRM $id: OK"
cleanup
