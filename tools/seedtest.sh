#!/bin/sh
# tools/seedtest.sh <dir-with-patch.diff> <ID> [more IDs...]
# Applies the seeded change to a private worktree of /repo and runs the checks against it
# (VERIF_REPO private mode: private copies of coq/ and harness/, /repo itself untouched).
# Prints one line per check:  SEED <dir> <ID> caught|MISSED (<violation line or PASS>)
d=$(cd "$1" && pwd); shift
name=$(basename "$d")
wt=/var/tmp/wt-seed-$name-$$
git -C /repo worktree add -q --detach "$wt" HEAD || exit 2
if ! git -C "$wt" apply "$d/patch.diff"; then
  echo "SEED $name patch does not apply"; git -C /repo worktree remove --force "$wt"; exit 2
fi
cd /verif
for id in "$@"; do
  out=$(VERIF_REPO="$wt" ./check "$id" --tier quick 2>&1)
  rc=$?
  v=$(echo "$out" | grep -m1 '^VIOLATION')
  if [ $rc -ne 0 ] && [ -n "$v" ]; then echo "SEED $name $id caught ($v)"; else echo "SEED $name $id MISSED (rc=$rc $(echo "$out" | tail -1))"; fi
  echo "$out" > "/verif/build/seed_${name}_${id}.log"
done
git -C /repo worktree remove --force "$wt"
tag=$(python3 -c "import hashlib,sys;print(hashlib.sha256(sys.argv[1].encode()).hexdigest()[:10])" "$wt")
rm -rf "/verif/build/evidence_$tag" "/verif/build/gen$tag" "/verif/build/coq_$tag" "/verif/build/harness_$tag" /verif/build/ocaml_*"$tag" /verif/build/bin/*"$tag"*
