(* line protocol:  X <key> <tok> <tok> ...   |   Y <key> <tok> ...      tok = <code>[b]   (b = preceded by white space)
   output:         <key> TAB go=<sexp|ERR|UNSUP|NOFUEL> TAB xgo=<...>     (same S-expressions as harness/cmd/c14) *)
open C14model
let rec pos_of_int n = if n = 1 then XH else if n land 1 = 0 then XO (pos_of_int (n lsr 1)) else XI (pos_of_int (n lsr 1))
let z_of_int n = if n = 0 then Z0 else if n > 0 then Zpos (pos_of_int n) else Zneg (pos_of_int (-n))
let rec int_of_pos = function XH -> 1 | XO p -> 2 * int_of_pos p | XI p -> 2 * int_of_pos p + 1
let int_of_z = function Z0 -> 0 | Zpos p -> int_of_pos p | Zneg p -> - (int_of_pos p)
let int_of_n = function N0 -> 0 | Npos p -> int_of_pos p
let spell =
  let tbl = Array.of_list (List.map (fun s -> String.concat "" (List.map (fun c -> String.make 1 (Char.chr (int_of_n c))) s)) xgo_tokens) in
  fun z -> let i = int_of_z z in if i >= 0 && i < Array.length tbl then tbl.(i) else "?"
let tok_of w =
  let n = String.length w in
  if n > 0 && w.[n-1] = 'b' then { tcode = z_of_int (int_of_string (String.sub w 0 (n-1))); tblank = true }
  else { tcode = z_of_int (int_of_string w); tblank = false }
let rec sexp = function
  | EIdent -> "x" | ELit -> "1"
  | EParen e -> "(P " ^ sexp e ^ ")"
  | EUnary (op, e) -> "(U" ^ spell op ^ " " ^ sexp e ^ ")"
  | EBinary (op, x, y) -> "(B" ^ spell op ^ " " ^ sexp x ^ " " ^ sexp y ^ ")"
  | ESel x -> "(S " ^ sexp x ^ ")"
  | EIndex (x, i) -> "(I " ^ sexp x ^ " " ^ sexp i ^ ")"
  | ECall (f, l, ell) -> "(C " ^ String.concat " " (List.map sexp (f :: l)) ^ (if ell then " ...)" else ")")
  | ECmd (f, l, ell) -> "(K " ^ String.concat " " (List.map sexp (f :: l)) ^ (if ell then " ...)" else ")")
  | EErrWrap (x, t) -> "(W" ^ spell t ^ " " ^ sexp x ^ ")"
  | ELambda (p, b) -> (if p then "(LP " else "(L ") ^ sexp b ^ ")"
let stmt_s = function
  | SExprStmt e -> "(E " ^ sexp e ^ ")"
  | SAssign (t, l, r) -> "(A" ^ spell t ^ " " ^ String.concat " " (List.map sexp l) ^ " : " ^ String.concat " " (List.map sexp r) ^ ")"
  | SIncDec (t, e) -> "(D" ^ spell t ^ " " ^ sexp e ^ ")"
  | SSend (c, v) -> "(Send " ^ sexp c ^ " " ^ sexp v ^ ")"
let show f = function Parsed a -> f a | Err -> "ERR" | Unsup -> "UNSUP" | NoFuel -> "NOFUEL"
let () =
  try while true do
    let line = input_line stdin in
    (match List.filter (fun x -> x <> "") (String.split_on_char ' ' line) with
     | "X" :: key :: ws ->
       let ts = List.map tok_of ws in
       Printf.printf "%s\tgo=%s\txgo=%s\n" key (show sexp (parse_expr go_dialect ts)) (show sexp (parse_expr xgo_dialect ts))
     | "Y" :: key :: ws ->
       let ts = List.map tok_of ws in
       Printf.printf "%s\tgo=%s\txgo=%s\n" key (show stmt_s (parse_stmt go_dialect ts)) (show stmt_s (parse_stmt xgo_dialect ts))
     | _ -> print_string "BADCASE\n")
  done with End_of_file -> ()
