(* line protocol: args hex-encoded ("-" = empty string), blank-separated; one list per line *)
open C35model
let rec pos_of_int n = if n = 1 then XH else if n land 1 = 0 then XO (pos_of_int (n lsr 1)) else XI (pos_of_int (n lsr 1))
let n_of_int n = if n = 0 then N0 else Npos (pos_of_int n)
let rec int_of_pos = function XH -> 1 | XO p -> 2 * int_of_pos p | XI p -> 2 * int_of_pos p + 1
let int_of_n = function N0 -> 0 | Npos p -> int_of_pos p
let unhex s = if s = "-" then [] else
  List.init (String.length s / 2) (fun i -> n_of_int (int_of_string ("0x" ^ String.sub s (2*i) 2)))
let hex l = if l = [] then "-" else String.concat "" (List.map (fun z -> Printf.sprintf "%02x" (int_of_n z)) l)
let show = function
  | Files l -> "F:" ^ String.concat "," (List.map hex l)
  | Dir d -> "D:" ^ hex d
  | Pkg p -> "P:" ^ hex p
let () =
  try while true do
    let line = input_line stdin in
    let args = List.map unhex (List.filter (fun s -> s <> "") (String.split_on_char ' ' line)) in
    (match parse_all args with
     | Ok ps -> print_string ("OK " ^ String.concat " " (List.map show ps))
     | ErrMixed -> print_string "ERRMIXED"
     | OutOfFuel -> print_string "OUTOFFUEL");
    print_newline ()
  done with End_of_file -> ()
