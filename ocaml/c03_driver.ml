(* C03 model runner.  One case per line: "<bang|quest|default> <n> <stmt|define|assign|arg|nested|ifcond> <0|1>"
   (1 = the wrapped call fails).  Prints what the enclosing function  func() (int, error)  does in the model:
   returned value + error chain (root/depth) or panic chain, and the probe trace. *)
open C03model
let rec pos_of_int n = if n = 1 then XH else if n land 1 = 0 then XO (pos_of_int (n lsr 1)) else XI (pos_of_int (n lsr 1))
let n_of_int n = if n = 0 then N0 else Npos (pos_of_int n)
let z_of_int n = if n = 0 then Z0 else if n > 0 then Zpos (pos_of_int n) else Zneg (pos_of_int (-n))
let rec int_of_pos = function XH -> 1 | XO p -> 2 * int_of_pos p | XI p -> 2 * int_of_pos p + 1
let int_of_n = function N0 -> 0 | Npos p -> int_of_pos p
let int_of_z = function Z0 -> 0 | Zpos p -> int_of_pos p | Zneg p -> - (int_of_pos p)
let rec nat_of_int n = if n <= 0 then O else S (nat_of_int (n - 1))
let str_of_string s = List.init (String.length s) (fun i -> n_of_int (Char.code s.[i]))
let hex l = String.concat "" (List.map (fun b -> Printf.sprintf "%02x" (int_of_n b)) l)
let rec depth = function EBase _ -> 0 | EFrame e -> 1 + depth e
let chain = function
  | VErr None -> "nil"
  | VErr (Some e) -> Printf.sprintf "%s/%d" (if int_of_n (err_root e) = 1 then "E" else "other") (depth e)
  | _ -> "nonerror"
let show_val = function
  | VBool b -> if b then "true" else "false"
  | VInt z -> string_of_int (int_of_z z)
  | VStr s -> hex s
  | _ -> "?"
let show_trace tr = "[" ^ String.concat " " (List.map (fun (Ev (id, args)) ->
    let id = int_of_n id in
    if id >= 200 then Printf.sprintf "%d:%d:%s" id (List.length args) (String.concat "," (List.map show_val args))
    else Printf.sprintf "%d:%s" id (String.concat "," (List.map show_val args))) tr) ^ "]"
let unhex s = List.init (String.length s / 2) (fun i -> n_of_int (int_of_string ("0x" ^ String.sub s (2*i) 2)))
let run_prog = function
  | None -> print_string "COMPILE-ERROR"
  | Some prog ->
    (match eval (fun _ -> []) (nat_of_int 3) prog [] [] with
     | ((RVal [VInt r; er], _), tr) -> Printf.printf "ret=%d,%s\ttrace=%s" (int_of_z r) (chain er) (show_trace tr)
     | ((RPanic v, _), tr) -> Printf.printf "panic=%s\ttrace=%s" (chain v) (show_trace tr)
     | ((RStuck, _), _) -> print_string "STUCK"
     | _ -> print_string "OTHER")
let () =
  try while true do
    let line = input_line stdin in
    (try match String.split_on_char ' ' line with
     | "opctx" :: failing :: toks ->
       (* the wrapped call among operators: prefix-encoded tree; W<b|q|d<int>> = f1() with ! / ? / ?:<int>,
          B<b|q|d<0|1>> = fb() likewise, i<int>, t, f, NEG, NOT, binary operator tokens *)
       let e = if failing = "1" then VErr (Some (EBase (n_of_int 1))) else VErr None in
       let f1call = ECallP (n_of_int 1, [VInt (z_of_int 5); e]) in
       let fbcall = ECallP (n_of_int 1, [VBool true; e]) in
       let pre = ref SSkip in
       let isbool = ref false in
       let rest = ref (List.filter (fun s -> s <> "") toks) in
       let next () = match !rest with [] -> failwith "eof" | t :: r -> rest := r; t in
       let leaf call zero t =
         let k = String.sub t 1 (String.length t - 1) in
         if k = "b" then lower_closure KBang call [zero]
         else if k = "q" then begin
           pre := quest_prelude call [zero] [VInt Z0] (nat_of_int 1);
           (match quest_value [zero] (nat_of_int 1) with [v] -> v | _ -> failwith "quest") end
         else begin
           let d = String.sub k 1 (String.length k - 1) in
           let dv = (match zero with VBool _ -> VBool (d = "1") | _ -> VInt (z_of_int (int_of_string d))) in
           lower_closure (KDefault (EConst dv)) call [zero] end in
       let rec tree () =
         let t = next () in
         let bin op = let a = tree () in let b = tree () in EBin (op, a, b) in
         (match t with
          | "*" -> bin BMul | "/" -> bin BQuo | "%" -> bin BRem | "<<" -> bin BShl | ">>" -> bin BShr
          | "&" -> bin BAnd | "&^" -> bin BAndNot | "+" -> bin BAdd | "-" -> bin BSub | "|" -> bin BOr | "^" -> bin BXor
          | "==" -> bin BEq | "!=" -> bin BNe | "<" -> bin BLt | "<=" -> bin BLe | ">" -> bin BGt | ">=" -> bin BGe
          | "&&" -> let a = tree () in let b = tree () in EAnd (a, b)
          | "||" -> let a = tree () in let b = tree () in EOr (a, b)
          | "NEG" -> let a = tree () in EBin (BSub, EConst (VInt Z0), a)
          | "NOT" -> let a = tree () in ENot a
          | "t" -> EConst (VBool true) | "f" -> EConst (VBool false)
          | _ when t.[0] = 'i' -> EConst (VInt (z_of_int (int_of_string (String.sub t 1 (String.length t - 1)))))
          | _ when t.[0] = 'W' -> leaf f1call (VInt Z0) t
          | _ when t.[0] = 'B' -> leaf fbcall (VBool false) t
          | _ -> failwith ("bad token " ^ t)) in
       (match next () with "bool" -> isbool := true | _ -> ());
       let tr = tree () in
       run_prog (Some (opctx_prog !pre tr (n_of_int (if !isbool then 101 else 100))))
     | "shape" :: kind :: pos :: failing :: callee :: args ->
       (* a wrapped call with arguments: "shape <bang|quest|default> <stmt|define> <0|1> <va|vi|two|m|e|f1|f0> arg*"
          arg: i<int> | s<hex> | N! | N?: (nested f1()! / f1()?:42) | P<id>,<int> (probe) ; spreads arrive flattened *)
       let k = (match kind with "bang" -> KBang | "quest" -> KQuest | _ -> KDefault (EConst (VInt (z_of_int 42)))) in
       let p = (if pos = "stmt" then PStmt else PDefine) in
       let e = if failing = "1" then VErr (Some (EBase (n_of_int 1))) else VErr None in
       let f1call = ECallP (n_of_int 1, [VInt (z_of_int 5); e]) in
       let arg a =
         let rest = String.sub a 1 (String.length a - 1) in
         (match a.[0] with
          | 'i' -> EConst (VInt (z_of_int (int_of_string rest)))
          | 's' -> EConst (VStr (unhex rest))
          | 'N' -> if rest = "!" then lower_closure KBang f1call [VInt Z0]
                   else lower_closure (KDefault (EConst (VInt (z_of_int 42)))) f1call [VInt Z0]
          | 'P' -> (match String.split_on_char ',' rest with
                    | [id; v] -> EProbe (n_of_int (int_of_string id), EConst (VInt (z_of_int (int_of_string v))))
                    | _ -> failwith "bad probe")
          | _ -> failwith "bad arg") in
       let args = List.map arg (List.filter (fun s -> s <> "") args) in
       let (id, vals, zs) = (match callee with
         | "va" -> (200, [], []) | "e" -> (204, [], [])
         | "vi" -> (201, [VInt (z_of_int 5)], [VInt Z0]) | "two" -> (202, [VInt (z_of_int 5)], [VInt Z0])
         | "m" -> (203, [VInt (z_of_int 5)], [VInt Z0])
         | "f1" -> (1, [VInt (z_of_int 5)], [VInt Z0]) | _ -> (0, [], [])) in
       let x = if id >= 200 then ECallA (n_of_int id, args, vals @ [e]) else ECallP (n_of_int 1, vals @ [e]) in
       run_prog (case_prog k x zs p)
     | [kind; n; pos; failing] ->
       let n = int_of_string n in
       let k = (match kind with "bang" -> KBang | "quest" -> KQuest | _ -> KDefault (EConst (VInt (z_of_int 42)))) in
       let p = (match pos with "stmt" -> PStmt | "define" -> PDefine | "assign" -> PAssign | "arg" -> PArg
                             | "nested" -> PNested | _ -> PIfCond) in
       let vals = (match n with 0 -> [] | 1 -> [VInt (z_of_int 5)] | _ -> [VInt (z_of_int 5); VStr (str_of_string "s")]) in
       let zs = (match n with 0 -> [] | 1 -> [VInt Z0] | _ -> [VInt Z0; VStr []]) in
       let e = if failing = "1" then VErr (Some (EBase (n_of_int 1))) else VErr None in
       let x = ECallP (n_of_int 1, vals @ [e]) in
       (match case_prog k x zs p with
        | None -> print_string "COMPILE-ERROR"
        | Some prog ->
          (match eval (fun _ -> []) (nat_of_int 3) prog [] [] with
           | ((RVal [VInt r; er], _), tr) -> Printf.printf "ret=%d,%s\ttrace=%s" (int_of_z r) (chain er) (show_trace tr)
           | ((RPanic v, _), tr) -> Printf.printf "panic=%s\ttrace=%s" (chain v) (show_trace tr)
           | ((RStuck, _), _) -> print_string "STUCK"
           | _ -> print_string "OTHER"))
     | _ -> print_string "?"
     with Failure m -> print_string ("BADCASE " ^ m) | Not_found -> print_string "BADCASE" | Invalid_argument m -> print_string ("BADCASE " ^ m));
    print_newline ()
  done with End_of_file -> ()
