(* C03 model runner.  One case per line: "<bang|quest|default> <n> <stmt|define|assign|arg|nested|ifcond> <0|1>"
   (1 = the wrapped call fails).  Prints what the enclosing function  func() (int, error)  does in the model:
   returned value + error chain (root/depth) or panic chain, and the probe trace. *)
open C03model
let rec pos_of_int n = if n = 1 then XH else if n land 1 = 0 then XO (pos_of_int (n lsr 1)) else XI (pos_of_int (n lsr 1))
let n_of_int n = if n = 0 then N0 else Npos (pos_of_int n)
let z_of_int n = if n = 0 then Z0 else if n > 0 then Zpos (pos_of_int n) else Zneg (pos_of_int (-n))
let rec int_of_pos = function XH -> 1 | XO p -> 2 * int_of_pos p | XI p -> 2 * int_of_pos p + 1
let int_of_n = function N0 -> 0 | Npos p -> int_of_pos p
let int_of_z = function Z0 -> 0 | Zpos p -> int_of_pos p | Zneg p -> - (int_of_pos p)
let rec nat_of_int n = if n <= 0 then O else S (nat_of_int (n - 1))
let str_of_string s = List.init (String.length s) (fun i -> n_of_int (Char.code s.[i]))
let hex l = String.concat "" (List.map (fun b -> Printf.sprintf "%02x" (int_of_n b)) l)
let rec depth = function EBase _ -> 0 | EFrame e -> 1 + depth e
let chain = function
  | VErr None -> "nil"
  | VErr (Some e) -> Printf.sprintf "%s/%d" (if int_of_n (err_root e) = 1 then "E" else "other") (depth e)
  | _ -> "nonerror"
let show_val = function
  | VInt z -> string_of_int (int_of_z z)
  | VStr s -> hex s
  | _ -> "?"
let show_trace tr = "[" ^ String.concat " " (List.map (fun (Ev (id, args)) ->
    let id = int_of_n id in
    if id >= 200 then Printf.sprintf "%d:%d:%s" id (List.length args) (String.concat "," (List.map show_val args))
    else Printf.sprintf "%d:%s" id (String.concat "," (List.map show_val args))) tr) ^ "]"
let unhex s = List.init (String.length s / 2) (fun i -> n_of_int (int_of_string ("0x" ^ String.sub s (2*i) 2)))
let run_prog = function
  | None -> print_string "COMPILE-ERROR"
  | Some prog ->
    (match eval (fun _ -> []) (nat_of_int 3) prog [] [] with
     | ((RVal [VInt r; er], _), tr) -> Printf.printf "ret=%d,%s\ttrace=%s" (int_of_z r) (chain er) (show_trace tr)
     | ((RPanic v, _), tr) -> Printf.printf "panic=%s\ttrace=%s" (chain v) (show_trace tr)
     | ((RStuck, _), _) -> print_string "STUCK"
     | _ -> print_string "OTHER")
let () =
  try while true do
    let line = input_line stdin in
    (match String.split_on_char ' ' line with
     | "shape" :: kind :: pos :: failing :: callee :: args ->
       (* a wrapped call with arguments: "shape <bang|quest|default> <stmt|define> <0|1> <va|vi|two|m|e|f1|f0> arg*"
          arg: i<int> | s<hex> | N! | N?: (nested f1()! / f1()?:42) | P<id>,<int> (probe) ; spreads arrive flattened *)
       let k = (match kind with "bang" -> KBang | "quest" -> KQuest | _ -> KDefault (EConst (VInt (z_of_int 42)))) in
       let p = (if pos = "stmt" then PStmt else PDefine) in
       let e = if failing = "1" then VErr (Some (EBase (n_of_int 1))) else VErr None in
       let f1call = ECallP (n_of_int 1, [VInt (z_of_int 5); e]) in
       let arg a =
         let rest = String.sub a 1 (String.length a - 1) in
         (match a.[0] with
          | 'i' -> EConst (VInt (z_of_int (int_of_string rest)))
          | 's' -> EConst (VStr (unhex rest))
          | 'N' -> if rest = "!" then lower_closure KBang f1call [VInt Z0]
                   else lower_closure (KDefault (EConst (VInt (z_of_int 42)))) f1call [VInt Z0]
          | 'P' -> (match String.split_on_char ',' rest with
                    | [id; v] -> EProbe (n_of_int (int_of_string id), EConst (VInt (z_of_int (int_of_string v))))
                    | _ -> failwith "bad probe")
          | _ -> failwith "bad arg") in
       let args = List.map arg (List.filter (fun s -> s <> "") args) in
       let (id, vals, zs) = (match callee with
         | "va" -> (200, [], []) | "e" -> (204, [], [])
         | "vi" -> (201, [VInt (z_of_int 5)], [VInt Z0]) | "two" -> (202, [VInt (z_of_int 5)], [VInt Z0])
         | "m" -> (203, [VInt (z_of_int 5)], [VInt Z0])
         | "f1" -> (1, [VInt (z_of_int 5)], [VInt Z0]) | _ -> (0, [], [])) in
       let x = if id >= 200 then ECallA (n_of_int id, args, vals @ [e]) else ECallP (n_of_int 1, vals @ [e]) in
       run_prog (case_prog k x zs p)
     | [kind; n; pos; failing] ->
       let n = int_of_string n in
       let k = (match kind with "bang" -> KBang | "quest" -> KQuest | _ -> KDefault (EConst (VInt (z_of_int 42)))) in
       let p = (match pos with "stmt" -> PStmt | "define" -> PDefine | "assign" -> PAssign | "arg" -> PArg
                             | "nested" -> PNested | _ -> PIfCond) in
       let vals = (match n with 0 -> [] | 1 -> [VInt (z_of_int 5)] | _ -> [VInt (z_of_int 5); VStr (str_of_string "s")]) in
       let zs = (match n with 0 -> [] | 1 -> [VInt Z0] | _ -> [VInt Z0; VStr []]) in
       let e = if failing = "1" then VErr (Some (EBase (n_of_int 1))) else VErr None in
       let x = ECallP (n_of_int 1, vals @ [e]) in
       (match case_prog k x zs p with
        | None -> print_string "COMPILE-ERROR"
        | Some prog ->
          (match eval (fun _ -> []) (nat_of_int 3) prog [] [] with
           | ((RVal [VInt r; er], _), tr) -> Printf.printf "ret=%d,%s\ttrace=%s" (int_of_z r) (chain er) (show_trace tr)
           | ((RPanic v, _), tr) -> Printf.printf "panic=%s\ttrace=%s" (chain v) (show_trace tr)
           | ((RStuck, _), _) -> print_string "STUCK"
           | _ -> print_string "OTHER"))
     | _ -> print_string "?");
    print_newline ()
  done with End_of_file -> ()
