(* Model side of the scanner correspondence (C15, C16, C32, C33).
   usage: model_scan <unicode-table>      (table dumped by `h_scan unicode`: "L lo hi" / "D lo hi")
   stdin : one case per line "<d><m> <hex>"  d = x | g | t (dialect), m = c | n (ScanComments or not)
   stdout: "tok@pos:lithex ... |off off ..."  (EOF token included, error offsets in report order),
           PANIC or OUTOFFUEL *)
open Scanmodel
let rec pos_of_int n = if n = 1 then XH else if n land 1 = 0 then XO (pos_of_int (n lsr 1)) else XI (pos_of_int (n lsr 1))
let n_of_int n = if n = 0 then N0 else Npos (pos_of_int n)
let rec int_of_pos = function XH -> 1 | XO p -> 2 * int_of_pos p | XI p -> 2 * int_of_pos p + 1
let int_of_n = function N0 -> 0 | Npos p -> int_of_pos p
let int_of_z = function Z0 -> 0 | Zpos p -> int_of_pos p | Zneg p -> - (int_of_pos p)
let bytes_tbl = Array.init 256 n_of_int
let unhex s =
  let n = String.length s / 2 in
  List.init n (fun i -> bytes_tbl.(int_of_string ("0x" ^ String.sub s (2*i) 2)))
let hex l = String.concat "" (List.map (fun b -> Printf.sprintf "%02x" (int_of_n b)) l)

let letters = Bytes.make 0x110000 '\000'
let digits = Bytes.make 0x110000 '\000'
let load path =
  let ic = open_in path in
  (try while true do
     let line = input_line ic in
     match String.split_on_char ' ' line with
     | [tag; lo; hi] ->
       let tbl = if tag = "L" then letters else digits in
       for r = int_of_string lo to int_of_string hi do Bytes.set tbl r '\001' done
     | _ -> ()
   done with End_of_file -> ());
  close_in ic
let look tbl z = let r = int_of_z z in r >= 0 && r < 0x110000 && Bytes.get tbl r = '\001'
let ul z = look letters z
let ud z = look digits z

let z_of_int n = if n = 0 then Z0 else if n > 0 then Zpos (pos_of_int n) else Zneg (pos_of_int (-n))
let str_of_bytes l = String.concat "" (List.map (fun b -> String.make 1 (Char.chr (int_of_n b))) l)
let hx s = if s = "" then "-" else String.concat "" (List.map (fun c -> Printf.sprintf "%02x" (Char.code c)) (List.init (String.length s) (String.get s)))
let show_mz = function Ok z -> string_of_int (int_of_z z) | Panic -> "PANIC" | OutOfFuel -> "OUTOFFUEL"
let show_mb = function Ok true -> "1" | Ok false -> "0" | Panic -> "PANIC" | OutOfFuel -> "OUTOFFUEL"
(* Token.String(): the table part is the model's tok_string; "token(N)" is rendered here *)
let string_of tokens v = match tok_string tokens (z_of_int v) with
  | Some s -> str_of_bytes s | None -> "token(" ^ string_of_int v ^ ")"
(* `model_scan tokens`: answers the queries  "xgo V" | "go V" | "tpl V" | "lookup HEX" | "ops"
   in the format of `h_scan tokens` *)
let tokens_mode () =
  try while true do
    let line = input_line stdin in
    (match String.split_on_char ' ' line with
     | ["xgo"; v] -> let v = int_of_string v in let z = z_of_int v in
       Printf.printf "xgo %d String=%s Prec=%s IsOp=%s IsLit=%s IsKw=%s\n" v (hx (string_of xgo_tokens v))
         (show_mz (xgo_Precedence z)) (show_mb (xgo_IsOperator z)) (show_mb (xgo_IsLiteral z)) (show_mb (xgo_IsKeyword z))
     | ["go"; v] -> let v = int_of_string v in let z = z_of_int v in
       Printf.printf "go %d String=%s Prec=%s IsOp=%s IsLit=%s IsKw=%s\n" v (hx (string_of go_tokens v))
         (show_mz (go_Precedence z)) (show_mb (go_IsOperator z)) (show_mb (go_IsLiteral z)) (show_mb (go_IsKeyword z))
     | ["tpl"; v] -> let v = int_of_string v in let z = z_of_int v in
       Printf.printf "tpl %d String=%s Len=%s\n" v (hx (string_of tpl_tokens v)) (show_mz (tpl_Len z))
     | ["lookup"; h] -> let w = if h = "-" then [] else unhex h in
       Printf.printf "lookup %s xgo=%d go=%d\n" h (int_of_z (code XGo (lookup XGo w))) (int_of_z (code Go (lookup Go w)))
     | ["ops"] ->
       let show name l = Printf.printf "ops %s %s\n" name
         (String.concat " " (List.map (fun (c, sp) -> Printf.sprintf "%d:%s" (int_of_z c) (hex sp)) l)) in
       show "xgo" xgo_ops; show "tpl" tpl_ops; show "go" go_ops
     | _ -> print_string "BADQUERY\n")
  done with End_of_file -> ()

let () =
  if Array.length Sys.argv < 2 then (prerr_endline "usage: model_scan <unicode-table> | model_scan tokens"; exit 2);
  if Sys.argv.(1) = "tokens" then (tokens_mode (); exit 0);
  load Sys.argv.(1);
  (* `model_scan <table> pred`: for each case "<d><m> <hex>" print the hypotheses of the agreement
     theorems evaluated by the model on that source and mode:  "<go_like> <shared>" *)
  if Array.length Sys.argv > 2 && Sys.argv.(2) = "pred" then begin
    (try while true do
      let line = input_line stdin in
      if String.length line < 3 then print_string "- -" else begin
        let comments = line.[1] = 'c' in
        let src = unhex (String.trim (String.sub line 3 (String.length line - 3))) in
        print_string (if go_like ul ud comments src then "1" else "0");
        print_char ' ';
        print_string (if shared ul ud comments src then "1" else "0")
      end;
      print_newline ()
    done with End_of_file -> ());
    exit 0
  end;
  let buf = Buffer.create 4096 in
  try while true do
    let line = input_line stdin in
    Buffer.clear buf;
    (if String.length line < 3 then Buffer.add_string buf "BADCASE" else begin
      let d = match line.[0] with 'x' -> XGo | 'g' -> Go | _ -> Tpl in
      let comments = line.[1] = 'c' in
      let src = unhex (String.trim (String.sub line 3 (String.length line - 3))) in
      match run ul ud d comments src with
      | Panic -> Buffer.add_string buf "PANIC"
      | OutOfFuel -> Buffer.add_string buf "OUTOFFUEL"
      | Ok (toks, errs) ->
        List.iteri (fun i t ->
          if i > 0 then Buffer.add_char buf ' ';
          Buffer.add_string buf (Printf.sprintf "%d@%d:%s" (int_of_z (code d t.ttok)) (int_of_z t.tpos) (hex t.tlit))) toks;
        Buffer.add_char buf '|';
        List.iteri (fun i (o, _) ->
          if i > 0 then Buffer.add_char buf ' ';
          Buffer.add_string buf (string_of_int (int_of_z o))) errs
    end);
    print_string (Buffer.contents buf); print_newline ()
  done with End_of_file -> ()
