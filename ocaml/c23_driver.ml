(* C23 model runner.
   in : the `before` field of the harness:  decl|decl|...   decl = O | I<0/1>:spec;spec;...
        spec = id,name,path,hascomment,commenttext,pos,end,line,endline  (strings hex, "-" = empty)
   out: after TAB groups TAB mixed
        after  = same format without line/endline (model of d.Specs after ast.SortImports) | PANIC
        groups = decl|decl, decl = O | I<0/1>:group/group, group = name,path;name,path
                 (the sorted, deduplicated runs of each block, empty runs omitted)
        mixed  = 1 when some run has key-equal specs that differ in "has a comment" *)
open C23model
let rec pos_of_int n = if n = 1 then XH else if n land 1 = 0 then XO (pos_of_int (n lsr 1)) else XI (pos_of_int (n lsr 1))
let n_of_int n = if n = 0 then N0 else Npos (pos_of_int n)
let z_of_int n = if n = 0 then Z0 else if n > 0 then Zpos (pos_of_int n) else Zneg (pos_of_int (-n))
let rec int_of_pos = function XH -> 1 | XO p -> 2 * int_of_pos p | XI p -> 2 * int_of_pos p + 1
let int_of_n = function N0 -> 0 | Npos p -> int_of_pos p
let int_of_z = function Z0 -> 0 | Zpos p -> int_of_pos p | Zneg p -> - (int_of_pos p)
let rec nat_of_int n = if n <= 0 then O else S (nat_of_int (n - 1))
let rec int_of_nat = function O -> 0 | S n -> 1 + int_of_nat n
let unhex s = if s = "-" || s = "" then [] else
  List.init (String.length s / 2) (fun i -> n_of_int (int_of_string ("0x" ^ String.sub s (2*i) 2)))
let hex l = if l = [] then "-" else String.concat "" (List.map (fun z -> Printf.sprintf "%02x" (int_of_n z)) l)
let split c s = if s = "" then [] else String.split_on_char c s
let parse_spec s =
  match String.split_on_char ',' s with
  | [id; nm; pa; hc; ct; p; e; l; el] ->
    { sid = nat_of_int (int_of_string id); sname = unhex nm; spath = unhex pa; shasc = (hc = "1"); sctext = unhex ct;
      spos = z_of_int (int_of_string p); send = z_of_int (int_of_string e);
      sline = z_of_int (int_of_string l); sendline = z_of_int (int_of_string el) }
  | _ -> failwith ("bad spec " ^ s)
let parse_decl d =
  if d = "O" then OtherDecl
  else begin
    let lp = d.[1] = '1' in
    let body = String.sub d 3 (String.length d - 3) in
    ImportDecl (lp, List.map parse_spec (split ';' body))
  end
let show_spec s =
  Printf.sprintf "%d,%s,%s,%d,%s,%d,%d" (int_of_nat s.sid) (hex s.sname) (hex s.spath) (if s.shasc then 1 else 0)
    (hex s.sctext) (int_of_z s.spos) (int_of_z s.send)
let show_decl = function
  | OtherDecl -> "O"
  | ImportDecl (lp, sp) -> Printf.sprintf "I%d:%s" (if lp then 1 else 0) (String.concat ";" (List.map show_spec sp))
let show_np s = hex s.sname ^ "," ^ hex s.spath
exception ModelPanic
let groups_of = function
  | OtherDecl -> "O"
  | ImportDecl (false, sp) -> "I0:" ^ String.concat "/" (List.map show_np sp)
  | ImportDecl (true, sp) ->
    (match block_runs_exec sp with
     | Ok rs -> "I1:" ^ String.concat "/" (List.filter_map (fun r -> if r = [] then None else Some (String.concat ";" (List.map show_np r))) rs)
     | _ -> raise ModelPanic)
(* SortImports stops at the first non-import declaration: later blocks stay as they are *)
let rec groups_file = function
  | [] -> []
  | OtherDecl :: r -> "O" :: List.map (fun _ -> "?") r
  | d :: r -> groups_of d :: groups_file r
let mixed ds = List.exists (function ImportDecl (true, sp) -> List.exists mixed_ties (runs sp) | _ -> false) ds
let () =
  try while true do
    let line = input_line stdin in
    (if line = "-" || line = "" then print_string "-\t-\t0" else
     let ds = List.map parse_decl (split '|' line) in
     let after = match sort_imports_exec ds with
       | Ok r -> String.concat "|" (List.map show_decl r)
       | Panic -> "PANIC" | OutOfFuel -> "OOF" in
     let gr = try String.concat "|" (groups_file ds) with ModelPanic -> "PANIC" in
     print_string (after ^ "\t" ^ gr ^ "\t" ^ (if mixed ds then "1" else "0")));
    print_newline ()
  done with End_of_file -> ()
