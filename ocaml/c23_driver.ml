(* C23 model runner.
   in : lines0 TAB before       (fields of the harness)
        lines0 = the token.File line table after parsing: comma-separated offsets
        before = decl|decl|...   decl = O | I<0/1>,<rparen offset>:spec;spec;...
        spec   = id,name,path,hascomment,commenttext,pos,end,line,endline  (strings hex, "-" = empty)
   out: after TAB lines1 TAB groups TAB mixed TAB flags
        after  = same format without line/endline: the model of d.Specs after ast.SortImports | PANIC
        lines1 = the line table after SortImports
        groups = decl|decl, decl = O | I<0/1>:group/group, group = name,path;name,path : the groups of each
                 processed block in the final line table (what the printer sees); "?" after the first O
        mixed  = 1 when some run (by the original lines) has key-equal specs that differ in "has a comment"
        flags  = L when line/endline of every record equal line_at(lines0, pos/end) (the harness and the
                 model agree on lineAt), l otherwise; S when the layout-free model (static runs) gives the
                 same specs, s otherwise *)
open C23model
let rec pos_of_int n = if n = 1 then XH else if n land 1 = 0 then XO (pos_of_int (n lsr 1)) else XI (pos_of_int (n lsr 1))
let n_of_int n = if n = 0 then N0 else Npos (pos_of_int n)
let z_of_int n = if n = 0 then Z0 else if n > 0 then Zpos (pos_of_int n) else Zneg (pos_of_int (-n))
let rec int_of_pos = function XH -> 1 | XO p -> 2 * int_of_pos p | XI p -> 2 * int_of_pos p + 1
let int_of_n = function N0 -> 0 | Npos p -> int_of_pos p
let int_of_z = function Z0 -> 0 | Zpos p -> int_of_pos p | Zneg p -> - (int_of_pos p)
let rec nat_of_int n = if n <= 0 then O else S (nat_of_int (n - 1))
let rec int_of_nat = function O -> 0 | S n -> 1 + int_of_nat n
let unhex s = if s = "-" || s = "" then [] else
  List.init (String.length s / 2) (fun i -> n_of_int (int_of_string ("0x" ^ String.sub s (2*i) 2)))
let hex l = if l = [] then "-" else String.concat "" (List.map (fun z -> Printf.sprintf "%02x" (int_of_n z)) l)
let split c s = if s = "" || s = "-" then [] else String.split_on_char c s
let parse_spec s =
  match String.split_on_char ',' s with
  | [id; nm; pa; hc; ct; p; e; l; el] ->
    { sid = nat_of_int (int_of_string id); sname = unhex nm; spath = unhex pa; shasc = (hc = "1"); sctext = unhex ct;
      spos = z_of_int (int_of_string p); send = z_of_int (int_of_string e);
      sline = z_of_int (int_of_string l); sendline = z_of_int (int_of_string el) }
  | _ -> failwith ("bad spec " ^ s)
let parse_decl d =
  if d = "O" then LOther
  else begin
    let i = String.index d ':' in
    let lp = d.[1] = '1' in
    let rp = int_of_string (String.sub d 3 (i - 3)) in
    let body = String.sub d (i + 1) (String.length d - i - 1) in
    LImport (lp, z_of_int rp, List.map parse_spec (split ';' body))
  end
let show_spec s =
  Printf.sprintf "%d,%s,%s,%d,%s,%d,%d" (int_of_nat s.sid) (hex s.sname) (hex s.spath) (if s.shasc then 1 else 0)
    (hex s.sctext) (int_of_z s.spos) (int_of_z s.send)
let show_decl = function
  | LOther -> "O"
  | LImport (lp, rp, sp) -> Printf.sprintf "I%d,%d:%s" (if lp then 1 else 0) (int_of_z rp) (String.concat ";" (List.map show_spec sp))
let show_np s = hex s.sname ^ "," ^ hex s.spath
let show_groups gs = String.concat "/" (List.filter_map (fun r -> if r = [] then None else Some (String.concat ";" (List.map show_np r))) gs)
let rec groups_file lines = function
  | [] -> []
  | LOther :: r -> "O" :: List.map (fun _ -> "?") r
  | LImport (false, _, sp) :: r -> ("I0:" ^ String.concat "/" (List.map show_np sp)) :: groups_file lines r
  | LImport (true, _, sp) :: r -> ("I1:" ^ show_groups (groups_in lines sp)) :: groups_file lines r
let simple = function LOther -> OtherDecl | LImport (lp, _, sp) -> ImportDecl (lp, sp)
let idents = function
  | OtherDecl -> [] | ImportDecl (_, sp) -> List.map (fun s -> (s.sid, s.spos, s.send)) sp
let lidents = function
  | LOther -> [] | LImport (_, _, sp) -> List.map (fun s -> (s.sid, s.spos, s.send)) sp
let () =
  try while true do
    let line = input_line stdin in
    (match String.split_on_char '\t' line with
     | [l0; before] ->
       let lines = List.map (fun x -> z_of_int (int_of_string x)) (split ',' l0) in
       let ds = List.map parse_decl (split '|' before) in
       let consistent = List.for_all (function
           | LOther -> true
           | LImport (_, _, sp) -> List.for_all (fun s -> line_at lines s.spos = s.sline && line_at lines s.send = s.sendline) sp) ds in
       let mixed = List.exists (function LImport (true, _, sp) -> List.exists mixed_ties (runs sp) | _ -> false) ds in
       (* two specs of a run with the same sort key: an unstable sort may drop either one, i.e. merge a different line *)
       let rec has_tie = function [] -> false | a :: r -> List.exists (key_eqb a) r || has_tie r in
       let ties = List.exists (function LImport (true, _, sp) -> List.exists has_tie (runs sp) | _ -> false) ds in
       let after, l1, gr, same =
         match sort_imports_lines_exec lines ds with
         | Ok (r, lines') ->
           let same = (match sort_imports_exec (List.map simple ds) with
               | Ok r2 -> List.map idents r2 = List.map lidents r
               | _ -> false) in
           (if r = [] then "-" else String.concat "|" (List.map show_decl r)),
           String.concat "," (List.map (fun z -> string_of_int (int_of_z z)) lines'),
           (if r = [] then "-" else String.concat "|" (groups_file lines' r)), same
         | Panic -> "PANIC", "-", "PANIC", false
         | OutOfFuel -> "OOF", "-", "OOF", false in
       print_string (String.concat "\t" [after; l1; gr; (if mixed then "1" else "0");
                                         (if consistent then "L" else "l") ^ (if same then "S" else "s") ^ (if ties then "T" else "t")])
     | _ -> print_string "BADLINE");
    print_newline ()
  done with End_of_file -> ()
