(* C05 model runner.
   "S <d|r> <hex>"  -> split_lit on the text between the quotes: parts and reported error
   "V <d|r> <hex>"  -> value and probe trace of the literal: split_lit, the embedded expression
                       spans parsed by the small parser below (the program's typed variables),
                       lower_interp, eval *)
open C05model
let rec pos_of_int n = if n = 1 then XH else if n land 1 = 0 then XO (pos_of_int (n lsr 1)) else XI (pos_of_int (n lsr 1))
let n_of_int n = if n = 0 then N0 else Npos (pos_of_int n)
let z_of_int n = if n = 0 then Z0 else if n > 0 then Zpos (pos_of_int n) else Zneg (pos_of_int (-n))
let rec int_of_pos = function XH -> 1 | XO p -> 2 * int_of_pos p | XI p -> 2 * int_of_pos p + 1
let int_of_n = function N0 -> 0 | Npos p -> int_of_pos p
let int_of_z = function Z0 -> 0 | Zpos p -> int_of_pos p | Zneg p -> - (int_of_pos p)
let rec nat_of_int n = if n <= 0 then O else S (nat_of_int (n - 1))
let unhex s = List.init (String.length s / 2) (fun i -> n_of_int (int_of_string ("0x" ^ String.sub s (2*i) 2)))
let hex l = String.concat "" (List.map (fun b -> Printf.sprintf "%02x" (int_of_n b)) l)
let str_of_string s = List.init (String.length s) (fun i -> n_of_int (Char.code s.[i]))
let string_of_str l = String.init (List.length l) (fun i -> Char.chr (int_of_n (List.nth l i)))

(* value of a Go interpreted string literal body (the escapes the generators use) *)
let unquote_d (s : string) : string =
  let b = Buffer.create 16 in
  let n = String.length s in
  let i = ref 0 in
  while !i < n do
    if s.[!i] = '\\' && !i + 1 < n then begin
      (match s.[!i + 1] with
       | 'n' -> Buffer.add_char b '\n'; i := !i + 2
       | 't' -> Buffer.add_char b '\t'; i := !i + 2
       | '\\' -> Buffer.add_char b '\\'; i := !i + 2
       | '"' -> Buffer.add_char b '"'; i := !i + 2
       | 'x' when !i + 3 < n -> Buffer.add_char b (Char.chr (int_of_string ("0x" ^ String.sub s (!i + 2) 2))); i := !i + 4
       | c -> Buffer.add_char b '\\'; Buffer.add_char b c; i := !i + 2)
    end else begin Buffer.add_char b s.[!i]; incr i end
  done;
  Buffer.contents b
let lit_val q (body : str) : str = if q = "r" then body else str_of_string (unquote_d (string_of_str body))

(* ---- embedded expressions of the generated programs ---- *)
exception Bad
let vars = [ "n", (TInt, VInt (z_of_int 3)); "m", (TInt, VInt (z_of_int (-12))); "s", (TStr, VStr (str_of_string "q"));
             "fl", (TFloat, VFloat (str_of_string "1.5")); "g", (TFloat, VFloat (str_of_string "1e+21"));
             "er", (TErr, VErr (Some (EBase (n_of_int 1)))); "b", (TBool, VBool true) ]
let err_text (_ : err) : str = str_of_string "E"
(* float literals of the generators -> strconv.FormatFloat(f, 'g', -1, 64) *)
let float_lits = [ "2.50", "2.5"; "2.0", "2"; "1e3", "1000"; "0.5", "0.5"; "1e21", "1e+21"; "12.0e-1", "1.2"; "1_0.2_5", "10.25"; "0x1p-2", "0.25"; "100.", "100" ]
let parse_expr (src : string) : ty * expr =
  let n = String.length src in
  let i = ref 0 in
  let ws () = while !i < n && (src.[!i] = ' ' || src.[!i] = '\t') do incr i done in
  let ident () = let j = !i in
    while !i < n && (match src.[!i] with 'a'..'z' | 'A'..'Z' | '_' -> true | '0'..'9' -> !i > j | _ -> false) do incr i done;
    String.sub src j (!i - j) in
  let number () = let j = !i in
    if !i < n && src.[!i] = '-' then incr i;
    while !i < n && (match src.[!i] with '0'..'9' -> true | _ -> false) do incr i done;
    if !i = j then raise Bad; int_of_string (String.sub src j (!i - j)) in
  let expect c = ws (); if !i < n && src.[!i] = c then incr i else raise Bad in
  let rec expr () =
    let (t, e) = term () in
    let acc = ref (t, e) in
    ws ();
    while !i < n && src.[!i] = '+' do
      incr i;
      let (t2, e2) = term () in
      let (t1, e1) = !acc in
      if t1 <> t2 || (t1 <> TInt && t1 <> TStr) then raise Bad;
      acc := (t1, EBin (BAdd, e1, e2)); ws ()
    done; !acc
  and term () =
    ws ();
    if !i >= n then raise Bad;
    match src.[!i] with
    | '0'..'9' ->
      (* a Go number literal in any spelling: hex / octal / binary / digit separators, floats by table *)
      let j = !i in
      while !i < n && (match src.[!i] with '0'..'9' | 'a'..'z' | 'A'..'Z' | '_' | '.' -> true
                                         | '+' | '-' -> !i > j && (src.[!i - 1] = 'e' || src.[!i - 1] = 'E') && not (String.length src > j + 1 && (src.[j + 1] = 'x' || src.[j + 1] = 'X'))
                                         | _ -> false) do incr i done;
      let lit = String.sub src j (!i - j) in
      (match List.assoc_opt lit float_lits with
       | Some r -> (TFloat, EConst (VFloat (str_of_string r)))
       | None ->
         let go_int l =
           let l' = String.concat "" (String.split_on_char '_' l) in
           if String.length l' > 1 && l'.[0] = '0' && (match l'.[1] with '0'..'9' -> true | _ -> false)
           then int_of_string ("0o" ^ String.sub l' 1 (String.length l' - 1)) else int_of_string l' in
         (try (TInt, EConst (VInt (z_of_int (go_int lit)))) with Failure _ -> raise Bad))
    | '-' -> (TInt, EConst (VInt (z_of_int (number ()))))
    | '(' -> incr i; let r = expr () in expect ')'; r
    | '"' -> incr i; let j = !i in
      while !i < n && src.[!i] <> '"' do incr i done;
      if !i >= n then raise Bad;
      let lit = String.sub src j (!i - j) in incr i;
      (TStr, EConst (VStr (str_of_string lit)))
    | _ ->
      let id = ident () in
      if id = "" then raise Bad;
      if id = "p" || id = "ps" then begin
        expect '('; ws (); let k = number () in expect ','; let (t, e) = expr () in expect ')';
        if (id = "p" && t <> TInt) || (id = "ps" && t <> TStr) then raise Bad;
        (t, EProbe (n_of_int k, e))
      end else (match List.assoc_opt id vars with
                | Some (t, v) -> (t, EConst v)
                | None -> raise Bad) in
  let r = expr () in ws (); if !i <> n then raise Bad; r

let show_part = function
  | PStr s -> "S:" ^ hex s
  | PExpr (a, b) -> Printf.sprintf "E:%d:%d" (int_of_z a) (int_of_z b)
let show_err = function
  | None -> ""
  | Some (ErrNoClose o) -> Printf.sprintf "noclose@%d" (int_of_z o)
  | Some (ErrBadDollar o) -> Printf.sprintf "baddollar@%d" (int_of_z o)
let show_val = function
  | VInt z -> string_of_int (int_of_z z)
  | VStr s -> hex s
  | _ -> "?"
let show_trace tr = "[" ^ String.concat " " (List.map (fun (Ev (id, args)) ->
    Printf.sprintf "%d:%s" (int_of_n id) (String.concat "," (List.map show_val args))) tr) ^ "]"

let () =
  try while true do
    let line = input_line stdin in
    (match String.split_on_char ' ' line with
     | [mode; q; h] | [mode; q; h; _] ->
       let body = unhex h in
       (match split_lit body with
        | Panic -> print_string "PANIC"
        | OutOfFuel -> print_string "OUTOFFUEL"
        | Ok (parts, er) ->
          if mode = "S" then begin
            (match parts with
             | None -> print_string "nil"
             | Some ps -> print_string (String.concat " " (List.map show_part ps)));
            print_string (" | " ^ show_err er)
          end else begin
            if er <> None then print_string "ERROR"
            else match parts with
              | None -> Printf.printf "v=%s t=[]" (hex (lit_val q body))
              | Some ps ->
                (try
                   let text = string_of_str body in
                   let cps = List.map (function
                       | PStr s -> CStr s
                       | PExpr (a, b) -> let (t, e) = parse_expr (String.sub text (int_of_z a) (int_of_z b - int_of_z a)) in CExpr (t, e)) ps in
                   match lower_interp (lit_val q) cps with
                   | None -> print_string "COMPILE-ERROR"
                   | Some e ->
                     (match eval err_text (nat_of_int 3) e [] [] with
                      | ((RVal [VStr s], _), tr) -> Printf.printf "v=%s t=%s" (hex s) (show_trace tr)
                      | ((RPanic _, _), _) -> print_string "PANIC"
                      | _ -> print_string "STUCK")
                 with Bad | Invalid_argument _ -> print_string "BADEXPR")
          end)
     | _ -> print_string "?");
    print_newline ()
  done with End_of_file -> ()
