(* C10 model runner.  One overload declaration per line, TAB separated:
     name(hex)  recv(hex|-)  isop(0|1)  isclass(0|1)  cands  calls  types
     cands = style:name(hex|-):cid:t.t.t , ...      style = L (literal) | N (named) | M (method)
     calls = t.t;t;...      (argument type lists)       types = hex,hex  (named types of the package scope)
   Output (space separated):
     ST=ok|err|panic  CN=<hex|->  CV=<hex|->  LITS=idx:hex,...  DEC=recv(hex|-)/name(hex)/hex,hex | DEC=panic | DEC=-
     EXP=hex,hex (names cl declares/refers to, per candidate)  RES=cid|-,... *)
open C10model

let rec pos_of_int n = if n = 1 then XH else if n land 1 = 0 then XO (pos_of_int (n lsr 1)) else XI (pos_of_int (n lsr 1))
let n_of_int n = if n = 0 then N0 else Npos (pos_of_int n)
let rec int_of_pos = function XH -> 1 | XO p -> 2 * int_of_pos p | XI p -> 2 * int_of_pos p + 1
let int_of_n = function N0 -> 0 | Npos p -> int_of_pos p
let z_of_int n = if n = 0 then Z0 else if n > 0 then Zpos (pos_of_int n) else Zneg (pos_of_int (-n))
let int_of_z = function Z0 -> 0 | Zpos p -> int_of_pos p | Zneg p -> - (int_of_pos p)

let unhex s = if s = "-" || s = "" then [] else
  List.init (String.length s / 2) (fun i -> n_of_int (int_of_string ("0x" ^ String.sub s (2*i) 2)))
let hex l = if l = [] then "-" else String.concat "" (List.map (fun z -> Printf.sprintf "%02x" (int_of_n z)) l)
let split c s = if s = "" || s = "-" then [] else String.split_on_char c s
let types s = List.map (fun t -> n_of_int (int_of_string t)) (split '.' s)

let () =
  try while true do
    let line = input_line stdin in
    (match String.split_on_char '\t' line with
     | [name; recv; isop; isclass; cands; calls; tys] ->
       let cs = List.map (fun c ->
         match String.split_on_char ':' c with
         | [st; nm; cid; ts] ->
             let style = (match st with "L" -> Lit | "N" -> Named (unhex nm) | "M" -> Meth (unhex nm) | _ -> failwith "style") in
             { cstyle = style; ptypes = types ts; cid = n_of_int (int_of_string cid) }
         | _ -> failwith "cand") (split ',' cands) in
       let d = { oname = unhex name; orecv = (if recv = "-" then None else Some (unhex recv));
                 oisop = (isop = "1"); oisclass = (isclass = "1"); ocands = cs } in
       let known = List.map unhex (split ',' tys) in
       let lookup t = if List.mem t known then SNamedType else SNone in
       let buf = Buffer.create 256 in
       (match preload_overload d with
        | Panic | OutOfFuel -> Buffer.add_string buf "ST=panic"
        | Ok None -> Buffer.add_string buf "ST=err"
        | Ok (Some p) ->
            Buffer.add_string buf "ST=ok";
            (match p.p_const with
             | Some (cn, cv) ->
                 Buffer.add_string buf (Printf.sprintf " CN=%s CV=%s" (hex cn) (hex cv));
                 (match decode_gopo lookup cn cv with
                  | Ok ((r, n), es) ->
                      Buffer.add_string buf (Printf.sprintf " DEC=%s/%s/%s" (match r with Some t -> hex t | None -> "-") (hex n)
                                               (String.concat "," (List.map hex es)))
                  | _ -> Buffer.add_string buf " DEC=panic")
             | None -> Buffer.add_string buf " CN=- CV=- DEC=-");
            Buffer.add_string buf (" LITS=" ^ String.concat "," (List.map (fun (i, n) -> Printf.sprintf "%d:%s" (int_of_z i) (hex n)) p.p_lits));
            let exp = List.mapi (fun k c -> match expected_entry d (z_of_int k) c with Ok n -> hex n | _ -> "panic") cs in
            Buffer.add_string buf (" EXP=" ^ String.concat "," exp));
       let res = List.map (fun a -> match resolve_exact cs (types a) with Some c -> string_of_int (int_of_n c) | None -> "-") (split ';' calls) in
       Buffer.add_string buf (" RES=" ^ String.concat "," res);
       print_string (Buffer.contents buf)
     | _ -> print_string "BADINPUT");
    print_newline ()
  done with End_of_file -> ()
