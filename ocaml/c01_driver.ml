(* line protocol: blank separated declarations in source order
     S<t>:<f>.<f>,<f>     struct t with field groups (fields of one group joined by '.', groups by ',')
     V<k>                 var k with an effectful initialiser
     F<k>:<v>.<v>         func k whose body refers to the package-level variables v (in this order); "F<k>:" none
   Output:  vars=<k>,<k>,..;structs=<t>:<f>|<f>|..;..   = the order of the variable declarations after
   emit_order, and the field groups after lower_go (one group per field). *)
open C01model
let rec pos_of_int n = if n = 1 then XH else if n land 1 = 0 then XO (pos_of_int (n lsr 1)) else XI (pos_of_int (n lsr 1))
let n_of_int n = if n = 0 then N0 else Npos (pos_of_int n)
let rec int_of_pos = function XH -> 1 | XO p -> 2 * int_of_pos p | XI p -> 2 * int_of_pos p + 1
let int_of_n = function N0 -> 0 | Npos p -> int_of_pos p
let split c s = if s = "" then [] else String.split_on_char c s
let () =
  try while true do
    let line = input_line stdin in
    let toks = List.filter (fun s -> s <> "") (String.split_on_char ' ' line) in
    let decl t =
      let body = String.sub t 1 (String.length t - 1) in
      match t.[0] with
      | 'V' -> DVar (n_of_int (int_of_string body), EInt Z0, SPrint (EInt Z0))
      | 'F' -> (match String.split_on_char ':' body with
                | [k; refs] ->
                  let stm = List.fold_right (fun v acc -> SSeq (SPrint (EVar (n_of_int (int_of_string v))), acc)) (split '.' refs) SSkip in
                  DFunc (n_of_int (int_of_string k), stm)
                | _ -> failwith "F")
      | 'S' -> (match String.split_on_char ':' body with
                | [k; groups] ->
                  DStruct (n_of_int (int_of_string k),
                           List.map (fun g -> (List.map (fun f -> n_of_int (int_of_string f)) (split '.' g), VInt Z0)) (split ',' groups))
                | _ -> failwith "S")
      | _ -> failwith "decl" in
    (try
      if toks <> [] && List.hd toks = "SW" then begin
        (* SW <value> <clause>...   clause = c<v>:<marker>:<0|1> | d:<marker>:<0|1>  ->  the markers executed *)
        match List.tl toks with
        | v :: cls ->
          let z_of_int n = if n = 0 then Z0 else if n > 0 then Zpos (pos_of_int n) else Zneg (pos_of_int (-n)) in
          let clause t = match String.split_on_char ':' t with
            | [k; m; f] ->
              let sel = if k = "d" then None else Some (z_of_int (int_of_string (String.sub k 1 (String.length k - 1)))) in
              ((sel, n_of_int (int_of_string m)), f = "1")
            | _ -> failwith "clause" in
          let r = switch_exec (List.map clause cls) (z_of_int (int_of_string v)) in
          print_string ("SW " ^ String.concat " " (List.map (fun m -> string_of_int (int_of_n m)) r))
        | [] -> failwith "SW"
      end else
      let p = List.map decl toks in
      let vars = String.concat "," (List.map (fun v -> string_of_int (int_of_n v)) (var_names (emit_order p))) in
      let structs = List.filter_map (function
        | DStruct (t, groups) -> Some (string_of_int (int_of_n t) ^ ":" ^
            String.concat "|" (List.map (fun (fs, _) -> String.concat "." (List.map (fun f -> string_of_int (int_of_n f)) fs)) groups))
        | _ -> None) (lower_go p) in
      print_string ("vars=" ^ vars ^ ";structs=" ^ String.concat ";" structs)
    with Failure m -> print_string ("BAD " ^ m));
    print_newline ()
  done with End_of_file -> ()
