(* C41 model runner.  One recorded history of the real fakenet connection per line:
     <nthreads> <event> <event> ...
   events (f = R reader feeder / W writer feeder; b = buffer id; res = E (io.EOF) | v<k> (result k of the
   source) | X (the error the stream returns because it was closed)):
     C<i>:<f>:<b>  thread i calls Read/Write with buffer b        R<i>:<res>  it returns res
     S<f>:<b>      the source of f (in.Read / out.Write) is called with buffer b
     s<f>:<res>    that source call returns res
     K<i>  thread i calls Close     Z<i>:<f>  it closes the stream of f (in.Close / out.Close)     k<i>  Close returns
   The runner looks for hidden steps (polls, parks, rendezvous, statements of Close) that make every
   recorded event a transition of the EXTRACTED gstep; every step it takes is checked by gstep, so a
   history the model cannot produce is rejected whatever the search does.  Strategy: rendezvous as
   early as possible (which call is accepted next / whether a result is delivered is read off the
   rest of the history), statements of Close as late as possible.
   Output:  OK <events re-read from the model state> | <summary>     or   REJ@<index>:<event> <reason> *)
open C41model

let rec pos_of_int n = if n = 1 then XH else if n land 1 = 0 then XO (pos_of_int (n lsr 1)) else XI (pos_of_int (n lsr 1))
let n_of_int n = if n = 0 then N0 else Npos (pos_of_int n)
let rec int_of_pos = function XH -> 1 | XO p -> 2 * int_of_pos p | XI p -> 2 * int_of_pos p + 1
let int_of_n = function N0 -> 0 | Npos p -> int_of_pos p
let rec nat_of_int n = if n = 0 then O else S (nat_of_int (n - 1))
let rec int_of_nat = function O -> 0 | S n -> 1 + int_of_nat n

exception Reject of string

type ev =
  | ECall of int * fid * int
  | ERet of int * string
  | ESrcCall of fid * int
  | ESrcRet of fid * string
  | EClose of int
  | EStream of int * fid
  | ECloseRet of int

let fid_of = function "R" -> FR | "W" -> FW | s -> failwith ("bad feeder " ^ s)
let fname = function FR -> "R" | FW -> "W"

let parse tok =
  let parts = String.split_on_char ':' tok in
  let head = List.hd parts in
  let c = head.[0] and n = String.sub head 1 (String.length head - 1) in
  match c, parts with
  | 'C', [_; f; b] -> ECall (int_of_string n, fid_of f, int_of_string b)
  | 'R', [_; r] -> ERet (int_of_string n, r)
  | 'S', [_; b] -> ESrcCall (fid_of n, int_of_string b)
  | 's', [_; r] -> ESrcRet (fid_of n, r)
  | 'K', [_] -> EClose (int_of_string n)
  | 'Z', [_; f] -> EStream (int_of_string n, fid_of f)
  | 'k', [_] -> ECloseRet (int_of_string n)
  | _ -> failwith ("bad event " ^ tok)

let res_of_string r =
  if r = "E" then REof else if r = "X" then RClosed
  else ROk (n_of_int (int_of_string (String.sub r 1 (String.length r - 1))))
let string_of_res = function REof -> "E" | RClosed -> "X" | ROk v -> "v" ^ string_of_int (int_of_n v)

let run_line nthr (evs : ev array) =
  let s = ref (init (nat_of_int nthr)) in
  let nsteps = ref 0 in
  let step what l =
    match gstep !s l with
    | Some s' -> s := s'; incr nsteps
    | None -> raise (Reject ("hidden step not enabled: " ^ what)) in
  let thr i = List.nth !s.thr i in
  let feeder f = getf !s f in
  (* the future: which buffers each source will be called with (in order), what each call returns *)
  let accepted = Hashtbl.create 16 in   (* (f, k) -> buffer *)
  let nacc = Hashtbl.create 2 in
  let nextacc = Hashtbl.create 2 in
  List.iter (fun f -> Hashtbl.replace nacc f 0; Hashtbl.replace nextacc f 0) [FR; FW];
  Array.iter (function
    | ESrcCall (f, b) -> let k = Hashtbl.find nacc f in Hashtbl.replace accepted (f, k) b; Hashtbl.replace nacc f (k + 1)
    | _ -> ()) evs;
  let future_ret = Hashtbl.create 16 in  (* event index of a call -> its return string *)
  let open_call = Hashtbl.create 16 in
  Array.iteri (fun idx e -> match e with
    | ECall (i, _, _) -> Hashtbl.replace open_call i idx
    | ERet (i, r) -> (match Hashtbl.find_opt open_call i with
                      | Some c -> Hashtbl.replace future_ret c r; Hashtbl.remove open_call i
                      | None -> ())
    | _ -> ()) evs;
  let cur_call = Hashtbl.create 16 in    (* thread -> event index of its current call *)
  let will_get_value i =
    match Hashtbl.find_opt cur_call i with
    | Some c -> (match Hashtbl.find_opt future_ret c with Some r -> r <> "E" | None -> false)
    | None -> false in
  (* rendezvous as early as possible *)
  let rec advance () =
    let changed = ref false in
    List.iter (fun f ->
      let ff = feeder f in
      (match ff.wk with
       | W0 | W0W ->
         let k = Hashtbl.find nextacc f in
         (match Hashtbl.find_opt accepted (f, k) with
          | Some b ->
            (* the thread that called with buffer b on this feeder, if it is waiting at its first select *)
            let found = ref None in
            List.iteri (fun i p -> match p with
              | D1 (f', b') | D1W (f', b') when f' = f && int_of_n b' = b -> found := Some (i, p)
              | _ -> ()) !s.thr;
            (match !found with
             | Some (i, p) when not ff.done0 ->
               (match ff.wk, p with
                | W0W, D1 _ -> step "caller sends to parked worker" (LPollChan (nat_of_int i))
                | W0, D1 _ -> step "caller parks in select 1" (LPark (nat_of_int i));
                  step "worker receives from parked caller" (LWPollChan (f, nat_of_int i))
                | W0, D1W _ -> step "worker receives from parked caller" (LWPollChan (f, nat_of_int i))
                | _ -> raise (Reject "worker and caller both parked in select 1"));
               Hashtbl.replace nextacc f (k + 1); changed := true
             | _ -> ())
          | None -> ())
       | W1 (o, _) | W1W (o, _) ->
         let o = int_of_nat o in
         if will_get_value o && not ff.done0 then begin
           (match ff.wk, thr o with
            | W1W _, D2 f' when f' = f -> step "caller receives from parked worker" (LPollChan (nat_of_int o))
            | W1 _, D2 f' when f' = f -> step "caller parks in select 2" (LPark (nat_of_int o));
              step "worker hands result to parked caller" (LWPollChan (f, nat_of_int o))
            | W1 _, D2W f' when f' = f -> step "worker hands result to parked caller" (LWPollChan (f, nat_of_int o))
            | _ -> raise (Reject "owner of the result is not waiting for it"));
           changed := true
         end
       | _ -> ())) [FR; FW];
    if !changed then advance () in
  (* statements of Close as late as possible *)
  let closer_pos i = match thr i with K (ip, sub) -> Some (int_of_nat ip, int_of_nat sub) | _ -> None in
  let rec closer_step fuel i =
    if fuel = 0 then raise (Reject "closer cannot move");
    match gstep !s (LK (nat_of_int i)) with
    | Some s' -> s := s'; incr nsteps
    | None ->
      (* waiting for a feeder mutex: let the holder release it *)
      let holder = ref None in
      List.iteri (fun j p -> match p with
        | K (ip, sub) when j <> i && (int_of_nat sub = 1 || int_of_nat sub = 2) && int_of_nat ip < 2 -> holder := Some j
        | _ -> ()) !s.thr;
      (match !holder with
       | Some j -> closer_step (fuel - 1) j; closer_step (fuel - 1) i
       | None -> raise (Reject "closer cannot move and nobody holds the mutex")) in
  let run_closer_until i pred =
    let fuel = ref 40 in
    while not (pred ()) do
      if !fuel = 0 then raise (Reject "closer does not reach the expected statement");
      decr fuel; closer_step 10 i
    done in
  let force_done f =
    if not (feeder f).done0 then begin
      let cand = ref None in
      List.iteri (fun j p -> match p with K _ when !cand = None -> cand := Some j | _ -> ()) !s.thr;
      match !cand with
      | Some j -> run_closer_until j (fun () -> (feeder f).done0 || closer_pos j = None || (match closer_pos j with Some (ip, _) -> ip >= 2 | None -> true));
        if not (feeder f).done0 then raise (Reject "EOF returned although no Close has closed the feeder")
      | None -> raise (Reject "EOF returned although nobody called Close")
    end in
  let out = Buffer.create 256 in
  let add e = if Buffer.length out > 0 then Buffer.add_char out ' '; Buffer.add_string out e in
  let idx = ref 0 in
  (try
    Array.iteri (fun k e ->
      idx := k;
      (match e with
       | ECall (i, f, b) ->
         step "call" (LCall (nat_of_int i, f, n_of_int b));
         Hashtbl.replace cur_call i k;
         add (Printf.sprintf "C%d:%s:%d" i (fname f) b)
       | ERet (i, r) ->
         (match thr i with
          | DRet _ -> ()
          | D1 (f, _) | D2 f | D1W (f, _) | D2W f ->
            if r = "E" then begin
              force_done f;
              (match thr i with
               | D1 _ | D2 _ -> step "caller polls: done" (LPollDone (nat_of_int i))
               | _ -> ())
            end else raise (Reject "the returned result has not been handed to this caller")
          | _ -> raise (Reject "return of a thread that is not inside Read/Write"));
         (match thr i with
          | DRet (_, r') ->
            if string_of_res r' <> r then raise (Reject ("model returns " ^ string_of_res r' ^ ", implementation returned " ^ r));
            step "return" (LRet (nat_of_int i));
            Hashtbl.remove cur_call i;
            add (Printf.sprintf "R%d:%s" i (string_of_res r'))
          | _ -> raise (Reject "caller cannot return"))
       | ESrcCall (f, b) ->
         (match (feeder f).wk with
          | WC (_, b') when int_of_n b' = b -> step "source call" (LWCall f); add (Printf.sprintf "S%s:%d" (fname f) b)
          | WC (_, b') -> raise (Reject (Printf.sprintf "source called with buffer %d, the model's worker holds %d" b (int_of_n b')))
          | _ -> raise (Reject "source called although the worker holds no buffer"))
       | ESrcRet (f, r) ->
         step "source returns" (LSrc (f, res_of_string r));
         (match (feeder f).wk with
          | W1 (_, r') -> add (Printf.sprintf "s%s:%s" (fname f) (string_of_res r'))
          | _ -> raise (Reject "source return not recorded"))
       | EClose i -> step "call Close" (LCallClose (nat_of_int i)); add (Printf.sprintf "K%d" i)
       | EStream (i, f) ->
         let target = (match f with FR -> 2 | FW -> 3) in
         run_closer_until i (fun () -> match closer_pos i with Some (ip, _) -> ip >= target | None -> true);
         (match closer_pos i with
          | Some (ip, _) when ip = target -> closer_step 10 i; add (Printf.sprintf "Z%d:%s" i (fname f))
          | _ -> raise (Reject "stream closed out of order"))
       | ECloseRet i ->
         run_closer_until i (fun () -> match closer_pos i with Some (ip, _) -> ip >= 4 | None -> true);
         step "Close returns" (LRet (nat_of_int i)); add (Printf.sprintf "k%d" i));
      advance ()) evs;
    let tag f = let ff = feeder f in
      Printf.sprintf "%s:done=%b,worker=%s,sourced=%d,delivered=%d" (fname f) ff.done0
        (match ff.wk with W0 -> "W0" | W0W -> "W0W" | WC _ -> "WC" | WS _ -> "WS" | W1 _ -> "W1" | W1W _ -> "W1W" | WX -> "WX")
        (List.length ff.sourced) (List.length ff.delivered) in
    Printf.printf "OK %s | %s %s steps=%d\n" (Buffer.contents out) (tag FR) (tag FW) !nsteps
  with Reject why ->
    Printf.printf "REJ@%d %s | %s\n" !idx why (Buffer.contents out))

let () =
  try while true do
    let line = input_line stdin in
    let toks = List.filter (fun s -> s <> "") (String.split_on_char ' ' line) in
    (match toks with
     | [] -> print_string "EMPTY\n"
     | n :: rest ->
       (try run_line (int_of_string n) (Array.of_list (List.map parse rest))
        with Failure m -> Printf.printf "BADLINE %s\n" m))
  done with End_of_file -> ()
