(* line protocol: one serialized MiniScope program per line (prefix tokens, see checks/c12.py);
   output: the projected Info maps, same format as the MAP field of harness/cmd/c12 *)
open C12model
let rec pos_of_int n = if n = 1 then XH else if n land 1 = 0 then XO (pos_of_int (n lsr 1)) else XI (pos_of_int (n lsr 1))
let n_of_int n = if n = 0 then N0 else Npos (pos_of_int n)
let rec int_of_pos = function XH -> 1 | XO p -> 2 * int_of_pos p | XI p -> 2 * int_of_pos p + 1
let int_of_n = function N0 -> 0 | Npos p -> int_of_pos p

let toks = ref [||]
let cur = ref 0
let next () = let t = !toks.(!cur) in incr cur; t
let num () = n_of_int (int_of_string (next ()))
let int_ () = int_of_string (next ())
let ident () = let n = num () in let p = num () in { iname = n; ipos = p }
let rec rep k f = if k = 0 then [] else let x = f () in x :: rep (k - 1) f
let idents () = let k = int_ () in rep k ident

let rec expr () =
  match next () with
  | "L" -> ELit (num ())
  | "U" -> EUse (ident ())
  | "B" -> let p = num () in let a = expr () in let b = expr () in EBin (p, a, b)
  | "C" -> let p = num () in let f = expr () in let a = exprs () in ECall (p, f, a)
  | "Q" -> let p = num () in let x = ident () in let s = ident () in ESel (p, x, s)
  | "F" -> let p = num () in let ps = idents () in let pt = idents () in let rt = idents () in
           let bp = num () in let b = stmts () in EFuncLit (p, ps, pt, rt, bp, b)
  | "K" -> let p = num () in let t = idents () in let es = exprs () in EComp (p, t, es)
  | "X" -> let p = num () in let es = exprs () in EXSlice (p, es)
  | "M" -> let p = num () in let es = exprs () in EXMap (p, es)
  | t -> failwith ("expr: " ^ t)
and exprs () = let k = int_ () in
  let l = rep k expr in List.fold_right (fun e acc -> ECons (e, acc)) l ENil
and stmt () =
  match next () with
  | "V" -> let ns = idents () in let t = idents () in let v = exprs () in SVar (ns, t, v)
  | "N" -> let ns = idents () in let v = exprs () in SConst (ns, v)
  | "T" -> let n = ident () in let u = ident () in SType (n, u)
  | "D" -> let ns = idents () in let v = exprs () in SDefine (ns, v)
  | "A" -> let l = exprs () in let r = exprs () in SAssign (l, r)
  | "E" -> SExpr (expr ())
  | "R" -> SReturn (exprs ())
  | "Bk" -> let p = num () in let b = stmts () in SBlock (p, b)
  | "I" -> let p = num () in let i = stmts () in let c = expr () in let bp = num () in
           let t = stmts () in let e = stmts () in SIf (p, i, c, bp, t, e)
  | "Fo" -> let p = num () in let i = stmts () in let c = exprs () in let po = stmts () in
            let bp = num () in let b = stmts () in SFor (p, i, c, po, bp, b)
  | "Rg" -> let p = num () in let ns = idents () in let x = expr () in let bp = num () in
            let b = stmts () in SRange (p, ns, x, bp, b)
  | t -> failwith ("stmt: " ^ t)
and stmts () = let k = int_ () in
  let l = rep k stmt in List.fold_right (fun s acc -> SCons (s, acc)) l SNil

let embed () = let q = idents () in let t = ident () in { equal = q; etyp = t }
let decl () =
  match next () with
  | "st" -> let n = ident () in let k = int_ () in let es = rep k embed in let fs = idents () in let ft = idents () in
            DStruct (n, es, fs, ft)
  | "im" -> let nm = idents () in let pp = num () in let pn = num () in DImport (nm, pp, pn)
  | "va" -> let ns = idents () in let t = idents () in let v = exprs () in DVar (ns, t, v)
  | "co" -> let ns = idents () in let v = exprs () in DConst (ns, v)
  | "ty" -> let n = ident () in let u = ident () in DType (n, u)
  | "fn" -> let fp = num () in let n = ident () in let ps = idents () in let pt = idents () in
            let rs = idents () in let rt = idents () in let bp = num () in let b = stmts () in
            DFunc (fp, n, ps, pt, rs, rt, bp, b)
  | t -> failwith ("decl: " ^ t)

let show_where = function
  | NoPos -> "nopos" | Ext -> "ext" | InFile p -> string_of_int (int_of_n p - 1)

let show_entry = function
  | MDef (true, _) -> "D"
  | MDef (false, w) -> "D!" ^ show_where w
  | MUse NoPos -> "Uuniv"
  | MUse w -> "U" ^ show_where w
  | MNone -> "-"

let rec len = function O -> 0 | S n -> 1 + len n

let () =
  try while true do
    let line = input_line stdin in
    (try
      toks := Array.of_list (List.filter (fun s -> s <> "") (String.split_on_char ' ' line));
      cur := 0;
      let k = int_ () in
      let p = rep k decl in
      let ((m, sc), nt) = info_map p in
      let evs = run p in
      let nodes = nodes_prog p in
      let inv_d = List.length (List.filter (fun e -> not (def_ok e)) evs) in
      let inv_u = List.length (List.filter (fun e -> not (use_ok e)) evs) in
      let inv_n = List.length (List.filter (fun e -> not (node_ok nodes e)) evs) in
      print_string (String.concat " " (List.map (fun (_, e) -> show_entry e) m));
      Printf.printf "|scopes=%d|niltypes=%d\tbaddefs=%d baduses=%d badnodes=%d" (len sc) (if nt then 1 else 0) inv_d inv_u inv_n
    with Failure s -> print_string ("MODELERR " ^ s) | Invalid_argument s -> print_string ("MODELERR " ^ s));
    print_newline ()
  done with End_of_file -> ()
