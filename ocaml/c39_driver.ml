(* C39 history acceptor around the extracted model (Model/C39.v).

   One history per input line:   P<0|1> ev ev ev ...
   The set of model states compatible with the observed prefix is maintained: closure under the
   unlogged implementation steps (tau_labels, judged by the extracted [step]), then each logged
   event must be enabled in at least one state.  Output per line:
     ACCEPT states=<n> max=<m> quiescent=<0|1> done=<0|1>
     REJECT at=<index> ev=<token> states=<n>
     MODELPANIC at=<index> ...        (the model reached one of the panics: contradicts the theorems)
   Tokens (ids: i<int> | s<n>;  bodies: r<tag> | e<code>;  outcomes: n a k<tag> e<code> b;  writes: o f c):
     cb:<bad> nb:<bad> rb:<id>:<out> kb:<id> xb vb
     cr:<c>:<id> nr:<n>:<ok> rr:<j>:<found> kr:<k> xr:<j> aw:<c>:<id>:<body> st rc od
     rm:q:<id|-> rm:p:<id>:<body> re  wc:<c>:<w> wn:<n>:<w> wr:<id>:<body>:<w>
     pb:<r> pr:<r>:<out> hb:<r> hr:<r>:<out> *)
open C39model

let rec nat_of_int n = if n <= 0 then O else S (nat_of_int (n - 1))
let rec pos_of_int n = if n = 1 then XH else if n land 1 = 0 then XO (pos_of_int (n lsr 1)) else XI (pos_of_int (n lsr 1))
let n_of_int n = if n = 0 then N0 else Npos (pos_of_int n)
let z_of_int n = if n = 0 then Z0 else if n > 0 then Zpos (pos_of_int n) else Zneg (pos_of_int (-n))

let id_of s =
  let v = int_of_string (String.sub s 1 (String.length s - 1)) in
  match s.[0] with 'i' -> IInt (z_of_int v) | 's' -> IStr (n_of_int v) | _ -> failwith ("id " ^ s)
let body_of s =
  let v = int_of_string (String.sub s 1 (String.length s - 1)) in
  match s.[0] with 'r' -> BResult (n_of_int v) | 'e' -> BErr (n_of_int v) | _ -> failwith ("body " ^ s)
let out_of s =
  match s.[0] with
  | 'n' -> ONotHandled | 'a' -> OAsync | 'b' -> OBad
  | 'k' -> OOk (n_of_int (int_of_string (String.sub s 1 (String.length s - 1))))
  | 'e' -> OErr (n_of_int (int_of_string (String.sub s 1 (String.length s - 1))))
  | _ -> failwith ("outcome " ^ s)
let w_of s = match s with "o" -> WOk | "f" -> WFail | "c" -> WFailCtx | _ -> failwith ("wres " ^ s)
let b_of s = s = "1"
let nat s = nat_of_int (int_of_string s)

(* an observed event = the candidate labels it may correspond to in a given state *)
let labels_of (tok : string) (s : state) : label list =
  match String.split_on_char ':' tok with
  | ["cb"; b] -> [LCallBegin (b_of b)]
  | ["nb"; b] -> [LNotifyBegin (b_of b)]
  | ["rb"; i; o] -> [LRespondBegin (id_of i, out_of o)]
  | ["kb"; i] -> [LCancelBegin (id_of i)]
  | ["xb"] -> [LCloseBegin]
  | ["vb"] -> [LWaitBegin]
  | ["cr"; c; i] -> [LCallRet (nat c, id_of i)]
  | ["nr"; n; ok] -> [LNotifyRet (nat n, b_of ok)]
  | ["rr"; j; f] -> [LRespondRet (nat j, b_of f)]
  | ["kr"; k] -> [LCancelRet (nat k)]
  | ["xr"; j] -> [LCloseRet (nat j)]
  | ["aw"; c; i; b] -> [LAwait (nat c, { rs_id = id_of i; rs_body = body_of b })]
  | ["st"] -> [LStarted]
  | ["rc"] -> [LRwcClose]
  | ["od"] -> [LOnDone]
  | ["rm"; "q"; "-"] -> [LReadMsg (MReq None)]
  | ["rm"; "q"; i] -> [LReadMsg (MReq (Some (id_of i)))]
  | ["rm"; "p"; i; b] -> [LReadMsg (MResp { rs_id = id_of i; rs_body = body_of b })]
  | ["re"] -> [LReadErr]
  | ["wc"; c; w] -> [LWriteCall (nat c, w_of w)]
  | ["wn"; n; w] -> [LWriteNotify (nat n, w_of w)]
  | ["wr"; i; b; w] ->
      let r = { rs_id = id_of i; rs_body = body_of b } in
      List.map (fun t -> LWriteResp (t, r, w_of w)) (resp_writers s)
  | ["pb"; r] -> [LPreemptBegin (nat r)]
  | ["pr"; r; o] -> [LPreemptRet (nat r, out_of o)]
  | ["hb"; r] -> [LHandleBegin (nat r)]
  | ["hr"; r; o] -> [LHandleRet (nat r, out_of o)]
  | _ -> failwith ("token " ^ tok)

module SS = Set.Make (struct type t = state let compare = compare end)

exception Model_panic of string

let panic_name = function
  | PRetireTwice -> "retire-twice" | PNonIdleAfterDone -> "non-idle-after-done"
  | PIncomingZero -> "incoming-zero" | PNotifUnderflow -> "notif-underflow"

(* closure under the unlogged implementation steps *)
let closure (set : SS.t) : SS.t =
  let seen = ref set in
  let work = ref (SS.elements set) in
  while !work <> [] do
    match !work with
    | [] -> ()
    | s :: rest ->
        work := rest;
        List.iter (fun l ->
          match step s l with
          | Ok s' -> if not (SS.mem s' !seen) then begin seen := SS.add s' !seen; work := s' :: !work end
          | Panic p -> raise (Model_panic (panic_name p))
          | Disabled -> ()) (tau_labels s)
  done;
  !seen

let run_line (line : string) : string =
  let toks = List.filter (fun t -> t <> "") (String.split_on_char ' ' line) in
  match toks with
  | [] -> "EMPTY"
  | p :: evs ->
      let s0 = init (p = "P1") in
      let cur = ref (SS.singleton s0) in
      let maxn = ref 1 in
      let idx = ref 0 in
      (try
         cur := closure !cur;
         let res = ref None in
         List.iter (fun tok ->
           if !res = None then begin
             let next = ref SS.empty in
             SS.iter (fun s ->
               List.iter (fun l ->
                 match step s l with
                 | Ok s' -> next := SS.add s' !next
                 | Panic p -> raise (Model_panic (panic_name p))
                 | Disabled -> ()) (labels_of tok s)) !cur;
             if SS.is_empty !next then
               res := Some (Printf.sprintf "REJECT at=%d ev=%s states=%d" !idx tok (SS.cardinal !cur))
             else begin
               cur := closure !next;
               if SS.cardinal !cur > !maxn then maxn := SS.cardinal !cur;
               incr idx
             end
           end) evs;
         match !res with
         | Some r -> r
         | None ->
             let q = SS.exists (fun s -> quiescent s) !cur in
             let d = SS.exists (fun s -> s.s_done) !cur in
             Printf.sprintf "ACCEPT states=%d max=%d quiescent=%d done=%d" (SS.cardinal !cur) !maxn
               (if q then 1 else 0) (if d then 1 else 0)
       with
       | Model_panic p -> Printf.sprintf "MODELPANIC at=%d panic=%s" !idx p
       | Failure m -> Printf.sprintf "BADINPUT at=%d %s" !idx m)

let () =
  try while true do
    let line = input_line stdin in
    print_string (run_line line);
    print_newline ()
  done with End_of_file -> ()
