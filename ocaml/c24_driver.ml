(* C24 model runner.
   in : src_hex TAB toks TAB s1 TAB rimpl_hex TAB s2 TAB class(0/1)
        toks  = blank-separated  offset:token   (the real scanner's output up to EOF)
        s1    = result of format.Source(src, class):     "E" (error) or "O:<tag>"
        rimpl = bytes returned by the real RearrangeFuncs ("-" = empty, "!" = none/panic)
        s2    = result of format.Source(rimpl, class):   "E", "O:<tag>" or "?" (not evaluated)
        the model's Source answers only for the class flag of the line: asked with the other flag it is UNKNOWN
   out: tiling(T/F) TAB rearrange(OK hex|PANIC|OOF) TAB chunks TAB source_ex
        chunks    = NONE | pre_hex;F:hex,N:hex,...      (F = function declaration chunk)
        source_ex = E | O:<tag> | UNKNOWN (Source was asked about a string the harness did not evaluate) *)
open C24model
let rec pos_of_int n = if n = 1 then XH else if n land 1 = 0 then XO (pos_of_int (n lsr 1)) else XI (pos_of_int (n lsr 1))
let n_of_int n = if n = 0 then N0 else Npos (pos_of_int n)
let z_of_int n = if n = 0 then Z0 else if n > 0 then Zpos (pos_of_int n) else Zneg (pos_of_int (-n))
let rec int_of_pos = function XH -> 1 | XO p -> 2 * int_of_pos p | XI p -> 2 * int_of_pos p + 1
let int_of_n = function N0 -> 0 | Npos p -> int_of_pos p
let unhex s = if s = "-" || s = "" then [] else
  List.init (String.length s / 2) (fun i -> n_of_int (int_of_string ("0x" ^ String.sub s (2*i) 2)))
let hex l = if l = [] then "-" else begin
  let b = Buffer.create 64 in
  List.iter (fun z -> Buffer.add_string b (Printf.sprintf "%02x" (int_of_n z))) l; Buffer.contents b end
let str_of_string s = List.init (String.length s) (fun i -> n_of_int (Char.code s.[i]))
let string_of_str l = String.concat "" (List.map (fun z -> String.make 1 (Char.chr (int_of_n z))) l)
let parse_toks s =
  List.filter_map (fun f -> if f = "" then None else
    match String.split_on_char ':' f with
    | [a; b] -> Some { wpos = z_of_int (int_of_string a); wtok = z_of_int (int_of_string b) }
    | _ -> failwith ("bad token " ^ f)) (String.split_on_char ' ' s)
exception Unknown
let res_of = function
  | "E" -> None
  | s when String.length s >= 2 && String.sub s 0 2 = "O:" -> Some (str_of_string s)
  | _ -> raise Unknown
let () =
  try while true do
    let line = input_line stdin in
    (match String.split_on_char '\t' line with
     | [srch; toks; s1; rimpl; s2; cl] ->
       let cls = (cl = "1") in
       let src = unhex srch and toks = parse_toks toks in
       let til = tiling src toks in
       let r = rearrange src toks in
       let rs = match r with Ok o -> "OK " ^ hex o | Panic -> "PANIC" | OutOfFuel -> "OOF" in
       let ch = match top_chunks src toks with
         | Ok None -> "NONE"
         | Ok (Some (pre, cs)) ->
           hex pre ^ ";" ^ String.concat "," (List.map (fun (f, c) -> (if f then "F:" else "N:") ^ hex c) cs)
         | Panic -> "PANIC" | OutOfFuel -> "OOF" in
       let source s c =
         if c <> cls then raise Unknown
         else if s = src then res_of s1
         else if rimpl <> "!" && s = unhex rimpl then res_of s2
         else raise Unknown in
       let se = try (match source_ex source src cls toks with
           | Ok None -> "E"
           | Ok (Some t) -> string_of_str t
           | Panic -> "PANIC" | OutOfFuel -> "OOF") with Unknown -> "UNKNOWN" in
       print_string ((if til then "T" else "F") ^ "\t" ^ rs ^ "\t" ^ ch ^ "\t" ^ se)
     | _ -> print_string "BADLINE");
    print_newline ()
  done with End_of_file -> ()
