(* Model side of the M-EXPR correspondence (C22, C19, C20).  Same line protocol as harness/cmd/c22:
     P <TAB> ctx <TAB> tree   ->  tokens of (pr e) <TAB> tree of (norm e) <TAB> result of parse (pr e) <TAB> flags
                                  flags = v/- (validb) p/- (posokb) l/- (nolamb) n/- (noparb) a/- (noaddb)
     T <TAB> tok tok ...      ->  ERR | UNSUP | FUEL | tree
   A tree that uses a node kind outside the model gives "-" in every field. *)
open Exprmodel

let rec pos_of_int n = if n = 1 then XH else if n land 1 = 0 then XO (pos_of_int (n lsr 1)) else XI (pos_of_int (n lsr 1))
let n_of_int n = if n = 0 then N0 else Npos (pos_of_int n)
let z_of_int n = if n = 0 then Z0 else if n > 0 then Zpos (pos_of_int n) else Zneg (pos_of_int (-n))
let rec int_of_pos = function XH -> 1 | XO p -> 2 * int_of_pos p | XI p -> 2 * int_of_pos p + 1
let int_of_n = function N0 -> 0 | Npos p -> int_of_pos p
let int_of_z = function Z0 -> 0 | Zpos p -> int_of_pos p | Zneg p -> - (int_of_pos p)
let str_of s = List.init (String.length s) (fun i -> n_of_int (Char.code s.[i]))
let of_str l = String.concat "" (List.map (fun c -> String.make 1 (Char.chr (int_of_n c))) l)

(* ---- S-expressions ---- *)
type sx = A of string | L of string * sx list
exception Bad of string

let tokenize s =
  let out = ref [] and i = ref 0 and n = String.length s in
  while !i < n do
    let c = s.[!i] in
    if c = ' ' || c = '\t' then incr i
    else if c = '(' || c = ')' then (out := String.make 1 c :: !out; incr i)
    else begin
      let j = ref !i in
      while !j < n && s.[!j] <> ' ' && s.[!j] <> '\t' && s.[!j] <> '(' && s.[!j] <> ')' do incr j done;
      out := String.sub s !i (!j - !i) :: !out; i := !j
    end
  done;
  List.rev !out

let parse_sx s =
  let toks = ref (tokenize s) in
  let next () = match !toks with [] -> raise (Bad "eof") | t :: r -> toks := r; t in
  let rec one () =
    let t = next () in
    if t = ")" then raise (Bad ")")
    else if t <> "(" then A t
    else begin
      let h = next () in
      let args = ref [] in
      let rec loop () = match !toks with
        | ")" :: r -> toks := r
        | [] -> raise (Bad "missing )")
        | _ -> args := one () :: !args; loop () in
      loop ();
      L (h, List.rev !args)
    end in
  let r = one () in
  if !toks <> [] then raise (Bad "trailing");
  r

exception Outside

let atom = function A s -> s | _ -> raise (Bad "atom expected")
let zatom x = z_of_int (int_of_string (atom x))

let rec build = function
  | L ("id", [a]) -> EId (str_of (atom a))
  | L ("lit", [k; v]) -> ELit (zatom k, str_of (atom v))
  | L ("un", [o; x]) -> EUn (zatom o, build x)
  | L ("star", [x]) -> EStar (build x)
  | L ("bin", [o; x; y]) -> EBin (zatom o, build x, build y)
  | L ("par", [x]) -> EPar (build x)
  | L ("call", f :: args) -> ECall (build f, List.map build args, false)
  | L ("calle", f :: args) -> ECall (build f, List.map build args, true)
  | L ("idx", [x; i]) -> EIdx (build x, build i)
  | L ("sel", [x; n]) -> ESel (build x, str_of (atom n))
  | L ("ew", [t; x]) -> EEw (zatom t, build x)
  | L ("ewd", [t; x; d]) -> EEwd (zatom t, build x, build d)
  | L ("lam", p :: r :: rest) ->
      let rec split acc = function
        | A ":" :: rhs -> (List.rev acc, rhs)
        | A s :: t -> split (s :: acc) t
        | _ -> raise (Bad "lam") in
      let (names, rhs) = split [] rest in
      ELam (List.map str_of names, atom p = "1", List.map build rhs, atom r = "1")
  | L (_, _) -> raise Outside
  | A _ -> raise Outside

let rec show e =
  let l xs = String.concat "" (List.map (fun x -> " " ^ show x) xs) in
  match e with
  | EId s -> "(id " ^ of_str s ^ ")"
  | ELit (k, s) -> Printf.sprintf "(lit %d %s)" (int_of_z k) (of_str s)
  | EUn (o, x) -> Printf.sprintf "(un %d %s)" (int_of_z o) (show x)
  | EStar x -> "(star " ^ show x ^ ")"
  | EBin (o, x, y) -> Printf.sprintf "(bin %d %s %s)" (int_of_z o) (show x) (show y)
  | EPar x -> "(par " ^ show x ^ ")"
  | ECall (f, a, ell) -> "(" ^ (if ell then "calle " else "call ") ^ show f ^ l a ^ ")"
  | EIdx (x, i) -> "(idx " ^ show x ^ " " ^ show i ^ ")"
  | ESel (x, n) -> "(sel " ^ show x ^ " " ^ of_str n ^ ")"
  | EEw (t, x) -> Printf.sprintf "(ew %d %s)" (int_of_z t) (show x)
  | EEwd (t, x, d) -> Printf.sprintf "(ewd %d %s %s)" (int_of_z t) (show x) (show d)
  | ELam (lhs, lp, rhs, rp) ->
      "(lam " ^ (if lp then "1" else "0") ^ " " ^ (if rp then "1" else "0") ^
      String.concat "" (List.map (fun s -> " " ^ of_str s) lhs) ^ " :" ^ l rhs ^ ")"

let esc s = String.concat "\\s" (String.split_on_char ' ' s)
let unesc s = Str.global_replace (Str.regexp_string "\\s") " " s

let show_tok = function
  | TId s -> "4:" ^ esc (of_str s)
  | TLit (k, s) -> Printf.sprintf "%d:%s" (int_of_z k) (esc (of_str s))
  | TOp z -> string_of_int (int_of_z z)

let read_tok t =
  match String.index_opt t ':' with
  | Some i ->
      let k = int_of_string (String.sub t 0 i) and v = unesc (String.sub t (i + 1) (String.length t - i - 1)) in
      if k = 4 then TId (str_of v) else TLit (z_of_int k, str_of v)
  | None -> TOp (z_of_int (int_of_string t))

let show_res = function
  | ROk (PE e, []) -> show e
  | ROk (_, _) -> "ERR"
  | RErr -> "ERR"
  | RUnsup -> "UNSUP"
  | RFuel -> "FUEL"

let () =
  try while true do
    let line = input_line stdin in
    (match String.split_on_char '\t' line with
     | ["P"; _; tree] ->
         (try
            let e = build (parse_sx tree) in
            let ts = pr e in
            let fl b c = if b then c else "-" in
            print_string (String.concat " " (List.map show_tok ts) ^ "\t" ^ show (norm e) ^ "\t" ^ show_res (parse ts) ^ "\t" ^
                          fl (validb e) "v" ^ fl (posokb e) "p" ^ fl (nolamb e) "l" ^ fl (noparb e) "n" ^ fl (noaddb e) "a")
          with Outside -> print_string "-\t-\t-\t-" | Bad m -> print_string ("BADCASE " ^ m))
     | ["T"; toks] ->
         (try
            let ts = List.map read_tok (List.filter (fun s -> s <> "") (String.split_on_char ' ' toks)) in
            print_string (show_res (parse ts))
          with _ -> print_string "BADCASE")
     | _ -> print_string "BADCASE");
    print_newline ()
  done with End_of_file -> ()
