(* line protocol (one case per line):
     R <hex>            -> results of calling Read until the clean EOF:  P:<payload hex>@<total> | E:<kind>@<total> ...
     W <hex> <hex> ...  -> hex of the bytes the writer emits for these payloads, in order
   "-" = empty byte string *)
open C38model
let rec pos_of_int n = if n = 1 then XH else if n land 1 = 0 then XO (pos_of_int (n lsr 1)) else XI (pos_of_int (n lsr 1))
let n_of_int n = if n = 0 then N0 else Npos (pos_of_int n)
let rec int_of_pos = function XH -> 1 | XO p -> 2 * int_of_pos p | XI p -> 2 * int_of_pos p + 1
let int_of_n = function N0 -> 0 | Npos p -> int_of_pos p
let unhex s = if s = "-" then [] else
  List.init (String.length s / 2) (fun i -> n_of_int (int_of_string ("0x" ^ String.sub s (2*i) 2)))
let hex l = if l = [] then "-" else begin
  let b = Buffer.create 64 in
  List.iter (fun z -> Buffer.add_string b (Printf.sprintf "%02x" (int_of_n z))) l; Buffer.contents b end
let kind = function
  | EEOF -> "EOF" | EHdrEOF -> "HDR_EOF" | EHdrLine -> "HDR_LINE" | EHdrLength -> "HDR_LENGTH"
  | EHdrMissing -> "HDR_MISSING" | EBodyEOF -> "BODY_EOF" | EBodyShort -> "BODY_SHORT"
let show (r, n) = match r with
  | RPayload p -> "P:" ^ hex p ^ "@" ^ string_of_int (int_of_n n)
  | RErr e -> "E:" ^ kind e ^ "@" ^ string_of_int (int_of_n n)
let () =
  try while true do
    let line = input_line stdin in
    let fs = List.filter (fun s -> s <> "") (String.split_on_char ' ' line) in
    (match fs with
     | "R" :: [h] ->
       (match read_stream (unhex h) with
        | Ok l -> print_string (String.concat " " (List.map show l))
        | Panic -> print_string "PANIC"
        | OutOfFuel -> print_string "OUTOFFUEL")
     | "W" :: ps -> print_string (hex (write_stream (List.map unhex ps)))
     | _ -> print_string "BADCASE");
    print_newline ()
  done with End_of_file -> ()
