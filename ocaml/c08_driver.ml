(* line protocol: blank-separated items  X:<pathhex>:<namehex>,<namehex>,...  (XGo file) or
   G:<pathhex>:...  (Go file); "-" = empty name list.  Output: "E name@file<prev;..." when the
   model reports redeclarations, else "O name,name,..." (emission order). *)
open C08model
let rec pos_of_int n = if n = 1 then XH else if n land 1 = 0 then XO (pos_of_int (n lsr 1)) else XI (pos_of_int (n lsr 1))
let n_of_int n = if n = 0 then N0 else Npos (pos_of_int n)
let rec int_of_pos = function XH -> 1 | XO p -> 2 * int_of_pos p | XI p -> 2 * int_of_pos p + 1
let int_of_n = function N0 -> 0 | Npos p -> int_of_pos p
let unhex s = List.init (String.length s / 2) (fun i -> n_of_int (int_of_string ("0x" ^ String.sub s (2*i) 2)))
let show l = String.concat "" (List.map (fun z -> String.make 1 (Char.chr (int_of_n z))) l)
let () =
  try while true do
    let line = input_line stdin in
    let items = List.filter (fun s -> s <> "") (String.split_on_char ' ' line) in
    let xs = ref [] and gs = ref [] in
    List.iter (fun it ->
      match String.split_on_char ':' it with
      | [k; p; ns] ->
        let names = if ns = "-" then [] else List.map unhex (String.split_on_char ',' ns) in
        let f = (unhex p, names) in
        if k = "X" then xs := !xs @ [f] else gs := !gs @ [f]
      | _ -> ()) items;
    let (errs, order) = new_package !xs !gs in
    (match errs with
     | [] -> print_string ("O " ^ String.concat "," (List.map show order))
     | _ -> print_string ("E " ^ String.concat ";" (List.map (fun ((n, f), p) -> show n ^ "@" ^ show f ^ "<" ^ show p) errs)));
    print_newline ()
  done with End_of_file -> ()
