(* line protocol: <helper> TAB <payload> [TAB <expected>]   (see harness/cmd/c30/main.go) *)
open C30model
let rec pos_of_int n = if n = 1 then XH else if n land 1 = 0 then XO (pos_of_int (n lsr 1)) else XI (pos_of_int (n lsr 1))
let z_of_int n = if n = 0 then Z0 else if n > 0 then Zpos (pos_of_int n) else Zneg (pos_of_int (-n))
let rec int_of_pos = function XH -> 1 | XO p -> 2 * int_of_pos p | XI p -> 2 * int_of_pos p + 1
let int_of_z = function Z0 -> 0 | Zpos p -> int_of_pos p | Zneg p -> - (int_of_pos p)
let rec nat_of_int n = if n = 0 then O else S (nat_of_int (n-1))
let rec int_of_nat = function O -> 0 | S n -> 1 + int_of_nat n
let tail s = String.sub s 1 (String.length s - 1)

let rec parse ws = match ws with
  | "N" :: r -> (RNil, r)
  | "[" :: r -> let rec items ws acc = (match ws with
                  | "]" :: r' -> (RList (List.rev acc), r')
                  | _ -> let (x, r') = parse ws in items r' (x :: acc)) in items r []
  | "(A" :: op :: r -> let (x, r1) = parse r in let (y, r2) = parse r1 in
                       (match r2 with ")" :: r3 -> (RApp (nat_of_int (int_of_string op), x, y), r3) | _ -> failwith "bad sexpr")
  | w :: r when w.[0] = 'T' -> (RTok (nat_of_int (int_of_string (tail w))), r)
  | w :: r when w.[0] = 'V' -> (RVal (z_of_int (int_of_string (tail w))), r)
  | _ -> failwith "bad word"

let rec show = function
  | RNil -> "N"
  | RTok i -> "T" ^ string_of_int (int_of_nat i)
  | RVal z -> "V" ^ string_of_int (int_of_z z)
  | RList l -> "[" ^ String.concat "" (List.map (fun x -> " " ^ show x) l) ^ " ]"
  | RApp (op, x, y) -> "(A " ^ string_of_int (int_of_nat op) ^ " " ^ show x ^ " " ^ show y ^ " )"

let show_m = function Ok r -> "OK " ^ show r | Panic -> "PANIC" | OutOfFuel -> "OUTOFFUEL"
let aop_of = function "+" -> AAdd | "-" -> ASub | "*" -> AMul | "/" -> AQuo | _ -> failwith "bad op"

let () =
  try while true do
    let line = input_line stdin in
    let f = String.split_on_char '\t' line in
    let name = List.nth f 0 and payload = List.nth f 1 in
    let ws = List.filter (fun s -> s <> "") (String.split_on_char ' ' payload) in
    let out =
      if name = "calc" then begin
        let n0 = z_of_int (int_of_string (List.hd ws)) in
        let rec pairs = function
          | op :: n :: r -> (aop_of op, z_of_int (int_of_string n)) :: pairs r
          | [] -> [] | _ -> failwith "bad calc" in
        let rest = pairs (List.tl ws) in
        let a = show_m (calc n0 rest) in
        (* the reference evaluator of the model must agree as well (theorem C30_calc_correct) *)
        (match eval_ref n0 rest with
         | Some v when a = "OK V" ^ string_of_int (int_of_z v) -> a
         | _ -> a ^ " REF-DISAGREES")
      end else if name = "calcx" then "-"
      else begin
        let (r, _) = parse ws in
        let inp = (match r with RList l -> l | _ -> failwith "input must be a list") in
        match name with
        | "list" -> (match list_ inp with Ok l -> "OK " ^ show (RList l) | Panic -> "PANIC" | OutOfFuel -> "OUTOFFUEL")
        | "listop" -> (match list_op (fun v -> Ok v) inp with Ok l -> "OK " ^ show (RList l) | Panic -> "PANIC" | OutOfFuel -> "OUTOFFUEL")
        | "rangeop" -> let (tr, ok) = range_op inp in
                       "TRACE [" ^ String.concat " " (List.map show tr) ^ "] " ^ (if ok then "ok" else "panic")
        | "bopnr" -> show_m (bop_nr fn_sym inp)
        | "bopr" -> show_m (bop_r fn_sym r)
        | "bexprnr" -> show_m (bexpr_nr inp)
        | "bexprr" -> show_m (bexpr_r r)
        | _ -> "BADHELPER"
      end in
    print_string out; print_newline ()
  done with End_of_file -> ()
