(* C09 model runner.  One package per line, as an s-expression written by the harness:
     (prog DECL...)
     DECL  = (func g POS DOC shadow BODY) | (method g POS DOC BODY)
     POS   = - | file:line          DOC = - | file:line:skip
     BODY  = (STMT...)
     STMT  = (simple id POS PARTS) | (decl id POS DOC PARTS) | (block POS BODY)
           | (if id POS OSTMT PARTS BODY ELSE) | (for id POS OSTMT PARTS OSTMT BODY)
           | (range id POS PARTS BODY) | (phraseif id POS PARTS cid PARTS BODY)
           | (switch id POS OSTMT PARTS (CLAUSE...)) | (select POS (CLAUSE...)) | (labeled POS STMT)
     OSTMT = - | STMT        ELSE = - | (else BODY) | (elif STMT)
     PARTS = (PART...)       PART = (ref g) | (lit BODY) | (lam id PARTS)
     CLAUSE = (case id POS OSTMT PARTS BODY ft)
   A line (rel (b1 b2 ...) (t1 t2 ...)) asks for the directive file name of target t against base b: REL=<name>.
   Output, one line per package:
     guards=<0|1> ; per emitted function  F<g>=<lines> where a line is D<f>:<l>:<c> | O | C<id> ;
     then  P<g>.<id>=<f>:<l>  the position Go attributes to the first line tagged with a non-zero id,
     and   E<g>=<f>:<l>       the position Go attributes to the function header line. *)
open C09model

let rec pos_of_int n = if n = 1 then XH else if n land 1 = 0 then XO (pos_of_int (n lsr 1)) else XI (pos_of_int (n lsr 1))
let n_of_int n = if n = 0 then N0 else Npos (pos_of_int n)
let rec int_of_pos = function XH -> 1 | XO p -> 2 * int_of_pos p | XI p -> 2 * int_of_pos p + 1
let int_of_n = function N0 -> 0 | Npos p -> int_of_pos p
let rec nat_of_int n = if n <= 0 then O else S (nat_of_int (n - 1))

type sx = A of string | L of sx list

let parse (s : string) : sx =
  let n = String.length s in
  let i = ref 0 in
  let rec skip () = while !i < n && (s.[!i] = ' ' || s.[!i] = '\t') do incr i done
  and item () =
    skip ();
    if !i >= n then failwith "eof"
    else if s.[!i] = '(' then begin
      incr i;
      let acc = ref [] in
      let fin = ref false in
      while not !fin do
        skip ();
        if !i >= n then failwith "unclosed"
        else if s.[!i] = ')' then (incr i; fin := true)
        else acc := item () :: !acc
      done;
      L (List.rev !acc)
    end else begin
      let j = !i in
      while !i < n && s.[!i] <> ' ' && s.[!i] <> '(' && s.[!i] <> ')' do incr i done;
      A (String.sub s j (!i - j))
    end
  in
  item ()

let num = function A a -> n_of_int (int_of_string a) | _ -> failwith "num"
let posn = function
  | A "-" -> None
  | A a -> (match String.split_on_char ':' a with
            | [f; l] -> Some (n_of_int (int_of_string f), n_of_int (int_of_string l))
            | _ -> failwith "pos")
  | _ -> failwith "pos"
(* doc: (docpos, hasdoc, docskip) *)
let docn = function
  | A "-" -> (None, false, N0)
  | A a -> (match String.split_on_char ':' a with
            | [f; l; k] -> (Some (n_of_int (int_of_string f), n_of_int (int_of_string l)), true, n_of_int (int_of_string k))
            | _ -> failwith "doc")
  | _ -> failwith "doc"
let boolean = function A "1" -> true | A "0" -> false | _ -> failwith "bool"

let rec stmt = function
  | L [A "simple"; id; p; ps] -> SSimple (num id, posn p, parts ps)
  | L [A "decl"; id; p; d; ps] -> let (dp, hd, dk) = docn d in SDecl (num id, posn p, dp, hd, dk, parts ps)
  | L [A "block"; p; b] -> SBlock (posn p, body b)
  | L [A "if"; id; p; i; ps; b; e] -> SIf (num id, posn p, ostmt i, parts ps, body b, els e)
  | L [A "for"; id; p; i; ps; po; b] -> SFor (num id, posn p, ostmt i, parts ps, ostmt po, body b)
  | L [A "range"; id; p; ps; b] -> SRange (num id, posn p, parts ps, body b)
  | L [A "phraseif"; id; p; ps; cid; cps; b] -> SPhraseIf (num id, posn p, parts ps, num cid, parts cps, body b)
  | L [A "switch"; id; p; i; ps; cs] -> SSwitch (num id, posn p, ostmt i, parts ps, clauses cs)
  | L [A "select"; p; cs] -> SSelect (posn p, clauses cs)
  | L [A "labeled"; p; s] -> SLabeled (posn p, stmt s)
  | _ -> failwith "stmt"
and body = function
  | L l -> List.fold_right (fun s r -> SCons (stmt s, r)) l SNil
  | _ -> failwith "body"
and ostmt = function A "-" -> ONone | s -> OSome (stmt s)
and parts = function
  | L l -> List.fold_right (fun p r -> match p with
                                       | L [A "ref"; g] -> PRef (num g, r)
                                       | L [A "lit"; b] -> PLit (body b, r)
                                       | L [A "lam"; id; i] -> PLam (num id, parts i, r)
                                       | _ -> failwith "part") l PNil
  | _ -> failwith "parts"
and els = function
  | A "-" -> ENone
  | L [A "else"; b] -> EBlock (body b)
  | L [A "elif"; s] -> EIf (stmt s)
  | _ -> failwith "else"
and clauses = function
  | L l -> List.fold_right (fun c r -> match c with
                                       | L [A "case"; id; p; cm; ps; b; ft] ->
                                           CCons (num id, posn p, ostmt cm, parts ps, body b, boolean ft, r)
                                       | _ -> failwith "clause") l CNil
  | _ -> failwith "clauses"

let decl = function
  | L [A "func"; g; p; d; sh; b] -> let (dp, hd, dk) = docn d in DFunc (num g, posn p, dp, hd, dk, boolean sh, body b)
  | L [A "method"; g; p; d; b] -> let (dp, hd, dk) = docn d in DMethod (num g, posn p, dp, hd, dk, body b)
  | _ -> failwith "decl"

let prog = function
  | L (A "prog" :: ds) -> List.map decl ds
  | _ -> failwith "prog"

let show_line = function
  | Dir (f, l, c) -> Printf.sprintf "D%d:%d:%d" (int_of_n f) (int_of_n l) (if c then 1 else 0)
  | Doc -> "O"
  | Code (id, _) -> Printf.sprintf "C%d" (int_of_n id)

let show_pos = function
  | Some (f, l) -> Printf.sprintf "%d:%d" (int_of_n f) (int_of_n l)
  | None -> "-"

let () =
  try while true do
    let line = input_line stdin in
    (try
      match parse line with
      | L [A "rel"; L b; L t] ->
          (* file-name query: components are plain atoms *)
          let comp = function A a -> List.init (String.length a) (fun i -> n_of_int (Char.code a.[i])) | _ -> failwith "comp" in
          let r = rel_path (List.map comp b) (List.map comp t) in
          print_string ("REL=" ^ String.concat "/" (List.map (fun c -> String.concat "" (List.map (fun z -> String.make 1 (Char.chr (int_of_n z))) c)) r))
      | sx ->
      let pr = prog sx in
      let guards = nodupb (func_names pr) && wf_prog pr in
      let buf = Buffer.create 1024 in
      Buffer.add_string buf (Printf.sprintf "guards=%d" (if guards then 1 else 0));
      (match compile_prog (prog_fuel pr) pr with
       | Ok out ->
           List.iter (fun (g, ls) ->
             Buffer.add_string buf (Printf.sprintf " F%d=%s" (int_of_n g) (String.concat "," (List.map show_line ls)))) out;
           List.iter (fun (g, ls) ->
             let seen = Hashtbl.create 16 in
             List.iteri (fun i l -> match l with
               | Code (id, _) when int_of_n id <> 0 && not (Hashtbl.mem seen (int_of_n id)) ->
                   Hashtbl.add seen (int_of_n id) ();
                   Buffer.add_string buf (Printf.sprintf " P%d.%d=%s" (int_of_n g) (int_of_n id) (show_pos (go_line_of ls (nat_of_int i))))
               | _ -> ()) ls;
             (* function header: the first Code line *)
             let rec first i = function
               | [] -> ()
               | Code (_, _) :: _ -> Buffer.add_string buf (Printf.sprintf " E%d=%s" (int_of_n g) (show_pos (go_line_of ls (nat_of_int i))))
               | _ :: r -> first (i + 1) r in
             first 0 ls) out
       | Panic -> Buffer.add_string buf " PANIC"
       | OutOfFuel -> Buffer.add_string buf " OUTOFFUEL");
      print_string (Buffer.contents buf)
    with Failure m -> print_string ("BADINPUT " ^ m));
    print_newline ()
  done with End_of_file -> ()
