(* model side of the C17 correspondence.
   line protocol: one exported file tree per line (harness/internal/astx syntax, see c18_driver.ml)
   ->  "<id>:<pos_of>:<end_of>" per node in order of first occurrence ("P" = the model panics) *)
module M = C17model

let rec pos_of_int n = if n = 1 then M.XH else if n land 1 = 0 then M.XO (pos_of_int (n lsr 1)) else M.XI (pos_of_int (n lsr 1))
let n_of_int n = if n = 0 then M.N0 else M.Npos (pos_of_int n)
let z_of_int n = if n = 0 then M.Z0 else if n > 0 then M.Zpos (pos_of_int n) else M.Zneg (pos_of_int (-n))
let rec int_of_pos = function M.XH -> 1 | M.XO p -> 2 * int_of_pos p | M.XI p -> 2 * int_of_pos p + 1
let int_of_n = function M.N0 -> 0 | M.Npos p -> int_of_pos p

let ascii_of_char c =
  let b i = (Char.code c lsr i) land 1 = 1 in
  M.Ascii (b 0, b 1, b 2, b 3, b 4, b 5, b 6, b 7)
let cstr_raw (s : string) : M.string =
  let r = ref M.EmptyString in
  for i = String.length s - 1 downto 0 do r := M.String (ascii_of_char s.[i], !r) done; !r
let memo : (string, M.string) Hashtbl.t = Hashtbl.create 512
let cstr s = match Hashtbl.find_opt memo s with Some x -> x | None -> let x = cstr_raw s in Hashtbl.add memo s x; x

exception Syntax of string

let parse (s : string) : M.node =
  let i = ref 0 in
  let n = String.length s in
  let peek () = if !i < n then s.[!i] else '\000' in
  let eat c = if peek () = c then incr i else raise (Syntax (Printf.sprintf "expected %c at %d" c !i)) in
  let ident () =
    let j = !i in
    while !i < n && (match s.[!i] with 'a'..'z' | 'A'..'Z' | '0'..'9' | '_' -> true | _ -> false) do incr i done;
    String.sub s j (!i - j) in
  let int () =
    let j = !i in
    if peek () = '-' then incr i;
    while !i < n && (match s.[!i] with '0'..'9' -> true | _ -> false) do incr i done;
    int_of_string (String.sub s j (!i - j)) in
  let rec node () =
    eat '(';
    let k = ident () in
    eat ' ';
    let id = int () in
    let fs = ref [] in
    while peek () = ' ' do
      incr i;
      let f = ident () in
      eat '=';
      let v = value () in
      fs := (cstr f, v) :: !fs
    done;
    eat ')';
    M.Node (n_of_int id, cstr k, List.rev !fs)
  and value () =
    match peek () with
    | 'p' -> incr i; M.VPos (z_of_int (int ()))
    | 't' -> incr i; M.VTok (z_of_int (int ()))
    | 's' -> incr i;
      let j = !i in
      while !i < n && (match s.[!i] with '0'..'9' | 'a'..'f' -> true | _ -> false) do incr i done;
      let h = String.sub s j (!i - j) in
      let b = Bytes.create (String.length h / 2) in
      for x = 0 to Bytes.length b - 1 do Bytes.set b x (Char.chr (int_of_string ("0x" ^ String.sub h (2 * x) 2))) done;
      M.VStr (cstr_raw (Bytes.to_string b))
    | 'b' -> incr i; let c = peek () in incr i; M.VBool (c = '1')
    | 'o' -> incr i; M.VOther
    | '~' -> incr i; M.VNil
    | '(' -> M.VNode (node ())
    | '<' -> incr i; let r = node () in eat '>'; M.VRec r
    | '[' -> incr i;
      let l = ref [] in
      if peek () = ']' then (incr i; M.VList [])
      else begin
        l := [value ()];
        while peek () = ' ' do incr i; l := value () :: !l done;
        eat ']';
        M.VList (List.rev !l)
      end
    | c -> raise (Syntax (Printf.sprintf "unexpected %c at %d" c !i))
  in
  let t = node () in
  if !i <> n then raise (Syntax "trailing input");
  t


let nid = function M.Node (i, _, _) -> int_of_n i
let rec int_of_z = function M.Z0 -> 0 | M.Zpos p -> int_of_pos p | M.Zneg p -> - (int_of_pos p)
let rec nat_of_int n acc = if n <= 0 then acc else nat_of_int (n - 1) (M.S acc)

let () =
  let buf = Buffer.create 65536 in
  let fuel = nat_of_int 20000 M.O in   (* the recursion follows one child per level: depth of the tree *)
  try while true do
    let line = input_line stdin in
    let t = parse line in
    Buffer.clear buf;
    let seen = Hashtbl.create 1024 in
    List.iter (fun n ->
        let id = nid n in
        if not (Hashtbl.mem seen id) then begin
          Hashtbl.add seen id ();
          if Buffer.length buf > 0 then Buffer.add_char buf ' ';
          let p = M.pe M.pos_bodies M.xgo_tokens M.implicit_base fuel true n in
          let e = M.pe M.pos_bodies M.xgo_tokens M.implicit_base fuel false n in
          (match p, e with
           | M.Ok a, M.Ok b -> Buffer.add_string buf (Printf.sprintf "%d:%d:%d" id (int_of_z a) (int_of_z b))
           | M.OutOfFuel, _ | _, M.OutOfFuel -> Buffer.add_string buf (Printf.sprintf "%d:F" id)
           | _ -> Buffer.add_string buf (Printf.sprintf "%d:P" id))
        end) (M.subnodes t);
    print_string (Buffer.contents buf);
    print_newline ()
  done with End_of_file -> ()
