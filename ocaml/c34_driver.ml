(* line protocol (blank-separated):
     D <go_as_x 0|1> <filter 0|1> <ck d|t> <entry> ...
        entry = namehex:dir:infook:filt:ckproj:ckok:XP:XC:GO     (hex "" allowed after the tag)
        XP, XC = <file>/<err>   file = n (nil) | u (no Name) | s<pkg hex>      GO = - | s<pkg hex>
        ck d = defaultClassKind of the model, t = the table (name -> ckproj,ckok) given by the entries
        -> pkghex=[filehex/kind,...];...  ERR=0|1      (packages and files sorted; kind = go | x<proj><class><normalgox>)
     E <ck d|t> namehex ckproj ckok    ->  UNKNOWN | x<proj><class><normalgox>            (ParseFSEntry) *)
open C34model
let rec pos_of_int n = if n = 1 then XH else if n land 1 = 0 then XO (pos_of_int (n lsr 1)) else XI (pos_of_int (n lsr 1))
let n_of_int n = if n = 0 then N0 else Npos (pos_of_int n)
let rec int_of_pos = function XH -> 1 | XO p -> 2 * int_of_pos p | XI p -> 2 * int_of_pos p + 1
let int_of_n = function N0 -> 0 | Npos p -> int_of_pos p
let unhex s = List.init (String.length s / 2) (fun i -> n_of_int (int_of_string ("0x" ^ String.sub s (2*i) 2)))
let hex l = String.concat "" (List.map (fun z -> Printf.sprintf "%02x" (int_of_n z)) l)
let tail s = String.sub s 1 (String.length s - 1)
let xout s = match String.split_on_char '/' s with
  | [f; e] ->
    let file = if f = "n" then None else if f = "u" then Some None else Some (Some (unhex (tail f))) in
    (file, e = "1")
  | _ -> failwith ("bad xout " ^ s)
let b s = s = "1"
let bit x = if x then "1" else "0"
let kind = function KGo -> "go" | KX (p, c, n) -> "x" ^ bit p ^ bit c ^ bit n
let () =
  try while true do
    let line = input_line stdin in
    (match List.filter (fun s -> s <> "") (String.split_on_char ' ' line) with
     | "D" :: gx :: flt :: ck :: ents ->
       let table = ref [] in
       let entry s = match String.split_on_char ':' s with
         | [n; d; io; fl; cp; co; xp; xc; go] ->
           let name = unhex n in
           table := (name, (b cp, b co)) :: !table;
           { f_name = name; f_dir = b d; f_info_ok = b io; f_filt = b fl; f_x_plain = xout xp; f_x_class = xout xc;
             f_go = (if go = "-" then None else Some (unhex (tail go))) }
         | _ -> failwith ("bad entry " ^ s) in
       let l = List.map entry ents in
       let tbl = !table in
       let ckf = if ck = "d" then default_class_kind else (fun name -> try List.assoc name tbl with Not_found -> (false, false)) in
       let c = { c_ck = ckf; c_filter = b flt; c_go_as_x = b gx } in
       let (m, err) = parse_dir c l in
       let pk (k, its) =
         let fs = List.sort compare (List.map (fun it -> hex it.i_file ^ "/" ^ kind it.i_kind) its) in
         (hex k, hex k ^ "=[" ^ String.concat "," fs ^ "]") in
       let ps = List.sort compare (List.map (fun x -> snd (pk x)) m) in
       print_string (String.concat ";" ps ^ " ERR=" ^ bit err)
     | ["E"; ck; n; cp; co] ->
       let name = unhex n in
       let ckf = if ck = "d" then default_class_kind else (fun _ -> (b cp, b co)) in
       (match classify_entry ckf name with
        | None -> print_string "UNKNOWN"
        | Some ((p, c), n) -> print_string ("x" ^ bit p ^ bit c ^ bit n))
     | _ -> print_string "BADCASE");
    print_newline ()
  done with End_of_file -> ()
