(* line protocol, blank-separated fields, one listing per line:
     <classes: hex,hex,... or -> <self: - or govhex:xgovhex> <entries: namehex:d:ok:size:mtime,... or ->
   d, ok in {0,1}; size and mtime decimal (mtime may be negative)
   output:  <fingerprint text hex> TAB <view: namehex:size:mtime,...>   *)
open C36model
let rec pos_of_int n = if n = 1 then XH else if n land 1 = 0 then XO (pos_of_int (n lsr 1)) else XI (pos_of_int (n lsr 1))
let n_of_int n = if n = 0 then N0 else Npos (pos_of_int n)
(* int64 values (sizes, UnixNano) go through Int64: OCaml's native int has only 63 bits *)
let rec pos_of_u64 (n : int64) =   (* n <> 0, read as unsigned *)
  if Int64.equal n 1L then XH
  else if Int64.equal (Int64.logand n 1L) 0L then XO (pos_of_u64 (Int64.shift_right_logical n 1))
  else XI (pos_of_u64 (Int64.shift_right_logical n 1))
let z_of_string s =
  let n = Int64.of_string s in
  if Int64.equal n 0L then Z0 else if Int64.compare n 0L > 0 then Zpos (pos_of_u64 n) else Zneg (pos_of_u64 (Int64.neg n))
let rec u64_of_pos = function XH -> 1L | XO p -> Int64.shift_left (u64_of_pos p) 1 | XI p -> Int64.logor (Int64.shift_left (u64_of_pos p) 1) 1L
let string_of_z = function Z0 -> "0" | Zpos p -> Printf.sprintf "%Lu" (u64_of_pos p) | Zneg p -> "-" ^ Printf.sprintf "%Lu" (u64_of_pos p)
let rec int_of_pos = function XH -> 1 | XO p -> 2 * int_of_pos p | XI p -> 2 * int_of_pos p + 1
let int_of_n = function N0 -> 0 | Npos p -> int_of_pos p
let unhex s = if s = "-" then [] else
  List.init (String.length s / 2) (fun i -> n_of_int (int_of_string ("0x" ^ String.sub s (2*i) 2)))
let hex l = if l = [] then "-" else begin
  let b = Buffer.create 64 in
  List.iter (fun z -> Buffer.add_string b (Printf.sprintf "%02x" (int_of_n z))) l; Buffer.contents b end
let split c s = if s = "-" then [] else String.split_on_char c s
let entry s = match String.split_on_char ':' s with
  | [n; d; ok; sz; mt] -> { e_name = unhex n; e_dir = (d = "1"); e_info_ok = (ok = "1");
                            e_size = z_of_string sz; e_mtime = z_of_string mt }
  | _ -> failwith ("bad entry " ^ s)
let () =
  try while true do
    let line = input_line stdin in
    (match List.filter (fun s -> s <> "") (String.split_on_char ' ' line) with
     | [cl; self; ents] ->
       let classes = List.map unhex (split ',' cl) in
       let self = if self = "-" then None else
           (match String.split_on_char ':' self with [a; b] -> Some (unhex a, unhex b) | _ -> failwith "bad self") in
       let l = List.map entry (split ',' ents) in
       let v = view classes l in
       print_string (hex (fingerprint classes self l));
       print_string "\t";
       print_string (if v = [] then "-" else String.concat "," (List.map (fun ((n, s), m) ->
         Printf.sprintf "%s:%s:%s" (hex n) (string_of_z s) (string_of_z m)) v))
     | _ -> print_string "BADCASE");
    print_newline ()
  done with End_of_file -> ()
