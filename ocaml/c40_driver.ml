(* C40 model runner.  One trace per line:
     <nthreads> <label> <label> ...
   labels:  F<i>:<d>  call FileChanged(dir d) on thread i      G<i>  call Fetch on thread i
            t<i>      thread i executes its next statement      k<i>:<d>  thread i's take statement yields d
            r<i>      thread i returns                          Q     observation point (no transition)
   Output:  OK <events> | changed=<d,d,..> | parked=<i,i,..> | quiescent=<0|1>
        or  REJ@<index>:<label> <events so far>
   events (the projection compared with the recorded history of the implementation):
            F<i>:<d>  G<i>  f<i> (FileChanged returned)  g<i>:<d> (Fetch returned d; "-" = zero value)
            Q[parked=<i,i,..>;stuck=<0|1>;empty=<0|1>]
   Every transition is decided by the extracted gstep. *)
open C40model
let rec pos_of_int n = if n = 1 then XH else if n land 1 = 0 then XO (pos_of_int (n lsr 1)) else XI (pos_of_int (n lsr 1))
let n_of_int n = if n = 0 then N0 else Npos (pos_of_int n)
let rec int_of_pos = function XH -> 1 | XO p -> 2 * int_of_pos p | XI p -> 2 * int_of_pos p + 1
let int_of_n = function N0 -> 0 | Npos p -> int_of_pos p
let rec nat_of_int n = if n = 0 then O else S (nat_of_int (n - 1))

let parked_list s =
  let rec go i = function [] -> [] | p :: t -> if is_parked p then i :: go (i + 1) t else go (i + 1) t in
  go 0 s.thr
let ints l = String.concat "," (List.map string_of_int l)
let b2s b = if b then "1" else "0"

let split2 s = (* "<i>:<d>" *)
  match String.index_opt s ':' with
  | Some k -> (int_of_string (String.sub s 0 k), int_of_string (String.sub s (k + 1) (String.length s - k - 1)))
  | None -> failwith ("bad label arg " ^ s)

let () =
  try while true do
    let line = input_line stdin in
    let toks = List.filter (fun s -> s <> "") (String.split_on_char ' ' line) in
    (match toks with
     | [] -> print_string "EMPTY"
     | n :: labels ->
       let s = ref (init (nat_of_int (int_of_string n))) in
       let evs = Buffer.create 256 in
       let add e = if Buffer.length evs > 0 then Buffer.add_char evs ' '; Buffer.add_string evs e in
       let rej = ref None in
       List.iteri (fun idx lab ->
         if !rej = None then begin
           let c = lab.[0] and rest = String.sub lab 1 (String.length lab - 1) in
           let doit l after =
             match gstep !s l with
             | Some s' -> after (); s := s'
             | None -> rej := Some (idx, lab) in
           match c with
           | 'F' -> let (i, d) = split2 rest in
             doit (LCallF (nat_of_int i, n_of_int d)) (fun () -> add (Printf.sprintf "F%d:%d" i d))
           | 'G' -> let i = int_of_string rest in
             doit (LCallG (nat_of_int i)) (fun () -> add (Printf.sprintf "G%d" i))
           | 't' -> let i = int_of_string rest in doit (LTau (nat_of_int i)) (fun () -> ())
           | 'k' -> let (i, d) = split2 rest in doit (LTake (nat_of_int i, n_of_int d)) (fun () -> ())
           | 'r' -> let i = int_of_string rest in
             let rv = gret_val !s (nat_of_int i) in
             doit (LRet (nat_of_int i)) (fun () ->
               match rv with
               | Some (Some d) -> add (Printf.sprintf "g%d:%d" i (int_of_n d))
               | Some None -> add (Printf.sprintf "g%d:-" i)
               | None -> add (Printf.sprintf "f%d" i))
           | 'Q' -> add (Printf.sprintf "Q[parked=%s;stuck=%s;empty=%s]" (ints (parked_list !s))
                           (b2s (quiescent !s)) (b2s (!s.changed = [])))
           | _ -> rej := Some (idx, lab)
         end) labels;
       (match !rej with
        | Some (idx, lab) -> print_string (Printf.sprintf "REJ@%d:%s %s" idx lab (Buffer.contents evs))
        | None ->
          let ch = List.sort compare (List.map int_of_n !s.changed) in
          print_string (Printf.sprintf "OK %s | changed=%s | parked=%s | quiescent=%s"
                          (Buffer.contents evs) (ints ch) (ints (parked_list !s)) (b2s (quiescent !s)))));
    print_newline ()
  done with End_of_file -> ()
