(* C26 model runner.  One case per line:   <reg|sym> <mode octal> <oldlen> <newlen> <bare 0|1>
   (content bytes are abstract: old = oldlen times 1, new = newlen times 2).  Output: the trace of the fault-free
   run of the EXTRACTED run_wfb in the syntax the check derives from strace, then for every crash point
   k = 0..len the state of the path:
     create:600:<samedir|otherdir> write:<n> stat:<follow|nofollow> fchmod:<mode> close rename | <k>=<old|new|other>:<mode> ... *)
open C26model
let rec pos_of_int n = if n = 1 then XH else if n land 1 = 0 then XO (pos_of_int (n lsr 1)) else XI (pos_of_int (n lsr 1))
let n_of_int n = if n = 0 then N0 else Npos (pos_of_int n)
let rec int_of_pos = function XH -> 1 | XO p -> 2 * int_of_pos p | XI p -> 2 * int_of_pos p + 1
let int_of_n = function N0 -> 0 | Npos p -> int_of_pos p
let rec nat_of_int n = if n = 0 then O else S (nat_of_int (n - 1))
let rec replicate n x = if n = 0 then [] else x :: replicate (n - 1) x
let oct n = Printf.sprintf "%o" n
let show = function
  | SysCreate (_, _, sd) -> if sd then "create:600:samedir" else "create:600:otherdir"
  | SysWrite (_, c) -> Printf.sprintf "write:%d" (List.length c)
  | SysFchmod (_, m) -> "fchmod:" ^ oct (int_of_n m)
  | SysClose _ -> "close"
  | SysUnlink n -> if int_of_n n = 3 then "unlink:tmp" else if int_of_n n = 1 then "unlink:path" else "unlink:other"
  | SysRename (a, b) -> if int_of_n a = 3 && int_of_n b = 1 then "rename" else "rename:other"
  | SysStat (f, _) -> if f then "stat:follow" else "stat:nofollow"
let () =
  try while true do
    let line = input_line stdin in
    (match List.filter (fun s -> s <> "") (String.split_on_char ' ' line) with
     | [kind; mode; ol; nl; bare] ->
       let m = int_of_string ("0o" ^ mode) and ol = int_of_string ol and nl = int_of_string nl in
       let oldc = replicate ol (n_of_int 1) and newc = replicate nl (n_of_int 2) in
       let s0 = (if kind = "sym" then fs_symlink else fs_regular) oldc (n_of_int m) in
       let e = env0 newc (bare = "1") and fl = no_faults newc in
       let r = run_wfb e fl s0 in
       let tr = r.trace in
       let st k =
         match read (crash_state e fl s0 (nat_of_int k)) (n_of_int 1) with
         | Some (c, md) -> (if c = oldc then "old" else if c = newc then "new" else "other") ^ ":" ^ oct (int_of_n md)
         | None -> "missing" in
       let pts = List.init (List.length tr + 1) (fun k -> Printf.sprintf "%d=%s" k (st k)) in
       Printf.printf "%s | %s | err=%b\n" (String.concat " " (List.map show tr)) (String.concat " " pts) r.err
     | _ -> print_string "BADLINE\n")
  done with End_of_file -> ()
