(* line protocol: one token stream per line, blank-separated words:
     i<hex> IDENT   c<hex> CHAR   s<hex> STRING   * + ? % ++ | ( ) = ; => { }   o<code> other
   output: "<nerr> <rule> <rule> ..." with rule = (rule <hexname> <expr>) *)
open C31model
let rec pos_of_int n = if n = 1 then XH else if n land 1 = 0 then XO (pos_of_int (n lsr 1)) else XI (pos_of_int (n lsr 1))
let n_of_int n = if n = 0 then N0 else Npos (pos_of_int n)
let rec int_of_pos = function XH -> 1 | XO p -> 2 * int_of_pos p | XI p -> 2 * int_of_pos p + 1
let int_of_n = function N0 -> 0 | Npos p -> int_of_pos p
let rec int_of_nat = function O -> 0 | S n -> 1 + int_of_nat n
let unhex s = if s = "-" then [] else
  List.init (String.length s / 2) (fun i -> n_of_int (int_of_string ("0x" ^ String.sub s (2*i) 2)))
let hex l = if l = [] then "-" else String.concat "" (List.map (fun z -> Printf.sprintf "%02x" (int_of_n z)) l)
let tail s = String.sub s 1 (String.length s - 1)
let tok_of w = match w with
  | "*" -> TU UMul | "+" -> TU UAdd | "?" -> TU UQuest | "%" -> TB BRem | "++" -> TB BInc
  | "|" -> TOr | "(" -> TLP | ")" -> TRP | "=" -> TAssign | ";" -> TSemi | "=>" -> TArrow
  | "{" -> TLB | "}" -> TRB
  | _ -> (match w.[0] with
          | 'i' -> TIdent (unhex (tail w))
          | 'c' -> TLit (true, unhex (tail w))
          | 's' -> TLit (false, unhex (tail w))
          | 'o' -> TOther (n_of_int (int_of_string (tail w)))
          | _ -> failwith ("bad token " ^ w))
let rec show = function
  | EIdent s -> "I" ^ hex s
  | ELit (k, s) -> (if k then "C" else "S") ^ hex s
  | EUn (o, x) -> "(u" ^ (match o with UMul -> "*" | UAdd -> "+" | UQuest -> "?") ^ " " ^ show x ^ ")"
  | EBin (o, x, y) -> "(" ^ (match o with BRem -> "%" | BInc -> "++") ^ " " ^ show x ^ " " ^ show y ^ ")"
  | ESeq l -> "(seq" ^ String.concat "" (List.map (fun x -> " " ^ show x) l) ^ ")"
  | EChoice l -> "(alt" ^ String.concat "" (List.map (fun x -> " " ^ show x) l) ^ ")"
  | ENil -> "nil"
let () =
  try while true do
    let line = input_line stdin in
    let ws = List.filter (fun s -> s <> "") (String.split_on_char ' ' line) in
    let ts = List.map tok_of ws in
    (match parse_file ts with
     | Ok (rs, n) ->
       print_string (string_of_int (int_of_nat n));
       List.iter (fun (name, e) -> print_string (" (rule " ^ hex name ^ " " ^ show e ^ ")")) rs
     | Panic -> print_string "PANIC"
     | OutOfFuel -> print_string "OUTOFFUEL");
    print_newline ()
  done with End_of_file -> ()
