(* Model side of the C21 merge correspondence; same line protocol as harness/cmd/c21:
     n  off:kinds off:kinds ...   ->   T:<token text> | C:<comment text> ...
   The item stream of the call f(a0, ..., a(n-1)) is the one printer/nodes.go produces (expr1 CallExpr, exprList
   single-line branch): f@10 (semicolon implied after an identifier), "("@20, a0@30, then for every further argument
   ","@pos(next argument), a blank, the argument; ")"@(30+20n) (semicolon implied after ")"). *)
open C21model

let rec pos_of_int n = if n = 1 then XH else if n land 1 = 0 then XO (pos_of_int (n lsr 1)) else XI (pos_of_int (n lsr 1))
let n_of_int n = if n = 0 then N0 else Npos (pos_of_int n)
let z_of_int n = if n = 0 then Z0 else if n > 0 then Zpos (pos_of_int n) else Zneg (pos_of_int (-n))
let rec int_of_pos = function XH -> 1 | XO p -> 2 * int_of_pos p | XI p -> 2 * int_of_pos p + 1
let int_of_n = function N0 -> 0 | Npos p -> int_of_pos p
let str_of s = List.init (String.length s) (fun i -> n_of_int (Char.code s.[i]))
let of_str l = String.concat "" (List.map (fun c -> String.make 1 (Char.chr (int_of_n c))) l)

let () =
  try while true do
    let line = input_line stdin in
    (try
      match List.filter (fun s -> s <> "") (String.split_on_char ' ' line) with
      | [] -> print_string "BADCASE"
      | ns :: gs ->
        let n = int_of_string ns in
        let items = ref [ITok (z_of_int 10, str_of "f", true); ITok (z_of_int 20, str_of "(", false)] in
        for i = 0 to n - 1 do
          let p = z_of_int (30 + 20 * i) in
          if i > 0 then items := !items @ [ITok (p, str_of ",", false); IWs false];
          items := !items @ [ITok (p, str_of (Printf.sprintf "a%d" i), true)]
        done;
        items := !items @ [ITok (z_of_int (30 + 20 * n), str_of ")", true)];
        let k = ref 0 in
        let groups = List.map (fun g ->
          let i = String.index g ':' in
          let off = int_of_string (String.sub g 0 i) in
          let kinds = String.sub g (i + 1) (String.length g - i - 1) in
          let texts = List.init (String.length kinds) (fun j ->
            let t = if kinds.[j] = 'l' then Printf.sprintf "//c%d" !k else Printf.sprintf "/*c%d*/" !k in
            incr k; str_of t) in
          (* commentsHaveNewline: a //-style comment (the group is on one line) *)
          { g_off = z_of_int off; g_nl = String.contains kinds 'l'; g_texts = texts }) gs in
        let out = print_all !items groups in
        print_string (String.concat " " (List.map (function OTok t -> "T:" ^ of_str t | OCom t -> "C:" ^ of_str t) out))
    with _ -> print_string "BADCASE");
    print_newline ()
  done with End_of_file -> ()
