(* model side of the C37 correspondence.
   line protocol: one exported Go file tree per line (harness/internal/astx syntax, see c18_driver.ml)
   ->  "<go_ok>\t<to(from(t)) | PANIC | OUTOFFUEL>\t<strip t>"  with trees printed in the same syntax *)
module M = C37model

let rec pos_of_int n = if n = 1 then M.XH else if n land 1 = 0 then M.XO (pos_of_int (n lsr 1)) else M.XI (pos_of_int (n lsr 1))
let n_of_int n = if n = 0 then M.N0 else M.Npos (pos_of_int n)
let z_of_int n = if n = 0 then M.Z0 else if n > 0 then M.Zpos (pos_of_int n) else M.Zneg (pos_of_int (-n))
let rec int_of_pos = function M.XH -> 1 | M.XO p -> 2 * int_of_pos p | M.XI p -> 2 * int_of_pos p + 1
let int_of_n = function M.N0 -> 0 | M.Npos p -> int_of_pos p

let ascii_of_char c =
  let b i = (Char.code c lsr i) land 1 = 1 in
  M.Ascii (b 0, b 1, b 2, b 3, b 4, b 5, b 6, b 7)
let cstr_raw (s : string) : M.string =
  let r = ref M.EmptyString in
  for i = String.length s - 1 downto 0 do r := M.String (ascii_of_char s.[i], !r) done; !r
let memo : (string, M.string) Hashtbl.t = Hashtbl.create 512
let cstr s = match Hashtbl.find_opt memo s with Some x -> x | None -> let x = cstr_raw s in Hashtbl.add memo s x; x

exception Syntax of string

let parse (s : string) : M.node =
  let i = ref 0 in
  let n = String.length s in
  let peek () = if !i < n then s.[!i] else '\000' in
  let eat c = if peek () = c then incr i else raise (Syntax (Printf.sprintf "expected %c at %d" c !i)) in
  let ident () =
    let j = !i in
    while !i < n && (match s.[!i] with 'a'..'z' | 'A'..'Z' | '0'..'9' | '_' -> true | _ -> false) do incr i done;
    String.sub s j (!i - j) in
  let int () =
    let j = !i in
    if peek () = '-' then incr i;
    while !i < n && (match s.[!i] with '0'..'9' -> true | _ -> false) do incr i done;
    int_of_string (String.sub s j (!i - j)) in
  let rec node () =
    eat '(';
    let k = ident () in
    eat ' ';
    let id = int () in
    let fs = ref [] in
    while peek () = ' ' do
      incr i;
      let f = ident () in
      eat '=';
      let v = value () in
      fs := (cstr f, v) :: !fs
    done;
    eat ')';
    M.Node (n_of_int id, cstr k, List.rev !fs)
  and value () =
    match peek () with
    | 'p' -> incr i; M.VPos (z_of_int (int ()))
    | 't' -> incr i; M.VTok (z_of_int (int ()))
    | 's' -> incr i;
      let j = !i in
      while !i < n && (match s.[!i] with '0'..'9' | 'a'..'f' -> true | _ -> false) do incr i done;
      let h = String.sub s j (!i - j) in
      let b = Bytes.create (String.length h / 2) in
      for x = 0 to Bytes.length b - 1 do Bytes.set b x (Char.chr (int_of_string ("0x" ^ String.sub h (2 * x) 2))) done;
      M.VStr (cstr_raw (Bytes.to_string b))
    | 'b' -> incr i; let c = peek () in incr i; M.VBool (c = '1')
    | 'o' -> incr i; M.VOther
    | '~' -> incr i; M.VNil
    | '(' -> M.VNode (node ())
    | '<' -> incr i; let r = node () in eat '>'; M.VRec r
    | '[' -> incr i;
      let l = ref [] in
      if peek () = ']' then (incr i; M.VList [])
      else begin
        l := [value ()];
        while peek () = ' ' do incr i; l := value () :: !l done;
        eat ']';
        M.VList (List.rev !l)
      end
    | c -> raise (Syntax (Printf.sprintf "unexpected %c at %d" c !i))
  in
  let t = node () in
  if !i <> n then raise (Syntax "trailing input");
  t


let ostr (s : M.string) : string =
  let b = Buffer.create 16 in
  let rec go = function
    | M.EmptyString -> ()
    | M.String (M.Ascii (b0, b1, b2, b3, b4, b5, b6, b7), r) ->
      let bit x i = if x then 1 lsl i else 0 in
      Buffer.add_char b (Char.chr (bit b0 0 + bit b1 1 + bit b2 2 + bit b3 3 + bit b4 4 + bit b5 5 + bit b6 6 + bit b7 7));
      go r in
  go s; Buffer.contents b

let rec int_of_z = function M.Z0 -> 0 | M.Zpos p -> int_of_pos p | M.Zneg p -> - (int_of_pos p)

let hexs (s : string) : string =
  let b = Buffer.create (2 * String.length s) in
  String.iter (fun c -> Buffer.add_string b (Printf.sprintf "%02x" (Char.code c))) s; Buffer.contents b

let rec pnode b (M.Node (i, k, fs)) =
  Buffer.add_char b '('; Buffer.add_string b (ostr k); Buffer.add_char b ' ';
  Buffer.add_string b (string_of_int (int_of_n i));
  List.iter (fun (f, v) -> Buffer.add_char b ' '; Buffer.add_string b (ostr f); Buffer.add_char b '='; pvalue b v) fs;
  Buffer.add_char b ')'
and pvalue b = function
  | M.VPos z -> Buffer.add_char b 'p'; Buffer.add_string b (string_of_int (int_of_z z))
  | M.VTok z -> Buffer.add_char b 't'; Buffer.add_string b (string_of_int (int_of_z z))
  | M.VStr s -> Buffer.add_char b 's'; Buffer.add_string b (hexs (ostr s))
  | M.VBool x -> Buffer.add_string b (if x then "b1" else "b0")
  | M.VOther -> Buffer.add_char b 'o'
  | M.VNil -> Buffer.add_char b '~'
  | M.VNode n -> pnode b n
  | M.VRec n -> Buffer.add_char b '<'; pnode b n; Buffer.add_char b '>'
  | M.VList l -> Buffer.add_char b '[';
    List.iteri (fun i x -> if i > 0 then Buffer.add_char b ' '; pvalue b x) l;
    Buffer.add_char b ']'

let rec nat_of_int n = if n <= 0 then M.O else M.S (nat_of_int (n - 1))

let () =
  let buf = Buffer.create 65536 in
  try while true do
    let line = input_line stdin in
    let t = parse line in
    Buffer.clear buf;
    Buffer.add_string buf (if M.go_ok M.go_node_structs t then "1\t" else "0\t");
    (* the recursion of the conversions is bounded by twice the depth of the tree (function + list levels) *)
    let fuel = M.S (M.S (M.S (M.add (M.nsize t) (M.nsize t)))) in
    (match M.roundtrip M.from_table M.to_table M.node_structs M.go_node_structs fuel t with
     | M.Ok v -> pvalue buf v
     | M.Panic -> Buffer.add_string buf "PANIC"
     | M.OutOfFuel -> Buffer.add_string buf "OUTOFFUEL");
    Buffer.add_char buf '\t';
    pnode buf (M.strip M.go_node_structs t);
    print_string (Buffer.contents buf);
    print_newline ()
  done with End_of_file -> ()
