(* C11 model runner.  One class per line, an s-expression:
     (class NAME (decls D...) (specs SPEC...) (funcs (NAME KIND)...) (fields F...) (methods (NAME PARAM (STMT...))...)
            (globals G...) (calls (O M V)...))
     D = import | const | type | var | func : the top-level declarations of the class file in order (var = the block SPEC...)
     O = a | b : the instance the call goes to (a := &K{firstfield: 1}, b := new(K))
     SPEC = (starsel PKG T TAG) | (sel PKG T TAG) | (star T TAG) | (ids (A B...) TYP TAG)     TYP/TAG = - | hex
     KIND = plain | static | (recv R)
     STMT = (assign X E) | (thisassign F E) | (define X E) | (print E) | (expr E) | (if E (STMT...) (STMT...)) | (return E)
     E    = INT | (id X) | (this F) | (add E E) | (mul E E) | (lt E E) | (call M E) | (thiscall M E)
   Output: FIELDS=name:emb:typehex:taghex,...  FUNCS=name/recvname/recvtype,...
           CLS=<hex of the class-form method source>  EXPL=<hex of the explicit-form method source for type NAME^"X">
           RUNC=<outcome>  RUNX=<outcome>  RUND=<outcome of the environment-based evaluator>     outcome = V:rets|trace|fields of a|fields of b|globals  or  U  or  F *)
open C11model

let rec pos_of_int n = if n = 1 then XH else if n land 1 = 0 then XO (pos_of_int (n lsr 1)) else XI (pos_of_int (n lsr 1))
let n_of_int n = if n = 0 then N0 else Npos (pos_of_int n)
let rec int_of_pos = function XH -> 1 | XO p -> 2 * int_of_pos p | XI p -> 2 * int_of_pos p + 1
let int_of_n = function N0 -> 0 | Npos p -> int_of_pos p
let z_of_int n = if n = 0 then Z0 else if n > 0 then Zpos (pos_of_int n) else Zneg (pos_of_int (-n))
let int_of_z = function Z0 -> 0 | Zpos p -> int_of_pos p | Zneg p -> - (int_of_pos p)
let rec nat_of_int n = if n <= 0 then O else S (nat_of_int (n - 1))

let str_of s = List.init (String.length s) (fun i -> n_of_int (Char.code s.[i]))
let to_s l = String.concat "" (List.map (fun c -> String.make 1 (Char.chr (int_of_n c))) l)
let unhex s = if s = "-" then "" else String.init (String.length s / 2) (fun i -> Char.chr (int_of_string ("0x" ^ String.sub s (2*i) 2)))
let hex s = if s = "" then "-" else String.concat "" (List.map (fun c -> Printf.sprintf "%02x" (Char.code c)) (List.init (String.length s) (String.get s)))

type sx = A of string | L of sx list
let parse (s : string) : sx =
  let n = String.length s in
  let i = ref 0 in
  let rec item () =
    while !i < n && (s.[!i] = ' ' || s.[!i] = '\t') do incr i done;
    if !i >= n then failwith "eof"
    else if s.[!i] = '(' then begin
      incr i;
      let acc = ref [] in
      let fin = ref false in
      while not !fin do
        while !i < n && (s.[!i] = ' ' || s.[!i] = '\t') do incr i done;
        if !i >= n then failwith "unclosed"
        else if s.[!i] = ')' then (incr i; fin := true)
        else acc := item () :: !acc
      done;
      L (List.rev !acc)
    end else begin
      let j = !i in
      while !i < n && s.[!i] <> ' ' && s.[!i] <> '(' && s.[!i] <> ')' do incr i done;
      A (String.sub s j (!i - j))
    end
  in item ()

let atom = function A a -> a | _ -> failwith "atom"
let opt = function A "-" -> None | A h -> Some (str_of (unhex h)) | _ -> failwith "opt"

let spec = function
  | L [A "starsel"; p; t; tag] -> SpStarSel (str_of (atom p), str_of (atom t), opt tag)
  | L [A "sel"; p; t; tag] -> SpSel (str_of (atom p), str_of (atom t), opt tag)
  | L [A "star"; t; tag] -> SpStar (str_of (atom t), opt tag)
  | L [A "ids"; L ids; ty; tag] -> SpIdents (List.map (fun x -> str_of (atom x)) ids, opt ty, opt tag)
  | _ -> failwith "spec"

let kind = function
  | A "plain" -> FPlain | A "static" -> FStatic
  | L [A "recv"; r] -> FRecv (str_of (atom r))
  | _ -> failwith "kind"

let rec expr = function
  | A a -> EInt (z_of_int (int_of_string a))
  | L [A "id"; x] -> EId (str_of (atom x))
  | L [A "this"; x] -> EThis (str_of (atom x))
  | L [A "add"; a; b] -> EAdd (expr a, expr b)
  | L [A "mul"; a; b] -> EMul (expr a, expr b)
  | L [A "lt"; a; b] -> ELt (expr a, expr b)
  | L [A "call"; m; a] -> ECall (str_of (atom m), expr a)
  | L [A "thiscall"; m; a] -> EThisCall (str_of (atom m), expr a)
  | _ -> failwith "expr"

let rec stmt = function
  | L [A "assign"; x; e] -> SAssign (str_of (atom x), expr e)
  | L [A "thisassign"; x; e] -> SThisAssign (str_of (atom x), expr e)
  | L [A "define"; x; e] -> SDefine (str_of (atom x), expr e)
  | L [A "print"; e] -> SPrint (expr e)
  | L [A "expr"; e] -> SExpr (expr e)
  | L [A "if"; c; t; f] -> SIf (expr c, stmts t, stmts f)
  | L [A "return"; e] -> SReturn (expr e)
  | _ -> failwith "stmt"
and stmts = function
  | L l -> List.fold_right (fun s r -> SCons (stmt s, r)) l SNil
  | _ -> failwith "stmts"

(* ---- printing a method as XGo source ---- *)
let rec pe = function
  | EInt z -> let n = int_of_z z in if n < 0 then Printf.sprintf "(%d)" n else string_of_int n
  | EId x -> to_s x
  | EThis x -> "this." ^ to_s x
  | EAdd (a, b) -> "(" ^ pe a ^ " + " ^ pe b ^ ")"
  | EMul (a, b) -> "(" ^ pe a ^ " * " ^ pe b ^ ")"
  | ELt (a, b) -> "lt(" ^ pe a ^ ", " ^ pe b ^ ")"
  | ECall (m, a) -> to_s m ^ "(" ^ pe a ^ ")"
  | EThisCall (m, a) -> "this." ^ to_s m ^ "(" ^ pe a ^ ")"
let rec ps ind buf = function
  | SNil -> ()
  | SCons (s, r) ->
      let t = String.make ind '\t' in
      (match s with
       | SAssign (x, e) -> Buffer.add_string buf (t ^ to_s x ^ " = " ^ pe e ^ "\n")
       | SThisAssign (x, e) -> Buffer.add_string buf (t ^ "this." ^ to_s x ^ " = " ^ pe e ^ "\n")
       | SDefine (x, e) -> Buffer.add_string buf (t ^ to_s x ^ " := " ^ pe e ^ "\n")
       | SPrint e -> Buffer.add_string buf (t ^ "echo \"P\", " ^ pe e ^ "\n")
       | SExpr e -> Buffer.add_string buf (t ^ "_ = " ^ pe e ^ "\n")
       | SIf (c, a, b) ->
           Buffer.add_string buf (t ^ "if " ^ pe c ^ " != 0 {\n"); ps (ind + 1) buf a;
           Buffer.add_string buf (t ^ "} else {\n"); ps (ind + 1) buf b; Buffer.add_string buf (t ^ "}\n")
       | SReturn e -> Buffer.add_string buf (t ^ "return " ^ pe e ^ "\n"));
      ps ind buf r

let class_src (ms : method0 list) =
  let buf = Buffer.create 256 in
  List.iter (fun m ->
    Buffer.add_string buf (Printf.sprintf "func %s(%s int) int {\n" (to_s m.mname) (to_s m.mparam));
    ps 1 buf m.mbody; Buffer.add_string buf "}\n\n") ms;
  Buffer.contents buf
let explicit_src tname (ms : method0 list) =
  let buf = Buffer.create 256 in
  List.iter (fun m ->
    Buffer.add_string buf (Printf.sprintf "func (this *%s) %s(%s int) int {\n" tname (to_s m.mname) (to_s m.mparam));
    ps 1 buf m.mbody; Buffer.add_string buf "}\n\n") ms;
  Buffer.contents buf

let rec ptype = function
  | TId s -> to_s s | TSel (p, s) -> to_s p ^ "." ^ to_s s | TStar t -> "*" ^ ptype t | TText s -> to_s s

let zs l = String.concat "," (List.map (fun z -> string_of_int (int_of_z z)) l)
let store l = String.concat "," (List.map (fun (k, v) -> to_s k ^ "=" ^ string_of_int (int_of_z v)) l)
let outcome = function
  | Val ((rets, (fa, fb)), (gl, tr)) -> Printf.sprintf "V:%s|%s|%s|%s|%s" (zs rets) (zs tr) (store fa) (store fb) (store gl)
  | Undefined -> "U"
  | Fuel -> "F"

let () =
  try while true do
    let line = input_line stdin in
    (try match parse line with
     | L [A "class"; A name; L (A "decls" :: decls); L (A "specs" :: specs); L (A "funcs" :: funcs); L (A "fields" :: fields);
          L (A "methods" :: methods); L (A "globals" :: globals); L (A "calls" :: calls)] ->
       let sp = List.map spec specs in
       let fl = class_struct (List.map (function A "import" -> TImport | A "const" -> TConst | A "type" -> TType
                                               | A "var" -> TVar sp | A "func" -> TFunc | _ -> failwith "decl") decls) in
       let fs = class_funcs (str_of name) (List.map (function L [n; k] -> (str_of (atom n), kind k) | _ -> failwith "func") funcs) in
       let c = { cfields = List.map (fun f -> str_of (atom f)) fields;
                 cmethods = List.map (function L [n; p; b] -> { mname = str_of (atom n); mparam = str_of (atom p); mbody = stmts b }
                                              | _ -> failwith "method") methods } in
       let gl = List.map (fun g -> str_of (atom g)) globals in
       let cs = List.map (function L [o; m; v] -> (atom o = "a", (str_of (atom m), z_of_int (int_of_string (atom v)))) | _ -> failwith "call") calls in
       let fuel = nat_of_int 2000 in
       Printf.printf "FIELDS=%s FUNCS=%s CLS=%s EXPL=%s RUNC=%s RUNX=%s RUND=%s"
         (String.concat "," (List.map (fun f -> Printf.sprintf "%s:%d:%s:%s" (to_s f.fname) (if f.fembedded then 1 else 0)
                                                 (hex (ptype f.ftype)) (match f.ftag with Some t -> hex (to_s t) | None -> "-")) fl))
         (String.concat "," (List.map (fun g -> match g.grecv with
                                                | Some ((rn, rt), _) -> Printf.sprintf "%s/%s/%s" (to_s g.gname) (to_s rn) (to_s rt)
                                                | None -> Printf.sprintf "%s//" (to_s g.gname)) fs))
         (hex (class_src c.cmethods)) (hex (explicit_src (name ^ "X") (desugar_class c).cmethods))
         (outcome (run2_class fuel c gl cs)) (outcome (run2_explicit fuel c gl cs)) (outcome (run2_dyn fuel c gl cs))
     | _ -> print_string "BADINPUT"
    with Failure m -> print_string ("BADINPUT " ^ m));
    print_newline ()
  done with End_of_file -> ()
