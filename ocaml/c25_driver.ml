(* line protocol: one serialized MiniGo program per line (prefix tokens, see checks/c25gen.py);
   output: gopstyle of the program in the same syntax (= the <shape> field of harness/cmd/c25),
   TAB, the model's own run of both programs: "same" / "differ" / "fuel" *)
open C25model
let rec pos_of_int n = if n = 1 then XH else if n land 1 = 0 then XO (pos_of_int (n lsr 1)) else XI (pos_of_int (n lsr 1))
let n_of_int n = if n = 0 then N0 else Npos (pos_of_int n)
let rec int_of_pos = function XH -> 1 | XO p -> 2 * int_of_pos p | XI p -> 2 * int_of_pos p + 1
let int_of_n = function N0 -> 0 | Npos p -> int_of_pos p
let z_of_int n = if n = 0 then Z0 else if n > 0 then Zpos (pos_of_int n) else Zneg (pos_of_int (-n))
let int_of_z = function Z0 -> 0 | Zpos p -> int_of_pos p | Zneg p -> - (int_of_pos p)
let str_of s = List.init (String.length s) (fun i -> n_of_int (Char.code s.[i]))
let to_s l = String.concat "" (List.map (fun c -> String.make 1 (Char.chr (int_of_n c))) l)
let unhex s = if s = "-" then [] else
  List.init (String.length s / 2) (fun i -> n_of_int (int_of_string ("0x" ^ String.sub s (2*i) 2)))
let hex l = if l = [] then "-" else String.concat "" (List.map (fun z -> Printf.sprintf "%02x" (int_of_n z)) l)
let rec nat_of_int n = if n = 0 then O else S (nat_of_int (n - 1))
let rec int_of_nat = function O -> 0 | S n -> 1 + int_of_nat n

let toks = ref [||]
let cur = ref 0
let next () = let t = !toks.(!cur) in incr cur; t
let int_ () = int_of_string (next ())
let name () = str_of (next ())
let rec rep k f = if k = 0 then [] else let x = f () in x :: rep (k - 1) f
let names () = let k = int_ () in rep k name
let bool_ () = int_ () <> 0

let rec expr () =
  match next () with
  | "I" -> EInt (z_of_int (int_ ()))
  | "S" -> EStr (unhex (next ()))
  | "V" -> EVar (name ())
  | "A" -> let a = expr () in let b = expr () in EAdd (a, b)
  | "C" -> let f = name () in let a = exprs () in ECall (f, a)
  | "L" -> let x = name () in let s = name () in let a = exprs () in ESel (x, s, a)
  | "F" -> let x = name () in let f = name () in EField (x, f)
  | "U" -> let ps = names () in let r = nat_of_int (int_ ()) in let b = stmts () in EFuncLit (ps, r, b)
  | "La" -> let ps = names () in let r = exprs () in ELambda (ps, r)
  | "Lb" -> let ps = names () in let b = stmts () in ELambda2 (ps, b)
  | "N" -> let t = name () in let e = expr () in ENew (t, e)
  | t -> failwith ("expr: " ^ t)
and exprs () = let k = int_ () in
  let l = rep k expr in List.fold_right (fun e acc -> ECons (e, acc)) l ENil
and stmt () =
  match next () with
  | "E" -> let c = bool_ () in let e = expr () in SExpr (c, e)
  | "D" -> let x = name () in let e = expr () in SDefine (x, e)
  | "W" -> let x = name () in let e = expr () in SVar (x, e)
  | "If" -> let c = expr () in let t = stmts () in let e = stmts () in SIf (c, t, e)
  | "R" -> SReturn (exprs ())
  | "B" -> SBlock (stmts ())
  | t -> failwith ("stmt: " ^ t)
and stmts () = let k = int_ () in
  let l = rep k stmt in List.fold_right (fun s acc -> SCons (s, acc)) l SNil

let decl () =
  match next () with
  | "im" -> let n = name () in let p = unhex (next ()) in DImport (n, p)
  | "va" -> let x = name () in let e = expr () in DVar (x, e)
  | "ty" -> DType (name ())
  | "fn" -> let f = name () in let ps = names () in let r = bool_ () in let b = stmts () in DFunc (f, ps, r, b)
  | "me" -> let t = name () in let r = name () in let m = name () in let ps = names () in
            let res = bool_ () in let b = stmts () in DMethod (t, r, m, ps, res, b)
  | t -> failwith ("decl: " ^ t)

let buf = Buffer.create 1024
let a s = if Buffer.length buf > 0 then Buffer.add_char buf ' '; Buffer.add_string buf s
let ai n = a (string_of_int n)
let rec elist = function ENil -> [] | ECons (e, t) -> e :: elist t
let rec slist = function SNil -> [] | SCons (s, t) -> s :: slist t
let pnames l = ai (List.length l); List.iter (fun n -> a (to_s n)) l
let rec pexpr = function
  | EInt z -> a "I"; ai (int_of_z z)
  | EStr s -> a "S"; a (hex s)
  | EVar x -> a "V"; a (to_s x)
  | EAdd (x, y) -> a "A"; pexpr x; pexpr y
  | ECall (f, args) -> a "C"; a (to_s f); pexprs args
  | ESel (x, s, args) -> a "L"; a (to_s x); a (to_s s); pexprs args
  | EField (x, f) -> a "F"; a (to_s x); a (to_s f)
  | EFuncLit (ps, r, b) -> a "U"; pnames ps; ai (int_of_nat r); pstmts b
  | ELambda (ps, r) -> a "La"; pnames ps; pexprs r
  | ELambda2 (ps, b) -> a "Lb"; pnames ps; pstmts b
  | ENew (t, e) -> a "N"; a (to_s t); pexpr e
and pexprs es = let l = elist es in ai (List.length l); List.iter pexpr l
and pstmt = function
  | SExpr (c, e) -> a "E"; ai (if c then 1 else 0); pexpr e
  | SDefine (x, e) -> a "D"; a (to_s x); pexpr e
  | SVar (x, e) -> a "W"; a (to_s x); pexpr e
  | SIf (c, t, e) -> a "If"; pexpr c; pstmts t; pstmts e
  | SReturn r -> a "R"; pexprs r
  | SBlock b -> a "B"; pstmts b
and pstmts ss = let l = slist ss in ai (List.length l); List.iter pstmt l
let pdecl = function
  | DImport (n, p) -> a "im"; a (to_s n); a (hex p)
  | DVar (x, e) -> a "va"; a (to_s x); pexpr e
  | DType t -> a "ty"; a (to_s t)
  | DFunc (f, ps, r, b) -> a "fn"; a (to_s f); pnames ps; ai (if r then 1 else 0); pstmts b
  | DMethod (t, r, m, ps, res, b) -> a "me"; a (to_s t); a (to_s r); a (to_s m); pnames ps; ai (if res then 1 else 0); pstmts b

let show_run = function
  | Ok t -> "ok:" ^ String.concat "," (List.map hex t)
  | Panic -> "panic"
  | OutOfFuel -> "fuel"

let () =
  try while true do
    let line = input_line stdin in
    (try
      toks := Array.of_list (List.filter (fun s -> s <> "") (String.split_on_char ' ' line));
      cur := 0;
      let sh = bool_ () in let np = bool_ () in
      let k = int_ () in
      let ds = rep k decl in
      let p = { pdecls = ds; pshadow = sh; pnopkg = np } in
      let q0 = gopstyle p in
      let q = printed_view q0 in
      Buffer.clear buf;
      ai (if q.pshadow then 1 else 0); ai (if q.pnopkg then 1 else 0); ai (List.length q.pdecls);
      List.iter pdecl q.pdecls;
      print_string (Buffer.contents buf);
      let fuel = nat_of_int 400 in
      let r1 = run fuel Go p and r2 = run fuel XGo q0 in
      print_string ("\t" ^ (if r1 = r2 then "same " else "differ ") ^ show_run r1 ^ " / " ^ show_run r2)
    with Failure s -> print_string ("MODELERR " ^ s) | Invalid_argument s -> print_string ("MODELERR " ^ s));
    print_newline ()
  done with End_of_file -> ()
