(* line protocol (one case per line):
     E <all:0|1> <ev> <ev> ...      ev = P<l>:<c> | S<l>:<c> | A<l>:<c>[,<l>:<c>...] | B | D<l>:<c>[,...]
        -> errs=<l>:<c>,... bail=<0|1> bad=<n>     (what parseFile returns for that trace)
     S <l>:<c>:<m> ...              -> sorted list, same syntax
     A <sp> <sc> | <pos>:<kind> ... | <drop>:<s|d|e> ...
        -> position of p.tok after each step (-1 = EOF), blank separated *)
open C13model
let rec pos_of_int n = if n = 1 then XH else if n land 1 = 0 then XO (pos_of_int (n lsr 1)) else XI (pos_of_int (n lsr 1))
let n_of_int n = if n = 0 then N0 else Npos (pos_of_int n)
let z_of_int n = if n = 0 then Z0 else if n > 0 then Zpos (pos_of_int n) else Zneg (pos_of_int (-n))
let rec int_of_pos = function XH -> 1 | XO p -> 2 * int_of_pos p | XI p -> 2 * int_of_pos p + 1
let int_of_n = function N0 -> 0 | Npos p -> int_of_pos p
let int_of_z = function Z0 -> 0 | Zpos p -> int_of_pos p | Zneg p -> - (int_of_pos p)
let rec nat_of_int n = if n <= 0 then O else S (nat_of_int (n - 1))
let rec int_of_nat = function O -> 0 | S n -> 1 + int_of_nat n
let words s = List.filter (fun x -> x <> "") (String.split_on_char ' ' s)
let err_of s = match String.split_on_char ':' s with
  | [l; c] -> { e_line = n_of_int (int_of_string l); e_col = n_of_int (int_of_string c); e_msg = N0 }
  | [l; c; m] -> { e_line = n_of_int (int_of_string l); e_col = n_of_int (int_of_string c); e_msg = n_of_int (int_of_string m) }
  | _ -> failwith ("bad error spec " ^ s)
let errs_of s = if s = "" then [] else List.map err_of (String.split_on_char ',' s)
let tl1 s = String.sub s 1 (String.length s - 1)
let ev_of s = match s.[0] with
  | 'P' -> EvP (err_of (tl1 s))
  | 'S' -> EvS (err_of (tl1 s))
  | 'A' -> EvApp (errs_of (tl1 s))
  | 'B' -> EvBad
  | 'D' -> EvDrop (errs_of (tl1 s))
  | _ -> failwith ("bad event " ^ s)
let show_lc e = Printf.sprintf "%d:%d" (int_of_n e.e_line) (int_of_n e.e_col)
let show_lcm e = Printf.sprintf "%d:%d:%d" (int_of_n e.e_line) (int_of_n e.e_col) (int_of_n e.e_msg)
let set_of = function "s" -> sync_stmtStart | "d" -> sync_declStart | "e" -> sync_exprEnd | x -> failwith ("bad set " ^ x)
let split3 line =
  match String.split_on_char '|' line with
  | [a; b; c] -> (a, b, c)
  | _ -> failwith "A case needs 3 parts"
let () =
  try while true do
    let line = input_line stdin in
    (match words line with
     | "E" :: all :: evs ->
       let evs = List.map ev_of evs in
       (* the wrapper around the trace: bail is recognised by the empty file (None -> 0 marker) *)
       let b = fun e0 -> (match trace_body (all = "1") evs e0 with
           | (Ret n, x) -> (Ret (Some (S n)), x) | (Bailout, x) -> (Bailout, x) | (Raise v, x) -> (Raise v, x)) in
       (match file_wrapper O b with
        | WRet (f, es) ->
          let bail, bad = (match f with O -> 1, 0 | S n -> 0, int_of_nat n) in
          Printf.printf "errs=%s bail=%d bad=%d\n" (String.concat "," (List.map show_lc es)) bail bad
        | WPanic _ -> print_string "PANIC\n")
     | "S" :: es ->
       print_string (String.concat " " (List.map show_lcm (sort_errs (List.map err_of es)))); print_newline ()
     | "A" :: _ ->
       let (a, b, c) = split3 (String.sub line 1 (String.length line - 1)) in
       let sp, sc = (match words a with [x; y] -> int_of_string x, int_of_string y | _ -> failwith "A: sp sc") in
       let toks = List.map (fun w -> match String.split_on_char ':' w with
           | [p; k] -> { t_pos = z_of_int (int_of_string p); t_kind = z_of_int (int_of_string k) }
           | _ -> failwith "tok") (words b) in
       let steps = List.map (fun w -> match String.split_on_char ':' w with
           | [d; s] -> { s_drop = nat_of_int (int_of_string d); s_to = set_of s }
           | _ -> failwith "step") (words c) in
       let obs = run_steps_obs steps toks (z_of_int sp) (z_of_int sc) in
       print_string (String.concat " " (List.map (fun z -> string_of_int (int_of_z z)) obs)); print_newline ()
     | [] -> print_newline ()
     | _ -> print_string "BADCASE\n")
  done with End_of_file -> ()
