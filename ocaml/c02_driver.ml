(* C02 model runner.  One case per line, prefix encoding (tokens separated by blanks):
     expr   : i<int> | v<n> | P <id> expr | + a b | - a b | * a b | % a b | > a b | < a b | = a b | ! a b
              | l<i,i,..> (constant []int) | n<l;l;..> (constant [][]int, rows separated by ';')
              | r<s>,<e>,<st> (range) | m<k>:<v> (one-entry map) | s<hex> (string)
     phrase : <key n | -> <val n | _> expr <N | C expr>
     case   : list|map|sel1|sel2|exists <np> phrase*np elt [elt2]   |  for phrase expr  |  send <n> expr*n  |  sendall expr
   Output: the value (and probe trace) of the lowered program in MiniGo; "SPECDIFF" if the definitional
   meaning (spec_comprehension) differs on this case. *)
open C02model
let rec pos_of_int n = if n = 1 then XH else if n land 1 = 0 then XO (pos_of_int (n lsr 1)) else XI (pos_of_int (n lsr 1))
let n_of_int n = if n = 0 then N0 else Npos (pos_of_int n)
let z_of_int n = if n = 0 then Z0 else if n > 0 then Zpos (pos_of_int n) else Zneg (pos_of_int (-n))
let rec int_of_pos = function XH -> 1 | XO p -> 2 * int_of_pos p | XI p -> 2 * int_of_pos p + 1
let int_of_n = function N0 -> 0 | Npos p -> int_of_pos p
let int_of_z = function Z0 -> 0 | Zpos p -> int_of_pos p | Zneg p -> - (int_of_pos p)
let rec nat_of_int n = if n <= 0 then O else S (nat_of_int (n - 1))
let unhex s = List.init (String.length s / 2) (fun i -> n_of_int (int_of_string ("0x" ^ String.sub s (2*i) 2)))
let ints s = if s = "" then [] else List.map (fun x -> VInt (z_of_int (int_of_string x))) (String.split_on_char ',' s)
exception Bad of string

let toks = ref []
let next () = match !toks with [] -> raise (Bad "eof") | t :: r -> toks := r; t
let rec expr () =
  let t = next () in
  let bin op = let a = expr () in let b = expr () in EBin (op, a, b) in
  match t with
  | "P" -> let id = int_of_string (next ()) in let e = expr () in EProbe (n_of_int id, e)
  | "+" -> bin BAdd | "-" -> bin BSub | "*" -> bin BMul | "%" -> bin BRem
  | ">" -> bin BGt | "<" -> bin BLt | "=" -> bin BEq | "!" -> bin BNe
  | _ ->
    let rest = String.sub t 1 (String.length t - 1) in
    (match t.[0] with
     | 'i' -> EConst (VInt (z_of_int (int_of_string rest)))
     | 'v' -> EVar (NUser (n_of_int (int_of_string rest)))
     | 'l' -> EConst (VList (ints rest))
     | 'n' -> EConst (VList (List.map (fun r -> VList (ints r)) (String.split_on_char ';' rest)))
     | 'r' -> (match String.split_on_char ',' rest with
               | [a; b; c] -> EConst (VRange (z_of_int (int_of_string a), z_of_int (int_of_string b), z_of_int (int_of_string c)))
               | _ -> raise (Bad t))
     | 'm' -> (match String.split_on_char ':' rest with
               | [a; b] -> EConst (VMap [(VInt (z_of_int (int_of_string a)), VInt (z_of_int (int_of_string b)))])
               | _ -> raise (Bad t))
     | 's' -> EConst (VStr (unhex rest))
     | _ -> raise (Bad t))
(* an operand: a pure expression, or "C <kind> <np> phrase* elt [elt2]" = a nested comprehension *)
let rec operand () =
  match !toks with
  | "C" :: _ ->
    ignore (next ());
    let kind = next () in
    let np = int_of_string (next ()) in
    let ps = List.init np (fun _ -> phrase ()) in
    (match kind with
     | "list" -> let e = operand () in comp_op (CList e) (VInt Z0) ps
     | "map" -> let a = operand () in let b = operand () in comp_op (CMap (a, b)) (VInt Z0) ps
     | "sel1" -> let e = operand () in comp_op (CSelect (e, false)) (VInt Z0) ps
     | "exists" -> comp_op CExists (VInt Z0) ps
     | t -> raise (Bad t))
  | _ -> pure_op (expr ())
and phrase () =
  let k = next () in let v = next () in
  let x = operand () in
  let c = (match next () with "N" -> None | "C" -> Some (operand ()) | t -> raise (Bad t)) in
  { ph_key = (if k = "-" then None else Some (NUser (n_of_int (int_of_string k))));
    ph_val = (if v = "_" then None else Some (NUser (n_of_int (int_of_string v))));
    ph_x = x; ph_cond = c }

let rec show_val = function
  | VInt z -> string_of_int (int_of_z z)
  | VBool b -> if b then "true" else "false"
  | VList l -> "L" ^ String.concat "_" (List.map show_val l)
  | VMap l ->
    let l = List.sort (fun (a, _) (b, _) -> compare (match a with VInt z -> int_of_z z | _ -> 0) (match b with VInt z -> int_of_z z | _ -> 0)) l in
    "M" ^ String.concat "_" (List.map (fun (k, v) -> show_val k ^ ":" ^ show_val v) l)
  | _ -> "?"
let show_trace tr = "[" ^ String.concat " " (List.map (fun (Ev (id, args)) ->
    Printf.sprintf "%d:%s" (int_of_n id) (String.concat "," (List.map show_val args))) tr) ^ "]"
let err_text _ = []
let fuel = nat_of_int 3

let run_compr k zero ps =
  (let e = lower_comprehension k zero ps in
    let spec = spec_comprehension k zero ps [] [] in
    (match eval err_text fuel e [] [] with
     | ((RVal vs, _), tr) ->
       let s = Printf.sprintf "v=%s\tt=%s" (String.concat " " (List.map show_val vs)) (show_trace tr) in
       (match spec with
        | Some (vs', tr') when vs' = vs && tr' = tr -> s
        | _ -> s ^ "\tSPECDIFF")
     | ((RPanic _, _), _) -> "PANIC"
     | ((RStuck, _), _) -> "STUCK"
     | _ -> "OTHER"))

let () =
  try while true do
    let line = input_line stdin in
    toks := List.filter (fun s -> s <> "") (String.split_on_char ' ' line);
    (try
       let kind = next () in
       let out = (match kind with
         | "list" | "map" | "sel1" | "sel2" | "exists" ->
           let np = int_of_string (next ()) in
           let ps = List.init np (fun _ -> phrase ()) in
           (match kind with
            | "list" -> let e = operand () in run_compr (CList e) (VInt Z0) ps
            | "map" -> let a = operand () in let b = operand () in run_compr (CMap (a, b)) (VInt Z0) ps
            | "sel1" -> let e = operand () in run_compr (CSelect (e, false)) (VInt Z0) ps
            | "sel2" -> let e = operand () in run_compr (CSelect (e, true)) (VInt Z0) ps
            | _ -> run_compr CExists (VInt Z0) ps)
         | "for" ->
           let p = phrase () in let b = (operand ()).op_e in
           (let s = lower_forphrase p (SExpr (EProbe (n_of_int 100, b))) in
              (match exec err_text fuel s [] [] with
               | ((RVal _, _), tr) -> Printf.sprintf "v=-\tt=%s" (show_trace tr)
               | ((RPanic _, _), _) -> "PANIC"
               | _ -> "STUCK"))
         | "send" | "sendall" ->
           let a = NUser (n_of_int 50) in
           let en = [(a, VList [VInt (z_of_int 1); VInt (z_of_int 2)])] in
           let s = (if kind = "send" then
                      let n = int_of_string (next ()) in
                      lower_send a (List.init n (fun _ -> expr ()))
                    else lower_send_all a (operand ()).op_e) in
           (match exec err_text fuel s en [] with
            | ((RVal _, en'), tr) ->
              (match lookup en' a with
               | Some v -> Printf.sprintf "v=%s\tt=%s" (show_val v) (show_trace tr)
               | None -> "STUCK")
            | _ -> "STUCK")
         | t -> raise (Bad t)) in
       print_string out
     with Bad t -> print_string ("BADCASE " ^ t) | Failure m -> print_string ("BADCASE " ^ m));
    print_newline ()
  done with End_of_file -> ()
