(* model runner of the TPL pipeline: parse_file -> compile -> match_doc
   stdin : [!]<grammar words> TAB <input tokens>     (produced by  h_tplm -mode scan)
   stdout: PARSEERR | CERR | CPANIC | (MPANIC | FUEL | ok <n> <tree> | fail <n>) TAB (P|N)   P = the grammar has a
           productivity certificate (Model/TplProd.v is_productive), i.e. theorem C28_match_terminates applies
   argv[1] = "compile": stop after compile and print COMPILED.  match fuel = (|toks|+2) * (nrules+2) * (size+4) *)
open Tplmmodel
let rec pos_of_int n = if n = 1 then XH else if n land 1 = 0 then XO (pos_of_int (n lsr 1)) else XI (pos_of_int (n lsr 1))
let n_of_int n = if n = 0 then N0 else Npos (pos_of_int n)
let z_of_int n = if n = 0 then Z0 else if n > 0 then Zpos (pos_of_int n) else Zneg (pos_of_int (-n))
let rec nat_of_int n = if n = 0 then O else S (nat_of_int (n-1))
let rec int_of_nat = function O -> 0 | S n -> 1 + int_of_nat n
let unhex s = if s = "-" then [] else
  List.init (String.length s / 2) (fun i -> n_of_int (int_of_string ("0x" ^ String.sub s (2*i) 2)))
let tail s = String.sub s 1 (String.length s - 1)

let uq_of s = match s.[0] with
  | 'E' -> UqErr
  | 'C' -> (match String.split_on_char ':' (tail s) with
            | [v; mb; tl] -> UqChar (z_of_int (int_of_string v), mb = "1", tl = "1")
            | _ -> failwith "bad uq")
  | 'S' -> UqStr (unhex (tail s))
  | _ -> failwith "bad uq"

let tok_of tbl w = match w with
  | "*" -> TU UMul | "+" -> TU UAdd | "?" -> TU UQuest | "%" -> TB BRem | "++" -> TB BInc
  | "|" -> TOr | "(" -> TLP | ")" -> TRP | "=" -> TAssign | ";" -> TSemi | "=>" -> TArrow
  | "{" -> TLB | "}" -> TRB
  | _ -> (match w.[0] with
          | 'i' -> TIdent (unhex (tail w))
          | 'c' | 's' ->
            let k = (w.[0] = 'c') in
            (match String.split_on_char '~' (tail w) with
             | [h; u] -> let l = unhex h in Hashtbl.replace tbl (k, l) (uq_of u); TLit (k, l)
             | _ -> failwith "bad literal word")
          | 'o' -> TOther (n_of_int (int_of_string (tail w)))
          | _ -> failwith ("bad token " ^ w))

let unhex_name s = List.init (String.length s) (fun i -> n_of_int (Char.code s.[i]))
let rec show = function
  | RNil -> "N"
  | RTok i -> "T" ^ string_of_int (int_of_nat i)
  | RList l -> "[" ^ String.concat "" (List.map (fun x -> " " ^ show x) l) ^ " ]"
  | RVal _ -> "W" | RApp (_, _, _) -> "A"

let compile_only = Array.length Sys.argv > 1 && Sys.argv.(1) = "compile"
let () =
  try while true do
    let line = input_line stdin in
    let (g, inp, rpspec) = (match String.split_on_char '\t' line with
        | [g; i; r] -> (g, i, r) | [g; i] -> (g, i, "") | [g] -> (g, "", "") | _ -> failwith "bad line") in
    let scanerr = String.length g > 0 && g.[0] = '!' in
    let g = if scanerr then tail g else g in
    let tbl = Hashtbl.create 16 in
    let ws = List.filter (fun s -> s <> "") (String.split_on_char ' ' g) in
    let ts = List.map (tok_of tbl) ws in
    let unq k l = (try Hashtbl.find tbl (k, l) with Not_found -> UqErr) in
    let toks = List.map (fun s -> match String.split_on_char ':' s with
        | [k; h; p] -> { ttok = z_of_int (int_of_string k); tlit = unhex h; tpos = z_of_int (int_of_string p) }
        | _ -> failwith "bad input token") (List.filter (fun s -> s <> "") (String.split_on_char ' ' inp)) in
    let out =
      match parse_file ts with
      | Ok (rs, n) ->
        if scanerr || n <> O then "PARSEERR" else
        (match compile unq rs with
         | Panic -> "CPANIC" | OutOfFuel -> "CFUEL"
         | Ok None -> "CERR"
         | Ok (Some (env, _)) when compile_only -> "COMPILED\t" ^ (if is_productive env then "P" else "N")
         | Ok (Some (env, doc)) ->
           let prod = if is_productive env then "\tP" else "\tN" in
           let size = List.fold_left (fun a o -> match o with Some b -> a + int_of_nat (msize b) | None -> a) 0 env in
           let fuel = (List.length toks + 2) * (List.length env + 2) * (size + 4) in
           let plain = (match match_doc env toks (nat_of_int fuel) doc with
            | Ok ((n, r), false) -> Printf.sprintf "ok %d %s" (int_of_nat n) (show r)
            | Ok ((n, _), true) -> Printf.sprintf "fail %d" (int_of_nat n)
            | Panic -> "MPANIC" | OutOfFuel -> "FUEL") in
           (* the RetProc-aware model; without rewriters it must agree with the plain one *)
           let names = List.map fst rs in
           let specs = List.filter (fun s -> s <> "" && s <> "-") (String.split_on_char ',' rpspec) in
           let rp_of name = List.fold_left (fun acc sp ->
               match String.index_opt sp '=' with
               | Some j when unhex_name (String.sub sp 0 j) = name ->
                 let k = String.sub sp (j+1) (String.length sp - j - 1) in
                 let (kind, arg) = (match String.index_opt k ':' with
                     | Some c -> (String.sub k 0 c, unhex (String.sub k (c+1) (String.length k - c - 1)))
                     | None -> (k, [])) in
                 (match kind with
                  | "id" -> Some RpId | "wrap" -> Some RpWrap
                  | "rejdyn" -> Some (RpRejDyn arg) | "rejerr" -> Some (RpRejErr arg) | "boom" -> Some RpBoom | _ -> acc)
               | _ -> acc) None specs in
           let rps = List.map rp_of names in
           let withrp = (match match_doc_rp (attach env rps) toks (nat_of_int fuel) doc with
            | Ok ((n, r), EOk) -> Printf.sprintf "ok %d %s" (int_of_nat n) (show r)
            | Ok ((n, _), EErr) -> Printf.sprintf "fail %d" (int_of_nat n)
            | Ok ((n, _), EDyn) -> Printf.sprintf "dyn %d" (int_of_nat n)
            | Panic -> "MPANIC" | OutOfFuel -> "FUEL") in
           (if specs = [] then (if withrp = plain then plain else plain ^ " RP-MODEL-DISAGREES " ^ withrp) else withrp) ^ prod)
      | Panic -> "PPANIC" | OutOfFuel -> "PFUEL" in
    print_string out; print_newline ()
  done with End_of_file -> ()
