(* line protocol: one sugar term per line in prefix form (blank separated tokens):
     vN | iN | bT | bF | sHEX | + a b | < a b | cat a b | call F a | compr X e src |
     comprif X e src c | errd F a d | errp F a
   Output: "ILL" when the term does not type-check in the prelude (or uses reserved names), else
   "<type> TAB <go expression text of lower(term)> TAB <gtype of the lowered term>". *)
open C06model
let rec pos_of_int n = if n = 1 then XH else if n land 1 = 0 then XO (pos_of_int (n lsr 1)) else XI (pos_of_int (n lsr 1))
let n_of_int n = if n = 0 then N0 else Npos (pos_of_int n)
let rec int_of_pos = function XH -> 1 | XO p -> 2 * int_of_pos p | XI p -> 2 * int_of_pos p + 1
let int_of_n = function N0 -> 0 | Npos p -> int_of_pos p
let z_of_int n = if n = 0 then Z0 else if n > 0 then Zpos (pos_of_int n) else Zneg (pos_of_int (-n))
let int_of_z = function Z0 -> 0 | Zpos p -> int_of_pos p | Zneg p -> - (int_of_pos p)
let unhex s = List.init (String.length s / 2) (fun i -> n_of_int (int_of_string ("0x" ^ String.sub s (2*i) 2)))
let str_of l = String.concat "" (List.map (fun z -> String.make 1 (Char.chr (int_of_n z))) l)

let rec parse toks =
  match toks with
  | [] -> failwith "eof"
  | t :: r ->
    let num s = int_of_string (String.sub s 1 (String.length s - 1)) in
    if t = "+" then let (a, r) = parse r in let (b, r) = parse r in (SAdd (a, b), r)
    else if t = "<" then let (a, r) = parse r in let (b, r) = parse r in (SLt (a, b), r)
    else if t = "cat" then let (a, r) = parse r in let (b, r) = parse r in (SCat (a, b), r)
    else if t = "call" then (match r with f :: r -> let (a, r) = parse r in (SCall (n_of_int (int_of_string f), a), r) | _ -> failwith "call")
    else if t = "compr" then (match r with x :: r -> let (e, r) = parse r in let (s, r) = parse r in (SCompr (e, n_of_int (int_of_string x), s), r) | _ -> failwith "compr")
    else if t = "comprif" then (match r with x :: r -> let (e, r) = parse r in let (s, r) = parse r in let (c, r) = parse r in (SComprIf (e, n_of_int (int_of_string x), s, c), r) | _ -> failwith "comprif")
    else if t = "errd" then (match r with f :: r -> let (a, r) = parse r in let (d, r) = parse r in (SErrDefault (n_of_int (int_of_string f), a, d), r) | _ -> failwith "errd")
    else if t = "errp" then (match r with f :: r -> let (a, r) = parse r in (SErrPanic (n_of_int (int_of_string f), a), r) | _ -> failwith "errp")
    else match t.[0] with
      | 'v' -> (SVar (n_of_int (num t)), r)
      | 'i' -> (SInt (z_of_int (num t)), r)
      | 'b' -> (SBool (t = "bT"), r)
      | 's' -> (SStr (unhex (String.sub t 1 (String.length t - 1))), r)
      | _ -> failwith ("token " ^ t)

let vname x = match int_of_n x with
  | 0 -> "_gop_ret" | 1 -> "_gop_err" | 2 -> "n" | 3 -> "s" | 4 -> "xs" | 5 -> "ss" | 6 -> "b" | 7 -> "xss"
  | k -> "x" ^ string_of_int k
let fnm f = match int_of_n f with
  | 0 -> "inc" | 1 -> "isPos" | 2 -> "str" | 3 -> "half" | 4 -> "parse" | 5 -> "dbl" | 6 -> "words" | 7 -> "size"
  | k -> "f" ^ string_of_int k
let rec tname = function TInt -> "int" | TBool -> "bool" | TStr -> "string" | TErr -> "error" | TList t -> "[]" ^ tname t
let rec ge = function
  | GVar x -> vname x
  | GInt n -> string_of_int (int_of_z n)
  | GBool b -> if b then "true" else "false"
  | GStr s -> "\"" ^ str_of s ^ "\""
  | GAdd (a, b) -> "(" ^ ge a ^ " + " ^ ge b ^ ")"
  | GLt (a, b) -> "(" ^ ge a ^ " < " ^ ge b ^ ")"
  | GCat (a, b) -> "(" ^ ge a ^ " + " ^ ge b ^ ")"
  | GCall (f, a) -> fnm f ^ "(" ^ ge a ^ ")"
  | GAppend (l, e) -> "append(" ^ ge l ^ ", " ^ ge e ^ ")"
  | GNeNil x -> "(" ^ vname x ^ " != nil)"
  | GIIFE (t, body) -> "func() (_gop_ret " ^ tname t ^ ") { " ^ gs body ^ "; return }()"
and gs = function
  | GSkip -> ""
  | GSeq (a, b) -> gs a ^ "; " ^ gs b
  | GAssign (x, e) -> vname x ^ " = " ^ ge e
  | GAssign2 (x, y, f, a) -> vname x ^ ", " ^ vname y ^ " = " ^ fnm f ^ "(" ^ ge a ^ ")"
  | GVarErr (x, rest) -> "var " ^ vname x ^ " error; " ^ gs rest
  | GForRange (x, src, body) -> "for _, " ^ vname x ^ " := range " ^ ge src ^ " { " ^ gs body ^ " }"
  | GIf (c, body) -> "if " ^ ge c ^ " { " ^ gs body ^ " }"
  | GReturn e -> "return " ^ ge e
  | GPanic x -> "panic(" ^ vname x ^ ")"

let () =
  try while true do
    let line = input_line stdin in
    let toks = List.filter (fun s -> s <> "") (String.split_on_char ' ' line) in
    (try
      let (e, _) = parse toks in
      (match lower_prelude e with
       | None -> print_string "ILL"
       | Some (t, g) ->
         let gt = match gtype prelude_sig prelude_env g with Some t' -> tname t' | None -> "ILLTYPED" in
         print_string (tname t ^ "\t" ^ ge g ^ "\t" ^ gt))
    with Failure m -> print_string ("BAD " ^ m));
    print_newline ()
  done with End_of_file -> ()
