(* line protocol (blank separated key=value):
     en=0|1 rec=0|1 gogen=I cls=I imports=I,I,... syms=I:I,I;I:-  tail=I reccomp=I
   item I: o | eN | pN | bN.M ; "-" = empty list.  Output: "RET p=0|1 n,n,..." or "ESC n|nil". *)
open C07model
let rec pos_of_int n = if n = 1 then XH else if n land 1 = 0 then XO (pos_of_int (n lsr 1)) else XI (pos_of_int (n lsr 1))
let n_of_int n = if n = 0 then N0 else Npos (pos_of_int n)
let rec int_of_pos = function XH -> 1 | XO p -> 2 * int_of_pos p | XI p -> 2 * int_of_pos p + 1
let int_of_n = function N0 -> 0 | Npos p -> int_of_pos p
let item s =
  if s = "o" then IOk else
  let v = String.sub s 1 (String.length s - 1) in
  match s.[0] with
  | 'e' -> IErr (n_of_int (int_of_string v))
  | 'p' -> IPanic (n_of_int (int_of_string v))
  | 'b' -> (match String.split_on_char '.' v with
            | [a; b] -> IErrPanic (n_of_int (int_of_string a), n_of_int (int_of_string b))
            | _ -> failwith "bad item")
  | _ -> failwith "bad item"
let items s = if s = "-" || s = "" then [] else List.map item (String.split_on_char ',' s)
let () =
  try while true do
    let line = input_line stdin in
    let kv = List.filter_map (fun f -> match String.index_opt f '=' with
      | Some i -> Some (String.sub f 0 i, String.sub f (i+1) (String.length f - i - 1)) | None -> None)
      (String.split_on_char ' ' line) in
    let get k d = try List.assoc k kv with Not_found -> d in
    let syms = let s = get "syms" "-" in
      if s = "-" then [] else List.map (fun sy -> match String.split_on_char ':' sy with
        | [d; st] -> (item d, items st) | _ -> failwith "bad sym") (String.split_on_char ';' s) in
    let r = scenario_result (get "en" "1" = "1") (get "rec" "0" = "1") (item (get "gogen" "o")) (item (get "cls" "o"))
              (items (get "imports" "-")) syms (item (get "tail" "o")) (item (get "reccomp" "o")) in
    (match r with
     | Escaped None -> print_string "ESC nil"
     | Escaped (Some n) -> print_string ("ESC " ^ string_of_int (int_of_n n))
     | Returned (p, errs, _) ->
       print_string ("RET p=" ^ (if p then "1" else "0") ^ " " ^
         String.concat "," (List.map (function EMsg n -> string_of_int (int_of_n n) | ERecovered n -> string_of_int (int_of_n n)) errs)));
    print_newline ()
  done with End_of_file -> ()
