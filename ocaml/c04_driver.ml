(* C04 model runner.  One case per line:  "G s e st" | "D s e st" | "L s e st"  ->  the sequences
   the model predicts for every context, in the format the compiled grid program prints. *)
open C04model
let rec pos_of_int n = if n = 1 then XH else if n land 1 = 0 then XO (pos_of_int (n lsr 1)) else XI (pos_of_int (n lsr 1))
let z_of_int n = if n = 0 then Z0 else if n > 0 then Zpos (pos_of_int n) else Zneg (pos_of_int (-n))
let rec int_of_pos = function XH -> 1 | XO p -> 2 * int_of_pos p | XI p -> 2 * int_of_pos p + 1
let int_of_z = function Z0 -> 0 | Zpos p -> int_of_pos p | Zneg p -> - (int_of_pos p)
let rec nat_of_int n = if n <= 0 then O else S (nat_of_int (n - 1))
let cap = 30
let fuel = nat_of_int (cap + 1)
let show = function
  | Ok l -> "[" ^ String.concat "," (List.map (fun z -> string_of_int (int_of_z z)) l) ^ "]"
  | Panic -> "PANIC"
  | OutOfFuel -> "DIV"
let () =
  try while true do
    let line = input_line stdin in
    (match List.filter (fun s -> s <> "") (String.split_on_char ' ' line) with
     | [tag; s; e; st] ->
       let s = z_of_int (int_of_string s) and e = z_of_int (int_of_string e) and st = z_of_int (int_of_string st) in
       let lp sh = show (run_shape fuel sh s e st) and it a = show (iter_of_args fuel a s e st) in
       (match tag with
        | "G" -> Printf.printf "forin=%s forrange=%s forassign=%s forincomp=%s forassigncomp=%s forincond=%s compr=%s comprcomp=%s\n"
                   (lp shape_forin_ident) (lp shape_forrange_ident) (lp shape_forrange_assign_ident) (lp shape_forin_computed)
                   (lp shape_forrange_assign_computed) (lp shape_forin_cond) (it range_compr_ident) (it range_compr_computed)
        | "D" -> Printf.printf "fordef=%s comprdef=%s fornostep=%s comprnostep=%s\n"
                   (lp shape_forin_defaults) (it range_compr_defaults) (lp shape_forin_nostep) (it range_compr_nostep)
        | "L" -> Printf.printf "forin=%s forrange=%s compr=%s\n" (lp shape_forin_ident) (lp shape_forrange_ident) (it range_compr_ident)
        | _ -> print_string "?\n")
     | _ -> print_string "?\n")
  done with End_of_file -> ()
