(* C19 — formatting preserves the syntax tree.  Theorems only; proofs in Proofs/Expr.v.

   Token-level kernel (Model/Expr.v): a tree as the parser returns it keeps its ParenExpr nodes; formatting
   prints it (pr) and the re-parse must give the same tree.
   KERNEL STATEMENT (proved in full, C19_format_preserves_parsed_tree): for every token list the model parser
   accepts, printing the resulting tree and parsing again gives the same tree, up to doubled parentheses
   "((x))" which the printer prints as "(x)".  It rests on the invariant that every tree the parser returns is
   well-formed, has its operands at readable positions and needs no further parentheses (C19_parser_image).
   For arbitrary (synthesised) trees the statement is false (C19_needs_parser_shape_refuted) - that is C22.
   Statements, declarations, layout and comments are not modelled: explored by checks/c19.py. *)
From Coq Require Import List ZArith Bool.
Import ListNotations.
From V Require Import Base.Prelude Gen.Tokens Model.Expr Proofs.ExprFuel Proofs.Expr Proofs.ExprImage Proofs.ExprGen Proofs.ExprTotal.
Open Scope Z_scope.

(* every tree the parser returns satisfies the hypotheses of the round trip *)
Theorem C19_parser_image : forall ts e, parse ts = ROk (PE e) [] ->
  validb e = true /\ posokb e = true /\ noaddw e = true.
Proof. intros ts e H. apply shp_inv. exact (parse_image _ ts e H). Qed.

(* format (= print) then parse is the identity on parser results, up to doubled parentheses *)
Theorem C19_format_preserves_parsed_tree : forall ts e, parse ts = ROk (PE e) [] ->
  parse (pr e) = ROk (PE (dedup e)) [] /\ strip (dedup e) = strip e.
Proof. intros ts e H. destruct (parsed_roundtrip_closed ts e H) as (A & _ & B). auto. Qed.

(* the formatter's output is again in the parser's image: it parses without error to a well-formed tree with the same
   structure, operands at readable positions, needing no further parentheses - so the statement applies to it again *)
Theorem C19_format_output_in_parser_image : forall ts e, parse ts = ROk (PE e) [] ->
  exists e', parse (pr e) = ROk (PE e') [] /\ strip e' = strip e /\ validb e' = true /\ posokb e' = true /\ noaddw e' = true.
Proof.
  intros ts e H. destruct (C19_format_preserves_parsed_tree ts e H) as (A & B).
  exists (dedup e). split; [exact A|split; [exact B|exact (C19_parser_image _ _ A)]].
Qed.

(* a tree that already carries the parentheses the grammar needs, and no doubled ones, is re-read as itself *)
Theorem C19_print_parse_roundtrip_parsed_partial : forall e,
  validb e = true -> lamokb e = true -> noaddb e = true -> parse (pr e) = ROk (PE e) [].
Proof.
  intros e V K A. rewrite <- (norm_id (sz e) e (le_n _) A) at 2. now apply roundtrip_lamok_closed.
Qed.

(* the token-level theorems speak about tokens; that the printed TEXT scans back to these tokens needs a blank wherever two
   adjacent tokens would otherwise be scanned as one: over the regenerated mayCombine table and the regenerated token spellings,
   every operator or prefix operator followed by a prefix operator that would glue is separated (also an obligation of C22) *)
Theorem C19_mayCombine_covers_prefix_operators :
  forallb (fun t1 => forallb (fun t2 => implb (glues t1 (first_byte t2)) (may_combine t1 (first_byte t2))) prefix_ops) before_ops = true.
Proof. exact mayCombine_covers. Qed.

(* without the shape of parser output the tree changes: the printer inserts parentheses (a ParenExpr appears) *)
Theorem C19_needs_parser_shape_refuted :
  let e := EBin xgo_MUL (EBin xgo_ADD (EId [97%N]) (EId [98%N])) (EId [99%N]) in
  validb e = true /\ lamokb e = true /\ noaddb e = false /\ exists e', parse (pr e) = ROk (PE e') [] /\ e' <> e.
Proof. intros e. repeat split; try reflexivity. eexists. split; [vm_compute; reflexivity|vm_compute; discriminate]. Qed.

(* in every case the structure modulo parentheses is kept *)
Theorem C19_structure_kept : forall e,
  validb e = true -> lamokb e = true -> exists e', parse (pr e) = ROk (PE e') [] /\ strip e' = strip e.
Proof. intros e V K. exists (norm e). split; [now apply roundtrip_lamok_closed|apply (strip_norm (sz e)); auto]. Qed.

(* non-vacuity: "(a + b) * -c[f(a, b...)]" as the parser returns it *)
Definition parsed : expr :=
  EBin xgo_MUL (EPar (EBin xgo_ADD (EId [97%N]) (EId [98%N])))
       (EUn xgo_SUB (EIdx (EId [99%N]) (ECall (EId [102%N]) [EId [97%N]; EId [98%N]] true))).
Example C19_example : validb parsed = true /\ lamokb parsed = true /\ noaddb parsed = true /\
  parse (pr parsed) = ROk (PE parsed) [].
Proof. vm_compute. auto 10. Qed.

(* non-vacuity of the kernel statement: tokens of  ((a + b)) * -c ! [ f(x => x, b...) ]  are accepted; the result has a
   doubled parenthesis, which is all that changes *)
Definition ex_toks : list tok :=
  [LP; LP; TId [97%N]; TOp xgo_ADD; TId [98%N]; RP; RP; TOp xgo_MUL; TOp xgo_SUB; TId [99%N]; TOp xgo_NOT; TOp xgo_LBRACK;
   TId [102%N]; LP; TId [120%N]; TOp xgo_DRARROW; TId [120%N]; COMMA; TId [98%N]; TOp xgo_ELLIPSIS; RP; TOp xgo_RBRACK].
Example C19_example_parsed : exists e, parse ex_toks = ROk (PE e) [] /\ dedup e <> e /\ parse (pr e) = ROk (PE (dedup e)) [] /\
  parse (pr (dedup e)) = ROk (PE (dedup e)) [].
Proof. eexists. vm_compute. repeat split; try reflexivity. discriminate. Qed.

Print Assumptions C19_mayCombine_covers_prefix_operators.
Print Assumptions C19_parser_image.
Print Assumptions C19_format_preserves_parsed_tree.
Print Assumptions C19_format_output_in_parser_image.
Print Assumptions C19_print_parse_roundtrip_parsed_partial.
Print Assumptions C19_needs_parser_shape_refuted.
Print Assumptions C19_structure_kept.
