(* C19 — formatting preserves the syntax tree.  Theorems only; proofs in Proofs/Expr.v.

   Token-level kernel (Model/Expr.v): a tree as the parser returns it keeps its ParenExpr nodes; formatting
   prints it (pr) and the re-parse must give the same tree.
   FULL STATEMENT: forall e, validb e = true -> exists fuel, parse_expr fuel (pr e) = ROk (PE e) [].
   It is refuted on the faithful model for trees that a program can build but the parser never returns
   (C19_needs_parser_shape_refuted); for the trees the parser does return the hypotheses noaddb (operands
   already parenthesised where the grammar needs it, no doubled parentheses) and posokb hold and the theorem
   applies.  Statements, declarations, layout and comments are explored by checks/c19.py. *)
From Coq Require Import List ZArith Bool.
Import ListNotations.
From V Require Import Base.Prelude Gen.Tokens Model.Expr Proofs.ExprFuel Proofs.Expr.
Open Scope Z_scope.

Theorem C19_print_parse_roundtrip_parsed_partial : forall e,
  validb e = true -> nolamb e = true -> posokb e = true -> noaddb e = true ->
  exists fuel, parse_expr fuel (pr e) = ROk (PE e) [].
Proof.
  intros e V L K A. destruct (roundtrip e V L K) as [f Hf]. exists f.
  rewrite (norm_id (sz e)) in Hf; auto.
Qed.

(* without the shape of parser output the tree changes: the printer inserts parentheses (a ParenExpr appears) *)
Theorem C19_needs_parser_shape_refuted :
  let e := EBin xgo_MUL (EBin xgo_ADD (EId [97%N]) (EId [98%N])) (EId [99%N]) in
  validb e = true /\ posokb e = true /\ noaddb e = false /\
  forall f e', parse_expr f (pr e) = ROk (PE e') [] -> e' <> e.
Proof.
  intros e. repeat split; try reflexivity. intros f e' H.
  assert (X : parse_expr 40 (pr e) = ROk (PE (norm e)) []) by (vm_compute; reflexivity).
  assert (E : parse_expr f (pr e) = parse_expr 40 (pr e)).
  { apply parse_expr_stable; [rewrite H|rewrite X]; discriminate. }
  rewrite H, X in E. injection E as ->. vm_compute. discriminate.
Qed.

(* in every case the structure modulo parentheses is kept *)
Theorem C19_structure_kept : forall e,
  validb e = true -> nolamb e = true -> posokb e = true ->
  exists fuel e', parse_expr fuel (pr e) = ROk (PE e') [] /\ strip e' = strip e.
Proof.
  intros e V L K. destruct (roundtrip e V L K) as [f Hf]. exists f, (norm e). split; auto. apply (strip_norm (sz e)); auto.
Qed.

(* non-vacuity: "(a + b) * -c[f(a, b...)]" as the parser returns it *)
Definition parsed : expr :=
  EBin xgo_MUL (EPar (EBin xgo_ADD (EId [97%N]) (EId [98%N])))
       (EUn xgo_SUB (EIdx (EId [99%N]) (ECall (EId [102%N]) [EId [97%N]; EId [98%N]] true))).
Example C19_example : validb parsed = true /\ nolamb parsed = true /\ posokb parsed = true /\ noaddb parsed = true /\
  parse (pr parsed) = ROk (PE parsed) [].
Proof. vm_compute. auto 10. Qed.

Print Assumptions C19_print_parse_roundtrip_parsed_partial.
Print Assumptions C19_needs_parser_shape_refuted.
Print Assumptions C19_structure_kept.
