(* C33 - token spellings round-trip through the scanners.  Theorems only; proofs (all by
   computation over the tables regenerated from /repo) in Proofs/ScanTokens.v.
   xgo_ops / tpl_ops / go_ops : the (code, spelling) entries of the `tokens` array that are
   operators or keywords (by the generated IsOperator / IsKeyword; for tpl: above literal_end). *)
From Coq Require Import List NArith ZArith Bool.
Import ListNotations.
From V Require Import Base.Prelude Gen.Tokens Gen.ScanTok Model.Scan Model.ScanTokens Proofs.ScanTokens.
Open Scope Z_scope.

(* spelling_scans_to_token: scanning the spelling gives exactly that token (offset 0, extent
   = the whole spelling, no error, then only an inserted semicolon and EOF).
   XGo: every operator/keyword except TILDE. *)
Theorem C33_xgo_spelling_scans_to_token : forall ul ud c sp,
  In (c, sp) xgo_ops -> c <> xgok_TILDE -> scans_to ul ud XGo c sp = true.
Proof. exact xgo_spelling_scans_all. Qed.

(* the exception, as a refutation: '~' is in the operator table but scans to ILLEGAL with an error *)
Theorem C33_xgo_tilde_refuted : forall ul ud,
  In (xgok_TILDE, [126%N]) xgo_ops /\ scans_to ul ud XGo xgok_TILDE [126%N] = false
  /\ exists t more errs, run ul ud XGo true [126%N] = Ok (t :: more, errs) /\ ttok t = T_ILLEGAL /\ errs <> [].
Proof. exact xgo_tilde_refuted. Qed.

Theorem C33_tpl_spelling_scans_to_token : forall ul ud c sp,
  In (c, sp) tpl_ops -> scans_to ul ud Tpl c sp = true.
Proof. exact tpl_spelling_scans_all. Qed.

(* the go/scanner model on go/token (used by C16) *)
Theorem C33_go_spelling_scans_to_token : forall ul ud c sp,
  In (c, sp) go_ops -> scans_to ul ud Go c sp = true.
Proof. exact go_spelling_scans_all. Qed.

(* string_is_spelling: Token.String() of an operator/keyword is that spelling *)
Theorem C33_xgo_string_is_spelling : forall c sp, In (c, sp) xgo_ops -> tok_string xgo_tokens c = Some sp.
Proof. exact (string_spelling_all _ _ xgo_string_spelling). Qed.
Theorem C33_tpl_string_is_spelling : forall c sp, In (c, sp) tpl_ops -> tok_string tpl_tokens c = Some sp.
Proof. exact (string_spelling_all _ _ tpl_string_spelling). Qed.

(* len_is_spelling_length (TPL): the generated body of Token.Len *)
Theorem C33_tpl_len_is_spelling_length : forall c sp, In (c, sp) tpl_ops -> tpl_Len c = Ok (zlen sp).
Proof. exact tpl_len_spelling_all. Qed.
Theorem C33_tpl_len_total : forallb (fun c => is_ok (tpl_Len c)) (zrange (-3) 400) = true.
Proof. exact tpl_len_total. Qed.

(* prec_nonzero_is_operator: over the whole table range (and margins) by enumeration, and
   outside it Precedence is 0 *)
Theorem C33_xgo_prec_nonzero_is_operator : forall c p,
  xgo_Precedence c = Ok p -> p <> 0 -> xgo_IsOperator c = Ok true.
Proof.
  intros c p P N. destruct (Z_lt_dec c (-3)) as [L|L]; [exfalso; apply N; apply (xgo_prec_outside c p); auto|].
  destruct (Z_lt_dec c 397) as [U|U]; [apply (xgo_prec_operator_all c p); auto; split; [apply Z.nlt_ge; exact L|exact U]|].
  exfalso; apply N; apply (xgo_prec_outside c p); auto. right. apply Z.nlt_ge. exact U.
Qed.

(* non-vacuity: the tables are not empty and contain the expected kinds of entries *)
Example C33_tables_nonempty :
  Nat.leb 70 (length xgo_ops) = true /\ Nat.leb 50 (length tpl_ops) = true /\ In (xgok_SHL_ASSIGN, [60; 60; 61]%N) xgo_ops
  /\ In (xgok_FALLTHROUGH, [102;97;108;108;116;104;114;111;117;103;104]%N) xgo_ops /\ In (tplk_POW, [42; 42]%N) tpl_ops.
Proof. vm_compute. intuition. Qed.
Example C33_example_scan : forall ul ud, scans_to ul ud XGo xgok_AND_NOT_ASSIGN [38; 94; 61]%N = true
  /\ xgo_Precedence xgok_AND_NOT = Ok 5 /\ xgo_IsOperator xgok_AND_NOT = Ok true.
Proof. intros. vm_compute. intuition. Qed.

Print Assumptions C33_xgo_spelling_scans_to_token.
Print Assumptions C33_xgo_tilde_refuted.
Print Assumptions C33_tpl_spelling_scans_to_token.
Print Assumptions C33_go_spelling_scans_to_token.
Print Assumptions C33_xgo_string_is_spelling.
Print Assumptions C33_tpl_string_is_spelling.
Print Assumptions C33_tpl_len_is_spelling_length.
Print Assumptions C33_tpl_len_total.
Print Assumptions C33_xgo_prec_nonzero_is_operator.
