(* C09 — line directives map every statement back to its XGo source line.
   Theorems only; proofs in Proofs/C09.v; model in Model/C09.v. *)
From Coq Require Import List NArith Bool.
Import ListNotations.
From V Require Import Base.Prelude Model.C09 Proofs.C09.

(* Go's //line semantics, soundness of the anchoring predicate: if every tagged line of a text is
   anchored (ok), Go attributes to each tagged line exactly the position in its tag *)
Theorem C09_go_line_of_anchored : forall ls i id t,
  ok ls -> nth_error ls i = Some (Code id (Some t)) -> go_line_of ls i = Some t.
Proof. exact ok_sound. Qed.

(* THE PROPERTY, for every package (any number of functions and methods in any order, any references between
   them — a function body may be compiled lazily in the middle of the statement that first refers to it —, any
   nesting of blocks, if/else chains, for/range/for-phrase loops, switch/type switch/select clauses, labels,
   function literals and lambdas), any fuel: whenever every doc comment is adjacent to its declaration (wf_prog),
   in the Go text emitted for every function the line holding the first code of a source statement, and the header
   line of the function, is attributed by Go's //line semantics to the XGo file and line of that statement. *)
Theorem C09_directive_maps_first_line : forall pr fuel out g ls i id t,
  wf_prog pr = true ->
  compile_prog fuel pr = Ok out -> In (g, ls) out ->
  nth_error ls i = Some (Code id (Some t)) -> go_line_of ls i = Some t.
Proof. exact directive_maps_first_line. Qed.

(* the same for one statement list compiled in ANY compiler state (whatever cb.comments holds, whichever
   functions are still unloaded): the emitted lines are anchored *)
Theorem C09_stmts_anchored : forall pr fuel b st ls st',
  wf_prog pr = true -> wf_stmts b = true -> all_ok (outf st) ->
  compile_stmts pr fuel b st = Ok (ls, st') -> ok ls.
Proof. exact stmts_anchored. Qed.

(* not vacuous: every positioned statement of a statement list DOES get a tagged line, the tagged lines come in
   source order, and no other line is tagged *)
Theorem C09_tags_exact : forall pr fuel b st ls st',
  compile_stmts pr fuel b st = Ok (ls, st') -> line_tags ls = somes (tags_stmts b).
Proof. exact stmts_tags_exact. Qed.

Theorem C09_every_statement_emitted : forall pr fuel b st ls st' t,
  compile_stmts pr fuel b st = Ok (ls, st') ->
  (In (Some t) (tags_stmts b) <-> exists i id, nth_error ls i = Some (Code id (Some t))).
Proof. exact stmts_emitted. Qed.

(* THE FILE: the name cl writes into a directive (filepath.Rel(RelativeBase, file), slash separated), read against
   RelativeBase, is the XGo source file — for all clean absolute paths *)
Theorem C09_directive_file_resolves : forall base targ,
  forallb plain_comp base = true -> forallb plain_comp targ = true -> targ <> [] ->
  resolve_against base (rel_path base targ) = targ.
Proof. exact rel_path_resolves. Qed.

Example C09_rel_examples :
  let a := [97]%N in let b := [98]%N in let c := [99]%N in let x := [120]%N in
  rel_path [a; b] [a; b; x] = [x] /\ rel_path [a; b; c] [a; x] = [dotdot; dotdot; x] /\ rel_path [a] [a] = [dot1].
Proof. vm_compute. auto. Qed.

(* ... and every top-level function and every method of the package has its Go function in the output (so the
   function-entry half of the property is not vacuous either), whatever the order in which lazy loading
   compiled them *)
Theorem C09_all_functions_emitted : forall pr fuel out,
  compile_prog fuel pr = Ok out ->
  (forall g, In g (func_names pr) -> In g (map fst out)) /\
  (forall g p dp hd dk body, In (DMethod g p dp hd dk body) pr -> In g (map fst out)).
Proof. exact all_functions_emitted. Qed.

(* termination: with distinct function names the model needs no more than prog_fuel (the summed sizes of the
   declarations), however the lazy loading nests; and it never panics *)
Theorem C09_compile_total : forall pr,
  nodupb (func_names pr) = true -> exists out, compile_prog (prog_fuel pr) pr = Ok out.
Proof. exact compile_prog_total. Qed.

(* The former defect (fixed in /repo by 8b20189: loadFuncBody restores the pending comment): the first reference
   to a function declared later.  The package
       11 func F() {
       12     mark(1)
       13     foo(mark(2))
       14     mark(3) }
       19 func foo(a int) {
       20     mark(5) }
   now maps line 13 to line 13 (before the repair the faithful model reported line 20). *)
Definition witness_fwd : prog :=
  [ DFunc 0 (Some (0, 5)) None false 0 false (SCons (SSimple 0 (Some (0, 6)) PNil) SNil);
    DFunc 1 (Some (0, 11)) None false 0 false
      (SCons (SSimple 1 (Some (0, 12)) (PRef 0 PNil))
      (SCons (SSimple 2 (Some (0, 13)) (PRef 2 (PRef 0 PNil)))
      (SCons (SSimple 3 (Some (0, 14)) (PRef 0 PNil)) SNil)));
    DFunc 2 (Some (0, 19)) None false 0 false (SCons (SSimple 5 (Some (0, 20)) (PRef 0 PNil)) SNil) ]%N.

Example C09_forward_reference :
  exists out ls, (compile_prog 20 witness_fwd = Ok out) /\ (In (1%N, ls) out) /\ (predict ls 2 = Some (0%N, 13%N)) /\
                 (map fst out = [0%N; 2%N; 1%N]).      (* foo is emitted while F is being compiled *)
Proof. eexists. eexists. split; [vm_compute; reflexivity|]. split; [right; right; left; reflexivity|]. vm_compute. auto. Qed.

(* WITHOUT the guard the property fails: a doc comment that is not adjacent.  gogen prints a block comment that is the
   doc of a LOCAL declaration on the same line as the declaration, i.e. the declaration comes docskip = (lines of
   the comment - 1) lines after the directive, one line early:
       28 /* doc of z
       29    second line */
       30 var z = mark(2)        is attributed to line 29
   (known finding C09 blockdoc; the printer is gogen's, outside /repo). *)
Definition witness_blockdoc : prog :=
  [ DFunc 0 (Some (0, 26)) None false 0 false
      (SCons (SDecl 2 (Some (0, 30)) (Some (0, 28)) true 1 PNil) SNil) ]%N.

Theorem C09_directive_maps_first_line_refuted_without_guard :
  exists pr fuel out g ls i id t,
    wf_prog pr = false /\ compile_prog fuel pr = Ok out /\ In (g, ls) out /\
    nth_error ls i = Some (Code id (Some t)) /\ go_line_of ls i <> Some t.
Proof.
  exists witness_blockdoc, 20%nat.
  eexists. exists 0%N. eexists. exists 4%nat, 2%N, (0, 30)%N.
  split; [vm_compute; reflexivity|]. split; [vm_compute; reflexivity|].
  split; [left; reflexivity|]. split; [vm_compute; reflexivity|].
  vm_compute. discriminate.
Qed.

(* non-vacuity of the theorem: a package that satisfies the guards, with nested control flow, a doc
   comment, a function literal, a switch with fallthrough, and a method; its output has tagged lines *)
Definition sample : prog :=
  [ DFunc 0 (Some (0, 3)) None false 0 false (SCons (SSimple 0 (Some (0, 4)) PNil) SNil);
    DFunc 1 (Some (0, 9)) (Some (0, 7)) true 2 false
      (SCons (SDecl 1 (Some (0, 11)) (Some (0, 10)) true 1 (PRef 0 PNil))
      (SCons (SIf 2 (Some (0, 12)) (OSome (SSimple 2 (Some (0, 12)) (PRef 0 PNil))) PNil
                (SCons (SSimple 3 (Some (0, 13)) (PRef 0 (PLit (SCons (SSimple 4 (Some (0, 14)) (PRef 0 PNil)) SNil) PNil))) SNil)
                (EIf (SIf 5 (Some (0, 16)) ONone (PRef 0 PNil) SNil (EBlock (SCons (SSimple 6 (Some (0, 18)) (PRef 1 PNil)) SNil)))))
      (SCons (SSwitch 7 (Some (0, 20)) ONone (PRef 0 PNil)
                (CCons 8 (Some (0, 21)) ONone (PRef 0 PNil) (SCons (SSimple 9 (Some (0, 22)) PNil) SNil) true
                (CCons 0 (Some (0, 24)) ONone PNil (SCons (SBlock (Some (0, 25)) (SCons (SSimple 10 (Some (0, 26)) PNil) SNil)) SNil) false CNil)))
      (SCons (SFor 11 (Some (0, 29)) (OSome (SSimple 11 (Some (0, 29)) (PRef 0 PNil))) PNil (OSome (SSimple 0 (Some (0, 29)) PNil))
                (SCons (SRange 12 (Some (0, 30)) (PRef 0 PNil) (SCons (SLabeled (Some (0, 31)) (SSimple 13 (Some (0, 32)) PNil)) SNil)) SNil))
       SNil))));
    DMethod 2 (Some (1, 5)) None false 0 (SCons (SSimple 14 (Some (1, 6)) (PRef 1 (PRef 0 PNil))) SNil) ]%N.

Example C09_sample_guards : nodupb (func_names sample) = true /\ wf_prog sample = true.
Proof. vm_compute. auto. Qed.

Example C09_sample_runs :
  exists out, compile_prog (prog_fuel sample) sample = Ok out /\
    length out = 3%nat /\
    (* 16 tagged lines in F, each attributed to its tag *)
    (exists ls, In (1%N, ls) out /\
       length (filter (fun x => match x with Code _ (Some _) => true | _ => false end) ls) = 16%nat /\
       predict ls 4 = Some (0, 14)%N /\ predict ls 13 = Some (0, 32)%N /\ predict ls 1 = Some (0, 11)%N).
Proof.
  eexists. split; [vm_compute; reflexivity|]. split; [reflexivity|].
  eexists. split; [right; left; reflexivity|]. vm_compute. auto.
Qed.

Print Assumptions C09_go_line_of_anchored.
Print Assumptions C09_directive_maps_first_line.
Print Assumptions C09_stmts_anchored.
Print Assumptions C09_tags_exact.
Print Assumptions C09_every_statement_emitted.
Print Assumptions C09_all_functions_emitted.
Print Assumptions C09_compile_total.
Print Assumptions C09_directive_file_resolves.
Print Assumptions C09_directive_maps_first_line_refuted_without_guard.
