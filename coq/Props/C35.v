(* C35 — project arguments are partitioned in order.  Theorems only; proofs in Proofs/C35.v. *)
From Coq Require Import List NArith Bool.
Import ListNotations.
From V Require Import Model.C35 Proofs.C35.

(* ParseAll terminates: the loop never runs out of the fuel |args|+1 *)
Theorem C35_total : forall args, parse_all args <> OutOfFuel.
Proof. exact parse_all_total. Qed.

(* the projects' arguments concatenate to the input, in order *)
Theorem C35_concat : forall args ps, parse_all args = Ok ps -> concat (map args_of ps) = args.
Proof. exact parse_all_concat. Qed.

(* every Files project is a non-empty run of file arguments, every Dir/Pkg project is a single
   non-file argument classified by isLocal, and two Files projects are never adjacent:
   with C35_concat this says the Files projects are exactly the maximal runs of file arguments *)
Theorem C35_runs_maximal : forall args ps, parse_all args = Ok ps -> runs_ok ps.
Proof. exact parse_all_runs. Qed.

(* the mixed-project error occurs exactly when both a file and a non-file argument occur *)
Theorem C35_mixed_iff : forall args,
  parse_all args = ErrMixed <->
  existsb is_file args = true /\ existsb (fun a => negb (is_file a)) args = true.
Proof. exact parse_all_mixed. Qed.

Theorem C35_ok_or_mixed : forall args, parse_all args = ErrMixed \/ exists ps, parse_all args = Ok ps.
Proof. exact parse_all_ok_or_mixed. Qed.

(* non-vacuity: a concrete list with two file runs separated by a directory is Ok-free (mixed),
   and a files-only list gives one project *)
Example C35_example_files :
  parse_all [[97;46;120];[98;46;120]]%N = Ok [Files [[97;46;120];[98;46;120]]%N].
Proof. vm_compute. reflexivity. Qed.
Example C35_example_mixed : parse_all [[97;46;120];[46];[98;46;120]]%N = ErrMixed.
Proof. vm_compute. reflexivity. Qed.
Example C35_example_dirs : parse_all [[46];[97;47;98]]%N = Ok [Dir [46]%N; Pkg [97;47;98]%N].
Proof. vm_compute. reflexivity. Qed.

Print Assumptions C35_total.
Print Assumptions C35_concat.
Print Assumptions C35_runs_maximal.
Print Assumptions C35_mixed_iff.
Print Assumptions C35_ok_or_mixed.
