(* C17 — every AST node's span is exact and nested.  Theorems only; proofs in Proofs/C17.v.

   Reading.  Each node kind has a concrete-syntax template (Model/C17.v: templates, written from the
   grammar comments of ast/ast.go and ast/ast_gop.go): the items that can be its first or last token,
   left to right, each with its presence condition and the field that records its position.
   "Pos is the offset of the first token, End the offset just after the last" = Pos()/End() equal the
   start of the first / the end of the last present template item (spec_pe); "children within the
   parent, in source order, not overlapping" = the intervals of the present items form a chain.
   The Pos()/End() bodies (pos_bodies) are regenerated from the source on every run.

   What the theorems do NOT cover (covered by the span oracle of the check on every corpus file):
   that the PARSER records the positions the templates name (e.g. a c"..." literal whose Value lacks
   the prefix, a command-style call whose NoParenEnd is the start of the next token), File (its End
   is a loop, modelled by hand and compared by K-diff), and the re-parse clause. *)
From Coq Require Import List String ZArith NArith Bool.
Import ListNotations.
From V Require Import Base.Prelude Base.AstTree Base.AstPos Model.C17 Proofs.C17 Gen.AstPos Gen.Tokens.
Open Scope string_scope.
Open Scope Z_scope.

(* the obligation on the regenerated bodies: for every kind and every valuation of the atomic conditions
   (children present or not, lists empty or not, positions valid or not, flags) that satisfies the
   template's side conditions, the branch Pos() takes returns the start of the first present item and
   the branch End() takes the end of the last one *)
Theorem C17_span_table_ok : span_table_ok pos_bodies = true.
Proof. vm_compute. reflexivity. Qed.

(* Pos() and End() of every node of a tree (any size) are exactly the span the templates define *)
Theorem C17_span_exact :
  forall fuel w t, good_tree implicit_base t = true ->
    pe pos_bodies xgo_tokens implicit_base fuel w t = spec_pe xgo_tokens implicit_base fuel w t.
Proof. exact (span_exact pos_bodies xgo_tokens implicit_base C17_span_table_ok). Qed.

Theorem C17_span_exact_generic :
  forall bodies tokens ibase, span_table_ok bodies = true ->
  forall fuel w t, good_tree ibase t = true -> pe bodies tokens ibase fuel w t = spec_pe tokens ibase fuel w t.
Proof. exact span_exact. Qed.

(* children nested, ordered, not overlapping: if the present items of a node are laid out one after the
   other, the node's span runs from the start of the first to the end of the last, every item (so every
   child) lies inside it, and earlier items end before later ones start *)
Theorem C17_children_nested_ordered :
  forall fuel n ivs, laid_out xgo_tokens implicit_base fuel n ivs -> ivs <> [] ->
    exists s0 e0 sl el, hd_error ivs = Some (s0, e0) /\ last_opt ivs = Some (sl, el) /\
      spec_pe xgo_tokens implicit_base (S fuel) true n = Ok s0 /\
      spec_pe xgo_tokens implicit_base (S fuel) false n = Ok el /\
      (forall s e, In (s, e) ivs -> s0 <= s /\ s <= e /\ e <= el) /\
      (forall i j a b, (i < j)%nat -> nth_error ivs i = Some a -> nth_error ivs j = Some b -> snd a <= fst b).
Proof. exact (nested_ordered xgo_tokens implicit_base). Qed.

(* ---- ValueSpec.End covers the Tag of a classfile field (repaired in /repo; formerly
        C17_span_refuted_ValueSpecTag) ---- *)
Definition vident (name : string) (p : Z) : node :=
  Node 0 "Ident" [("NamePos", VPos p); ("Name", VStr name); ("Obj", VNil)].
(* x int "t"      (a field of a class file: name, type, tag) *)
Definition ex_valuespec : node :=
  Node 0 "ValueSpec" [("Doc", VNil); ("Names", VList [VNode (vident "x" 10)]); ("Type", VNode (vident "int" 12));
                      ("Tag", VNode (Node 0 "BasicLit" [("ValuePos", VPos 16); ("Kind", VTok 9); ("Value", VStr """t"""); ("Extra", VNil)]));
                      ("Values", VList []); ("Comment", VNil)].

Example C17_example_ValueSpecTag_good : good_tree implicit_base ex_valuespec = true.
Proof. vm_compute. reflexivity. Qed.
(* instance of C17_span_exact: the span of the spec runs from the name to the end of the tag *)
Theorem C17_span_ValueSpecTag :
  pe pos_bodies xgo_tokens implicit_base 5 true ex_valuespec = Ok 10 /\
  pe pos_bodies xgo_tokens implicit_base 5 false ex_valuespec = Ok 19 /\
  spec_pe xgo_tokens implicit_base 5 false ex_valuespec = Ok 19.
Proof. repeat split; vm_compute; reflexivity. Qed.

(* ---- non-vacuity ---- *)
(* ${name} at offset 5:  "$" "{" name "}" *)
Definition ex_env : node :=
  Node 0 "EnvExpr" [("TokPos", VPos 5); ("Lbrace", VPos 6); ("Name", VNode (vident "name" 7)); ("Rbrace", VPos 11)].
Example C17_example_good : good_tree implicit_base ex_env = true.
Proof. vm_compute. reflexivity. Qed.
Example C17_example_span :
  (pe pos_bodies xgo_tokens implicit_base 5 true ex_env, pe pos_bodies xgo_tokens implicit_base 5 false ex_env) = (Ok 5, Ok 12).
Proof. vm_compute. reflexivity. Qed.
Example C17_example_laid_out :
  laid_out xgo_tokens implicit_base 4 ex_env [(5, 6); (7, 11); (11, 12)].
Proof. split; [vm_compute; reflexivity|]. cbn. repeat split; vm_compute; congruence. Qed.

(* ---- the obligation is sensitive: the defect repaired in /repo commit b6a617f makes it false ---- *)
Definition set_body (k : string) (b : pbody * pbody) (T : pos_table) : pos_table :=
  map (fun e => if String.eqb (fst e) k then (k, b) else e) T.
Example C17_sensitive_EnvExpr :     (* EnvExpr.End = Rbrace instead of Rbrace + 1 *)
  span_table_ok (set_body "EnvExpr" (PRet (PField "TokPos" 0), PIf (CValid "Rbrace") (PRet (PField "Rbrace" 0)) (PRet (PChildEnd "Name"))) pos_bodies) = false.
Proof. vm_compute. reflexivity. Qed.
Example C17_sensitive_wrong_child : (* BinaryExpr.End = X.End() *)
  span_table_ok (set_body "BinaryExpr" (PRet (PChildPos "X"), PRet (PChildEnd "X")) pos_bodies) = false.
Proof. vm_compute. reflexivity. Qed.
Example C17_sensitive_ValueSpec :   (* ValueSpec.End without the Tag case (the defect repaired in /repo) *)
  span_table_ok (set_body "ValueSpec"
     (PIf (CNot (CLenPos "Names")) (PRet (PChildPos "Type")) (PRet (PListFirstPos "Names")),
      PIf (CLenPos "Values") (PRet (PListLastEnd "Values")) (PIf (CNonNil "Type") (PRet (PChildEnd "Type")) (PRet (PListLastEnd "Names"))))
     pos_bodies) = false.
Proof. vm_compute. reflexivity. Qed.

Print Assumptions C17_span_table_ok.
Print Assumptions C17_span_exact.
Print Assumptions C17_span_exact_generic.
Print Assumptions C17_children_nested_ordered.
Print Assumptions C17_span_ValueSpecTag.
