(* C18 — AST traversal visits every node exactly once.  Theorems only; proofs in Proofs/C18.v.

   Reading.  Walk(v, t) calls v.Visit(t); if the result w is non-nil it walks every child of t
   with w, children in SOURCE order (Model/C18.v: src_template, written from the grammar, not
   from walk.go), and then calls w.Visit(nil); no panic on any node kind.  "Child" = every node
   held by a field of the node's struct (Gen/AstStructs.v), except File.Imports / File.Comments /
   File.ShadowEntry (aliases of nodes below Decls) and the synthesised header of a Shadow
   FuncDecl / the synthesised Name of a file without package clause.  Trees are well-formed:
   every node has the fields of its struct, children not documented "or nil" are present.

   walk_table, node_structs, rec_structs are regenerated from /repo on every run. *)
From Coq Require Import List String ZArith NArith Bool Permutation.
Import ListNotations.
From V Require Import Base.Prelude Base.AstTree Model.C18 Proofs.C18 Gen.AstStructs Gen.AstWalk.
Open Scope string_scope.

Definition wf (t : node) : bool := wf_tree node_structs rec_structs t.

(* the obligation on the regenerated tables: every node struct has a case in Walk; the case walks
   exactly the fields of the source-order template, in that order, each in the shape of its
   declared class, every optional child guarded; the template names every node-bearing field *)
Theorem C18_table_ok : table_ok walk_table node_structs rec_structs = true.
Proof. vm_compute. reflexivity. Qed.

(* Walk never panics and its visitor call sequence is exactly the specified one: the node,
   then its children in source order (recursively, with the returned visitor), then Visit(nil)
   — for every visitor (any state space V, any Visit function), every well-formed tree of any size *)
Theorem C18_walk_visits_each_once_preorder :
  forall (V : Type) (visit : V -> node -> option V) (v : V) (t : node),
    wf t = true -> exists es, walk_tree visit walk_table v t = Ok es /\ walks visit v t es.
Proof. intros. apply (walk_tree_correct _ _ _ C18_table_ok). assumption. Qed.

Theorem C18_walk_total :
  forall (V : Type) (visit : V -> node -> option V) (v : V) (t : node),
    wf t = true -> walk_tree visit walk_table v t <> Panic /\ walk_tree visit walk_table v t <> OutOfFuel.
Proof. intros. apply (walk_tree_total _ _ _ C18_table_ok). assumption. Qed.

(* the same for Inspect with any predicate *)
Theorem C18_inspect :
  forall (f : node -> bool) (t : node),
    wf t = true -> exists es, inspect walk_table f t = Ok es /\ walks (inspect_visit f) tt t es.
Proof. intros. apply (walk_tree_correct _ _ _ C18_table_ok). assumption. Qed.

(* the specified sequence is unique *)
Theorem C18_spec_functional :
  forall (V : Type) (visit : V -> node -> option V) v t es es',
    walks visit v t es -> walks visit v t es' -> es = es'.
Proof. intros. eapply walks_functional; eauto. Qed.

(* the children in source order are, as a multiset, ALL nodes held by the node's fields
   (template-free notion), minus the stated exclusions *)
Theorem C18_children_complete :
  forall n, wf_node node_structs rec_structs n = true -> Permutation (src_children n) (all_children n).
Proof. exact (children_perm _ _ _ C18_table_ok). Qed.

(* a visitor that never returns nil is called on every node below t (through non-excluded fields)
   exactly once: the multiset of visited nodes is the multiset of reachable nodes *)
Theorem C18_every_node_once :
  forall (V : Type) (visit : V -> node -> option V), (forall v n, visit v n <> None) ->
  forall v t es, wf t = true -> walk_tree visit walk_table v t = Ok es -> Permutation (enters es) (reach t).
Proof.
  intros V visit Hnp v t es Hwf Hw.
  destruct (walk_tree_correct _ _ _ C18_table_ok visit t v Hwf) as (es' & E & W).
  rewrite E in Hw. inversion Hw; subst. eapply (walks_once _ _ _ C18_table_ok); eauto.
Qed.

(* with node identities: if the nodes of the tree are pairwise distinct, no node is visited twice
   and none is missed *)
Theorem C18_distinct_nodes_once :
  forall (V : Type) (visit : V -> node -> option V), (forall v n, visit v n <> None) ->
  forall v t es, wf t = true -> walk_tree visit walk_table v t = Ok es ->
    NoDup (map nid (reach t)) ->
    NoDup (map nid (enters es)) /\ forall n, In n (reach t) <-> In n (enters es).
Proof.
  intros V visit Hnp v t es Hwf Hw ND.
  pose proof (C18_every_node_once V visit Hnp v t es Hwf Hw) as P. split.
  - eapply Permutation_NoDup; [apply Permutation_map, Permutation_sym, P|exact ND].
  - intros n. split; intros H; [eapply Permutation_in; [apply Permutation_sym, P|exact H] | eapply Permutation_in; [exact P|exact H]].
Qed.

(* the same theorems hold for ANY tables passing the obligation (what K-gen re-checks) *)
Theorem C18_generic :
  forall T St Rs, table_ok T St Rs = true ->
  forall (V : Type) (visit : V -> node -> option V) v t,
    wf_tree St Rs t = true -> exists es, walk_tree visit T v t = Ok es /\ walks visit v t es.
Proof. intros. eapply walk_tree_correct; eauto. Qed.

(* ---- non-vacuity and sensitivity ---- *)
Definition ident (i : N) (name : string) : node :=
  Node i "Ident" [("NamePos", VPos (Z.of_N i)); ("Name", VStr name); ("Obj", VOther)].
(* [x for v in xs if c]  :  ForPhrase Key=nil Value=v X=xs Cond=c *)
Definition ex_phrase : node :=
  Node 1 "ForPhrase" [("For", VPos 10); ("Key", VNil); ("Value", VNode (ident 2 "v")); ("TokPos", VPos 16);
                      ("X", VNode (ident 3 "xs")); ("IfPos", VPos 22); ("Init", VNil); ("Cond", VNode (ident 4 "c"))].
Definition ex_tree : node :=
  Node 0 "ComprehensionExpr" [("Lpos", VPos 1); ("Tok", VTok 50); ("Elt", VNode (ident 5 "x"));
                              ("Fors", VList [VNode ex_phrase]); ("Rpos", VPos 30)].

Example C18_example_wf : wf ex_tree = true.
Proof. vm_compute. reflexivity. Qed.

Example C18_example_walk :
  option_map (map nid) (match inspect walk_table (fun _ => true) ex_tree with Ok es => Some (enters es) | _ => None end)
  = Some [0; 5; 1; 2; 3; 4]%N.
Proof. vm_compute. reflexivity. Qed.

(* pruning at the ForPhrase: its children are skipped and no Visit(nil) is issued for it *)
Example C18_example_prune :
  match inspect walk_table (fun n => negb (String.eqb (kind n) "ForPhrase")) ex_tree with
  | Ok es => map (fun e => match e with EVisit _ n => Some (nid n) | ENil _ => None end) es
  | _ => []
  end = [Some 0; Some 5; None; Some 1; None]%N.
Proof. vm_compute. reflexivity. Qed.

(* the obligation is sensitive: the defects repaired in /repo commit 032499f each make it false *)
Definition drop_kind (k : string) (T : walk_table_t) : walk_table_t :=
  filter (fun e => negb (String.eqb (fst e) k)) T.
Definition set_kind (k : string) (steps : list wstep) (T : walk_table_t) : walk_table_t :=
  map (fun e => if String.eqb (fst e) k then (k, steps) else e) T.

Example C18_sensitive_missing_case :
  table_ok (drop_kind "MatrixLit" walk_table) node_structs rec_structs = false.
Proof. vm_compute. reflexivity. Qed.

Example C18_sensitive_order :   (* ForPhrase walked as Key, Value, Init, Cond, X *)
  table_ok (set_kind "ForPhrase"
              [WStep None None SNode "Key" true; WStep None None SNode "Value" true;
               WStep None None SNode "Init" true; WStep None None SNode "Cond" true;
               WStep None None SNode "X" false] walk_table) node_structs rec_structs = false.
Proof. vm_compute. reflexivity. Qed.

Example C18_sensitive_missing_field :   (* ValueSpec.Tag not walked *)
  table_ok (set_kind "ValueSpec"
              [WStep None None SNode "Doc" true; WStep None None SList "Names" false;
               WStep None None SNode "Type" true; WStep None None SList "Values" false;
               WStep None None SNode "Comment" true] walk_table) node_structs rec_structs = false.
Proof. vm_compute. reflexivity. Qed.

Example C18_sensitive_missing_guard :   (* ErrWrapExpr.Default walked without nil check *)
  table_ok (set_kind "ErrWrapExpr"
              [WStep None None SNode "X" false; WStep None None SNode "Default" false] walk_table)
           node_structs rec_structs = false.
Proof. vm_compute. reflexivity. Qed.

Example C18_missing_case_panics :
  inspect (drop_kind "ForPhrase" walk_table) (fun _ => true) ex_tree = Panic.
Proof. vm_compute. reflexivity. Qed.

Print Assumptions C18_table_ok.
Print Assumptions C18_walk_visits_each_once_preorder.
Print Assumptions C18_walk_total.
Print Assumptions C18_inspect.
Print Assumptions C18_spec_functional.
Print Assumptions C18_children_complete.
Print Assumptions C18_every_node_once.
Print Assumptions C18_distinct_nodes_once.
Print Assumptions C18_generic.
