(* C23 — import sorting keeps the import set (ast/import.go).  Theorems only; proofs in Proofs/C23.v.

   sort.Slice is not stable, so every theorem is stated for EVERY function `srt` that returns a
   permutation of its argument sorted for the less closure (`sorter_ok srt`); the executable model
   instantiates it with a stable insertion sort (C23_isort_is_a_sorter).  All spec lists, all line
   layouts, all declaration lists: no size bound. *)
From Coq Require Import List NArith ZArith Bool Permutation Sorting.Sorted.
Import ListNotations.
From V Require Import Base.Prelude Model.C23 Proofs.C23 Proofs.C23Lines.

Theorem C23_isort_is_a_sorter : sorter_ok isort.
Proof. exact isort_ok. Qed.

(* SortImports never panics (pos[i] is always in range) and its result satisfies file_post:
   declarations up to the first non-import declaration: parenthesised blocks are replaced by
   the concatenation of their sorted runs (block_post / run_post), everything else is unchanged *)
Theorem C23_sort_imports_total_and_shape : forall srt, sorter_ok srt ->
  forall ds, exists ds', sort_imports srt ds = Ok ds' /\ file_post ds ds'.
Proof. exact sort_imports_post. Qed.

(* sort_imports_set: the set of (name, path) of the whole file is unchanged *)
Theorem C23_sort_imports_set : forall srt, sorter_ok srt -> forall ds ds', sort_imports srt ds = Ok ds' ->
  forall p, In p (map np_of (file_specs ds')) <-> In p (map np_of (file_specs ds)).
Proof. exact sort_imports_set. Qed.

(* only_drops_dups + spec_atomic: the specs of the file are, as whole records (identity, name,
   path, has-comment, comment text together), the specs of the result plus some dropped ones;
   every dropped spec has no comment and its (name, path) is still imported *)
Theorem C23_only_drops_dups : forall srt, sorter_ok srt -> forall ds ds', sort_imports srt ds = Ok ds' ->
  exists dropped, Permutation (map ident_of (file_specs ds)) (map ident_of (file_specs ds') ++ map ident_of dropped) /\
                  Forall (dropped_ok (file_specs ds')) dropped.
Proof. exact sort_imports_drops. Qed.

Theorem C23_spec_atomic : forall srt, sorter_ok srt -> forall ds ds', sort_imports srt ds = Ok ds' ->
  incl (map ident_of (file_specs ds')) (map ident_of (file_specs ds)).
Proof. exact sort_imports_atomic. Qed.

(* runs_sorted, per run (sortSpecs): same (name,path) set; only comment-less duplicates dropped;
   sorted by (path, name, comment) hence by path; no removable duplicate left; distinct specs stay
   distinct; results take the first position slots of the run in order *)
Theorem C23_runs_sorted : forall srt, sorter_ok srt -> forall run,
  exists out, sort_specs srt run = Ok out /\ run_post run out.
Proof. exact sort_specs_post. Qed.

(* the runs of a block are its maximal groups of specs on successive lines: they concatenate to the
   block, are non-empty, have no line gap inside and a line gap between consecutive ones *)
Theorem C23_runs_are_line_groups : forall specs, specs <> [] ->
  concat (runs specs) = specs /\ Forall contiguous (runs specs) /\
  Forall (fun r => r <> []) (runs specs) /\ separated (runs specs).
Proof. exact runs_spec. Qed.

(* a block is replaced by the concatenation of its sorted runs *)
Theorem C23_block_is_sorted_runs : forall srt, sorter_ok srt -> forall specs,
  exists rs', sort_block srt specs = Ok (concat rs') /\ Forall2 run_post (runs specs) rs'.
Proof. exact sort_block_post. Qed.

(* instability of sort.Slice: any two admissible sorts produce the same key sequence, and unless
   key-equal specs differ in has-a-comment the same observable result (path, name, comment text,
   has-comment, positions) *)
Theorem C23_sorters_agree_on_keys : forall s1 s2, sorter_ok s1 -> sorter_ok s2 ->
  forall l, map key_of (s1 l) = map key_of (s2 l).
Proof. exact sorters_same_keys. Qed.

Theorem C23_tie_order_irrelevant : forall s1 s2 run o1 o2, sorter_ok s1 -> sorter_ok s2 -> mixed_ties run = false ->
  sort_specs s1 run = Ok o1 -> sort_specs s2 run = Ok o2 ->
  map obs_of o1 = map obs_of o2 /\ map span_of o1 = map span_of o2.
Proof. exact tie_independent. Qed.

(* ... and the exception is real: "a" and "a" // (empty comment text) keep one or two specs
   depending on their order *)
Theorem C23_mixed_ties_order_matters :
  let a := mkSpec 0 [] [97%N] false [] 0 0 1 1 in
  let b := mkSpec 1 [] [97%N] true [] 0 0 2 2 in
  dedupe [a; b] = [b] /\ dedupe [b; a] = [b; a] /\ key_of a = key_of b.
Proof. exact mixed_example_differs. Qed.

(* ---------------------------------------------------------------------------------------------
   The same statements for the model that carries the token.File line table (the one executed by
   the differential run): for EVERY line table, whenever SortImports returns, the declarations
   keep their kind and parentheses, every processed block is a cutting into consecutive runs each
   replaced by its sorted deduplicated version (file_post), hence set / duplicates / whole records: *)
Theorem C23_lines_shape : forall srt, sorter_ok srt -> forall ds lines ds' lines',
  sort_imports_m srt lines ds = Ok (ds', lines') ->
  file_post (map to_decl ds) (map to_decl ds') /\ map frame ds' = map frame ds.
Proof. exact sort_imports_m_spec. Qed.

Theorem C23_lines_sort_imports_set : forall srt, sorter_ok srt -> forall ds lines ds' lines',
  sort_imports_m srt lines ds = Ok (ds', lines') ->
  forall p, In p (map np_of (lfile_specs ds')) <-> In p (map np_of (lfile_specs ds)).
Proof. exact sort_imports_m_set. Qed.

Theorem C23_lines_only_drops_dups : forall srt, sorter_ok srt -> forall ds lines ds' lines',
  sort_imports_m srt lines ds = Ok (ds', lines') ->
  exists dropped, Permutation (map ident_of (lfile_specs ds)) (map ident_of (lfile_specs ds') ++ map ident_of dropped) /\
                  Forall (dropped_ok (lfile_specs ds')) dropped.
Proof. exact sort_imports_m_drops. Qed.

Theorem C23_lines_spec_atomic : forall srt, sorter_ok srt -> forall ds lines ds' lines',
  sort_imports_m srt lines ds = Ok (ds', lines') ->
  incl (map ident_of (lfile_specs ds')) (map ident_of (lfile_specs ds)).
Proof. exact sort_imports_m_atomic. Qed.

(* What does NOT hold for every layout (the faithful model refutes it; witnesses = known findings):
   "the groups the printer sees after SortImports are the sorted runs" — with two specs on one
   line a merge swallows the blank line after the run and two groups become one unsorted group *)
Theorem C23_groups_stay_sorted_refuted :
  let lines := [0; 9; 19; 20; 25]%Z in
  let ds := [LImport true 25 [mk 0 122 10 13; mk 1 122 15 18; mk 2 97 21 24]] in
  exists out lines', sort_imports_lines_exec lines ds = Ok ([LImport true 25 out], lines') /\
    map (map sid) (groups_in lines [mk 0 122 10 13; mk 1 122 15 18; mk 2 97 21 24]) = [[0; 1]; [2]]%nat /\
    map (map sid) (groups_in lines' out) = [[1; 2]]%nat /\ forallb path_sorted (groups_in lines' out) = false.
Proof. exact glued_witness. Qed.

(* "SortImports never panics": a removable duplicate on the last line of the file makes MergeLine panic *)
Theorem C23_no_panic_refuted :
  sort_imports_lines_exec [0%Z] [LImport true 16 [mk 0 97 8 11; mk 1 97 13 16]] = Panic.
Proof. exact merge_panic_witness. Qed.

(* "run boundaries are those of the original layout": line merges of one run can glue LATER runs *)
Theorem C23_runs_of_original_layout_refuted :
  let lines := [0; 9; 29; 30; 35; 36; 41]%Z in
  let sp := [mk 0 122 10 13; mk 1 122 15 18; mk 2 122 20 23; mk 3 122 25 28; mk 4 98 31 34; mk 5 97 37 40] in
  exists out lines', sort_imports_lines_exec lines [LImport true 41 sp] = Ok ([LImport true 41 out], lines') /\
    map sid out = [3; 5; 4]%nat /\ map (map sid) (groups_in lines sp) = [[0; 1; 2; 3]; [4]; [5]]%nat.
Proof. exact later_runs_witness. Qed.

(* ... and what DOES hold: when, in every processed block, each spec starts on its own line (lines
   strictly increasing along the block), the closing parenthesis is on a later line and the blocks
   follow each other (file_layout; the line fields of the records are the lines of the table up to a
   uniform shift k), then SortImports never panics (every MergeLine call is in range, for every
   admissible sort) and returns exactly the specs of the layout-free functions, i.e. the sorted
   runs of the ORIGINAL layout (C23_runs_are_line_groups, C23_block_is_sorted_runs apply).
   Not proved (covered by the differential run only): that the groups the PRINTER shows are those runs. *)
Theorem C23_one_spec_per_line_total_and_layout_free : forall srt, sorter_ok srt ->
  forall ds lines k lo, tab_ok lines -> file_layout lines k lo ds ->
  exists ds' lines', sort_imports_m srt lines ds = Ok (ds', lines') /\
                     sort_imports srt (map to_decl ds) = Ok (map to_decl ds').
Proof. exact sort_imports_m_ok. Qed.

(* MergeLine, as modelled, is what the theorem above rests on: in a sorted table, merging line L
   moves every position on a later line up by one and leaves the others *)
Theorem C23_merge_line_effect : forall lines L, tab_ok lines -> (1 <= L < zlen lines)%Z ->
  exists lines', merge_line lines L = Ok lines' /\ tab_ok lines' /\ zlen lines' = (zlen lines - 1)%Z /\
    forall q, line_at lines' q = if (line_at lines q >? L)%Z then (line_at lines q - 1)%Z else line_at lines q.
Proof. exact merge_ok. Qed.

(* non-vacuity:  import ( "b" ; "a" // x ; "a" ; x "a" ;; "z" ; "y" )  on lines 2,3,4,5,7,8 *)
Definition ex_block : list spec :=
  [mkSpec 0 [] [98%N] false [] 10 13 2 2; mkSpec 1 [] [97%N] true [120%N;10%N] 15 18 3 3;
   mkSpec 2 [] [97%N] false [] 25 28 4 4; mkSpec 3 [120%N] [97%N] false [] 30 35 5 5;
   mkSpec 4 [] [122%N] false [] 38 41 7 7; mkSpec 5 [] [121%N] false [] 43 46 8 8].
Example C23_example_runs : map (map sid) (runs ex_block) = [[0;1;2;3]; [4;5]]%nat.
Proof. vm_compute. reflexivity. Qed.
Example C23_example_sorted :
  sort_imports isort [ImportDecl true ex_block; OtherDecl] =
  Ok [ImportDecl true [mkSpec 1 [] [97%N] true [120%N;10%N] 10 13 2 2; mkSpec 3 [120%N] [97%N] false [] 15 18 3 3;
                       mkSpec 0 [] [98%N] false [] 25 28 4 4;
                       mkSpec 5 [] [121%N] false [] 38 41 7 7; mkSpec 4 [] [122%N] false [] 43 46 8 8]; OtherDecl].
Proof. vm_compute. reflexivity. Qed.
Example C23_example_after_other_untouched :
  sort_imports isort [OtherDecl; ImportDecl true ex_block] = Ok [OtherDecl; ImportDecl true ex_block].
Proof. vm_compute. reflexivity. Qed.
(* the hypothesis of C23_one_spec_per_line_total_and_layout_free is satisfiable: the block above in its
   line table (line starts 0 9 14 24 29 36 37 42 47, closing parenthesis at offset 48 on line 9) *)
Definition ex_lines : list Z := [0; 9; 14; 24; 29; 36; 37; 42; 47]%Z.
Example C23_example_layout : tab_ok ex_lines /\ file_layout ex_lines 0 0 [LImport true 48 ex_block; LOther].
Proof.
  split; [unfold tab_ok; repeat constructor|].
  simpl. repeat split; try exact I;
    try (destruct H as [<-|[<-|[<-|[<-|[<-|[<-|[]]]]]]]; vm_compute; (reflexivity || discriminate)).
  - unfold incr. repeat constructor; vm_compute; reflexivity.
  - vm_compute; discriminate.
Qed.
Example C23_example_lines_run :
  exists lines', sort_imports_lines_exec ex_lines [LImport true 48 ex_block; LOther] =
    Ok ([LImport true 48 [mkSpec 1 [] [97%N] true [120%N;10%N] 10 13 2 2; mkSpec 3 [120%N] [97%N] false [] 15 18 3 3;
                          mkSpec 0 [] [98%N] false [] 25 28 4 4;
                          mkSpec 5 [] [121%N] false [] 38 41 7 7; mkSpec 4 [] [122%N] false [] 43 46 8 8]; LOther], lines').
Proof. vm_compute. eexists. reflexivity. Qed.
Example C23_example_reassign_can_panic : reassign [] ex_block = Panic.
Proof. vm_compute. reflexivity. Qed.

Print Assumptions C23_isort_is_a_sorter.
Print Assumptions C23_sort_imports_total_and_shape.
Print Assumptions C23_sort_imports_set.
Print Assumptions C23_only_drops_dups.
Print Assumptions C23_spec_atomic.
Print Assumptions C23_runs_sorted.
Print Assumptions C23_runs_are_line_groups.
Print Assumptions C23_block_is_sorted_runs.
Print Assumptions C23_sorters_agree_on_keys.
Print Assumptions C23_tie_order_irrelevant.
Print Assumptions C23_mixed_ties_order_matters.
Print Assumptions C23_lines_shape.
Print Assumptions C23_lines_sort_imports_set.
Print Assumptions C23_lines_only_drops_dups.
Print Assumptions C23_lines_spec_atomic.
Print Assumptions C23_groups_stay_sorted_refuted.
Print Assumptions C23_no_panic_refuted.
Print Assumptions C23_runs_of_original_layout_refuted.
Print Assumptions C23_one_spec_per_line_total_and_layout_free.
Print Assumptions C23_merge_line_effect.
