(* C04 — a range expression start:end:step denotes the same integer sequence in every context.
   Theorems only; proofs in Proofs/C04.v.

   Model: run_shape interprets the `for` statement cl/stmt.go:toForStmt emits (shape REGENERATED
   from the compiler's output on every run into Gen/RangeLoop.v: shapes_full = for-in / for-range /
   for-range-assign over identifier and computed operands and with an `if` filter); iter_of_args is
   the runtime iterator qiniu/x/xgo.IntRange (Gop_Enum/Next) applied to the NewRange__0 arguments
   the compiler emits for a comprehension (ranges_full).  Integers are Z (no overflow). *)
From Coq Require Import List ZArith Bool.
Import ListNotations.
From V Require Import Base.Prelude Base.RangeOps Model.RangeLoop Gen.RangeLoop Proofs.C04.
Open Scope Z_scope.

(* the full property is   forall s e st, st <> 0 -> <all contexts enumerate the same list>.
   It is FALSE for the code as it is (C04_range_contexts_refuted below); what holds is the
   positive-step half, for every s, e, st > 0, with an explicit fuel bound (= termination): *)
Theorem C04_range_contexts_agree_pos : forall s e st, 0 < st ->
  forall fuel, (fuel_bound s e st <= fuel)%nat ->
  Forall (fun sh => run_shape fuel sh s e st = Ok (range_list s e st)) shapes_full /\
  Forall (fun a => iter_of_args fuel a s e st = Ok (range_list s e st)) ranges_full.
Proof. exact contexts_agree_pos. Qed.

(* the common value is the arithmetic progression s, s+st, ... strictly below e, and it is maximal *)
Theorem C04_range_list_meaning : forall s e st, 0 < st ->
  (forall i x, nth_error (range_list s e st) i = Some x -> x = s + Z.of_nat i * st /\ s <= x < e) /\
  e <= s + Z.of_nat (length (range_list s e st)) * st \/ e <= s.
Proof. exact range_list_meaning. Qed.

(* omitted start means 0 and omitted step means 1, in every context *)
Theorem C04_range_defaults : forall e fuel, (fuel_bound 0 e 1 <= fuel)%nat ->
  Forall (fun sh => forall s st, run_shape fuel sh s e st = Ok (range_list 0 e 1)) shapes_defaults /\
  Forall (fun a => forall s st, iter_of_args fuel a s e st = Ok (range_list 0 e 1)) ranges_defaults.
Proof. exact defaults_agree. Qed.

Theorem C04_range_nostep : forall s e fuel, (fuel_bound s e 1 <= fuel)%nat ->
  Forall (fun sh => forall st, run_shape fuel sh s e st = Ok (range_list s e 1)) shapes_nostep /\
  Forall (fun a => forall st, iter_of_args fuel a s e st = Ok (range_list s e 1)) ranges_nostep.
Proof. exact nostep_agree. Qed.

(* the quantifiers above are not over empty tables *)
Theorem C04_tables_nonempty : shapes_full <> [] /\ ranges_full <> [] /\ shapes_defaults <> [] /\
  ranges_defaults <> [] /\ shapes_nostep <> [] /\ ranges_nostep <> [].
Proof. exact gen_nonempty. Qed.

(* REFUTED for the code as it is: with a negative step the statement contexts and the
   comprehension disagree.  Witness (5, 0, -1): `for i <- 5:0:-1` is empty, `[i for i <- 5:0:-1]`
   is 5,4,3,2,1.  (known finding; the check replays the witness on the implementation) *)
Theorem C04_range_contexts_refuted : exists s e st, st <> 0 /\
  exists sh a, In sh shapes_full /\ In a ranges_full /\
    run_shape 8 sh s e st = Ok [] /\ iter_of_args 8 a s e st = Ok [5; 4; 3; 2; 1].
Proof. exact contexts_refuted. Qed.

(* ... and exactly how: for every negative step the emitted loop `v < end; v += step` is empty
   (end <= start) or never terminates (start < end: OutOfFuel for every fuel), while the iterator
   counts down from start while > end *)
Theorem C04_negative_step_characterised : forall s e st, st < 0 ->
  Forall (fun sh => (e <= s -> forall fuel, run_shape (S fuel) sh s e st = Ok []) /\
                    (s < e -> forall fuel, run_shape fuel sh s e st = OutOfFuel)) shapes_full /\
  Forall (fun a => forall fuel, (fuel_bound_neg s e st <= fuel)%nat ->
                    iter_of_args fuel a s e st = Ok (range_list_neg s e st)) ranges_full.
Proof. exact negstep_characterised. Qed.

(* step = 0 (excluded by the property): the iterator panics (integer divide by zero) *)
Theorem C04_zero_step_iter_panics : forall fuel s e, iter_seq fuel s e 0 = Panic.
Proof. exact iter_zero_step. Qed.

(* non-vacuity *)
Example C04_example_pos : run_shape (fuel_bound (-3) 4 3) shape_forin_computed (-3) 4 3 = Ok [-3; 0; 3]
  /\ iter_of_args (fuel_bound (-3) 4 3) range_compr_ident (-3) 4 3 = Ok [-3; 0; 3]
  /\ range_list (-3) 4 3 = [-3; 0; 3].
Proof. vm_compute. auto. Qed.
Example C04_example_defaults : run_shape 9 shape_forin_defaults 77 4 (-9) = Ok [0; 1; 2; 3].
Proof. vm_compute. reflexivity. Qed.
Example C04_example_neg : iter_of_args 9 range_compr_ident 5 0 (-2) = Ok [5; 3; 1] /\ range_list_neg 5 0 (-2) = [5; 3; 1].
Proof. vm_compute. auto. Qed.

Print Assumptions C04_range_contexts_agree_pos.
Print Assumptions C04_range_list_meaning.
Print Assumptions C04_range_defaults.
Print Assumptions C04_range_nostep.
Print Assumptions C04_tables_nonempty.
Print Assumptions C04_range_contexts_refuted.
Print Assumptions C04_negative_step_characterised.
Print Assumptions C04_zero_step_iter_panics.
