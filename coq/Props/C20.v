(* C20 — formatting is idempotent.  Theorems only; proofs in Proofs/Expr.v.

   Token-level kernel (Model/Expr.v): formatting = parse, then print.  A second pass parses the first pass's
   output and prints again; the theorem says the tokens of the second pass equal those of the first.
   Line breaks, alignment and blanks (layout) are NOT in the model: explored by checks/c20.py. *)
From Coq Require Import List ZArith Bool.
Import ListNotations.
From V Require Import Base.Prelude Gen.Tokens Model.Expr Proofs.ExprFuel Proofs.Expr Proofs.ExprImage Proofs.ExprTotal.
Open Scope Z_scope.

(* KERNEL STATEMENT (proved in full): for every token list the model parser accepts (first pass: parse ts = e, output pr e),
   the second pass accepts the first output and prints the same tokens again *)
Theorem C20_second_pass_same_tokens : forall ts e, parse ts = ROk (PE e) [] ->
  exists e', parse (pr e) = ROk (PE e') [] /\ pr e' = pr e.
Proof. intros ts e H. destruct (parsed_roundtrip_closed ts e H) as (A & B & _). exists (dedup e). auto. Qed.

(* print (parse (print e)) = print e, for every well-formed tree except a lambda whose body prints with a leading parenthesis *)
Theorem C20_print_parse_print_partial : forall e,
  validb e = true -> lamokb e = true -> exists e', parse (pr e) = ROk (PE e') [] /\ pr e' = pr e.
Proof. intros e V K. exists (norm e). split; [now apply roundtrip_lamok_closed|apply (pr_norm (sz e)); auto]. Qed.

(* the parenthesised tree is a fixed point: nothing more is inserted the second time *)
Theorem C20_norm_idempotent : forall e, validb e = true -> pr (norm (norm e)) = pr (norm e) /\ pr (norm e) = pr e.
Proof. exact norm_print_stable. Qed.

(* FORMAT AS A FUNCTION on token lists: parse, then print; undefined where the parser rejects.  This is the shape of
   format.Source: the property "formatting the formatted output again returns it unchanged" is fmt out = Some out. *)
Definition fmt (ts : list tok) : option (list tok) :=
  match parse ts with ROk (PE e) [] => Some (pr e) | _ => None end.

Fixpoint passes (n : nat) (ts : list tok) : option (list tok) :=
  match n with O => Some ts | S n' => match fmt ts with Some out => passes n' out | None => None end end.

(* idempotence proper: whatever the first pass returns, the second pass accepts it and returns it unchanged *)
Theorem C20_format_idempotent : forall ts out, fmt ts = Some out -> fmt out = Some out.
Proof.
  unfold fmt. intros ts out H.
  destruct (parse ts) as [v r| | |] eqn:P; try discriminate. destruct v as [e|items ell]; try discriminate.
  destruct r as [|t r]; try discriminate. injection H as <-.
  destruct (C20_second_pass_same_tokens ts e P) as (e' & Q & R). rewrite Q. now rewrite R.
Qed.

(* ... and so does every later pass: the output of the first pass is a fixed point of any number of passes *)
Theorem C20_every_later_pass_unchanged : forall n ts out, fmt ts = Some out -> passes n out = Some out.
Proof.
  induction n as [|n IH]; intros ts out H; cbn [passes]; [reflexivity|].
  rewrite (C20_format_idempotent ts out H). exact (IH out out (C20_format_idempotent ts out H)).
Qed.

(* n+1 passes over the source give what one pass gives; the formatter never starts rejecting its own output *)
Theorem C20_passes_collapse : forall n ts out, fmt ts = Some out -> passes (S n) ts = Some out.
Proof. intros n ts out H. cbn [passes]. rewrite H. exact (C20_every_later_pass_unchanged n ts out H). Qed.

Definition ex : expr := EBin xgo_MUL (EBin xgo_ADD (EId [97%N]) (EId [98%N])) (EUn xgo_SUB (EBin xgo_SUB (EId [97%N]) (EId [98%N]))).
Example C20_example : validb ex = true /\ lamokb ex = true /\ norm ex <> ex /\ pr (norm ex) = pr ex /\
  parse (pr (norm ex)) = ROk (PE (norm ex)) [].
Proof. vm_compute. repeat split; try reflexivity. discriminate. Qed.

(* non-vacuity: tokens of  ((a + b)) * -c  are accepted; the first pass changes them (drops a doubled parenthesis),
   three further passes change nothing *)
Definition ex_src : list tok :=
  [TOp xgo_LPAREN; TOp xgo_LPAREN; TId [97%N]; TOp xgo_ADD; TId [98%N]; TOp xgo_RPAREN; TOp xgo_RPAREN; TOp xgo_MUL; TOp xgo_SUB; TId [99%N]].
Example C20_example_passes : exists out, fmt ex_src = Some out /\ out <> ex_src /\ passes 4 ex_src = Some out.
Proof. eexists. vm_compute. repeat split; try reflexivity. discriminate. Qed.

Print Assumptions C20_second_pass_same_tokens.
Print Assumptions C20_print_parse_print_partial.
Print Assumptions C20_norm_idempotent.
Print Assumptions C20_format_idempotent.
Print Assumptions C20_every_later_pass_unchanged.
Print Assumptions C20_passes_collapse.
