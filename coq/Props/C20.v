(* C20 — formatting is idempotent.  Theorems only; proofs in Proofs/Expr.v.

   Token-level kernel (Model/Expr.v): formatting = parse, then print.  A second pass parses the first pass's
   output and prints again; the theorem says the tokens of the second pass equal those of the first.
   Line breaks, alignment and blanks (layout) are NOT in the model: explored by checks/c20.py. *)
From Coq Require Import List ZArith Bool.
Import ListNotations.
From V Require Import Base.Prelude Gen.Tokens Model.Expr Proofs.ExprFuel Proofs.Expr Proofs.ExprImage Proofs.ExprTotal.
Open Scope Z_scope.

(* KERNEL STATEMENT (proved in full): for every token list the model parser accepts (first pass: parse ts = e, output pr e),
   the second pass accepts the first output and prints the same tokens again *)
Theorem C20_second_pass_same_tokens : forall ts e, parse ts = ROk (PE e) [] ->
  exists e', parse (pr e) = ROk (PE e') [] /\ pr e' = pr e.
Proof. intros ts e H. destruct (parsed_roundtrip_closed ts e H) as (A & B & _). exists (dedup e). auto. Qed.

(* print (parse (print e)) = print e, for every well-formed tree except a lambda whose body prints with a leading parenthesis *)
Theorem C20_print_parse_print_partial : forall e,
  validb e = true -> lamokb e = true -> exists e', parse (pr e) = ROk (PE e') [] /\ pr e' = pr e.
Proof. intros e V K. exists (norm e). split; [now apply roundtrip_lamok_closed|apply (pr_norm (sz e)); auto]. Qed.

(* the parenthesised tree is a fixed point: nothing more is inserted the second time *)
Theorem C20_norm_idempotent : forall e, validb e = true -> pr (norm (norm e)) = pr (norm e) /\ pr (norm e) = pr e.
Proof. exact norm_print_stable. Qed.

Definition ex : expr := EBin xgo_MUL (EBin xgo_ADD (EId [97%N]) (EId [98%N])) (EUn xgo_SUB (EBin xgo_SUB (EId [97%N]) (EId [98%N]))).
Example C20_example : validb ex = true /\ lamokb ex = true /\ norm ex <> ex /\ pr (norm ex) = pr ex /\
  parse (pr (norm ex)) = ROk (PE (norm ex)) [].
Proof. vm_compute. repeat split; try reflexivity. discriminate. Qed.

Print Assumptions C20_second_pass_same_tokens.
Print Assumptions C20_print_parse_print_partial.
Print Assumptions C20_norm_idempotent.
