(* C01 — a valid Go program means the same compiled as XGo: the kernel.
   Theorems only; proofs in Proofs/C01.v.

   MiniGo (ints, bools, strings, structs, assignment, if, for with labelled break/continue, calls
   of niladic functions, panic, defer/recover, os.Exit, package-level variables with effectful
   initialisers, an output trace; fuelled big-step evaluator).  Proved: the normalisations cl
   performs on plain Go — marker constant, dropped parentheses, split struct field groups —
   preserve the observable behaviour (how the run ends, what is printed) for every program and
   fuel; emission of the declarations in load order is the identity, hence harmless, when no
   function refers to a package-level variable declared after it, and it CHANGES the
   initialisation order otherwise (refuted with a witness; the same program fails on the real
   toolchain: known finding var-init-order).  Everything else (gogen below the builder API, Go
   features outside MiniGo) is explored by building and running both programs. *)
From Coq Require Import List NArith ZArith Bool Permutation.
Import ListNotations.
From V Require Import Base.Prelude Model.C01 Proofs.C01.

Theorem C01_lower_go_preserves : forall (p : prog) (fuel : nat), run fuel (lower_go p) = run fuel p.
Proof. exact lower_go_preserves. Qed.

(* one lemma per normalisation *)
Theorem C01_strip_parens_eval : forall r e, eval_expr r (strip e) = eval_expr r e.
Proof. exact strip_eval. Qed.
Theorem C01_split_fields_same_struct : forall groups, fields_of (split_fields groups) = fields_of groups.
Proof. exact fields_of_split. Qed.
Theorem C01_exec_lower : forall p fuel s st, exec (lower_go p) fuel (strip_stmt s) st = exec p fuel s st.
Proof. exact exec_lower. Qed.

(* load-order emission *)
Theorem C01_emit_order_identity : forall p, no_forward_refs p [] p = true -> emit_order p = p.
Proof. exact emit_order_id. Qed.
Theorem C01_emit_order_preserves :
  forall p fuel, no_forward_refs p [] p = true -> run fuel (lower_go (emit_order p)) = run fuel p.
Proof. intros. rewrite lower_go_preserves. apply emit_order_preserves. assumption. Qed.

(* whatever the references: load-order emission never loses or duplicates a declaration *)
Theorem C01_emit_order_permutation : forall p, NoDup (var_names p) -> Permutation (emit_order p) p.
Proof. exact emit_order_perm. Qed.

(* with a forward reference the initialisation order, hence the output, changes *)
Theorem C01_emit_order_init_refuted :
  var_names (emit_order init_order_witness) = [11; 10]%N /\
  run 10 init_order_witness = (Normal, [VInt 100; VInt 200; VInt 2]) /\
  run 10 (emit_order init_order_witness) = (Normal, [VInt 200; VInt 100; VInt 2]).
Proof. exact init_order_refuted. Qed.

(* expression switch with fallthrough: the model the switch matrix of the check is compared with.
   Dropping the fallthrough of a default clause is harmless when no default clause ends with one, and for
   a clause that is last; it is NOT harmless in general (the seeded defect seeded/C01) *)
Theorem C01_switch_drop_default_fallthrough_harmless_without :
  forall cs, forallb (fun c => match c with (None, _, true) => false | _ => true end) cs = true ->
    forall v, switch_exec (drop_default_fallthrough cs) v = switch_exec cs v.
Proof. intros cs H v. rewrite run_from_drop_no_default_fall; auto. Qed.
Theorem C01_switch_last_clause_fallthrough_irrelevant :
  forall pre o m f, run_from (pre ++ [(o, m, f)]) = run_from (pre ++ [(o, m, false)]).
Proof. exact run_from_last_fall_irrelevant. Qed.
Theorem C01_switch_drop_default_fallthrough_refuted :
  exists cs v, switch_exec (drop_default_fallthrough cs) v <> switch_exec cs v.
Proof. exact drop_default_fallthrough_refuted. Qed.
Definition ex_switch : list clause :=
  [(Some 0%Z, 10%N, true); (None, 20%N, true); (Some 1%Z, 30%N, false); (Some 2%Z, 40%N, false)].
Example C01_example_switch :
  switch_exec ex_switch 0%Z = [10; 20; 30]%N /\ switch_exec ex_switch 7%Z = [20; 30]%N /\
  switch_exec ex_switch 2%Z = [40]%N /\ switch_exec (drop_default_fallthrough ex_switch) 7%Z = [20]%N.
Proof. repeat split; vm_compute; reflexivity. Qed.

(* keyed struct literals: the key denotes the field with exactly that name (what Go does and what cl's
   lookupField does); resolving a capitalised alias in the same pass picks another field as soon as a field
   spelt that way is declared earlier (the seeded defect seeded/C01b) *)
Theorem C01_lookup_field_exact :
  forall fs name i, lookup_field fs name = Some i -> nth_error fs i = Some name.
Proof. exact lookup_field_exact. Qed.
Theorem C01_lookup_field_alias_harmless_without_pair :
  forall fs name, forallb (fun f => negb (str_eqb f (capitalise name)) || str_eqb f name) fs = true ->
    lookup_field_alias fs name = lookup_field fs name.
Proof. exact lookup_field_alias_same. Qed.
Theorem C01_lookup_field_alias_refuted :
  exists fs name i j, lookup_field fs name = Some i /\ lookup_field_alias fs name = Some j /\ i <> j.
Proof. exact lookup_field_alias_refuted. Qed.

(* ---- non-vacuity: defer/recover, a labelled loop, a struct with grouped fields, parentheses ---- *)
Definition ex_prog : prog :=
  [ DStruct 1 [([1; 2], VInt 0); ([3], VStr [])];
    DVar 20 (EParen (EBin Add (EInt 1) (EParen (EInt 2)))) (SPrint (EStr [105]));
    DFunc 1 (SSeq (SPrint (EVar 20)) (SPanic (EStr [112])));
    DFunc 0
      (SSeq (SNew 30 1)
      (SSeq (SFieldAssign 30 2 (EParen (EBin Mul (EParen (EBin Add (EVar 20) (EInt 1))) (EInt 5))))
      (SSeq (SPrint (EField 30 2))
      (SSeq (SDeferRecover (SCall 1) 31 (SPrint (EVar 31)))
      (SSeq (SAssign 32 (EInt 0))
      (SSeq (SFor (Some 7) (EBin Lt (EVar 32) (EInt 5)) (SAssign 32 (EBin Add (EVar 32) (EInt 1)))
               (SSeq (SIf (EBin Eq (EVar 32) (EInt 1)) (SContinue (Some 7)) SSkip)
               (SSeq (SIf (EBin Eq (EVar 32) (EInt 3)) (SBreak (Some 7)) SSkip)
                     (SPrint (EVar 32)))))
            (SExit 3))))))) ]%N.

Example C01_example_run :
  run 40 ex_prog = (Exited 3, [VStr [105]; VInt 20; VInt 3; VStr [112]; VInt 0; VInt 2])%N /\
  run 40 (lower_go ex_prog) = run 40 ex_prog /\
  lower_go ex_prog <> DMarker :: ex_prog.
Proof. split; [vm_compute; reflexivity|]. split; [vm_compute; reflexivity|]. vm_compute. discriminate. Qed.

Example C01_example_no_forward_refs : no_forward_refs ex_prog [] ex_prog = true /\ emit_order ex_prog = ex_prog.
Proof. split; vm_compute; reflexivity. Qed.

Print Assumptions C01_lower_go_preserves.
Print Assumptions C01_strip_parens_eval.
Print Assumptions C01_split_fields_same_struct.
Print Assumptions C01_exec_lower.
Print Assumptions C01_emit_order_identity.
Print Assumptions C01_emit_order_preserves.
Print Assumptions C01_emit_order_permutation.
Print Assumptions C01_switch_drop_default_fallthrough_harmless_without.
Print Assumptions C01_switch_last_clause_fallthrough_irrelevant.
Print Assumptions C01_switch_drop_default_fallthrough_refuted.
Print Assumptions C01_lookup_field_exact.
Print Assumptions C01_lookup_field_alias_harmless_without_pair.
Print Assumptions C01_lookup_field_alias_refuted.
Print Assumptions C01_emit_order_init_refuted.
