(* C32 - the TPL scanner tokenises like the XGo scanner.  Theorems only; proofs in
   Proofs/ScanTpl.v.  Model: Model/Scan.v, dialects Tpl and XGo; streams are compared on the
   abstract token kind (the two packages number their tokens differently). *)
From Coq Require Import List NArith ZArith Bool.
Import ListNotations.
From V Require Import Base.Prelude Gen.ScanTok Model.Scan Model.ScanRel Proofs.ScanTpl Proofs.ScanTplEq Gen.ScanConst Proofs.ScanConst.
Open Scope Z_scope.

(* tpl_eq_xgo_on_shared.  [shared ul ud cm src] (Model/ScanRel.v) runs the XGo dialect and checks
   before every step that it takes no branch tpl/scanner lacks or does differently: no keyword,
   no c"/py" string, no '~' '@' '**', and on every comment
   the two scanComment variants return the same state and literal (sharp_agree / comment_agree).
   Then the two dialects return the same result: the same tokens (kind, offset, literal, extent,
   inserted semicolons) and the same errors. *)
Theorem C32_tpl_eq_xgo_on_shared : forall ul ud cm src,
  shared ul ud cm src = true -> run ul ud Tpl cm src = run ul ud XGo cm src.
Proof. exact run_tpl_xgo. Qed.
Corollary C32_tpl_eq_xgo_streams : forall ul ud cm src,
  shared ul ud cm src = true -> astream ul ud Tpl cm src = astream ul ud XGo cm src.
Proof. intros ul ud cm src H. unfold astream. rewrite (run_tpl_xgo ul ud cm src H). reflexivity. Qed.
(* one step from the same state: the kernel of the theorem *)
Theorem C32_step_tpl_eq_xgo : forall ul ud cm st,
  xt_plain ul ud st = true -> step ul ud Tpl cm st = step ul ud XGo cm st.
Proof. exact step_tpl_xgo. Qed.
(* equal token kind = equal spelling / class name in both packages' `tokens` arrays *)
Theorem C32_spellings_agree : forall t, code Tpl t <> -1 -> code XGo t <> -1 -> spell_of Tpl t = spell_of XGo t.
Proof. exact spell_tpl_xgo. Qed.

(* the shared lexemes on which the two scanners differ, with both streams *)
(* formerly a divergence (tpl/scanner placed the UNIT token after the blanks that follow it), now
   repaired in tpl/scanner: agreement, kept as a regression statement *)
Theorem C32_tpl_xgo_agree_unit : forall ul ud,
  astream ul ud Tpl true w_unit_space
    = Some [(T_INT, 0, [49%N]); (T_UNIT, 1, [109%N]); (T_IDENT, 3, [120%N]); (T_SEMICOLON, 4, [10%N]); (T_EOF, 4, [])]
  /\ astream ul ud Tpl true w_unit_space = astream ul ud XGo true w_unit_space
  /\ astream ul ud Tpl false w_unit_space = astream ul ud XGo false w_unit_space.
Proof. exact unit_space_streams. Qed.
Theorem C32_tpl_xgo_diverge_sharp_cr : forall ul ud,
  astream ul ud XGo true w_sharp_cr = Some [(T_COMMENT, 0, [35; 97]%N); (T_EOF, 4, [])]
  /\ astream ul ud Tpl true w_sharp_cr = Some [(T_COMMENT, 0, [35; 97; 13]%N); (T_EOF, 4, [])].
Proof. exact sharp_cr_streams. Qed.
Theorem C32_tpl_xgo_diverge_sharp_star : forall ul ud,
  astream ul ud XGo true w_sharp_star = Some [(T_COMMENT, 0, [35; 42; 10; 42; 47]%N); (T_EOF, 5, [])]
  /\ astream ul ud Tpl true w_sharp_star
     = Some [(T_COMMENT, 0, [35; 42]%N); (T_MUL, 3, []); (T_QUO, 4, []); (T_EOF, 5, [])].
Proof. exact sharp_star_streams. Qed.
Theorem C32_tpl_xgo_diverge_block_cr : forall ul ud,
  astream ul ud XGo true w_block_cr = Some [(T_COMMENT, 0, [47; 42; 120; 42; 13; 47; 42; 47]%N); (T_EOF, 8, [])]
  /\ astream ul ud Tpl true w_block_cr = Some [(T_COMMENT, 0, [47; 42; 120; 42; 47; 42; 47]%N); (T_EOF, 8, [])].
Proof. exact block_cr_streams. Qed.

(* non-vacuity: a source with units, a rational, '#' '//' and block comments, XGo operators and
   inserted semicolons is shared (both comment modes), hence scanned identically *)
Definition ex_shared : str :=
  [35;99;10;120;32;61;62;32;51;109;43;49;46;53;114;32;47;47;100;10;102;40;36;97;41;63;10;47;42;10;42;47;32;121;46;46;46;10]%N.
Example C32_shared_example : forall ul ud, shared ul ud true ex_shared = true /\ shared ul ud false ex_shared = true.
Proof. intros ul ud. split; vm_compute; reflexivity. Qed.
Example C32_not_shared_examples : forall ul ud,
  shared ul ud true w_unit_space = true /\ shared ul ud true w_sharp_cr = false
  /\ shared ul ud true w_sharp_star = false /\ shared ul ud true w_block_cr = false.
Proof. intros ul ud. repeat split; vm_compute; reflexivity. Qed.

(* K-gen: the numeric comparisons of tpl/scanner/scanner.go, translated from the source on every run
   (Gen/ScanConst.v), are those of the model - for all values; a changed bound or operator in lower /
   isDecimal / isHex / digitVal / isLetter / isDigit / skipWhitespace / scanEscape breaks this theorem *)
Theorem C32_source_constants : forall ul ud,
  (forall c, tpl_sc_lower c = lower c) /\ (forall c, tpl_sc_isDecimal c = is_decimal c)
  /\ (forall c, tpl_sc_isHex c = is_hex c) /\ (forall c, tpl_sc_digitVal c = digit_val c)
  /\ (forall c, tpl_sc_isLetter ul ud c = is_letter ul c) /\ (forall c, tpl_sc_isDigit ul ud c = is_digit ud c)
  /\ (forall semi c, tpl_sc_skipCond semi c = is_blank_rune semi c)
  /\ (forall mx x, tpl_sc_escInvalid mx x = esc_invalid mx x)
  /\ (forall q c, existsb (Z.eqb c) tpl_sc_escSimple || (c =? q) = esc_simple q c)
  /\ (forall c, zassoc c tpl_sc_escNumeric = esc_numeric c)
  /\ tpl_sc_bom = bom.
Proof.
  intros ul ud.
  split; [intros; apply tpl_lower|].
  split; [intros; apply tpl_isDecimal|].
  split; [intros; apply tpl_isHex|].
  split; [intros; apply tpl_digitVal|].
  split; [intros; apply tpl_isLetter|].
  split; [intros; apply tpl_isDigit|].
  split; [intros; apply tpl_skipCond|].
  split; [intros; apply tpl_escInvalid|].
  split; [intros; apply tpl_escSimple|].
  split; [intros; apply tpl_escNumeric|].
  apply tpl_bom.
Qed.

Print Assumptions C32_source_constants.
Print Assumptions C32_tpl_eq_xgo_on_shared.
Print Assumptions C32_step_tpl_eq_xgo.
Print Assumptions C32_spellings_agree.
Print Assumptions C32_tpl_xgo_agree_unit.
Print Assumptions C32_tpl_xgo_diverge_sharp_cr.
Print Assumptions C32_tpl_xgo_diverge_sharp_star.
Print Assumptions C32_tpl_xgo_diverge_block_cr.
