(* C32 - the TPL scanner tokenises like the XGo scanner.  Theorems only; proofs in
   Proofs/ScanTpl.v.  Model: Model/Scan.v, dialects Tpl and XGo; streams are compared on the
   abstract token kind (the two packages number their tokens differently). *)
From Coq Require Import List NArith ZArith Bool.
Import ListNotations.
From V Require Import Base.Prelude Gen.ScanTok Model.Scan Model.ScanRel Proofs.ScanTpl.
Open Scope Z_scope.

(* the shared lexemes on which the two scanners differ, with both streams *)
Theorem C32_tpl_xgo_diverge_unit : forall ul ud,
  astream ul ud XGo true w_unit_space
    = Some [(T_INT, 0, [49%N]); (T_UNIT, 1, [109%N]); (T_IDENT, 3, [120%N]); (T_SEMICOLON, 4, [10%N]); (T_EOF, 4, [])]
  /\ astream ul ud Tpl true w_unit_space
    = Some [(T_INT, 0, [49%N]); (T_UNIT, 2, [109%N]); (T_IDENT, 3, [120%N]); (T_SEMICOLON, 4, [10%N]); (T_EOF, 4, [])].
Proof. exact unit_space_streams. Qed.
Theorem C32_tpl_xgo_diverge_sharp_cr : forall ul ud,
  astream ul ud XGo true w_sharp_cr = Some [(T_COMMENT, 0, [35; 97]%N); (T_EOF, 4, [])]
  /\ astream ul ud Tpl true w_sharp_cr = Some [(T_COMMENT, 0, [35; 97; 13]%N); (T_EOF, 4, [])].
Proof. exact sharp_cr_streams. Qed.
Theorem C32_tpl_xgo_diverge_sharp_star : forall ul ud,
  astream ul ud XGo true w_sharp_star = Some [(T_COMMENT, 0, [35; 42; 10; 42; 47]%N); (T_EOF, 5, [])]
  /\ astream ul ud Tpl true w_sharp_star
     = Some [(T_COMMENT, 0, [35; 42]%N); (T_MUL, 3, []); (T_QUO, 4, []); (T_EOF, 5, [])].
Proof. exact sharp_star_streams. Qed.
Theorem C32_tpl_xgo_diverge_block_cr : forall ul ud,
  astream ul ud XGo true w_block_cr = Some [(T_COMMENT, 0, [47; 42; 120; 42; 13; 47; 42; 47]%N); (T_EOF, 8, [])]
  /\ astream ul ud Tpl true w_block_cr = Some [(T_COMMENT, 0, [47; 42; 120; 42; 47; 42; 47]%N); (T_EOF, 8, [])].
Proof. exact block_cr_streams. Qed.

(* non-vacuity of agreement: units, rationals, '#' and '//' comments, XGo operators, inserted semicolons *)
Example C32_agree_example : forall ul ud,
  let src := [35;99;10;120;32;61;62;32;51;109;43;49;46;53;114;32;47;47;100;10;102;40;36;97;41;63;10]%N in
  astream ul ud Tpl true src = astream ul ud XGo true src /\ astream ul ud Tpl false src = astream ul ud XGo false src.
Proof. intros ul ud src. split; vm_compute; reflexivity. Qed.

Print Assumptions C32_tpl_xgo_diverge_unit.
Print Assumptions C32_tpl_xgo_diverge_sharp_cr.
Print Assumptions C32_tpl_xgo_diverge_sharp_star.
Print Assumptions C32_tpl_xgo_diverge_block_cr.
