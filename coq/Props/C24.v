(* C24 — function hoisting only reorders top-level chunks (format/formatutil/format_gop.go).
   Theorems only; proofs in Proofs/C24.v.

   Everything is stated for EVERY source `src` and EVERY token list `toks` satisfying the
   scanner's tiling invariant `tiling src toks = true` (token offsets never decrease and lie in
   [0, len(src)]); the real scanner's output is an input of the model (the scanner itself is the
   subject of C15), and the check verifies the invariant on every token list it feeds. *)
From Coq Require Import List NArith ZArith Bool Permutation.
Import ListNotations.
From V Require Import Base.Prelude Gen.Tokens Model.C24 Proofs.C24.
Open Scope Z_scope.

(* no slice expression or index of RearrangeFuncs/codeOf/isFuncDecl/tokOf goes out of range *)
Theorem C24_rearrange_no_panic : forall src toks, tiling src toks = true ->
  exists out, rearrange src toks = Ok out.
Proof. exact rearrange_no_panic. Qed.

(* no non-declaration statement: the source is returned unchanged *)
Theorem C24_rearrange_identity_without_stmt : forall src toks, tiling src toks = true ->
  top_chunks src toks = Ok None -> rearrange src toks = Ok src.
Proof. exact rearrange_none. Qed.

(* the top-level chunks (prefix, then one chunk per statement from the first non-declaration on)
   tile the source: nothing between, before or after them *)
Theorem C24_chunks_tile_source : forall src toks pre cs, tiling src toks = true ->
  top_chunks src toks = Ok (Some (pre, cs)) -> src = pre ++ bytes_of cs.
Proof. exact chunks_tile. Qed.

(* the result is: the prefix unchanged, then the function-declaration chunks in their original
   order, then the other chunks in their original order (a stable partition) *)
Theorem C24_rearrange_stable_partition : forall src toks pre cs, tiling src toks = true ->
  top_chunks src toks = Ok (Some (pre, cs)) ->
  rearrange src toks = Ok (pre ++ bytes_of (funcs cs ++ others cs)).
Proof. exact rearrange_partition. Qed.

(* ... which is a permutation of the chunks *)
Theorem C24_rearrange_is_chunk_permutation : forall cs : list (bool * str), Permutation cs (funcs cs ++ others cs).
Proof. exact chunk_permutation. Qed.

(* ... keeps the relative order inside each class *)
Theorem C24_order_inside_classes_kept : forall cs : list (bool * str),
  funcs (funcs cs ++ others cs) = funcs cs /\ others (funcs cs ++ others cs) = others cs.
Proof. exact order_kept. Qed.

(* ... and puts every function declaration before every other chunk *)
Theorem C24_funcs_precede_others : forall (cs : list (bool * str)) l1 c1 l2 c2 l3,
  funcs cs ++ others cs = l1 ++ c1 :: l2 ++ c2 :: l3 -> fst c1 = false -> fst c2 = true -> False.
Proof. exact funcs_first. Qed.

(* the chunk list starts with the first non-declaration: the prefix consists of declarations only
   and the first chunk is not a function declaration *)
Theorem C24_first_chunk_not_func : forall src toks pre cs, tiling src toks = true ->
  top_chunks src toks = Ok (Some (pre, cs)) -> exists c cs', cs = (false, c) :: cs'.
Proof. exact first_chunk_not_func. Qed.

(* the prefix is the source up to the first non-declaration statement; all statements before it are
   declarations; there is one chunk per statement from there on *)
Theorem C24_prefix_is_the_leading_declarations : forall src toks pre cs, top_chunks src toks = Ok (Some (pre, cs)) ->
  exists ss k s r p, split_stmts toks 0 [] [] = Ok ss /\ skipn k ss = s :: r /\
    Forall (fun d => stmt_is_decl d = Ok true) (firstn k ss) /\ stmt_is_decl s = Ok false /\
    first_pos s = Ok p /\ pre = sub src 0 p /\ length cs = length (s :: r).
Proof. exact prefix_only_decls. Qed.

(* no byte added or lost: same multiset of bytes, same length *)
Theorem C24_rearrange_bytes_multiset_and_length : forall src toks out, tiling src toks = true ->
  rearrange src toks = Ok out -> Permutation src out /\ length out = length src.
Proof. exact rearrange_bytes. Qed.

(* what a top-level statement is: the statements tile the token list up to the unfinished tail /
   EOF; each one ends with a SEMICOLON read at brace depth 0 (counting from the file start) and
   contains no earlier such SEMICOLON; its tok/at fields are tokOf(words) *)
Theorem C24_statements_are_depth0_semicolon_runs : forall toks ss, split_stmts toks 0 [] [] = Ok ss ->
  stmts_shape ss /\
  exists unfinished tl, concat (map words ss) ++ unfinished ++ tl = toks /\
    no_eof unfinished = true /\ open_run 0 unfinished = true /\
    match tl with [] => True | w :: _ => wtok w = xgo_EOF end.
Proof. exact split_stmts_shape. Qed.

(* SourceEx(src, class) succeeds whenever Source(., class) succeeds on the original or on the rearrangement,
   for BOTH values of the class flag (format.Source is a parameter: any function of (source, class)) *)
Theorem C24_sourceex_succeeds : forall (Source : str -> bool -> option str) src class toks r, tiling src toks = true ->
  rearrange src toks = Ok r -> (Source src class <> None \/ Source r class <> None) ->
  exists f, source_ex Source src class toks = Ok (Some f).
Proof. exact source_ex_succeeds. Qed.

Theorem C24_sourceex_result : forall (Source : str -> bool -> option str) src class toks, tiling src toks = true ->
  exists r, rearrange src toks = Ok r /\
    source_ex Source src class toks = Ok (match Source src class with Some f => Some f | None => Source r class end).
Proof. exact source_ex_spec. Qed.

(* non-vacuity:  "a\nfunc f(){}\n"  scanned as  a ; func f ( ) { } ;  *)
Definition ex_src : str := [97;10; 102;117;110;99;32;102;40;41;123;125;10]%N.
Definition ex_toks : list word :=
  [mkWord 0 xgo_IDENT; mkWord 1 xgo_SEMICOLON; mkWord 2 xgo_FUNC; mkWord 7 xgo_IDENT; mkWord 8 xgo_LPAREN;
   mkWord 9 xgo_RPAREN; mkWord 10 xgo_LBRACE; mkWord 11 xgo_RBRACE; mkWord 12 xgo_SEMICOLON].
Example C24_example_tiling : tiling ex_src ex_toks = true.
Proof. vm_compute. reflexivity. Qed.
Example C24_example_chunks :
  top_chunks ex_src ex_toks = Ok (Some ([], [(false, [97;10]%N); (true, [102;117;110;99;32;102;40;41;123;125;10]%N)])).
Proof. vm_compute. reflexivity. Qed.
Example C24_example_rearrange :
  rearrange ex_src ex_toks = Ok [102;117;110;99;32;102;40;41;123;125;10; 97;10]%N.
Proof. vm_compute. reflexivity. Qed.
(* a function literal statement  func(){}()  is not hoisted; the token list need not be balanced *)
Example C24_example_funclit :
  rearrange [120;10;102;117;110;99;40;41;123;125;40;41;10]%N
    [mkWord 0 xgo_IDENT; mkWord 1 xgo_SEMICOLON; mkWord 2 xgo_FUNC; mkWord 6 xgo_LPAREN; mkWord 7 xgo_RPAREN;
     mkWord 8 xgo_LBRACE; mkWord 9 xgo_RBRACE; mkWord 10 xgo_LPAREN; mkWord 11 xgo_RPAREN; mkWord 12 xgo_SEMICOLON]
  = Ok [120;10;102;117;110;99;40;41;123;125;40;41;10]%N.
Proof. vm_compute. reflexivity. Qed.
(* a comment between func and '(' is transparent:  x\nfunc/**/(){}()\n  is a statement, not a declaration *)
Example C24_example_comment_after_func :
  rearrange [120;10;102;117;110;99;47;42;42;47;40;41;123;125;40;41;10; 102;117;110;99;32;102;40;41;123;125;10]%N
    [mkWord 0 xgo_IDENT; mkWord 1 xgo_SEMICOLON; mkWord 2 xgo_FUNC; mkWord 6 xgo_COMMENT; mkWord 10 xgo_LPAREN;
     mkWord 11 xgo_RPAREN; mkWord 12 xgo_LBRACE; mkWord 13 xgo_RBRACE; mkWord 14 xgo_LPAREN; mkWord 15 xgo_RPAREN;
     mkWord 16 xgo_SEMICOLON; mkWord 17 xgo_FUNC; mkWord 22 xgo_IDENT; mkWord 23 xgo_LPAREN; mkWord 24 xgo_RPAREN;
     mkWord 25 xgo_LBRACE; mkWord 26 xgo_RBRACE; mkWord 27 xgo_SEMICOLON]
  = Ok [102;117;110;99;32;102;40;41;123;125;10; 120;10;102;117;110;99;47;42;42;47;40;41;123;125;40;41;10]%N.
Proof. vm_compute. reflexivity. Qed.
(* offsets out of range do make the model panic: the tiling hypothesis is not redundant *)
Example C24_example_panic_without_tiling :
  rearrange [120]%N [mkWord 5 xgo_IDENT; mkWord 6 xgo_SEMICOLON] = Panic.
Proof. vm_compute. reflexivity. Qed.
Example C24_example_sourceex :
  source_ex (fun s c => if str_eqb s ex_src then None else if c then Some s else None) ex_src true ex_toks
  = Ok (Some [102;117;110;99;32;102;40;41;123;125;10; 97;10]%N) /\
  (* a Source that only accepts the rearrangement as a class file: the flag must reach the second attempt *)
  source_ex (fun s c => if str_eqb s ex_src then None else if c then Some s else None) ex_src false ex_toks = Ok None.
Proof. vm_compute. split; reflexivity. Qed.

Print Assumptions C24_rearrange_no_panic.
Print Assumptions C24_rearrange_identity_without_stmt.
Print Assumptions C24_chunks_tile_source.
Print Assumptions C24_rearrange_stable_partition.
Print Assumptions C24_rearrange_is_chunk_permutation.
Print Assumptions C24_order_inside_classes_kept.
Print Assumptions C24_funcs_precede_others.
Print Assumptions C24_first_chunk_not_func.
Print Assumptions C24_prefix_is_the_leading_declarations.
Print Assumptions C24_rearrange_bytes_multiset_and_length.
Print Assumptions C24_statements_are_depth0_semicolon_runs.
Print Assumptions C24_sourceex_succeeds.
Print Assumptions C24_sourceex_result.
