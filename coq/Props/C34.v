(* C34 — directory parsing selects and classifies exactly the right files.
   Theorems only; proofs in Proofs/C34.v.  Model: Model/C34.v (parser/parser_gop.go ParseFSDir, ParseFSEntry,
   defaultClassKind, reqPkg).  c : config carries the class-kind FUNCTION, whether a filter is given and the
   ParseGoAsGoPlus bit; every entry carries what the parsers return for it. *)
From Coq Require Import List NArith ZArith Bool.
Import ListNotations.
From V Require Import Base.Prelude Model.C34 Proofs.C34 Gen.C34 Proofs.C34Gen.
Open Scope N_scope.

(* the extension switch (with its fallthrough) computes exactly the documented file kinds:
   .xgo/.gop plain; .go by go/parser (by the XGo parser under ParseGoAsGoPlus) unless gop_autogen*;
   any other name the class-kind function claims: class file (project iff it says so);
   an unclaimed .gox: class file marked IsNormalGox; everything else: skipped *)
Theorem C34_classify_spec : forall c n k, classify c n = Some k <-> file_kind c n k.
Proof. exact classify_spec. Qed.
Theorem C34_classify_none : forall c n, classify c n = None <->
  (path_ext n = ext_go /\ has_prefix autogen_prefix n = true)
  \/ (other_ext n /\ path_ext n <> ext_gox /\ snd (c_ck c n) = false).
Proof. exact classify_none. Qed.
Theorem C34_file_kind_functional : forall c n k1 k2, file_kind c n k1 -> file_kind c n k2 -> k1 = k2.
Proof. exact file_kind_functional. Qed.

(* a file is in the result iff some listing entry is: not a directory, of a documented kind, not
   underscore-prefixed, accepted by the filter (Info() must succeed), and its parser (chosen by the
   kind, with the class mode bit for class files) produced a package name -- and then it carries
   exactly that kind's flags, that package name and that file name *)
Theorem C34_select_files_spec : forall c l it,
  In it (fst (select_files c l)) <-> exists e, In e l /\ included c e it.
Proof. exact select_files_spec. Qed.

(* an error is returned iff some selected file's parser reported one *)
Theorem C34_select_files_error : forall c l,
  snd (select_files c l) = true <-> exists e, In e l /\ raises c e.
Proof. exact select_files_error. Qed.

(* at most one file per listing entry, in listing order *)
Theorem C34_select_files_order : forall c l, exists keep : list bool,
  length keep = length l /\
  map i_file (fst (select_files c l)) = map f_name (map snd (filter fst (combine keep l))).
Proof. exact select_files_order. Qed.

(* grouping: one map entry per package name, holding exactly the selected files whose parser
   reported that package (never empty); every selected file is filed under its package *)
Theorem C34_grouping_by_pkg : forall its,
  NoDup (map fst (group its))
  /\ (forall k v, In (k, v) (group its) -> v = of_pkg k its /\ v <> [])
  /\ (forall it, In it its -> exists v, In (i_pkg it, v) (group its) /\ In it v).
Proof. exact grouping_by_pkg. Qed.

(* ParseFSEntry classifies like ParseFSDir except for .go files (stated) *)
Theorem C34_entry_matches_dir : forall c n, path_ext n <> ext_go ->
  classify_entry (c_ck c) n = option_map flags_of (classify c n).
Proof. exact entry_matches_dir. Qed.
Theorem C34_entry_go : forall ck n, path_ext n = ext_go -> classify_entry ck n = Some (false, false, false).
Proof. exact entry_go. Qed.
Theorem C34_dir_go : forall c n, path_ext n = ext_go ->
  classify c n = if has_prefix autogen_prefix n then None else Some (if c_go_as_x c then KX false false false else KGo).
Proof. exact dir_go. Qed.

(* K-gen: the constants of the model are the literals of the source as it is now (Gen/C34.v is
   regenerated from parser/parser_gop.go on every run): clause by clause, with the fallthrough
   structure and the prefixes of the two strings.HasPrefix guards *)
Theorem C34_source_dir_switch :
  dir_case_labels = [[ext_xgo; ext_gop]; [ext_go]; [ext_gox]]
  /\ dir_case_fallthrough = [false; false; true]
  /\ dir_default_can_skip = true
  /\ dir_prefix_literals = [autogen_prefix; us].
Proof. exact dir_switch_tables. Qed.
Theorem C34_source_entry_switch :
  entry_case_labels = [[ext_xgo; ext_gop; ext_go]; [ext_gox]]
  /\ entry_case_fallthrough = [false; true]
  /\ entry_default_can_skip = true
  /\ entry_prefix_literals = [].
Proof. exact entry_switch_tables. Qed.
Theorem C34_source_default_class_kind :
  dck_case_labels = [[ext_spx]; [ext_gsh; ext_gmx]] /\ dck_has_default = false /\ dck_eq_literals = [main_spx].
Proof. exact dck_tables. Qed.
Theorem C34_classify_by_tables : forall c n,
  (In (path_ext n) (nth 0 dir_case_labels []) -> classify c n = Some (KX false false false))
  /\ (In (path_ext n) (nth 1 dir_case_labels []) ->
        classify c n = if has_prefix (nth 0 dir_prefix_literals []) n then None
                       else Some (if c_go_as_x c then KX false false false else KGo))
  /\ (~ In (path_ext n) (concat dir_case_labels) -> snd (c_ck c n) = false -> classify c n = None).
Proof. exact classify_by_tables. Qed.

(* non-vacuity: a directory with one file of each kind, default class kinds *)
Definition s (l : list N) : str := l.
Definition n_xgo := s [97;46;120;103;111].                         (* a.xgo *)
Definition n_go := s [99;46;103;111].                              (* c.go *)
Definition n_auto := s [103;111;112;95;97;117;116;111;103;101;110;46;103;111].   (* gop_autogen.go *)
Definition n_gox := s [100;46;103;111;120].                        (* d.gox *)
Definition n_main := main_spx.                                     (* main.spx *)
Definition n_spx := s [101;46;115;112;120].                        (* e.spx *)
Definition n_us := s [95;117;46;120;103;111].                      (* _u.xgo *)
Definition n_txt := s [110;46;116;120;116].                        (* n.txt *)
Definition p_foo := s [102;111;111].
Definition p_main := s [109;97;105;110].
Definition okx (p : str) : xout := (Some (Some p), false).
Definition ex_entry (n : str) (d : bool) (p : str) : entry := mkF n d true true (okx p) (okx p) (Some p).
Definition ex_dir : list entry :=
  [ex_entry n_xgo false p_foo; ex_entry n_go false p_foo; ex_entry n_auto false p_foo; ex_entry n_gox false p_main;
   ex_entry n_main false p_main; ex_entry n_spx false p_main; ex_entry n_us false p_foo; ex_entry n_txt false p_foo;
   ex_entry n_xgo true p_foo].
Definition ex_cfg : config := mkC default_class_kind false false.
Example C34_example_dir : parse_dir ex_cfg ex_dir =
  ([(p_foo, [mkI p_foo n_xgo (KX false false false); mkI p_foo n_go KGo]);
    (p_main, [mkI p_main n_gox (KX false true true); mkI p_main n_main (KX true true false); mkI p_main n_spx (KX false true false)])],
   false).
Proof. vm_compute. reflexivity. Qed.
Example C34_example_included : included ex_cfg (ex_entry n_main false p_main) (mkI p_main n_main (KX true true false)).
Proof.
  split; [reflexivity|]. split; [apply classify_spec; vm_compute; reflexivity|].
  split; [split; [reflexivity|discriminate]|]. split; reflexivity.
Qed.
Example C34_example_entry : (classify_entry default_class_kind n_auto, classify_entry default_class_kind n_txt,
                             classify_entry default_class_kind n_gox)
  = (Some (false, false, false), None, Some (false, true, true)).
Proof. vm_compute. reflexivity. Qed.

Print Assumptions C34_classify_spec.
Print Assumptions C34_classify_none.
Print Assumptions C34_file_kind_functional.
Print Assumptions C34_select_files_spec.
Print Assumptions C34_select_files_error.
Print Assumptions C34_select_files_order.
Print Assumptions C34_grouping_by_pkg.
Print Assumptions C34_entry_matches_dir.
Print Assumptions C34_entry_go.
Print Assumptions C34_dir_go.
Print Assumptions C34_source_dir_switch.
Print Assumptions C34_source_entry_switch.
Print Assumptions C34_source_default_class_kind.
Print Assumptions C34_classify_by_tables.
