(* C16 - the scanner agrees with go/scanner on Go lexemes.  Theorems only; proofs in
   Proofs/ScanGo.v.  Model: Model/Scan.v, dialects XGo and Go (the installed go/scanner). *)
From Coq Require Import List NArith ZArith Bool.
Import ListNotations.
From V Require Import Base.Prelude Gen.ScanTok Model.Scan Model.ScanRel Proofs.ScanGo Proofs.ScanGoEq Gen.ScanConst Proofs.ScanConst.
Open Scope Z_scope.

(* every token of go/token carries the same number in token/token.go, and token.Lookup agrees *)
Theorem C16_codes_agree : forall t, code Go t <> -1 -> code XGo t = code Go t.
Proof. exact codes_agree. Qed.
Theorem C16_lookup_agree : forall lit, lookup XGo lit = lookup Go lit.
Proof. exact lookup_agree. Qed.

(* xgo_eq_go_on_go_lexemes.  [go_like ul ud cm src] (Model/ScanRel.v) runs the XGo dialect and checks
   before every step (xg_plain) that it takes
     - no extension branch: no '#' '$' '?' '->' '<>' '=>', no c"/py" string, and a number on which the
       two scanNumber variants agree (no unit / 'r' suffix);
     - none of the divergent branches: no '~'; no comment while a semicolon is pending (the trailing-
       comment case) and only comments on which the two scanComment variants agree (line numbers
       <= 1<<30); after '!' and after '...' outside parentheses the next token is on the same line and
       is neither a comment nor an illegal character (safe_follow).
   Then both dialects return the same result: the same tokens (kind, offset, literal, inserted
   semicolons) and the same errors in the same order.  With C16_codes_agree the numeric token codes
   are equal too.  Slightly stronger than needed in two places (stated, not hidden): a block comment
   between two tokens of one line while a semicolon is pending, and a comment or illegal character
   directly after '!' / '...', are excluded although the streams agree on them (they are covered by the
   differential run of the check). *)
Theorem C16_xgo_eq_go_on_go_lexemes : forall ul ud cm src,
  go_like ul ud cm src = true -> run ul ud XGo cm src = run ul ud Go cm src.
Proof. exact run_xgo_go. Qed.
(* the kernel: one step from related states (same position; insertSemi equal, or set in XGo only
   after '!' / '...' with a harmless next token) gives the same token and related states *)
Theorem C16_step_xgo_eq_go : forall ul ud cm stX stG,
  Inv ul stX stG -> xg_plain ul ud stX = true -> rel ul (step ul ud XGo cm stX) (step ul ud Go cm stG).
Proof. exact step_xgo_go. Qed.

(* scan_go_diverges: the Go lexemes on which the scanners differ - '~', a newline after '!'
   and after '...', an implicit semicolon around a trailing comment (both comment modes), and
   a line directive with a number above 1<<30 (error reported by go/scanner only) *)
Theorem C16_scan_go_diverges : forall ul ud,
  ~ stream_eq (stream ul ud XGo true w_tilde) (stream ul ud Go true w_tilde)
  /\ ~ stream_eq (stream ul ud XGo true w_not_nl) (stream ul ud Go true w_not_nl)
  /\ ~ stream_eq (stream ul ud XGo true w_ellipsis_nl) (stream ul ud Go true w_ellipsis_nl)
  /\ (forall cm, ~ stream_eq (stream ul ud XGo cm w_trailing_comment) (stream ul ud Go cm w_trailing_comment))
  /\ (forall cm, ~ stream_eq (stream ul ud XGo cm w_trailing_block) (stream ul ud Go cm w_trailing_block))
  /\ ~ stream_eq (stream ul ud XGo true w_line_big) (stream ul ud Go true w_line_big).
Proof.
  intros ul ud.
  split; [apply stream_neq, diverge_tilde|].
  split; [apply stream_neq, diverge_not_nl|].
  split; [apply stream_neq, diverge_ellipsis_nl|].
  split; [intros cm; apply stream_neq, diverge_trailing_comment|].
  split; [intros cm; apply stream_neq, diverge_trailing_block|].
  apply stream_neq, diverge_line_big.
Qed.
Theorem C16_trailing_comment_streams : forall ul ud,
  stream ul ud XGo true w_trailing_comment
    = Some ([(4, 0, [97%N]); (57, 1, [10%N]); (2, 1, [47; 47]%N); (1, 3, [])], [])
  /\ stream ul ud Go true w_trailing_comment
    = Some ([(4, 0, [97%N]); (2, 1, [47; 47]%N); (57, 3, [10%N]); (1, 3, [])], []).
Proof. exact trailing_comment_streams. Qed.

(* non-vacuity: a Go source with a comment at a line start, :=, numbers (hex, float, imaginary),
   strings with escapes, '!' and '...' followed by a token, parentheses, inserted semicolons, is go_like
   in both comment modes (hence scanned identically); the divergence witnesses are not *)
Definition ex_go : str :=
  [47;47;99;10;120;32;58;61;32;48;120;49;70;32;43;32;34;97;92;110;34;10;
   105;102;32;33;111;107;32;123;32;102;40;97;46;46;46;41;32;125;10;121;32;61;32;49;46;53;101;51;105;10]%N.
Example C16_go_like_example : forall ul ud, go_like ul ud true ex_go = true /\ go_like ul ud false ex_go = true.
Proof. intros ul ud. split; vm_compute; reflexivity. Qed.
Example C16_not_go_like_examples : forall ul ud,
  go_like ul ud true w_tilde = false /\ go_like ul ud true w_not_nl = false /\ go_like ul ud true w_ellipsis_nl = false
  /\ go_like ul ud true w_trailing_comment = false /\ go_like ul ud true w_trailing_block = false
  /\ go_like ul ud true w_line_big = false.
Proof. intros ul ud. repeat split; vm_compute; reflexivity. Qed.

(* K-gen: the numeric comparisons of the installed go/scanner, translated from the source on every run
   (Gen/ScanConst.v), are those of the model - for all values; a changed bound or operator in lower /
   isDecimal / isHex / digitVal / isLetter / isDigit / skipWhitespace / scanEscape breaks this theorem *)
Theorem C16_source_constants : forall ul ud,
  (forall c, go_sc_lower c = lower c) /\ (forall c, go_sc_isDecimal c = is_decimal c)
  /\ (forall c, go_sc_isHex c = is_hex c) /\ (forall c, go_sc_digitVal c = digit_val c)
  /\ (forall c, go_sc_isLetter ul ud c = is_letter ul c) /\ (forall c, go_sc_isDigit ul ud c = is_digit ud c)
  /\ (forall semi c, go_sc_skipCond semi c = is_blank_rune semi c)
  /\ (forall mx x, go_sc_escInvalid mx x = esc_invalid mx x)
  /\ (forall q c, existsb (Z.eqb c) go_sc_escSimple || (c =? q) = esc_simple q c)
  /\ (forall c, zassoc c go_sc_escNumeric = esc_numeric c)
  /\ go_sc_bom = bom /\ go_sc_maxLineCol = max_line_col.
Proof.
  intros ul ud.
  split; [intros; apply go_lower|].
  split; [intros; apply go_isDecimal|].
  split; [intros; apply go_isHex|].
  split; [intros; apply go_digitVal|].
  split; [intros; apply go_isLetter|].
  split; [intros; apply go_isDigit|].
  split; [intros; apply go_skipCond|].
  split; [intros; apply go_escInvalid|].
  split; [intros; apply go_escSimple|].
  split; [intros; apply go_escNumeric|].
  split; [apply go_bom|apply go_maxLineCol].
Qed.

Print Assumptions C16_source_constants.
Print Assumptions C16_xgo_eq_go_on_go_lexemes.
Print Assumptions C16_step_xgo_eq_go.
Print Assumptions C16_codes_agree.
Print Assumptions C16_lookup_agree.
Print Assumptions C16_scan_go_diverges.
Print Assumptions C16_trailing_comment_streams.
