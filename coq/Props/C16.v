(* C16 - the scanner agrees with go/scanner on Go lexemes.  Theorems only; proofs in
   Proofs/ScanGo.v.  Model: Model/Scan.v, dialects XGo and Go (the installed go/scanner). *)
From Coq Require Import List NArith ZArith Bool.
Import ListNotations.
From V Require Import Base.Prelude Gen.ScanTok Model.Scan Model.ScanRel Proofs.ScanGo.
Open Scope Z_scope.

(* every token of go/token carries the same number in token/token.go, and token.Lookup agrees *)
Theorem C16_codes_agree : forall t, code Go t <> -1 -> code XGo t = code Go t.
Proof. exact codes_agree. Qed.
Theorem C16_lookup_agree : forall lit, lookup XGo lit = lookup Go lit.
Proof. exact lookup_agree. Qed.

(* scan_go_diverges: the Go lexemes on which the scanners differ - '~', a newline after '!'
   and after '...', an implicit semicolon around a trailing comment (both comment modes), and
   a line directive with a number above 1<<30 (error reported by go/scanner only) *)
Theorem C16_scan_go_diverges : forall ul ud,
  ~ stream_eq (stream ul ud XGo true w_tilde) (stream ul ud Go true w_tilde)
  /\ ~ stream_eq (stream ul ud XGo true w_not_nl) (stream ul ud Go true w_not_nl)
  /\ ~ stream_eq (stream ul ud XGo true w_ellipsis_nl) (stream ul ud Go true w_ellipsis_nl)
  /\ (forall cm, ~ stream_eq (stream ul ud XGo cm w_trailing_comment) (stream ul ud Go cm w_trailing_comment))
  /\ (forall cm, ~ stream_eq (stream ul ud XGo cm w_trailing_block) (stream ul ud Go cm w_trailing_block))
  /\ ~ stream_eq (stream ul ud XGo true w_line_big) (stream ul ud Go true w_line_big).
Proof.
  intros ul ud.
  split; [apply stream_neq, diverge_tilde|].
  split; [apply stream_neq, diverge_not_nl|].
  split; [apply stream_neq, diverge_ellipsis_nl|].
  split; [intros cm; apply stream_neq, diverge_trailing_comment|].
  split; [intros cm; apply stream_neq, diverge_trailing_block|].
  apply stream_neq, diverge_line_big.
Qed.
Theorem C16_trailing_comment_streams : forall ul ud,
  stream ul ud XGo true w_trailing_comment
    = Some ([(4, 0, [97%N]); (57, 1, [10%N]); (2, 1, [47; 47]%N); (1, 3, [])], [])
  /\ stream ul ud Go true w_trailing_comment
    = Some ([(4, 0, [97%N]); (2, 1, [47; 47]%N); (57, 3, [10%N]); (1, 3, [])], []).
Proof. exact trailing_comment_streams. Qed.

(* non-vacuity of the agreement: a Go source with numbers, strings, operators, a comment at a
   line start and inserted semicolons gives equal streams *)
Example C16_agree_example : forall ul ud,
  let src := [47;47;99;10;120;32;58;61;32;48;120;49;70;32;43;32;34;97;92;110;34;10;102;40;41;10]%N in
  stream_eq (stream ul ud XGo true src) (stream ul ud Go true src).
Proof. intros ul ud src. apply stream_eqb_sound. vm_compute. reflexivity. Qed.

Print Assumptions C16_codes_agree.
Print Assumptions C16_lookup_agree.
Print Assumptions C16_scan_go_diverges.
Print Assumptions C16_trailing_comment_streams.
