(* C21 — formatting keeps every comment, in order.  Theorems only; proofs in Proofs/C21.v.

   Model (Model/C21.v): the merge of the comment list into the item stream that the tree walk hands to
   printer.print — flush before every item, groups consumed in list order, final flush of Config.fprint.
   commentBefore and the constant infinity are regenerated from printer/printer.go (Gen/PrinterMerge.v);
   the statements the model relies on are audited by the generator on every run.
   Not modelled (explored by the direct oracle of checks/c21.py): which items the tree walk produces, the
   positions it gives them, and the rewriting of a comment's own text (re-indentation of continuation lines). *)
From Coq Require Import List ZArith Bool.
Import ListNotations.
From V Require Import Base.Prelude Gen.PrinterMerge Model.C21 Proofs.C21.
Open Scope Z_scope.

(* for every item stream, every comment list with real offsets and every initial impliedSemi:
   the output contains exactly the comment texts of the input, each once, in the same order *)
Theorem C21_comments_preserved : forall items gs implied, forallb group_ok gs = true ->
  comments_of (run items gs implied) = concat (map g_texts gs).
Proof. exact comments_preserved. Qed.

(* dually, the merge neither drops, duplicates nor reorders a token *)
Theorem C21_tokens_preserved : forall items gs implied, tokens_of (run items gs implied) = item_tokens items.
Proof. exact tokens_preserved. Qed.

(* a flush writes a prefix of the pending groups, only groups that lie before the next item, and no token *)
Theorem C21_flush_prefix : forall gs next implied, exists taken,
  gs = taken ++ snd (flush gs next implied) /\
  comments_of (fst (flush gs next implied)) = concat (map g_texts taken) /\
  tokens_of (fst (flush gs next implied)) = [] /\
  Forall (fun g => g_off g < next) taken.
Proof. exact flush_spec. Qed.

(* obligations over the regenerated commentBefore *)
Theorem C21_final_flush_takes_all : forall off nl, 0 <= off < pm_infinity -> pm_commentBefore off pm_infinity false nl = true.
Proof. exact final_flush_takes. Qed.
Theorem C21_taken_is_earlier : forall off next i nl, pm_commentBefore off next i nl = true -> off < next.
Proof. exact taken_is_earlier. Qed.

(* non-vacuity: a line comment after "x" is held back while a semicolon is implied, a block comment is not;
   both come out exactly once *)
Definition tx : str := [120%N]. Definition ty : str := [121%N].
Definition c1 : str := [47;47;65]%N. Definition c2 : str := [47;42;66;42;47]%N. Definition c3 : str := [47;47;67]%N.
Definition ex_items := [ITok 0 tx true; ITok 10 ty true; IWs true; ITok 30 tx true].
Definition ex_groups := [Build_group 2 true [c1]; Build_group 5 false [c2]; Build_group 40 true [c3]].
Example C21_example_run :
  print_all ex_items ex_groups = [OTok tx; OTok ty; OCom c1; OCom c2; OTok tx; OCom c3] /\
  forallb group_ok ex_groups = true /\
  comments_of (print_all ex_items ex_groups) = [c1; c2; c3].
Proof. vm_compute. auto. Qed.
(* a group without a real offset (>= infinity) is the only way to lose a comment in the model *)
Example C21_example_bad_offset : comments_of (print_all [] [Build_group pm_infinity false [c1]]) = [].
Proof. vm_compute. reflexivity. Qed.

Print Assumptions C21_comments_preserved.
Print Assumptions C21_tokens_preserved.
Print Assumptions C21_flush_prefix.
Print Assumptions C21_final_flush_takes_all.
Print Assumptions C21_taken_is_earlier.
