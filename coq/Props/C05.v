(* C05 — string interpolation equals explicit concatenation.  Theorems only; proofs in Proofs/C05.v.

   split_lit    : line-by-line model of parser/parser.go stringLitEx + hasExtra
   lower_interp : model of cl/expr.go compileStringLitEx, into MiniGo (Model/MiniGo.v)
   A literal is rendered from items (text piece without '$', then `$$` or `${e}`), a final text
   piece and an optional trailing '$':   render l tl td. *)
From Coq Require Import List ZArith NArith Bool.
Import ListNotations.
From V Require Import Base.Prelude Model.MiniGo Model.Interp Proofs.MiniGo Proofs.C05.
Open Scope Z_scope.

(* stringLitEx terminates within fuel |text|+1 and never panics (no index / slice out of range),
   for EVERY byte string; every expression span and error offset lies inside the text *)
Theorem C05_split_total : forall text, exists r, split_lit text = Ok r /\ res_in 0 (zlen text) r.
Proof. exact split_total. Qed.

(* a well-formed literal with at least one `$$` / `${e}` is split into exactly the documented
   parts (text pieces, `$$`-suffixed pieces kept with both dollars, a trailing lone '$' literal),
   with the exact source span of every embedded expression, and no error *)
Theorem C05_split_render : forall l tl td, wf l tl -> l <> [] ->
  split_lit (render l tl td) = Ok (Some (parts_items 0 l ++ tail_part tl td), None).
Proof. exact split_render. Qed.

(* a literal without `$$` / `${}` (possibly ending in a lone '$') is an ordinary string literal *)
Theorem C05_split_plain : forall tl td, no_byte dollar tl -> split_lit (tail_text tl td) = Ok (None, None).
Proof. exact split_plain. Qed.

(* value: split by the parser, lowered by the compiler, evaluated in MiniGo, a well-formed literal
   yields the concatenation of its text pieces (`$$` read as `$`) and the string forms of its
   operands (items_sem), for every number of pieces, every text, every operand expression that
   evaluates to a value of its static type (int: strconv.Itoa, float64: FormatFloat, string: itself,
   error: Error()) ... *)
Theorem C05_interp_value :
  forall (err_text : err -> str) (self : stmt -> env -> trace -> sres) (lit_val : str -> str),
  (forall a b, lit_val (a ++ dollar :: b) = lit_val a ++ dollar :: lit_val b) -> lit_val [] = [] ->
  forall (parse : str -> ty * expr) en l tl td v te,
  wf l tl -> l <> [] -> items_sem err_text self lit_val parse en l v te ->
  exists ps E, split_lit (render l tl td) = Ok (Some ps, None) /\
               lower_interp lit_val (map (cpart_of parse (render l tl td)) ps) = Some E /\
               forall tr, fst (fst (ev err_text self E en tr)) = RVal [VStr (v ++ tail_val lit_val tl td)].
Proof. exact interp_value. Qed.

(* ... and order of evaluation: the environment is unchanged and the effect trace grows by exactly
   the operands' events, each operand once, in source order (te is built left to right by items_sem) *)
Theorem C05_interp_eval_order :
  forall (err_text : err -> str) (self : stmt -> env -> trace -> sres) (lit_val : str -> str),
  (forall a b, lit_val (a ++ dollar :: b) = lit_val a ++ dollar :: lit_val b) -> lit_val [] = [] ->
  forall (parse : str -> ty * expr) en l tl td v te,
  wf l tl -> l <> [] -> items_sem err_text self lit_val parse en l v te ->
  exists ps E, split_lit (render l tl td) = Ok (Some ps, None) /\
               lower_interp lit_val (map (cpart_of parse (render l tl td)) ps) = Some E /\
               forall tr, ev err_text self E en tr = (RVal [VStr (v ++ tail_val lit_val tl td)], en, tr ++ te).
Proof. exact interp_correct. Qed.

(* the property in its own words: the interpolated literal, as split by the parser and lowered by the
   compiler, evaluates exactly like the explicit concatenation  "" + s0 + "$" + s1 + conv(e1) + ...
   (same value, same environment, same effect trace), for every well-formed literal *)
Theorem C05_interp_eq_explicit :
  forall (err_text : err -> str) (self : stmt -> env -> trace -> sres) (lit_val : str -> str),
  (forall a b, lit_val (a ++ dollar :: b) = lit_val a ++ dollar :: lit_val b) -> lit_val [] = [] ->
  forall (parse : str -> ty * expr) en l tl td v te,
  wf l tl -> l <> [] -> items_sem err_text self lit_val parse en l v te ->
  exists ps E, split_lit (render l tl td) = Ok (Some ps, None) /\
               lower_interp lit_val (map (cpart_of parse (render l tl td)) ps) = Some E /\
               forall tr, ev err_text self E en tr = ev err_text self (explicit_concat lit_val parse l tl td) en tr.
Proof. exact interp_eq_explicit. Qed.

(* operands built from constants, variables, probe calls and arithmetic satisfy the operand
   hypothesis of items_sem (so the theorems above are not vacuous) *)
Theorem C05_pure_operand : forall err_text self en e v t, pure_eval en e v t ->
  forall tr, ev err_text self e en tr = (RVal [v], en, tr ++ t).
Proof. exact pure_eval_sound. Qed.

(* REFUTED for bool operands (known finding): the property gives "${b}" a meaning, the compiler
   model (as the compiler) has no `.string` for bool *)
Theorem C05_interp_bool_refuted : forall lit_val x, lower_interp lit_val [CExpr TBool x] = None.
Proof. exact interp_bool_rejected. Qed.

(* non-vacuity: "a${..}$$b$" with a probe operand p1(7) *)
Example C05_example_split :
  split_lit [97; 36; 123; 120; 125; 36; 36; 98; 36]%N
  = Ok (Some [PStr [97]%N; PExpr 3 4; PStr [36; 36]%N; PStr [98; 36]%N], None).
Proof. vm_compute. reflexivity. Qed.
Example C05_example_render :
  render [([97]%N, FEmb [120]%N); ([], FDD)] [98]%N true = [97; 36; 123; 120; 125; 36; 36; 98; 36]%N
  /\ wf [([97]%N, FEmb [120]%N); ([], FDD)] [98]%N.
Proof. split; [reflexivity|]. split; repeat constructor; discriminate. Qed.
Example C05_example_value :
  match lower_interp (fun s => s) [CStr [97]%N; CExpr TInt (EProbe 1 (EConst (VInt 7))); CStr [36; 36]%N; CStr [98; 36]%N] with
  | Some E => eval (fun _ => []) 2 E [] [] = (RVal [VStr [97; 55; 36; 98; 36]%N], [], [Ev 1%N [VInt 7]])
  | None => False
  end.
Proof. vm_compute. reflexivity. Qed.
Example C05_example_adversarial :
  split_lit [36; 120; 36; 36]%N = Ok (None, Some (ErrBadDollar 0)) /\
  split_lit [36; 123; 120]%N = Ok (Some [PStr [36; 123; 120]%N], Some (ErrNoClose 1)) /\
  split_lit [36; 123]%N = Ok (Some [PStr [36; 123]%N], None).
Proof. vm_compute. auto. Qed.

Print Assumptions C05_split_total.
Print Assumptions C05_split_render.
Print Assumptions C05_split_plain.
Print Assumptions C05_interp_value.
Print Assumptions C05_interp_eval_order.
Print Assumptions C05_interp_eq_explicit.
Print Assumptions C05_pure_operand.
Print Assumptions C05_interp_bool_refuted.
