(* C39 — every JSON-RPC call completes exactly once with its own answer.
   Theorems over the connection LTS of Model/C39.v (one transition per updateInFlight critical section of
   x/jsonrpc2/conn.go + the shared idle/shutdown epilogue; any number of calls / notifications / requests /
   Respond, Cancel, Close, Wait invocations; any interleaving).  Proofs in Proofs/C39*.v. *)
From Coq Require Import List NArith ZArith Bool Arith String.
Import ListNotations.
From V Require Import Base.ConnView Gen.ConnSites Model.C39
  Proofs.C39Base Proofs.C39Measure Proofs.C39Calls Proofs.C39Flight Proofs.C39Holders Proofs.C39Done Proofs.C39
  Proofs.C39Progress Proofs.C39Acceptor.

(* ------------------------------------------------------------------ K-gen obligations *)
(* every updateInFlight critical section of conn.go (function, ordinal, body hash) is a modelled transition *)
Theorem C39_sites_match : conn_sites = modelled_sites.
Proof. exact sites_match. Qed.
(* the functions whose control flow the thread program counters follow are the ones that were read *)
Theorem C39_funcs_match : conn_funcs = modelled_funcs.
Proof. exact funcs_match. Qed.
Theorem C39_state_fields_match : fields_inFlightState = modelled_ifs_fields.
Proof. exact ifs_fields_match. Qed.
(* c.state is touched only by updateInFlight; retire is called only by Call and readIncoming;
   only retire and updateInFlight close a channel *)
Theorem C39_access_match :
  state_access_funcs = modelled_state_access /\ retire_callers = modelled_retire_callers /\ chan_closers = modelled_chan_closers.
Proof. exact access_match. Qed.
(* the translated idle() / shuttingDown() (Gen/ConnSites.v) say what the proofs rely on *)
Theorem C39_gen_idle_spec : forall s,
  idle s = true <-> s_outgoing s = [] /\ s_outNotifs s = 0 /\ s_incoming s = 0 /\ s_handlerRunning s = false.
Proof. exact gen_idle_spec. Qed.
Theorem C39_gen_shutting_down_spec : forall s, shutting_down s = s_connClosing s || s_readErr s || s_writeErr s.
Proof. exact gen_shutting_down_spec. Qed.

(* ------------------------------------------------------------------ safety, all reachable states *)
(* none of the panics of conn.go ("retire called twice", "updateInFlight transitioned to non-idle when already
   done", "processResult called when incoming count is already zero") nor a counter underflow is reachable *)
Theorem C39_no_panic : forall p s l pn, reachable p s -> step s l <> Panic pn.
Proof. exact no_panic. Qed.
Theorem C39_retire_at_most_once : forall p s l, reachable p s -> step s l <> Panic PRetireTwice.
Proof. exact retire_at_most_once. Qed.
Theorem C39_no_transition_after_done_breaks_idle : forall p s l, reachable p s -> step s l <> Panic PNonIdleAfterDone.
Proof. exact idle_after_done. Qed.

(* outgoingCalls holds exactly the registered and not yet retired calls *)
Theorem C39_map_is_registered_unretired : forall p s i c, reachable p s ->
  (In (i, c) (s_outgoing s) <->
   exists cr, nth_error (s_calls s) c = Some cr /\ c_id cr = Some i /\ c_reg cr = true /\ c_resp cr = None).
Proof. exact map_iff. Qed.
(* the response an AsyncCall holds carries the ID of that call; IDs are unique *)
Theorem C39_await_gets_own_id : forall p s c cr r, reachable p s ->
  nth_error (s_calls s) c = Some cr -> c_resp cr = Some r -> c_id cr = Some (rs_id r).
Proof. exact own_id. Qed.
Theorem C39_await_observes_own_id : forall p s c r s', reachable p s -> step s (LAwait c r) = Ok s' ->
  exists cr, nth_error (s_calls s) c = Some cr /\ c_id cr = Some (rs_id r) /\ s' = s.
Proof. exact await_own_id. Qed.
Theorem C39_call_ids_unique : forall p s c c' cr cr' i, reachable p s ->
  nth_error (s_calls s) c = Some cr -> nth_error (s_calls s) c' = Some cr' ->
  c_id cr = Some i -> c_id cr' = Some i -> c = c'.
Proof. exact unique_ids. Qed.
(* a response, once set, is never replaced: every later Await returns the same answer *)
Theorem C39_response_never_changes : forall p s l s' c cr r, reachable p s -> step s l = Ok s' ->
  nth_error (s_calls s) c = Some cr -> c_resp cr = Some r ->
  exists cr', nth_error (s_calls s') c = Some cr' /\ c_resp cr' = Some r.
Proof. exact resp_stable. Qed.
(* when Call has returned, the call is retired or registered (so that the reader / the broken connection retires it) *)
Theorem C39_returned_call_retired_or_pending : forall p s c cr, reachable p s ->
  nth_error (s_calls s) c = Some cr -> returned_pc (c_pc cr) = true ->
  c_resp cr <> None \/ exists i, c_id cr = Some i /\ In (i, c) (s_outgoing s).
Proof. exact call_returned_retired_or_pending. Qed.
(* once done is closed every registered call and every call whose Call() returned has its response *)
Theorem C39_every_call_retired_when_done : forall p s c cr, reachable p s -> s_done s = true ->
  nth_error (s_calls s) c = Some cr -> (c_reg cr = true \/ returned_pc (c_pc cr) = true) -> c_resp cr <> None.
Proof. exact retired_when_done. Qed.

(* the response of an incoming request is written (attempted) at most once ... *)
Theorem C39_incoming_answered_at_most_once : forall p s r rq, reachable p s ->
  nth_error (s_reqs s) r = Some rq -> rq_answers rq <= 1.
Proof. exact answered_once. Qed.
(* ... and after it no thread, queue slot or pending-async slot holds the request in a stage that can write *)
Theorem C39_answered_request_has_no_writer : forall p s r rq, reachable p s ->
  nth_error (s_reqs s) r = Some rq -> rq_answers rq = 1 -> HW s r = 0.
Proof. exact answered_no_writer. Qed.
(* the counters of inFlightState count what is in flight *)
Theorem C39_counters_exact : forall p s, reachable p s ->
  s_outNotifs s = notif_count s /\ s_incoming s = in_flight s /\
  s_handlerRunning s = match s_handler s with HNone => false | _ => true end.
Proof. exact counters. Qed.

(* done is closed only when idle, not reading, shutting down, with the stream closed and incomingByID empty *)
Theorem C39_done_only_when_idle_and_not_reading : forall p s, reachable p s -> s_done s = true ->
  idle s = true /\ s_reading s = false /\ shutting_down s = true /\ s_closer s = false /\ s_byID s = [].
Proof. exact done_facts. Qed.
Theorem C39_done_is_stable : forall s l s', step s l = Ok s' -> s_done s = true -> s_done s' = true.
Proof. exact done_stable. Qed.
(* closer.Close() and onDone() are each called at most once, and exactly once by the time done is closed *)
Theorem C39_closed_once : forall p s, reachable p s ->
  s_rwc_closes s <= 1 /\ s_ondones s <= 1 /\ (s_done s = true -> s_rwc_closes s = 1 /\ s_ondones s = 1).
Proof. exact closed_once. Qed.

(* ------------------------------------------------------------------ progress *)
(* every step that is not the arrival of new work (API invocation, message from the peer) and not a pure
   observation strictly decreases the measure: the implementation cannot run forever on its own, and
   in-flight work only shrinks while nothing new arrives *)
Theorem C39_close_progress : forall s l s', step s l = Ok s' -> is_progress l = true -> measure s' < measure s.
Proof. exact measure_step. Qed.
Theorem C39_observation_keeps_measure : forall s l s', step s l = Ok s' -> is_ack l = true -> measure s' = measure s.
Proof. exact measure_ack. Qed.

(* no internal deadlock: while done is not closed and no asynchronous response is owed by a handler, some step
   that is not the arrival of new work is enabled (an implementation step, or the completion of a Write / Read /
   Preempt / Handle the implementation is waiting for) *)
Theorem C39_no_internal_deadlock : forall p s, reachable p s -> s_done s = false -> s_asyncs s = [] ->
  exists l s', is_progress l = true /\ step s l = Ok s'.
Proof. exact no_internal_deadlock. Qed.
(* with C39_close_progress: every run without new arrivals is finite, and when nothing is left to do
   (measure 0: every thread has returned, the queue and the pending-async set are empty) done is closed,
   i.e. Close / Wait can return *)
Theorem C39_quiescent_is_done : forall p s, reachable p s -> measure s = 0 -> s_done s = true.
Proof. exact measure_zero_done. Qed.

(* ... and then every call has its response, carrying its own ID: every Await can return, with the own answer *)
Theorem C39_all_calls_answered_at_quiescence : forall p s c cr, reachable p s -> measure s = 0 ->
  nth_error (s_calls s) c = Some cr -> exists r, c_resp cr = Some r /\ c_id cr = Some (rs_id r).
Proof. exact all_calls_answered_at_quiescence. Qed.

(* ------------------------------------------------------------------ the history acceptor *)
(* the closure computed by ocaml/c39_driver.ml misses no step: a label is either logged by the harness or, when
   enabled, listed by tau_labels; and the candidate writers of an observed response are all listed *)
Theorem C39_acceptor_closure_complete : forall s l, is_logged l = false -> body_step s l <> Disabled -> In l (tau_labels s).
Proof. exact tau_complete. Qed.
Theorem C39_acceptor_writers_complete : forall s t r w, body_step s (LWriteResp t r w) <> Disabled -> In t (resp_writers s).
Proof. exact writers_complete. Qed.

(* ------------------------------------------------------------------ non-vacuity *)
Definition resp17 : response := {| rs_id := IInt 1; rs_body := BResult 7 |}.
(* a call answered by the peer, awaited, then Close *)
Definition ex_call : list label :=
  [LStart; LStarted; LCallBegin false; LCallAlloc 0; LCallRegister 0; LWriteCall 0 WOk; LCallRet 0 (IInt 1);
   LReadMsg (MResp resp17); LReadResponse; LAwait 0 resp17;
   LCloseBegin; LCloseSet 0; LRwcClose; LReadErr; LReadExit; LOnDone; LWaitSec 0; LCloseRet 0].
Example C39_example_call : exists s, run (init false) ex_call = Ok s /\ s_done s = true /\ quiescent s = true /\
  exists cr, nth_error (s_calls s) 0 = Some cr /\ c_resp cr = Some resp17 /\ c_reg cr = true.
Proof. eexists. split; [vm_compute; reflexivity|]. vm_compute. repeat split; eexists; repeat split. Qed.
(* the peer disconnects while a call is outstanding: the reader retires it with the read error and its own ID *)
Definition ex_disconnect : list label :=
  [LStart; LCallBegin false; LCallAlloc 0; LCallRegister 0; LWriteCall 0 WOk; LCallRet 0 (IInt 1); LReadErr; LReadExit].
Example C39_example_disconnect : exists s, run (init false) ex_disconnect = Ok s /\ s_done s = true /\
  exists cr, nth_error (s_calls s) 0 = Some cr /\ c_resp cr = Some {| rs_id := IInt 1; rs_body := BErr e_read |}.
Proof. eexists. split; [vm_compute; reflexivity|]. vm_compute. repeat split; eexists; repeat split. Qed.
(* an incoming call handled and answered once, a second one rejected while closing *)
Definition ex_incoming : list label :=
  [LStart; LReadMsg (MReq (Some (IInt 5))); LAccept; LEnqueue; LDequeue; LHCheck; LHandleBegin 0;
   LCloseBegin; LCloseSet 0; LReadMsg (MReq (Some (IInt 6))); LAccept; LResultDelete WhoReader;
   LWriteResp WhoReader {| rs_id := IInt 6; rs_body := BErr e_srvclosing |} WOk; LResultDec WhoReader;
   LHandleRet 0 (OOk 3); LResultDelete WhoHandler; LWriteResp WhoHandler {| rs_id := IInt 5; rs_body := BResult 3 |} WOk;
   LResultDec WhoHandler; LDequeue; LReadErr; LReadExit].
Example C39_example_incoming : exists s, run (init false) ex_incoming = Ok s /\ s_done s = true /\
  map rq_answers (s_reqs s) = [1; 1] /\ s_rwc_closes s = 1.
Proof. eexists. split; [vm_compute; reflexivity|]. vm_compute. repeat split. Qed.
(* the measure really moves: it is 4 initially and 0 after the run above is over *)
Example C39_example_measure : measure (init false) = 4 /\
  match run (init false) ex_disconnect with Ok s => measure s | _ => 99 end = 0.
Proof. vm_compute. split; reflexivity. Qed.
(* a panic is a possible outcome of [step] on unreachable states (the theorems are not vacuous about Panic) *)
Example C39_example_panic_possible :
  step (set_reader (RBusy 0 (RPR PDec)) (init false)) (LResultDec WhoReader) = Panic PIncomingZero.
Proof. vm_compute. reflexivity. Qed.

Print Assumptions C39_sites_match.
Print Assumptions C39_funcs_match.
Print Assumptions C39_state_fields_match.
Print Assumptions C39_access_match.
Print Assumptions C39_gen_idle_spec.
Print Assumptions C39_gen_shutting_down_spec.
Print Assumptions C39_close_progress.
Print Assumptions C39_observation_keeps_measure.
Print Assumptions C39_done_is_stable.
Print Assumptions C39_acceptor_closure_complete.
Print Assumptions C39_acceptor_writers_complete.

(* The remaining theorems all rest on the same invariant proof (Proofs.C39.reachable_inv); Print Assumptions walks
   that whole proof for each of them (about 1.5 s apiece), so they are printed as one bundle: the assumptions of the
   tuple are the union of the assumptions of its components. *)
Definition C39_invariant_theorems :=
  (C39_no_panic,
   C39_retire_at_most_once,
   C39_no_transition_after_done_breaks_idle,
   C39_map_is_registered_unretired,
   C39_await_gets_own_id,
   C39_await_observes_own_id,
   C39_call_ids_unique,
   C39_response_never_changes,
   C39_returned_call_retired_or_pending,
   C39_every_call_retired_when_done,
   C39_incoming_answered_at_most_once,
   C39_answered_request_has_no_writer,
   C39_counters_exact,
   C39_done_only_when_idle_and_not_reading,
   C39_closed_once,
   C39_no_internal_deadlock,
   C39_quiescent_is_done,
   C39_all_calls_answered_at_quiescence).
Print Assumptions C39_invariant_theorems.
