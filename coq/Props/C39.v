(* C39 — every JSON-RPC call completes exactly once with its own answer.  Theorems only. *)
From Coq Require Import List NArith ZArith Bool Arith String.
Import ListNotations.
From V Require Import Base.ConnView Gen.ConnSites Model.C39 Proofs.C39.

(* K-gen: every updateInFlight critical section of conn.go (function, ordinal, body hash) is a modelled transition *)
Theorem C39_sites_match : conn_sites = modelled_sites.
Proof. exact sites_match. Qed.
Theorem C39_funcs_match : conn_funcs = modelled_funcs.
Proof. exact funcs_match. Qed.
Theorem C39_state_fields_match : fields_inFlightState = modelled_ifs_fields.
Proof. exact ifs_fields_match. Qed.
Theorem C39_access_match :
  state_access_funcs = modelled_state_access /\ retire_callers = modelled_retire_callers /\ chan_closers = modelled_chan_closers.
Proof. exact access_match. Qed.

Print Assumptions C39_sites_match.
