(* C22 — printing a synthesised tree preserves its structure.  Theorems only; proofs in Proofs/Expr.v.

   Model (Model/Expr.v): pr = printer.expr1 on a tree without positions, as a token list;
   parse_expr = parser.ParseExpr on a token list, fuel-indexed; prec = Token.Precedence,
   regenerated from token/token.go on every run (Gen/Tokens.v).

   parse ts = parse_expr (14 * |ts| + 14) ts, which never runs out of fuel (C22_parser_terminates).

   FULL STATEMENT (what C22 asks):
     forall e, validb e = true -> noparb e = true -> exists e', parse (pr e) = ROk (PE e') [] /\ strip e' = e.
   The faithful model REFUTES it (C22_print_parse_roundtrip_refuted and the witnesses below: the
   printer omits parentheses around ErrWrapExpr.X, ErrWrapExpr.Default, StarExpr.X and around a lambda
   or an "x ?: d" operand).  What is proved is the statement restricted by the decidable predicate
   posokb, which says of every operand position that the operand is parenthesised by the printer or
   is read back at that position by the parser; posokb fails exactly on the shapes above. *)
From Coq Require Import List ZArith Bool.
Import ListNotations.
From V Require Import Base.Prelude Gen.Tokens Gen.PrinterExpr Model.Expr Proofs.ExprFuel Proofs.Expr Proofs.ExprImage Proofs.ExprGen Proofs.ExprTotal.
Open Scope Z_scope.

(* the parser model terminates on every token list: fuel 14 * |ts| + 14 is never exhausted *)
Theorem C22_parser_terminates : forall ts, parse ts <> RFuel.
Proof. exact parse_total. Qed.

(* the round trip: the parser gives back the tree with exactly the printer's parentheses (norm e);
   dropping parentheses gives the original tree *)
Theorem C22_print_parse_roundtrip_partial : forall e,
  validb e = true -> noparb e = true -> posokb e = true ->
  exists e', parse (pr e) = ROk (PE e') [] /\ strip e' = e.
Proof.
  intros e V N K. exists (norm e). split; [now apply roundtrip_closed|now apply strip_norm_nopar].
Qed.

(* the same for trees that contain ParenExpr nodes (used by C19/C20): the result is norm e, it has the
   structure of e, and printing it again gives the same tokens *)
Theorem C22_roundtrip_norm : forall e,
  validb e = true -> posokb e = true ->
  parse (pr e) = ROk (PE (norm e)) [] /\ strip (norm e) = strip e /\ pr (norm e) = pr e.
Proof.
  intros e V K. split; [now apply roundtrip_closed|]. split; [apply (strip_norm (sz e)); auto|apply (pr_norm (sz e)); auto].
Qed.

(* more fuel never changes an answer: the parse result is a function of the tokens *)
Theorem C22_parse_fuel_irrelevant : forall f f' ts,
  parse_expr f ts <> RFuel -> parse_expr f' ts <> RFuel -> parse_expr f ts = parse_expr f' ts.
Proof. exact parse_expr_stable. Qed.

(* K-gen obligations over the regenerated precedence function: every binary operator has a precedence in
   1 .. UnaryPrec-1, is not '=' (which the parser takes for '=='), and is none of the tokens that continue
   or end an operand; closing delimiters have precedence 0; every level 1..5 has an operator *)
Theorem C22_precedence_table : forall z, is_binop z = true -> binop_ok z = true.
Proof. exact binop_facts. Qed.
Theorem C22_delimiters_lowest : prec xgo_RPAREN = 0 /\ prec xgo_RBRACK = 0 /\ prec xgo_COMMA = 0 /\ prec xgo_ELLIPSIS = 0 /\ prec xgo_COLON = 0.
Proof. destruct delim_prec as (A & B & C & D & E & _). auto. Qed.
Theorem C22_levels_inhabited :
  forallb (fun p => existsb (fun z => is_binop z && Z.eqb (prec z) p) (zrange 0 128)) [1;2;3;4;5] = true.
Proof. exact levels_inhabited. Qed.

(* K-gen obligations over the regenerated printer tables (translator `printerexpr`): the precedence constants are the
   ones the model uses; mayCombine inserts a blank between every operator and prefix operator that would otherwise be
   scanned as a longer token or a comment.  (The source text of the operand contexts of expr1 - Proofs/ExprGen.v,
   operands_as_modelled - is compared by checks/c22.py and reported as static_gen information: a textual change of
   expr1 is decided by the differential run, not by its spelling.) *)
Theorem C22_precedence_constants : px_LowestPrec = LowestPrec /\ px_UnaryPrec = UnaryPrec /\ px_HighestPrec = HighestPrec.
Proof. exact prec_constants. Qed.
Theorem C22_mayCombine_covers_prefix_operators :
  forallb (fun t1 => forallb (fun t2 => implb (glues t1 (first_byte t2)) (may_combine t1 (first_byte t2))) prefix_ops) before_ops = true.
Proof. exact mayCombine_covers. Qed.

(* ---- refutations of the full statement on the faithful model ---- *)
Definition a := EId [97%N]. Definition b := EId [98%N]. Definition c := EId [99%N].

(* ErrWrapExpr{X: a+b}  prints  a + b !   which reads  a + (b!) *)
Theorem C22_errwrap_refuted : let e := EEw xgo_NOT (EBin xgo_ADD a b) in
  validb e = true /\ noparb e = true /\ exists e', parse (pr e) = ROk (PE e') [] /\ strip e' <> e.
Proof. intros e. repeat split; try reflexivity. eexists. split; [vm_compute; reflexivity|vm_compute; discriminate]. Qed.

(* StarExpr{X: a+b}  prints  [*] a + b   which reads as the sum of [*]a and b *)
Theorem C22_star_refuted : let e := EStar (EBin xgo_ADD a b) in
  validb e = true /\ noparb e = true /\ exists e', parse (pr e) = ROk (PE e') [] /\ strip e' <> e.
Proof. intros e. repeat split; try reflexivity. eexists. split; [vm_compute; reflexivity|vm_compute; discriminate]. Qed.

(* ErrWrapExpr{X: a, Default: b+c}  prints  a ? : b + c   which reads  (a ?: b) + c *)
Theorem C22_errwrap_default_refuted : let e := EEwd xgo_QUESTION a (EBin xgo_ADD b c) in
  validb e = true /\ noparb e = true /\ exists e', parse (pr e) = ROk (PE e') [] /\ strip e' <> e.
Proof. intros e. repeat split; try reflexivity. eexists. split; [vm_compute; reflexivity|vm_compute; discriminate]. Qed.

(* SelectorExpr{X: a ?: b}  prints  a ? : b . f   which reads  a ?: (b.f) *)
Theorem C22_default_operand_refuted : let e := ESel (EEwd xgo_QUESTION a b) [102%N] in
  validb e = true /\ noparb e = true /\ exists e', parse (pr e) = ROk (PE e') [] /\ strip e' <> e.
Proof. intros e. repeat split; try reflexivity. eexists. split; [vm_compute; reflexivity|vm_compute; discriminate]. Qed.

(* BinaryExpr{X: x => x, +, c}  prints  x => x + c   which reads  x => (x + c);
   BinaryExpr{X: c, +, Y: x => x}  prints  c + x => x   which is a syntax error;
   LambdaExpr{x => (a)(b)} (a call as body)  prints  x => (a)(b)  whose "(a)" is read as a parenthesised result list *)
Theorem C22_lambda_operand_refuted :
  let x := [120%N] in let e1 := EBin xgo_ADD (ELam [x] false [EId x] false) c in let e2 := EBin xgo_ADD c (ELam [x] false [EId x] false) in
  let e3 := ELam [x] false [ECall (EUn xgo_SUB a) [b] false] false in
  validb e1 = true /\ noparb e1 = true /\ (exists e', parse (pr e1) = ROk (PE e') [] /\ strip e' <> e1) /\
  validb e2 = true /\ noparb e2 = true /\ parse (pr e2) = RErr /\
  validb e3 = true /\ noparb e3 = true /\ parse (pr e3) = RErr.
Proof.
  intros x e1 e2 e3. repeat split; try reflexivity; try (vm_compute; reflexivity).
  eexists. split; [vm_compute; reflexivity|vm_compute; discriminate].
Qed.

(* hence the full statement is false on the model *)
Theorem C22_print_parse_roundtrip_refuted :
  ~ (forall e, validb e = true -> noparb e = true -> exists e', parse (pr e) = ROk (PE e') [] /\ strip e' = e).
Proof.
  intros H. destruct C22_star_refuted as (V & N & e1 & P1 & D1). destruct (H _ V N) as (e2 & P2 & D2).
  rewrite P1 in P2. injection P2 as <-. exact (D1 D2).
Qed.

(* ---- non-vacuity: the hypotheses hold of a tree that uses every proved kind and needs parentheses in
   each way, and the conclusion can be computed for it ---- *)
Definition big : expr :=
  EBin xgo_MUL
    (EBin xgo_ADD a (EUn xgo_SUB (EUn xgo_SUB b)))
    (EBin xgo_SUB
       (ECall (ESel (EUn xgo_SUB a) [102%N]) [EBin xgo_LOR a b; EIdx (EStar a) (ELit xgo_INT [49%N]); EEwd xgo_QUESTION (ECall a [] false) (EUn xgo_NOT c);
                                              ELam [[120%N]; [121%N]] true [EBin xgo_ADD a b; ELam [[120%N]] false [EUn xgo_SUB c] false] true] true)
       (EBin xgo_SUB (EEw xgo_NOT (ECall b [c] false)) (EBin xgo_SRARROW a b))).
Example C22_example_hypotheses : validb big = true /\ noparb big = true /\ posokb big = true.
Proof. vm_compute. auto. Qed.
Example C22_example_roundtrip : parse (pr big) = ROk (PE (norm big)) [] /\ strip (norm big) = big /\ norm big <> big.
Proof. vm_compute. repeat split; try reflexivity. discriminate. Qed.
(* posokb is what separates the proved trees from the refuted ones *)
Example C22_example_posok_fails :
  posokb (EEw xgo_NOT (EBin xgo_ADD a b)) = false /\ posokb (EStar (EBin xgo_ADD a b)) = false /\
  posokb (EEwd xgo_QUESTION a (EBin xgo_ADD b c)) = false /\ posokb (ESel (EEwd xgo_QUESTION a b) [102%N]) = false /\
  posokb (EEw xgo_NOT (ECall a [] false)) = true /\ posokb (EStar (EUn xgo_SUB a)) = true.
Proof. vm_compute. auto 10. Qed.

Print Assumptions C22_parser_terminates.
Print Assumptions C22_print_parse_roundtrip_partial.
Print Assumptions C22_roundtrip_norm.
Print Assumptions C22_parse_fuel_irrelevant.
Print Assumptions C22_precedence_table.
Print Assumptions C22_delimiters_lowest.
Print Assumptions C22_levels_inhabited.
Print Assumptions C22_precedence_constants.
Print Assumptions C22_mayCombine_covers_prefix_operators.
Print Assumptions C22_errwrap_refuted.
Print Assumptions C22_star_refuted.
Print Assumptions C22_errwrap_default_refuted.
Print Assumptions C22_default_operand_refuted.
Print Assumptions C22_lambda_operand_refuted.
Print Assumptions C22_print_parse_roundtrip_refuted.
