From Coq Require Import List ZArith Bool.
Import ListNotations.
From V Require Import Base.Prelude Gen.Tokens Model.Expr Proofs.Expr.
Open Scope Z_scope.
Example C22_placeholder : parse (pr (EBin xgo_ADD (EId [97%N]) (EId [98%N]))) = ROk (PE (EBin xgo_ADD (EId [97%N]) (EId [98%N]))) [].
Proof. vm_compute. reflexivity. Qed.
