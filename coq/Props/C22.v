(* C22 — printing a synthesised tree preserves its structure.  Theorems only; proofs in Proofs/Expr*.v.

   Model (Model/Expr.v): pr = printer.expr1 on a tree without positions, as a token list (printer as repaired in
   /repo 509854e: StarExpr.X at UnaryPrec, ErrWrapExpr.X at HighestPrec, .Default at UnaryPrec, "x ?: d" and lambdas
   parenthesised as operands); parse = parser.ParseExpr on a token list with fuel 14*|ts|+14, which is never exhausted
   (C22_parser_terminates); prec = Token.Precedence, regenerated from token/token.go on every run (Gen/Tokens.v).

   FULL STATEMENT (what C22 asks, for the modelled kinds):
     forall e, validb e = true -> noparb e = true -> exists e', parse (pr e) = ROk (PE e') [] /\ strip e' = e.
   One family of trees still REFUTES it on the faithful model (C22_lambda_body_paren_refuted): a lambda whose single
   result expression prints with a leading "(" - "x => (-a)(b)" - is read as a lambda with a parenthesised result list.
   What is proved is the statement restricted by the decidable predicate lamokb that excludes exactly that shape.
   (The refutations of the unrepaired printer - ErrWrapExpr.X/.Default, StarExpr.X, lambda / "x ?: d" operands - are
   now instances of the theorem: C22_repaired_shapes.)  Node kinds outside the model are explored by checks/c22.py. *)
From Coq Require Import List ZArith Bool.
Import ListNotations.
From V Require Import Base.Prelude Gen.Tokens Gen.PrinterExpr Model.Expr Proofs.ExprFuel Proofs.Expr Proofs.ExprImage Proofs.ExprGen Proofs.ExprTotal.
Open Scope Z_scope.

(* the parser model terminates on every token list: fuel 14 * |ts| + 14 is never exhausted *)
Theorem C22_parser_terminates : forall ts, parse ts <> RFuel.
Proof. exact parse_total. Qed.

(* the round trip: the parser gives back the tree with exactly the printer's parentheses (norm e);
   dropping parentheses gives the original tree *)
Theorem C22_print_parse_roundtrip_partial : forall e,
  validb e = true -> noparb e = true -> lamokb e = true ->
  exists e', parse (pr e) = ROk (PE e') [] /\ strip e' = e.
Proof.
  intros e V N L. exists (norm e). split; [now apply roundtrip_lamok_closed|now apply strip_norm_nopar].
Qed.

(* the same for trees that contain ParenExpr nodes (used by C19/C20): the result is norm e, it has the
   structure of e, and printing it again gives the same tokens *)
Theorem C22_roundtrip_norm : forall e,
  validb e = true -> lamokb e = true ->
  parse (pr e) = ROk (PE (norm e)) [] /\ strip (norm e) = strip e /\ pr (norm e) = pr e.
Proof.
  intros e V L. split; [now apply roundtrip_lamok_closed|]. split; [apply (strip_norm (sz e)); auto|apply (pr_norm (sz e)); auto].
Qed.

(* every operand-position condition of the general round trip (posokb) now holds by itself *)
Theorem C22_positions_readable : forall e, validb e = true -> lamokb e = true -> posokb e = true.
Proof. intros e V L. apply (lamok_posok (sz e)); auto. Qed.

(* more fuel never changes an answer: the parse result is a function of the tokens *)
Theorem C22_parse_fuel_irrelevant : forall f f' ts,
  parse_expr f ts <> RFuel -> parse_expr f' ts <> RFuel -> parse_expr f ts = parse_expr f' ts.
Proof. exact parse_expr_stable. Qed.

(* K-gen obligations over the regenerated precedence function: every binary operator has a precedence in
   1 .. UnaryPrec-1, is not '=' (which the parser takes for '=='), and is none of the tokens that continue
   or end an operand; closing delimiters have precedence 0; every level 1..5 has an operator *)
Theorem C22_precedence_table : forall z, is_binop z = true -> binop_ok z = true.
Proof. exact binop_facts. Qed.
Theorem C22_delimiters_lowest : prec xgo_RPAREN = 0 /\ prec xgo_RBRACK = 0 /\ prec xgo_COMMA = 0 /\ prec xgo_ELLIPSIS = 0 /\ prec xgo_COLON = 0.
Proof. destruct delim_prec as (A & B & C & D & E & _). auto. Qed.
Theorem C22_levels_inhabited :
  forallb (fun p => existsb (fun z => is_binop z && Z.eqb (prec z) p) (zrange 0 128)) [1;2;3;4;5] = true.
Proof. exact levels_inhabited. Qed.

(* K-gen obligations over the regenerated printer tables (translator `printerexpr`): the precedence constants are the
   ones the model uses; mayCombine inserts a blank between every operator and prefix operator that would otherwise be
   scanned as a longer token or a comment.  (The source text of the operand contexts of expr1 - Proofs/ExprGen.v,
   operands_as_modelled - is compared by checks/c22.py and reported as static_gen information: a textual change of
   expr1 is decided by the differential run, not by its spelling.) *)
Theorem C22_precedence_constants : px_LowestPrec = LowestPrec /\ px_UnaryPrec = UnaryPrec /\ px_HighestPrec = HighestPrec.
Proof. exact prec_constants. Qed.
Theorem C22_mayCombine_covers_prefix_operators :
  forallb (fun t1 => forallb (fun t2 => implb (glues t1 (first_byte t2)) (may_combine t1 (first_byte t2))) prefix_ops) before_ops = true.
Proof. exact mayCombine_covers. Qed.

(* ---- the shapes the unrepaired printer got wrong are now proved cases ---- *)
Definition a := EId [97%N]. Definition b := EId [98%N]. Definition c := EId [99%N].
Definition repaired : list expr :=
  [EEw xgo_NOT (EBin xgo_ADD a b);                          (* (a + b)!        was  a + b!      *)
   EStar (EBin xgo_ADD a b);                                (* *(a + b)        was  *a + b      *)
   EEwd xgo_QUESTION a (EBin xgo_ADD b c);                  (* a ?: (b + c)    was  a ?: b + c  *)
   ESel (EEwd xgo_QUESTION a b) [102%N];                    (* (a ?: b).f      was  a ?: b.f    *)
   EBin xgo_ADD (ELam [[120%N]] false [EId [120%N]] false) c;   (* (x => x) + c    was  x => x + c  *)
   EBin xgo_ADD c (ELam [[120%N]] false [EId [120%N]] false);   (* c + (x => x)    was  c + x => x  *)
   EEw xgo_NOT (EUn xgo_SUB a); EEwd xgo_QUESTION (EEwd xgo_QUESTION a b) c; ECall (ELam [] false [a] false) [b] false].
Theorem C22_repaired_shapes :
  forallb (fun e => validb e && noparb e && lamokb e) repaired = true /\
  Forall (fun e => exists e', parse (pr e) = ROk (PE e') [] /\ strip e' = e /\ e' <> e) repaired.
Proof.
  split; [vm_compute; reflexivity|].
  repeat constructor; eexists; (split; [vm_compute; reflexivity|split; [vm_compute; reflexivity|vm_compute; discriminate]]).
Qed.

(* ---- the remaining refutation of the full statement on the faithful model ----
   LambdaExpr{x => (-a)(b)} (a call of a parenthesised operand as body) prints  x => (-a)(b) ; the parser takes "(-a)"
   for a parenthesised result list and then fails on "(b)".  With a body that is parenthesised as a whole - x => (a + b) * c -
   likewise. *)
Theorem C22_lambda_body_paren_refuted :
  let x := [120%N] in
  let e1 := ELam [x] false [ECall (EUn xgo_SUB a) [b] false] false in
  let e2 := ELam [x] false [EBin xgo_MUL (EBin xgo_ADD a b) c] false in
  validb e1 = true /\ noparb e1 = true /\ lamokb e1 = false /\ parse (pr e1) = RErr /\
  validb e2 = true /\ noparb e2 = true /\ lamokb e2 = false /\ parse (pr e2) = RErr.
Proof. intros x e1 e2. repeat split; vm_compute; reflexivity. Qed.

(* hence the full statement is false on the model *)
Theorem C22_print_parse_roundtrip_refuted :
  ~ (forall e, validb e = true -> noparb e = true -> exists e', parse (pr e) = ROk (PE e') [] /\ strip e' = e).
Proof.
  intros H. destruct C22_lambda_body_paren_refuted as (V & N & _ & R & _). destruct (H _ V N) as (e' & P' & _).
  rewrite R in P'. discriminate P'.
Qed.

(* ---- non-vacuity: the hypotheses hold of a tree that uses every proved kind and needs parentheses in
   each way, and the conclusion can be computed for it ---- *)
Definition big : expr :=
  EBin xgo_MUL
    (EBin xgo_ADD a (EUn xgo_SUB (EUn xgo_SUB b)))
    (EBin xgo_SUB
       (ECall (ESel (EUn xgo_SUB a) [102%N]) [EBin xgo_LOR a b; EIdx (EStar a) (ELit xgo_INT [49%N]); EEwd xgo_QUESTION (ECall a [] false) (EUn xgo_NOT c);
                                              ELam [[120%N]; [121%N]] true [EBin xgo_ADD a b; ELam [[120%N]] false [EUn xgo_SUB c] false] true] true)
       (EBin xgo_SUB (EEw xgo_NOT (ECall b [c] false)) (EBin xgo_SRARROW a b))).
Example C22_example_hypotheses : validb big = true /\ noparb big = true /\ lamokb big = true /\ posokb big = true.
Proof. vm_compute. auto. Qed.
Example C22_example_roundtrip : parse (pr big) = ROk (PE (norm big)) [] /\ strip (norm big) = big /\ norm big <> big.
Proof. vm_compute. repeat split; try reflexivity. discriminate. Qed.
(* lamokb is what separates the proved trees from the refuted ones *)
Example C22_example_lamok :
  lamokb (ELam [[120%N]] false [ECall (EUn xgo_SUB a) [b] false] false) = false /\
  lamokb (ELam [[120%N]] false [EUn xgo_SUB (ECall a [b] false)] false) = true /\
  lamokb (ELam [[120%N]] false [ECall (EUn xgo_SUB a) [b] false; c] true) = true.
Proof. vm_compute. auto. Qed.

Print Assumptions C22_parser_terminates.
Print Assumptions C22_print_parse_roundtrip_partial.
Print Assumptions C22_roundtrip_norm.
Print Assumptions C22_parse_fuel_irrelevant.
Print Assumptions C22_precedence_table.
Print Assumptions C22_delimiters_lowest.
Print Assumptions C22_levels_inhabited.
Print Assumptions C22_precedence_constants.
Print Assumptions C22_mayCombine_covers_prefix_operators.
Print Assumptions C22_positions_readable.
Print Assumptions C22_repaired_shapes.
Print Assumptions C22_lambda_body_paren_refuted.
Print Assumptions C22_print_parse_roundtrip_refuted.
