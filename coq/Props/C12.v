(* C12 — recorded type information obeys its documented invariants.
   Theorems over MiniScope (Model/C12.v): a lexical resolver with the recorder protocol of cl feeding
   typesutil.Info (Def / Use / Type / Scope events), object positions assigned as cl+gogen assign them.
   Proofs in Proofs/C12.v. *)
From Coq Require Import List NArith Bool String.
Import ListNotations.
From V Require Import Model.C12 Proofs.C12 Gen.C12 Proofs.C12Sites.
Open Scope N_scope.

(* K-gen obligation: the cl call sites (regenerated into Gen/C12.v on every run) give object positions
   and record definitions exactly as the model hard-wires it (a site the generator cannot read is accepted
   as RUnparsed: the identifier map compared dynamically shows every one of these positions).  A repaired site (e.g. one position per
   name) changes Gen/C12.v and this stops to check: the signal to update model, theorems and findings. *)
Theorem C12_sites_as_modelled :
  forallb site_ok c12_sites = true /\ map fst c12_sites = map fst c12_sites_modelled.
Proof. exact sites_as_modelled. Qed.

(* Info.Uses invariant  "Uses[id].Pos() != id.Pos()":  for ALL programs whose identifier occurrences
   are at distinct positions, every recorded use refers to an object declared elsewhere (or to an
   object without position / of another file). *)
Theorem C12_uses_elsewhere : forall p, wf_pos p ->
  forall i o, In (EvUse i o) (run p) -> opos o <> InFile (ipos i).
Proof. exact uses_elsewhere. Qed.

(* Info.Defs invariant "Defs[id] == nil || Defs[id].Pos() == id.Pos()": the faithful model REFUTES it
   (see the _refuted witnesses); what holds for ALL programs is the exact description of the recorded
   position:  the identifier's own position, or -- for a non-first name of a multi-name var/const spec
   or := statement -- the position of the first name, or -- for a range / for-in variable -- none. *)
Theorem C12_defs_pos_characterised : forall p, pkg_names_distinct p ->
  forall i o, In (EvDef i o) (run p) -> def_char (nfp_prog p) (rg_prog p) i o.
Proof. exact defs_pos_characterised. Qed.

(* hence the invariant as documented holds for every program without those two forms *)
Theorem C12_defs_at_own_pos : forall p, pkg_names_distinct p -> nfp_prog p = [] -> rg_prog p = [] ->
  forall i o, In (EvDef i o) (run p) -> opos o = InFile (ipos i).
Proof. exact defs_at_own_pos. Qed.

(* every node recorded in Defs / Uses / Types / Scopes is a node of the checked file -- ALL programs
   (since the repair 1324664 of recordCompositeLit an untyped {...} literal records no nil key) *)
Theorem C12_recorded_nodes_in_files : forall p ev, In ev (run p) -> ev_in (nodes_prog p) ev.
Proof. exact recorded_nodes_in_files. Qed.

(* the blank identifier and re-declared names of := are never recorded by defNames *)
Theorem C12_blank_not_recorded : forall names s i o, In (EvDef i o) (def_names names s) ->
  In i names /\ iname i <> 0%N /\ lookup_scope (iname i) s = Some o.
Proof. exact def_names_in. Qed.

(* ---- witnesses: the documented Defs invariant fails in the faithful model (= known findings) ---- *)

(* var a, b = 1, 2  (identifiers at 5 and 8): Defs[b] carries the position of a *)
Definition ex_multi : prog := [DVar [Id 100 5; Id 101 8] [] (ECons (ELit 12) (ECons (ELit 15) ENil))].
Theorem C12_defs_at_own_pos_refuted_multiname :
  pkg_names_distinct ex_multi /\
  In (EvDef (Id 101 8) (Obj 101 (InFile 5) KVar)) (run ex_multi) /\ forallb def_ok (run ex_multi) = false.
Proof.
  split; [|split].
  - unfold pkg_names_distinct. vm_compute. repeat constructor; simpl; intuition discriminate.
  - vm_compute. auto 10.
  - vm_compute. reflexivity.
Qed.

(* func main() { for k := range []int{1} { } }  : Defs[k] has no position *)
Definition ex_range : prog :=
  [DFunc 6 (Id 100 6) [] [] [] [] 13
     (SCons (SRange 16 [Id 101 20] (EComp 31 [Id 1 33] (ECons (ELit 37) ENil)) 40 SNil) SNil)].
Theorem C12_defs_at_own_pos_refuted_range :
  In (EvDef (Id 101 20) (Obj 101 NoPos KVar)) (run ex_range) /\ forallb def_ok (run ex_range) = false.
Proof. split; vm_compute; auto 10. Qed.

(* func main() { a := 1; a, d := 3, 4 } : d carries the statement position, the re-declared a and a
   blank are not recorded at all *)
Definition ex_redefine : prog :=
  [DFunc 6 (Id 100 6) [] [] [] [] 13
     (SCons (SDefine [Id 101 16] (ECons (ELit 21) ENil))
     (SCons (SDefine [Id 101 24; Id 102 27; Id 0 30] (ECons (ELit 35) (ECons (ELit 38) (ECons (ELit 41) ENil)))) SNil))].
Theorem C12_redeclared_and_blank_unrecorded :
  map snd (fst (fst (info_map ex_redefine))) =
  [MDef true (InFile 6); MDef true (InFile 16); MNone; MDef false (InFile 24); MNone].
Proof. vm_compute. reflexivity. Qed.

(* func main() { var m = {"k": 1} } : the untyped literal records its own node only *)
Definition ex_untyped : prog :=
  [DFunc 6 (Id 100 6) [] [] [] [] 13 (SCons (SVar [Id 101 20] [] (ECons (EXMap 24 (ECons (ELit 30) ENil)) ENil)) SNil)].
Example C12_example_untyped_literal :
  has_nil_type (run ex_untyped) = false /\ In (EvType (InFile 24)) (run ex_untyped) /\
  forallb (node_ok (nodes_prog ex_untyped)) (run ex_untyped) = true.
Proof. vm_compute. auto 10. Qed.

(* import "bytes"; type Base int; type B struct { *Base; bytes.Buffer; x, y int } :
   an embedded field is recorded under its type-name identifier, at that identifier's own position
   (the star / the package qualifier are not part of it), and the same identifier is a use of the type *)
Definition ex_embed : prog :=
  [DImport [] 8 200; DType (Id 100 22) (Id 1 27);
   DStruct (Id 101 37) [Emb [] (Id 100 50); Emb [Id 200 56] (Id 102 62)] [Id 103 70; Id 104 73] [Id 1 75]].
Example C12_example_embedded_fields :
  In (EvDef (Id 100 50) (Obj 100 (InFile 50) KVar)) (run ex_embed) /\
  In (EvUse (Id 100 50) (Obj 100 (InFile 22) KType)) (run ex_embed) /\
  In (EvDef (Id 102 62) (Obj 102 (InFile 62) KVar)) (run ex_embed) /\
  forallb def_ok (run ex_embed) = true /\ forallb use_ok (run ex_embed) = true.
Proof. vm_compute. auto 20. Qed.

(* ---- non-vacuity: a program with shadowing satisfies all hypotheses; the resolver resolves lexically ---- *)

(* var g = 1;  func f(g int) int { x := g; { x := x; g = x }; return x } *)
Definition ex_shadow : prog :=
  [DVar [Id 100 5] [] (ECons (ELit 9) ENil);
   DFunc 17 (Id 101 16) [Id 100 18] [Id 1 20] [] [Id 1 25] 29
     (SCons (SDefine [Id 102 32] (ECons (EUse (Id 100 37)) ENil))
     (SCons (SBlock 40 (SCons (SDefine [Id 102 43] (ECons (EUse (Id 102 48)) ENil))
                        (SCons (SAssign (ECons (EUse (Id 100 51)) ENil) (ECons (EUse (Id 102 55)) ENil)) SNil)))
     (SCons (SReturn (ECons (EUse (Id 102 67)) ENil)) SNil)))].

Example C12_example_wf : wf_pos ex_shadow /\ pkg_names_distinct ex_shadow /\ nfp_prog ex_shadow = [] /\
  rg_prog ex_shadow = [].
Proof.
  split; [|split; [|auto]].
  - unfold wf_pos. vm_compute. repeat constructor; simpl; intuition discriminate.
  - unfold pkg_names_distinct. vm_compute. repeat constructor; simpl; intuition discriminate.
Qed.

Example C12_example_resolution :
  map snd (fst (fst (info_map ex_shadow))) =
  [MDef true (InFile 5);                       (* g *)
   MDef true (InFile 16); MDef true (InFile 18); MUse NoPos; MUse NoPos;   (* f, param g, int, int *)
   MDef true (InFile 32); MUse (InFile 18);     (* x := g  -> the parameter *)
   MDef true (InFile 43); MUse (InFile 32);     (* inner x := x -> the outer x *)
   MUse (InFile 18); MUse (InFile 43);          (* g = x -> parameter, inner x *)
   MUse (InFile 32)].                           (* return x -> outer x *)
Proof. vm_compute. reflexivity. Qed.

Example C12_example_invariants :
  forallb def_ok (run ex_shadow) = true /\ forallb use_ok (run ex_shadow) = true /\
  forallb (node_ok (nodes_prog ex_shadow)) (run ex_shadow) = true.
Proof. vm_compute. auto. Qed.

Print Assumptions C12_sites_as_modelled.
Print Assumptions C12_uses_elsewhere.
Print Assumptions C12_defs_pos_characterised.
Print Assumptions C12_defs_at_own_pos.
Print Assumptions C12_recorded_nodes_in_files.
Print Assumptions C12_blank_not_recorded.
Print Assumptions C12_defs_at_own_pos_refuted_multiname.
Print Assumptions C12_defs_at_own_pos_refuted_range.
