(* C36 — the import cache key changes exactly when package sources change.
   Theorems only; proofs in Proofs/C36.v.  Model: Model/C36.v (tool/imp.go dirHash, canCl):
   fingerprint classes self l = the exact bytes written into SHA-256 for the listing l;
   view classes l = the (name, size, mtime) of the compilable, non-underscore, non-directory entries;
   PkgHash = base64 (SHA-256 (fingerprint ...)), the digest being the Section parameter H. *)
From Coq Require Import List NArith ZArith Bool Sorted.
Import ListNotations.
From V Require Import Base.Prelude Base.Radix Base.Fmt Model.C36 Proofs.C36 Gen.C36 Proofs.C36Gen.
Open Scope N_scope.

(* the hashed text is a function of the view alone ... *)
Theorem C36_fingerprint_view : forall classes self l,
  fingerprint classes self l = self_text self ++ text (view classes l).
Proof. exact fingerprint_view. Qed.

(* ... so changes that touch only other entries never change it *)
Theorem C36_fingerprint_irrelevant_invariant : forall classes self l1 l2,
  view classes l1 = view classes l2 -> fingerprint classes self l1 = fingerprint classes self l2.
Proof. exact fingerprint_irrelevant_invariant. Qed.

Theorem C36_view_drop_irrelevant : forall classes l1 e l2, relevant classes e = false ->
  view classes (l1 ++ e :: l2) = view classes (l1 ++ l2).
Proof. exact view_drop_irrelevant. Qed.

(* create / edit / touch / rename / delete of underscore-prefixed or non-compilable names, and mkdir *)
Theorem C36_op_irrelevant_invariant : forall classes o d,
  Forall (irrelevant_name classes) (op_names o) -> view classes (apply_op o d) = view classes d.
Proof. exact op_irrelevant_invariant. Qed.
Theorem C36_mkdir_invariant : forall classes e d, e_dir e = true -> old_irrelevant classes (e_name e) d ->
  view classes (apply_op (OPut e) d) = view classes d.
Proof. exact mkdir_invariant. Qed.

(* the text determines the view when no relevant file name contains a TAB
   (%x of size and mtime is injective; LF in names is harmless) *)
Theorem C36_fingerprint_injective : forall classes self l1 l2,
  names_plain (view classes l1) -> names_plain (view classes l2) ->
  fingerprint classes self l1 = fingerprint classes self l2 -> view classes l1 = view classes l2.
Proof. exact fingerprint_injective. Qed.

(* the guard is forced: with a TAB in a file name two different source sets give the same text
   (hence the same hash) -- the finding replayed on a real directory by the check *)
Theorem C36_fingerprint_collision :
  view [] coll_l1 <> view [] coll_l2 /\ fingerprint [] None coll_l1 = fingerprint [] None coll_l2.
Proof. exact fingerprint_collision. Qed.

(* hash changes iff the view changes, for any digest H that does not collide on the two texts *)
Theorem C36_hash_changes_iff : forall (digest : Type) (H : str -> digest) classes self l1 l2,
  plain_listing classes l1 -> plain_listing classes l2 -> no_collision digest H classes self l1 l2 ->
  (pkg_hash digest H classes self l1 <> pkg_hash digest H classes self l2 <-> view classes l1 <> view classes l2).
Proof. exact hash_changes_iff. Qed.

(* over every history of operations from every directory: each step changes the hash iff it changes the view *)
Theorem C36_hash_changes_iff_history : forall (digest : Type) (H : str -> digest) classes self ops d,
  Forall (plain_listing classes) (run ops d) ->
  (forall d1 d2, In d1 (run ops d) -> In d2 (run ops d) -> no_collision digest H classes self d1 d2) ->
  consec (step_ok digest H classes self) (run ops d).
Proof. exact hash_changes_iff_history. Qed.

(* and any two states of a history have equal hashes iff equal views *)
Theorem C36_hash_equal_iff_history : forall (digest : Type) (H : str -> digest) classes self ops d d1 d2,
  Forall (plain_listing classes) (run ops d) ->
  (forall a b, In a (run ops d) -> In b (run ops d) -> no_collision digest H classes self a b) ->
  In d1 (run ops d) -> In d2 (run ops d) ->
  (pkg_hash digest H classes self d1 = pkg_hash digest H classes self d2 <-> view classes d1 = view classes d2).
Proof. exact hash_equal_iff_history. Qed.

(* the premises of the history theorems hold along every history that starts from a name-sorted,
   TAB-free directory and introduces only TAB-free names; and for sorted listings (os.ReadDir)
   equality of views is equality of the SETS of relevant (name,size,mtime) *)
Theorem C36_run_plain : forall classes ops d, dir_plain d -> Forall op_plain ops ->
  Forall (fun s => names_plain (view classes s)) (run ops d).
Proof. exact run_plain. Qed.
Theorem C36_run_sorted : forall ops d, listing_sorted d -> Forall listing_sorted (run ops d).
Proof. exact run_sorted. Qed.
Theorem C36_view_eq_iff_same_set : forall classes l1 l2, listing_sorted l1 -> listing_sorted l2 ->
  (view classes l1 = view classes l2 <-> forall x, In x (view classes l1) <-> In x (view classes l2)).
Proof. exact view_eq_iff_same_set. Qed.

(* which entries count: not a directory, no '_' prefix, Info() succeeded, and compilable = extension among
   .go .xgo .gop .gox or registered as a class extension of the module *)
Theorem C36_relevant_spec : forall classes e, relevant classes e = true <->
  e_dir e = false /\ us_prefix (e_name e) = false /\ can_cl classes (e_name e) = true /\ e_info_ok e = true.
Proof. exact relevant_spec. Qed.
Theorem C36_can_cl_spec : forall classes n, can_cl classes n = true <->
  (path_ext n = ext_go \/ path_ext n = ext_xgo \/ path_ext n = ext_gop \/ path_ext n = ext_gox)
  \/ In (path_ext n) classes.
Proof. exact can_cl_spec. Qed.

(* K-gen: the model's text is the rendering of the format strings that are in tool/imp.go now
   (Gen/C36.v is regenerated on every run), with the arguments the source passes, and canCl's
   always-compilable extensions are the case labels of the source *)
Theorem C36_source_line_format : forall e,
  fmt_apply (nth 2 dirhash_formats []) [FStr (e_name e); FHex (e_size e); FHex (e_mtime e)] = Some (line e).
Proof. exact line_is_source_format. Qed.
Theorem C36_source_self_format : forall gov xgov,
  match fmt_apply (nth 0 dirhash_formats []) [FStr gov], fmt_apply (nth 1 dirhash_formats []) [FStr xgov] with
  | Some a, Some b => a ++ b = self_text (Some (gov, xgov))
  | _, _ => False
  end.
Proof. exact self_is_source_format. Qed.
Theorem C36_source_tables :
  length dirhash_formats = 3%nat
  /\ dirhash_format_args =
       [[src [95;46;86;101;114;115;105;111;110;40;41]];
        [src [95;46;86;101;114;115;105;111;110]];
        [src [95]; src [95;46;83;105;122;101;40;41];
         src [95;46;77;111;100;84;105;109;101;40;41;46;85;110;105;120;78;97;110;111;40;41]]]
  /\ dirhash_prefix_literals = [[USCORE]]
  /\ dirhash_skips_dirs = true.
Proof. exact dirhash_tables. Qed.
Theorem C36_source_cancl : cancl_case_labels = [[ext_go; ext_xgo; ext_gop; ext_gox]]
  /\ forall classes n, In (path_ext n) (concat cancl_case_labels) -> can_cl classes n = true.
Proof. split; [exact cancl_table|exact can_cl_by_table]. Qed.

(* non-vacuity: a small history with a relevant edit, an irrelevant edit, a rename and a delete *)
Definition n_a : str := [97;46;103;111].          (* a.go *)
Definition n_u : str := [95;97;46;103;111].       (* _a.go *)
Definition n_t : str := [120;46;116;120;116].     (* x.txt *)
Definition n_s : str := [109;46;115;112;120].     (* m.spx *)
Definition ex_ops : list op :=
  [OPut (mkE n_a false true 3 100); OPut (mkE n_u false true 5 7); OPut (mkE n_t false true 1 1);
   OPut (mkE n_a false true 4 101); ORename n_a n_t; ODel n_t].
Example C36_example_views : map (view []) (run ex_ops []) =
  [[]; [(n_a, 3, 100)]; [(n_a, 3, 100)]; [(n_a, 3, 100)]; [(n_a, 4, 101)]; []; []]%Z.
Proof. vm_compute. reflexivity. Qed.
Example C36_example_text : fingerprint [] None [mkE n_a false true 255 (-16); mkE n_u false true 1 1] =
  [102;105;108;101;9;97;46;103;111;9;102;102;9;45;49;48;10].     (* "file\ta.go\tff\t-10\n" *)
Proof. vm_compute. reflexivity. Qed.
Example C36_example_class : (can_cl [] n_s, can_cl [[46;115;112;120]] n_s) = (false, true).
Proof. vm_compute. reflexivity. Qed.
Example C36_example_sorted_plain : Forall listing_sorted (run ex_ops []) /\ Forall (fun s => names_plain (view [] s)) (run ex_ops []).
Proof.
  split; [apply run_sorted; constructor|].
  apply run_plain; [constructor|]. repeat constructor; vm_compute; intuition discriminate.
Qed.

Print Assumptions C36_fingerprint_view.
Print Assumptions C36_fingerprint_irrelevant_invariant.
Print Assumptions C36_view_drop_irrelevant.
Print Assumptions C36_op_irrelevant_invariant.
Print Assumptions C36_mkdir_invariant.
Print Assumptions C36_fingerprint_injective.
Print Assumptions C36_fingerprint_collision.
Print Assumptions C36_hash_changes_iff.
Print Assumptions C36_hash_changes_iff_history.
Print Assumptions C36_hash_equal_iff_history.
Print Assumptions C36_run_plain.
Print Assumptions C36_run_sorted.
Print Assumptions C36_view_eq_iff_same_set.
Print Assumptions C36_relevant_spec.
Print Assumptions C36_can_cl_spec.
Print Assumptions C36_source_line_format.
Print Assumptions C36_source_self_format.
Print Assumptions C36_source_tables.
Print Assumptions C36_source_cancl.
