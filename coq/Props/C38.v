(* C38 — JSON-RPC framing round-trips any message stream.  Theorems only; proofs in Proofs/C38.v.
   Model: Model/C38.v (headerReader.Read / headerWriter.Write of x/jsonrpc2/frame.go over byte streams).
   read_frame s = Ok (result, total): one call of Reader.Read on the stream s, total = bytes consumed. *)
From Coq Require Import List NArith ZArith Bool.
Import ListNotations.
From V Require Import Base.Prelude Base.Radix Base.Fmt Model.C38 Proofs.C38 Gen.C38 Proofs.C38Gen.
Open Scope N_scope.

(* Read is total on every byte stream: it returns (never Panic, never out of fuel) and reports
   no more bytes than the stream has *)
Theorem C38_read_total : forall s, exists r n, read_frame s = Ok (r, n) /\ n <= nlen s.
Proof. exact read_total. Qed.

(* ... and reading a stream to its end (Read until the clean EOF) terminates *)
Theorem C38_read_stream_total : forall s, exists l, read_stream s = Ok l.
Proof. exact read_stream_total. Qed.

(* one frame: what the writer emits for a payload of 1 .. 2^31-1 bytes is read back as that
   payload, consuming exactly the frame, whatever follows *)
Theorem C38_frame_roundtrip : forall p rest, 0 < nlen p < 2147483648 ->
  read_frame (write_frame p ++ rest) = Ok (RPayload p, nlen (write_frame p)).
Proof. exact frame_roundtrip. Qed.

(* the size guard is sharp: the writer emits, but the reader rejects, empty and >= 2 GiB payloads *)
Theorem C38_oversize_rejected : forall p rest, 2147483648 <= nlen p ->
  read_frame (write_frame p ++ rest) = Ok (RErr EHdrLength, nlen (header_line (nlen p))).
Proof. exact oversize_rejected. Qed.
Theorem C38_empty_rejected : forall rest,
  read_frame (write_frame [] ++ rest) = Ok (RErr EHdrLength, nlen (header_line 0)).
Proof. exact empty_rejected. Qed.

(* any sequence of payloads: reading back what was written yields the same payloads in order,
   each read consuming exactly its frame, then the clean EOF (induction on the list, no bound) *)
Theorem C38_stream_roundtrip : forall ps, Forall payload_ok ps ->
  read_stream (write_stream ps) = Ok (map (fun p => (RPayload p, nlen (write_frame p))) ps ++ [(RErr EEOF, 0)]).
Proof. exact stream_roundtrip. Qed.

(* with a message codec that round-trips on a message domain `good` (EncodeMessage / DecodeMessage:
   hypotheses, explored on the implementation by the check): the messages come back in order *)
Theorem C38_stream_roundtrip_codec :
  forall (msg : Type) (enc : msg -> str) (dec : str -> option msg) (good : msg -> Prop),
  (forall m, good m -> dec (enc m) = Some m) ->
  (forall m, good m -> payload_ok (enc m)) ->
  forall ms, Forall good ms ->
  exists l, read_stream (write_stream (map enc ms)) = Ok (l ++ [(RErr EEOF, 0)])
    /\ map (deliver msg dec) l = map Some ms.
Proof. exact stream_roundtrip_codec. Qed.

(* a successful read consumed exactly a header block that declares |p|, then p: s = h ++ p ++ rest *)
Theorem C38_read_consumes_exactly : forall s p n, read_frame s = Ok (RPayload p, n) ->
  exists h, declares h (nlen p) /\ s = h ++ p ++ skipn (N.to_nat n) s /\ n = nlen h + nlen p /\ 0 < nlen p < 2147483648.
Proof. exact read_consumes_exactly. Qed.

(* every failed read, by error class: what was consumed.  Header-stage errors consume exactly the
   header lines up to the offending one (and would fail identically whatever follows); body-stage
   errors happen only when the stream ends before the declared length *)
Theorem C38_read_error_consumption_bounded : forall s e n, read_frame s = Ok (RErr e, n) ->
  n <= nlen s /\
  match e with
  | EEOF => s = [] /\ n = 0
  | EHdrEOF => n = nlen s
  | EBodyEOF => exists d, declares s d /\ n = nlen s
  | EBodyShort => exists h body d, declares h d /\ s = h ++ body /\ 0 < nlen body < d /\ n = nlen s
  | _ => exists h rest, h <> [] /\ s = h ++ rest /\ n = nlen h /\ forall rest', read_frame (h ++ rest') = Ok (RErr e, n)
  end.
Proof. exact read_error_consumption_bounded. Qed.

(* whatever the outcome, never past header + declared content length *)
Theorem C38_read_never_past_declared : forall s r n h d rest,
  read_frame s = Ok (r, n) -> declares h d -> s = h ++ rest -> nlen h <= n <= nlen h + d.
Proof. exact read_never_past_declared. Qed.

(* unless the stream ended, the outcome is a function of the consumed bytes alone: the reader
   never looks at (let alone consumes) a byte beyond `total` *)
Theorem C38_read_prefix_determined : forall s r n, read_frame s = Ok (r, n) ->
  match r with RErr EEOF | RErr EHdrEOF | RErr EBodyEOF | RErr EBodyShort => True
  | _ => forall t, read_frame (firstn (N.to_nat n) s ++ t) = Ok (r, n) end.
Proof. exact read_prefix_determined. Qed.

(* Read succeeds exactly on streams that begin with a complete header block declaring n followed by
   n bytes; on every other (malformed, truncated) stream it returns an error -- never a message *)
Theorem C38_read_success_iff : forall s, (exists p n, read_frame s = Ok (RPayload p, n)) <-> well_framed s.
Proof. exact read_success_iff. Qed.
Theorem C38_malformed_error : forall s, ~ well_framed s -> exists e n, read_frame s = Ok (RErr e, n) /\ n <= nlen s.
Proof. exact malformed_error. Qed.

(* a read that is not the clean EOF makes progress *)
Theorem C38_read_progress : forall s r n, read_frame s = Ok (r, n) -> n = 0 -> r = RErr EEOF /\ s = [].
Proof. exact read_progress. Qed.

(* K-gen: the literals of x/jsonrpc2/frame.go as it is now (Gen/C38.v is regenerated on every run):
   header name, line delimiter, name separator, ParseInt base and bit size, the integer tests (total == 0, colon < 0, length <= 0, length == 0);
   and write_frame is the rendering of the writer's own format string *)
Theorem C38_source_reader :
  reader_header_names = [[content_length]]
  /\ reader_line_delim = LF /\ reader_name_sep = COLON
  /\ reader_parseint_base = 10%Z /\ reader_parseint_bits = 32%Z
  /\ reader_int_tests = [src [61;61;48]; src [60;48]; src [60;61;48]; src [61;61;48]]
  /\ reader_trimspace_calls = 2%Z.
Proof. exact reader_tables. Qed.
Theorem C38_source_writer_format : forall p,
  match fmt_apply writer_format [FDec (nlen p)] with Some h => h ++ p = write_frame p | None => False end.
Proof. exact write_frame_is_source_format. Qed.
Theorem C38_source_writer_args : writer_format_args = [src [108;101;110;40;95;41]].
Proof. exact writer_args. Qed.

(* non-vacuity *)
Definition ex_p1 : str := [123;125].                         (* {} *)
Definition ex_p2 : str := [91;49;44;50;93].                  (* [1,2] *)
Example C38_example_write : write_frame ex_p1 =
  [67;111;110;116;101;110;116;45;76;101;110;103;116;104;58;32;50;13;10;13;10;123;125].
Proof. vm_compute. reflexivity. Qed.
Example C38_example_stream : read_stream (write_stream [ex_p1; ex_p2]) =
  Ok [(RPayload ex_p1, 23); (RPayload ex_p2, 26); (RErr EEOF, 0)].
Proof. vm_compute. reflexivity. Qed.
Example C38_example_declares : declares (frame_header 2) 2.
Proof. apply frame_header_declares. split; reflexivity. Qed.
(* "Content-Length: 5\r\n\r\nab": body shorter than declared; "x\n...": header line without colon,
   only that line is consumed; a later Content-Length overrides an earlier one *)
Example C38_example_short : read_frame (frame_header 5 ++ [97;98]) = Ok (RErr EBodyShort, 23).
Proof. vm_compute. reflexivity. Qed.
Example C38_example_badline : read_frame ([120;10] ++ write_frame ex_p1) = Ok (RErr EHdrLine, 2).
Proof. vm_compute. reflexivity. Qed.
Example C38_example_override : read_frame (header_line 9 ++ write_frame ex_p1) = Ok (RPayload ex_p1, 42).
Proof. vm_compute. reflexivity. Qed.

Print Assumptions C38_read_total.
Print Assumptions C38_read_stream_total.
Print Assumptions C38_frame_roundtrip.
Print Assumptions C38_oversize_rejected.
Print Assumptions C38_empty_rejected.
Print Assumptions C38_stream_roundtrip.
Print Assumptions C38_stream_roundtrip_codec.
Print Assumptions C38_read_consumes_exactly.
Print Assumptions C38_read_error_consumption_bounded.
Print Assumptions C38_read_never_past_declared.
Print Assumptions C38_read_prefix_determined.
Print Assumptions C38_read_progress.
Print Assumptions C38_read_success_iff.
Print Assumptions C38_malformed_error.
Print Assumptions C38_source_reader.
Print Assumptions C38_source_writer_format.
Print Assumptions C38_source_writer_args.
