(* C29 — grammar matching follows the documented TPL semantics (tpl/matcher/match.go, tpl/README.md).
   Theorems only; proofs in Proofs/Tpl.v, Proofs/TplSem.v.

   [run env toks f (SM g i)] = g.Match(toks[i:], ctx) of the line-by-line model; a result is
   (n, result, failed).  [result_of g x] : x is the result of a successful match of g somewhere. *)
From Coq Require Import List NArith ZArith Bool Arith.
Import ListNotations.
From V Require Import Base.Prelude Base.TplRes Gen.Tokens Model.Tpl Model.C30 Proofs.Tpl Proofs.TplSem Proofs.TplSpec Model.TplRp Proofs.TplRpTerm Proofs.TplRpCons.
Local Open Scope nat_scope.

(* REFINEMENT.  [Dst env toks s o] (Proofs/TplSpec.v) is the README semantics written as a fuel-free
   derivation relation: ordered choice (first success wins; an option that consumed input and failed
   ends the choice unless a later option's first set conflicts), sequences of n results, greedy
   repetition until the body fails, ?R -> result or nil, ++ -> pair of non-empty touching parts,
   rule references -> their bodies.  The matcher computes exactly this relation: every terminating
   run is a derivation (success/failure, tokens consumed, result tree), every derivation is found
   with enough fuel — for ALL grammars and inputs (no productivity or conflict-freedom needed);
   on productive grammars C28 adds that a derivation always exists. *)
Theorem C29_match_refines_sem : forall env toks s o,
  Dst env toks s o <-> exists f r, run env toks f s = Ok r /\ oc_of r = o.
Proof. exact refines. Qed.
(* the semantics determines the outcome: at most one of success (n, tree) / failure (n) is derivable *)
Theorem C29_sem_functional : forall env toks s o1 o2, Dst env toks s o1 -> Dst env toks s o2 -> o1 = o2.
Proof. exact functional. Qed.

(* Result rewriters (RetProcs): Model/TplRp.v [runp] additionally models Var.RetProc and what every combinator
   does with a runtime (Dyn) error (stated in that file; tied to the code by the differential run, not proved
   against a separate specification).  It is a conservative extension: for a grammar compiled without RetProcs
   it computes exactly what [run] computes — same n, same success/failure, same tree — so every theorem of this
   file is a theorem about the RetProc-aware model restricted to such grammars. *)
Theorem C29_retprocs_conservative : forall env toks f doc,
  same (match_doc env toks f doc) (match_doc_rp (attach env []) toks f doc).
Proof. exact match_doc_conservative. Qed.

(* matching is a function of (grammar, input, position): terminating runs agree whatever the fuel *)
Theorem C29_deterministic : forall env toks f1 f2 s,
  is_fuel (run env toks f1 s) = false -> is_fuel (run env toks f2 s) = false -> run env toks f1 s = run env toks f2 s.
Proof. exact run_det. Qed.

(* Sequence R1 ... Rn: a list with exactly n elements, the k-th a result of Rk *)
Theorem C29_sequence_shape : forall env toks f items i n x,
  run env toks f (SM (MSeq items) i) = Ok (n, x, false) ->
  exists l, x = RList l /\ Forall2 (result_of env toks) items l.
Proof. exact seq_shape. Qed.
Theorem C29_sequence_length : forall env toks f items i n x,
  run env toks f (SM (MSeq items) i) = Ok (n, x, false) -> exists l, x = RList l /\ length l = length items.
Proof. exact seq_length. Qed.

(* *R: never fails; a list of results of R; greedy — it stops only where R fails (no backtracking) *)
Theorem C29_repeat0_greedy : forall env toks f r i n x e,
  run env toks f (SM (MRep0 r) i) = Ok (n, x, e) ->
  e = false /\ exists l, x = RList l /\ Forall (result_of env toks r) l /\
  exists f' n' x', run env toks f' (SM r (i + n)) = Ok (n', x', true).
Proof. exact rep0_shape. Qed.
(* +R: a non-empty list, greedy; fails exactly when the first R fails *)
Theorem C29_repeat1_greedy : forall env toks f r i n x,
  run env toks f (SM (MRep1 r) i) = Ok (n, x, false) ->
  exists l, x = RList l /\ l <> [] /\ Forall (result_of env toks r) l /\
  exists f' n' x', run env toks f' (SM r (i + n)) = Ok (n', x', true).
Proof. exact rep1_shape. Qed.
Theorem C29_repeat1_fail : forall env toks f r i n x,
  run env toks f (SM (MRep1 r) i) = Ok (n, x, true) -> exists x', run env toks (pred f) (SM r i) = Ok (n, x', true).
Proof. exact rep1_fail. Qed.

(* ?R: never fails; the result of R, or nil (consuming nothing) when R fails *)
Theorem C29_optional : forall env toks f r i n x e,
  run env toks f (SM (MRep01 r) i) = Ok (n, x, e) ->
  e = false /\ ((exists f', run env toks f' (SM r i) = Ok (n, x, false)) \/
                (n = 0 /\ x = RNil /\ exists f' n' x', run env toks f' (SM r i) = Ok (n', x', true))).
Proof. exact opt_shape. Qed.

(* R1 % R2: [r1, [[sep, r], …]] *)
Theorem C29_list_shape : forall env toks f a b i n x,
  run env toks f (SM (MList a b) i) = Ok (n, x, false) ->
  exists r0 pairs, x = RList (mk_list r0 pairs) /\ result_of env toks a r0 /\
                   Forall (fun p => result_of env toks b (fst p) /\ result_of env toks a (snd p)) pairs.
Proof. exact list_shape. Qed.
(* … on which the helpers of tpl.go (C30) never panic and return the R1 results in order *)
Theorem C29_helpers_no_panic_on_list_results : forall env toks f a b i n x,
  run env toks f (SM (MList a b) i) = Ok (n, x, false) ->
  exists inp flat, x = RList inp /\ list_ inp = Ok flat /\ range_op inp = (flat, true).
Proof. exact helpers_no_panic_on_list_results. Qed.

(* R1 ++ R2: a pair; both operands consume tokens; the last token of R1 ends where the first of R2 starts *)
Theorem C29_adjoin_shape : forall env toks f a b i n x,
  run env toks f (SM (MAdj a b) i) = Ok (n, x, false) ->
  exists na nb r0 r1 p q,
    x = RList [r0; r1] /\ n = na + nb /\ 1 <= na /\ 1 <= nb /\
    (exists f', run env toks f' (SM a i) = Ok (na, r0, false)) /\
    (exists f', run env toks f' (SM b (i + na)) = Ok (nb, r1, false)) /\
    nth_error toks (i + na - 1) = Some p /\ nth_error toks (i + na) = Some q /\ tok_end p = Ok (tpos q).
Proof. exact adjoin_shape. Qed.

(* Alternatives: ordered — the result is that of the first option that succeeds, all earlier ones failed *)
Theorem C29_choice_ordered : forall env toks f opts st i n x,
  run env toks f (SM (MChoice opts st) i) = Ok (n, x, false) ->
  exists pre o post, opts = pre ++ o :: post /\ (exists f', run env toks f' (SM o i) = Ok (n, x, false)) /\
                     Forall (fun o' => exists f' n' x', run env toks f' (SM o' i) = Ok (n', x', true)) pre.
Proof. exact choice_sound. Qed.
(* … with commitment: an option that consumed input and failed ends the choice iff its first set
   conflicts with no later option (stops); otherwise the later options are tried.  This is where
   the implementation differs from a PEG reading of "ordered choice" (README is silent). *)
Theorem C29_choice_commit_semantics : forall env toks f o t s st i nm n x,
  run env toks f (SM o i) = Ok (n, x, true) ->
  (0 < n -> s = true -> run env toks (S f) (SCh (o :: t) (s :: st) i nm) = Ok (n, x, true)) /\
  (n = 0 \/ s = false -> run env toks (S f) (SCh (o :: t) (s :: st) i nm) = run env toks f (SCh t st i (Nat.max nm n))).
Proof. intros env toks f o t s st i nm n x H. split; [intros; eapply choice_commit|intros; eapply choice_next]; eauto. Qed.

(* tokens and keywords: exactly one token, the result is that token *)
Theorem C29_token : forall env toks f k i n x, run env toks f (SM (MTok k) i) = Ok (n, x, false) ->
  n = 1 /\ x = RTok i /\ exists t, nth_error toks i = Some t /\ ttok t = k.
Proof. exact tok_shape. Qed.
Theorem C29_keyword : forall env toks f k l i n x, run env toks f (SM (MLit k l) i) = Ok (n, x, false) ->
  n = 1 /\ x = RTok i /\ exists t, nth_error toks i = Some t /\ ttok t = k /\ tlit t = l.
Proof. exact lit_shape. Qed.

(* non-vacuity: the README example  INT % ","  on  1, 2, 3  and the commit example ("a" "b" | ?"c") on  a x *)
Definition t_int (s : N) (p : Z) := mkT 5%Z [s] p.
Definition t_comma (p : Z) := mkT 44%Z [] p.
Example C29_example_list :
  run [] [t_int 49 1; t_comma 2; t_int 50 4; t_comma 5; t_int 51 7] 20 (SM (MList (MTok 5) (MTok 44)) 0)
  = Ok (5, RList [RTok 0; RList [RList [RTok 1; RTok 2]; RList [RTok 3; RTok 4]]], false).
Proof. vm_compute. reflexivity. Qed.
Definition kw (c : N) := MLit 4 [c].
Example C29_example_commit :
  run [] [mkT 4 [97%N] 1; mkT 4 [120%N] 3] 20
      (SM (MChoice [MSeq [kw 97; kw 98]; MRep01 (kw 99)] [true; true]) 0) = Ok (1, RNil, true).
Proof. vm_compute. reflexivity. Qed.
Example C29_example_adjoin :    (* IDENT ++ STRING on  tpl`x`  (touching)  and on  tpl `x`  (blank) *)
  run [] [mkT 4 [116;112;108]%N 1; mkT 9 [96;120;96]%N 4] 20 (SM (MAdj (MTok 4) (MStr 96)) 0) = Ok (2, RList [RTok 0; RTok 1], false) /\
  run [] [mkT 4 [116;112;108]%N 1; mkT 9 [96;120;96]%N 5] 20 (SM (MAdj (MTok 4) (MStr 96)) 0) = Ok (1, RNil, true).
Proof. split; vm_compute; reflexivity. Qed.

Print Assumptions C29_match_refines_sem.
Print Assumptions C29_sem_functional.
Print Assumptions C29_retprocs_conservative.
Print Assumptions C29_deterministic.
Print Assumptions C29_sequence_shape.
Print Assumptions C29_repeat0_greedy.
Print Assumptions C29_repeat1_greedy.
Print Assumptions C29_optional.
Print Assumptions C29_list_shape.
Print Assumptions C29_helpers_no_panic_on_list_results.
Print Assumptions C29_adjoin_shape.
Print Assumptions C29_choice_ordered.
Print Assumptions C29_choice_commit_semantics.
Print Assumptions C29_token.
Print Assumptions C29_keyword.
