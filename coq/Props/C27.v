(* C27 — grammar compilation never panics (tpl/tpl.go New, tpl/cl/compile.go NewEx/compileExpr/
   tokenExpr/checkToken, tpl/token Token.Len).  Theorems only; proofs in Proofs/TplCl.v.

   [tpl_Len] is the Gallina translation of Token.Len regenerated from /repo on every run
   (Gen/Tokens.v, array indexing = [idx], out of range = Panic); [tplcl_idents] etc. likewise
   (Gen/TplCl.v).  strconv.Unquote/UnquoteChar are inputs of the model ([unq], assumed [unq_ok]). *)
From Coq Require Import List NArith ZArith Bool Arith Lia.
Import ListNotations.
From V Require Import Base.Prelude Base.TplRes Gen.Tokens Gen.TplCl Model.C31 Model.Tpl Model.TplCl Proofs.TplCl Gen.TplFirst Proofs.TplFirst.
Local Open Scope nat_scope.

(* Token.Len never indexes outside the tokens table, for every token a one-byte literal can denote *)
Theorem C27_token_len_total : forall b, (0 <= b < 256)%Z -> exists n, tpl_Len b = Ok n.
Proof. exact token_len_total. Qed.

(* … and every token checkToken finds by spelling is inside that range *)
Theorem C27_check_token_range : forall v t, for_each_find v = Some t -> (0 <= t < 256)%Z.
Proof. exact for_each_find_range. Qed.

(* compileExpr returns (matcher|!ok, errors) — never panics — on every tree without a nil operand
   whose CHAR literals carry both quotes, whatever the declared rule names *)
Theorem C27_compile_expr_no_panic : forall unq rules e, unq_ok unq -> compilable e = true ->
  exists r, compile_expr unq rules e = Ok r.
Proof. intros unq rules e Hu. exact (compile_expr_no_panic unq rules Hu e). Qed.

(* cl.NewEx: compiler or error, never a panic *)
Theorem C27_compile_no_panic : forall unq rs, unq_ok unq -> rules_compilable rs = true ->
  exists r, compile unq rs = Ok r.
Proof. exact compile_no_panic. Qed.

(* tpl.New = ParseFile then NewEx: whenever the grammar text parses without error (otherwise
   tpl.New returns the parse error, C31_total: the parser itself never panics), NewEx does not panic *)
Theorem C27_new_no_panic : forall unq ts rs, unq_ok unq -> parse_file ts = Ok (rs, 0) ->
  rules_chars_ok rs = true -> exists r, compile unq rs = Ok r.
Proof. exact new_no_panic. Qed.

(* … stated on the token stream tpl/scanner delivers: the only assumption about the scanner is that
   a CHAR token carries both quotes (checked on every case of every run) *)
Theorem C27_new_no_panic_tokens : forall unq ts rs, unq_ok unq -> toks_char_ok ts -> parse_file ts = Ok (rs, 0) ->
  exists r, compile unq rs = Ok r.
Proof. exact new_no_panic_tokens. Qed.

(* K-gen: NewEx's recover converts exactly the panic of Var.First (RecursiveError, also raised for a rule whose
   body failed to compile: Elem == nil); the body of every First method is regenerated from the source and
   must be the rule the model implements *)
Theorem C27_first_rules_match_source : tplfirst_rules = model_first_rules.
Proof. exact first_rules_match_source. Qed.

(* the hypotheses matter: a nil operand (possible only after a reported parse error) or a CHAR
   literal shorter than two bytes (possible only after a reported scan error) would panic *)
Theorem C27_nil_operand_panics : forall unq rules o, compile_expr unq rules (EUn o ENil) = Panic.
Proof. intros. reflexivity. Qed.
Theorem C27_short_char_panics : forall unq rules, compile_expr unq rules (ELit true [39%N]) = Panic.
Proof. intros. reflexivity. Qed.

(* non-vacuity: doc = '\x9e' (the former off-by-one witness) is now a compile error, not a panic;
   doc = "+" '<' "<<=" compiles *)
Definition unq_ex (k : bool) (l : str) : uq :=
  if k then (if str_eqb l [39;92;120;57;101;39]%N then UqChar 158%Z false false else UqChar 60%Z false false)
  else if str_eqb l [34;43;34]%N then UqStr [43]%N else UqStr [60;60;61]%N.
Example C27_example_9e :
  compile unq_ex [([100]%N, ELit true [39;92;120;57;101;39]%N)] = Ok None /\ tpl_Len 158%Z = Ok 0%Z /\ tpl_Len 157%Z = Ok 2%Z.
Proof. repeat split; vm_compute; reflexivity. Qed.
Example C27_example_ok :
  compile unq_ex [([100]%N, ESeq [ELit false [34;43;34]%N; ELit true [39;60;39]%N; ELit false [34;60;60;61;34]%N])]
  = Ok (Some ([Some (MSeq [MTok 43%Z; MTok 60%Z; MTok 140%Z])], 0)).
Proof. vm_compute. reflexivity. Qed.
Example C27_unq_ex_ok : unq_ok unq_ex.
Proof.
  split.
  - intros l v tail. unfold unq_ex. destruct (str_eqb l _); intros H; injection H as <- _; lia.
  - intros l v. unfold unq_ex. destruct (str_eqb l _); intros H; injection H as <-; reflexivity.
Qed.

(* a rule that fails to compile, referenced from a choice: an error list, not a panic
     doc = a | INT     a = "@@" *)
Example C27_example_broken_rule_referenced :
  compile (fun _ _ => UqStr [64; 64]%N)
          [([100]%N, EChoice [EIdent [97]%N; EIdent [73;78;84]%N]); ([97]%N, ELit false [34;64;64;34]%N)] = Ok None.
Proof. vm_compute. reflexivity. Qed.

Print Assumptions C27_token_len_total.
Print Assumptions C27_first_rules_match_source.
Print Assumptions C27_check_token_range.
Print Assumptions C27_compile_expr_no_panic.
Print Assumptions C27_compile_no_panic.
Print Assumptions C27_new_no_panic.
Print Assumptions C27_new_no_panic_tokens.
