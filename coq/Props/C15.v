(* C15 - scanning is total and every token is the exact source text.
   Theorems only; proofs in Proofs/ScanBase, ScanSub, ScanTotal, ScanSpec, ScanCor.
   Model: Model/Scan.v (run = Init + Scan until EOF, fuel 2*|src|+3), dialect XGo = scanner/scanner.go.
   ul ud : unicode.IsLetter / IsDigit above 0x7f (arbitrary).  Definitions of the statements:
   Model/ScanRel.v (sub, is_blank, cr_del, lit_ok, bom_len, ends_eof in Proofs/ScanSpec.v).
   Tok = (tpos, ttok, tlit, tend): what Scan returns plus the offset just after the token's
   source text (s.offset at return minus a pending unit). *)
From Coq Require Import List NArith ZArith Bool.
Import ListNotations.
From V Require Import Base.Prelude Gen.ScanTok Model.Scan Model.ScanRel Gen.ScanConst Proofs.ScanConst
  Proofs.ScanBase Proofs.ScanTotal Proofs.ScanSpec Proofs.ScanCor Proofs.ScanFuel.
Open Scope Z_scope.

(* scan_total: for every byte string, both comment modes - and all three dialects - Scan never
   panics (scanComment's lit[1] included) and the stream ends within fuel_of src = 2*|src|+3 steps *)
Theorem C15_scan_total : forall ul ud d cm src, exists toks errs, run ul ud d cm src = Ok (toks, errs).
Proof. exact run_total. Qed.

(* the stream is [...; EOF] with EOF placed at |src| and no other EOF token *)
Theorem C15_scan_ends_in_eof : forall ul ud cm src toks errs,
  run ul ud XGo cm src = Ok (toks, errs) ->
  exists ts e, toks = ts ++ [e] /\ ttok e = T_EOF /\ tpos e = zlen src /\ Forall (fun t => ttok t <> T_EOF) ts.
Proof. exact run_ends_eof. Qed.

(* scan_token_count: at most one token per source byte, not counting inserted semicolons and EOF *)
Theorem C15_scan_token_count : forall ul ud cm src toks errs,
  run ul ud XGo cm src = Ok (toks, errs) -> (length (filter counted toks) <= length src)%nat.
Proof. exact run_token_count. Qed.

(* scan_offsets_monotone: every token lies in [bom_len src, |src|]; a later token starts at or
   after the end of an earlier one (so offsets never decrease and token texts do not overlap);
   every token other than an inserted semicolon / EOF has a non-empty text, hence offsets
   strictly increase between such tokens *)
Theorem C15_scan_offsets_monotone : forall ul ud cm src toks errs,
  run ul ud XGo cm src = Ok (toks, errs) ->
  Forall (fun t => bom_len src <= tpos t /\ tpos t <= tend t /\ tend t <= zlen src) toks
  /\ (forall pre t1 mid t2 post, toks = pre ++ t1 :: mid ++ t2 :: post -> tend t1 <= tpos t2)
  /\ Forall (fun t => counted t = true -> tpos t < tend t) toks.
Proof. exact run_offsets. Qed.

(* scan_lit_is_slice: the literal (or the spelling, for operators) of every token is the source
   text src[tpos:tend], up to: carriage returns deleted in comments and raw strings; the c / py
   prefix of CSTRING / PYSTRING; inserted semicolons (empty text or the newline); ILLEGAL (one
   character; literal = string(ch)) - see lit_ok in Model/ScanRel.v *)
Theorem C15_scan_lit_is_slice : forall ul ud cm src toks errs,
  run ul ud XGo cm src = Ok (toks, errs) -> Forall (fun t => lit_ok XGo t (sub src (tpos t) (tend t))) toks.
Proof. exact run_lit_is_slice. Qed.

(* scan_tiles_source: with comments on, every byte after a leading BOM belongs to a token or is
   one of ' ' \t \n \r (with C15_scan_offsets_monotone: to exactly one token) *)
Theorem C15_scan_tiles_source : forall ul ud src toks errs,
  run ul ud XGo true src = Ok (toks, errs) ->
  forall i, bom_len src <= i < zlen src ->
  (exists t, In t toks /\ tpos t <= i < tend t) \/ is_blank (nth (Z.to_nat i) src 0%N) = true.
Proof. exact run_tiles. Qed.

(* the model gives every sub-scanner loop S |rest| units of fuel and returns the state as it is when
   the fuel is used up; that never happens: with any amount of fuel above |rest| each loop returns the
   same result (so the loops stop where the Go loops stop), and more fuel never changes a result of
   the token loop either *)
Theorem C15_local_fuel_sufficient : forall ul ud,
  (forall fuel b s, (sz s < fuel)%nat -> skip_ws fuel b s = skip_ws (S (sz s)) b s)
  /\ (forall fuel s, (sz s < fuel)%nat -> scan_ident ul ud fuel s = scan_ident ul ud (S (sz s)) s)
  /\ (forall fuel base s inv ds, (sz s < fuel)%nat -> digits fuel base s inv ds = digits (S (sz s)) base s inv ds)
  /\ (forall fuel s n, (sz s < fuel)%nat -> until_nl fuel s n = until_nl (S (sz s)) s n)
  /\ (forall fuel s n nl, (sz s < fuel)%nat -> block_body fuel s n nl = block_body (S (sz s)) s n nl)
  /\ (forall fuel offs s, (sz s < fuel)%nat -> scan_string fuel offs s = scan_string (S (sz s)) offs s)
  /\ (forall fuel offs s v n, (sz s < fuel)%nat -> scan_rune fuel offs s v n = scan_rune (S (sz s)) offs s v n)
  /\ (forall fuel offs s, (sz s < fuel)%nat -> scan_raw fuel offs s = scan_raw (S (sz s)) offs s)
  /\ (forall fuel s, (sz s < fuel)%nat -> fle_block fuel s = fle_block (S (sz s)) s)
  /\ (forall fuel s, (sz s < fuel)%nat -> find_line_end fuel s = find_line_end (S (sz s)) s).
Proof. exact local_fuel_sufficient. Qed.
Theorem C15_more_fuel_same_result : forall ul ud d f f' cm st acc r,
  (f <= f')%nat -> scan_all ul ud d f cm st acc = Ok r -> scan_all ul ud d f' cm st acc = Ok r.
Proof. exact scan_all_ge. Qed.

(* non-vacuity: a source with a BOM, a c"" string, a number with a unit, a rational, a raw string
   with \r, '#' '//' and block comments (one with \r), operators of every switchN shape, a keyword,
   an invalid byte and a NUL; the model returns 28 tokens and 4 errors (the invalid byte and the NUL are each reported by next() and by Scan) *)
Definition nouni : Z -> bool := fun _ => false.
Definition ex_src : str :=
  [239;187;191; 35;99;10; 120;32;58;61;32;99;34;97;34;32;43;32;49;46;53;109;32;45;62;32;51;114;10;
   96;97;13;98;96;32;60;60;61;32;121;32;38;94;61;32;122;46;46;46;10; 47;42;32;13;10;42;47;32;
   114;101;116;117;114;110;32;39;92;110;39;32;47;47;99;13;10; 255;0;36;63]%N.
Example C15_example_stream :
  match run nouni nouni XGo true ex_src with
  | Ok (toks, errs) => (length toks =? 28)%nat && (length errs =? 4)%nat
      && forallb (fun t => (bom_len ex_src <=? tpos t) && (tpos t <=? tend t)) toks
  | _ => false
  end = true.
Proof. vm_compute. reflexivity. Qed.
Example C15_example_unit :
  option_map (map aobs) (match run nouni nouni XGo true [49;109;32;120]%N with Ok (t, _) => Some t | _ => None end)
  = Some [(T_INT, 0, [49%N]); (T_UNIT, 1, [109%N]); (T_IDENT, 3, [120%N]); (T_SEMICOLON, 4, [10%N]); (T_EOF, 4, [])].
Proof. vm_compute. reflexivity. Qed.
(* the two repaired defects are gone from the model: a source ending in '#' scans, and the
   newline after an empty '#' comment is not swallowed *)
Example C15_example_sharp :
  option_map (map aobs) (match run nouni nouni XGo true [120;10;35]%N with Ok (t, _) => Some t | _ => None end)
  = Some [(T_IDENT, 0, [120%N]); (T_SEMICOLON, 1, [10%N]); (T_COMMENT, 2, [35%N]); (T_EOF, 3, [])]
  /\ option_map (map aobs) (match run nouni nouni XGo true [35;10;102]%N with Ok (t, _) => Some t | _ => None end)
  = Some [(T_COMMENT, 0, [35%N]); (T_IDENT, 2, [102%N]); (T_SEMICOLON, 3, [10%N]); (T_EOF, 3, [])].
Proof. split; vm_compute; reflexivity. Qed.

(* K-gen: the numeric comparisons of scanner/scanner.go, translated from the source on every run
   (Gen/ScanConst.v), are those of the model - for all values; a changed bound or operator in lower /
   isDecimal / isHex / digitVal / isLetter / isDigit / skipWhitespace / scanEscape breaks this theorem *)
Theorem C15_source_constants : forall ul ud,
  (forall c, xgo_sc_lower c = lower c) /\ (forall c, xgo_sc_isDecimal c = is_decimal c)
  /\ (forall c, xgo_sc_isHex c = is_hex c) /\ (forall c, xgo_sc_digitVal c = digit_val c)
  /\ (forall c, xgo_sc_isLetter ul ud c = is_letter ul c) /\ (forall c, xgo_sc_isDigit ul ud c = is_digit ud c)
  /\ (forall semi c, xgo_sc_skipCond semi c = is_blank_rune semi c)
  /\ (forall mx x, xgo_sc_escInvalid mx x = esc_invalid mx x)
  /\ (forall q c, existsb (Z.eqb c) xgo_sc_escSimple || (c =? q) = esc_simple q c)
  /\ (forall c, zassoc c xgo_sc_escNumeric = esc_numeric c)
  /\ xgo_sc_bom = bom.
Proof.
  intros ul ud.
  split; [intros; apply xgo_lower|].
  split; [intros; apply xgo_isDecimal|].
  split; [intros; apply xgo_isHex|].
  split; [intros; apply xgo_digitVal|].
  split; [intros; apply xgo_isLetter|].
  split; [intros; apply xgo_isDigit|].
  split; [intros; apply xgo_skipCond|].
  split; [intros; apply xgo_escInvalid|].
  split; [intros; apply xgo_escSimple|].
  split; [intros; apply xgo_escNumeric|].
  apply xgo_bom.
Qed.

Print Assumptions C15_source_constants.
Print Assumptions C15_scan_total.
Print Assumptions C15_scan_ends_in_eof.
Print Assumptions C15_scan_token_count.
Print Assumptions C15_scan_offsets_monotone.
Print Assumptions C15_scan_lit_is_slice.
Print Assumptions C15_scan_tiles_source.
Print Assumptions C15_local_fuel_sufficient.
Print Assumptions C15_more_fuel_same_result.
