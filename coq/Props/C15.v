(* C15 - scanning is total and every token is the exact source text.
   Theorems only; proofs in Proofs/Scan*.v.  Model: Model/Scan.v, dialect XGo. *)
From Coq Require Import List NArith ZArith Bool.
Import ListNotations.
From V Require Import Base.Prelude Model.Scan Proofs.ScanBase.
Open Scope Z_scope.

(* the always-progress rule: next() on a non-exhausted input consumes a non-empty prefix *)
Theorem C15_next_progress : forall s, rest s <> [] -> sadv s (nxt s).
Proof. exact sadv_nxt. Qed.

Print Assumptions C15_next_progress.
