(* C25 — Go->XGo style conversion preserves behaviour.
   Theorems over MiniGo and the model of x/format's Gopstyle (Model/C25.v; tables in Gen/C25.v are
   regenerated from x/format/format.go and cl/builtin.go on every run).  Proofs in Proofs/C25.v. *)
From Coq Require Import List NArith ZArith Bool String Ascii.
Import ListNotations.
From V Require Import Base.Prelude Gen.C25 Model.C25 Proofs.C25 Proofs.C25Del Proofs.C25Scope.

(* Table obligation (K-gen): every (fmt function, builtin spelling) pair of printFuncs is
   (exported, not exported), and the XGo builtin the formatter substitutes -- after the println -> echo
   renaming -- is bound by cl/builtin.go to exactly that fmt function. *)
Theorem C25_tables_ok : tables_ok = true.
Proof. exact tables_ok_true. Qed.

(* With scope tracking as implemented (only var specs are tracked), the conversion equals the
   context-free translation whenever no tracked variable is named like an import. *)
Theorem C25_scope_tracking_invisible : forall ds, imports_first ds = true ->
  forallb (good_decl (ni (imports_of ds)) (fun _ => true)) ds = true ->
  fst (gopstyle_decls ds) = map (t_decl (imports_of ds)) ds.
Proof. exact gopstyle_decls_ok. Qed.

(* PRESERVATION.  For every MiniGo program whose imports come first, in which no variable, parameter or
   receiver is named like an import (no_shadow), no variable, parameter, receiver or function is named
   like a builtin the formatter substitutes (no_builtin_clash), and no type has both a method M and its
   lower-case twin (no_case_twin):  if the Go program runs to completion with trace tr (any fuel n), the
   converted program -- fmt.X -> builtin, selector calls lower-cased, function literal arguments ->
   lambdas, command style, main unwrapped, unused fmt import deleted -- evaluated with XGo's name
   resolution runs to completion with the same trace. *)
Theorem C25_gopstyle_preserves : forall p n tr,
  imports_first (pdecls p) = true -> no_shadow p = true -> no_builtin_clash p = true -> no_case_twin p = true ->
  run n Go p = Ok tr -> run n XGo (gopstyle p) = Ok tr.
Proof. exact gopstyle_preserves. Qed.

(* PRESERVATION WITH TRACKED SHADOWING.  `var` statements inside functions may be named like an import
   (scope_safe: only := variables, parameters, receivers and package-level variables must not be; nothing
   may be named like a substituted builtin).  This is the shadowing formatCtx tracks, with a scope entered
   and left at every block, if/else branch and function literal body: inside the scope `fmt.Println` stays a
   method call on the variable, after the scope it is rewritten again, and the import is deleted only if no
   unshadowed use remains. *)
Theorem C25_gopstyle_preserves_tracked : forall p n tr,
  imports_first (pdecls p) = true -> scope_safe p = true -> no_case_twin p = true ->
  run n Go p = Ok tr -> run n XGo (gopstyle p) = Ok tr.
Proof. exact gopstyle_preserves_tracked. Qed.

(* the two halves: the converted tree before the deletion of the unused fmt import ... *)
Theorem C25_gopstyle_keep_preserves : forall p n tr,
  imports_first (pdecls p) = true -> no_shadow p = true -> no_builtin_clash p = true -> no_case_twin p = true ->
  run n Go p = Ok tr -> run n XGo (gopstyle_keep p) = Ok tr.
Proof. exact gopstyle_keep_preserves. Qed.

(* ... and the deletion itself is invisible to evaluation (every selector base left in the tree is
   marked used or is not an import): for both resolution modes, all results including failures *)
Theorem C25_deletion_invisible : forall p n md, imports_first (pdecls p) = true -> no_shadow p = true ->
  run n md (gopstyle p) = run n md (gopstyle_keep p).
Proof. exact deletion_invisible. Qed.

(* ---------------------------------------------------------------- concrete programs *)

Definition S (s : string) : str := map (fun a => N_of_ascii a) (list_ascii_of_string s).
Fixpoint es (l : list expr) : exprs := match l with [] => ENil | e :: t => ECons e (es t) end.
Fixpoint ss (l : list stmt) : stmts := match l with [] => SNil | s :: t => SCons s (ss t) end.
Definition println (l : list expr) : stmt := SExpr false (ESel (S "fmt") (S "Println") (es l)).
Definition mk (ds : list decl) : prog := Prog ds false false.

(* type T; func (t T) Get() int { return t.n }; func (t T) get() int { return t.n + 1000 };
   func main() { t := T{3}; fmt.Println(t.Get()) }            -- converted: echo t.get() *)
Definition ex_twin : prog := mk
  [DImport (S "fmt") (S "fmt"); DType (S "T");
   DMethod (S "T") (S "t") (S "Get") [] true (ss [SReturn (es [EField (S "t") (S "n")])]);
   DMethod (S "T") (S "t") (S "get") [] true (ss [SReturn (es [EAdd (EField (S "t") (S "n")) (EInt 1000)])]);
   DFunc (S "main") [] false (ss [SDefine (S "t") (ENew (S "T") (EInt 3)); println [ESel (S "t") (S "Get") ENil]])].

Theorem C25_gopstyle_refuted_case_twin :
  imports_first (pdecls ex_twin) = true /\ no_shadow ex_twin = true /\ no_builtin_clash ex_twin = true /\
  no_case_twin ex_twin = false /\
  exists t1 t2, run 30 Go ex_twin = Ok t1 /\ run 30 XGo (gopstyle ex_twin) = Ok t2 /\ t1 <> t2.
Proof.
  repeat split; try (vm_compute; reflexivity).
  eexists. eexists. split; [vm_compute; reflexivity|]. split; [vm_compute; reflexivity|]. discriminate.
Qed.

(* type P; func (p P) Println(k int) { fmt.Print("P", k) };
   func main() { fmt := P{1}; fmt.Println(2) }                 -- `:=` is not tracked: converted to echo 2 *)
Definition ex_shadow : prog := mk
  [DImport (S "fmt") (S "fmt"); DType (S "P");
   DMethod (S "P") (S "p") (S "Println") [S "k"] false
     (ss [SExpr false (ESel (S "fmt") (S "Print") (es [EStr (S "P"); EVar (S "k")]))]);
   DFunc (S "main") [] false (ss [SDefine (S "fmt") (ENew (S "P") (EInt 1));
                                  SExpr false (ESel (S "fmt") (S "Println") (es [EInt 2]))])].

Theorem C25_gopstyle_refuted_shadow :
  no_shadow ex_shadow = false /\ no_builtin_clash ex_shadow = true /\ no_case_twin ex_shadow = true /\
  exists t1 t2, run 30 Go ex_shadow = Ok t1 /\ run 30 XGo (gopstyle ex_shadow) = Ok t2 /\ t1 <> t2.
Proof.
  repeat split; try (vm_compute; reflexivity).
  eexists. eexists. split; [vm_compute; reflexivity|]. split; [vm_compute; reflexivity|]. discriminate.
Qed.

(* the same shadowing by a var spec IS tracked: the conversion leaves fmt.Println(2) a method call *)
Definition ex_shadow_var : prog := mk
  [DImport (S "fmt") (S "fmt"); DType (S "P");
   DMethod (S "P") (S "p") (S "Println") [S "k"] false
     (ss [SExpr false (ESel (S "fmt") (S "Print") (es [EStr (S "P"); EVar (S "k")]))]);
   DFunc (S "main") [] false (ss [println [EInt 0]; SVar (S "fmt") (ENew (S "P") (EInt 1));
                                  SExpr false (ESel (S "fmt") (S "Println") (es [EInt 2]))])].
Example C25_example_var_shadow_tracked :
  no_shadow ex_shadow_var = false /\ run 30 XGo (gopstyle ex_shadow_var) = run 30 Go ex_shadow_var /\
  exists t, run 30 Go ex_shadow_var = Ok t.
Proof. split; [|split]; try (vm_compute; reflexivity). eexists. vm_compute. reflexivity. Qed.

(* func main() { fmt.Println(0); { var fmt = P{1}; fmt.Println(2); func..{ fmt.Println(3) } }; fmt.Println(4) }
   -- a var named fmt inside a bare block: covered by the tracked theorem, not by the first one *)
Definition ex_block : prog := mk
  [DImport (S "fmt") (S "fmt"); DType (S "P");
   DMethod (S "P") (S "p") (S "Println") [S "k"] false
     (ss [SExpr false (ESel (S "fmt") (S "Print") (es [EStr (S "P"); EVar (S "k")]))]);
   DFunc (S "twice") [S "f"] false (ss [SExpr false (ECall (S "f") ENil); SExpr false (ECall (S "f") ENil)]);
   DFunc (S "main") [] false
     (ss [println [EInt 0];
          SBlock (ss [SVar (S "fmt") (ENew (S "P") (EInt 1));
                      SExpr false (ESel (S "fmt") (S "Println") (es [EInt 2]));
                      SExpr false (ECall (S "twice") (es [EFuncLit [] 0 (ss [SExpr false (ESel (S "fmt") (S "Println") (es [EInt 3]))])]))]);
          println [EInt 4]])].

Example C25_example_tracked_block :
  no_shadow ex_block = false /\ scope_safe ex_block = true /\ no_case_twin ex_block = true /\
  (forall t, run 40 Go ex_block = Ok t -> run 40 XGo (gopstyle ex_block) = Ok t) /\
  exists t, run 40 Go ex_block = Ok t /\ List.length t = 5.
Proof.
  split; [vm_compute; reflexivity|]. split; [vm_compute; reflexivity|]. split; [vm_compute; reflexivity|]. split.
  - intros t H. apply C25_gopstyle_preserves_tracked; try (vm_compute; reflexivity). exact H.
  - eexists. split; [vm_compute; reflexivity | reflexivity].
Qed.

(* func echo(k int) { fmt.Print("my", k) }; func main() { fmt.Println(7) }   -- converted: echo 7 = the user's echo *)
Definition ex_echo : prog := mk
  [DImport (S "fmt") (S "fmt");
   DFunc (S "echo") [S "k"] false (ss [SExpr false (ESel (S "fmt") (S "Print") (es [EStr (S "my"); EVar (S "k")]))]);
   DFunc (S "main") [] false (ss [println [EInt 7]])].

Theorem C25_gopstyle_refuted_builtin_clash :
  no_shadow ex_echo = true /\ no_builtin_clash ex_echo = false /\ no_case_twin ex_echo = true /\
  exists t1 t2, run 30 Go ex_echo = Ok t1 /\ run 30 XGo (gopstyle ex_echo) = Ok t2 /\ t1 <> t2.
Proof.
  repeat split; try (vm_compute; reflexivity).
  eexists. eexists. split; [vm_compute; reflexivity|]. split; [vm_compute; reflexivity|]. discriminate.
Qed.

(* non-vacuity: a program with methods, a package function, a function literal argument and printing
   satisfies every hypothesis, runs, and is really rewritten *)
Definition ex_ok : prog := mk
  [DImport (S "fmt") (S "fmt"); DImport (S "strings") (S "strings"); DType (S "T");
   DMethod (S "T") (S "t") (S "Get") [] true (ss [SReturn (es [EField (S "t") (S "n")])]);
   DFunc (S "apply") [S "f"; S "v"] true (ss [SReturn (es [ECall (S "f") (es [EVar (S "v")])])]);
   DVar (S "g") (ESel (S "fmt") (S "Sprint") (es [EInt 1]));
   DFunc (S "main") [] false
     (ss [SDefine (S "t") (ENew (S "T") (EInt 3));
          println [ESel (S "t") (S "Get") ENil; ESel (S "strings") (S "ToUpper") (es [EVar (S "g")])];
          SExpr false (ESel (S "fmt") (S "Printf")
             (es [EStr (S "%d"); ECall (S "apply") (es [EFuncLit [S "x"] 1 (ss [SReturn (es [EAdd (EVar (S "x")) (EInt 1)])]); EInt 4])]))])].

Example C25_example_hypotheses :
  imports_first (pdecls ex_ok) = true /\ no_shadow ex_ok = true /\ no_builtin_clash ex_ok = true /\ no_case_twin ex_ok = true.
Proof. vm_compute. auto. Qed.

Example C25_example_converted :
  pdecls (gopstyle ex_ok) =
  [DImport (S "strings") (S "strings"); DType (S "T");
   DMethod (S "T") (S "t") (S "Get") [] true (ss [SReturn (es [EField (S "t") (S "n")])]);
   DFunc (S "apply") [S "f"; S "v"] true (ss [SReturn (es [ECall (S "f") (es [EVar (S "v")])])]);
   DVar (S "g") (ECall (S "sprint") (es [EInt 1]));
   DFunc (S "main") [] false
     (ss [SDefine (S "t") (ENew (S "T") (EInt 3));
          SExpr true (ECall (S "echo") (es [ESel (S "t") (S "get") ENil; ESel (S "strings") (S "toUpper") (es [EVar (S "g")])]));
          SExpr true (ECall (S "printf")
             (es [EStr (S "%d"); ECall (S "apply") (es [ELambda [S "x"] (es [EAdd (EVar (S "x")) (EInt 1)]); EInt 4])]))])]
  /\ pshadow (gopstyle ex_ok) = true.
Proof. vm_compute. auto. Qed.

Example C25_example_runs : exists t, run 40 Go ex_ok = Ok t /\ List.length t = 4 /\ run 40 XGo (gopstyle_keep ex_ok) = Ok t
  /\ run 40 XGo (gopstyle ex_ok) = Ok t.
Proof.
  eexists. split; [vm_compute; reflexivity|]. split; [reflexivity|]. split; vm_compute; reflexivity.
Qed.

(* the theorem applied: no evaluation of the converted program needed *)
Example C25_example_by_theorem : forall t, run 40 Go ex_ok = Ok t -> run 40 XGo (gopstyle ex_ok) = Ok t.
Proof. intros t H. apply C25_gopstyle_preserves; try (vm_compute; reflexivity). exact H. Qed.

(* function-literal arguments by result arity: `return e1, e2` of a 2-result literal becomes the expression
   lambda, `return two(x)` forwarding a multi-value call (1 expression, 2 results) and a bare `return` become
   block lambdas *)
Example C25_example_literal_arities :
  fst (tr_args (Fctx [] [[]])
         (es [EFuncLit [S "x"] 2 (ss [SReturn (es [EVar (S "x"); EVar (S "nil")])]);
              EFuncLit [S "x"] 2 (ss [SReturn (es [ECall (S "two") (es [EVar (S "x")])])]);
              EFuncLit [] 0 (ss [SReturn ENil]);
              EFuncLit [S "x"] 1 (ss [SReturn (es [EVar (S "x")])])]))
  = es [ELambda [S "x"] (es [EVar (S "x"); EVar (S "nil")]);
        ELambda2 [S "x"] (ss [SReturn (es [ECall (S "two") (es [EVar (S "x")])])]);
        ELambda2 [] (ss [SReturn ENil]);
        ELambda [S "x"] (es [EVar (S "x")])].
Proof. vm_compute. reflexivity. Qed.

Print Assumptions C25_tables_ok.
Print Assumptions C25_scope_tracking_invisible.
Print Assumptions C25_gopstyle_preserves.
Print Assumptions C25_gopstyle_preserves_tracked.
Print Assumptions C25_gopstyle_keep_preserves.
Print Assumptions C25_deletion_invisible.
Print Assumptions C25_gopstyle_refuted_case_twin.
Print Assumptions C25_gopstyle_refuted_shadow.
Print Assumptions C25_gopstyle_refuted_builtin_clash.
