(* C06 — compiler success implies well-typed Go output: the kernel.
   Theorems only; proofs in Proofs/C06.v.

   A small typed sugar calculus (list comprehension with and without filter, f(a)?:d, f(a)!, over
   ints, bools, strings, lists and unary functions) is lowered to a Go core exactly as cl does
   (closures with the named result _gop_ret and the temporary _gop_err); the Go core has its own
   type checker.  Proved: if the sugar type-checks and the user did not use the reserved names,
   the lowered Go type-checks at the same type — in ANY Go scope that agrees with the sugar's scope
   on the user identifiers (so the temporaries neither escape nor clash).  The hypothesis on names
   is necessary (capture_refuted).  The lowering is compared with the real compiler's output on
   every run (shape K-diff).  Everything else cl does is explored, not proved. *)
From Coq Require Import List NArith ZArith Bool.
Import ListNotations.
From V Require Import Model.C06 Proofs.C06.

Theorem C06_lower_preserves_typing :
  forall (S : sigenv) (G : env) (e : sexpr) (t : ty),
    names_ok e = true -> stype S G e = Some t -> gtype S G (lower S G e) = Some t.
Proof. exact lower_preserves_typing. Qed.

(* the general form: any Go scope G' that agrees with G on user identifiers *)
Theorem C06_lower_preserves_typing_any_scope :
  forall (S : sigenv) (e : sexpr) (G G' : env) (t : ty),
    agree G G' -> names_ok e = true -> stype S G e = Some t -> gtype S G' (lower S G e) = Some t.
Proof. exact lower_preserves. Qed.

(* no _gop_* identifier is free in the lowered term *)
Theorem C06_lower_closed :
  forall (S : sigenv) (G : env) (e : sexpr) (t : ty),
    names_ok e = true -> stype S G e = Some t -> gtype S (mask_reserved G) (lower S G e) = Some t.
Proof. exact lower_closed. Qed.

(* the temporaries do not clash with outer declarations of the same names *)
Theorem C06_fresh_names_disjoint :
  forall (S : sigenv) (G : env) (e : sexpr) (t tr te : ty),
    names_ok e = true -> stype S G e = Some t ->
    gtype S (upd (upd G ret_name tr) err_name te) (lower S G e) = Some t.
Proof. exact fresh_names_disjoint. Qed.

(* without the hypothesis on names: a user variable called _gop_ret is captured by the closure
   and the lowered Go is ill-typed although the sugar is well-typed *)
Theorem C06_capture_refuted :
  stype prelude_sig (upd prelude_env ret_name TInt) capture_witness = Some (TList TInt) /\
  gtype prelude_sig (upd prelude_env ret_name TInt)
        (lower prelude_sig (upd prelude_env ret_name TInt) capture_witness) = None.
Proof. exact capture_refuted. Qed.

(* ---- non-vacuity: [half(x)?:inc(x) for x <- dbl(xs), isPos(x)]  and a nested comprehension ---- *)
Definition ex1 : sexpr :=
  SComprIf (SErrDefault 3 (SVar 10) (SCall 0 (SVar 10)))%N 10%N (SCall 5 (SVar 4))%N (SCall 1 (SVar 10))%N.
Example C06_example_1 :
  stype prelude_sig prelude_env ex1 = Some (TList TInt) /\ names_ok ex1 = true /\
  gtype prelude_sig prelude_env (lower prelude_sig prelude_env ex1) = Some (TList TInt).
Proof. repeat split; vm_compute; reflexivity. Qed.

Definition ex2 : sexpr :=
  SCompr (SCompr (SAdd (SVar 11) (SVar 10)) 11 (SVar 4))%N 10%N (SCompr (SErrPanic 4 (SVar 12)) 12 (SVar 5))%N.
Example C06_example_2 :
  stype prelude_sig prelude_env ex2 = Some (TList (TList TInt)) /\ names_ok ex2 = true /\
  gtype prelude_sig prelude_env (lower prelude_sig prelude_env ex2) = Some (TList (TList TInt)).
Proof. repeat split; vm_compute; reflexivity. Qed.

Print Assumptions C06_lower_preserves_typing.
Print Assumptions C06_lower_preserves_typing_any_scope.
Print Assumptions C06_lower_closed.
Print Assumptions C06_fresh_names_disjoint.
Print Assumptions C06_capture_refuted.
