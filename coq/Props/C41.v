(* C41 — closing a fake connection unblocks pending I/O (x/fakenet/conn.go).
   Theorems only; proofs in Proofs/C41.v.

   `greach n s`: s is reachable from n idle goroutines and the two started workers by any
   interleaving of: calls Read/Write (= connFeeder.do on the reader / writer feeder) and Close,
   the polls / parks of the four select statements under Go's commit-by-the-waker semantics, the
   statements of fakeConn.Close and connFeeder.close REGENERATED from the source
   (Gen/FeederSelects.v), the worker calling the source, and the environment letting a source
   call return (with any result; with the stream's close error only once the stream is closed)
   — or never.  No bound on n, on the buffers or on the run.  Ghost lists (newest first):
   sent = buffers accepted by the worker, sourced = buffers the source was called with,
   produced = results of the source, delivered = results handed to callers. *)
From Coq Require Import List NArith Bool Arith.
Import ListNotations.
From V Require Import Base.LtsLists Base.C41Ops Gen.FeederSelects Model.C41 Proofs.C41.

(* K-gen obligations *)
Theorem C41_tie_close : gen_conn_close = model_conn_close /\ gen_feeder_close = model_feeder_close.
Proof. exact gen_is_model. Qed.
Theorem C41_tie_selects :
  gen_do = model_do /\ gen_run = model_run /\ gen_chan_caps = model_chan_caps /\
  gen_read_feeder = FR /\ gen_write_feeder = FW /\ gen_sources_ok = true /\ gen_workers_started = true.
Proof. exact gen_tables. Qed.

(* data in order, unmodified, each exactly once: the source has been called with exactly the buffers
   the worker accepted, in that order (the one accepted last possibly not yet) *)
Theorem C41_data_in_order_unmodified : forall n s f, greach n s ->
  map snd (sent (getf s f)) = pending_buf (wk (getf s f)) ++ sourced (getf s f).
Proof. exact g_data_in_order. Qed.

(* a result handed to a caller was produced by the source for a buffer this caller itself sent *)
Theorem C41_result_to_its_caller : forall n s f j r, greach n s -> In (j, r) (delivered (getf s f)) ->
  (exists b, In (j, b, r) (produced (getf s f)) /\ In (j, b) (sent (getf s f)) /\ In b (sourced (getf s f))) /\
  r <> RClosed /\ r <> REof.
Proof. exact g_result_provenance. Qed.

(* Close closes a stream only after its feeder; hence no Read/Write ever returns the error its
   stream produces because Close closed it: what a caller gets is EOF or a genuine result *)
Theorem C41_stream_closed_after_feeder : forall n s f, greach n s ->
  sclosed (getf s f) = true -> done (getf s f) = true.
Proof. exact g_stream_closed_after_feeder. Qed.
Theorem C41_no_close_error_returned : forall n s f r, greach n s -> In (DRet f r) (thr s) -> r <> RClosed.
Proof. exact g_no_close_error_returned. Qed.

(* a goroutine that is past the two feeder closes of Close — in particular when Close returns — has
   closed both done channels, and done stays closed *)
Theorem C41_close_returns_closed : forall n s i ip sub, greach n s ->
  nth_error (thr s) i = Some (K ip sub) -> 2 <= ip -> done (getf s FR) = true /\ done (getf s FW) = true.
Proof. exact g_close_returns_closed. Qed.
Theorem C41_done_stable : forall s l s' f, gstep s l = Some s' -> done (getf s f) = true -> done (getf s' f) = true.
Proof. exact g_done_stable. Qed.

(* after close nobody is parked on the feeder's channels (callers and worker) *)
Theorem C41_closed_nobody_parked : forall n s f, greach n s -> done (getf s f) = true ->
  (forall p, In p (thr s) -> parked1 f p = false /\ parked2 f p = false) /\ is_parked_w (wk (getf s f)) = false.
Proof. exact g_closed_nobody_parked. Qed.

(* after_close_eof: a do whose first select runs when done is closed is committed to EOF whatever
   it chooses; the feeder (worker, source, histories) is untouched *)
Theorem C41_after_close_eof : forall n s f i b l s', greach n s -> done (getf s f) = true ->
  nth_error (thr s) i = Some (D1 f b) -> actor l = Some i -> gstep s l = Some s' ->
  nth_error (thr s') i = Some (DRet f REof) /\ getf s' f = getf s f /\
  getf s' (match f with FR => FW | FW => FR end) = getf s (match f with FR => FW | FW => FR end).
Proof. exact g_after_close_eof. Qed.
Theorem C41_after_close_eof_second_select : forall n s f i l s', greach n s -> done (getf s f) = true ->
  nth_error (thr s) i = Some (D2 f) -> actor l = Some i -> gstep s l = Some s' ->
  nth_error (thr s') i = Some (DRet f REof).
Proof. exact g_after_close_eof2. Qed.

(* pending_returns: once done is closed, every goroutine inside do is not parked, can itself take a
   step that brings it closer to returning (rank: 2 at a select, 1 about to return) whatever the
   source does, and nobody else moves it *)
Theorem C41_pending_returns : forall n s f i p, greach n s -> done (getf s f) = true ->
  nth_error (thr s) i = Some p -> in_do f p = true ->
  is_parked_t p = false /\
  exists l s', actor l = Some i /\ gstep s l = Some s' /\
               exists p', nth_error (thr s') i = Some p' /\ rank p' < rank p.
Proof. exact g_pending_returns. Qed.
Theorem C41_only_self_moves : forall n s i p l s', greach n s -> nth_error (thr s) i = Some p ->
  is_parked_t p = false -> actor l <> Some i -> gstep s l = Some s' -> nth_error (thr s') i = Some p.
Proof. exact g_only_self_moves. Qed.

(* worker_exits_after_close: after close the worker is never parked; at a select it can return,
   holding a buffer it can call the source; only INSIDE the source does it depend on the environment *)
Theorem C41_worker_exits_after_close : forall n s f, greach n s -> done (getf s f) = true ->
  match wk (getf s f) with
  | W0 | W1 _ _ => exists s', gstep s (LWPollDone f) = Some s' /\ wk (getf s' f) = WX
  | WC _ _ => exists s', gstep s (LWCall f) = Some s'
  | WS _ _ | WX => True
  | W0W | W1W _ _ => False
  end.
Proof. exact g_worker_after_close. Qed.

(* Close itself: the feeder mutexes exclude; a goroutine in Close can always move unless it waits for
   a feeder mutex, and then the holder can move (so Close returns) *)
Theorem C41_close_mutex : forall n s f i j a b, greach n s ->
  nth_error (thr s) i = Some a -> nth_error (thr s) j = Some b ->
  holds_mu f a = true -> holds_mu f b = true -> i = j.
Proof. exact g_close_mutex. Qed.
Theorem C41_closer_progress : forall n s i ip sub, greach n s -> nth_error (thr s) i = Some (K ip sub) ->
  (exists l s', actor l = Some i /\ gstep s l = Some s') \/
  (sub = 0 /\ exists f, kf ip = Some f /\ mu (getf s f) = true).
Proof. exact g_closer_progress. Qed.
Theorem C41_mutex_holder_moves : forall n s f, greach n s -> mu (getf s f) = true ->
  exists j ip sub l s', nth_error (thr s) j = Some (K ip sub) /\ holds_mu f (K ip sub) = true /\
                        actor l = Some j /\ gstep s l = Some s'.
Proof. exact g_mutex_holder_moves. Qed.

(* ---- non-vacuity ---- *)
(* thread 0 writes buffer 5: parks, the worker takes it, calls the source, the source returns 9,
   the result is handed back; then thread 1 closes the connection; a later write gets EOF *)
Definition ex_run : list label :=
  [LCall 0 FW 5%N; LPark 0; LWPollChan FW 0; LWCall FW; LSrc FW (ROk 9%N); LPark 0; LWPollChan FW 0; LRet 0;
   LCallClose 1; LK 1; LK 1; LK 1; LK 1; LK 1; LK 1; LK 1; LK 1; LK 1; LK 1; LRet 1;
   LCall 0 FW 6%N; LPollDone 0].
Example C41_example_run :
  option_map (fun s => (thr s, sourced (fw s), delivered (fw s), done (fw s), sclosed (fw s), wk (fw s))) (grun (init 2) ex_run)
  = Some ([DRet FW REof; Idle], [5%N], [(0, ROk 9%N)], true, true, W0).
Proof. vm_compute. reflexivity. Qed.

(* a pending read (source blocked for ever) is released by Close *)
Example C41_example_pending_read_released :
  option_map (fun s => (thr s, wk (fr s)))
    (grun (init 2) [LCall 0 FR 1%N; LPark 0; LWPollChan FR 0; LWCall FR; LPark 0;
                    LCallClose 1; LK 1; LK 1])
  = Some ([DRet FR REof; K 0 2], WS 0 1%N).
Proof. vm_compute. reflexivity. Qed.

(* the premise of C41_after_close_eof is reachable, and the close error can be produced (but not delivered) *)
Example C41_example_close_error_not_delivered :
  option_map (fun s => (thr s, wk (fr s), delivered (fr s)))
    (grun (init 2) [LCall 0 FR 1%N; LPark 0; LWPollChan FR 0; LWCall FR; LPark 0;
                    LCallClose 1; LK 1; LK 1; LK 1; LK 1; LK 1; LK 1; LK 1; LK 1; LK 1;
                    LSrc FR RClosed; LWPollDone FR])
  = Some ([DRet FR REof; K 3 0], WX, []).
Proof. vm_compute. reflexivity. Qed.

(* the source cannot return the close error while the stream is open *)
Example C41_example_close_error_needs_closed_stream :
  grun (init 1) [LCall 0 FR 1%N; LPark 0; LWPollChan FR 0; LWCall FR; LSrc FR RClosed] = None.
Proof. vm_compute. reflexivity. Qed.

Print Assumptions C41_tie_close.
Print Assumptions C41_tie_selects.
Print Assumptions C41_data_in_order_unmodified.
Print Assumptions C41_result_to_its_caller.
Print Assumptions C41_stream_closed_after_feeder.
Print Assumptions C41_no_close_error_returned.
Print Assumptions C41_close_returns_closed.
Print Assumptions C41_done_stable.
Print Assumptions C41_closed_nobody_parked.
Print Assumptions C41_after_close_eof.
Print Assumptions C41_after_close_eof_second_select.
Print Assumptions C41_pending_returns.
Print Assumptions C41_only_self_moves.
Print Assumptions C41_worker_exits_after_close.
Print Assumptions C41_close_mutex.
Print Assumptions C41_closer_progress.
Print Assumptions C41_mutex_holder_moves.
