(* C07 — the compiler never crashes on parseable input: the recover skeleton.
   Theorems only; proofs in Proofs/C07.v and Proofs/RecoverSites.v.

   Proved, for ARBITRARY bodies (hence for every panic of the un-modelled compiler passes that
   Go's recover can catch): NewPackage without Recorder returns (never lets a panic out) and a
   panic becomes exactly one more error (so err != nil); with a Recorder the only panic that can
   still leave NewPackage is one raised by rec.Complete itself (a panic of gogen.NewPackage is returned as an
   error since repair 162cdf8); the nested
   recovers of loadImport / loadSymbol / compileStmt never raise, so only class loading can abort
   the body; x/build's helpers turn every panic into an error.  K-gen: the audit of the seven
   entry points regenerated from the source satisfies the shape the model assumes.
   NOT proved (explored by the fuzz): unrecoverable runtime faults (stack overflow, fatal errors),
   termination/bounded time, positions of errors. *)
From Coq Require Import List NArith ZArith Bool.
Import ListNotations.
From V Require Import Base.Prelude Model.C07 Proofs.C07 Gen.RecoverSites Proofs.RecoverSites.

Theorem C07_new_package_no_escape :
  forall (X E W : Type) (recover_err : X -> E) (gogen_new body tail rec_complete : @comp X E W) s0,
    exists p err s, new_package recover_err true false true gogen_new body tail rec_complete s0 = Returned p err s.
Proof. intros. apply new_package_no_escape. Qed.

(* the returned error list: ctx.complete() without panic; the errors so far plus one for the
   panic otherwise (never empty: err != nil) *)
Theorem C07_new_package_returns :
  forall (X E W : Type) (recover_err : X -> E) (gogen_new body tail rec_complete : @comp X E W) s0,
    match new_package recover_err true false true gogen_new body tail rec_complete s0 with
    | Escaped _ => False
    | Returned p err s =>
      match gogen_new s0 with
      | (Raised x, s1) => p = false /\ err = errs s1 ++ [recover_err x]
      | (Done, s1) =>
        match body s1 with
        | (Raised x, s2) => p = true /\ err = errs s2 ++ [recover_err x]
        | (Done, s2) =>
          match tail s2 with
          | (Raised x, s3) => p = true /\ err = errs s3 ++ [recover_err x]
          | (Done, s3) => p = true /\ err = errs s2 /\ s = s3
          end
        end
      end
    end.
Proof. intros. apply new_package_returns. Qed.

(* with a Recorder (after repair 162cdf8): the only panic that can leave NewPackage is rec.Complete's own,
   on a package that gogen.NewPackage did create *)
Theorem C07_new_package_recorder_escape_iff :
  forall (X E W : Type) (recover_err : X -> E) (gogen_new body tail rec_complete : @comp X E W) s0 x,
    new_package recover_err true true true gogen_new body tail rec_complete s0 = Escaped x <->
    (exists err s y s', new_package recover_err true false true gogen_new body tail (fun s => (Done, s)) s0 = Returned true err s /\
                        rec_complete s = (Raised y, s') /\ x = Some y).
Proof. intros. apply new_package_recorder_escape_iff. Qed.

(* a panic of gogen.NewPackage is returned as an error with p = nil, with or without Recorder
   (before the repair the deferred rec.Complete dereferenced the nil p: finding recorder-nil-pkg, fixed) *)
Theorem C07_new_package_gogen_panic_returns :
  forall (X E W : Type) (recover_err : X -> E) has_rec (gogen_new body tail rec_complete : @comp X E W) s0 x s1,
    gogen_new s0 = (Raised x, s1) ->
    new_package recover_err true has_rec true gogen_new body tail rec_complete s0 =
      Returned false (errs s1 ++ [recover_err x]) (handle_recover recover_err x s1).
Proof. intros. apply new_package_gogen_panic_returns. assumption. Qed.

Theorem C07_new_package_recorder_no_escape :
  forall (X E W : Type) (recover_err : X -> E) (gogen_new body tail rec_complete : @comp X E W) s0,
    (forall s, fst (rec_complete s) = Done) ->
    exists p err s, new_package recover_err true true true gogen_new body tail rec_complete s0 = Returned p err s.
Proof. intros. apply new_package_recorder_no_escape. assumption. Qed.

(* what still escapes with a Recorder: a panic raised by rec.Complete itself (it runs after the recover) *)
Theorem C07_new_package_recorder_complete_escapes :
  exists (gogen_new body tail rec_complete : @comp N N unit) s0,
    new_package (fun x => x) true true true gogen_new body tail rec_complete s0 = Escaped (Some 9%N).
Proof.
  exists (fun s => (Done, s)), (fun s => (Done, s)), (fun s => (Done, s)), (fun s => (Raised 9%N, s)), (mk_st [] tt).
  reflexivity.
Qed.

Theorem C07_new_package_disabled_escapes :
  forall (X E W : Type) (recover_err : X -> E) has_rec (gogen_new body tail rec_complete : @comp X E W) s0 s1 s2 x,
    gogen_new s0 = (Done, s1) -> body s1 = (Raised x, s2) ->
    new_package recover_err false has_rec true gogen_new body tail rec_complete s0 = Escaped (Some x).
Proof. intros. eapply new_package_disabled_escapes; eauto. Qed.

(* nested recovers: statements, symbols, imports never raise; the package body raises only when
   the (unprotected) class loading raises *)
Theorem C07_compile_stmts_no_raise :
  forall (X E W : Type) (recover_err : X -> E) (reset : @st E W -> @st E W) (bodies : list (@comp X E W)) s,
    fst (compile_stmts recover_err reset true bodies s) = Done.
Proof. intros. apply compile_stmts_no_raise. Qed.

Theorem C07_load_symbol_no_raise :
  forall (X E W : Type) (recover_err : X -> E) (reset : @st E W -> @st E W) (decl : @comp X E W) stmts s,
    fst (load_symbol recover_err reset true decl stmts s) = Done.
Proof. intros. apply load_symbol_no_raise. Qed.

Theorem C07_recovered_panic_is_one_error :
  forall (X E W : Type) (recover_err : X -> E) (after : @st E W -> @st E W) (body : @comp X E W) s s' x,
    (forall t, errs (after t) = errs t) -> body s = (Raised x, s') ->
    fst (guarded recover_err true after body s) = Done /\
    errs (snd (guarded recover_err true after body s)) = errs s' ++ [recover_err x].
Proof. intros. apply guarded_raised; assumption. Qed.

Theorem C07_package_body_raises_only_in_classes :
  forall (X E W : Type) (recover_err : X -> E) (reset : @st E W -> @st E W) (classes : @comp X E W) imports symbols s x s',
    package_body recover_err reset true classes imports symbols s = (Raised x, s') -> classes s = (Raised x, s').
Proof. intros. eapply package_body_raises_only_in_classes; eauto. Qed.

Theorem C07_build_file_no_escape :
  forall (X E W : Type) (build_err : X -> E) (pc : @st E W -> outcome * option E * @st E W) (ts : @st E W -> outcome * option E) s x,
    build_file build_err pc ts s <> BEscaped x.
Proof. intros. apply build_file_no_escape. Qed.

(* overloadFuncName(name, idx) panics exactly outside the index table *)
Theorem C07_overload_name_panic_iff :
  forall name i, overload_func_name index_table name i = Panic <-> (i < 0 \/ 36 <= i)%Z.
Proof. intros. rewrite overload_func_name_panic_iff, index_table_len. reflexivity. Qed.

Theorem C07_overload_name_panics : exists i, overload_func_name index_table [102]%N i = Panic.
Proof. exists 36%Z. exact overload_name_36_panics. Qed.

(* K-gen obligations over the regenerated audit *)
Theorem C07_recover_sites_ok : forall s, In s recover_sites -> site_ok s = true.
Proof. exact recover_sites_spec. Qed.

Theorem C07_recover_sites_complete : map rs_func recover_sites = expected_sites.
Proof. exact recover_sites_complete. Qed.

Theorem C07_enable_recover_default : enable_recover_default = true.
Proof. exact enable_recover_is_default. Qed.

(* ---- non-vacuity: a scenario with panics at every level ---- *)
Example C07_example_scenario :
  scenario_result true false IOk IOk [IPanic 1; IOk; IErr 2]%N
    [(IPanic 3, [IErr 4]); (IOk, [IErr 5; IPanic 6; IErr 7]); (IErr 9, [IErr 10])]%N IOk IOk
  = Returned true [ERecovered 1; EMsg 2; ERecovered 3; EMsg 5; ERecovered 6; EMsg 7; EMsg 9; EMsg 10]%N
             (mk_st [ERecovered 1; EMsg 2; ERecovered 3; EMsg 5; ERecovered 6; EMsg 7; EMsg 9; EMsg 10]%N tt).
Proof. vm_compute. reflexivity. Qed.

Example C07_example_class_panic_aborts :
  scenario_result true false IOk (IPanic 8) [IErr 2]%N [(IOk, [IErr 5])]%N IOk IOk
  = Returned true [ERecovered 8]%N (mk_st [ERecovered 8]%N tt).
Proof. vm_compute. reflexivity. Qed.

Example C07_example_recorder_gogen_panic :
  scenario_result true true (IPanic 1) IOk [] [] IOk IOk = Returned false [ERecovered 1]%N (mk_st [ERecovered 1]%N tt).
Proof. vm_compute. reflexivity. Qed.

Example C07_example_disabled :
  scenario_result false false IOk IOk [] [(IOk, [IPanic 6])]%N IOk IOk = Escaped (Some 6%N).
Proof. vm_compute. reflexivity. Qed.

Print Assumptions C07_new_package_no_escape.
Print Assumptions C07_new_package_returns.
Print Assumptions C07_new_package_recorder_escape_iff.
Print Assumptions C07_new_package_gogen_panic_returns.
Print Assumptions C07_new_package_recorder_no_escape.
Print Assumptions C07_new_package_recorder_complete_escapes.
Print Assumptions C07_new_package_disabled_escapes.
Print Assumptions C07_compile_stmts_no_raise.
Print Assumptions C07_load_symbol_no_raise.
Print Assumptions C07_recovered_panic_is_one_error.
Print Assumptions C07_package_body_raises_only_in_classes.
Print Assumptions C07_build_file_no_escape.
Print Assumptions C07_overload_name_panic_iff.
Print Assumptions C07_overload_name_panics.
Print Assumptions C07_recover_sites_ok.
Print Assumptions C07_recover_sites_complete.
Print Assumptions C07_enable_recover_default.
