(* C37 — Go/XGo declaration trees convert without loss.  Theorems only; proofs in Proofs/C37.v.

   Reading.  For a Go file t (generic tree over the go/ast struct table), togo(fromgo(t)) is the
   header projection `strip t` of t: everything except comments (Doc, Comment), resolved objects
   (Ident.Obj, File.Scope ...), the Incomplete flags, and function bodies — FuncDecl.Body and
   FuncLit.Body become an empty block (the conversions are "declarations only" by design).
   go/printer prints a declaration from exactly these fields.

   from_table / to_table are regenerated from ast/fromgo/gopast.go and ast/togo/goast.go on every
   run, node_structs / go_node_structs from the struct declarations of /repo/ast and GOROOT go/ast.

   The faithful model distinguishes a nil slice from an empty one (go/printer does, for
   Field.Names).  With that distinction the property is REFUTED (C37_roundtrip_refuted: an unnamed
   result `func f() int` comes back with Names = []*Ident{} and prints as `func f() (int)`);
   it holds modulo nil/empty slices (C37_roundtrip, canon). *)
From Coq Require Import List String ZArith NArith Bool.
Import ListNotations.
From V Require Import Base.Prelude Base.AstTree Base.AstConv Model.C37 Proofs.C37
                      Gen.AstStructs Gen.GoAstStructs Gen.AstConv Gen.Tokens.
Open Scope string_scope.

(* which to-function undoes which from-function: inferred from the tables by following the calls *)
Definition pairs : pairs_t := infer_pairs 6 from_table to_table go_node_structs [("ASTFile", "ASTFile")].

(* the obligation on the regenerated tables: for every pair of functions and every go/ast kind, the
   composite literal built by the to-side restores each header field from the field the from-side
   filled from it, through mutually inverse conversions; dropped fields are left zero; bodies empty *)
Theorem C37_tables_preserve : tables_preserve pairs from_table to_table node_structs go_node_structs = true.
Proof. vm_compute. reflexivity. Qed.

(* whenever fromgo succeeds on a Go file (it panics only on a node kind without a case), togo
   succeeds on its result and yields the header projection of the file — modulo nil/empty slices;
   for trees of any size *)
Theorem C37_roundtrip :
  forall fuel t x, go_ok go_node_structs t = true ->
    conv from_table node_structs fuel "ASTFile" (VNode t) = Ok x ->
    exists fuel' y, conv to_table go_node_structs fuel' "ASTFile" x = Ok y /\
                    canon_v y = VNode (canon (strip go_node_structs t)).
Proof. exact (roundtrip_canon _ _ _ _ _ C37_tables_preserve). Qed.

(* the same for ANY pair of tables passing the obligation (what K-gen re-checks) *)
Theorem C37_roundtrip_generic :
  forall P Tf Tt XS GS, tables_preserve P Tf Tt XS GS = true ->
  forall fuel t x, go_ok GS t = true -> conv Tf XS fuel "ASTFile" (VNode t) = Ok x ->
    exists fuel' y, conv Tt GS fuel' "ASTFile" x = Ok y /\ canon_v y = VNode (canon (strip GS t)).
Proof. exact roundtrip_canon. Qed.

(* the casts goptoken.Token(v.Op) / token.Token(v.Op) keep the number; they are meaning-preserving
   because every Go token has the same spelling under the same number in the XGo token table *)
Definition tokens_aligned : bool :=
  forallb (fun i => let g := nth i go_tokens [] in
                    match g with [] => true | _ => str_eqb g (nth i xgo_tokens []) end)
          (seq 0 (List.length go_tokens)).
Theorem C37_token_numbering_aligned : tokens_aligned = true.
Proof. vm_compute. reflexivity. Qed.
Theorem C37_token_numbering_aligned_spec :
  forall i, (i < List.length go_tokens)%nat -> nth i go_tokens [] <> [] -> nth i xgo_tokens [] = nth i go_tokens [].
Proof.
  intros i Hi Hne. pose proof C37_token_numbering_aligned as H. unfold tokens_aligned in H.
  rewrite forallb_forall in H. specialize (H i). rewrite in_seq in H. specialize (H (conj (Nat.le_0_l _) Hi)).
  cbv zeta in H. destruct (nth i go_tokens []) as [|c r] eqn:E; [congruence|].
  apply str_eqb_eq in H. now rewrite H.
Qed.

(* ---- the refutation: nil vs empty Field.Names ---- *)
Definition gid (name : string) (p : Z) : node :=
  Node 0 "Ident" [("NamePos", VPos p); ("Name", VStr name); ("Obj", VNil)].
(* package p; func f() int *)
Definition ex_result : node :=
  Node 0 "Field" [("Doc", VNil); ("Names", VNil); ("Type", VNode (gid "int" 25)); ("Tag", VNil); ("Comment", VNil)].
Definition ex_functype : node :=
  Node 0 "FuncType" [("Func", VPos 12); ("TypeParams", VNil);
                     ("Params", VNode (Node 0 "FieldList" [("Opening", VPos 18); ("List", VNil); ("Closing", VPos 19)]));
                     ("Results", VNode (Node 0 "FieldList" [("Opening", VPos 0); ("List", VList [VNode ex_result]); ("Closing", VPos 0)]))].
Definition ex_file : node :=
  Node 0 "File" [("Doc", VNil); ("Package", VPos 1); ("Name", VNode (gid "p" 9));
                 ("Decls", VList [VNode (Node 0 "FuncDecl" [("Doc", VNil); ("Recv", VNil); ("Name", VNode (gid "f" 17));
                                                            ("Type", VNode ex_functype); ("Body", VNil)])]);
                 ("FileStart", VPos 1); ("FileEnd", VPos 28); ("Scope", VNil); ("Imports", VNil);
                 ("Unresolved", VNil); ("Comments", VNil); ("GoVersion", VStr "")].

(* the Names of the (only) result of the (only) declaration *)
Definition result_names (v : value) : value :=
  match v with
  | VNode file =>
      match get "Decls" file with
      | VList [VNode fd] =>
          match get "Type" fd with
          | VNode ft => match get "Results" ft with
                        | VNode fl => match get "List" fl with
                                      | VList [VNode fld] => get "Names" fld
                                      | _ => VOther end
                        | _ => VOther end
          | _ => VOther end
      | _ => VOther end
  | _ => VOther
  end.

Example C37_example_ok : go_ok go_node_structs ex_file = true.
Proof. vm_compute. reflexivity. Qed.

Theorem C37_roundtrip_refuted :
  exists t x, go_ok go_node_structs t = true /\
              roundtrip from_table to_table node_structs go_node_structs 40 t = Ok x /\
              x <> VNode (strip go_node_structs t) /\
              result_names x = VList [] /\ result_names (VNode (strip go_node_structs t)) = VNil.
Proof.
  exists ex_file. eexists. split; [vm_compute; reflexivity|]. split; [vm_compute; reflexivity|].
  assert (A : forall v, result_names v = VNil -> result_names v <> VList []) by (intros v -> ; discriminate).
  split; [|split; vm_compute; reflexivity].
  intros E. apply (f_equal result_names) in E. vm_compute in E. discriminate E.
Qed.

(* modulo nil/empty the example does round-trip (instance of C37_roundtrip, computed) *)
Example C37_example_roundtrip :
  option_map canon_v (match roundtrip from_table to_table node_structs go_node_structs 40 ex_file with Ok x => Some x | _ => None end)
  = Some (VNode (canon (strip go_node_structs ex_file))).
Proof. vm_compute. reflexivity. Qed.

(* ---- the obligation is sensitive: the defects repaired in /repo commit 53da883 make it false ---- *)
Definition map_fn (fn : string) (h : cfun -> cfun) (T : ctable) : ctable :=
  map (fun e => if String.eqb (fst e) fn then (fst e, h (snd e)) else e) T.
Definition drop_set (f : string) (c : cfun) : cfun :=
  match c with
  | FBuild ak nc (Build k sets) => FBuild ak nc (Build k (filter (fun s => negb (String.eqb (fst s) f)) sets))
  | c => c
  end.
Definition drop_case (k : string) (c : cfun) : cfun :=
  match c with
  | FSwitch nc cases => FSwitch nc (filter (fun s => negb (String.eqb (fst s) k)) cases)
  | c => c
  end.

Example C37_sensitive_typeparams :   (* goFuncType without TypeParams *)
  tables_preserve pairs from_table (map_fn "goFuncType" (drop_set "TypeParams") to_table) node_structs go_node_structs = false.
Proof. vm_compute. reflexivity. Qed.

Example C37_sensitive_indexlist :    (* goExpr without the IndexListExpr case *)
  tables_preserve pairs from_table (map_fn "goExpr" (drop_case "IndexListExpr") to_table) node_structs go_node_structs = false.
Proof. vm_compute. reflexivity. Qed.

Example C37_sensitive_tag :          (* gopField without Tag *)
  tables_preserve pairs (map_fn "gopField" (drop_set "Tag") from_table) to_table node_structs go_node_structs = false.
Proof. vm_compute. reflexivity. Qed.

Print Assumptions C37_tables_preserve.
Print Assumptions C37_roundtrip.
Print Assumptions C37_roundtrip_generic.
Print Assumptions C37_token_numbering_aligned.
Print Assumptions C37_token_numbering_aligned_spec.
Print Assumptions C37_roundtrip_refuted.
