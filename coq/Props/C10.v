(* C10 — overloaded functions dispatch on argument types.  Theorems only; proofs in Proofs/C10.v.
   gen_overloadFuncName / gen_overloadName / gen_indexTable / gen_binaryGopNames / gogen_* come from Gen/C10.v,
   regenerated from cl/compile.go (and gogen's import.go) on every run. *)
From Coq Require Import List NArith ZArith Bool Permutation.
Import ListNotations.
From V Require Import Base.Prelude Base.C10Prelude Gen.C10 Model.C10 Proofs.C10.
Open Scope Z_scope.

(* First-match dispatch (gogen tries the candidates in listing order) does not depend on the listing order when
   at most one candidate accepts any argument list.  `accepts` is arbitrary (go/types assignability, not modelled). *)
Theorem C10_resolve_perm_invariant : forall (C A : Type) (accepts : C -> A -> bool) cs cs' a,
  pairwise_distinguishable accepts cs -> Permutation cs cs' -> resolve accepts cs a = resolve accepts cs' a.
Proof. exact resolve_perm_any. Qed.

(* ... and it reaches the candidate whose parameters accept the arguments *)
Theorem C10_resolve_complete : forall (C A : Type) (accepts : C -> A -> bool) cs a c,
  pairwise_distinguishable accepts cs -> In c cs -> accepts c a = true -> resolve accepts cs a = Some c.
Proof. exact resolve_complete_any. Qed.

(* the functions cl declares for literal candidates have pairwise distinct names *)
Theorem C10_overload_names_injective : forall name idx idx',
  0 <= idx < 36 -> 0 <= idx' < 36 ->
  gen_overloadFuncName name idx = gen_overloadFuncName name idx' -> idx = idx'.
Proof. exact overload_names_injective_36. Qed.

Theorem C10_overload_names_injective_across : forall name name' idx idx',
  0 <= idx < 36 -> 0 <= idx' < 36 ->
  gen_overloadFuncName name idx = gen_overloadFuncName name' idx' -> name = name' /\ idx = idx'.
Proof. exact overload_names_injective_across_36. Qed.

(* overloadFuncName indexes a 36-character table: index 36 (the 37th literal candidate) panics *)
Theorem C10_overloadFuncName_panics_from_36 : forall name idx, 36 <= idx -> gen_overloadFuncName name idx = Panic.
Proof. exact overloadFuncName_panics_from_36. Qed.

(* cl and gogen use the same table and the prefix whose length gogen strips is "Gopo_" *)
Theorem C10_tables_agree : gogen_indexTable = gen_indexTable /\ gogen_gopoPrefix = [71;111;112;111;95]%N.
Proof. exact tables_agree_both. Qed.

(* THE TABLE: for a well-formed overload declaration (guards wf_odecl: 1..36 candidates; named candidates are
   non-empty and comma free; literal candidates only without receiver/operator; the (receiver, name) pair survives
   gogen's checkTypeMethod: no "__" inside a function name, receiver type known, non-empty, not ending in '_' and
   without "__" when the "__" separator is used), what gogen decodes from the Gopo_ constant cl emits is exactly
   the declaration: same receiver, same name, and the k-th looked-up name is the k-th candidate (the declared
   name__k function for a literal).  `lookup` (the package scope) is arbitrary. *)
Theorem C10_gopo_table_wellformed : forall lookup d cn cv lits,
  wf_odecl lookup d = true ->
  preload_overload d = Ok (Some (mkpre (Some (cn, cv)) lits)) ->
  exists nm es,
    eff_name d = Some nm /\
    decode_gopo lookup cn cv = Ok (orecv d, nm, es) /\
    expected_entries d 0 (ocands d) = Ok es /\
    lits = lit_entries (oname d) 0 (ocands d).
Proof. exact gopo_table_wellformed. Qed.

(* END TO END, from the declaration to the dispatched candidate: for a well-formed declaration whose candidates are
   pairwise distinguishable, in a scope that binds each candidate's name (the declared name__k for a literal) to that
   candidate, first-match dispatch over the objects gogen finds under the names it decodes from cl's constant
   reaches the candidate that accepts the arguments — wherever it is listed, whatever its style. *)
Theorem C10_dispatch_end_to_end : forall lookup lookup_fn (A : Type) (accepts : cand -> A -> bool) d cn cv lits a c,
  wf_odecl lookup d = true -> scope_binds lookup_fn d ->
  preload_overload d = Ok (Some (mkpre (Some (cn, cv)) lits)) ->
  pairwise_distinguishable accepts (ocands d) -> In c (ocands d) -> accepts c a = true ->
  exists r nm es,
    decode_gopo lookup cn cv = Ok (r, nm, es) /\
    resolve accepts (found_cands lookup_fn es) a = Some c.
Proof. exact dispatch_end_to_end. Qed.

(* the encoding of the constant's name, as characterised from the translated source *)
Theorem C10_overloadName_spec : forall recv name,
  gen_overloadName recv name false =
  Ok (RVal (gopo ++ sep_of recv name ++ match recv with Some r => r ++ sep_of recv name | None => [] end ++ name)).
Proof. exact gen_overloadName_plain. Qed.

(* ---- outside the guards the faithful model shows two defects (both reproduced on the implementation) ---- *)

Definition nolookup : str -> sobj := fun _ => SNone.
Definition x__y : str := [120;95;95;121]%N.      (* "x__y" *)
Definition mulInt : str := [109;117;108;73;110;116]%N.

(* `func x__y = ( mulInt ; func(a string) {...} )`: cl emits  const Gopo__x__y = "mulInt,"  and gogen's
   checkTypeMethod takes "x" for a receiver type: log.Panicf("checkTypeMethod: x not found ...") *)
Theorem C10_dunder_name_refuted :
  exists d cn cv lits,
    preload_overload d = Ok (Some (mkpre (Some (cn, cv)) lits)) /\ decode_gopo nolookup cn cv = Panic.
Proof.
  exists (mkodecl x__y None false false [mkcand (Named mulInt) [1%N] 0; mkcand Lit [2%N] 1]).
  eexists. eexists. eexists. split; vm_compute; reflexivity.
Qed.

(* `func (foo).* = ( (foo).mulInt ; func(a, b foo) ... )`: cl declares the literal as "*__1" while gogen looks for
   the method "Gop_Mul__1" *)
Definition foo : str := [102;111;111]%N.
Definition star : str := [42]%N.
Theorem C10_operator_literal_refuted :
  exists d cn cv lits es,
    preload_overload d = Ok (Some (mkpre (Some (cn, cv)) lits)) /\
    decode_gopo (fun t => if str_eqb t foo then SNamedType else SNone) cn cv = Ok (Some foo, [71;111;112;95;77;117;108]%N, es) /\
    nth 1 es [] = [46;71;111;112;95;77;117;108;95;95;49]%N /\           (* ".Gop_Mul__1" *)
    lits = [(1, [42;95;95;49]%N)].                                       (* "*__1" *)
Proof.
  exists (mkodecl star (Some foo) true false [mkcand (Meth mulInt) [1%N] 0; mkcand Lit [2%N] 1]).
  eexists. eexists. eexists. eexists. repeat split; vm_compute; reflexivity.
Qed.

(* ---- non-vacuity ---- *)
Definition my_fn : str := [109;121;95;102;110]%N.   (* "my_fn" *)
Definition T_ : str := [84;95;97]%N.                 (* "T_a" *)
Definition lk : str -> sobj := fun t => if str_eqb t T_ || str_eqb t foo then SNamedType else SNone.

Example C10_wf_examples :
  wf_odecl lk (mkodecl my_fn None false false [mkcand Lit [1%N] 0; mkcand (Named mulInt) [2%N] 1; mkcand Lit [3%N] 2]) = true /\
  wf_odecl lk (mkodecl my_fn (Some T_) false false [mkcand (Meth mulInt) [1%N] 0; mkcand (Meth my_fn) [2%N] 1]) = true /\
  wf_odecl lk (mkodecl star (Some foo) true false [mkcand (Meth mulInt) [1%N] 0; mkcand (Named my_fn) [2%N] 1]) = true.
Proof. vm_compute. auto. Qed.

Example C10_table_example :
  exists cn cv lits es,
    preload_overload (mkodecl my_fn (Some T_) false false [mkcand (Meth mulInt) [1%N] 0; mkcand (Meth my_fn) [2%N] 1])
      = Ok (Some (mkpre (Some (cn, cv)) lits)) /\
    cn = [71;111;112;111;95;95;84;95;97;95;95;109;121;95;102;110]%N /\        (* "Gopo__T_a__my_fn" *)
    decode_gopo lk cn cv = Ok (Some T_, my_fn, es) /\ length es = 2%nat.
Proof. eexists. eexists. eexists. eexists. repeat split; vm_compute; reflexivity. Qed.

Example C10_resolve_example :
  let cs := [mkcand Lit [1%N] 0; mkcand Lit [2%N] 1; mkcand Lit [1%N; 2%N] 2] in
  resolve_exact cs [2%N] = Some 1%N /\ resolve_exact (rev cs) [2%N] = Some 1%N /\ resolve_exact cs [3%N] = None.
Proof. vm_compute. auto. Qed.

(* a 37th literal candidate makes the compiler panic *)
Example C10_37_literals_panic :
  preload_overload (mkodecl my_fn None false false (repeat (mkcand Lit [1%N] 0) 37)) = Panic.
Proof. vm_compute. reflexivity. Qed.

Print Assumptions C10_resolve_perm_invariant.
Print Assumptions C10_resolve_complete.
Print Assumptions C10_overload_names_injective.
Print Assumptions C10_overload_names_injective_across.
Print Assumptions C10_overloadFuncName_panics_from_36.
Print Assumptions C10_tables_agree.
Print Assumptions C10_gopo_table_wellformed.
Print Assumptions C10_overloadName_spec.
Print Assumptions C10_dispatch_end_to_end.
Print Assumptions C10_dunder_name_refuted.
Print Assumptions C10_operator_literal_refuted.
