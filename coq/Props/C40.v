(* C40 — watch mode never loses or duplicates a changed directory (x/watcher/changes.go).
   Theorems only; proofs in Proofs/C40.v.

   The transition system (Model/C40.v) executes the statement lists of Changes.FileChanged and
   Changes.Fetch REGENERATED from /repo (Gen/ChangesOps.v): `greach n s` = state s is reachable
   from n idle goroutines by any interleaving of calls FileChanged(d) / Fetch and of the
   statements of the running calls (one transition per statement on the shared state; the mutex
   and the condition variable are explicit).  No bound on n, on the directories or on the length
   of the run.  hist s = the reports (the insert statement ran) and fetches (the take statement
   ran) in the order they happened. *)
From Coq Require Import List NArith Bool Arith String.
Import ListNotations.
From V Require Import Base.C40Ops Gen.ChangesOps Model.C40 Proofs.C40.

(* K-gen obligations: the statement sequences read from the source are the modelled ones; the
   set / the condition variable are touched by no other function; the Cond uses the mutex. *)
Theorem C40_tie_ops : gen_filechanged = model_filechanged /\ gen_fetch = model_fetch.
Proof. exact gen_is_model. Qed.

Theorem C40_tie_users :
  gen_changed_users = ["Fetch"; "FileChanged"; "NewChanges"]%string /\
  gen_cond_users = ["Fetch"; "FileChanged"; "NewChanges"]%string /\
  gen_cond_uses_mutex = true.
Proof. vm_compute. repeat split; reflexivity. Qed.

(* fetch never returns a directory that was not reported *)
Theorem C40_fetch_returns_reported : forall n s h1 d h2,
  greach n s -> hist s = h1 ++ EFetch d :: h2 -> In (EReport d) h1.
Proof. exact g_fetch_returns_reported. Qed.

(* at most once per report: between two fetches of d lies a report of d ... *)
Theorem C40_at_most_once_per_report : forall n s h1 d h2 h3,
  greach n s -> hist s = h1 ++ EFetch d :: h2 ++ EFetch d :: h3 -> In (EReport d) h2.
Proof. exact g_at_most_once_per_report. Qed.

(* ... and d is never fetched more often than it was reported *)
Theorem C40_fetches_le_reports : forall n s d, greach n s -> nfet d (log s) <= nrep d (log s).
Proof. exact g_fetches_le_reports. Qed.

(* no loss: every report of d is followed by a fetch of d, or d is still in the set *)
Theorem C40_no_loss : forall n s h1 d h2,
  greach n s -> hist s = h1 ++ EReport d :: h2 -> In (EFetch d) h2 \/ In d (changed s).
Proof. exact g_no_loss. Qed.

(* the set is exactly "reported and not fetched since" and holds no duplicates *)
Theorem C40_changed_is_pending : forall n s d, greach n s -> (In d (changed s) <-> pending (log s) d = true).
Proof. exact g_changed_is_pending. Qed.
Theorem C40_changed_nodup : forall n s, greach n s -> NoDup (changed s).
Proof. exact g_changed_nodup. Qed.

(* a returning Fetch returns a directory it took (never the zero value "") *)
Theorem C40_fetch_result : forall n s i r,
  greach n s -> gret_val s i = Some r -> exists d, r = Some d /\ In (EFetch d) (log s).
Proof. exact g_fetch_result. Qed.

(* the critical sections exclude each other; a thread inside one holds the mutex (so the Unlock
   statements never hit an unlocked mutex) *)
Theorem C40_mutual_exclusion : forall n s i j a b,
  greach n s -> nth_error (thr s) i = Some a -> nth_error (thr s) j = Some b ->
  holds a = true -> holds b = true -> i = j.
Proof. exact g_mutual_exclusion. Qed.
Theorem C40_holder_means_locked : forall n s p, greach n s -> In p (thr s) -> holds p = true -> locked s = true.
Proof. exact g_holder_means_locked. Qed.

(* no lost wake-up: if a fetcher is parked in Wait while the set is non-empty, a reporter that
   read n = 0 is between its insert and its Broadcast *)
Theorem C40_no_lost_wakeup : forall n s, greach n s ->
  (exists ip r, In (InG ip Parked r) (thr s)) -> changed s <> [] ->
  exists d ip, In (InF d ip 0) (thr s) /\ (ip = 3 \/ ip = 4).
Proof. exact g_no_lost_wakeup. Qed.

(* a waiting fetch wakes up once a change is reported — as far as a transition system can say it:
   (1) while the set is non-empty and some goroutine is inside Fetch the system can move;
   (2) without new calls it moves at most `mu s` times (a variant);
   (3) when it cannot move any more every goroutine has returned or is parked in Wait, and if
       one is parked the set is empty. *)
Theorem C40_waiting_fetch_progress : forall n s k p,
  greach n s -> nth_error (thr s) k = Some p -> in_fetch p = true -> changed s <> [] ->
  exists l s', internal l = true /\ gstep s l = Some s'.
Proof. exact g_waiting_fetch_progress. Qed.

Theorem C40_internal_runs_bounded : forall n s ls s',
  greach n s -> all_internal ls -> grun s ls = Some s' -> List.length ls + mu s' <= mu s.
Proof. exact g_internal_runs_bounded. Qed.

Theorem C40_stuck_means_drained : forall n s, greach n s -> gstuck s ->
  (forall p, In p (thr s) -> p = Idle \/ exists ip r, p = InG ip Parked r) /\
  ((exists ip r, In (InG ip Parked r) (thr s)) -> changed s = []).
Proof. exact g_stuck_spec. Qed.

(* the boolean test the model runner evaluates at every recorded observation "nothing moves any more"
   (printed as stuck=1) is exactly gstuck: so at such an observation C40_stuck_means_drained applies *)
Theorem C40_quiescent_is_stuck : forall s, quiescent s = true <-> gstuck s.
Proof. exact quiescent_gstuck. Qed.

(* ---- non-vacuity ---- *)
(* a fetcher parks on the empty set, a reporter inserts 7 and broadcasts, the fetcher wakes and takes 7 *)
Definition ex_run : list label :=
  [LCallG 0; LTau 0; LTau 0; LCallF 1 7%N; LTau 1; LTau 1; LTau 1; LTau 1; LTau 1; LRet 1;
   LTau 0; LTau 0; LTake 0 7%N; LTau 0; LRet 0].
Example C40_example_run :
  grun (init 2) ex_run = Some (mk [] false [Idle; Idle] [EFetch 7%N; EReport 7%N]).
Proof. vm_compute. reflexivity. Qed.

(* the premise of C40_no_lost_wakeup is reachable: parked fetcher, non-empty set, Broadcast pending *)
Example C40_example_parked_nonempty :
  greach 2 (mk [7%N] true [InG 1 Parked None; InF 7%N 3 0] [EReport 7%N]).
Proof.
  apply (grun_greach 2 (firstn 7 ex_run) (init 2)); [constructor|]. vm_compute. reflexivity.
Qed.

(* two reports of the same directory before a fetch are coalesced; the fetch returns it once *)
Example C40_example_coalesce :
  grun (init 2) [LCallF 0 3%N; LTau 0; LTau 0; LTau 0; LTau 0; LTau 0; LRet 0;
                 LCallF 0 3%N; LTau 0; LTau 0; LTau 0; LTau 0; LTau 0; LRet 0;
                 LCallG 1; LTau 1; LTau 1; LTake 1 3%N; LTau 1; LRet 1;
                 LCallG 1; LTau 1; LTau 1]
  = Some (mk [] false [Idle; InG 1 Parked None] [EFetch 3%N; EReport 3%N; EReport 3%N]).
Proof. vm_compute. reflexivity. Qed.

(* the take statement refuses a directory that is not in the set *)
Example C40_example_take_refused :
  grun (init 1) [LCallF 0 3%N; LTau 0; LTau 0; LTau 0; LTau 0; LTau 0; LRet 0;
                 LCallG 0; LTau 0; LTau 0; LTake 0 4%N] = None.
Proof. vm_compute. reflexivity. Qed.

Print Assumptions C40_tie_ops.
Print Assumptions C40_tie_users.
Print Assumptions C40_fetch_returns_reported.
Print Assumptions C40_at_most_once_per_report.
Print Assumptions C40_fetches_le_reports.
Print Assumptions C40_no_loss.
Print Assumptions C40_changed_is_pending.
Print Assumptions C40_changed_nodup.
Print Assumptions C40_fetch_result.
Print Assumptions C40_mutual_exclusion.
Print Assumptions C40_holder_means_locked.
Print Assumptions C40_no_lost_wakeup.
Print Assumptions C40_waiting_fetch_progress.
Print Assumptions C40_internal_runs_bounded.
Print Assumptions C40_stuck_means_drained.
Print Assumptions C40_quiescent_is_stuck.
