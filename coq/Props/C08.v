(* C08 — compilation output is deterministic.  Theorems only; proofs in Proofs/C08.v and
   Proofs/MapRanges.v.

   What is proved: (1) the compiler seen as a fold of an ARBITRARY per-file step over the files
   sorted by path does not depend on the presentation order of the files (any sorting algorithm,
   distinct paths); (2) the same for the concrete preload/redeclaration/emission-order model that
   is compared with cl.NewPackage on every run; (3) one permutation-invariance lemma per shape of
   map-range loop that occurs in cl/*.go and x/build/*.go; (4) every such loop of the current
   source is in the reviewed list (obligation by computation over the regenerated table);
   (5) the three loops that were order dependent (initGopPkg, gmxCheckProjs, x/build loadPackage) are
   sorted folds since their repair and have their positive theorem; no order-dependent site is left.  What is not proved: that the Recorder callbacks of the loops tagged KeyedEvents
   are order-insensitive (they are the user's), and that the reviewed tags describe the Go loop
   bodies correctly (reviewed by hand, pinned by the statement hash, explored by repetition). *)
From Coq Require Import List NArith Bool Permutation Sorting.Sorted String.
Import ListNotations.
From V Require Import Base.Prelude Model.C08 Proofs.C08 Gen.MapRanges Proofs.MapRanges.

(* (1) presentation order of the files is irrelevant, for every per-file step and initial state *)
Theorem C08_sorted_files_perm_invariant :
  forall (A St : Type) (step : St -> str * A -> St) (init : St) (fs fs' : list (str * A)),
    Permutation fs fs' -> NoDup (map fst fs) ->
    compile_files step init fs = compile_files step init fs'.
Proof. intros; apply sorted_files_perm_invariant; assumption. Qed.

(* sort.Slice / sort.Strings may be any sorting algorithm: every strictly sorted permutation of
   files with distinct paths IS sort_by_path *)
Theorem C08_sort_unique :
  forall (A : Type) (l l' : list (str * A)),
    NoDup (map fst l) -> Permutation l l' -> StronglySorted plt l' -> l' = sort_by_path l.
Proof. intros; apply sort_unique; assumption. Qed.

(* (2) the preload / redeclaration / emission-order model of NewPackage *)
Theorem C08_new_package_perm_invariant :
  forall xgo xgo' gof gof' : list srcfile,
    Permutation xgo xgo' -> Permutation gof gof' ->
    NoDup (map fst xgo) -> NoDup (map fst gof) ->
    new_package xgo gof = new_package xgo' gof'.
Proof. exact new_package_perm_invariant. Qed.

(* without the sort a non-commutative step sees the presentation order (why the sort matters) *)
Theorem C08_fold_order_matters :
  exists (step : list nat -> nat -> list nat) l l',
    Permutation l l' /\ fold_left step l [] <> fold_left step l' [].
Proof. exact fold_order_matters. Qed.

(* (3) loop shapes *)
Theorem C08_fold_commutative_perm :
  forall (S X : Type) (f : S -> X -> S),
    (forall s x y, f (f s x) y = f (f s y) x) ->
    forall l l', Permutation l l' -> forall s, fold_left f l s = fold_left f l' s.
Proof. exact @fold_commutative_perm. Qed.

Theorem C08_gopsyms_set_build_perm :
  forall (K : Type) (keqb : K -> K -> bool) (l l' : list K),
    Permutation l l' -> forall k, set_mem keqb k (set_build l) = set_mem keqb k (set_build l').
Proof. exact @set_build_perm. Qed.

Theorem C08_find_unique_perm :
  forall (X : Type) (p : X -> bool) (l l' : list X),
    (forall x y, In x l -> In y l -> p x = true -> p y = true -> x = y) ->
    Permutation l l' -> find p l = find p l'.
Proof. exact @find_unique_perm. Qed.

Theorem C08_errs_per_match_perm :
  forall (X E : Type) (mt : X -> bool) (e : X -> E) (l l' : list X),
    Permutation l l' -> (List.length (filter mt l) <= 1)%nat -> map e (filter mt l) = map e (filter mt l').
Proof. exact @errs_per_match_perm. Qed.

(* type switch: whatever order the map `seen` is iterated in at each case item (perm1, perm2
   arbitrary permuting functions), the same duplicate-case errors come out in the same order *)
Theorem C08_typeswitch_seen_perm :
  forall (T P : Type) (ident : T -> T -> bool),
    (forall a b, ident a b = ident b a) ->
    (forall a b c, ident a b = true -> ident b c = true -> ident a c = true) ->
    forall perm1 perm2 : list (T * P) -> list (T * P),
      (forall l, Permutation l (perm1 l)) -> (forall l, Permutation l (perm2 l)) ->
      forall cs, ts_cases ident perm1 cs = ts_cases ident perm2 cs.
Proof. exact @ts_cases_perm. Qed.

(* the duplicate detection of the type switch is COMPLETE when `ident` is an equivalence (types.Identical):
   a case whose type is identical to an earlier case's type is always reported, whatever the iteration
   order of `seen` (this is the diagnostic whose loss makes cl accept programs Go rejects: C06) *)
Theorem C08_typeswitch_duplicate_reported :
  forall (T P : Type) (ident : T -> T -> bool),
    (forall a, ident a a = true) ->
    (forall a b c, ident a b = true -> ident b c = true -> ident a c = true) ->
    forall perm : list (T * P) -> list (T * P), (forall l, Permutation l (perm l)) ->
      forall pre c mid d post, ident (fst d) (fst c) = true ->
        snd (ts_cases ident perm (pre ++ c :: mid ++ d :: post)) <> [].
Proof. intros. eapply ts_cases_complete; eauto. Qed.

(* ... and it is lost when identity of allocation is used instead (a map lookup seen[T]): two
   occurrences of an unnamed type such as []int are two allocations of one structure *)
Theorem C08_typeswitch_pointer_identity_misses :
  exists cs : list ((nat * nat) * nat),
    snd (ts_cases ident_struct (fun l => l) cs) <> [] /\ snd (ts_cases ident_ptr (fun l => l) cs) = [].
Proof. exact pointer_identity_misses_duplicate. Qed.

(* the same detection for expression switches over an interface value works on (value, type) pairs; keeping
   only the FIRST type seen for a value misses the duplicate `case int(100): case uint(100): case uint(100):` *)
Theorem C08_switch_first_type_only_misses :
  exists cs : list ((nat * nat) * nat),
    snd (ts_cases ident_vt (fun l => l) cs) <> [] /\ snd (fold_left sw_item_first_only (map fst cs) ([], 0)) = 0.
Proof. exact switch_first_only_misses. Qed.

(* a logging loop is order independent when at most one iteration logs *)
Theorem C08_log_loop_perm_at_most_one :
  forall (X E : Type) (body : X -> list E) (l l' : list X),
    Permutation l l' ->
    (List.length (filter (fun x => match body x with [] => false | _ => true end) l) <= 1)%nat ->
    flat_map body l = flat_map body l'.
Proof. exact @log_loop_perm_at_most_one. Qed.

(* (5) initGopPkg, gmxCheckProjs and x/build loadPackage (repaired in /repo): each now collects the
   map keys, sorts them and works over the SORTED keys, so the iteration order of the map is
   irrelevant whatever the per-key work does (an arbitrary logging body, first-writer-wins, first) *)
Theorem C08_initgoppkg_sorted_log_perm :
  forall (V E : Type) (body : str * V -> list E) (m m' : list (str * V)),
    Permutation m m' -> NoDup (map fst m) -> log_loop body (sort_by_path m) = log_loop body (sort_by_path m').
Proof. intros; apply log_loop_sorted_perm; assumption. Qed.

Theorem C08_gmxcheckprojs_sorted_first_wins_perm :
  forall (V : Type) (m m' : list (str * V)),
    Permutation m m' -> NoDup (map fst m) -> first_wins (sort_by_path m) = first_wins (sort_by_path m').
Proof. intros; apply first_wins_sorted_perm; assumption. Qed.

Theorem C08_loadpackage_sorted_pick_perm :
  forall (V : Type) (m m' : list (str * V)),
    Permutation m m' -> NoDup (map fst m) -> pick_any (sort_by_path m) = pick_any (sort_by_path m').
Proof. intros; apply pick_any_sorted_perm; assumption. Qed.

(* why the sorts matter (the three defects before the repair): the same loops over the map order *)
Theorem C08_unsorted_map_loops_order_dependent :
  (exists (body : nat -> list nat) l l', Permutation l l' /\ NoDup l /\ flat_map body l <> flat_map body l') /\
  (exists (m m' : list (nat * nat)), Permutation m m' /\ NoDup (map fst m) /\ first_wins m <> first_wins m') /\
  (exists (m m' : list (nat * nat)), Permutation m m' /\ NoDup (map fst m) /\ pick_any m <> pick_any m').
Proof. exact (conj log_loop_refuted (conj first_wins_refuted pick_any_refuted)). Qed.

Theorem C08_loadpackage_pick_any_singleton :
  forall (K V : Type) (m m' : list (K * V)),
    Permutation m m' -> (List.length m <= 1)%nat -> pick_any m = pick_any m'.
Proof. exact @pick_any_singleton. Qed.

(* (4) K-gen obligation: every map range of the current source has been reviewed *)
Theorem C08_map_ranges_reviewed :
  forall g, In g map_ranges -> exists r, In r reviewed /\ site_eqb g r = true.
Proof. exact map_ranges_reviewed_spec. Qed.

Theorem C08_no_order_dependent_site_left :
  order_dependent_sites = []%string.
Proof. exact order_dependent_are_listed. Qed.

(* ---- non-vacuity ---- *)
Open Scope N_scope.
Definition s (l : list N) : str := l.
Definition fa : srcfile := (s [97;46;120], [s [65]; s [105;110;105;116]]).        (* a.x: A, init *)
Definition fb : srcfile := (s [98;46;120], [s [66]; s [65]]).                      (* b.x: B, A  *)
Definition fc : srcfile := (s [99;46;120], [s [67]]).                              (* c.x: C     *)
Definition g0 : srcfile := (s [48;46;103], [s [67]; s [68]]).                      (* 0.g: C, D  *)

(* no redeclaration: emission order follows the sorted paths whatever the presentation order *)
Example C08_example_order :
  new_package [fc; fa] [] = ([], [s [65]; s [67]; s [105;110;105;116]; name_main]) /\
  new_package [fa; fc] [] = ([], [s [65]; s [67]; s [105;110;105;116]; name_main]).
Proof. split; vm_compute; reflexivity. Qed.

(* redeclarations across XGo and Go files: reported by the later file in sorted order *)
Example C08_example_redecl :
  new_package [fb; fa; fc] [g0] =
    ([(s [65], s [98;46;120], s [97;46;120]); (s [67], s [48;46;103], s [99;46;120])], []).
Proof. vm_compute. reflexivity. Qed.

Close Scope N_scope.
Example C08_example_hyps : Permutation [fb; fa; fc] [fa; fc; fb] /\ NoDup (map fst [fb; fa; fc]).
Proof.
  split.
  - apply Permutation_cons_app with (l1 := [fa; fc]) (l2 := []). apply Permutation_refl.
  - repeat constructor; cbn; intuition discriminate.
Qed.

Example C08_example_typeswitch :
  ts_cases Nat.eqb (fun l => l) [(1, 10); (2, 20); (1, 30); (1, 40)]%nat =
  ts_cases Nat.eqb (@rev _) [(1, 10); (2, 20); (1, 30); (1, 40)]%nat /\
  snd (ts_cases Nat.eqb (@rev _) [(1, 10); (2, 20); (1, 30); (1, 40)]%nat) = [(1, 30, 10); (1, 40, 10)]%nat.
Proof. split; vm_compute; reflexivity. Qed.

Example C08_example_sites : (List.length map_ranges >= 8)%nat /\ all_reviewed = true.
Proof. split; vm_compute; [repeat constructor|reflexivity]. Qed.

Print Assumptions C08_sorted_files_perm_invariant.
Print Assumptions C08_sort_unique.
Print Assumptions C08_new_package_perm_invariant.
Print Assumptions C08_fold_order_matters.
Print Assumptions C08_fold_commutative_perm.
Print Assumptions C08_gopsyms_set_build_perm.
Print Assumptions C08_find_unique_perm.
Print Assumptions C08_errs_per_match_perm.
Print Assumptions C08_typeswitch_seen_perm.
Print Assumptions C08_typeswitch_duplicate_reported.
Print Assumptions C08_typeswitch_pointer_identity_misses.
Print Assumptions C08_switch_first_type_only_misses.
Print Assumptions C08_log_loop_perm_at_most_one.
Print Assumptions C08_initgoppkg_sorted_log_perm.
Print Assumptions C08_gmxcheckprojs_sorted_first_wins_perm.
Print Assumptions C08_loadpackage_sorted_pick_perm.
Print Assumptions C08_unsorted_map_loops_order_dependent.
Print Assumptions C08_loadpackage_pick_any_singleton.
Print Assumptions C08_map_ranges_reviewed.
Print Assumptions C08_no_order_dependent_site_left.
