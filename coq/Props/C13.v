(* C13 — the parser never panics or hangs and reports sorted errors.
   Theorems only; proofs in Proofs/C13.v; models in Model/C13.v; tables in Gen/C13Parser.v.

   What is proved here is the part of C13 that rests on four small mechanisms (parser.error,
   parser.advance, the three recover wrappers, ErrorList.Sort) and on audit tables regenerated
   from parser/*.go.  What is NOT proved: absence of panics and termination inside the 4 kLOC
   recursive-descent body — C13_wrapper_reraises states that the wrappers do not provide it;
   that part of the quantifier is explored by the fuzzing oracle of checks/c13.py.

   Full statement of C13 (not a theorem):
     forall src mode, exists f errs, ParseFile src mode = (f, errs) /\ Sorted errs /\
       (errs = [] -> no Bad node in f)          (and the same for ParseExpr / ParseEntry)        *)
From Coq Require Import List NArith ZArith Bool Sorted Permutation.
Import ListNotations.
From V Require Import Base.Prelude Gen.C13Parser Model.C13 Proofs.C13.
Local Open Scope nat_scope.

(* ---------------------------------------------------------------- error bookkeeping *)
(* after ANY call of p.error the list is non-empty: recorded, discarded (same line as the last
   recorded one) or bailing out (more than error_limit recorded) *)
Theorem C13_error_call_leaves_errors : forall all errs e, snd (p_error all errs e) <> [].
Proof. exact p_error_nonempty. Qed.

Theorem C13_error_cases : forall all errs e,
  (p_error all errs e = (Ret tt, errs ++ [e])) \/
  (p_error all errs e = (Ret tt, errs) /\ all = false /\ errs <> [] /\ last_line errs = Some (e_line e)) \/
  (p_error all errs e = (Bailout, errs) /\ all = false /\ (zlen errs > error_limit)%Z).
Proof. exact p_error_cases. Qed.

(* errors_nonempty_after_error: whatever else happens in a parse (scanner errors, appended
   sub-parser errors, normal end or bailout), one call of p.error makes err != nil *)
Theorem C13_errors_nonempty_after_error : forall all evs errs bad e o es b,
  In (EvP e) evs -> run_events all evs errs bad = (o, es, b) -> es <> [].
Proof. exact run_events_nonempty_after_error. Qed.

(* p.errors only grows *)
Theorem C13_errors_monotone : forall all evs errs bad o es b,
  run_events all evs errs bad = (o, es, b) -> exists suf, es = errs ++ suf.
Proof. exact run_events_prefix. Qed.

(* without AllErrors at most error_limit+1 errors come through p.error *)
Theorem C13_error_limit : forall evs o es b,
  run_events false evs [] 0 = (o, es, b) ->
  (zlen es <= error_limit + 1 + Z.of_nat (foreign_count evs))%Z.
Proof. exact run_events_bound0. Qed.

(* a parse never ends in a panic raised by the error bookkeeping other than the bailout *)
Theorem C13_events_no_other_panic : forall all evs errs bad v es b, run_events all evs errs bad <> (Raise v, es, b).
Proof. exact run_events_no_raise. Qed.

(* ---------------------------------------------------------------- Sort *)
Theorem C13_sort_sorted : forall l, StronglySorted err_leP (sort_errs l) /\ Sorted pos_le (sort_errs l) /\ Permutation l (sort_errs l).
Proof. exact sort_all. Qed.

(* ---------------------------------------------------------------- wrappers over an ARBITRARY body *)
(* wrapper_sorted: whatever the body does, a returning parseFile / ParseExprFrom hands out a
   sorted permutation of what was recorded *)
Theorem C13_wrapper_sorted : forall (F : Type) (empty : F) (b : body (option F)) f es,
  file_wrapper empty b = WRet f es ->
  StronglySorted err_leP es /\ Sorted pos_le es /\ Permutation (snd (b [])) es.
Proof. exact @file_wrapper_sorted. Qed.

Theorem C13_expr_wrapper_sorted : forall (E : Type) (b : body E) x es,
  expr_wrapper b = WRet x es -> StronglySorted err_leP es /\ Sorted pos_le es /\ Permutation (snd (b [])) es.
Proof. exact @expr_wrapper_sorted. Qed.

(* bailout swallowed, everything else re-raised *)
Theorem C13_wrapper_panic_iff : forall (F : Type) (empty : F) (b : body (option F)) v,
  file_wrapper empty b = WPanic v <-> fst (b []) = Raise v.
Proof. exact @file_wrapper_panic_iff. Qed.
Theorem C13_expr_wrapper_panic_iff : forall (E : Type) (b : body E) v, expr_wrapper b = WPanic v <-> fst (b []) = Raise v.
Proof. exact @expr_wrapper_panic_iff. Qed.
Theorem C13_exprex_wrapper_panic_iff : forall (E : Type) (b : body E) v, exprex_wrapper b = WPanic v <-> fst (b []) = Raise v.
Proof. exact @exprex_wrapper_panic_iff. Qed.

Theorem C13_wrapper_bailout_swallowed : forall (F : Type) (empty : F) (b : body (option F)),
  fst (b []) = Bailout -> file_wrapper empty b = WRet empty (sort_errs (snd (b []))).
Proof. exact @file_wrapper_bailout. Qed.

(* wrapper_reraises: the skeleton alone does not make the parser panic-free *)
Theorem C13_wrapper_reraises : forall (F : Type) (empty : F) v, exists b : body (option F), file_wrapper empty b = WPanic v.
Proof. exact @wrapper_reraises. Qed.

(* ParseExprEx sorts as well (it returns the ErrorList itself) *)
Theorem C13_exprex_wrapper_sorted : forall (E : Type) (b : body E) x es,
  exprex_wrapper b = WRet x es -> StronglySorted err_leP es /\ Sorted pos_le es /\ Permutation (snd (b [])) es.
Proof. exact @exprex_wrapper_sorted. Qed.

(* err == nil  iff  nothing was recorded *)
Theorem C13_wrapper_err_nil : forall (F : Type) (empty : F) (b : body (option F)) f es,
  file_wrapper empty b = WRet f es -> (err_is_nil es = true <-> snd (b []) = []).
Proof. exact @file_wrapper_err_nil. Qed.

(* err == nil => no Bad node, for every execution in which each Bad node has an error witness
   (which is what the site audit bad_sites_ok establishes syntactically for parser/*.go) *)
Theorem C13_err_nil_no_bad : forall all evs f es,
  audited evs ->
  file_wrapper 0 (fun e0 => match trace_body all evs e0 with
                            | (Ret n, x) => (Ret (Some n), x) | (Bailout, x) => (Bailout, x) | (Raise v, x) => (Raise v, x) end)
    = WRet f es ->
  err_is_nil es = true -> f = 0 /\ existsb is_bad evs = false.
Proof. exact bad_implies_error. Qed.

(* ... and a sub-parser whose errors are dropped breaks it (parser.domainTextLitEx today) *)
Theorem C13_dropped_subparser_errors_refuted :
  exists evs es, In (EvDrop es) evs /\ es <> [] /\ existsb is_bad evs = true /\
    run_events false evs [] 0 = (Ret tt, [], 1).
Proof. exact subparser_drop_counterexample. Qed.

(* the two class-5 Bad sites (`if cond == nil { cond = &ast.BadExpr{} }` in parseIfHeader and
   parseForPhraseCond): on every path of the header skeleton, cond == nil implies that an error
   was reported before *)
Theorem C13_header_cond_nil_implies_error : forall t0 t1 t2,
  fst (header_skeleton t0 t1 t2) = true -> snd (header_skeleton t0 t1 t2) = true.
Proof. exact header_cond_nil_implies_error. Qed.
Example C13_example_header : exists t0 t1 t2, header_skeleton t0 t1 t2 = (true, true).
Proof. exact header_cond_nil_possible. Qed.

(* ---------------------------------------------------------------- advance *)
(* advance_progress: among any advance_slack+1 (= 12) consecutive calls of advance with arbitrary
   sync sets and no token consumed in between, at least one consumes a token *)
Theorem C13_advance_progress : forall steps ts sp sc,
  (0 <= sc)%Z -> ts <> [] -> Forall (fun s => s_drop s = 0) steps -> length steps = advance_slack + 1 ->
  length (fst (fst (run_steps steps ts sp sc))) < length ts.
Proof. exact advance_progress. Qed.

(* ... and advance_slack (= 11) calls can all return without consuming: the bound is exact *)
Theorem C13_advance_slack_tight :
  exists ts steps, length steps = advance_slack /\ Forall (fun s => s_drop s = 0) steps /\
    fst (fst (run_steps steps ts 0 0)) = ts /\ ts <> [].
Proof. exact advance_slack_tight. Qed.

(* sync_loop_terminates with the explicit fuel (advance_slack+1) * (|tokens|+1) *)
Theorem C13_sync_loop_terminates : forall steps ts sp sc,
  (0 <= sc)%Z -> sync_fuel (length ts) <= length steps -> fst (fst (run_steps steps ts sp sc)) = [].
Proof. exact sync_loop_terminates. Qed.

Theorem C13_advance_only_consumes : forall to ts sp sc ts' sp' sc',
  (0 <= sc)%Z -> advance to ts sp sc = (ts', sp', sc') -> (0 <= sc')%Z /\ exists n, ts' = skipn n ts.
Proof. exact advance_only_consumes. Qed.

(* ---------------------------------------------------------------- K-gen obligations (tables from /repo) *)
Theorem C13_gen_entries_ok : forallb entry_ok entries = true /\ wrappers_present = true.
Proof. exact entries_ok. Qed.
Theorem C13_gen_bad_sites_ok : forallb (fun s => negb (Z.eqb (snd s) 0)) bad_sites = true /\ bad_sites <> [].
Proof. exact bad_sites_ok. Qed.
Theorem C13_gen_pinned_bodies_ok : bodies_eqb pinned_bodies reviewed_bodies = true.
Proof. exact pinned_bodies_ok. Qed.
Theorem C13_gen_panic_sites_ok :
  bodies_eqb (map (fun s => (fst (fst s), snd s)) panic_sites) reviewed_panics = true /\
  forallb (fun s => str_eqb (snd (fst s)) panic_name) panic_sites = true.
Proof. exact panic_sites_ok. Qed.
Theorem C13_gen_errors_writes_ok : forallb (fun s => negb (Z.eqb (snd s) 0)) errors_writes = true.
Proof. exact errors_writes_ok. Qed.

(* ---------------------------------------------------------------- non-vacuity *)
Definition ex_err (l c : N) := mkErr l c 0.
(* 13 errors on 13 lines: 11 recorded, then bailout *)
Example C13_example_bailout :
  run_events false (map (fun i => EvP (ex_err (N.of_nat i) 1)) (seq 1 13)) [] 0
  = (Bailout, map (fun i => ex_err (N.of_nat i) 1) (seq 1 11), 0).
Proof. vm_compute. reflexivity. Qed.
(* same-line discard, with a scanner error in between *)
Example C13_example_discard :
  run_events false [EvP (ex_err 1 1); EvP (ex_err 1 5); EvS (ex_err 2 3); EvP (ex_err 2 9); EvBad; EvP (ex_err 3 1)] [] 0
  = (Ret tt, [ex_err 1 1; ex_err 2 3; ex_err 3 1], 1).
Proof. vm_compute. reflexivity. Qed.
Example C13_example_all_errors :
  run_events true [EvP (ex_err 1 1); EvP (ex_err 1 5)] [] 0 = (Ret tt, [ex_err 1 1; ex_err 1 5], 0).
Proof. vm_compute. reflexivity. Qed.
Example C13_example_sort : sort_errs [ex_err 3 1; ex_err 1 7; ex_err 1 2] = [ex_err 1 2; ex_err 1 7; ex_err 3 1].
Proof. vm_compute. reflexivity. Qed.
Example C13_example_wrapper :
  file_wrapper 0 (fun es => (Bailout, es ++ [ex_err 2 1; ex_err 1 1])) = WRet 0 [ex_err 1 1; ex_err 2 1].
Proof. vm_compute. reflexivity. Qed.
(* advance(stmtStart) over  ) ) var x : skips two tokens, stops at `var` and synchronises *)
Example C13_example_advance :
  advance sync_stmtStart [mkTok 3 tk_RPAREN; mkTok 5 tk_RPAREN; mkTok 7 tk_VAR; mkTok 11 tk_IDENT] 0 0
  = ([mkTok 7 tk_VAR; mkTok 11 tk_IDENT], 7%Z, 0%Z).
Proof. vm_compute. reflexivity. Qed.
Example C13_example_audited : audited [EvP (ex_err 1 1); EvBad].
Proof. intros _. reflexivity. Qed.

Print Assumptions C13_error_call_leaves_errors.
Print Assumptions C13_error_cases.
Print Assumptions C13_errors_nonempty_after_error.
Print Assumptions C13_errors_monotone.
Print Assumptions C13_error_limit.
Print Assumptions C13_events_no_other_panic.
Print Assumptions C13_sort_sorted.
Print Assumptions C13_wrapper_sorted.
Print Assumptions C13_expr_wrapper_sorted.
Print Assumptions C13_wrapper_panic_iff.
Print Assumptions C13_expr_wrapper_panic_iff.
Print Assumptions C13_exprex_wrapper_panic_iff.
Print Assumptions C13_wrapper_bailout_swallowed.
Print Assumptions C13_wrapper_reraises.
Print Assumptions C13_exprex_wrapper_sorted.
Print Assumptions C13_wrapper_err_nil.
Print Assumptions C13_err_nil_no_bad.
Print Assumptions C13_dropped_subparser_errors_refuted.
Print Assumptions C13_header_cond_nil_implies_error.
Print Assumptions C13_advance_progress.
Print Assumptions C13_advance_slack_tight.
Print Assumptions C13_sync_loop_terminates.
Print Assumptions C13_advance_only_consumes.
Print Assumptions C13_gen_entries_ok.
Print Assumptions C13_gen_bad_sites_ok.
Print Assumptions C13_gen_pinned_bodies_ok.
Print Assumptions C13_gen_panic_sites_ok.
Print Assumptions C13_gen_errors_writes_ok.
