(* C30 — TPL result helpers fold lists left to right (tpl/tpl.go: List, ListOp, RangeOp,
   BinaryOpNR/R, BinaryExprNR/R).  Theorems only; proofs in Proofs/C30.v.

   [mk_list r0 [(s1,r1);…;(sn,rn)]] is the result  [r0, [[s1,r1],…,[sn,rn]]]  of  R % sep. *)
From Coq Require Import List ZArith Bool.
Import ListNotations.
From V Require Import Base.Prelude Base.TplRes Model.C30 Proofs.C30 Proofs.C30Expr.

(* List returns the R results in source order *)
Theorem C30_list_flatten : forall r0 pairs, list_ (mk_list r0 pairs) = Ok (r0 :: map snd pairs).
Proof. exact list_flatten. Qed.

(* ListOp applies fn to the R results in source order (left-to-right sequential map) *)
Theorem C30_list_op_in_order : forall (T : Type) (fn : res -> M T) r0 pairs,
  list_op fn (mk_list r0 pairs) = mapM fn (r0 :: map snd pairs).
Proof. exact @list_op_map. Qed.

(* RangeOp visits exactly the R results, in source order, and completes *)
Theorem C30_range_op_in_order : forall r0 pairs, range_op (mk_list r0 pairs) = (r0 :: map snd pairs, true).
Proof. exact range_op_order. Qed.

(* BinaryOp(false, …) = left fold with the separators in order:  fn sn (… (fn s1 r0 r1) …) rn *)
Theorem C30_binary_op_fold_left : forall fn r0 ps,
  bop_nr fn (mk_list r0 (tok_pairs ps)) = foldM (fun a p => fn (fst p) a (snd p)) ps r0.
Proof. exact bop_nr_fold_left. Qed.

Theorem C30_binary_op_fold_left_pure : forall (f : nat -> res -> res -> res) r0 ps,
  bop_nr (fun op x y => Ok (f op x y)) (mk_list r0 (tok_pairs ps))
  = Ok (fold_left (fun a p => f (fst p) a (snd p)) ps r0).
Proof. exact bop_nr_fold_left_pure. Qed.

(* BinaryOp(true, …) on list results nested to ANY depth = the recursive left fold [nx_eval]:
   each operand that is itself a list result is folded first, then combined left to right *)
Theorem C30_binary_op_r_nested : forall fn x0 ps, nx_ok (NNode x0 ps) = true ->
  bop_r fn (nx_res (NNode x0 ps)) = nx_eval fn (NNode x0 ps).
Proof. exact bop_r_nested_node. Qed.

(* without nested list operands the recursive and non-recursive variants coincide *)
Theorem C30_binary_op_r_flat : forall fn r0 ps, not_list r0 = true ->
  forallb (fun p => not_list (snd p)) ps = true ->
  bop_r fn (RList (mk_list r0 (tok_pairs ps))) = bop_nr fn (mk_list r0 (tok_pairs ps)).
Proof. exact bop_r_flat. Qed.

(* BinaryExpr(false, …) builds the left-nested BinaryExpr tree, i.e. BinaryOp with the
   node-building callback *)
Theorem C30_binary_expr_fold_left : forall r0 ps, is_expr r0 = true ->
  forallb (fun p => is_expr (snd p)) ps = true ->
  bexpr_nr (mk_list r0 (tok_pairs ps)) = Ok (fold_left (fun a p => RApp (fst p) a (snd p)) ps r0).
Proof. exact bexpr_nr_fold_left. Qed.

(* BinaryExpr(true, …) on list results nested to any depth whose leaves are ast.Expr values builds the
   left-nested BinaryExpr tree of the recursive fold *)
Theorem C30_binary_expr_r_nested : forall x0 ps, nx_exprs (NNode x0 ps) = true ->
  bexpr_r (nx_res (NNode x0 ps)) = Ok (nx_tree (NNode x0 ps)).
Proof. exact bexpr_r_nested_node. Qed.

(* the README calculator  expr = operand % ("*"|"/") % ("+"|"-")  folded with
   BinaryOp(true, self, fn) computes, for EVERY sequence n0 op1 n1 … opk nk, the value of the
   precedence-climbing reference evaluator *)
Theorem C30_calc_correct : forall n0 rest, exists v, eval_ref n0 rest = Some v /\ calc n0 rest = Ok (RVal v).
Proof. exact calc_flat_correct. Qed.

(* and for any two-level result structure with any token identities *)
Theorem C30_calc_correct_struct : forall kind s, sum_ok s = true -> kind_ok kind s ->
  exists v, eval_ref (fst (sum_flat s)) (snd (sum_flat s)) = Some v /\
            bop_r (calc_fn kind) (nx_res (sum_nx s)) = Ok (RVal v).
Proof. exact calc_correct. Qed.

(* non-vacuity *)
Example C30_example_list :
  list_ (mk_list (RTok 0) [(RTok 1, RTok 2); (RTok 3, RTok 4)]) = Ok [RTok 0; RTok 2; RTok 4].
Proof. reflexivity. Qed.
Example C30_example_left_assoc :   (* 8 - 3 - 2 = 3, not 7 *)
  calc 8 [(ASub, 3%Z); (ASub, 2%Z)] = Ok (RVal 3) /\ eval_ref 8 [(ASub, 3%Z); (ASub, 2%Z)] = Some 3%Z.
Proof. split; vm_compute; reflexivity. Qed.
Example C30_example_precedence :   (* 1 + 2 * 3 - 8 / 2 * 3 = 1 + 6 - 12 = -5 *)
  calc 1 [(AAdd, 2%Z); (AMul, 3%Z); (ASub, 8%Z); (AQuo, 2%Z); (AMul, 3%Z)] = Ok (RVal (-5)).
Proof. vm_compute. reflexivity. Qed.
Example C30_example_nested :
  bop_r fn_sym (nx_res (NNode (NNode (NLeaf (RVal 1)) [(1, NLeaf (RVal 2))]) [(3, NNode (NLeaf (RVal 3)) [(5, NLeaf (RVal 4))])]))
  = Ok (RApp 3 (RApp 1 (RVal 1) (RVal 2)) (RApp 5 (RVal 3) (RVal 4))).
Proof. reflexivity. Qed.
(* a malformed input panics (type assertion / index), as in Go *)
Example C30_example_panic : list_ [RTok 0] = Panic /\ bop_nr fn_sym [RVal 1; RList [RList [RVal 7; RVal 2]]] = Panic.
Proof. split; reflexivity. Qed.

Print Assumptions C30_list_flatten.
Print Assumptions C30_list_op_in_order.
Print Assumptions C30_range_op_in_order.
Print Assumptions C30_binary_op_fold_left.
Print Assumptions C30_binary_op_fold_left_pure.
Print Assumptions C30_binary_op_r_nested.
Print Assumptions C30_binary_op_r_flat.
Print Assumptions C30_binary_expr_fold_left.
Print Assumptions C30_binary_expr_r_nested.
Print Assumptions C30_calc_correct.
Print Assumptions C30_calc_correct_struct.
